/-
C09 — page life cycle of one lane (`Model/C09Page.lean`): the inductive invariant.

`LInv l`      facts about the lane's own words (counters, `head_page`, `tail_page`, the chain of linked pages, masks, slots),
              phrased with the ghost counters `U` (pages unlinked at the head), `L` (pages linked at the tail) and the ghost
              phase of the current `page_mutex` section.
`Loc l j t`   what thread `j` may rely on at its program counter (its round is the lane's turn, it holds the mutex, its private
              page is still pending / already retired, …) and what its remaining operations need (rounds not yet handed out).
`Inv s`       both, for every thread, plus disjointness of the rounds of different threads.
All of it is conditional on `poisoned = false` (no page allocation failed so far).
-/
import TbbVerif.Model.C09Page

namespace TbbVerif.C09.Pg

/-- `(a, b) ≤ (c, d)` / `<` on rounds given as (page, slot) -/
@[reducible] def rle (a b c d : Nat) : Prop := a < c ∨ (a = c ∧ b ≤ d)
@[reducible] def rlt (a b c d : Nat) : Prop := a < c ∨ (a = c ∧ b < d)

structure LInv (l : Lane) : Prop where
  clean : l.clean
  odd : l.odd = false
  ipp : 0 < l.ipp
  tI : l.tI < l.ipp
  hI : l.hI < l.ipp
  ht : rle l.hP l.hI l.tP l.tI
  Lrel : (l.tI ≠ 0 → l.L = l.tP + 1) ∧ (l.tI = 0 → l.L = l.tP ∨ l.L = l.tP + 1)
  Urel : l.U = l.hP ∨ (l.U = l.hP + 1 ∧ l.hI + 1 = l.ipp ∧ rlt l.hP l.hI l.tP l.tI ∧ l.mv = true)
  hpC : (l.U < l.L → l.hp = .pg l.U) ∧ (l.U = l.L → l.hp = if l.ph = .linkHalf then .pg l.L else .null)
  tpC : (l.ph ≠ .unlinkHalf → l.tp = if l.U < l.L then .pg (l.L - 1) else .null) ∧ (l.ph = .unlinkHalf → l.U = l.L)
  chain : ∀ n, l.U ≤ n → n < l.L → (l.pages n).st = .live ∧
    (l.pages n).next = (if n + 1 < l.L then .pg (n + 1) else if l.ph = .linkHalf then .pg l.L else .null)
  mxPh : l.mutex = none → l.ph = .idle
  freed : ∀ n, (l.pages n).st = .freed → n < l.hP
  consR : ∀ n k v, l.slot n k = .cons v → rle l.hP l.hI n k ∧ rle n k l.tP l.tI ∧ (l.mv = true → ¬(n = l.hP ∧ k = l.hI)) ∧ k < l.ipp
  maskR : ∀ n k, k < l.ipp → rle l.hP l.hI n k → rlt n k l.tP l.tI → (l.mv = true → ¬(n = l.hP ∧ k = l.hI)) →
    ((l.pages n).mask k = true ↔ ∃ v, l.slot n k = .cons v)
  mvR : l.mv = true → rlt l.hP l.hI l.tP l.tI
  deliv : ∀ e, e ∈ l.delivered → l.slot e.1 e.2.1 = .dead e.2.2

theorem LInv.UleL {l : Lane} (h : LInv l) : l.U ≤ l.L := by
  have h1 := h.ht; have h2 := h.Lrel; have h3 := h.Urel; have h4 := h.tI; have h5 := h.hI
  simp only [rle, rlt] at h1 h3
  by_cases hz : l.tI = 0
  · have := h2.2 hz; omega
  · have := h2.1 hz; omega

/-- what an operation that has not started yet needs: its round has not been handed out -/
def futOK (l : Lane) : LOp → Prop
  | .push n i _ _ => i < l.ipp ∧ rle l.tP l.tI n i ∧ (i = 0 → (l.pages n).st = .unalloc) ∧
      l.slot n i = .uninit ∧ (l.pages n).mask i = false
  | .pop n i => i < l.ipp ∧ rle l.hP l.hI n i ∧ (l.hP = n ∧ l.hI = i → l.mv = false)

/-! ### program-counter classes -/

def isA : Pc → Bool
  | .aLock | .aStoreTc | .aLdTail | .aLink | .aSetTail | .aUnlock => true
  | _ => false
def isPushPc : Pc → Bool
  | .pTurn | .pLock | .pLdTail | .pLink | .pSetTail | .pUnlock | .pLdTail2 | .pCons | .pMaskLd | .pMaskSt | .pAdv _ => true
  | _ => false
def isPopPc : Pc → Bool
  | .cHead | .cTail | .cPage | .cMask | .cMove | .fLock | .fNext | .fSetHead | .fSetTail | .fUnlock | .fPub | .fFree => true
  | _ => false
/-- the private page of a push is allocated but not yet linked -/
def pendPc : Pc → Bool
  | .pTurn | .pLock | .pLdTail | .pLink | .pSetTail => true
  | _ => false
/-- the push owns the lane's tail turn -/
def secP : Pc → Bool
  | .pLock | .pLdTail | .pLink | .pSetTail | .pUnlock | .pLdTail2 | .pCons | .pMaskLd | .pMaskSt | .pAdv _ => true
  | _ => false
def lockP : Pc → Bool
  | .pLock | .pLdTail | .pLink | .pSetTail | .pUnlock => true
  | _ => false
def mxP : Pc → Bool
  | .pLdTail | .pLink | .pSetTail | .pUnlock => true
  | _ => false
def idleP : Pc → Bool
  | .pLdTail | .pLink | .pUnlock => true
  | _ => false
/-- the page of the push's slot is linked and `p` points to it -/
def linkedP : Pc → Bool
  | .pUnlock | .pCons | .pMaskLd | .pMaskSt | .pAdv _ => true
  | _ => false
def rawP : Pc → Bool
  | .pLock | .pLdTail | .pLink | .pSetTail | .pUnlock | .pLdTail2 | .pCons => true
  | _ => false
def builtP : Pc → Bool
  | .pMaskLd | .pMaskSt => true
  | _ => false

structure PushLoc (l : Lane) (tid : Nat) (t : LTh) (n i v : Nat) (f : Fail) : Prop where
  pcs : isPushPc t.pc = true
  ilt : i < l.ipp
  pre : t.pc = .pTurn → rle l.tP l.tI n i ∧ (i ≠ 0 → t.p = .null) ∧ l.slot n i = .uninit ∧ (l.pages n).mask i = false
  pend : pendPc t.pc = true → i = 0 → t.p = .pg n ∧ (l.pages n).st = .live ∧ (l.pages n).next = .null ∧
    (∀ k, (l.pages n).mask k = false) ∧ l.L ≤ n
  sec : secP t.pc = true → l.tP = n ∧ l.tI = i
  i0 : lockP t.pc = true → i = 0
  i1 : t.pc = .pLdTail2 → i ≠ 0
  mx : mxP t.pc = true → l.mutex = some tid
  phI : idleP t.pc = true → l.ph = .idle
  phL : t.pc = .pSetTail → l.ph = .linkHalf
  qv : t.pc = .pLink → t.q = l.tp
  lk : linkedP t.pc = true → t.p = .pg n ∧ l.L = n + 1
  raw : rawP t.pc = true → l.slot n i = .uninit ∧ (l.pages n).mask i = false
  built : builtP t.pc = true → l.slot n i = .cons v ∧ (l.pages n).mask i = false
  msk : t.pc = .pMaskSt → t.m = (l.pages n).mask
  advT : t.pc = .pAdv true → l.slot n i = .cons v ∧ (l.pages n).mask i = true
  advF : t.pc = .pAdv false → l.slot n i = .failed ∧ (l.pages n).mask i = false

/-- the pop owns the lane's head turn -/
def secC : Pc → Bool
  | .cTail | .cPage | .cMask | .cMove | .fLock | .fNext | .fSetHead | .fSetTail | .fUnlock | .fPub => true
  | _ => false
def mv0C : Pc → Bool
  | .cTail | .cPage | .cMask | .cMove => true
  | _ => false
def mv1C : Pc → Bool
  | .fLock | .fNext | .fSetHead | .fSetTail | .fUnlock | .fPub => true
  | _ => false
def ltC : Pc → Bool
  | .cPage | .cMask | .cMove | .fLock | .fNext | .fSetHead | .fSetTail | .fUnlock | .fPub => true
  | _ => false
def pgC : Pc → Bool
  | .cMask | .cMove | .fLock | .fNext | .fSetHead | .fSetTail | .fUnlock | .fPub | .fFree => true
  | _ => false
def lastC : Pc → Bool
  | .fLock | .fNext | .fSetHead | .fSetTail | .fUnlock | .fFree => true
  | _ => false
def u0C : Pc → Bool
  | .fLock | .fNext | .fSetHead => true
  | _ => false
def u1C : Pc → Bool
  | .fSetTail | .fUnlock => true
  | _ => false
def mxC : Pc → Bool
  | .fNext | .fSetHead | .fSetTail | .fUnlock => true
  | _ => false
def idleC : Pc → Bool
  | .fNext | .fSetHead | .fUnlock => true
  | _ => false

structure PopLoc (l : Lane) (tid : Nat) (t : LTh) (n i : Nat) : Prop where
  pcs : isPopPc t.pc = true
  ilt : i < l.ipp
  pre : t.pc = .cHead → rle l.hP l.hI n i ∧ (l.hP = n ∧ l.hI = i → l.mv = false)
  sec : secC t.pc = true → l.hP = n ∧ l.hI = i
  mv0 : mv0C t.pc = true → l.mv = false
  mv1 : mv1C t.pc = true → l.mv = true
  lt : ltC t.pc = true → rlt l.hP l.hI l.tP l.tI
  pg : pgC t.pc = true → t.p = .pg n
  last : lastC t.pc = true → i + 1 = l.ipp
  u0 : u0C t.pc = true → l.U = n
  u1 : u1C t.pc = true → l.U = n + 1 ∧ (l.pages n).st = .live
  pub : t.pc = .fPub → (i + 1 = l.ipp → l.U = n + 1 ∧ (l.pages n).st = .live) ∧ (i + 1 ≠ l.ipp → l.U = n)
  mx : mxC t.pc = true → l.mutex = some tid
  phI : idleC t.pc = true → l.ph = .idle
  phU : t.pc = .fSetTail → l.ph = .unlinkHalf
  qv : t.pc = .fSetHead → t.q = (l.pages n).next
  cons : t.pc = .cMove → ∃ v, l.slot n i = .cons v
  free : t.pc = .fFree → (l.pages n).st = .live ∧ n < l.hP

def CurLoc (l : Lane) (tid : Nat) (t : LTh) : LOp → Prop
  | .push n i v f => PushLoc l tid t n i v f
  | .pop n i => PopLoc l tid t n i

structure Loc (l : Lane) (tid : Nat) (t : LTh) : Prop where
  fut : ∀ o, o ∈ t.ops.tail → futOK l o
  idle : t.ops = [] → t.pc = .start
  cur : ∀ o rest, t.ops = o :: rest → (t.pc = .start → futOK l o) ∧ (t.pc ≠ .start → CurLoc l tid t o)

structure Inv (s : St) : Prop where
  g : LInv s.l
  loc : ∀ (j : Nat) (t : LTh), s.ths[j]? = some t → Loc s.l j t
  dis : ∀ (a b : Nat) (ta tb : LTh), a ≠ b → s.ths[a]? = some ta → s.ths[b]? = some tb → opsDisj ta.ops tb.ops
  nod : ∀ (j : Nat) (t : LTh), s.ths[j]? = some t → (t.ops.filterMap pushRound).Nodup ∧ (t.ops.filterMap popRound).Nodup

/-! ### small facts about the updates -/

@[simp] theorem updF_same {α : Type} (f : Nat → α) (i : Nat) (x : α) : updF f i x i = x := by simp [updF]
theorem updF_ne {α : Type} (f : Nat → α) (i j : Nat) (x : α) (h : j ≠ i) : updF f i x j = f j := by simp [updF, h]
theorem updF2_same {α : Type} (f : Nat → Nat → α) (i j : Nat) (x : α) : updF2 f i j x i j = x := by simp [updF2]
theorem updF2_ne {α : Type} (f : Nat → Nat → α) (i j a b : Nat) (x : α) (h : ¬(a = i ∧ b = j)) : updF2 f i j x a b = f a b := by
  simp [updF2, h]

theorem st_updNext (pages : Nat → PageRec) (q : Nat) (x : Ptr) (n : Nat) :
    (updF pages q { pages q with next := x } n).st = (pages n).st := by
  by_cases h : n = q
  · subst h; simp
  · rw [updF_ne _ _ _ _ h]
theorem mask_updNext (pages : Nat → PageRec) (q : Nat) (x : Ptr) (n : Nat) :
    (updF pages q { pages q with next := x } n).mask = (pages n).mask := by
  by_cases h : n = q
  · subst h; simp
  · rw [updF_ne _ _ _ _ h]
theorem st_updMask (pages : Nat → PageRec) (q : Nat) (x : Nat → Bool) (n : Nat) :
    (updF pages q { pages q with mask := x } n).st = (pages n).st := by
  by_cases h : n = q
  · subst h; simp
  · rw [updF_ne _ _ _ _ h]
theorem next_updMask (pages : Nat → PageRec) (q : Nat) (x : Nat → Bool) (n : Nat) :
    (updF pages q { pages q with mask := x } n).next = (pages n).next := by
  by_cases h : n = q
  · subst h; simp
  · rw [updF_ne _ _ _ _ h]
theorem next_updSt (pages : Nat → PageRec) (q : Nat) (x : PSt) (n : Nat) :
    (updF pages q { pages q with st := x } n).next = (pages n).next := by
  by_cases h : n = q
  · subst h; simp
  · rw [updF_ne _ _ _ _ h]
theorem mask_updSt (pages : Nat → PageRec) (q : Nat) (x : PSt) (n : Nat) :
    (updF pages q { pages q with st := x } n).mask = (pages n).mask := by
  by_cases h : n = q
  · subst h; simp
  · rw [updF_ne _ _ _ _ h]

theorem acc_ok_iff (l : Lane) (p : Ptr) (n : Nat) : l.acc p = .ok n ↔ p = .pg n ∧ (l.pages n).st = .live := by
  cases p with
  | null => simp [Lane.acc]
  | inv => simp [Lane.acc]
  | pg m =>
    simp only [Lane.acc]
    cases h : (l.pages m).st <;> simp
    · intro e; subst e; simp [h]
    · intro e; subst e; exact h
    · intro e; subst e; simp [h]

theorem acc_pg_live (l : Lane) (n : Nat) (h : (l.pages n).st = .live) : l.acc (.pg n) = .ok n := by
  simp [Lane.acc, h]

/-- two threads' current operations are on different rounds -/
theorem disj_push {a b : List LOp} (h : opsDisj a b) {n i v f n' i' v' f'} (ha : LOp.push n i v f ∈ a) (hb : LOp.push n' i' v' f' ∈ b) :
    ¬(n = n' ∧ i = i') := by
  have := h.1 _ ha _ hb
  simp [pushRound] at this
  intro ⟨e1, e2⟩; exact this e1 e2

theorem disj_pop {a b : List LOp} (h : opsDisj a b) {n i n' i'} (ha : LOp.pop n i ∈ a) (hb : LOp.pop n' i' ∈ b) :
    ¬(n = n' ∧ i = i') := by
  have := h.2 _ ha _ hb
  simp [popRound] at this
  intro ⟨e1, e2⟩; exact this e1 e2

theorem succ_cases (ipp n i : Nat) :
    (i + 1 = ipp ∧ succP ipp n i = n + 1 ∧ succI ipp i = 0) ∨ (i + 1 ≠ ipp ∧ succP ipp n i = n ∧ succI ipp i = i + 1) := by
  unfold succP succI
  by_cases h : i + 1 = ipp
  · left; simp [h]
  · right; simp [h]

/-- page `n` with bit `i` of its mask set -/
theorem mask_setBit (pages : Nat → PageRec) (n i n' k : Nat) :
    (updF pages n { pages n with mask := updF (pages n).mask i true } n').mask k =
      if n' = n ∧ k = i then true else (pages n').mask k := by
  by_cases h : n' = n
  · subst h
    by_cases hk : k = i
    · subst hk; simp
    · simp [hk, updF_ne _ _ _ _ hk]
  · rw [updF_ne _ _ _ _ h]; simp [h]

theorem mem_of_mem_tail' {α : Type} {a : α} {l : List α} (h : a ∈ l.tail) : a ∈ l := by
  cases l with
  | nil => simp at h
  | cons x xs => exact List.mem_cons_of_mem _ h

/-! ### assembling `Loc` -/

theorem Loc.mk_cur {l' : Lane} {a : Nat} {t' : LTh} {o : LOp} {rest : List LOp} (hops : t'.ops = o :: rest)
    (hfut : ∀ x, x ∈ rest → futOK l' x) (hpc : t'.pc ≠ .start) (hc : CurLoc l' a t' o) : Loc l' a t' :=
  ⟨(by rw [hops]; exact hfut), (by rw [hops]; intro h; cases h), (by
    intro o' rest' h; rw [hops] at h; cases h; exact ⟨fun h => absurd h hpc, fun _ => hc⟩)⟩

theorem Loc.mk_fin {l' : Lane} {a : Nat} {t' : LTh} (hpc : t'.pc = .start) (hfut : ∀ x, x ∈ t'.ops → futOK l' x) : Loc l' a t' :=
  ⟨fun o ho => hfut o (mem_of_mem_tail' ho), fun _ => hpc,
   fun o rest h => ⟨fun _ => hfut o (by rw [h]; exact List.mem_cons_self), fun hn => absurd hpc hn⟩⟩

theorem Loc.frame {l l' : Lane} {b : Nat} {tb : LTh} (h : Loc l b tb)
    (hf : ∀ o, o ∈ tb.ops → futOK l o → futOK l' o)
    (hpu : ∀ n i v f, LOp.push n i v f ∈ tb.ops → PushLoc l b tb n i v f → PushLoc l' b tb n i v f)
    (hpo : ∀ n i, LOp.pop n i ∈ tb.ops → PopLoc l b tb n i → PopLoc l' b tb n i) : Loc l' b tb := by
  refine ⟨fun o ho => hf o (mem_of_mem_tail' ho) (h.fut o ho), h.idle, ?_⟩
  intro o rest hops
  have hm : o ∈ tb.ops := by rw [hops]; exact List.mem_cons_self
  obtain ⟨c1, c2⟩ := h.cur o rest hops
  refine ⟨fun hs => hf o hm (c1 hs), fun hs => ?_⟩
  have c := c2 hs
  cases o with
  | push n i v f => exact hpu n i v f hm c
  | pop n i => exact hpo n i hm c

end TbbVerif.C09.Pg
