/- C09 — every step preserves the auxiliary invariant (time stamps, recorded results, capacity bound). -/
import TbbVerif.Proofs.C09.StampEffects

namespace TbbVerif.C09

/-- what one step must guarantee for the auxiliary invariant; `g` is the state after the clock tick -/
def StepGood2 (g : G) (b tid : Nat) (t : Th) (g' : G) (t' : Th) : Prop :=
  ok g'.toP → PInv g.toP → TInv g.toP tid t → AGb g b → b < g.now → AT g t →
    AGb g' g.now ∧ g'.now = g.now ∧ AT g' t' ∧ Ext g g'

theorem sg2_local (g : G) (b tid : Nat) (t t' : Th) (h : PInv g.toP → TInv g.toP tid t → AT g t → AT g t') :
    StepGood2 g b tid t g t' :=
  fun _ hP hT hA hb hAT => ⟨AGb_weaken g b g.now hA (Nat.le_of_lt hb), rfl, h hP hT hAT, Ext_refl g⟩

theorem sg2_noop (g : G) (b tid : Nat) (t : Th) : StepGood2 g b tid t g t := sg2_local g b tid t t (fun _ _ h => h)

/-- AT only reads `pc`, `k`, `inv` -/
theorem AT_congr (g : G) (t t' : Th) (h : AT g t) (hpc : t'.pc = t.pc) (hk : t'.k = t.k) (hi : t'.inv = t.inv) : AT g t' := by
  obtain ⟨a1, a2, a3, a4, a5, a6⟩ := h
  refine ⟨?_, ?_, ?_, ?_, ?_, ?_⟩ <;> (try rw [hpc]) <;> (try rw [hk]) <;> (try rw [hi]) <;> assumption

theorem AT_repc (g : G) (t t' : Th) (h : AT g t) (hk : t'.k = t.k) (hi : t'.inv = t.inv) (hne : t.pc ≠ .start)
    (h1 : holdsT t'.pc = true → holdsT t.pc = true)
    (h2 : holdsH t'.pc = true → holdsH t.pc = true)
    (h3 : (t'.pc = .tTail ∨ t'.pc = .tCas) → (t.pc = .tTail ∨ t.pc = .tCas) ∨ (g.undone = false → t.k ≤ g.head))
    (h4 : (t'.pc = .yHead ∨ t'.pc = .yCas) → (t.pc = .yHead ∨ t.pc = .yCas) ∨ t.k ≤ g.tail)
    (h5 : (lanePushPc t'.pc = true ∨ t'.pc = .yCas) → (lanePushPc t.pc = true ∨ t.pc = .yCas) ∨ (capOK g → (t.k : Int) < g.head + g.cap)) :
    AT g t' := by
  refine ⟨?_, ?_, ?_, ?_, ?_, ?_⟩
  · intro _; rw [hi]; exact h.invNow hne
  · intro hh; rw [hk, hi]; exact h.invT (h1 hh)
  · intro hh; rw [hk, hi]; exact h.invH (h2 hh)
  · intro hh hu; rw [hk]; rcases h3 hh with a | a
    · exact h.stale a hu
    · exact a hu
  · intro hh; rw [hk]; rcases h4 hh with a | a
    · exact h.staleT a
    · exact a
  · intro hc hh; rw [hk]; rcases h5 hh with a | a
    · exact h.gate hc a
    · exact a hc

macro "atrepc" hA:term "," hne:term : tactic =>
  `(tactic| (refine AT_repc _ _ _ $hA ?_ ?_ $hne ?_ ?_ ?_ ?_ ?_ <;> first | rfl | simp_all [holdsT, holdsH, lanePushPc]))

/-- a thread that holds no ticket, inside an operation -/
theorem AT_free (g : G) (t : Th) (h1 : t.inv ≤ g.now) (hf : freePc t.pc = true)
    (h3 : (t.pc = .tTail ∨ t.pc = .tCas) → g.undone = false → t.k ≤ g.head)
    (h4 : (t.pc = .yHead ∨ t.pc = .yCas) → t.k ≤ g.tail)
    (h5 : t.pc = .yCas → capOK g → (t.k : Int) < g.head + g.cap) : AT g t := by
  refine ⟨fun _ => h1, ?_, ?_, h3, h4, ?_⟩
  · intro hh; cases hpc : t.pc <;> simp_all [freePc, holdsT]
  · intro hh; cases hpc : t.pc <;> simp_all [freePc, holdsH]
  · intro hc hh
    rcases hh with a | a
    · cases hpc : t.pc <;> simp_all [freePc, lanePushPc]
    · exact h5 a hc

theorem pushTime_eq (g : G) (k : Nat) (r : PRec) (h : g.pushLog[k]? = some r) : pushTime g k = r.time := by
  simp [pushTime, h]

theorem pushTime_le (g : G) (b k : Nat) (h : AGb g b) : pushTime g k ≤ b := by
  unfold pushTime
  cases hk : g.pushLog[k]? with
  | none => simp
  | some r => exact h.pushT k r hk

theorem Ext_protocol (g g' : G) (e1 : g'.now = g.now) (e2 : g'.pushLog = g.pushLog) (e3 : g'.head = g.head)
    (e4 : g'.popTime = g.popTime) (e5 : g'.undone = g.undone) (e6 : g'.capSet = g.capSet) (e7 : g'.unb = g.unb) (e8 : g'.cap = g.cap) :
    Ext g g' := by
  refine ⟨by omega, fun k r h => by rw [e2]; exact h, by simp [G.tail, e2], Or.inl (by omega), fun h _ => by rw [e4],
    fun h => by rw [e5]; exact h, fun hc => ⟨by simpa [capOK, e5, e6, e7] using hc, e8⟩⟩

theorem Ext_takeTail (g : G) (tid v : Nat) (u : Bool) : Ext g { takeTail g tid v with unb := g.unb || u } := by
  refine ⟨Nat.le_refl _, fun k r h => getElem?_append_some h, by simp [G.tail, takeTail], Or.inl (Nat.le_refl _), fun _ _ => rfl,
    fun h => h, fun hc => ⟨?_, rfl⟩⟩
  simp only [capOK, Bool.or_eq_false_iff] at hc
  exact ⟨hc.1, hc.2.1, hc.2.2.1⟩

theorem Ext_takeHead (g : G) (tid : Nat) : Ext g (takeHead g tid) :=
  ⟨Nat.le_refl _, fun _ _ h => h, Nat.le_refl _, Or.inl (by simp [takeHead]),
   fun h hh => by simp only [takeHead, upd]; rw [if_neg (by omega)], fun h => h, fun hc => ⟨hc, rfl⟩⟩

theorem Ext_undoHead (g : G) (hd : Nat) : Ext g (undoHead g hd) :=
  ⟨Nat.le_refl _, fun _ _ h => h, Nat.le_refl _, Or.inr rfl, fun _ _ => rfl, fun _ => rfl, fun hc => by simp [capOK, undoHead] at hc⟩

theorem Ext_trans_finish (g g1 : G) (tid : Nat) (t : Th) (op : Op) (res : Res) (lin : Nat) (wit : Bool) (e : Ext g g1) :
    Ext g (finish g1 tid t op res lin wit).1 :=
  ⟨e.now, e.push, e.tail, e.head, e.popT, e.und, e.cap⟩

theorem lanePush_good2 (g : G) (b tid : Nat) (t : Th) (op : Op) (rest : List Op) (v : Nat) (f : Fail) (hops : t.ops = op :: rest)
    (hop : opVal [op] = some v) :
    StepGood2 g b tid t (stepLanePush g tid t op v f).1 (stepLanePush g tid t op v f).2.1 := by
  have hopv : opVal t.ops = some v := by rw [hops]; cases op <;> simp_all [opVal]
  cases hpc : t.pc <;> simp only [stepLanePush, hpc] <;> try exact sg2_noop _ _ _ _
  case pAlloc1 => intro hok; simp [ok, poisonInv, invalidate] at hok
  case pAlloc2 => intro hok; simp [ok, finish, poisonStore] at hok
  case pBadLast =>
    intro _ _ hT; have := hT.alive; rw [hpc] at this; simp [deadPc] at this
  case pTurn =>
    apply sg2_local; intro hP hT hA
    have hne : t.pc ≠ .start := by rw [hpc]; simp
    split
    · atrepc hA, hne
    · split
      · atrepc hA, hne
      · exact AT_congr _ t _ hA (by simp [hpc]) rfl rfl
  case pCons =>
    have hne : t.pc ≠ .start := by rw [hpc]; simp
    by_cases hf : f = .ctor
    · simp only [hf, if_true]
      intro _ hP hT hA hb hAT
      have hpend : g.slot t.k = .pending := hT.pend (by rw [hpc]; rfl)
      refine ⟨AGb_weaken _ b _ (AGb_invalidate g b t.k hA hP hpend) (Nat.le_of_lt hb), rfl, ?_, Ext_protocol _ _ rfl rfl rfl rfl rfl rfl rfl rfl⟩
      exact AT_ext g _ _ (by atrepc hAT, hne) (Ext_protocol _ _ rfl rfl rfl rfl rfl rfl rfl rfl) (by simp [holdsH])
    · simp only [hf, if_false]
      apply sg2_local; intro hP hT hA
      atrepc hA, hne
  case pMaskSt =>
    have hne : t.pc ≠ .start := by rw [hpc]; simp
    intro _ hP hT hA hb hAT
    have hpend : g.slot t.k = .pending := hT.pend (by rw [hpc]; rfl)
    have hgate := fun hc => hAT.gate hc (Or.inl (by rw [hpc]; rfl))
    refine ⟨AGb_weaken _ b _ (AGb_maskStore g b t.k v _ hA hP hpend hgate) (Nat.le_of_lt hb), rfl, ?_, Ext_protocol _ _ rfl rfl rfl rfl rfl rfl rfl rfl⟩
    exact AT_ext g _ _ (by atrepc hAT, hne) (Ext_protocol _ _ rfl rfl rfl rfl rfl rfl rfl rfl) (by simp [holdsH])
  case pAdv okb =>
    intro _ hP hT hA hb hAT
    have hturn := hT.turnT (by rw [hpc]; rfl)
    obtain ⟨r, hr, hr2, hr3⟩ := hT.ownT (by rw [hpc]; rfl)
    obtain ⟨r', hr', hinv⟩ := hAT.invT (by rw [hpc]; rfl)
    have hrr : r' = r := by rw [hr'] at hr; cases hr; rfl
    subst hrr
    have hv : r'.v = v := by rw [hopv] at hr3; cases hr3; rfl
    have hA1 := AGb_weaken _ b _ (AGb_advTail g b t.k hA hP) (Nat.le_of_lt hb)
    have hpt : pushTime g t.k = r'.time := pushTime_eq g t.k r' hr'
    have hle := hA.pushT t.k r' hr'
    refine ⟨AGb_finish _ _ _ _ _ _ _ hA1 (PInv_advTail _ _ hP hturn (by
        cases okb with
        | true => obtain ⟨w, hw⟩ := hT.advOk hpc; rw [hw]; simp
        | false => rw [hT.advBad (Or.inl hpc)]; simp)) ?_, rfl, ?_,
      Ext_trans_finish _ _ _ _ _ _ _ _ (Ext_protocol _ _ rfl rfl rfl rfl rfl rfl rfl rfl)⟩
    · refine ⟨by simp only; omega, by simp only [advTail]; omega, Nat.le_refl _, ?_, ?_, ?_, ?_, ?_⟩
      · intro w hw; cases okb <;> simp at hw
      · intro w hw hres
        cases okb with
        | false => simp at hres
        | true =>
          obtain ⟨x, hx⟩ := hT.advOk hpc
          obtain ⟨r2, h21, h22⟩ := hP.slotVal t.k x hx
          have : r2 = r' := by rw [hr'] at h21; cases h21; rfl
          subst this
          have hwv : w = v := by rw [hop] at hw; cases hw; rfl
          refine ⟨?_, rfl⟩
          show g.slot t.k = .item w
          rw [hx, hwv, ← hv, h22]
      · intro hres
        cases okb with
        | true => simp at hres
        | false =>
          refine ⟨hT.advBad (Or.inl hpc), ?_⟩
          simp only [advTail, upd, if_true]
          have : g.ltail (lane t.k) = base t.k := hturn
          rw [this]; have := nq_pos; omega
      · intro hres; cases okb <;> simp at hres
      · intro hres; cases okb <;> simp at hres
    · exact AT_free _ _ (by simp [finish]; have := hAT.invNow (by rw [hpc]; simp); exact this) (by simp [finish, freePc])
        (by simp [finish]) (by simp [finish]) (by simp [finish])

theorem EP (g g' : G) (e1 : g'.now = g.now) (e2 : g'.pushLog = g.pushLog) (e3 : g'.head = g.head)
    (e4 : g'.popTime = g.popTime) (e5 : g'.undone = g.undone) (e6 : g'.capSet = g.capSet) (e7 : g'.unb = g.unb) (e8 : g'.cap = g.cap) :
    Ext g g' := Ext_protocol g g' e1 e2 e3 e4 e5 e6 e7 e8

theorem lanePop_good2 (g : G) (b tid : Nat) (t : Th) (op : Op) (retry : Pc) (hretry : retry = .tHead ∨ retry = .qTicket) :
    StepGood2 g b tid t (stepLanePop g tid t op retry).1 (stepLanePop g tid t op retry).2.1 := by
  cases hpc : t.pc <;> simp only [stepLanePop, hpc] <;> try exact sg2_noop _ _ _ _
  case lHead =>
    apply sg2_local; intro hP hT hA
    have hne : t.pc ≠ .start := by rw [hpc]; simp
    split
    · atrepc hA, hne
    · exact AT_congr _ t _ hA (by simp [hpc]) rfl rfl
  case lTail =>
    apply sg2_local; intro hP hT hA
    have hne : t.pc ≠ .start := by rw [hpc]; simp
    split
    · atrepc hA, hne
    · exact AT_congr _ t _ hA (by simp [hpc]) rfl rfl
  case lMask =>
    intro hok hP hT hA hb hAT
    have hne : t.pc ≠ .start := by rw [hpc]; simp
    have hnp : g.slot t.k ≠ .pending := hP.pub t.k (hT.seen (by rw [hpc]; rfl))
    have hnpg : g.noPage t.k = false := hA.noCrash.2 t.k
    simp only [hnp, hnpg, Bool.false_eq_true, or_self, if_false]
    refine ⟨AGb_weaken g b g.now hA (Nat.le_of_lt hb), by first | rfl | trivial, ?_, Ext_refl g⟩
    split
    · atrepc hAT, hne
    · atrepc hAT, hne
  case lMove =>
    have hne : t.pc ≠ .start := by rw [hpc]; simp
    intro _ hP hT hA hb hAT
    refine ⟨AGb_weaken _ b _ (AGb_popMove g b t.k _ hA hP) (Nat.le_of_lt hb), rfl, ?_, EP _ _ rfl rfl rfl rfl rfl rfl rfl rfl⟩
    exact AT_ext g _ _ (by atrepc hAT, hne) (EP _ _ rfl rfl rfl rfl rfl rfl rfl rfl) (fun _ => (hT.ownH (by rw [hpc]; rfl)).1)
  case lInv =>
    have hne : t.pc ≠ .start := by rw [hpc]; simp
    intro _ hP hT hA hb hAT
    refine ⟨AGb_weaken _ b _ (AGb_skipInv g b t.k hA hP) (Nat.le_of_lt hb), rfl, ?_, EP _ _ rfl rfl rfl rfl rfl rfl rfl rfl⟩
    exact AT_ext g _ _ (by atrepc hAT, hne) (EP _ _ rfl rfl rfl rfl rfl rfl rfl rfl) (fun _ => (hT.ownH (by rw [hpc]; rfl)).1)
  case lFin r =>
    have hne : t.pc ≠ .start := by rw [hpc]; simp
    intro hok hP hT hA hb hAT
    have hturn := hT.turnH (by rw [hpc]; rfl)
    have hseen := hT.seen (by rw [hpc]; rfl)
    obtain ⟨hc, hmem⟩ := hT.fin r hpc
    obtain ⟨hlt, _⟩ := hT.ownH (by rw [hpc]; rfl)
    have hA1 := AGb_weaken _ b _ (AGb_advHead g b t.k hA hP) (Nat.le_of_lt hb)
    have hP1 := PInv_advHead _ _ hP hturn hseen hc
    have hinv := hAT.invNow hne
    cases r with
    | none =>
      simp only
      refine ⟨hA1, rfl, ?_, EP _ _ rfl rfl rfl rfl rfl rfl rfl rfl⟩
      rcases hretry with e | e <;> subst e <;>
        exact AT_free _ _ hinv rfl (by simp) (by simp) (by simp)
    | some v =>
      simp only
      have hih := hAT.invH (by rw [hpc]; rfl)
      have hpt := hA.popT t.k hlt
      have hpu := pushTime_le g b t.k hA
      refine ⟨AGb_finish _ _ _ _ _ _ _ hA1 hP1 ?_, rfl, ?_, Ext_trans_finish _ _ _ _ _ _ _ _ (EP _ _ rfl rfl rfl rfl rfl rfl rfl rfl)⟩
      · refine ⟨by simp only; omega, by simp only [advHead]; omega, Nat.le_refl _, ?_, ?_, ?_, ?_, ?_⟩
        · intro w hw
          simp only [Res.val.injEq] at hw; subst hw
          exact ⟨hmem v rfl, rfl⟩
        · intro w _ hres; simp at hres
        · intro hres; simp at hres
        · intro hres; simp at hres
        · intro hres; simp at hres
      · exact AT_free _ _ (by simpa [finish, advHead] using hinv) (by simp [finish, freePc]) (by simp [finish]) (by simp [finish]) (by simp [finish])

theorem tryPop_good2 (g : G) (b tid : Nat) (t : Th) : StepGood2 g b tid t (stepTryPop g tid t).1 (stepTryPop g tid t).2.1 := by
  cases hpc : t.pc <;> simp only [stepTryPop, hpc] <;> try exact lanePop_good2 g b tid t .tryPop .tHead (Or.inl rfl)
  case start =>
    apply sg2_local; intro _ _ _
    exact AT_free _ _ (Nat.le_refl _) rfl (fun _ _ => Nat.le_refl _) (by simp) (by simp)
  case tHead =>
    apply sg2_local; intro _ _ hA
    exact AT_free _ _ (hA.invNow (by rw [hpc]; simp)) rfl (fun _ _ => Nat.le_refl _) (by simp) (by simp)
  case tTail =>
    split
    · rename_i hle
      intro _ hP hT hA hb hAT
      have hinv := hAT.invNow (by rw [hpc]; simp)
      have hA1 := AGb_weaken _ b _ hA (Nat.le_of_lt hb)
      refine ⟨AGb_finish _ _ _ _ _ _ _ hA1 hP ?_, rfl, ?_, Ext_trans_finish _ _ _ _ _ _ _ _ (Ext_refl g)⟩
      · refine ⟨hinv, Nat.le_refl _, Nat.le_refl _, by intro w hw; simp at hw, by intro w _ hw; simp at hw, by intro hw; simp at hw, ?_,
          by intro hw; simp at hw⟩
        intro _ hu
        have := hAT.stale (Or.inl hpc) hu
        simp only [decide_eq_true_eq]
        have hle' : g.pushLog.length ≤ t.k := hle
        show g.pushLog.length ≤ g.head
        omega
      · exact AT_free _ _ (by simpa [finish] using hinv) (by simp [finish, freePc]) (by simp [finish]) (by simp [finish]) (by simp [finish])
    · apply sg2_local; intro _ _ hA
      exact AT_free _ _ (hA.invNow (by rw [hpc]; simp)) rfl (fun _ hu => hA.stale (Or.inl hpc) hu) (by simp) (by simp)
  case tCas =>
    split
    · rename_i heq
      intro _ hP hT hA hb hAT
      have hinv := hAT.invNow (by rw [hpc]; simp)
      refine ⟨AGb_takeHead g b tid hA hb hP, rfl, ?_, Ext_takeHead g tid⟩
      refine ⟨fun _ => hinv, by simp [holdsT], ?_, by simp, by simp, by simp [lanePushPc]⟩
      intro _
      simp only [takeHead, upd, heq, if_true]; exact hinv
    · apply sg2_local; intro _ _ hA
      exact AT_free _ _ (hA.invNow (by rw [hpc]; simp)) rfl (fun _ _ => Nat.le_refl _) (by simp) (by simp)

/-- taking a tail ticket: `u = true` for the unbounded push -/
theorem takeTail_good2 (g : G) (b tid v : Nat) (u : Bool) (t t' : Th) (hk : t'.k = g.tail) (hi : t'.inv ≤ g.now)
    (hpc : t'.pc = .pAlloc1 ∨ t'.pc = .pTurn ∨ t'.pc = .bGate)
    (hgate : u = false → lanePushPc t'.pc = true → capOK g → (t'.k : Int) < g.head + g.cap) :
    StepGood2 g b tid t { takeTail g tid v with unb := g.unb || u } t' := by
  intro _ hP hT hA hb hAT
  refine ⟨AGb_takeTail g b tid v hA hb hP u, rfl, ?_, Ext_takeTail g tid v u⟩
  refine ⟨fun _ => hi, ?_, ?_, ?_, ?_, ?_⟩
  · intro _
    refine ⟨⟨v, tid, g.now⟩, ?_, hi⟩
    rw [hk]; simp [takeTail, G.tail]
  · intro hh; rcases hpc with e | e | e <;> simp [e, holdsH] at hh
  · intro hh; rcases hpc with e | e | e <;> simp [e] at hh
  · intro hh; rcases hpc with e | e | e <;> simp [e] at hh
  · intro hc hh
    have hu : u = false := by
      cases u with
      | false => rfl
      | true => simp [capOK] at hc
    have hc0 : capOK g := by
      subst hu; simpa [capOK, takeTail] using hc
    rcases hh with a | a
    · exact hgate hu a hc0
    · rcases hpc with e | e | e <;> simp [e] at a

theorem push_good2 (g : G) (b tid : Nat) (t : Th) (rest : List Op) (v : Nat) (f : Fail) (hops : t.ops = .push v f :: rest) :
    StepGood2 g b tid t (stepPush g tid t v f).1 (stepPush g tid t v f).2.1 := by
  cases hpc : t.pc <;> simp only [stepPush, hpc] <;> try exact lanePush_good2 g b tid t _ rest v f hops rfl
  case start =>
    have e : ({ takeTail g tid v with unb := true } : G) = { takeTail g tid v with unb := g.unb || true } := by simp
    rw [e]
    refine takeTail_good2 g b tid v true t _ rfl (Nat.le_refl _) ?_ (by simp)
    rcases pushEntry_cases g { t with k := g.tail, inv := g.now } f with e | e
    · exact Or.inl e
    · exact Or.inr (Or.inl e)

theorem abortPush_good2 (g : G) (b tid : Nat) (t : Th) (op : Op) :
    StepGood2 g b tid t (stepAbortPush g tid t op).1 (stepAbortPush g tid t op).2.1 := by
  cases hpc : t.pc <;> simp only [stepAbortPush, hpc] <;> try exact sg2_noop _ _ _ _
  case bAbTurn =>
    apply sg2_local; intro hP hT hA
    have hne : t.pc ≠ .start := by rw [hpc]; simp
    split
    · atrepc hA, hne
    · split
      · atrepc hA, hne
      · exact AT_congr _ t _ hA (by simp [hpc]) rfl rfl
  case bAbInv =>
    have hne : t.pc ≠ .start := by rw [hpc]; simp
    intro _ hP hT hA hb hAT
    have hpend : g.slot t.k = .pending := hT.pend (by rw [hpc]; rfl)
    refine ⟨AGb_weaken _ b _ (AGb_invalidate g b t.k hA hP hpend) (Nat.le_of_lt hb), rfl, ?_, EP _ _ rfl rfl rfl rfl rfl rfl rfl rfl⟩
    exact AT_ext g _ _ (by atrepc hAT, hne) (EP _ _ rfl rfl rfl rfl rfl rfl rfl rfl) (by simp [holdsH])
  case bAbAdv =>
    intro _ hP hT hA hb hAT
    have hturn := hT.turnT (by rw [hpc]; rfl)
    obtain ⟨r', hr', hinv⟩ := hAT.invT (by rw [hpc]; rfl)
    have hA1 := AGb_weaken _ b _ (AGb_advTail g b t.k hA hP) (Nat.le_of_lt hb)
    have hpt : pushTime g t.k = r'.time := pushTime_eq g t.k r' hr'
    have hle := hA.pushT t.k r' hr'
    refine ⟨AGb_finish _ _ _ _ _ _ _ hA1 (PInv_advTail _ _ hP hturn (by rw [hT.advBad (Or.inr hpc)]; simp)) ?_, rfl, ?_,
      Ext_trans_finish _ _ _ _ _ _ _ _ (EP _ _ rfl rfl rfl rfl rfl rfl rfl rfl)⟩
    · exact ⟨by simp only; omega, by simp only [advTail]; omega, Nat.le_refl _, by intro w hw; simp at hw, by intro w _ hw; simp at hw,
        by intro hw; simp at hw, by intro hw; simp at hw, by intro hw; simp at hw⟩
    · exact AT_free _ _ (by simpa [finish, advTail] using hAT.invNow (by rw [hpc]; simp)) (by simp [finish, freePc])
        (by simp [finish]) (by simp [finish]) (by simp [finish])

theorem not_full_gate (g : G) (k : Nat) (h : full g k g.head = false) : (k : Int) < g.head + g.cap := by
  simp only [full, decide_eq_false_iff_not] at h; omega

theorem bpush_good2 (g : G) (b tid c : Nat) (t : Th) (rest : List Op) (v : Nat) (f : Fail) (hops : t.ops = .bpush v f :: rest) :
    StepGood2 g b tid t (stepBPush g tid c t v f).1 (stepBPush g tid c t v f).2.1 := by
  cases hpc : t.pc <;> simp only [stepBPush, hpc] <;> (try exact lanePush_good2 g b tid t _ rest v f hops rfl) <;>
    (try exact abortPush_good2 g b tid t _)
  case start =>
    apply sg2_local; intro _ _ _
    exact AT_free _ _ (Nat.le_refl _) rfl (by simp) (by simp) (by simp)
  case bTicket =>
    have e : takeTail g tid v = { takeTail g tid v with unb := g.unb || false } := by rw [Bool.or_false]; rfl
    rw [e]
    intro hok hP hT hA hb hAT
    exact takeTail_good2 g b tid v false t _ rfl (hAT.invNow (by rw [hpc]; simp)) (Or.inr (Or.inr rfl)) (by simp [lanePushPc]) hok hP hT hA hb hAT
  case bGate =>
    apply sg2_local; intro hP hT hA
    have hne : t.pc ≠ .start := by rw [hpc]; simp
    cases hfull : full g t.k g.head with
    | true => simp only [if_true]; atrepc hA, hne
    | false =>
      have hg := not_full_gate g t.k hfull
      simp only [Bool.false_eq_true, if_false]
      rcases pushEntry_cases g t f with e | e <;> (rw [e]; atrepc hA, hne)
  case bPredA =>
    apply sg2_local; intro hP hT hA
    have hne : t.pc ≠ .start := by rw [hpc]; simp
    split <;> atrepc hA, hne
  case bPredH =>
    apply sg2_local; intro hP hT hA
    have hne : t.pc ≠ .start := by rw [hpc]; simp
    cases hfull : full g t.k g.head with
    | true => simp only [if_true]; atrepc hA, hne
    | false =>
      have hg := not_full_gate g t.k hfull
      simp only [Bool.false_eq_true, if_false]
      rcases pushEntry_cases g t f with e | e <;> (rw [e]; atrepc hA, hne)
  case bBlocked =>
    have hne : t.pc ≠ .start := by rw [hpc]; simp
    split
    · apply sg2_local; intro hP hT hA; atrepc hA, hne
    · split
      · apply sg2_local; intro hP hT hA; atrepc hA, hne
      · cases hfull : full g t.k g.head with
        | true => simp only [Bool.not_true, Bool.false_eq_true, if_false]; exact sg2_noop _ _ _ _
        | false =>
          have hg := not_full_gate g t.k hfull
          simp only [Bool.not_false, if_true]
          apply sg2_local; intro hP hT hA
          rcases pushEntry_cases g t f with e | e <;> (rw [e]; atrepc hA, hne)

theorem btryPush_good2 (g : G) (b tid : Nat) (t : Th) (rest : List Op) (v : Nat) (f : Fail) (hops : t.ops = .btryPush v f :: rest) :
    StepGood2 g b tid t (stepBTryPush g tid t v f).1 (stepBTryPush g tid t v f).2.1 := by
  cases hpc : t.pc <;> simp only [stepBTryPush, hpc] <;> try exact lanePush_good2 g b tid t _ rest v f hops rfl
  case start =>
    apply sg2_local; intro _ _ _
    exact AT_free _ _ (Nat.le_refl _) rfl (by simp) (fun _ => Nat.le_refl _) (by simp)
  case yHead =>
    split
    · rename_i hge
      intro _ hP hT hA hb hAT
      have hinv := hAT.invNow (by rw [hpc]; simp)
      have hst := hAT.staleT (Or.inl hpc)
      have hA1 := AGb_weaken _ b _ hA (Nat.le_of_lt hb)
      refine ⟨AGb_finish _ _ _ _ _ _ _ hA1 hP ?_, rfl, ?_, Ext_trans_finish _ _ _ _ _ _ _ _ (Ext_refl g)⟩
      · refine ⟨hinv, Nat.le_refl _, Nat.le_refl _, by intro w hw; simp at hw, by intro w _ hw; simp at hw, by intro hw; simp at hw,
          by intro hw; simp at hw, ?_⟩
        intro _
        simp only [decide_eq_true_eq]
        have : t.k ≤ g.pushLog.length := hst
        show (g.pushLog.length : Int) - g.head ≥ g.cap
        omega
      · exact AT_free _ _ (by simpa [finish] using hinv) (by simp [finish, freePc]) (by simp [finish]) (by simp [finish]) (by simp [finish])
    · rename_i hlt
      apply sg2_local; intro _ _ hA
      exact AT_free _ _ (hA.invNow (by rw [hpc]; simp)) rfl (by simp) (fun _ => hA.staleT (Or.inl hpc)) (fun _ _ => by show (t.k : Int) < g.head + g.cap; omega)
  case yCas =>
    split
    · rename_i heq
      have e : takeTail g tid v = { takeTail g tid v with unb := g.unb || false } := by rw [Bool.or_false]; rfl
      rw [e]
      intro hok hP hT hA hb hAT
      have hgate := fun hc => hAT.gate hc (Or.inr hpc)
      refine takeTail_good2 g b tid v false t _ heq.symm (hAT.invNow (by rw [hpc]; simp)) ?_ (fun _ _ hc => hgate hc) hok hP hT hA hb hAT
      rcases pushEntry_cases g t f with e | e
      · exact Or.inl e
      · exact Or.inr (Or.inl e)
    · apply sg2_local; intro _ _ hA
      exact AT_free _ _ (hA.invNow (by rw [hpc]; simp)) rfl (by simp) (fun _ => Nat.le_refl _) (by simp)

theorem bpop_good2 (g : G) (b tid c : Nat) (t : Th) : StepGood2 g b tid t (stepBPop g tid c t).1 (stepBPop g tid c t).2.1 := by
  cases hpc : t.pc <;> simp only [stepBPop, hpc] <;> try exact lanePop_good2 g b tid t .bpop .qTicket (Or.inr rfl)
  case start =>
    apply sg2_local; intro _ _ _
    exact AT_free _ _ (Nat.le_refl _) rfl (by simp) (by simp) (by simp)
  case qTicket =>
    intro _ hP hT hA hb hAT
    have hinv := hAT.invNow (by rw [hpc]; simp)
    refine ⟨AGb_takeHead g b tid hA hb hP, rfl, ?_, Ext_takeHead g tid⟩
    refine ⟨fun _ => hinv, by simp [holdsT], ?_, by simp, by simp, by simp [lanePushPc]⟩
    intro _
    simp only [takeHead, upd, if_true]; exact hinv
  case qGate =>
    apply sg2_local; intro hP hT hA
    have hne : t.pc ≠ .start := by rw [hpc]; simp
    split <;> atrepc hA, hne
  case qPredA =>
    apply sg2_local; intro hP hT hA
    have hne : t.pc ≠ .start := by rw [hpc]; simp
    split <;> atrepc hA, hne
  case qPredT =>
    apply sg2_local; intro hP hT hA
    have hne : t.pc ≠ .start := by rw [hpc]; simp
    split <;> atrepc hA, hne
  case qBlocked =>
    have hne : t.pc ≠ .start := by rw [hpc]; simp
    split
    · apply sg2_local; intro hP hT hA; atrepc hA, hne
    · split
      · apply sg2_local; intro hP hT hA; atrepc hA, hne
      · split
        · apply sg2_local; intro hP hT hA; atrepc hA, hne
        · exact sg2_noop _ _ _ _
  case qUndo =>
    intro hok hP hT hA hb hAT
    have hinv := hAT.invNow (by rw [hpc]; simp)
    obtain ⟨_, hlast⟩ := ok_undoHead g.toP t.k hok
    have hfresh := hT.fresh (by rw [hpc]; rfl)
    have hA1 := AGb_weaken _ b _ (AGb_undoHead g b t.k hA hP) (Nat.le_of_lt hb)
    refine ⟨AGb_finish _ _ _ _ _ _ _ hA1 (PInv_undoHead _ _ hP hlast hfresh) ?_, rfl, ?_,
      Ext_trans_finish _ _ _ _ _ _ _ _ (Ext_undoHead g t.k)⟩
    · exact ⟨hinv, Nat.le_refl _, Nat.le_refl _, by intro w hw; simp at hw, by intro w _ hw; simp at hw,
        by intro hw; simp at hw, by intro hw; simp at hw, by intro hw; simp at hw⟩
    · exact AT_free _ _ (by simpa [finish, undoHead] using hinv) (by simp [finish, freePc]) (by simp [finish]) (by simp [finish]) (by simp [finish])

theorem stepTh_good2 (g : G) (b tid c : Nat) (t : Th) : StepGood2 g b tid t (stepTh g tid c t).1 (stepTh g tid c t).2.1 := by
  unfold stepTh
  cases hops : t.ops with
  | nil => exact sg2_noop _ _ _ _
  | cons op rest =>
    cases op with
    | push v f => exact push_good2 g b tid t rest v f hops
    | tryPop => exact tryPop_good2 g b tid t
    | bpush v f => exact bpush_good2 g b tid c t rest v f hops
    | btryPush v f => exact btryPush_good2 g b tid t rest v f hops
    | bpop => exact bpop_good2 g b tid c t
    | abort =>
      simp only; split
      · intro _ hP _ hA hb _
        refine ⟨AGb_weaken _ b _ (AGb_abortCnt g b (g.abortCnt + 1) hA hP) (Nat.le_of_lt hb), rfl, ?_, EP _ _ rfl rfl rfl rfl rfl rfl rfl rfl⟩
        exact AT_free _ _ (Nat.le_refl _) rfl (by simp) (by simp) (by simp)
      · split
        · rename_i hfl
          split
          · intro _ hP _ hA hb hAT
            exact ⟨AGb_weaken _ b _ (AGb_flush g b _ _ hA hP) (Nat.le_of_lt hb), rfl,
              AT_ext g _ t hAT (EP _ _ rfl rfl rfl rfl rfl rfl rfl rfl) (by simp [hfl, holdsH]), EP _ _ rfl rfl rfl rfl rfl rfl rfl rfl⟩
          · split
            · intro _ hP _ hA hb hAT
              exact ⟨AGb_weaken _ b _ (AGb_flush g b _ _ hA hP) (Nat.le_of_lt hb), rfl,
                AT_ext g _ t hAT (EP _ _ rfl rfl rfl rfl rfl rfl rfl rfl) (by simp [hfl, holdsH]), EP _ _ rfl rfl rfl rfl rfl rfl rfl rfl⟩
            · intro _ hP _ hA hb hAT
              have hinv := hAT.invNow (by rw [hfl]; simp)
              have hA1 := AGb_weaken _ b _ hA (Nat.le_of_lt hb)
              refine ⟨AGb_finish _ _ _ _ _ _ _ hA1 hP ?_, rfl, ?_, Ext_trans_finish _ _ _ _ _ _ _ _ (Ext_refl g)⟩
              · exact ⟨hinv, Nat.le_refl _, Nat.le_refl _, by intro w hw; simp at hw, by intro w hw; simp [opVal] at hw,
                  by intro hw; simp at hw, by intro hw; simp at hw, by intro hw; simp at hw⟩
              · exact AT_free _ _ (by simpa [finish] using hinv) (by simp [finish, freePc]) (by simp [finish]) (by simp [finish]) (by simp [finish])
        · exact sg2_noop _ _ _ _
    | setCap cp =>
      simp only; split
      case isFalse => exact sg2_noop _ _ _ _
      intro _ hP _ hA hb _
      have hA1 := AGb_weaken _ b _ (AGb_setCap g b (if cp < 0 then Generated.C09.infinite_capacity else cp) hA hP) (Nat.le_of_lt hb)
      refine ⟨AGb_finish _ _ _ _ _ _ _ hA1 hP ?_, rfl, ?_, Ext_trans_finish _ _ _ _ _ _ _ _ ?_⟩
      · exact ⟨Nat.le_refl _, Nat.le_refl _, Nat.le_refl _, by intro w hw; simp at hw, by intro w hw; simp [opVal] at hw,
          by intro hw; simp at hw, by intro hw; simp at hw, by intro hw; simp at hw⟩
      · exact AT_free _ _ (by simp [finish]) (by simp [finish, freePc]) (by simp [finish]) (by simp [finish]) (by simp [finish])
      · exact ⟨Nat.le_refl _, fun _ _ h => h, Nat.le_refl _, Or.inl (Nat.le_refl _), fun _ _ => rfl, fun h => h,
          fun hc => by simp [capOK] at hc⟩

/-- the auxiliary invariant of a whole state -/
def Inv2 (s : St) : Prop := ok s.g.toP → AG s.g ∧ ∀ (j : Nat) (t : Th), s.ths[j]? = some t → AT s.g t

theorem step_inv2 (s : St) (a : Act) (h1 : Inv s) (h2 : Inv2 s) : Inv2 (step s a) := by
  unfold step stepEv
  cases hth : s.ths[a.tid]? with
  | none => exact h2
  | some t =>
    simp only
    intro hok
    let g0 : G := { s.g with now := s.g.now + 1 }
    have hg1 := stepTh_good g0 a.tid a.c t
    have hg2 := stepTh_good2 g0 s.g.now a.tid a.c t
    obtain ⟨hok0, _⟩ := hg1 hok
    obtain ⟨hP, hTs⟩ := h1 hok0
    obtain ⟨hA, hATs⟩ := h2 hok0
    have hA0 : AGb g0 s.g.now := ⟨hA.pushT, hA.pushMono, hA.popT, hA.popMono,
      fun d hd => ⟨(hA.done d hd).t1, (hA.done d hd).t2, (hA.done d hd).t3, (hA.done d hd).val, (hA.done d hd).pushed,
        (hA.done d hd).threw, (hA.done d hd).empty, (hA.done d hd).full⟩, hA.noCrash, hA.capB⟩
    have hE0 : Ext s.g g0 := ⟨Nat.le_succ _, fun _ _ h => h, Nat.le_refl _, Or.inl (Nat.le_refl _), fun _ _ => rfl, fun h => h,
      fun hc => ⟨hc, rfl⟩⟩
    have hT := hTs _ _ hth
    have hAT0 : AT g0 t := AT_ext s.g g0 t (hATs _ _ hth) hE0 (fun hh => (hT.ownH hh).1)
    obtain ⟨hA', hnow, hAT', hExt⟩ := hg2 hok hP hT hA0 (Nat.lt_succ_self _) hAT0
    refine ⟨?_, ?_⟩
    · show AGb _ _
      rw [hnow]; exact hA'
    · intro j u hju
      by_cases e : j = a.tid
      · subst e
        rw [List.getElem?_set_self (lt_of_getElem?_some hth)] at hju
        cases hju; exact hAT'
      · rw [List.getElem?_set_ne (fun e' => e e'.symm)] at hju
        have hU := hTs j u hju
        exact AT_ext g0 _ u (AT_ext s.g g0 u (hATs j u hju) hE0 (fun hh => (hU.ownH hh).1)) hExt (fun hh => (hU.ownH hh).1)

theorem inv2_init (ipp : Nat) (cap : Int) (progs : List (List Op)) : Inv2 (initSt ipp cap progs) := by
  intro _
  refine ⟨?_, ?_⟩
  · refine ⟨?_, ?_, ?_, ?_, ?_, ⟨rfl, fun _ => rfl⟩, ?_⟩ <;> simp [initSt]
  · intro j t hj
    simp only [initSt, List.getElem?_map] at hj
    cases hp : progs[j]? with
    | none => simp [hp] at hj
    | some pr =>
      simp [hp] at hj; subst hj
      refine ⟨by simp, by simp [holdsT], by simp [holdsH], by simp, by simp, by simp [lanePushPc]⟩

theorem inv12_run (ipp : Nat) (cap : Int) (progs : List (List Op)) (hipp : 0 < ipp) (sched : List Act) :
    Inv (run ipp cap progs sched) ∧ Inv2 (run ipp cap progs sched) := by
  unfold run runFrom
  suffices ∀ s, Inv s ∧ Inv2 s → Inv (sched.foldl step s) ∧ Inv2 (sched.foldl step s) from
    this _ ⟨inv_init ipp cap progs hipp, inv2_init ipp cap progs⟩
  induction sched with
  | nil => intro s h; exact h
  | cons a as ih => intro s h; exact ih _ ⟨step_inv s a h.1, step_inv2 s a h.1 h.2⟩

end TbbVerif.C09
