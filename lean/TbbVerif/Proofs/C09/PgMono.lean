/-
C09 — page life cycle: the life of a slot's object and of a page is a one-way street, for every step of the model
(no hypothesis): a slot goes  raw → constructed v → destroyed v  or  raw → failed ; a page  unallocated → live → freed.
Together with the error flags (`ccons`, `ddead`, `dalloc`, `dfree`, proved false by the invariant) this is
"constructed once, destroyed once" / "allocated once, freed once".
-/
import TbbVerif.Proofs.C09.PgFinal

namespace TbbVerif.C09.Pg

theorem flag_slot (l : Lane) (x : Acc) : (l.flag x).slot = l.slot := by cases x <;> rfl
theorem flag_pages (l : Lane) (x : Acc) : (l.flag x).pages = l.pages := by cases x <;> rfl

def slotLe : SlotSt → SlotSt → Prop
  | .uninit, _ => True
  | .cons v, x => x = .cons v ∨ x = .dead v
  | .dead v, x => x = .dead v
  | .failed, x => x = .failed

def pageLe : PSt → PSt → Prop
  | .unalloc, _ => True
  | .live, x => x = .live ∨ x = .freed
  | .freed, x => x = .freed

theorem slotLe_refl (x : SlotSt) : slotLe x x := by cases x <;> simp [slotLe]
theorem pageLe_refl (x : PSt) : pageLe x x := by cases x <;> simp [pageLe]

theorem slotLe_upd (l : Lane) (pn i n k : Nat) (x : SlotSt) (h : slotLe (l.slot pn i) x) :
    slotLe (l.slot n k) ((setSlot l pn i x).slot n k) := by
  by_cases e : n = pn ∧ k = i
  · obtain ⟨e1, e2⟩ := e; subst e1; subst e2; simp [setSlot, updF2_same]; exact h
  · simp only [setSlot]; rw [updF2_ne _ _ _ _ _ _ e]; exact slotLe_refl _

theorem slot_step (l : Lane) (a : Nat) (t : LTh) (n k : Nat) : slotLe (l.slot n k) ((stepTh l a t).1.slot n k) := by
  unfold stepTh
  cases hops : t.ops with
  | nil => exact slotLe_refl _
  | cons o rest =>
    cases o with
    | push n' i v f =>
      simp only []
      unfold stepPush
      cases hpc : t.pc <;> simp only []
      case pCons =>
        split
        · rename_i pn hacc
          split
          · rename_i hs
            split
            · exact slotLe_upd l pn i n k _ (by rw [hs]; trivial)
            · exact slotLe_upd l pn i n k _ (by rw [hs]; trivial)
          · simp only [finish]; exact slotLe_refl _
        · simp only [crash, finish, flag_slot]; exact slotLe_refl _
      all_goals ((repeat' split) <;> (try simp only [finish, crash, flag_slot, setNext, setMask]) <;> exact slotLe_refl _)
    | pop n' i =>
      simp only []
      unfold stepPop
      cases hpc : t.pc <;> simp only []
      case cMove =>
        split
        · rename_i pn hacc
          split
          · rename_i v hs
            exact slotLe_upd l pn i n k _ (by rw [hs]; exact Or.inr rfl)
          · simp only [finish]; exact slotLe_refl _
        · simp only [crash, finish, flag_slot]; exact slotLe_refl _
      all_goals ((repeat' split) <;> (try simp only [finish, crash, flag_slot, setNext, setMask]) <;> exact slotLe_refl _)

theorem slotLe_trans {x y z : SlotSt} (h1 : slotLe x y) (h2 : slotLe y z) : slotLe x z := by
  cases x <;> cases y <;> simp_all [slotLe] <;> (try (rcases h1 with h | h <;> simp_all [slotLe]))

theorem slot_run (s : St) (sched : List Nat) (n k : Nat) : slotLe (s.l.slot n k) ((runFrom s sched).l.slot n k) := by
  unfold runFrom
  induction sched generalizing s with
  | nil => exact slotLe_refl _
  | cons a as ih =>
    refine slotLe_trans ?_ (ih (step s a))
    unfold step stepEv
    cases hth : s.ths[a]? with
    | none => exact slotLe_refl _
    | some t => exact slot_step s.l a t n k

theorem pageLe_upd (l : Lane) (pn n : Nat) (x : PageRec) (h : pageLe (l.pages pn).st x.st) :
    pageLe (l.pages n).st ((updF l.pages pn x) n).st := by
  by_cases e : n = pn
  · subst e; simp; exact h
  · rw [updF_ne _ _ _ _ e]; exact pageLe_refl _

theorem page_step (l : Lane) (a : Nat) (t : LTh) (n : Nat) : pageLe (l.pages n).st (((stepTh l a t).1.pages n).st) := by
  unfold stepTh
  cases hops : t.ops with
  | nil => exact pageLe_refl _
  | cons o rest =>
    cases o with
    | push n' i v f =>
      simp only []
      unfold stepPush
      cases hpc : t.pc <;> simp only []
      case start =>
        split
        · split
          · exact pageLe_refl _
          · split
            · rename_i hs; exact pageLe_upd l n' n _ (by rw [hs]; trivial)
            · simp only [finish]; exact pageLe_refl _
        · exact pageLe_refl _
      all_goals ((repeat' split) <;> (try simp only [finish, crash, flag_pages, setNext, setMask, setSlot, st_updNext, st_updMask]) <;>
        exact pageLe_refl _)
    | pop n' i =>
      simp only []
      unfold stepPop
      cases hpc : t.pc <;> simp only []
      case fFree =>
        split
        · rename_i pn hp
          split
          · rename_i hs; simp only [finish]; exact pageLe_upd l pn n _ (by rw [hs]; exact Or.inr rfl)
          · simp only [finish]; exact pageLe_refl _
        · simp only [crash, finish, flag_pages]; exact pageLe_refl _
      all_goals ((repeat' split) <;> (try simp only [finish, crash, flag_pages, setNext, setMask, setSlot, st_updNext, st_updMask]) <;>
        exact pageLe_refl _)

theorem pageLe_trans {x y z : PSt} (h1 : pageLe x y) (h2 : pageLe y z) : pageLe x z := by
  cases x <;> cases y <;> simp_all [pageLe]

theorem page_run (s : St) (sched : List Nat) (n : Nat) : pageLe (s.l.pages n).st (((runFrom s sched).l.pages n).st) := by
  unfold runFrom
  induction sched generalizing s with
  | nil => exact pageLe_refl _
  | cons a as ih =>
    refine pageLe_trans ?_ (ih (step s a))
    unfold step stepEv
    cases hth : s.ths[a]? with
    | none => exact pageLe_refl _
    | some t => exact page_step s.l a t n

end TbbVerif.C09.Pg
