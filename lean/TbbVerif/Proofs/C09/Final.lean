/- C09 — consequences of the three invariants used by the property theorems, and the counterexample schedules. -/
import TbbVerif.Proofs.C09.Clean
import TbbVerif.Proofs.C09.Ring

namespace TbbVerif.C09

/-- abbreviation: state reached by a schedule -/
abbrev R (ipp : Nat) (cap : Int) (progs : List (List Op)) (sched : List Act) : St := run ipp cap progs sched

theorem ring_run_safe (ipp : Nat) (hipp : 0 < ipp) (ops : List ROp) (hleg : Ring.legalRun ipp {} ops) :
    ∃ R outs, Ring.run ipp {} ops = some (R, outs) ∧
      popBits outs = (pubFlags ops).take R.hr ∧ R.hr ≤ R.tr ∧ R.tr = (pubFlags ops).length ∧
      R.allocs = R.frees + R.pages.length ∧ R.pages.length * ipp ≤ (R.tr - R.hr) + 2 * ipp := by
  obtain ⟨R, outs, hr, hI, _, hbits⟩ := ring_run_inv ipp hipp ops {} [] (ringInv_init ipp hipp) hleg
  refine ⟨R, outs, hr, by simpa using hbits, hI.hrtr, by simpa using hI.len.symm, ?_, ?_⟩
  · obtain ⟨_, h⟩ := hI; exact h.bal
  · obtain ⟨f0, h⟩ := hI
    cases hp : R.pages with
    | nil => simp
    | cons p rest =>
      have hb := chain_len_bound ipp _ _ R.pages f0 (by rw [hp]; simp) h.chain
      rw [hp] at hb
      have h1 := h.f0le; have h2 := h.hrlt; have h3 := h.hrtr
      have : (if R.linked then R.tr + 1 else R.tr) ≤ R.tr + 1 := by split <;> omega
      omega

/-- at quiescence every ticket is accounted for -/
theorem quiescent_account (s : St) (h1 : Inv s) (h3 : Inv3 s) (hok : ok s.g.toP) (hq : quiescent s) :
    s.g.head ≤ s.g.tail ∧
    ∀ k, k < s.g.tail → (∃ v, s.g.slot k = .item v ∧ ((k, v) ∈ s.g.popLog ↔ k < s.g.head)) ∨
                         (s.g.slot k = .invalid ∧ (k ∈ s.g.skipLog ↔ k < s.g.head)) := by
  obtain ⟨hP, _⟩ := h1 hok
  have hh := quiescent_heads s hq hok h3
  have ht := quiescent_tails s hq hok h3
  have hcons : ∀ h, consumed s.g.toP h → s.g.slot h ≠ .pending := by
    intro h hc
    rcases hc with hc | hc
    · obtain ⟨⟨a, b⟩, hm, e⟩ := List.mem_map.1 hc
      simp only at e; subst e
      rw [hP.popItem _ _ hm]; simp
    · rw [hP.skipInvalid _ hc]; simp
  refine ⟨?_, ?_⟩
  · rcases Nat.lt_or_ge s.g.tail s.g.head with hlt | hge
    · have := hP.slotLt _ (hcons _ (hh s.g.tail hlt))
      simp [P.tail, G.tail] at this
    · exact hge
  · intro k hk
    cases hs : s.g.slot k with
    | pending => exact absurd hs (ht k hk)
    | item v =>
      refine Or.inl ⟨v, rfl, ?_, ?_⟩
      · intro hm; exact hP.consLt k (Or.inl (List.mem_map.2 ⟨(k, v), hm, rfl⟩))
      · intro hlt
        rcases hh k hlt with hc | hc
        · obtain ⟨⟨a, b⟩, hm, e⟩ := List.mem_map.1 hc
          simp only at e; subst e
          have := hP.popItem _ _ hm
          rw [hs] at this; cases this; exact hm
        · have := hP.skipInvalid _ hc; rw [hs] at this; cases this
    | invalid =>
      refine Or.inr ⟨rfl, ?_, ?_⟩
      · intro hm; exact hP.consLt k (Or.inr hm)
      · intro hlt
        rcases hh k hlt with hc | hc
        · obtain ⟨⟨a, b⟩, hm, e⟩ := List.mem_map.1 hc
          simp only at e; subst e
          have := hP.popItem _ _ hm
          rw [hs] at this; cases this
        · exact hc

theorem set_self' {α} : ∀ (l : List α) (i : Nat) (x : α), l[i]? = some x → l.set i x = l
  | [], _, _, h => by simp at h
  | a :: l, 0, x, h => by simp at h; simp [h]
  | a :: l, i+1, x, h => by simp at h; simp [set_self' l i x h]

/-- a pop spinning on a lane whose head counter has already passed its ticket never gets out -/
theorem stuck_lHead (s : St) (tid c : Nat) (t : Th) (rest : List Op) (h : s.ths[tid]? = some t) (hop : t.ops = .tryPop :: rest)
    (hpc : t.pc = .lHead) (hne : s.g.lhead (lane t.k) ≠ base t.k) :
    (step s ⟨tid, c⟩).ths = s.ths ∧ (step s ⟨tid, c⟩).g.toP = s.g.toP := by
  unfold step stepEv
  simp only [h, stepTh, hop, stepTryPop, hpc, stepLanePop]
  have : ¬ (s.g.lhead (lane t.k) = base t.k) := hne
  simp only [this, if_false]
  have e : ({ ops := Op.tryPop :: rest, pc := Pc.lHead, k := t.k, old := t.old, m := t.m, inv := t.inv, fl := t.fl } : Th) = t := by
    cases t; simp_all
  rw [e, set_self' _ _ _ h]
  exact ⟨rfl, by first | rfl | trivial⟩

theorem stuck_forever (tid : Nat) (t : Th) (rest : List Op) (hop : t.ops = .tryPop :: rest) (hpc : t.pc = .lHead) :
    ∀ (n : Nat) (s : St), s.ths[tid]? = some t → s.g.lhead (lane t.k) ≠ base t.k →
      (runFrom s (List.replicate n ⟨tid, 0⟩)).ths[tid]? = some t := by
  intro n
  induction n with
  | zero => intro s h _; simpa [runFrom] using h
  | succ n ih =>
    intro s h hne
    obtain ⟨e1, e2⟩ := stuck_lHead s tid 0 t rest h hop hpc hne
    simp only [runFrom, List.replicate_succ, List.foldl_cons]
    apply ih
    · rw [e1]; exact h
    · have : (step s ⟨tid, 0⟩).g.lhead = s.g.lhead := by
        have := congrArg P.lhead e2; exact this
      rw [this]; exact hne

/-! ### the two as-coded failures (closed witnesses) -/

/-- DESIGN §4 F3: T0 blocking pop sleeps with ticket 0; T1 abort(); T2 blocking pop arrives and takes ticket 1;
T0 wakes, throws user_abort, `head_counter--` (2 → 1); T3 pushes 1 and 2; T2 is served ticket 1 = value 2;
T4's try_pop takes ticket 1 again and waits for a lane turn that has passed. -/
def f3Progs : List (List Op) := [[.bpop], [.abort], [.bpop], [.bpush 1 .none, .bpush 2 .none], [.tryPop]]
def f3Sched : List Act :=
  acts [0, 0, 0, 0, 0, 1] ++ [⟨1, 1⟩, ⟨1, 0⟩] ++ acts ([2, 2, 2, 2, 2, 0, 0] ++ List.replicate 14 3 ++ List.replicate 6 2 ++ [4, 4, 4])

/-- page allocation of the first push fails; the next try_pop reaches that ticket and reads the mask of a page
that was never linked (`head_page == (padded_page*)1` in the code) -/
def allocProgs : List (List Op) := [[.push 1 .alloc], [.tryPop]]
def allocSched : List Act := acts [0, 0, 0, 1, 1, 1, 1, 1, 1]

end TbbVerif.C09
