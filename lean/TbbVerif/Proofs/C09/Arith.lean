/-
C09 — lane / page arithmetic.  `n_queue` and `phi` are generated constants; everything here depends on their
values only through the closed facts `phi_inv`, `nq_pos`, `nq_pow2`, `nq_even` (discharged by `decide`), so a
change of the constants in the headers re-checks exactly those facts.
-/
import TbbVerif.Model.C09

namespace TbbVerif.C09

/-- `phi` is invertible modulo `n_queue` (⇔ gcd phi n_queue = 1) -/
theorem phi_inv : ∃ psi, psi < nq ∧ phi * psi % nq = 1 := by decide
theorem nq_pos : 0 < nq := by decide
theorem nq_pow2 : ∃ j, j < 64 ∧ nq = 2 ^ j := by decide
theorem nq_even : nq % 2 = 0 := by decide

/-! ### general modular facts (any modulus `n`) -/

theorem mul_inv_cancel_mod (n a b k : Nat) (h : a * b % n = 1 % n) : (k * a % n) * b % n = k % n := by
  have : (k * a % n) * b % n = k * (a * b) % n := by
    rw [Nat.mul_mod, Nat.mod_mod, ← Nat.mul_mod, Nat.mul_assoc]
  rw [this, Nat.mul_mod, h, ← Nat.mul_mod, Nat.mul_one]

theorem mod_eq_of_mul_mod_eq (n a b k k' : Nat) (h : a * b % n = 1 % n) (e : k * a % n = k' * a % n) : k % n = k' % n := by
  rw [← mul_inv_cancel_mod n a b k h, ← mul_inv_cancel_mod n a b k' h, e]

theorem mul_div_add_lt (n k : Nat) (hn : 0 < n) : k < n * (k / n) + n := by
  have := Nat.div_add_mod k n
  have := Nat.mod_lt k hn
  omega

theorem mul_div_le' (n k : Nat) : n * (k / n) ≤ k := Nat.mul_div_le k n

/-- two multiples of `n`: `a < b → a + n ≤ b` -/
theorem mult_step (n a b : Nat) (ha : a % n = 0) (hb : b % n = 0) (h : a < b) : a + n ≤ b := by
  rcases Nat.eq_zero_or_pos n with hn | hn
  · subst hn; simp at ha hb; omega
  · have ea := Nat.div_add_mod a n
    have eb := Nat.div_add_mod b n
    rw [ha] at ea; rw [hb] at eb
    have hlt : a / n < b / n := by
      apply Nat.lt_of_mul_lt_mul_left (a := n); omega
    have : n * (a / n + 1) ≤ n * (b / n) := Nat.mul_le_mul_left n hlt
    rw [Nat.mul_add, Nat.mul_one] at this
    omega

/-- two multiples of `n`: `a ≤ b < a + n → a = b` -/
theorem mult_between (n a b : Nat) (ha : a % n = 0) (hb : b % n = 0) (h1 : a ≤ b) (h2 : b < a + n) : a = b := by
  rcases Nat.lt_or_ge a b with h | h
  · have := mult_step n a b ha hb h; omega
  · omega

/-! ### lanes -/

theorem lane_lt (k : Nat) : lane k < nq := Nat.mod_lt _ nq_pos

theorem base_le (k : Nat) : base k ≤ k := Nat.mul_div_le k nq

theorem lt_base_add (k : Nat) : k < base k + nq := mul_div_add_lt nq k nq_pos

theorem base_mod (k : Nat) : base k % nq = 0 := Nat.mul_mod_right nq (k / nq)

theorem base_eq_iff_rnd (k k' : Nat) : base k = base k' ↔ rnd k = rnd k' := by
  unfold base rnd
  constructor
  · intro h; exact Nat.eq_of_mul_eq_mul_left nq_pos h
  · intro h; rw [h]

theorem lane_mod_eq (k k' : Nat) (hl : lane k = lane k') : k % nq = k' % nq := by
  obtain ⟨psi, _, hpsi⟩ := phi_inv
  have h1 : phi * psi % nq = 1 % nq := by
    rw [hpsi]; symm; apply Nat.mod_eq_of_lt
    rcases Nat.lt_or_ge 1 nq with h | h
    · exact h
    · -- nq = 1 would give x % 1 = 0 ≠ 1
      have : nq = 1 := by have := nq_pos; omega
      rw [this, Nat.mod_one] at hpsi; omega
  exact mod_eq_of_mul_mod_eq nq phi psi k k' h1 hl

theorem lane_rnd_inj (k k' : Nat) (hl : lane k = lane k') (hr : rnd k = rnd k') : k = k' := by
  have hm := lane_mod_eq k k' hl
  have e := Nat.div_add_mod k nq
  have e' := Nat.div_add_mod k' nq
  unfold rnd at hr
  rw [hr, hm] at e
  omega

theorem lane_base_inj (k k' : Nat) (hl : lane k = lane k') (hb : base k = base k') : k = k' :=
  lane_rnd_inj k k' hl ((base_eq_iff_rnd k k').1 hb)

theorem lane_surj (l r : Nat) (hl : l < nq) : ∃ k, lane k = l ∧ rnd k = r := by
  obtain ⟨psi, hpsi_lt, hpsi⟩ := phi_inv
  refine ⟨nq * r + (l * psi % nq), ?_, ?_⟩
  · unfold lane
    have h1 : (nq * r + l * psi % nq) * phi % nq = (l * psi % nq) * phi % nq := by
      rw [Nat.add_mul, Nat.mul_assoc, Nat.mul_add_mod]
    rw [h1]
    have h2 : psi * phi % nq = 1 % nq := by
      rw [Nat.mul_comm, hpsi]; symm; apply Nat.mod_eq_of_lt
      rcases Nat.lt_or_ge 1 nq with h | h
      · exact h
      · have : nq = 1 := by have := nq_pos; omega
        rw [this, Nat.mod_one] at hpsi; omega
    rw [mul_inv_cancel_mod nq psi phi l h2]
    exact Nat.mod_eq_of_lt hl
  · unfold rnd
    have hlt : l * psi % nq < nq := Nat.mod_lt _ nq_pos
    rw [Nat.mul_add_div nq_pos, Nat.div_eq_of_lt hlt, Nat.add_zero]

theorem rnd_lt_of_lt_same_lane (k k' : Nat) (h : k < k') (hl : lane k = lane k') : rnd k < rnd k' := by
  rcases Nat.lt_or_ge (rnd k) (rnd k') with h1 | h1
  · exact h1
  · exfalso
    have hm := lane_mod_eq k k' hl
    have e := Nat.div_add_mod k nq
    have e' := Nat.div_add_mod k' nq
    unfold rnd at h1
    have : nq * (k' / nq) ≤ nq * (k / nq) := Nat.mul_le_mul_left nq h1
    omega

/-- tickets of one lane are served in increasing order of `base` -/
theorem base_lt_of_lt_same_lane (k k' : Nat) (h : k < k') (hl : lane k = lane k') : base k < base k' := by
  have := rnd_lt_of_lt_same_lane k k' h hl
  unfold base; unfold rnd at this
  exact Nat.mul_lt_mul_of_pos_left this nq_pos

theorem baseAnd_eq (k : Nat) (h : k < 2 ^ 64) : baseAnd k = base k := by
  obtain ⟨j, hj, e⟩ := nq_pow2
  unfold baseAnd base
  rw [e]
  -- k &&& (2^64 - 2^j) clears the low j bits
  apply Nat.eq_of_testBit_eq
  intro i
  rw [Nat.testBit_and]
  have hsub : (2 ^ 64 - 2 ^ j).testBit i = (decide (j ≤ i) && decide (i < 64)) := by
    have : 2 ^ 64 - 2 ^ j = 2 ^ j * (2 ^ (64 - j) - 1) := by
      rw [Nat.mul_sub, Nat.mul_one, ← Nat.pow_add]; congr 2; omega
    rw [this, Nat.testBit_two_pow_mul]
    by_cases hji : j ≤ i
    · simp only [hji, decide_true, Bool.true_and]
      rw [Nat.testBit_two_pow_sub_one]
      congr 1; apply propext; omega
    · simp [hji]
  rw [hsub, Nat.testBit_two_pow_mul, Nat.testBit_div_two_pow]
  by_cases hji : j ≤ i
  · have hi : j + (i - j) = i := by omega
    by_cases h64 : i < 64
    · simp [hji, h64]
    · have : k.testBit i = false := Nat.testBit_lt_two_pow (Nat.lt_of_lt_of_le h (Nat.pow_le_pow_right (by decide) (by omega)))
      simp [hji, h64, this]
  · simp [hji]

theorem idxAnd_eq (ipp k : Nat) (h : ∃ j, ipp = 2 ^ j) : idxAnd ipp k = idx ipp k := by
  obtain ⟨j, rfl⟩ := h
  unfold idxAnd idx
  exact Nat.and_two_pow_sub_one_eq_mod _ _

set_option maxRecDepth 100000 in
theorem ipp_table_ok : ∀ p ∈ Generated.C09.ipp_table, ippOf p.1 = p.2 := by decide

theorem ippOf_pow2 (sz : Nat) : ∃ j, j ≤ 5 ∧ ippOf sz = 2 ^ j := by
  unfold ippOf
  split; · exact ⟨5, by omega, rfl⟩
  split; · exact ⟨4, by omega, rfl⟩
  split; · exact ⟨3, by omega, rfl⟩
  split; · exact ⟨2, by omega, rfl⟩
  split; · exact ⟨1, by omega, rfl⟩
  exact ⟨0, by omega, rfl⟩

theorem ippOf_pos (sz : Nat) : 0 < ippOf sz := by
  obtain ⟨j, _, e⟩ := ippOf_pow2 sz; rw [e]; exact Nat.pow_pos (by decide)

theorem ippOf_le_mask_bits (sz : Nat) : ippOf sz ≤ Generated.C09.mask_bits := by
  have : ippOf sz ≤ 32 := by unfold ippOf; repeat' split <;> try omega
  have h : 32 ≤ Generated.C09.mask_bits := by decide
  omega

theorem slot_triple_inj (ipp k k' : Nat) (_hipp : 0 < ipp) (hl : lane k = lane k') (hp : pageOf ipp k = pageOf ipp k')
    (hi : idx ipp k = idx ipp k') : k = k' := by
  apply lane_rnd_inj k k' hl
  unfold pageOf at hp; unfold idx at hi; unfold rnd
  have e := Nat.div_add_mod (k / nq) ipp
  have e' := Nat.div_add_mod (k' / nq) ipp
  rw [hp, hi] at e
  omega

end TbbVerif.C09
