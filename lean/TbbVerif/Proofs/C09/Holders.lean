/-
C09 — third invariant: every head ticket below `head_counter` is consumed or held by a live operation, every tail
ticket below `tail_counter` is published/invalidated or held by a live push.  At quiescence nothing is in flight,
so every ticket is accounted for ("no item lost").
-/
import TbbVerif.Proofs.C09.Step2

namespace TbbVerif.C09

/-- ticket book-keeping of one step of thread `tid` -/
structure Book (p : P) (tid : Nat) (t : Th) (p' : P) (t' : Th) : Prop where
  keepH : holdsH t.pc = true → (holdsH t'.pc = true ∧ t'.k = t.k) ∨ consumed p' t.k ∨ p'.head ≤ t.k
  keepT : holdsT t.pc = true → (holdsT t'.pc = true ∧ t'.k = t.k) ∨ p'.slot t.k ≠ .pending
  cons : ∀ h, consumed p h → consumed p' h
  slot : ∀ k, p.slot k ≠ .pending → p'.slot k ≠ .pending
  headLe : p'.head ≤ p.head + 1
  owner : ∀ h, h < p.head → p'.popOwner h = p.popOwner h
  newH : p'.head = p.head + 1 → p'.popOwner p.head = tid ∧ holdsH t'.pc = true ∧ t'.k = p.head
  push : ∀ (k : Nat) (r : PRec), p.pushLog[k]? = some r → p'.pushLog[k]? = some r
  newT : ∀ (k : Nat) (r : PRec), p'.pushLog[k]? = some r → p.pushLog[k]? = some r ∨ (r.tid = tid ∧ holdsT t'.pc = true ∧ t'.k = k)

/-- Book for steps that do not touch the protocol state -/
theorem book_local (p : P) (tid : Nat) (t t' : Th)
    (h1 : holdsH t.pc = true → holdsH t'.pc = true ∧ t'.k = t.k)
    (h2 : holdsT t.pc = true → holdsT t'.pc = true ∧ t'.k = t.k) : Book p tid t p t' :=
  ⟨fun h => Or.inl (h1 h), fun h => Or.inl (h2 h), fun _ h => h, fun _ h => h, Nat.le_succ _, fun _ _ => rfl,
   fun h => absurd h (by omega), fun _ _ h => h, fun _ _ h => Or.inl h⟩

theorem book_noop (p : P) (tid : Nat) (t : Th) : Book p tid t p t := book_local p tid t t (fun h => ⟨h, rfl⟩) (fun h => ⟨h, rfl⟩)

macro "bklocal" : tactic =>
  `(tactic| (apply book_local <;> simp_all [holdsH, holdsT]))

theorem book_takeTail (p : P) (r : PRec) (tid : Nat) (t t' : Th) (hf : freePc t.pc = true) (hk : t'.k = p.tail)
    (htid : r.tid = tid) (hpc : holdsT t'.pc = true) : Book p tid t (p.takeTail r) t' := by
  refine ⟨?_, ?_, fun _ h => h, fun _ h => h, Nat.le_succ _, fun _ _ => rfl, fun h => absurd h (by simp [P.takeTail]),
    fun _ _ h => getElem?_append_some h, ?_⟩
  · intro hh; cases hp : t.pc <;> simp_all [freePc, holdsH]
  · intro hh; cases hp : t.pc <;> simp_all [freePc, holdsT]
  · intro k r' hk'
    simp only [P.takeTail] at hk'
    rcases Nat.lt_or_ge k p.pushLog.length with hl | hl
    · rw [List.getElem?_append_left hl] at hk'; exact Or.inl hk'
    · have hlt := lt_of_getElem?_some hk'
      simp at hlt
      have : k = p.pushLog.length := by omega
      subst this
      simp at hk'; subst hk'
      exact Or.inr ⟨htid, hpc, hk⟩

theorem book_takeHead (p : P) (tid : Nat) (t t' : Th) (hf : freePc t.pc = true) (hk : t'.k = p.head) (hpc : holdsH t'.pc = true) :
    Book p tid t (p.takeHead tid) t' := by
  refine ⟨?_, ?_, fun _ h => h, fun _ h => h, Nat.le_refl _, ?_, fun _ => ⟨by simp [P.takeHead, upd], hpc, hk⟩, fun _ _ h => h,
    fun _ _ h => Or.inl h⟩
  · intro hh; cases hp : t.pc <;> simp_all [freePc, holdsH]
  · intro hh; cases hp : t.pc <;> simp_all [freePc, holdsT]
  · intro h hh; simp only [P.takeHead, upd]; rw [if_neg (by omega)]

/-- effects that change neither `head`, `popOwner` nor `pushLog` -/
theorem book_frame (p p' : P) (tid : Nat) (t t' : Th)
    (e1 : p'.head = p.head) (e2 : p'.popOwner = p.popOwner) (e3 : p'.pushLog = p.pushLog)
    (hc : ∀ h, consumed p h → consumed p' h) (hs : ∀ k, p.slot k ≠ .pending → p'.slot k ≠ .pending)
    (h1 : holdsH t.pc = true → (holdsH t'.pc = true ∧ t'.k = t.k) ∨ consumed p' t.k)
    (h2 : holdsT t.pc = true → (holdsT t'.pc = true ∧ t'.k = t.k) ∨ p'.slot t.k ≠ .pending) : Book p tid t p' t' :=
  ⟨fun h => by rcases h1 h with a | a; exact Or.inl a; exact Or.inr (Or.inl a), h2, hc, hs, by omega, fun _ _ => by rw [e2],
   fun h => absurd h (by omega), fun _ _ h => by rw [e3]; exact h, fun _ _ h => by rw [e3] at h; exact Or.inl h⟩

theorem slot_invalidate_ne (p : P) (k x : Nat) (h : p.slot x ≠ .pending) : (p.invalidate k).slot x ≠ .pending := by
  simp only [P.invalidate, upd]; split <;> simp_all

theorem slot_maskStore_ne (p : P) (k v m' x : Nat) (h : p.slot x ≠ .pending) : (p.maskStore k v m').slot x ≠ .pending := by
  simp only [P.maskStore, upd]; split <;> simp_all

theorem lanePush_book (g : G) (tid : Nat) (t : Th) (op : Op) (v : Nat) (f : Fail)
    (hok : ok (stepLanePush g tid t op v f).1.toP) (hP : PInv g.toP) (hT : TInv g.toP tid t) :
    Book g.toP tid t (stepLanePush g tid t op v f).1.toP (stepLanePush g tid t op v f).2.1 := by
  revert hok
  cases hpc : t.pc <;> simp only [stepLanePush, hpc] <;> intro hok <;> try exact book_noop _ _ _
  case pAlloc1 => simp [ok, poisonInv, invalidate] at hok
  case pAlloc2 => simp [ok, finish, poisonStore] at hok
  case pBadLast => have := hT.alive; rw [hpc] at this; simp [deadPc] at this
  case pTurn =>
    have hev := even_of_mod_nq _ (hP.lmod (lane t.k)).1
    have : ¬ (g.ltail (lane t.k) % 2 = 1) := by omega
    simp only [this, if_false]
    split <;> bklocal
  case pCons =>
    split
    · rw [invalidate_toP]
      exact book_frame _ _ _ _ _ rfl rfl rfl (fun _ h => h) (slot_invalidate_ne _ _) (by simp [hpc, holdsH]) (by simp [hpc, holdsT])
    · bklocal
  case pMaskSt =>
    rw [maskStore_toP]
    exact book_frame _ _ _ _ _ rfl rfl rfl (fun _ h => h) (slot_maskStore_ne _ _ _ _) (by simp [hpc, holdsH]) (by simp [hpc, holdsT])
  case pAdv okb =>
    rw [finish_toP, advTail_toP]
    refine book_frame _ _ _ _ _ rfl rfl rfl (fun _ h => h) (fun _ h => h) (by simp [hpc, holdsH]) (fun _ => Or.inr ?_)
    cases okb with
    | true => obtain ⟨w, hw⟩ := hT.advOk hpc; simp only [P.advTail]; rw [hw]; simp
    | false => have := hT.advBad (Or.inl hpc); simp only [P.advTail]; rw [this]; simp

theorem lanePop_book (g : G) (tid : Nat) (t : Th) (op : Op) (retry : Pc) (hretry : freePc retry = true)
    (hok : ok (stepLanePop g tid t op retry).1.toP) (hP : PInv g.toP) (hT : TInv g.toP tid t) :
    Book g.toP tid t (stepLanePop g tid t op retry).1.toP (stepLanePop g tid t op retry).2.1 := by
  revert hok
  cases hpc : t.pc <;> simp only [stepLanePop, hpc] <;> intro hok <;> try exact book_noop _ _ _
  case lHead => split <;> bklocal
  case lTail => split <;> bklocal
  case lMask =>
    have e : (if g.slot t.k = Slot.pending ∨ g.noPage t.k = true then { g with crashed := true } else g).toP = g.toP := by split <;> rfl
    rw [e]; split <;> bklocal
  case lMove =>
    rw [popMove_toP]
    exact book_frame _ _ _ _ _ rfl rfl rfl (fun h hh => (consumed_popMove _ _ _ h).2 (Or.inl hh)) (fun _ h => h)
      (by simp [hpc, holdsH]) (by simp [hpc, holdsT])
  case lInv =>
    rw [skipInv_toP]
    exact book_frame _ _ _ _ _ rfl rfl rfl (fun h hh => (consumed_skipInv _ _ h).2 (Or.inl hh)) (fun _ h => h)
      (by simp [hpc, holdsH]) (by simp [hpc, holdsT])
  case lFin r =>
    have hc := (hT.fin r hpc).1
    have key : ∀ t' : Th, Book g.toP tid t (advHead g t.k).toP t' := by
      intro t'
      rw [advHead_toP]
      exact book_frame _ _ _ _ _ rfl rfl rfl (fun _ h => h) (fun _ h => h) (fun _ => Or.inr hc) (by simp [hpc, holdsT])
    cases r with
    | some v => exact key _
    | none => exact key _

theorem pushEntry_holdsT (g : G) (t : Th) (f : Fail) : holdsT (pushEntry g t f) = true := by
  rcases pushEntry_cases g t f with e | e <;> rw [e] <;> rfl

theorem tryPop_book (g : G) (tid : Nat) (t : Th) (hok : ok (stepTryPop g tid t).1.toP) (hP : PInv g.toP) (hT : TInv g.toP tid t) :
    Book g.toP tid t (stepTryPop g tid t).1.toP (stepTryPop g tid t).2.1 := by
  revert hok
  cases hpc : t.pc <;> simp only [stepTryPop, hpc] <;> intro hok <;> try exact lanePop_book g tid t .tryPop .tHead rfl (by simpa [stepTryPop, hpc] using hok) hP hT
  case start => bklocal
  case tHead => bklocal
  case tTail => split <;> bklocal
  case tCas =>
    split
    · rename_i h; rw [takeHead_toP]; exact book_takeHead _ _ _ _ (by rw [hpc]; rfl) h.symm rfl
    · bklocal

theorem push_book (g : G) (tid : Nat) (t : Th) (v : Nat) (f : Fail) (hok : ok (stepPush g tid t v f).1.toP) (hP : PInv g.toP)
    (hT : TInv g.toP tid t) : Book g.toP tid t (stepPush g tid t v f).1.toP (stepPush g tid t v f).2.1 := by
  revert hok
  cases hpc : t.pc <;> simp only [stepPush, hpc] <;> intro hok <;> try exact lanePush_book g tid t _ v f (by simpa [stepPush, hpc] using hok) hP hT
  case start =>
    show Book g.toP tid t (g.toP.takeTail ⟨v, tid, g.now⟩) _
    exact book_takeTail _ _ _ _ _ (by rw [hpc]; rfl) rfl rfl (pushEntry_holdsT _ _ _)

theorem abortPush_book (g : G) (tid : Nat) (t : Th) (op : Op) (hok : ok (stepAbortPush g tid t op).1.toP) (hP : PInv g.toP)
    (hT : TInv g.toP tid t) : Book g.toP tid t (stepAbortPush g tid t op).1.toP (stepAbortPush g tid t op).2.1 := by
  revert hok
  cases hpc : t.pc <;> simp only [stepAbortPush, hpc] <;> intro hok <;> try exact book_noop _ _ _
  case bAbTurn =>
    have hev := even_of_mod_nq _ (hP.lmod (lane t.k)).1
    have : ¬ (g.ltail (lane t.k) % 2 = 1) := by omega
    simp only [this, if_false]
    split <;> bklocal
  case bAbInv =>
    rw [invalidate_toP]
    exact book_frame _ _ _ _ _ rfl rfl rfl (fun _ h => h) (slot_invalidate_ne _ _) (by simp [hpc, holdsH]) (by simp [hpc, holdsT])
  case bAbAdv =>
    rw [finish_toP, advTail_toP]
    refine book_frame _ _ _ _ _ rfl rfl rfl (fun _ h => h) (fun _ h => h) (by simp [hpc, holdsH]) (fun _ => Or.inr ?_)
    have := hT.advBad (Or.inr hpc); simp only [P.advTail]; rw [this]; simp

theorem bpush_book (g : G) (tid c : Nat) (t : Th) (v : Nat) (f : Fail) (hok : ok (stepBPush g tid c t v f).1.toP) (hP : PInv g.toP)
    (hT : TInv g.toP tid t) : Book g.toP tid t (stepBPush g tid c t v f).1.toP (stepBPush g tid c t v f).2.1 := by
  revert hok
  cases hpc : t.pc <;> simp only [stepBPush, hpc] <;> intro hok <;>
    (try exact lanePush_book g tid t _ v f (by simpa [stepBPush, hpc] using hok) hP hT) <;>
    (try exact abortPush_book g tid t _ (by simpa [stepBPush, hpc] using hok) hP hT)
  case start => bklocal
  case bTicket =>
    show Book g.toP tid t (g.toP.takeTail ⟨v, tid, g.now⟩) _
    exact book_takeTail _ _ _ _ _ (by rw [hpc]; rfl) rfl rfl rfl
  case bGate =>
    have := pushEntry_holdsT g t f
    split <;> bklocal
  case bPredA => split <;> bklocal
  case bPredH =>
    have := pushEntry_holdsT g t f
    split <;> bklocal
  case bBlocked =>
    have := pushEntry_holdsT g t f
    split
    · bklocal
    · split
      · bklocal
      · split
        · bklocal
        · exact book_noop _ _ _

theorem btryPush_book (g : G) (tid : Nat) (t : Th) (v : Nat) (f : Fail) (hok : ok (stepBTryPush g tid t v f).1.toP) (hP : PInv g.toP)
    (hT : TInv g.toP tid t) : Book g.toP tid t (stepBTryPush g tid t v f).1.toP (stepBTryPush g tid t v f).2.1 := by
  revert hok
  cases hpc : t.pc <;> simp only [stepBTryPush, hpc] <;> intro hok <;> try exact lanePush_book g tid t _ v f (by simpa [stepBTryPush, hpc] using hok) hP hT
  case start => bklocal
  case yHead => split <;> bklocal
  case yCas =>
    split
    · rename_i h
      show Book g.toP tid t (g.toP.takeTail ⟨v, tid, g.now⟩) _
      exact book_takeTail _ _ _ _ _ (by rw [hpc]; rfl) h.symm rfl (pushEntry_holdsT _ _ _)
    · bklocal

theorem bpop_book (g : G) (tid c : Nat) (t : Th) (hok : ok (stepBPop g tid c t).1.toP) (hP : PInv g.toP) (hT : TInv g.toP tid t) :
    Book g.toP tid t (stepBPop g tid c t).1.toP (stepBPop g tid c t).2.1 := by
  revert hok
  cases hpc : t.pc <;> simp only [stepBPop, hpc] <;> intro hok <;> try exact lanePop_book g tid t .bpop .qTicket rfl (by simpa [stepBPop, hpc] using hok) hP hT
  case start => bklocal
  case qTicket => rw [takeHead_toP]; exact book_takeHead _ _ _ _ (by rw [hpc]; rfl) rfl rfl
  case qGate => split <;> bklocal
  case qPredA => split <;> bklocal
  case qPredT => split <;> bklocal
  case qBlocked =>
    split
    · bklocal
    · split
      · bklocal
      · split
        · bklocal
        · exact book_noop _ _ _
  case qUndo =>
    rw [finish_toP, undoHead_toP] at hok ⊢
    obtain ⟨_, hlast⟩ := ok_undoHead _ _ hok
    refine ⟨fun _ => Or.inr (Or.inr (by simp only [P.undoHead]; omega)), by simp [hpc, holdsT], fun _ h => h, fun _ h => h,
      by simp only [P.undoHead]; omega, fun _ _ => rfl, fun h => absurd h (by simp only [P.undoHead]; omega), fun _ _ h => h,
      fun _ _ h => Or.inl h⟩

def BookOf (g : G) (tid c : Nat) (t : Th) : Prop :=
  ok (stepTh g tid c t).1.toP → PInv g.toP → TInv g.toP tid t → Book g.toP tid t (stepTh g tid c t).1.toP (stepTh g tid c t).2.1

theorem stepTh_book (g : G) (tid c : Nat) (t : Th) : BookOf g tid c t := by
  unfold BookOf stepTh
  cases hops : t.ops with
  | nil => intro _ _ _; exact book_noop _ _ _
  | cons op rest =>
    cases op with
    | push v f => exact push_book g tid t v f
    | tryPop => exact tryPop_book g tid t
    | bpush v f => exact bpush_book g tid c t v f
    | btryPush v f => exact btryPush_book g tid t v f
    | bpop => exact bpop_book g tid c t
    | abort =>
      simp only; split
      · rename_i h; intro _ _ _; exact book_local _ _ _ _ (by simp [h, holdsH]) (by simp [h, holdsT])
      · split
        · rename_i h
          split
          · intro _ _ _; exact book_noop _ _ _
          · split
            · intro _ _ _; exact book_noop _ _ _
            · intro _ _ _; exact book_local _ _ _ _ (by simp [h, holdsH]) (by simp [h, holdsT])
        · intro _ _ _; exact book_noop _ _ _
    | setCap cp =>
      simp only; split
      · rename_i h; intro _ _ _; exact book_local _ _ _ _ (by simp [h, holdsH]) (by simp [h, holdsT])
      · intro _ _ _; exact book_noop _ _ _

structure HInv (s : St) : Prop where
  heads : ∀ h, h < s.g.head → consumed s.g.toP h ∨
    ∃ t, s.ths[s.g.popOwner h]? = some t ∧ holdsH t.pc = true ∧ t.k = h
  tails : ∀ (k : Nat) (r : PRec), s.g.pushLog[k]? = some r → s.g.slot k ≠ .pending ∨
    ∃ t, s.ths[r.tid]? = some t ∧ holdsT t.pc = true ∧ t.k = k

def Inv3 (s : St) : Prop := ok s.g.toP → HInv s

theorem step_inv3 (s : St) (a : Act) (h1 : Inv s) (h3 : Inv3 s) : Inv3 (step s a) := by
  unfold step stepEv
  cases hth : s.ths[a.tid]? with
  | none => exact h3
  | some t =>
    simp only
    intro hok
    let g0 : G := { s.g with now := s.g.now + 1 }
    obtain ⟨hok0, _⟩ := stepTh_good g0 a.tid a.c t hok
    obtain ⟨hP, hTs⟩ := h1 hok0
    have hT := hTs _ _ hth
    have hB := stepTh_book g0 a.tid a.c t hok hP hT
    have hH := h3 hok0
    have hlen := lt_of_getElem?_some hth
    refine ⟨?_, ?_⟩
    · intro h hh
      by_cases hnew : h < s.g.head
      · rcases hH.heads h hnew with hc | ⟨u, hu, hu1, hu2⟩
        · exact Or.inl (hB.cons h hc)
        · have hown := hB.owner h hnew
          by_cases e : s.g.popOwner h = a.tid
          · rw [e, hth] at hu; cases hu
            rcases hB.keepH hu1 with ⟨k1, k2⟩ | k | k
            · refine Or.inr ⟨_, ?_, k1, by rw [k2, hu2]⟩
              show (s.ths.set a.tid _)[(stepTh g0 a.tid a.c t).1.popOwner h]? = _
              rw [hown, e, List.getElem?_set_self hlen]
            · rw [hu2] at k; exact Or.inl k
            · rw [hu2] at k
              have hh' : h < (stepTh g0 a.tid a.c t).1.toP.head := hh
              omega
          · refine Or.inr ⟨u, ?_, hu1, hu2⟩
            show (s.ths.set a.tid _)[(stepTh g0 a.tid a.c t).1.popOwner h]? = _
            rw [hown, List.getElem?_set_ne (fun e' => e e'.symm)]; exact hu
      · have hle := hB.headLe
        have hh' : h < (stepTh g0 a.tid a.c t).1.head := hh
        have hs : g0.toP.head = s.g.head := rfl
        have heq : (stepTh g0 a.tid a.c t).1.toP.head = g0.toP.head + 1 := by
          have : (stepTh g0 a.tid a.c t).1.toP.head = (stepTh g0 a.tid a.c t).1.head := rfl
          omega
        obtain ⟨n1, n2, n3⟩ := hB.newH heq
        have hh0 : h = s.g.head := by omega
        refine Or.inr ⟨_, ?_, n2, by rw [n3, hh0]⟩
        show (s.ths.set a.tid _)[(stepTh g0 a.tid a.c t).1.popOwner h]? = _
        rw [hh0]
        have : (stepTh g0 a.tid a.c t).1.popOwner s.g.head = a.tid := n1
        rw [this, List.getElem?_set_self hlen]
    · intro k r hk
      rcases hB.newT k r hk with hold | ⟨n1, n2, n3⟩
      · rcases hH.tails k r hold with hs | ⟨u, hu, hu1, hu2⟩
        · exact Or.inl (hB.slot k hs)
        · by_cases e : r.tid = a.tid
          · rw [e, hth] at hu; cases hu
            rcases hB.keepT hu1 with ⟨k1, k2⟩ | k'
            · refine Or.inr ⟨_, ?_, k1, by rw [k2, hu2]⟩
              show (s.ths.set a.tid _)[r.tid]? = _
              rw [e, List.getElem?_set_self hlen]
            · rw [hu2] at k'; exact Or.inl k'
          · refine Or.inr ⟨u, ?_, hu1, hu2⟩
            show (s.ths.set a.tid _)[r.tid]? = _
            rw [List.getElem?_set_ne (fun e' => e e'.symm)]; exact hu
      · refine Or.inr ⟨_, ?_, n2, n3⟩
        show (s.ths.set a.tid _)[r.tid]? = _
        rw [n1, List.getElem?_set_self hlen]

theorem inv3_init (ipp : Nat) (cap : Int) (progs : List (List Op)) : Inv3 (initSt ipp cap progs) := by
  intro _
  refine ⟨?_, ?_⟩
  · intro h hh; simp [initSt] at hh
  · intro k r hk; simp [initSt] at hk

theorem inv123_run (ipp : Nat) (cap : Int) (progs : List (List Op)) (hipp : 0 < ipp) (sched : List Act) :
    Inv (run ipp cap progs sched) ∧ Inv2 (run ipp cap progs sched) ∧ Inv3 (run ipp cap progs sched) := by
  unfold run runFrom
  suffices ∀ s, Inv s ∧ Inv2 s ∧ Inv3 s → Inv (sched.foldl step s) ∧ Inv2 (sched.foldl step s) ∧ Inv3 (sched.foldl step s) from
    this _ ⟨inv_init ipp cap progs hipp, inv2_init ipp cap progs, inv3_init ipp cap progs⟩
  induction sched with
  | nil => intro s h; exact h
  | cons a as ih => intro s h; exact ih _ ⟨step_inv s a h.1, step_inv2 s a h.1 h.2.1, step_inv3 s a h.1 h.2.2⟩

/-- no operation is in flight -/
def quiescent (s : St) : Prop := ∀ t, t ∈ s.ths → t.pc = .start

theorem quiescent_heads (s : St) (hq : quiescent s) (hok : ok s.g.toP) (h3 : Inv3 s) : ∀ h, h < s.g.head → consumed s.g.toP h := by
  intro h hh
  rcases (h3 hok).heads h hh with hc | ⟨t, ht, ht1, _⟩
  · exact hc
  · have := hq t (List.mem_of_getElem? ht); rw [this] at ht1; simp [holdsH] at ht1

theorem quiescent_tails (s : St) (hq : quiescent s) (hok : ok s.g.toP) (h3 : Inv3 s) : ∀ k, k < s.g.tail → s.g.slot k ≠ .pending := by
  intro k hk
  have hlt : k < s.g.pushLog.length := hk
  rcases (h3 hok).tails k _ (List.getElem?_eq_getElem hlt) with hc | ⟨t, ht, ht1, _⟩
  · exact hc
  · have := hq t (List.mem_of_getElem? ht); rw [this] at ht1; simp [holdsT] at ht1

end TbbVerif.C09
