/-
C09 — the page chain of one lane (`Ring`): a pop always reads the page that holds its round, the mask bit it
tests says exactly whether that slot was constructed, pages are unlinked only after their last slot was popped,
never leaked, never freed twice.
-/
import TbbVerif.Proofs.C09.Arith

namespace TbbVerif.C09

def Ring.legal (R : Ring) : ROp → Bool
  | .prep => !R.linked
  | .pub _ => R.linked
  | .pop => decide (R.hr < R.tr)

/-- op sequences the lane turnstile allows: prepare/publish alternate, a pop only runs when `hr < tr` -/
def Ring.legalRun (ipp : Nat) : Ring → List ROp → Prop
  | _, [] => True
  | R, o :: os => R.legal o = true ∧ ∀ R' out, R.step ipp o = some (R', out) → Ring.legalRun ipp R' os

def pubFlags : List ROp → List Bool
  | [] => []
  | .pub v :: os => v :: pubFlags os
  | _ :: os => pubFlags os

def popBits (outs : List (Option Bool)) : List Bool := outs.filterMap id

def PageOK (ipp : Nat) (flags : List Bool) (p : Page) : Prop :=
  ∀ b, b < ipp → (p.mask.testBit b = true ↔ flags[p.first + b]? = some true)

/-- the pages are exactly the consecutive pages `f, f+ipp, …` that start below `top` -/
def Chain (ipp : Nat) (flags : List Bool) : Nat → List Page → Nat → Prop
  | f, [], top => top ≤ f
  | f, p :: rest, top => p.first = f ∧ f < top ∧ PageOK ipp flags p ∧ Chain ipp flags (f + ipp) rest top

structure RingInvAt (ipp : Nat) (R : Ring) (flags : List Bool) (f0 : Nat) : Prop where
  f0mod : f0 % ipp = 0
  f0le : f0 ≤ R.hr
  hrlt : R.hr < f0 + ipp
  hrtr : R.hr ≤ R.tr
  len : flags.length = R.tr
  chain : Chain ipp flags f0 R.pages (if R.linked then R.tr + 1 else R.tr)
  bal : R.allocs = R.frees + R.pages.length

def RingInv (ipp : Nat) (R : Ring) (flags : List Bool) : Prop := ∃ f0, RingInvAt ipp R flags f0

theorem RingInv.len {ipp R flags} (h : RingInv ipp R flags) : flags.length = R.tr := by obtain ⟨_, h⟩ := h; exact h.len
theorem RingInv.hrtr {ipp R flags} (h : RingInv ipp R flags) : R.hr ≤ R.tr := by obtain ⟨_, h⟩ := h; exact h.hrtr

theorem mod_sub_of_mult (ipp f x : Nat) (hf : f % ipp = 0) (h1 : f ≤ x) (h2 : x < f + ipp) : x % ipp = x - f := by
  have e : x = f + (x - f) := by omega
  rw [e, Nat.add_mod, hf, Nat.zero_add, Nat.mod_mod, Nat.mod_eq_of_lt (by omega)]
  omega

theorem chain_append_new (ipp : Nat) (hipp : 0 < ipp) (flags : List Bool) (tr : Nat) (htr : tr % ipp = 0)
    (hlen : flags.length = tr) :
    ∀ (pages : List Page) (f : Nat), f % ipp = 0 → f ≤ tr → Chain ipp flags f pages tr →
      Chain ipp flags f (pages ++ [{ first := tr }]) (tr + 1) := by
  intro pages
  induction pages with
  | nil =>
    intro f _ hle hc
    simp only [Chain] at hc
    have : f = tr := by omega
    subst this
    refine ⟨rfl, by omega, ?_, by simp only [Chain]; omega⟩
    intro b _
    have : flags[f + b]? = none := by rw [List.getElem?_eq_none_iff]; omega
    simp [this]
  | cons p rest ih =>
    intro f hf hle hc
    obtain ⟨h1, h2, h3, h4⟩ := hc
    refine ⟨h1, by omega, h3, ?_⟩
    have hstep := mult_step ipp f tr hf htr h2
    exact ih (f + ipp) (by rw [Nat.add_mod, hf, Nat.mod_self]; simp) hstep h4

theorem chain_extend (ipp : Nat) (hipp : 0 < ipp) (flags : List Bool) (tr : Nat) (htr : tr % ipp ≠ 0) :
    ∀ (pages : List Page) (f : Nat), f % ipp = 0 → f ≤ tr → Chain ipp flags f pages tr →
      pages ≠ [] ∧ Chain ipp flags f pages (tr + 1) := by
  intro pages
  induction pages with
  | nil =>
    intro f hf hle hc
    simp only [Chain] at hc
    have : f = tr := by omega
    subst this; contradiction
  | cons p rest ih =>
    intro f hf hle hc
    obtain ⟨h1, h2, h3, h4⟩ := hc
    refine ⟨by simp, h1, by omega, h3, ?_⟩
    have hf' : (f + ipp) % ipp = 0 := by rw [Nat.add_mod, hf, Nat.mod_self]; simp
    rcases Nat.lt_or_ge tr (f + ipp) with hlt | hge
    · -- `tr` lies in this page: it is the last one
      cases rest with
      | nil => simp only [Chain]; omega
      | cons q r => obtain ⟨_, hq, _, _⟩ := h4; omega
    · exact (ih (f + ipp) hf' hge h4).2

theorem chain_ne_nil (ipp : Nat) (flags : List Bool) (f top : Nat) (pages : List Page) (h : Chain ipp flags f pages top)
    (hlt : f < top) : pages ≠ [] := by
  cases pages with
  | nil => simp only [Chain] at h; omega
  | cons p r => simp

/-- publishing round `tr`: only the last page changes, by exactly the bit of round `tr` -/
theorem chain_publish (ipp : Nat) (hipp : 0 < ipp) (flags : List Bool) (tr : Nat) (hlen : flags.length = tr) (valid : Bool) :
    ∀ (pages : List Page) (f : Nat), f % ipp = 0 → pages ≠ [] → Chain ipp flags f pages (tr + 1) →
      Chain ipp (flags ++ [valid]) f
        (modLast (fun p => if valid then { p with mask := p.mask ||| (1 <<< (tr % ipp)) } else p) pages) (tr + 1) := by
  intro pages
  induction pages with
  | nil => intro f _ hne _; contradiction
  | cons p rest ih =>
    intro f hf _ hc
    obtain ⟨h1, h2, h3, h4⟩ := hc
    have hf' : (f + ipp) % ipp = 0 := by rw [Nat.add_mod, hf, Nat.mod_self]; simp
    cases rest with
    | nil =>
      simp only [Chain] at h4
      simp only [modLast]
      have hb : tr % ipp = tr - f := mod_sub_of_mult ipp f tr hf (by omega) (by omega)
      have hnone : ∀ b, f + b = tr → flags[p.first + b]? = none := by
        intro b hb'; rw [List.getElem?_eq_none_iff]; omega
      have hget : ∀ b, f + b ≠ tr → ((flags ++ [valid])[p.first + b]? = some true ↔ flags[p.first + b]? = some true) := by
        intro b hbt
        rcases Nat.lt_or_ge (p.first + b) tr with hl | hl
        · rw [List.getElem?_append_left (by omega)]
        · have h1' : (flags ++ [valid])[p.first + b]? = none := by
            rw [List.getElem?_eq_none_iff]; simp; omega
          have h2' : flags[p.first + b]? = none := by rw [List.getElem?_eq_none_iff]; omega
          rw [h1', h2']
      have hgetT : ∀ b, f + b = tr → (flags ++ [valid])[p.first + b]? = some valid := by
        intro b hbt
        rw [h1, hbt, List.getElem?_append_right (by omega)]; simp [hlen]
      cases valid with
      | false =>
        simp only [Bool.false_eq_true, if_false]
        refine ⟨h1, h2, ?_, by simp only [Chain]; omega⟩
        intro b hbl
        by_cases hbt : f + b = tr
        · rw [hgetT b hbt, h3 b hbl, hnone b hbt]; simp
        · rw [hget b hbt]; exact h3 b hbl
      | true =>
        simp only [if_true]
        refine ⟨h1, h2, ?_, by simp only [Chain]; omega⟩
        intro b hbl
        show (p.mask ||| 1 <<< (tr % ipp)).testBit b = true ↔ (flags ++ [true])[p.first + b]? = some true
        have hbitor : (p.mask ||| 1 <<< (tr % ipp)).testBit b = (p.mask.testBit b || decide (b = tr % ipp)) := by
          rw [Nat.testBit_or, Nat.one_shiftLeft, Nat.testBit_two_pow]
          congr 1
          simp [eq_comm]
        rw [hbitor]
        by_cases hbt : f + b = tr
        · have hbe : b = tr % ipp := by omega
          rw [hgetT b hbt]; simp [hbe]
        · rw [hget b hbt, ← h3 b hbl]
          have : b ≠ tr % ipp := by omega
          simp [this]
    | cons q r =>
      simp only [modLast]
      have h4' := h4
      obtain ⟨hq1, hq2, _, _⟩ := h4
      refine ⟨h1, h2, ?_, ih (f + ipp) hf' (by simp) h4'⟩
      intro b hbl
      rw [h3 b hbl, List.getElem?_append_left (by omega)]

theorem chain_len_bound (ipp : Nat) (flags : List Bool) (top : Nat) :
    ∀ (pages : List Page) (f : Nat), pages ≠ [] → Chain ipp flags f pages top → f + pages.length * ipp < top + ipp := by
  intro pages
  induction pages with
  | nil => intro f h; contradiction
  | cons p rest ih =>
    intro f _ hc
    obtain ⟨_, h2, _, h4⟩ := hc
    cases rest with
    | nil => simp; omega
    | cons q r =>
      have := ih (f + ipp) (by simp) h4
      simp only [List.length_cons, Nat.succ_mul] at this ⊢
      omega

theorem modLast_length (f : Page → Page) : ∀ l : List Page, (modLast f l).length = l.length
  | [] => rfl
  | [_] => rfl
  | p :: q :: r => by simp [modLast, modLast_length f (q :: r)]

theorem ringInv_init (ipp : Nat) (hipp : 0 < ipp) : RingInv ipp {} [] :=
  ⟨0, { f0mod := by simp, f0le := by simp, hrlt := by simpa using hipp, hrtr := by simp, len := rfl,
        chain := by simp [Chain], bal := rfl }⟩

/-- one legal step: it is defined, keeps the invariant, and a pop returns the flag published for round `hr` -/
theorem ring_step_inv (ipp : Nat) (hipp : 0 < ipp) (R : Ring) (flags : List Bool) (o : ROp) (hI : RingInv ipp R flags)
    (hl : R.legal o = true) :
    ∃ R' out, R.step ipp o = some (R', out) ∧
      RingInv ipp R' (match o with | .pub v => flags ++ [v] | _ => flags) ∧
      (match o with
       | .pop => out = some (flags[R.hr]?.getD false) ∧ R'.hr = R.hr + 1 ∧ R'.tr = R.tr
       | .pub _ => out = none ∧ R'.hr = R.hr ∧ R'.tr = R.tr + 1
       | .prep => out = none ∧ R'.hr = R.hr ∧ R'.tr = R.tr) := by
  obtain ⟨f0, ⟨f0mod, f0le, hrlt, hrtr, len, chain, bal⟩⟩ := hI
  cases o with
  | prep =>
    simp only [Ring.legal, Bool.not_eq_true'] at hl
    simp only [hl] at chain
    simp only [Ring.step, hl]
    by_cases htr : R.tr % ipp = 0
    · simp only [htr, if_true]
      refine ⟨_, _, rfl, ?_, rfl, rfl, rfl⟩
      refine ⟨f0, ⟨f0mod, f0le, hrlt, hrtr, len, ?_, ?_⟩⟩
      · simpa using chain_append_new ipp hipp flags R.tr htr len R.pages f0 f0mod (by omega) chain
      · simp; omega
    · obtain ⟨hne, hc⟩ := chain_extend ipp hipp flags R.tr htr R.pages f0 f0mod (by omega) chain
      have : R.pages.isEmpty = false := by cases h : R.pages <;> simp_all
      simp only [htr, if_false, this]
      refine ⟨_, _, rfl, ?_, rfl, rfl, rfl⟩
      exact ⟨f0, ⟨f0mod, f0le, hrlt, hrtr, len, by simpa using hc, bal⟩⟩
  | pub valid =>
    simp only [Ring.legal] at hl
    simp only [hl, if_true] at chain
    have hne := chain_ne_nil ipp flags f0 (R.tr + 1) R.pages chain (by omega)
    have hemp : R.pages.isEmpty = false := by cases h : R.pages <;> simp_all
    simp only [Ring.step, hl, hemp]
    refine ⟨_, _, rfl, ?_, rfl, rfl, rfl⟩
    refine ⟨f0, ⟨f0mod, f0le, hrlt, by simp; omega, by simp [len], ?_, by simp [modLast_length]; exact bal⟩⟩
    simpa using chain_publish ipp hipp flags R.tr len valid R.pages f0 f0mod hne chain
  | pop =>
    simp only [Ring.legal, decide_eq_true_eq] at hl
    have hne := chain_ne_nil ipp flags f0 _ R.pages chain (by split <;> omega)
    cases hp : R.pages with
    | nil => exact absurd hp hne
    | cons p rest =>
      rw [hp] at chain bal
      obtain ⟨h1, h2, h3, h4⟩ := chain
      have hb : R.hr % ipp = R.hr - f0 := mod_sub_of_mult ipp f0 R.hr f0mod f0le hrlt
      have hbit : p.mask.testBit (R.hr % ipp) = flags[R.hr]?.getD false := by
        have hh := h3 (R.hr % ipp) (Nat.mod_lt _ hipp)
        have e : p.first + R.hr % ipp = R.hr := by omega
        rw [e] at hh
        have hlt : R.hr < flags.length := by omega
        rw [List.getElem?_eq_getElem hlt] at hh ⊢
        simp only [Option.some.injEq, Option.getD_some] at hh ⊢
        cases hx : p.mask.testBit (R.hr % ipp) <;> cases hy : flags[R.hr] <;> simp_all
      simp only [Ring.step, hl, if_true, hp]
      by_cases hlast : R.hr % ipp = ipp - 1
      · simp only [hlast, if_true]
        refine ⟨_, _, rfl, ?_, by rw [← hlast, hbit], rfl, rfl⟩
        refine ⟨f0 + ipp, ⟨by rw [Nat.add_mod, f0mod, Nat.mod_self]; simp, by simp; omega, by simp; omega, by simp; omega, len,
          by simpa using h4, by simp at bal ⊢; omega⟩⟩
      · simp only [hlast, if_false]
        refine ⟨_, _, rfl, ?_, by rw [hbit], rfl, rfl⟩
        refine ⟨f0, ⟨f0mod, by simp; omega, by simp; omega, by simp; omega, len, ?_, by simpa [hp] using bal⟩⟩
        simp only [hp]
        exact ⟨h1, h2, h3, h4⟩

theorem ring_run_inv (ipp : Nat) (hipp : 0 < ipp) :
    ∀ (ops : List ROp) (R : Ring) (flags : List Bool), RingInv ipp R flags → Ring.legalRun ipp R ops →
      ∃ R' outs, Ring.run ipp R ops = some (R', outs) ∧ RingInv ipp R' (flags ++ pubFlags ops) ∧
        R.hr ≤ R'.hr ∧ popBits outs = ((flags ++ pubFlags ops).drop R.hr).take (R'.hr - R.hr) := by
  intro ops
  induction ops with
  | nil => intro R flags hI _; exact ⟨R, [], rfl, by simpa [pubFlags] using hI, Nat.le_refl _, by simp [popBits]⟩
  | cons o os ih =>
    intro R flags hI hleg
    obtain ⟨hl, hrest⟩ := hleg
    obtain ⟨R1, out, hs, hI1, hout⟩ := ring_step_inv ipp hipp R flags o hI hl
    obtain ⟨R2, outs, hr, hI2, hle, hbits⟩ := ih R1 _ hI1 (hrest R1 out hs)
    refine ⟨R2, out :: outs, by simp [Ring.run, hs, hr], ?_, ?_, ?_⟩
    · cases o <;> simpa [pubFlags, List.append_assoc] using hI2
    · cases o <;> simp at hout <;> omega
    · have hlen1 := hI1.len
      have hlen2 := hI2.len
      have hrt2 := hI2.hrtr
      cases o with
      | prep =>
        obtain ⟨ho, h1, _⟩ := hout
        subst ho
        simp only [popBits, List.filterMap_cons, id] at hbits ⊢
        simpa [pubFlags, h1] using hbits
      | pub v =>
        obtain ⟨ho, h1, _⟩ := hout
        subst ho
        simp only [popBits, List.filterMap_cons, id] at hbits ⊢
        simpa [pubFlags, h1, List.append_assoc] using hbits
      | pop =>
        obtain ⟨ho, h1, h2⟩ := hout
        subst ho
        simp only [popBits, List.filterMap_cons, id] at hbits ⊢
        rw [hbits, h1]
        simp only [pubFlags]
        have hlt : R.hr < flags.length := by
          have := hI.len; simp only [Ring.legal, decide_eq_true_eq] at hl; omega
        have e : R2.hr - R.hr = (R2.hr - (R.hr + 1)) + 1 := by omega
        have hlt' : R.hr < (flags ++ pubFlags os).length := by simp; omega
        rw [e, List.drop_eq_getElem_cons hlt', List.take_succ_cons]
        simp [List.getElem_append_left hlt, List.getElem?_eq_getElem hlt]

end TbbVerif.C09
