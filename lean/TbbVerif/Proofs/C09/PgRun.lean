/-
C09 — page life cycle: one step of any thread preserves `Inv`; hence `Inv` holds after every schedule.
-/
import TbbVerif.Proofs.C09.PgPop2

namespace TbbVerif.C09.Pg

structure StepOK (l : Lane) (a : Nat) (t : LTh) (l' : Lane) (t' : LTh) : Prop where
  g : LInv l'
  self : Loc l' a t'
  opsR : t'.ops = t.ops ∨ t'.ops = t.ops.tail
  frame : ∀ b tb, b ≠ a → Loc l b tb → opsDisj t.ops tb.ops → Loc l' b tb

theorem StepOK.refl {l : Lane} {a : Nat} {t : LTh} (hg : LInv l) (hloc : Loc l a t) : StepOK l a t l t :=
  ⟨hg, hloc, Or.inl rfl, fun _ _ _ h _ => h⟩

theorem nodup_head_push {n i v : Nat} {f : Fail} {rest : List LOp}
    (h : ((LOp.push n i v f :: rest).filterMap pushRound).Nodup) : ∀ x, x ∈ rest → pushRound x ≠ some (n, i) := by
  intro x hx e
  simp only [List.filterMap_cons, pushRound, List.nodup_cons] at h
  exact h.1 (List.mem_filterMap.2 ⟨x, hx, e⟩)

theorem nodup_head_pop {n i : Nat} {rest : List LOp}
    (h : ((LOp.pop n i :: rest).filterMap popRound).Nodup) : ∀ x, x ∈ rest → popRound x ≠ some (n, i) := by
  intro x hx e
  simp only [List.filterMap_cons, popRound, List.nodup_cons] at h
  exact h.1 (List.mem_filterMap.2 ⟨x, hx, e⟩)

theorem StepOK.ofPush {l l' : Lane} {a : Nat} {t t' : LTh} {n i v : Nat} {f : Fail} {rest : List LOp}
    (hops : t.ops = .push n i v f :: rest) (hloc : Loc l a t) (hnod : (t.ops.filterMap pushRound).Nodup)
    (hs : PStep l a n i l')
    (hself : (t'.ops = t.ops ∧ t'.pc ≠ .start ∧ PushLoc l' a t' n i v f) ∨ (t'.ops = rest ∧ t'.pc = .start)) :
    StepOK l a t l' t' := by
  have hne := nodup_head_push (hops ▸ hnod)
  have hfut : ∀ x, x ∈ rest → futOK l' x := fun x hx => hs.fut x (hloc.fut x (by rw [hops]; exact hx)) (hne x hx)
  refine ⟨hs.g, ?_, ?_, ?_⟩
  · rcases hself with ⟨e1, e2, e3⟩ | ⟨e1, e2⟩
    · exact Loc.mk_cur (e1.trans hops) hfut e2 e3
    · exact Loc.mk_fin e2 (by rw [e1]; exact hfut)
  · rcases hself with ⟨e1, _, _⟩ | ⟨e1, _⟩
    · exact Or.inl e1
    · exact Or.inr (by rw [e1, hops]; rfl)
  · intro b tb hba hb hd
    have hmem : LOp.push n i v f ∈ t.ops := by rw [hops]; exact List.mem_cons_self
    refine hb.frame (fun o ho hf => hs.fut o hf ?_) (fun n' i' v' f' hm' hp => hs.pu b tb n' i' v' f' hba ?_ hp)
      (fun n' i' _ hp => hs.po b tb n' i' hba hp)
    · have := hd.1 _ hmem o ho
      simp only [pushRound, reduceCtorEq, false_or] at this
      exact fun e => this e.symm
    · have := disj_push hd hmem hm'
      exact fun e => this ⟨e.1.symm, e.2.symm⟩

theorem StepOK.ofPop {l l' : Lane} {a : Nat} {t t' : LTh} {n i : Nat} {rest : List LOp}
    (hops : t.ops = .pop n i :: rest) (hloc : Loc l a t) (hnod : (t.ops.filterMap popRound).Nodup)
    (hs : CStep l a n i l')
    (hself : (t'.ops = t.ops ∧ t'.pc ≠ .start ∧ PopLoc l' a t' n i) ∨ (t'.ops = rest ∧ t'.pc = .start)) :
    StepOK l a t l' t' := by
  have hne := nodup_head_pop (hops ▸ hnod)
  have hfut : ∀ x, x ∈ rest → futOK l' x := fun x hx => hs.fut x (hloc.fut x (by rw [hops]; exact hx)) (hne x hx)
  refine ⟨hs.g, ?_, ?_, ?_⟩
  · rcases hself with ⟨e1, e2, e3⟩ | ⟨e1, e2⟩
    · exact Loc.mk_cur (e1.trans hops) hfut e2 e3
    · exact Loc.mk_fin e2 (by rw [e1]; exact hfut)
  · rcases hself with ⟨e1, _, _⟩ | ⟨e1, _⟩
    · exact Or.inl e1
    · exact Or.inr (by rw [e1, hops]; rfl)
  · intro b tb hba hb hd
    have hmem : LOp.pop n i ∈ t.ops := by rw [hops]; exact List.mem_cons_self
    refine hb.frame (fun o ho hf => hs.fut o hf ?_) (fun n' i' v' f' _ hp => hs.pu b tb n' i' v' f' hba hp)
      (fun n' i' hm' hp => hs.po b tb n' i' hba ?_ hp)
    · have := hd.2 _ hmem o ho
      simp only [popRound, reduceCtorEq, false_or] at this
      exact fun e => this e.symm
    · have := disj_pop hd hmem hm'
      exact fun e => this ⟨e.1.symm, e.2.symm⟩

theorem PushLoc.congr {l : Lane} {a : Nat} {t t' : LTh} {n i v : Nat} {f : Fail} (h : PushLoc l a t n i v f) (e1 : t'.pc = t.pc)
    (e2 : t'.p = t.p) (e3 : t.pc = .pLink → t'.q = t.q) (e4 : t.pc = .pMaskSt → t'.m = t.m) : PushLoc l a t' n i v f := by
  refine ⟨by rw [e1]; exact h.pcs, h.ilt, by rw [e1, e2]; exact h.pre, by rw [e1, e2]; exact h.pend, by rw [e1]; exact h.sec,
    by rw [e1]; exact h.i0, by rw [e1]; exact h.i1, by rw [e1]; exact h.mx, by rw [e1]; exact h.phI, by rw [e1]; exact h.phL, ?_,
    by rw [e1, e2]; exact h.lk, by rw [e1]; exact h.raw, by rw [e1]; exact h.built, ?_, by rw [e1]; exact h.advT,
    by rw [e1]; exact h.advF⟩
  · intro hh; rw [e1] at hh; rw [e3 hh]; exact h.qv hh
  · intro hh; rw [e1] at hh; rw [e4 hh]; exact h.msk hh

theorem PopLoc.congr {l : Lane} {a : Nat} {t t' : LTh} {n i : Nat} (h : PopLoc l a t n i) (e1 : t'.pc = t.pc)
    (e2 : t'.p = t.p) (e3 : t.pc = .fSetHead → t'.q = t.q) : PopLoc l a t' n i := by
  refine ⟨by rw [e1]; exact h.pcs, h.ilt, by rw [e1]; exact h.pre, by rw [e1]; exact h.sec, by rw [e1]; exact h.mv0,
    by rw [e1]; exact h.mv1, by rw [e1]; exact h.lt, by rw [e1, e2]; exact h.pg, by rw [e1]; exact h.last, by rw [e1]; exact h.u0,
    by rw [e1]; exact h.u1, by rw [e1]; exact h.pub, by rw [e1]; exact h.mx, by rw [e1]; exact h.phI, by rw [e1]; exact h.phU, ?_,
    by rw [e1]; exact h.cons, by rw [e1]; exact h.free⟩
  intro hh; rw [e1] at hh; rw [e3 hh]; exact h.qv hh

section
variable {l : Lane} {a : Nat} {t : LTh}

theorem stepPush_ok {n i v : Nat} {f : Fail} {rest : List LOp} (hg : LInv l) (hloc : Loc l a t)
    (hops : t.ops = .push n i v f :: rest) (hnod : (t.ops.filterMap pushRound).Nodup)
    (hpo : (stepPush l a t n i v f).1.poisoned = false) :
    StepOK l a t (stepPush l a t n i v f).1 (stepPush l a t n i v f).2.1 := by
  obtain ⟨c1, c2⟩ := hloc.cur _ _ hops
  cases hpc : t.pc with
  | start =>
    have hf : futOK l (.push n i v f) := c1 hpc
    unfold stepPush at hpo ⊢
    simp only [hpc] at hpo ⊢
    by_cases hi : i = 0
    · simp only [hi, if_true] at hpo ⊢
      by_cases hfa : f = .alloc
      · simp [hfa] at hpo
      · have hst := hf.2.2.1 hi
        subst hi
        simp only [hfa, if_false, hst]
        obtain ⟨h1, h2⟩ := p_alloc (a := a) (t := t) hg hf rfl hst
        exact StepOK.ofPush hops hloc hnod h1 (Or.inl ⟨rfl, by simp, h2⟩)
    · simp only [hi, if_false]
      refine StepOK.ofPush hops hloc hnod (PStep.refl hg a n i) (Or.inl ⟨rfl, by simp, ?_⟩)
      obtain ⟨f1, f2, f3, f4, f5⟩ := hf
      selfc
      case pcs => simp [isPushPc]
      case ilt => exact f1
      case pre => intro _; exact ⟨f2, fun _ => rfl, f4, f5⟩
      case pend => intro _ h; exact absurd h hi
  | pTurn =>
    have hl : PushLoc l a t n i v f := c2 (by rw [hpc]; intro h; cases h)
    unfold stepPush
    simp only [hpc]
    split
    · rename_i h
      have ht : l.tP = n ∧ l.tI = i := ⟨h.1, h.2.1⟩
      exact StepOK.ofPush hops hloc hnod (PStep.refl hg a n i)
        (Or.inl ⟨rfl, by dsimp only; split <;> simp, p_turn hg hl hpc ht⟩)
    · split
      · rename_i h1 h2; rw [hg.odd] at h2; cases h2
      · exact StepOK.refl hg hloc
  | pLock =>
    have hl : PushLoc l a t n i v f := c2 (by rw [hpc]; intro h; cases h)
    unfold stepPush
    simp only [hpc]
    cases hm : l.mutex with
    | none =>
      exact StepOK.ofPush hops hloc hnod (lock_step hg hm n i) (Or.inl ⟨rfl, by simp, p_lock_self hg hl hpc hm⟩)
    | some x => exact StepOK.refl hg hloc
  | pLdTail =>
    have hl : PushLoc l a t n i v f := c2 (by rw [hpc]; intro h; cases h)
    unfold stepPush
    simp only [hpc]
    exact StepOK.ofPush hops hloc hnod (PStep.refl hg a n i) (Or.inl ⟨rfl, by simp, p_ldtail_self hl hpc⟩)
  | pLink =>
    have hl : PushLoc l a t n i v f := c2 (by rw [hpc]; intro h; cases h)
    unfold stepPush
    simp only [hpc]
    cases hq : t.q with
    | pg qn =>
      obtain ⟨h0, h1, h2⟩ := p_link_next hg hl hpc qn hq
      simp only [acc_pg_live l qn h0]
      exact StepOK.ofPush hops hloc hnod h1 (Or.inl ⟨rfl, by simp, h2.congr rfl rfl (by simp) (by simp)⟩)
    | null =>
      obtain ⟨h1, h2⟩ := p_link_head hg hl hpc (fun qn e => by rw [hq] at e; cases e)
      simp only []
      exact StepOK.ofPush hops hloc hnod h1 (Or.inl ⟨rfl, by simp, h2.congr rfl rfl (by simp) (by simp)⟩)
    | inv =>
      obtain ⟨h1, h2⟩ := p_link_head hg hl hpc (fun qn e => by rw [hq] at e; cases e)
      simp only []
      exact StepOK.ofPush hops hloc hnod h1 (Or.inl ⟨rfl, by simp, h2.congr rfl rfl (by simp) (by simp)⟩)
  | pSetTail =>
    have hl : PushLoc l a t n i v f := c2 (by rw [hpc]; intro h; cases h)
    unfold stepPush
    simp only [hpc]
    obtain ⟨h1, h2⟩ := p_settail hg hl hpc
    exact StepOK.ofPush hops hloc hnod h1 (Or.inl ⟨rfl, by simp, h2⟩)
  | pUnlock =>
    have hl : PushLoc l a t n i v f := c2 (by rw [hpc]; intro h; cases h)
    unfold stepPush
    simp only [hpc]
    exact StepOK.ofPush hops hloc hnod
      (unlock_step hg (hl.mx (by rw [hpc]; rfl)) (hl.phI (by rw [hpc]; rfl)) n i) (Or.inl ⟨rfl, by simp, p_unlock_self hl hpc⟩)
  | pLdTail2 =>
    have hl : PushLoc l a t n i v f := c2 (by rw [hpc]; intro h; cases h)
    unfold stepPush
    simp only [hpc]
    exact StepOK.ofPush hops hloc hnod (PStep.refl hg a n i) (Or.inl ⟨rfl, by simp, p_ldtail2_self hg hl hpc⟩)
  | pCons =>
    have hl : PushLoc l a t n i v f := c2 (by rw [hpc]; intro h; cases h)
    obtain ⟨_, _, _, _, _, hacc⟩ := p_page_facts hg hl (by rw [hpc]; rfl)
    have hraw := (hl.raw (by rw [hpc]; rfl)).1
    unfold stepPush
    simp only [hpc, hacc, hraw]
    by_cases hf : f = .ctor
    · subst hf
      simp only [↓reduceIte]
      exact StepOK.ofPush hops hloc hnod (p_cons hg hl hpc .failed (Or.inr rfl))
        (Or.inl ⟨rfl, by simp, p_cons_self_fail hg hl hpc⟩)
    · simp only [hf, if_false]
      exact StepOK.ofPush hops hloc hnod (p_cons hg hl hpc (.cons v) (Or.inl rfl))
        (Or.inl ⟨rfl, by simp, p_cons_self_ok hg hl hpc⟩)
  | pMaskLd =>
    have hl : PushLoc l a t n i v f := c2 (by rw [hpc]; intro h; cases h)
    obtain ⟨_, _, _, _, _, hacc⟩ := p_page_facts hg hl (by rw [hpc]; rfl)
    unfold stepPush
    simp only [hpc, hacc]
    exact StepOK.ofPush hops hloc hnod (PStep.refl hg a n i) (Or.inl ⟨rfl, by simp, p_maskld_self hl hpc⟩)
  | pMaskSt =>
    have hl : PushLoc l a t n i v f := c2 (by rw [hpc]; intro h; cases h)
    obtain ⟨_, _, _, _, _, hacc⟩ := p_page_facts hg hl (by rw [hpc]; rfl)
    unfold stepPush
    simp only [hpc, hacc]
    obtain ⟨h1, h2⟩ := p_maskst hg hl hpc
    exact StepOK.ofPush hops hloc hnod h1 (Or.inl ⟨rfl, by simp, h2⟩)
  | pAdv okb =>
    have hl : PushLoc l a t n i v f := c2 (by rw [hpc]; intro h; cases h)
    unfold stepPush
    simp only [hpc, finish]
    exact StepOK.ofPush hops hloc hnod (p_adv hg hl okb hpc _) (Or.inr ⟨by simp [hops], rfl⟩)
  | aLock | aStoreTc | aLdTail | aLink | aSetTail | aUnlock
  | cHead | cTail | cPage | cMask | cMove | fLock | fNext | fSetHead | fSetTail | fUnlock | fPub | fFree =>
    have hl : PushLoc l a t n i v f := c2 (by rw [hpc]; intro h; cases h)
    have := hl.pcs; rw [hpc] at this; simp [isPushPc] at this

theorem stepPop_ok {n i : Nat} {rest : List LOp} (hg : LInv l) (hloc : Loc l a t)
    (hops : t.ops = .pop n i :: rest) (hnod : (t.ops.filterMap popRound).Nodup) :
    StepOK l a t (stepPop l a t n i).1 (stepPop l a t n i).2.1 := by
  obtain ⟨c1, c2⟩ := hloc.cur _ _ hops
  have hne : ∀ {l' : Lane} {t' : LTh} (pc : Pc), t'.pc = pc → pc ≠ .start → t'.pc ≠ .start := fun pc e h => e ▸ h
  have head_ok : ∀ (hilt : i < l.ipp) (hpre : rle l.hP l.hI n i ∧ (l.hP = n ∧ l.hI = i → l.mv = false)),
      StepOK l a t l { t with pc := if l.hP = n ∧ l.hI = i then .cTail else .cHead } := by
    intro hilt hpre
    exact StepOK.ofPop hops hloc hnod (CStep.refl hg a n i)
      (Or.inl ⟨rfl, by dsimp only; split <;> simp, c_head_self hilt hpre⟩)
  cases hpc : t.pc with
  | start =>
    have hf : futOK l (.pop n i) := c1 hpc
    unfold stepPop
    simp only [hpc]
    exact head_ok hf.1 hf.2
  | cHead =>
    have hl : PopLoc l a t n i := c2 (by rw [hpc]; intro h; cases h)
    unfold stepPop
    simp only [hpc]
    exact head_ok hl.ilt (hl.pre hpc)
  | cTail =>
    have hl : PopLoc l a t n i := c2 (by rw [hpc]; intro h; cases h)
    unfold stepPop
    simp only [hpc]
    split
    · have e : ({ t with pc := .cTail } : LTh) = t := by cases t; simp_all
      rw [e]; exact StepOK.refl hg hloc
    · rename_i h
      have ht : ¬(l.tP = n ∧ l.tI = i) := fun h' => h ⟨h'.1, h'.2, hg.odd⟩
      exact StepOK.ofPop hops hloc hnod (CStep.refl hg a n i) (Or.inl ⟨rfl, by simp, c_tail_self hg hl hpc ht⟩)
  | cPage =>
    have hl : PopLoc l a t n i := c2 (by rw [hpc]; intro h; cases h)
    unfold stepPop
    simp only [hpc]
    exact StepOK.ofPop hops hloc hnod (CStep.refl hg a n i) (Or.inl ⟨rfl, by simp, c_page_self hg hl hpc⟩)
  | cMask =>
    have hl : PopLoc l a t n i := c2 (by rw [hpc]; intro h; cases h)
    obtain ⟨h1, h2, h3, h4, h5, h6, h7, h8⟩ := c_facts hg hl (by rw [hpc]; rfl) (by rw [hpc]; rfl)
    have hp := hl.pg (by rw [hpc]; rfl)
    unfold stepPop
    simp only [hpc, hp, acc_pg_live l n h7]
    cases hbit : (l.pages n).mask i with
    | true =>
      simp only [if_true]
      exact StepOK.ofPop hops hloc hnod (CStep.refl hg a n i) (Or.inl ⟨rfl, by simp, (c_mask_hit_self hg hl hpc hbit).congr rfl hp.symm (by simp)⟩)
    | false =>
      simp only [Bool.false_eq_true, if_false]
      have hself := c_fin_self (l' := { l with mv := true }) (t' := { t with pc := finPc l t i }) hl (by rw [hpc]; rfl)
        (by rw [hpc]; rfl) hg (by rw [hpc]; rfl) rfl rfl rfl rfl rfl rfl rfl rfl rfl
      refine StepOK.ofPop hops hloc hnod (c_skip hg hl hpc hbit) (Or.inl ⟨rfl, ?_, ?_⟩)
      · simp only [finPc]; split <;> simp
      · rw [hp] at hself; exact hself
  | cMove =>
    have hl : PopLoc l a t n i := c2 (by rw [hpc]; intro h; cases h)
    obtain ⟨h1, h2, h3, h4, h5, h6, h7, h8⟩ := c_facts hg hl (by rw [hpc]; rfl) (by rw [hpc]; rfl)
    have hp := hl.pg (by rw [hpc]; rfl)
    obtain ⟨v, hv⟩ := hl.cons hpc
    unfold stepPop
    simp only [hpc, hp, acc_pg_live l n h7, hv]
    have hself := c_fin_self (l' := { setSlot l n i (.dead v) with mv := true, delivered := l.delivered ++ [(n, i, v)] })
      (t' := { t with pc := finPc l t i, r := some v }) hl (by rw [hpc]; rfl)
      (by rw [hpc]; rfl) hg (by rw [hpc]; rfl) rfl rfl rfl rfl rfl rfl rfl rfl rfl
    refine StepOK.ofPop hops hloc hnod (c_move hg hl hpc v hv _ rfl) (Or.inl ⟨rfl, ?_, ?_⟩)
    · simp only [finPc]; split <;> simp
    · rw [hp] at hself; exact hself
  | fLock =>
    have hl : PopLoc l a t n i := c2 (by rw [hpc]; intro h; cases h)
    unfold stepPop
    simp only [hpc]
    cases hm : l.mutex with
    | none => exact StepOK.ofPop hops hloc hnod (c_lock hg hm) (Or.inl ⟨rfl, by simp, f_lock_self hg hl hpc hm⟩)
    | some x => exact StepOK.refl hg hloc
  | fNext =>
    have hl : PopLoc l a t n i := c2 (by rw [hpc]; intro h; cases h)
    obtain ⟨_, _, _, _, _, _, hlive, hp, _⟩ := f_facts hg hl (by rw [hpc]; rfl)
    unfold stepPop
    simp only [hpc, hp, acc_pg_live l n hlive]
    exact StepOK.ofPop hops hloc hnod (CStep.refl hg a n i) (Or.inl ⟨rfl, by simp, (f_next_self hg hl hpc).congr rfl hp.symm (by simp)⟩)
  | fSetHead =>
    have hl : PopLoc l a t n i := c2 (by rw [hpc]; intro h; cases h)
    obtain ⟨hv1, hv2⟩ := f_sethead hg hl hpc
    unfold stepPop
    simp only [hpc]
    cases hv : t.q.valid with
    | true =>
      simp only [if_true]
      obtain ⟨k1, k2⟩ := hv1 hv
      exact StepOK.ofPop hops hloc hnod k1 (Or.inl ⟨rfl, by simp, k2⟩)
    | false =>
      simp only [Bool.false_eq_true, if_false]
      obtain ⟨k1, k2⟩ := hv2 hv
      exact StepOK.ofPop hops hloc hnod k1 (Or.inl ⟨rfl, by simp, k2⟩)
  | fSetTail =>
    have hl : PopLoc l a t n i := c2 (by rw [hpc]; intro h; cases h)
    obtain ⟨k1, k2⟩ := f_settail hg hl hpc
    unfold stepPop
    simp only [hpc]
    exact StepOK.ofPop hops hloc hnod k1 (Or.inl ⟨rfl, by simp, k2⟩)
  | fUnlock =>
    have hl : PopLoc l a t n i := c2 (by rw [hpc]; intro h; cases h)
    unfold stepPop
    simp only [hpc]
    exact StepOK.ofPop hops hloc hnod (c_unlock hg (hl.mx (by rw [hpc]; rfl)) (hl.phI (by rw [hpc]; rfl)))
      (Or.inl ⟨rfl, by simp, f_unlock_self hl hpc⟩)
  | fPub =>
    have hl : PopLoc l a t n i := c2 (by rw [hpc]; intro h; cases h)
    have hp := hl.pg (by rw [hpc]; rfl)
    have hv : t.p.valid = true := by rw [hp]; rfl
    unfold stepPop
    simp only [hpc, hv, and_true]
    by_cases hi : i + 1 = l.ipp
    · simp only [hi, if_true]
      obtain ⟨k1, k2⟩ := f_pub hg hl hpc l.done
      exact StepOK.ofPop hops hloc hnod k1 (Or.inl ⟨rfl, by simp, k2 hi⟩)
    · simp only [hi, if_false, finish]
      obtain ⟨k1, _⟩ := f_pub hg hl hpc (l.done ++ [{ tid := a, op := .pop n i, res := match t.r with | some v => .val v | none => .skipped }])
      exact StepOK.ofPop hops hloc hnod k1 (Or.inr ⟨by simp [hops], rfl⟩)
  | fFree =>
    have hl : PopLoc l a t n i := c2 (by rw [hpc]; intro h; cases h)
    have hp := hl.pg (by rw [hpc]; rfl)
    have hlive := (hl.free hpc).1
    unfold stepPop
    simp only [hpc, hp, hlive, finish]
    exact StepOK.ofPop hops hloc hnod (f_free hg hl hpc _) (Or.inr ⟨by simp [hops], rfl⟩)
  | pTurn | pLock | pLdTail | pLink | pSetTail | pUnlock | pLdTail2 | pCons | pMaskLd | pMaskSt | pAdv _
  | aLock | aStoreTc | aLdTail | aLink | aSetTail | aUnlock =>
    have hl : PopLoc l a t n i := c2 (by rw [hpc]; intro h; cases h)
    have := hl.pcs; rw [hpc] at this; simp [isPopPc] at this

end

end TbbVerif.C09.Pg
