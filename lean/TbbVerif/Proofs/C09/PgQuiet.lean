/-
C09 — page life cycle: what is true of a lane when no operation is in flight.  Every "open section" fact of the lane
(`mv`, a held `page_mutex`, a linked page whose slot 0 is not yet published, a live page outside the chain) has a witness:
a thread whose program counter is inside the corresponding section.  At quiescence there is no such thread.
-/
import TbbVerif.Proofs.C09.PgMono

namespace TbbVerif.C09.Pg

/-- generic step of a "flag has a witness thread" invariant -/
theorem witness_step {flag : Lane → Prop} {cls : LTh → Prop} (s : St) (a : Nat)
    (hJ : flag s.l → ∃ (j : Nat) (t : LTh), s.ths[j]? = some t ∧ cls t)
    (hstep : ∀ t, s.ths[a]? = some t → flag (stepTh s.l a t).1 →
      cls (stepTh s.l a t).2.1 ∨ (flag s.l ∧ (cls t → cls (stepTh s.l a t).2.1))) :
    flag (step s a).l → ∃ (j : Nat) (t : LTh), (step s a).ths[j]? = some t ∧ cls t := by
  unfold step stepEv
  cases hth : s.ths[a]? with
  | none => exact hJ
  | some t =>
    simp only []
    intro hf
    have hlen := lt_of_getElem?_some' hth
    rcases hstep t hth hf with h | ⟨h1, h2⟩
    · exact ⟨a, _, List.getElem?_set_self hlen, h⟩
    · obtain ⟨j, tj, hj, hc⟩ := hJ h1
      by_cases e : j = a
      · subst e; rw [hth] at hj; cases hj
        exact ⟨j, _, List.getElem?_set_self hlen, h2 hc⟩
      · exact ⟨j, tj, by rw [List.getElem?_set_ne (fun e' => e e'.symm)]; exact hj, hc⟩

theorem crash_clean (l : Lane) (x : Acc) (a : Nat) (t : LTh) (op : LOp) (h : ∀ n, x ≠ .ok n) : ¬ (crash l x a t op).1.clean := by
  cases x with
  | ok n => exact absurd rfl (h n)
  | uaf => simp [crash, finish, Lane.flag, Lane.clean]
  | wild => simp [crash, finish, Lane.flag, Lane.clean]

/-- pcs at which `page_mutex` is held -/
def mxAny : Pc → Bool
  | .pLdTail | .pLink | .pSetTail | .pUnlock | .fNext | .fSetHead | .fSetTail | .fUnlock
  | .aStoreTc | .aLdTail | .aLink | .aSetTail | .aUnlock => true
  | _ => false

theorem mv_hstep (l : Lane) (a : Nat) (t : LTh) (hc : (stepTh l a t).1.clean) (hm : (stepTh l a t).1.mv = true) :
    mv1C (stepTh l a t).2.1.pc = true ∨ (l.mv = true ∧ (mv1C t.pc = true → mv1C (stepTh l a t).2.1.pc = true)) := by
  revert hc hm
  unfold stepTh
  cases hops : t.ops with
  | nil => intro _ hm; exact Or.inr ⟨hm, fun h => h⟩
  | cons o rest =>
    cases o with
    | push n i v f =>
      simp only []
      unfold stepPush
      cases hpc : t.pc <;> simp only [] <;> (repeat' split) <;> intro hc hm <;>
        (first
          | (exfalso; exact crash_clean _ _ _ _ _ (by assumption) hc)
          | (exfalso; exact crash_clean _ _ _ _ _ (by intro n h; cases h) hc)
          | simp_all [finish, Lane.clean, setNext, setMask, setSlot, mv1C])
    | pop n i =>
      simp only []
      unfold stepPop
      cases hpc : t.pc <;> simp only [] <;> (repeat' split) <;> intro hc hm <;>
        (first
          | (exfalso; exact crash_clean _ _ _ _ _ (by assumption) hc)
          | (exfalso; exact crash_clean _ _ _ _ _ (by intro n h; cases h) hc)
          | (simp_all [finish, Lane.clean, setNext, setMask, setSlot, mv1C, finPc]; try (split <;> simp_all)))

theorem mx_hstep (l : Lane) (a : Nat) (t : LTh) (hc : (stepTh l a t).1.clean) (hm : (stepTh l a t).1.mutex ≠ none) :
    mxAny (stepTh l a t).2.1.pc = true ∨ (l.mutex ≠ none ∧ (mxAny t.pc = true → mxAny (stepTh l a t).2.1.pc = true)) := by
  revert hc hm
  unfold stepTh
  cases hops : t.ops with
  | nil => intro _ hm; exact Or.inr ⟨hm, fun h => h⟩
  | cons o rest =>
    cases o with
    | push n i v f =>
      simp only []
      unfold stepPush
      cases hpc : t.pc <;> simp only [] <;> (repeat' split) <;> intro hc hm <;>
        (first
          | (exfalso; exact crash_clean _ _ _ _ _ (by assumption) hc)
          | (exfalso; exact crash_clean _ _ _ _ _ (by intro n h; cases h) hc)
          | simp_all [finish, Lane.clean, setNext, setMask, setSlot, mxAny])
    | pop n i =>
      simp only []
      unfold stepPop
      cases hpc : t.pc <;> simp only [] <;> (repeat' split) <;> intro hc hm <;>
        (first
          | (exfalso; exact crash_clean _ _ _ _ _ (by assumption) hc)
          | (exfalso; exact crash_clean _ _ _ _ _ (by intro n h; cases h) hc)
          | (simp_all [finish, Lane.clean, setNext, setMask, setSlot, mxAny, finPc]; try (split <;> simp_all)))

/-- the pop has unlinked its page and not yet freed it -/
def retC : Pc → Bool
  | .fSetTail | .fUnlock | .fPub | .fFree => true
  | _ => false

/-- thread `t` is responsible for page `n` (allocated and not yet linked / unlinked and not yet freed) -/
def holds (t : LTh) (n : Nat) : Prop := t.p = .pg n ∧ (pendPc t.pc = true ∨ retC t.pc = true)

def flagL (l : Lane) : Prop := l.tI = 0 ∧ l.L = l.tP + 1
def flagP (n : Nat) (l : Lane) : Prop := (l.pages n).st = .live ∧ ¬(l.U ≤ n ∧ n < l.L)

theorem lk_hstep (l : Lane) (a : Nat) (t : LTh) (hg : LInv l) (hloc : Loc l a t) (hc : (stepTh l a t).1.clean)
    (hm : flagL (stepTh l a t).1) :
    linkedP (stepTh l a t).2.1.pc = true ∨ (flagL l ∧ (linkedP t.pc = true → linkedP (stepTh l a t).2.1.pc = true)) := by
  have hodd := hg.odd
  revert hc hm
  unfold stepTh flagL
  cases hops : t.ops with
  | nil => intro _ hm; exact Or.inr ⟨hm, fun h => h⟩
  | cons o rest =>
    obtain ⟨_, c2⟩ := hloc.cur _ _ hops
    cases o with
    | push n i v f =>
      simp only []
      unfold stepPush
      cases hpc : t.pc
      case pAdv okb =>
        have hl : PushLoc l a t n i v f := c2 (by rw [hpc]; intro h; cases h)
        have h1 := hl.lk (by rw [hpc]; rfl)
        have h2 := hl.sec (by rw [hpc]; rfl)
        have h3 := hl.ilt
        simp only [finish]
        intro _ hm
        exfalso
        obtain ⟨m1, m2⟩ := hm
        have m1' : succI l.ipp l.tI = 0 := m1
        have m2' : l.L = succP l.ipp l.tP l.tI + 1 := m2
        rcases succ_cases l.ipp l.tP l.tI with ⟨_, e1, e2⟩ | ⟨_, e1, e2⟩ <;> rw [e1] at m2' <;> rw [e2] at m1' <;> omega
      case aLock | aStoreTc | aLdTail | aLink | aSetTail | aUnlock =>
        have hl : PushLoc l a t n i v f := c2 (by rw [hpc]; intro h; cases h)
        have := hl.pcs; rw [hpc] at this; simp [isPushPc] at this
      all_goals
        (simp only [] <;> (repeat' split) <;> intro hc hm <;>
          (first
            | (exfalso; exact crash_clean _ _ _ _ _ (by assumption) hc)
            | (exfalso; exact crash_clean _ _ _ _ _ (by intro n h; cases h) hc)
            | simp_all [finish, Lane.clean, setNext, setMask, setSlot, linkedP]))
    | pop n i =>
      simp only []
      unfold stepPop
      cases hpc : t.pc <;> simp only [] <;> (repeat' split) <;> intro hc hm <;>
        (first
          | (exfalso; exact crash_clean _ _ _ _ _ (by assumption) hc)
          | (exfalso; exact crash_clean _ _ _ _ _ (by intro n h; cases h) hc)
          | (simp_all [finish, Lane.clean, setNext, setMask, setSlot, linkedP, finPc]; try (split <;> simp_all)))

theorem pg_hstep (n0 : Nat) (l : Lane) (a : Nat) (t : LTh) (hg : LInv l) (hloc : Loc l a t) (hc : (stepTh l a t).1.clean)
    (hm : flagP n0 (stepTh l a t).1) :
    holds (stepTh l a t).2.1 n0 ∨ (flagP n0 l ∧ (holds t n0 → holds (stepTh l a t).2.1 n0)) := by
  have hodd := hg.odd
  have hUL := hg.UleL
  revert hc hm
  unfold stepTh flagP holds
  cases hops : t.ops with
  | nil => intro _ hm; exact Or.inr ⟨hm, fun h => h⟩
  | cons o rest =>
    obtain ⟨_, c2⟩ := hloc.cur _ _ hops
    cases o with
    | push n i v f =>
      simp only []
      unfold stepPush
      cases hpc : t.pc
      case start =>
        simp only []
        (repeat' split) <;> intro hc hm
        · right; exact ⟨hm, fun h => by simp [hpc, pendPc, retC] at h⟩
        · rename_i hi hf hst
          by_cases e : n0 = n
          · left; subst e; simp [pendPc]
          · right; simp only [updF_ne _ _ _ _ e] at hm; exact ⟨hm, fun h => by simp [hpc, pendPc, retC] at h⟩
        · simp_all [finish, Lane.clean]
        · right; exact ⟨hm, fun h => by simp [hpc, pendPc, retC] at h⟩
      case pTurn =>
        simp only []
        split
        · intro _ hm; right; refine ⟨hm, fun h => ⟨h.1, ?_⟩⟩
          have hv : t.p.valid = true := by rw [h.1]; rfl
          simp [hv, pendPc]
        · split
          · rename_i h2; rw [hodd] at h2; cases h2
          · intro _ hm
            exact Or.inr ⟨hm, fun h => by show t.p = .pg n0 ∧ (pendPc t.pc = true ∨ retC t.pc = true); rw [hpc]; exact h⟩
      case pSetTail =>
        have hl : PushLoc l a t n i v f := c2 (by rw [hpc]; intro h; cases h)
        have hi := hl.i0 (by rw [hpc]; rfl)
        have hs := hl.sec (by rw [hpc]; rfl)
        have hpd := hl.pend (by rw [hpc]; rfl) hi
        have hLr := hg.Lrel.2 (by omega)
        simp only []
        intro _ hm
        right
        obtain ⟨m1, m2⟩ := hm
        have m2' : ¬(l.U ≤ n0 ∧ n0 < l.L + 1) := m2
        refine ⟨⟨m1, fun h => m2' ⟨h.1, by omega⟩⟩, fun h => ?_⟩
        exfalso
        have : n0 = n := by have := h.1; rw [hpd.1] at this; cases this; rfl
        omega
      case aLock | aStoreTc | aLdTail | aLink | aSetTail | aUnlock =>
        have hl : PushLoc l a t n i v f := c2 (by rw [hpc]; intro h; cases h)
        have := hl.pcs; rw [hpc] at this; simp [isPushPc] at this
      all_goals
        (simp only [] <;> (repeat' split) <;> intro hc hm <;>
          (first
            | (exfalso; exact crash_clean _ _ _ _ _ (by assumption) hc)
            | (exfalso; exact crash_clean _ _ _ _ _ (by intro n h; cases h) hc)
            | (simp_all [finish, Lane.clean, setNext, setMask, setSlot, st_updNext, st_updMask, pendPc, retC, Ptr.valid]; done)
            | (simp_all [finish, Lane.clean, setNext, setMask, setSlot, st_updNext, st_updMask, pendPc, retC, Ptr.valid];
               (try (split <;> simp_all [Ptr.valid])))))
    | pop n i =>
      simp only []
      unfold stepPop
      cases hpc : t.pc
      case fSetHead =>
        have hl : PopLoc l a t n i := c2 (by rw [hpc]; intro h; cases h)
        have hu := hl.u0 (by rw [hpc]; rfl)
        have hp := hl.pg (by rw [hpc]; rfl)
        simp only []
        split <;> intro _ hm
        · by_cases e : n0 = n
          · left; exact ⟨by rw [hp, e], Or.inr rfl⟩
          · right
            obtain ⟨m1, m2⟩ := hm
            have m2' : ¬(l.U + 1 ≤ n0 ∧ n0 < l.L) := m2
            exact ⟨⟨m1, fun h => m2' ⟨by omega, h.2⟩⟩, fun h => by simp [hpc, pendPc, retC] at h⟩
        · by_cases e : n0 = n
          · left; exact ⟨by rw [hp, e], Or.inr rfl⟩
          · right
            obtain ⟨m1, m2⟩ := hm
            have m2' : ¬(l.U + 1 ≤ n0 ∧ n0 < l.L) := m2
            exact ⟨⟨m1, fun h => m2' ⟨by omega, h.2⟩⟩, fun h => by simp [hpc, pendPc, retC] at h⟩
      case fPub =>
        have hl : PopLoc l a t n i := c2 (by rw [hpc]; intro h; cases h)
        have hp := hl.pg (by rw [hpc]; rfl)
        have hpub := hl.pub hpc
        have hlt := hl.lt (by rw [hpc]; rfl)
        have hs := hl.sec (by rw [hpc]; rfl)
        have hL := hg.Lrel
        simp only []
        split <;> intro hcl hm
        · right; exact ⟨hm, fun h => ⟨h.1, Or.inr rfl⟩⟩
        · rename_i hcond
          right
          refine ⟨hm, fun h => ?_⟩
          exfalso
          have e : n0 = n := by have := h.1; rw [hp] at this; cases this; rfl
          have hv : t.p.valid = true := by rw [hp]; rfl
          have hi : i + 1 ≠ l.ipp := fun h' => hcond ⟨h', hv⟩
          have hU := hpub.2 hi
          simp only [rlt] at hlt
          have hnL : n < l.L := by
            by_cases hz : l.tI = 0
            · have := hL.2 hz; omega
            · have := hL.1 hz; omega
          simp only [finish] at hm
          exact hm.2 ⟨by omega, by omega⟩
      case fFree =>
        simp only []
        split
        · rename_i pn hp
          split
          · rename_i hs
            simp only [finish]
            intro _ hm
            obtain ⟨m1, m2⟩ := hm
            have hne : n0 ≠ pn := by intro e; subst e; simp at m1
            right
            simp only [updF_ne _ _ _ _ hne] at m1
            exact ⟨⟨m1, m2⟩, fun h => by exfalso; have := h.1; rw [hp] at this; cases this; exact hne rfl⟩
          · intro hc _; simp [finish, Lane.clean] at hc
        · intro hc _; exfalso; exact crash_clean _ _ _ _ _ (by intro n h; cases h) hc
      all_goals
        (simp only [] <;> (repeat' split) <;> intro hc hm <;>
          (first
            | (exfalso; exact crash_clean _ _ _ _ _ (by assumption) hc)
            | (exfalso; exact crash_clean _ _ _ _ _ (by intro n h; cases h) hc)
            | (simp_all [finish, Lane.clean, setNext, setMask, setSlot, st_updNext, st_updMask, pendPc, retC, finPc]; done)
            | (simp_all [finish, Lane.clean, setNext, setMask, setSlot, st_updNext, st_updMask, pendPc, retC, finPc];
               (try (split <;> simp_all)))))

structure Wit (s : St) : Prop where
  mv : s.l.mv = true → ∃ (j : Nat) (t : LTh), s.ths[j]? = some t ∧ mv1C t.pc = true
  mx : s.l.mutex ≠ none → ∃ (j : Nat) (t : LTh), s.ths[j]? = some t ∧ mxAny t.pc = true
  lk : flagL s.l → ∃ (j : Nat) (t : LTh), s.ths[j]? = some t ∧ linkedP t.pc = true
  pg : ∀ n, flagP n s.l → ∃ (j : Nat) (t : LTh), s.ths[j]? = some t ∧ holds t n

/-- a lane with no section open (what `Wit` needs initially; true of the empty lane, of a copy and of any quiescent lane) -/
structure QLane (l : Lane) : Prop where
  mv : l.mv = false
  mx : l.mutex = none
  lk : l.tI = 0 → l.L = l.tP
  pg : ∀ n, (l.pages n).st = .live → l.U ≤ n ∧ n < l.L

theorem wit_init (l : Lane) (progs : List (List LOp)) (hq : QLane l) : Wit (initFrom l progs) := by
  refine ⟨fun h => ?_, fun h => absurd hq.mx h, fun h => ?_, fun n h => absurd (hq.pg n h.1) h.2⟩
  · have h' : l.mv = true := h
    rw [hq.mv] at h'; cases h'
  · have h1 : l.tI = 0 := h.1
    have h2 : l.L = l.tP + 1 := h.2
    have := hq.lk h1
    omega

def Full (s : St) : Prop := s.l.poisoned = false → Inv s ∧ Wit s

theorem full_step (s : St) (a : Nat) (h : Full s) : Full (step s a) := by
  intro hp
  have h0 : s.l.poisoned = false := by
    cases hq : s.l.poisoned with
    | false => rfl
    | true => rw [poisoned_step s a hq] at hp; cases hp
  obtain ⟨hi, hw⟩ := h h0
  have hi' := step_inv s a hi hp
  have hl : ∀ t, s.ths[a]? = some t → (step s a).l = (stepTh s.l a t).1 := by
    intro t ht; simp [step, stepEv, ht]
  refine ⟨hi', ⟨?_, ?_, ?_, ?_⟩⟩
  · exact witness_step (flag := fun l => l.mv = true) (cls := fun t => mv1C t.pc = true) s a hw.mv
      (fun t ht hf => mv_hstep s.l a t (hl t ht ▸ hi'.g.clean) hf)
  · exact witness_step (flag := fun l => l.mutex ≠ none) (cls := fun t => mxAny t.pc = true) s a hw.mx
      (fun t ht hf => mx_hstep s.l a t (hl t ht ▸ hi'.g.clean) hf)
  · exact witness_step (flag := flagL) (cls := fun t => linkedP t.pc = true) s a hw.lk
      (fun t ht hf => lk_hstep s.l a t hi.g (hi.loc a t ht) (hl t ht ▸ hi'.g.clean) hf)
  · intro n
    exact witness_step (flag := flagP n) (cls := fun t => holds t n) s a (hw.pg n)
      (fun t ht hf => pg_hstep n s.l a t hi.g (hi.loc a t ht) (hl t ht ▸ hi'.g.clean) hf)

theorem full_runFrom (s : St) (h : Full s) (sched : List Nat) : Full (runFrom s sched) := by
  unfold runFrom
  induction sched generalizing s with
  | nil => exact h
  | cons a as ih => exact ih (step s a) (full_step s a h)

theorem full_init (l : Lane) (progs : List (List LOp)) (hg : LInv l) (hq : QLane l) (hwf : wf progs) (hfr : fresh l progs) :
    Full (initFrom l progs) := fun _ => ⟨inv_init l progs hg hq.mv hwf hfr, wit_init l progs hq⟩

theorem qlane_empty (ipp : Nat) : QLane { ipp := ipp } :=
  ⟨rfl, rfl, fun _ => rfl, fun n h => by cases h⟩

/-- with no operation in flight no section of the lane is open and every live page is in the chain -/
theorem quiescent_facts (s : St) (hi : Inv s) (hw : Wit s) (hq : quiescent s) : QLane s.l ∧ s.l.ph = .idle ∧ s.l.U = s.l.hP := by
  have none_busy : ∀ {cls : LTh → Prop}, (∀ t, t.pc = .start → ¬cls t) → ¬∃ (j : Nat) (t : LTh), s.ths[j]? = some t ∧ cls t := by
    intro cls hc ⟨j, t, hj, h⟩
    exact hc t (hq t (List.mem_of_getElem? hj)) h
  have hmv : s.l.mv = false := by
    cases h : s.l.mv with
    | false => rfl
    | true => exact absurd (hw.mv h) (none_busy (fun t ht => by rw [ht]; simp [mv1C]))
  have hmx : s.l.mutex = none := by
    cases h : s.l.mutex with
    | none => rfl
    | some x => exact absurd (hw.mx (by rw [h]; simp)) (none_busy (fun t ht => by rw [ht]; simp [mxAny]))
  have hlk : s.l.tI = 0 → s.l.L = s.l.tP := by
    intro hz
    rcases hi.g.Lrel.2 hz with h | h
    · exact h
    · exact absurd (hw.lk ⟨hz, h⟩) (none_busy (fun t ht => by rw [ht]; simp [linkedP]))
  have hpg : ∀ n, (s.l.pages n).st = .live → s.l.U ≤ n ∧ n < s.l.L := by
    intro n hl
    by_cases h : s.l.U ≤ n ∧ n < s.l.L
    · exact h
    · exact absurd (hw.pg n ⟨hl, h⟩) (none_busy (fun t ht => by intro hh; have := hh.2; rw [ht] at this; simp [pendPc, retC] at this))
  refine ⟨⟨hmv, hmx, hlk, hpg⟩, hi.g.mxPh hmx, ?_⟩
  rcases hi.g.Urel with h | ⟨_, _, _, h⟩
  · exact h
  · rw [hmv] at h; cases h

/-- the state reached from the quiescent lane `l0` by the programs `progs` under the schedule `sched` -/
abbrev reach (l0 : Lane) (progs : List (List LOp)) (sched : List Nat) : St := runFrom (initFrom l0 progs) sched

theorem reach_full (l0 : Lane) (progs : List (List LOp)) (sched : List Nat) (hg : LInv l0) (hq : QLane l0) (hwf : wf progs)
    (hfr : fresh l0 progs) (hp : (reach l0 progs sched).l.poisoned = false) :
    Inv (reach l0 progs sched) ∧ Wit (reach l0 progs sched) :=
  full_runFrom _ (full_init l0 progs hg hq hwf hfr) sched hp

end TbbVerif.C09.Pg
