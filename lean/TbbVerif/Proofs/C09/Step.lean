/-
C09 — every step of the ticket protocol model preserves the invariant `Inv`.
-/
import TbbVerif.Proofs.C09.Effects

namespace TbbVerif.C09

/-- what one step of thread `tid` must guarantee (protocol part `p ↦ p'`, thread state `t ↦ t'`) -/
def StepGood (p : P) (tid : Nat) (t : Th) (p' : P) (t' : Th) : Prop :=
  ok p' → ok p ∧ (PInv p → TInv p tid t → (∀ j u, j ≠ tid → TInv p j u → True) →
    PInv p' ∧ TInv p' tid t' ∧ ∀ j u, j ≠ tid → TInv p j u → TInv p' j u)

theorem sg_noop (p : P) (tid : Nat) (t : Th) : StepGood p tid t p t :=
  fun hok => ⟨hok, fun hP hT _ => ⟨hP, hT, fun _ _ _ h => h⟩⟩

theorem sg_local (p : P) (tid : Nat) (t t' : Th) (h : PInv p → TInv p tid t → TInv p tid t') : StepGood p tid t p t' :=
  fun hok => ⟨hok, fun hP hT _ => ⟨hP, h hP hT, fun _ _ _ h => h⟩⟩

theorem even_of_mod_nq (c : Nat) (h : c % nq = 0) : c % 2 = 0 := by
  have e := Nat.div_add_mod c nq
  rw [h, Nat.add_zero] at e
  rw [← e, Nat.mul_mod, nq_even]; simp

theorem lt_of_getElem?_some {α : Type} {l : List α} {k : Nat} {r : α} (h : l[k]? = some r) : k < l.length := by
  rcases Nat.lt_or_ge k l.length with h' | h'
  · exact h'
  · rw [List.getElem?_eq_none_iff.2 h'] at h; cases h

theorem finish_toP (g : G) (tid : Nat) (t : Th) (op : Op) (res : Res) (lin : Nat) (wit : Bool) :
    (finish g tid t op res lin wit).1.toP = g.toP := rfl
theorem finish_pc (g : G) (tid : Nat) (t : Th) (op : Op) (res : Res) (lin : Nat) (wit : Bool) :
    (finish g tid t op res lin wit).2.pc = .start := rfl

/-- a thread between operations satisfies its invariant trivially -/
theorem TInv_start (p : P) (tid : Nat) (t : Th) (h : t.pc = .start) : TInv p tid t := by
  constructor <;> simp [h, deadPc, holdsT, prePub, atTurnT, holdsH, preCons, atTurnH, pubSeen]

/-- changing only the pc (and `m`) keeps every clause whose guard does not newly become true -/
theorem TInv_repc (p : P) (tid : Nat) (t t' : Th) (h : TInv p tid t) (hk : t'.k = t.k) (hops : t'.ops = t.ops)
    (hd : deadPc t'.pc = false)
    (h1 : holdsT t'.pc = true → holdsT t.pc = true)
    (h2 : prePub t'.pc = true → prePub t.pc = true)
    (h3 : atTurnT t'.pc = true → atTurnT t.pc = true ∨ p.ltail (lane t.k) = base t.k)
    (h4 : t'.pc = .pMaskSt → t'.m = p.mask (lane t.k) (pageOf p.ipp t.k))
    (h5 : t'.pc = .pAdv true → ∃ v, p.slot t.k = .item v)
    (h6 : t'.pc = .pAdv false ∨ t'.pc = .bAbAdv → p.slot t.k = .invalid)
    (h7 : holdsH t'.pc = true → holdsH t.pc = true)
    (h8 : preCons t'.pc = true → preCons t.pc = true)
    (h9 : atTurnH t'.pc = true → atTurnH t.pc = true ∨ p.lhead (lane t.k) = base t.k)
    (h10 : pubSeen t'.pc = true → pubSeen t.pc = true ∨ base t.k < p.ltail (lane t.k))
    (h11 : t'.pc = .lMove → ∃ v, p.slot t.k = .item v)
    (h12 : t'.pc = .lInv → p.slot t.k = .invalid)
    (h13 : ∀ r, t'.pc = .lFin r → consumed p t.k ∧ ∀ v, r = some v → (t.k, v) ∈ p.popLog) : TInv p tid t' := by
  refine ⟨hd, ?_, ?_, ?_, ?_, ?_, ?_, ?_, ?_, ?_, ?_, ?_, ?_, ?_⟩
  · intro hh; rw [hk, hops]; exact h.ownT (h1 hh)
  · intro hh; rw [hk]; exact h.pend (h2 hh)
  · intro hh; rw [hk]; rcases h3 hh with a | a
    · exact h.turnT a
    · exact a
  · intro hh; rw [hk]; exact h4 hh
  · intro hh; rw [hk]; exact h5 hh
  · intro hh; rw [hk]; exact h6 hh
  · intro hh; rw [hk]; exact h.ownH (h7 hh)
  · intro hh; rw [hk]; exact h.fresh (h8 hh)
  · intro hh; rw [hk]; rcases h9 hh with a | a
    · exact h.turnH a
    · exact a
  · intro hh; rw [hk]; rcases h10 hh with a | a
    · exact h.seen a
    · exact a
  · intro hh; rw [hk]; exact h11 hh
  · intro hh; rw [hk]; exact h12 hh
  · intro r hh; rw [hk]; exact h13 r hh

/-- TInv only reads `pc`, `k`, `m`, `ops` -/
theorem TInv_congr (p : P) (tid : Nat) (t t' : Th) (h : TInv p tid t) (hpc : t'.pc = t.pc) (hk : t'.k = t.k) (hm : t'.m = t.m)
    (hops : t'.ops = t.ops) : TInv p tid t' := by
  obtain ⟨a0, a1, a2, a3, a4, a5, a6, a7, a8, a9, a10, a11, a12, a13⟩ := h
  refine ⟨?_, ?_, ?_, ?_, ?_, ?_, ?_, ?_, ?_, ?_, ?_, ?_, ?_, ?_⟩ <;> (try rw [hpc]) <;> (try rw [hk]) <;> (try rw [hm]) <;> (try rw [hops]) <;> assumption

macro "pcsimp" : tactic =>
  `(tactic| simp_all [deadPc, holdsT, prePub, atTurnT, holdsH, preCons, atTurnH, pubSeen])

macro "repc" hT:term : tactic =>
  `(tactic| (refine TInv_repc _ _ _ _ $hT ?_ ?_ ?_ ?_ ?_ ?_ ?_ ?_ ?_ ?_ ?_ ?_ ?_ ?_ ?_ ?_ <;> first | rfl | pcsimp))

/-- pcs at which a thread holds no ticket -/
def freePc : Pc → Bool
  | .start | .tHead | .tTail | .tCas | .bTicket | .yHead | .yCas | .qTicket | .aFlush => true
  | _ => false

theorem TInv_free (p : P) (tid : Nat) (t : Th) (h : freePc t.pc = true) : TInv p tid t := by
  cases hpc : t.pc <;> simp [hpc, freePc] at h <;>
    (constructor <;> simp [hpc, deadPc, holdsT, prePub, atTurnT, holdsH, preCons, atTurnH, pubSeen])

/-! ### the moving thread after each effect -/

theorem TInv_actor_takeTail (p : P) (r : PRec) (tid : Nat) (t' : Th) (hP : PInv p) (hk : t'.k = p.tail) (htid : r.tid = tid)
    (hv : opVal t'.ops = some r.v) (hpc : t'.pc = .pAlloc1 ∨ t'.pc = .pTurn ∨ t'.pc = .bGate) : TInv (p.takeTail r) tid t' := by
  obtain ⟨h1, h2⟩ := takeTail_new p r hP
  have h2' : (p.takeTail r).slot p.tail = .pending := h2
  rcases hpc with e | e | e <;>
    (constructor <;> simp [e, hk, deadPc, holdsT, prePub, atTurnT, holdsH, preCons, atTurnH, pubSeen, h1, h2', htid, hv])

theorem TInv_actor_takeHead (p : P) (tid : Nat) (t' : Th) (hP : PInv p) (hk : t'.k = p.head)
    (hpc : t'.pc = .lHead ∨ t'.pc = .qGate) : TInv (p.takeHead tid) tid t' := by
  obtain ⟨h1, h2, h3⟩ := takeHead_new p tid hP
  rcases hpc with e | e <;>
    (constructor <;> simp [e, hk, deadPc, holdsT, prePub, atTurnT, holdsH, preCons, atTurnH, pubSeen, h1, h2, h3])

theorem TInv_actor_invalidate (p : P) (k tid : Nat) (t' : Th) (hk : t'.k = k) (hpc : t'.pc = .pAdv false ∨ t'.pc = .bAbAdv)
    (hown : ∃ r, p.pushLog[k]? = some r ∧ r.tid = tid ∧ opVal t'.ops = some r.v) (hturn : p.ltail (lane k) = base k) :
    TInv (p.invalidate k) tid t' := by
  have h1 : (p.invalidate k).slot k = .invalid := by simp [P.invalidate, upd]
  have h2 : (p.invalidate k).ltail = p.ltail := rfl
  have h3 : (p.invalidate k).pushLog = p.pushLog := rfl
  rcases hpc with e | e <;>
    (constructor <;> simp [e, hk, deadPc, holdsT, prePub, atTurnT, holdsH, preCons, atTurnH, pubSeen, h1, h2, h3, hturn, hown])

theorem TInv_actor_maskStore (p : P) (k v m' tid : Nat) (t' : Th) (hk : t'.k = k) (hpc : t'.pc = .pAdv true)
    (hown : ∃ r, p.pushLog[k]? = some r ∧ r.tid = tid ∧ opVal t'.ops = some r.v) (hturn : p.ltail (lane k) = base k) :
    TInv (p.maskStore k v m') tid t' := by
  have h1 : (p.maskStore k v m').slot k = .item v := by simp [P.maskStore, upd]
  have h2 : (p.maskStore k v m').ltail = p.ltail := rfl
  have h3 : (p.maskStore k v m').pushLog = p.pushLog := rfl
  constructor <;> simp [hpc, hk, deadPc, holdsT, prePub, atTurnT, holdsH, preCons, atTurnH, pubSeen, h1, h2, h3, hturn, hown]

theorem TInv_actor_popMove (p : P) (hd v tid : Nat) (t' : Th) (hk : t'.k = hd) (hpc : t'.pc = .lFin (some v))
    (hown : hd < p.head ∧ p.popOwner hd = tid) (hturn : p.lhead (lane hd) = base hd) (hseen : base hd < p.ltail (lane hd)) :
    TInv (p.popMove hd v) tid t' := by
  have hc : consumed (p.popMove hd v) hd := (consumed_popMove p hd v hd).2 (Or.inr rfl)
  have hm : (hd, v) ∈ (p.popMove hd v).popLog := by simp [P.popMove]
  have h1 : (p.popMove hd v).head = p.head := rfl
  have h2 : (p.popMove hd v).popOwner = p.popOwner := rfl
  have h3 : (p.popMove hd v).lhead = p.lhead := rfl
  have h4 : (p.popMove hd v).ltail = p.ltail := rfl
  constructor <;> simp [hpc, hk, deadPc, holdsT, prePub, atTurnT, holdsH, preCons, atTurnH, pubSeen, h1, h2, h3, h4, hown, hturn, hseen, hc, hm]

theorem TInv_actor_skipInv (p : P) (hd tid : Nat) (t' : Th) (hk : t'.k = hd) (hpc : t'.pc = .lFin none)
    (hown : hd < p.head ∧ p.popOwner hd = tid) (hturn : p.lhead (lane hd) = base hd) (hseen : base hd < p.ltail (lane hd)) :
    TInv (p.skipInv hd) tid t' := by
  have hc : consumed (p.skipInv hd) hd := (consumed_skipInv p hd hd).2 (Or.inr rfl)
  have h1 : (p.skipInv hd).head = p.head := rfl
  have h2 : (p.skipInv hd).popOwner = p.popOwner := rfl
  have h3 : (p.skipInv hd).lhead = p.lhead := rfl
  have h4 : (p.skipInv hd).ltail = p.ltail := rfl
  constructor <;> simp [hpc, hk, deadPc, holdsT, prePub, atTurnT, holdsH, preCons, atTurnH, pubSeen, h1, h2, h3, h4, hown, hturn, hseen, hc]

/-- `micro_queue::push` -/
theorem lanePush_good (g : G) (tid : Nat) (t : Th) (op : Op) (v : Nat) (f : Fail) (hop : opVal t.ops = some v) :
    StepGood g.toP tid t (stepLanePush g tid t op v f).1.toP (stepLanePush g tid t op v f).2.1 := by
  cases hpc : t.pc <;> simp only [stepLanePush, hpc] <;> try exact sg_noop _ _ _
  case pAlloc1 => intro hok; simp [ok, poisonInv, invalidate] at hok
  case pAlloc2 => intro hok; simp [ok, finish, poisonStore] at hok
  case pBadLast =>
    intro hok; refine ⟨hok, fun _ hT => ?_⟩
    have := hT.alive; rw [hpc] at this; simp [deadPc] at this
  case pTurn =>
    apply sg_local
    intro hP hT
    have hev := even_of_mod_nq _ (hP.lmod (lane t.k)).1
    by_cases hc : g.ltail (lane t.k) = base t.k
    · simp only [hc, if_true]
      repc hT
    · have : ¬ (g.ltail (lane t.k) % 2 = 1) := by omega
      simp only [hc, this, if_false]
      exact TInv_congr _ _ t _ hT (by simp [hpc]) rfl rfl rfl
  case pCons =>
    by_cases hf : f = .ctor
    · simp only [hf, if_true]
      intro hok
      refine ⟨hok, fun hP hT _ => ?_⟩
      have hpend : g.slot t.k = .pending := hT.pend (by rw [hpc]; rfl)
      have hown := hT.ownT (by rw [hpc]; rfl)
      have hturn := hT.turnT (by rw [hpc]; rfl)
      obtain ⟨r, hr, _, _⟩ := hown
      have hlt : t.k < g.toP.tail := lt_of_getElem?_some hr
      rw [invalidate_toP]
      refine ⟨PInv_invalidate _ _ hP hpend hlt, ?_, ?_⟩
      · exact TInv_actor_invalidate _ _ _ _ rfl (Or.inl rfl) (hT.ownT (by rw [hpc]; rfl)) hturn
      · intro j u hj hU
        exact TInv_invalidate _ _ _ _ hU hpend (fun hu => tail_ticket_ne hT hU hj (by rw [hpc]; rfl) hu)
    · simp only [hf, if_false]
      apply sg_local
      intro hP hT
      repc hT
  case pMaskSt =>
    intro hok
    refine ⟨hok, fun hP hT _ => ?_⟩
    have hpend : g.slot t.k = .pending := hT.pend (by rw [hpc]; rfl)
    have hown := hT.ownT (by rw [hpc]; rfl)
    have hturn := hT.turnT (by rw [hpc]; rfl)
    have hm := hT.mval hpc
    obtain ⟨r, hr, hr2, hr3⟩ := hown
    have hlt : t.k < g.toP.tail := lt_of_getElem?_some hr
    have hv : r.v = v := by rw [hop] at hr3; cases hr3; rfl
    rw [maskStore_toP, hm]
    refine ⟨PInv_maskStore _ _ _ hP hpend hlt ⟨r, hr, hv⟩, ?_, ?_⟩
    · exact TInv_actor_maskStore _ _ _ _ _ _ rfl rfl (hT.ownT (by rw [hpc]; rfl)) hturn
    · intro j u hj hU
      exact TInv_maskStore _ _ _ _ _ _ hU hpend hturn (fun hu => tail_ticket_ne hT hU hj (by rw [hpc]; rfl) hu)
  case pAdv okb =>
    intro hok
    refine ⟨hok, fun hP hT _ => ?_⟩
    have hturn := hT.turnT (by rw [hpc]; rfl)
    have hs : g.slot t.k ≠ .pending := by
      cases okb with
      | true => obtain ⟨w, hw⟩ := hT.advOk hpc; rw [hw]; simp
      | false => rw [hT.advBad (Or.inl hpc)]; simp
    rw [finish_toP, advTail_toP]
    refine ⟨PInv_advTail _ _ hP hturn hs, TInv_start _ _ _ (finish_pc ..), ?_⟩
    intro j u hj hU
    exact TInv_advTail _ _ _ _ hU hturn (fun hu => tail_ticket_ne hT hU hj (by rw [hpc]; rfl) hu)

/-- `micro_queue::pop` -/
theorem lanePop_good (g : G) (tid : Nat) (t : Th) (op : Op) (retry : Pc) (hretry : freePc retry = true) :
    StepGood g.toP tid t (stepLanePop g tid t op retry).1.toP (stepLanePop g tid t op retry).2.1 := by
  cases hpc : t.pc <;> simp only [stepLanePop, hpc] <;> try exact sg_noop _ _ _
  case lHead =>
    apply sg_local
    intro hP hT
    by_cases hc : g.lhead (lane t.k) = base t.k
    · simp only [hc, if_true]; repc hT
    · simp only [hc, if_false]
      exact TInv_congr _ _ t _ hT (by simp [hpc]) rfl rfl rfl
  case lTail =>
    apply sg_local
    intro hP hT
    by_cases hc : g.ltail (lane t.k) = base t.k
    · simp only [hc, ne_eq, not_true_eq_false, if_false]
      exact TInv_congr _ _ t _ hT (by simp [hpc]) rfl rfl rfl
    · simp only [ne_eq, hc, not_false_eq_true, if_true]
      have h1 := hT.turnH (by rw [hpc]; rfl)
      have h2 := hP.lle (lane t.k)
      have h3 : base t.k < g.ltail (lane t.k) := by
        have : g.toP.lhead (lane t.k) ≤ g.toP.ltail (lane t.k) := h2
        have e : g.toP.lhead (lane t.k) = base t.k := h1
        have hc' : g.toP.ltail (lane t.k) ≠ base t.k := hc
        omega
      repc hT
  case lMask =>
    have e : (if g.slot t.k = Slot.pending ∨ g.noPage t.k = true then { g with crashed := true } else g).toP = g.toP := by split <;> rfl
    rw [e]
    apply sg_local
    intro hP hT
    have hseen := hT.seen (by rw [hpc]; rfl)
    have hnp := hP.pub t.k hseen
    have hbit := hP.maskBit t.k
    by_cases hb : (g.mask (lane t.k) (pageOf g.ipp t.k)).testBit (idx g.ipp t.k) = true
    · simp only [hb, if_true]
      have := hbit.1 hb
      repc hT
    · simp only [hb]
      have hni : ¬ ∃ v, g.slot t.k = .item v := fun h => hb (hbit.2 h)
      have hinv : g.slot t.k = .invalid := by
        cases hs : g.slot t.k with
        | pending => exact absurd hs hnp
        | item w => exact absurd ⟨w, hs⟩ hni
        | invalid => rfl
      repc hT
  case lMove =>
    intro hok
    refine ⟨hok, fun hP hT _ => ?_⟩
    obtain ⟨w, hw⟩ := hT.mvItem hpc
    have hw' : g.slot t.k = .item w := hw
    have hown := hT.ownH (by rw [hpc]; rfl)
    have hfresh := hT.fresh (by rw [hpc]; rfl)
    have hturn := hT.turnH (by rw [hpc]; rfl)
    have hseen := hT.seen (by rw [hpc]; rfl)
    simp only [hw']
    rw [popMove_toP]
    refine ⟨PInv_popMove _ _ _ hP hw hfresh hown.1, TInv_actor_popMove _ _ _ _ _ rfl rfl hown hturn hseen, ?_⟩
    intro j u hj hU
    exact TInv_popMove _ _ _ _ _ hU (fun hu => head_ticket_ne hT hU hj (by rw [hpc]; rfl) hu)
  case lInv =>
    intro hok
    have hok' : ok g.toP := by simpa [ok, skipInv] using hok
    refine ⟨hok', fun hP hT _ => ?_⟩
    have hs := hT.invSlot hpc
    have hown := hT.ownH (by rw [hpc]; rfl)
    have hfresh := hT.fresh (by rw [hpc]; rfl)
    have hturn := hT.turnH (by rw [hpc]; rfl)
    have hseen := hT.seen (by rw [hpc]; rfl)
    rw [skipInv_toP]
    refine ⟨PInv_skipInv _ _ hP hs hfresh hown.1, TInv_actor_skipInv _ _ _ _ rfl rfl hown hturn hseen, ?_⟩
    intro j u hj hU
    exact TInv_skipInv _ _ _ _ hU (fun hu => head_ticket_ne hT hU hj (by rw [hpc]; rfl) hu)
  case lFin r =>
    have key : ∀ t' : Th, freePc t'.pc = true → StepGood g.toP tid t (advHead g t.k).toP t' := by
      intro t' ht' hok
      refine ⟨hok, fun hP hT _ => ?_⟩
      have hturn := hT.turnH (by rw [hpc]; rfl)
      have hseen := hT.seen (by rw [hpc]; rfl)
      have hc := (hT.fin r hpc).1
      rw [advHead_toP]
      refine ⟨PInv_advHead _ _ hP hturn hseen hc, TInv_free _ _ _ ht', ?_⟩
      intro j u hj hU
      exact TInv_advHead _ _ _ _ hU hturn (fun hu => head_ticket_ne hT hU hj (by rw [hpc]; rfl) hu)
    cases r with
    | some v => exact key _ (by rw [finish_pc]; rfl)
    | none => exact key _ hretry

/-- taking a tail ticket (fetch_add / successful CAS on `tail_counter`) -/
theorem takeTail_good (g : G) (tid v : Nat) (t t' : Th) (g' : G) (hg : g'.toP = g.toP.takeTail ⟨v, tid, g.now⟩)
    (hk : t'.k = g.toP.tail) (hops : opVal t'.ops = some v) (hpc : t'.pc = .pAlloc1 ∨ t'.pc = .pTurn ∨ t'.pc = .bGate) :
    StepGood g.toP tid t g'.toP t' := by
  rw [hg]
  intro hok
  refine ⟨hok, fun hP _ _ => ⟨PInv_takeTail _ _ hP, TInv_actor_takeTail _ _ _ _ hP hk rfl hops hpc, ?_⟩⟩
  intro j u _ hU
  exact TInv_takeTail _ _ _ _ hU

theorem pushEntry_cases (g : G) (t : Th) (f : Fail) : pushEntry g t f = .pAlloc1 ∨ pushEntry g t f = .pTurn := by
  unfold pushEntry; split <;> simp

theorem takeHead_good (g : G) (tid : Nat) (t t' : Th) (hk : t'.k = g.head) (hpc : t'.pc = .lHead ∨ t'.pc = .qGate) :
    StepGood g.toP tid t (takeHead g tid).toP t' := by
  rw [takeHead_toP]
  intro hok
  refine ⟨hok, fun hP _ _ => ⟨PInv_takeHead _ _ hP, TInv_actor_takeHead _ _ _ hP hk hpc, ?_⟩⟩
  intro j u _ hU
  exact TInv_takeHead _ _ _ _ hU

theorem tryPop_good (g : G) (tid : Nat) (t : Th) :
    StepGood g.toP tid t (stepTryPop g tid t).1.toP (stepTryPop g tid t).2.1 := by
  cases hpc : t.pc <;> simp only [stepTryPop, hpc] <;> try exact lanePop_good g tid t .tryPop .tHead rfl
  case start => exact sg_local _ _ _ _ (fun _ _ => TInv_free _ _ _ rfl)
  case tHead => exact sg_local _ _ _ _ (fun _ _ => TInv_free _ _ _ rfl)
  case tTail =>
    split
    · exact sg_local _ _ _ _ (fun _ _ => TInv_free _ _ _ rfl)
    · exact sg_local _ _ _ _ (fun _ _ => TInv_free _ _ _ rfl)
  case tCas =>
    split
    · rename_i h; exact takeHead_good g tid t _ h.symm (Or.inl rfl)
    · exact sg_local _ _ _ _ (fun _ _ => TInv_free _ _ _ rfl)

theorem push_good (g : G) (tid : Nat) (t : Th) (v : Nat) (f : Fail) (hop : opVal t.ops = some v) :
    StepGood g.toP tid t (stepPush g tid t v f).1.toP (stepPush g tid t v f).2.1 := by
  cases hpc : t.pc <;> simp only [stepPush, hpc] <;> try exact lanePush_good g tid t _ v f hop
  case start =>
    refine takeTail_good g tid v t _ _ rfl rfl hop ?_
    rcases pushEntry_cases g { t with k := g.tail, inv := g.now } f with e | e
    · exact Or.inl e
    · exact Or.inr (Or.inl e)

theorem abortPush_good (g : G) (tid : Nat) (t : Th) (op : Op) :
    StepGood g.toP tid t (stepAbortPush g tid t op).1.toP (stepAbortPush g tid t op).2.1 := by
  cases hpc : t.pc <;> simp only [stepAbortPush, hpc] <;> try exact sg_noop _ _ _
  case bAbTurn =>
    apply sg_local
    intro hP hT
    have hev := even_of_mod_nq _ (hP.lmod (lane t.k)).1
    by_cases hc : g.ltail (lane t.k) = base t.k
    · simp only [hc, if_true]
      repc hT
    · have : ¬ (g.ltail (lane t.k) % 2 = 1) := by omega
      simp only [hc, this, if_false]
      exact TInv_congr _ _ t _ hT (by simp [hpc]) rfl rfl rfl
  case bAbInv =>
    intro hok
    refine ⟨hok, fun hP hT _ => ?_⟩
    have hpend : g.slot t.k = .pending := hT.pend (by rw [hpc]; rfl)
    have hturn := hT.turnT (by rw [hpc]; rfl)
    obtain ⟨r, hr, _, _⟩ := hT.ownT (by rw [hpc]; rfl)
    have hlt : t.k < g.toP.tail := lt_of_getElem?_some hr
    rw [invalidate_toP]
    refine ⟨PInv_invalidate _ _ hP hpend hlt, ?_, ?_⟩
    · exact TInv_actor_invalidate _ _ _ _ rfl (Or.inr rfl) (hT.ownT (by rw [hpc]; rfl)) hturn
    · intro j u hj hU
      exact TInv_invalidate _ _ _ _ hU hpend (fun hu => tail_ticket_ne hT hU hj (by rw [hpc]; rfl) hu)
  case bAbAdv =>
    intro hok
    refine ⟨hok, fun hP hT _ => ?_⟩
    have hturn := hT.turnT (by rw [hpc]; rfl)
    have hs : g.slot t.k ≠ .pending := by rw [hT.advBad (Or.inr hpc)]; simp
    rw [finish_toP, advTail_toP]
    refine ⟨PInv_advTail _ _ hP hturn hs, TInv_start _ _ _ (finish_pc ..), ?_⟩
    intro j u hj hU
    exact TInv_advTail _ _ _ _ hU hturn (fun hu => tail_ticket_ne hT hU hj (by rw [hpc]; rfl) hu)

theorem bpush_good (g : G) (tid c : Nat) (t : Th) (v : Nat) (f : Fail) (hop : opVal t.ops = some v) :
    StepGood g.toP tid t (stepBPush g tid c t v f).1.toP (stepBPush g tid c t v f).2.1 := by
  cases hpc : t.pc <;> simp only [stepBPush, hpc] <;> (try exact lanePush_good g tid t _ v f hop) <;>
    (try exact abortPush_good g tid t _)
  case start => exact sg_local _ _ _ _ (fun _ _ => TInv_free _ _ _ rfl)
  case bTicket => exact takeTail_good g tid v t _ _ rfl rfl hop (Or.inr (Or.inr rfl))
  case bGate =>
    apply sg_local; intro hP hT
    split
    · repc hT
    · rcases pushEntry_cases g t f with e | e <;> (rw [e]; repc hT)
  case bPredA =>
    apply sg_local; intro hP hT
    split <;> repc hT
  case bPredH =>
    apply sg_local; intro hP hT
    split
    · repc hT
    · rcases pushEntry_cases g t f with e | e <;> (rw [e]; repc hT)
  case bBlocked =>
    split
    · apply sg_local; intro hP hT; repc hT
    · split
      · apply sg_local; intro hP hT; repc hT
      · split
        · apply sg_local; intro hP hT
          rcases pushEntry_cases g t f with e | e <;> (rw [e]; repc hT)
        · exact sg_noop _ _ _

theorem btryPush_good (g : G) (tid : Nat) (t : Th) (v : Nat) (f : Fail) (hop : opVal t.ops = some v) :
    StepGood g.toP tid t (stepBTryPush g tid t v f).1.toP (stepBTryPush g tid t v f).2.1 := by
  cases hpc : t.pc <;> simp only [stepBTryPush, hpc] <;> try exact lanePush_good g tid t _ v f hop
  case start => exact sg_local _ _ _ _ (fun _ _ => TInv_free _ _ _ rfl)
  case yHead =>
    split
    · exact sg_local _ _ _ _ (fun _ _ => TInv_free _ _ _ rfl)
    · exact sg_local _ _ _ _ (fun _ _ => TInv_free _ _ _ rfl)
  case yCas =>
    split
    · rename_i h
      refine takeTail_good g tid v t _ _ rfl h.symm hop ?_
      rcases pushEntry_cases g t f with e | e
      · exact Or.inl e
      · exact Or.inr (Or.inl e)
    · exact sg_local _ _ _ _ (fun _ _ => TInv_free _ _ _ rfl)

theorem bpop_good (g : G) (tid c : Nat) (t : Th) :
    StepGood g.toP tid t (stepBPop g tid c t).1.toP (stepBPop g tid c t).2.1 := by
  cases hpc : t.pc <;> simp only [stepBPop, hpc] <;> try exact lanePop_good g tid t .bpop .qTicket rfl
  case start => exact sg_local _ _ _ _ (fun _ _ => TInv_free _ _ _ rfl)
  case qTicket => exact takeHead_good g tid t _ rfl (Or.inr rfl)
  case qGate => apply sg_local; intro hP hT; split <;> repc hT
  case qPredA => apply sg_local; intro hP hT; split <;> repc hT
  case qPredT => apply sg_local; intro hP hT; split <;> repc hT
  case qBlocked =>
    split
    · apply sg_local; intro hP hT; repc hT
    · split
      · apply sg_local; intro hP hT; repc hT
      · split
        · apply sg_local; intro hP hT; repc hT
        · exact sg_noop _ _ _
  case qUndo =>
    rw [finish_toP, undoHead_toP]
    intro hok
    obtain ⟨hok', hlast⟩ := ok_undoHead _ _ hok
    refine ⟨hok', fun hP hT _ => ?_⟩
    have hfresh := hT.fresh (by rw [hpc]; rfl)
    refine ⟨PInv_undoHead _ _ hP hlast hfresh, TInv_start _ _ _ (finish_pc ..), ?_⟩
    intro j u hj hU
    exact TInv_undoHead _ _ _ _ hU hlast (fun hu => head_ticket_ne hT hU hj (by rw [hpc]; rfl) hu)

theorem stepTh_good (g : G) (tid c : Nat) (t : Th) :
    StepGood g.toP tid t (stepTh g tid c t).1.toP (stepTh g tid c t).2.1 := by
  unfold stepTh
  cases hops : t.ops with
  | nil => exact sg_noop _ _ _
  | cons op rest =>
    cases op with
    | push v f => exact push_good g tid t v f (by rw [hops]; rfl)
    | tryPop => exact tryPop_good g tid t
    | bpush v f => exact bpush_good g tid c t v f (by rw [hops]; rfl)
    | btryPush v f => exact btryPush_good g tid t v f (by rw [hops]; rfl)
    | bpop => exact bpop_good g tid c t
    | abort =>
      simp only; split
      · exact sg_local _ _ _ _ (fun _ _ => TInv_free _ _ _ rfl)
      · split
        · rename_i hfl
          split
          · exact sg_local _ _ _ _ (fun _ h => h)
          · split
            · exact sg_local _ _ _ _ (fun _ h => h)
            · exact sg_local _ _ _ _ (fun _ _ => TInv_start _ _ _ rfl)
        · exact sg_noop _ _ _
    | setCap c =>
      simp only; split
      · exact sg_local _ _ _ _ (fun _ _ => TInv_start _ _ _ rfl)
      · exact sg_noop _ _ _

/-- the invariant is inductive -/
theorem step_inv (s : St) (a : Act) (h : Inv s) : Inv (step s a) := by
  unfold step stepEv
  cases hth : s.ths[a.tid]? with
  | none => exact h
  | some t =>
    simp only
    have hg := stepTh_good { s.g with now := s.g.now + 1 } a.tid a.c t
    intro hok
    obtain ⟨hok0, hstep⟩ := hg hok
    obtain ⟨hP, hTs⟩ := h hok0
    obtain ⟨hP', hT', hOthers⟩ := hstep hP (hTs _ _ hth) (fun _ _ _ _ => trivial)
    refine ⟨hP', ?_⟩
    intro j u hju
    by_cases e : j = a.tid
    · subst e
      rw [List.getElem?_set_self (lt_of_getElem?_some hth)] at hju
      cases hju; exact hT'
    · rw [List.getElem?_set_ne (fun e' => e e'.symm)] at hju
      exact hOthers j u e (hTs j u hju)

theorem inv_init (ipp : Nat) (cap : Int) (progs : List (List Op)) (hipp : 0 < ipp) : Inv (initSt ipp cap progs) := by
  intro _
  refine ⟨?_, ?_⟩
  · refine ⟨hipp, ?_, ?_, ?_, ?_, ?_, ?_, ?_, ?_, ?_, ?_, ?_, ?_, ?_, ?_, ?_, ?_, ?_⟩ <;> simp [initSt, consumed, P.tail]
  · intro j t hj
    simp only [initSt, List.getElem?_map] at hj
    cases hp : progs[j]? with
    | none => simp [hp] at hj
    | some pr => simp [hp] at hj; subst hj; exact TInv_start _ _ _ rfl

theorem inv_run (ipp : Nat) (cap : Int) (progs : List (List Op)) (hipp : 0 < ipp) (sched : List Act) :
    Inv (run ipp cap progs sched) := by
  unfold run runFrom
  suffices ∀ s, Inv s → Inv (sched.foldl step s) from this _ (inv_init ipp cap progs hipp)
  induction sched with
  | nil => intro s h; exact h
  | cons a as ih => intro s h; exact ih _ (step_inv s a h)

end TbbVerif.C09
