/-
C09 — page life cycle: the remaining steps of `prepare_page` / `push` (tail store, unlock, construction, mask, publication).
-/
import TbbVerif.Proofs.C09.PgPush

namespace TbbVerif.C09.Pg

section
variable {l : Lane} {a n i v : Nat} {f : Fail} {t : LTh}

/-- `tail_page = p`: the page is linked -/
theorem p_settail (hg : LInv l) (hl : PushLoc l a t n i v f) (hpc : t.pc = .pSetTail) :
    PStep l a n i { l with tp := t.p, L := l.L + 1, ph := .idle } ∧
    PushLoc { l with tp := t.p, L := l.L + 1, ph := .idle } a { t with pc := .pUnlock } n i v f := by
  have hi := hl.i0 (by rw [hpc]; rfl)
  have hs := hl.sec (by rw [hpc]; rfl)
  have hpd := hl.pend (by rw [hpc]; rfl) hi
  have hph := hl.phL hpc
  have hm := hl.mx (by rw [hpc]; rfl)
  have hLr := hg.Lrel.2 (by omega)
  have hL : l.L = n := by omega
  have hUL := hg.UleL
  refine ⟨⟨?_, fun _ h _ => h, ?_, ?_⟩, ?_⟩
  · refine { hg with Lrel := ?_, hpC := ?_, tpC := ?_, chain := ?_, mxPh := ?_ }
    · exact ⟨fun h => by om, fun _ => Or.inr (by om)⟩
    · refine ⟨fun _ => ?_, fun h => by om⟩
      rcases Nat.lt_or_ge l.U l.L with h | h
      · exact hg.hpC.1 h
      · have e : l.U = l.L := by omega
        have := hg.hpC.2 e; rw [hph] at this; simp at this; rw [this, e]
    · refine ⟨fun _ => ?_, fun h => by simp at h⟩
      have : l.U < l.L + 1 := by omega
      simp [hpd.1, hL]; omega
    · intro m hm1 hm2
      dsimp only at hm1 hm2 ⊢
      rcases Nat.lt_or_ge m l.L with h | h
      · have hc := hg.chain m hm1 h
        refine ⟨hc.1, ?_⟩
        rw [hc.2, hph]
        by_cases h2 : m + 1 < l.L
        · have : m + 1 < l.L + 1 := by omega
          simp [h2, this]
        · have : m + 1 < l.L + 1 := by omega
          have e : m + 1 = l.L := by omega
          simp [h2, this, e]
      · have e : m = n := by omega
        subst e
        have : ¬ (m + 1 < l.L + 1) := by omega
        simp [this, hpd.2.1, hpd.2.2.1]
    · intro h; rw [hm] at h; first | done | cases h
  · intro b tb n' i' v' f' hba hne hb
    have hnm := PushLoc.no_mx hm hba hb
    have hns := PushLoc.no_sec hs hne hb
    refine { hb with pend := ?_, phI := ?_, phL := ?_, qv := ?_, lk := ?_ }
    · intro h1 h2
      have h := hb.pend h1 h2
      refine ⟨h.1, h.2.1, h.2.2.1, h.2.2.2.1, ?_⟩
      have : n' ≠ n := by intro e; exact hne ⟨e, by omega⟩
      om
    · intro _; rfl
    · intro h; have : mxP tb.pc = true := by rw [h]; rfl
      rw [this] at hnm; cases hnm
    · intro h; have : mxP tb.pc = true := by rw [h]; rfl
      rw [this] at hnm; cases hnm
    · intro h; rw [linkedP_sec h] at hns; cases hns
  · intro b tb n' i' hba hb
    have hnm := PopLoc.no_mx hm hba hb
    refine { hb with phI := ?_, phU := ?_ }
    · intro _; rfl
    · intro h; have : mxC tb.pc = true := by rw [h]; rfl
      rw [this] at hnm; cases hnm
  · selfc
    case pcs => simp [isPushPc]
    case ilt => exact hl.ilt
    case sec => intro _; exact hs
    case i0 => intro _; exact hi
    case mx => intro _; exact hm
    case phI => intro _; rfl
    case lk => intro _; exact ⟨hpd.1, by om⟩
    case raw => intro _; exact hl.raw (by rw [hpc]; rfl)

/-- releasing `page_mutex` (push and pop finalizer alike) -/
theorem unlock_step (hg : LInv l) (hm : l.mutex = some a) (hph : l.ph = .idle) (n i : Nat) : PStep l a n i { l with mutex := none } := by
  refine ⟨{ hg with mxPh := fun _ => hph }, fun _ h _ => h, ?_, ?_⟩
  · intro b tb n' i' v' f' hba _ hb
    have hnm := PushLoc.no_mx hm hba hb
    exact { hb with mx := fun h => (by rw [h] at hnm; cases hnm) }
  · intro b tb n' i' hba hb
    have hnm := PopLoc.no_mx hm hba hb
    exact { hb with mx := fun h => (by rw [h] at hnm; cases hnm) }

theorem p_unlock_self (hl : PushLoc l a t n i v f) (hpc : t.pc = .pUnlock) :
    PushLoc { l with mutex := none } a { t with pc := .pCons } n i v f := by
  selfc
  case pcs => simp [isPushPc]
  case ilt => exact hl.ilt
  case sec => intro _; exact hl.sec (by rw [hpc]; rfl)
  case lk => intro _; exact hl.lk (by rw [hpc]; rfl)
  case raw => intro _; exact hl.raw (by rw [hpc]; rfl)

/-- `p = tail_page.load()` for a push that does not allocate: the tail page is the page of its round -/
theorem p_ldtail2_self (hg : LInv l) (hl : PushLoc l a t n i v f) (hpc : t.pc = .pLdTail2) :
    PushLoc l a { t with pc := .pCons, p := l.tp } n i v f := by
  have hs := hl.sec (by rw [hpc]; rfl)
  have hi := hl.i1 hpc
  have hL := hg.Lrel.1 (by omega)
  have hU := hg.Urel; have h1 := hg.ht; have h3 := hg.tI; have h4 := hg.hI
  simp only [rle, rlt] at hU h1
  have hUL : l.U < l.L := by omega
  have hph : l.ph ≠ .unlinkHalf := fun e => by have := hg.tpC.2 e; omega
  have htp := hg.tpC.1 hph
  simp only [hUL, if_true] at htp
  have e : l.L - 1 = n := by omega
  selfc
  case pcs => simp [isPushPc]
  case ilt => exact hl.ilt
  case sec => intro _; exact hs
  case lk => intro _; exact ⟨by simp [htp, e], by omega⟩
  case raw => intro _; exact hl.raw (by rw [hpc]; rfl)

/-- facts for the steps that touch the slot's page through `p` -/
theorem p_page_facts (hg : LInv l) (hl : PushLoc l a t n i v f) (hk : linkedP t.pc = true) :
    l.tP = n ∧ l.tI = i ∧ t.p = .pg n ∧ l.L = n + 1 ∧ (l.pages n).st = .live ∧ l.acc t.p = .ok n := by
  have hs := hl.sec (linkedP_sec hk)
  have hlk := hl.lk hk
  have hlive := PushLoc.live hg hl (linkedP_sec hk)
  exact ⟨hs.1, hs.2, hlk.1, hlk.2, hlive, by rw [hlk.1]; exact acc_pg_live l n hlive⟩

/-- the element is constructed (`x` = `cons v`) or its constructor throws (`x` = `failed`) -/
theorem p_cons (hg : LInv l) (hl : PushLoc l a t n i v f) (hpc : t.pc = .pCons) (x : SlotSt) (hx : x = .cons v ∨ x = .failed) :
    PStep l a n i (setSlot l n i x) := by
  obtain ⟨h1, h2, hp, hL, hlive, _⟩ := p_page_facts hg hl (by rw [hpc]; rfl)
  have hraw := hl.raw (by rw [hpc]; rfl)
  have hne : ∀ n' k, l.slot n' k ≠ .uninit → ¬(n' = n ∧ k = i) := fun n' k h e => h (e.1 ▸ e.2 ▸ hraw.1)
  refine ⟨?_, ?_, ?_, ?_⟩
  · refine { hg with consR := ?_, maskR := ?_, deliv := ?_ }
    · intro n' k v' hc
      dsimp only [setSlot] at hc ⊢
      by_cases e : n' = n ∧ k = i
      · obtain ⟨e1, e2⟩ := e; subst e1; subst e2
        have hh := hg.ht
        refine ⟨by rw [← h1, ← h2]; exact hh, by simp only [rle]; omega, fun hmv => ?_, hl.ilt⟩
        have := hg.mvR hmv
        simp only [rlt] at this; omega
      · rw [updF2_ne _ _ _ _ _ _ e] at hc; exact hg.consR n' k v' hc
    · intro n' k hk hm1 hm2 hm3
      dsimp only [setSlot] at hk hm1 hm2 hm3 ⊢
      have e : ¬(n' = n ∧ k = i) := by simp only [rlt] at hm2; omega
      rw [updF2_ne _ _ _ _ _ _ e]; exact hg.maskR n' k hk hm1 hm2 hm3
    · intro e he
      dsimp only [setSlot] at he ⊢
      have hd := hg.deliv e he
      have : ¬(e.1 = n ∧ e.2.1 = i) := hne _ _ (by rw [hd]; simp)
      rw [updF2_ne _ _ _ _ _ _ this]; exact hd
  · intro o ho hr
    cases o with
    | push n' i' v' f' =>
      obtain ⟨g1, g2, g3, g4, g5⟩ := ho
      have e : ¬(n' = n ∧ i' = i) := by intro ⟨e1, e2⟩; subst e1; subst e2; simp [pushRound] at hr
      exact ⟨g1, g2, g3, by dsimp only [setSlot]; rw [updF2_ne _ _ _ _ _ _ e]; exact g4, g5⟩
    | pop n' i' => exact ho
  · intro b tb n' i' v' f' _ hne' hb
    have key : (setSlot l n i x).slot n' i' = l.slot n' i' := by dsimp only [setSlot]; rw [updF2_ne _ _ _ _ _ _ hne']
    refine { hb with pre := ?_, raw := ?_, built := ?_, advT := ?_, advF := ?_ }
    · intro h; have := hb.pre h; rw [key]; exact this
    · intro h; have := hb.raw h; rw [key]; exact this
    · intro h; have := hb.built h; rw [key]; exact this
    · intro h; have := hb.advT h; rw [key]; exact this
    · intro h; have := hb.advF h; rw [key]; exact this
  · intro b tb n' i' _ hb
    refine { hb with cons := ?_ }
    intro h
    obtain ⟨v', hv'⟩ := hb.cons h
    have e : ¬(n' = n ∧ i' = i) := hne _ _ (by rw [hv']; simp)
    exact ⟨v', by dsimp only [setSlot]; rw [updF2_ne _ _ _ _ _ _ e]; exact hv'⟩

theorem p_cons_self_ok (hg : LInv l) (hl : PushLoc l a t n i v f) (hpc : t.pc = .pCons) :
    PushLoc (setSlot l n i (.cons v)) a { t with pc := .pMaskLd } n i v f := by
  selfc
  case pcs => simp [isPushPc]
  case ilt => exact hl.ilt
  case sec => intro _; exact hl.sec (by rw [hpc]; rfl)
  case lk => intro _; exact hl.lk (by rw [hpc]; rfl)
  case built => intro _; exact ⟨by simp [setSlot, updF2_same], (hl.raw (by rw [hpc]; rfl)).2⟩

theorem p_cons_self_fail (hg : LInv l) (hl : PushLoc l a t n i v f) (hpc : t.pc = .pCons) :
    PushLoc (setSlot l n i .failed) a { t with pc := .pAdv false } n i v f := by
  selfc
  case pcs => simp [isPushPc]
  case ilt => exact hl.ilt
  case sec => intro _; exact hl.sec (by rw [hpc]; rfl)
  case lk => intro _; exact hl.lk (by rw [hpc]; rfl)
  case advF => intro _; exact ⟨by simp [setSlot, updF2_same], (hl.raw (by rw [hpc]; rfl)).2⟩

theorem p_maskld_self (hl : PushLoc l a t n i v f) (hpc : t.pc = .pMaskLd) :
    PushLoc l a { t with pc := .pMaskSt, m := (l.pages n).mask } n i v f := by
  selfc
  case pcs => simp [isPushPc]
  case ilt => exact hl.ilt
  case sec => intro _; exact hl.sec (by rw [hpc]; rfl)
  case lk => intro _; exact hl.lk (by rw [hpc]; rfl)
  case built => intro _; exact hl.built (by rw [hpc]; rfl)
  case msk => intro _; rfl

/-- `p->mask.store(mask | 1 << index)` -/
theorem p_maskst (hg : LInv l) (hl : PushLoc l a t n i v f) (hpc : t.pc = .pMaskSt) :
    PStep l a n i (setMask l n (updF t.m i true)) ∧
    PushLoc (setMask l n (updF t.m i true)) a { t with pc := .pAdv true } n i v f := by
  obtain ⟨h1, h2, hp, hL, hlive, _⟩ := p_page_facts hg hl (by rw [hpc]; rfl)
  have hm := hl.msk hpc
  have hb' := hl.built (by rw [hpc]; rfl)
  have hs : l.tP = n ∧ l.tI = i := ⟨h1, h2⟩
  have key : ∀ n' k, ((setMask l n (updF t.m i true)).pages n').mask k = if n' = n ∧ k = i then true else (l.pages n').mask k := by
    intro n' k; rw [hm]; exact mask_setBit l.pages n i n' k
  have keyne : ∀ n' k, ¬(n' = n ∧ k = i) → ((setMask l n (updF t.m i true)).pages n').mask k = (l.pages n').mask k := by
    intro n' k h; rw [key, if_neg h]
  have kst : ∀ n', ((setMask l n (updF t.m i true)).pages n').st = (l.pages n').st := fun n' => st_updMask _ _ _ _
  have knx : ∀ n', ((setMask l n (updF t.m i true)).pages n').next = (l.pages n').next := fun n' => next_updMask _ _ _ _
  refine ⟨⟨?_, ?_, ?_, ?_⟩, ?_⟩
  · refine { hg with chain := ?_, freed := ?_, maskR := ?_ }
    · intro m hm1 hm2; rw [kst, knx]; exact hg.chain m hm1 hm2
    · intro m hm'; rw [kst] at hm'; exact hg.freed m hm'
    · intro n' k hk hm1 hm2 hm3
      have e : ¬(n' = n ∧ k = i) := by
        have : rlt n' k l.tP l.tI := hm2
        simp only [rlt] at this; omega
      rw [keyne n' k e]; exact hg.maskR n' k hk hm1 hm2 hm3
  · intro o ho hr
    cases o with
    | push n' i' v' f' =>
      obtain ⟨g1, g2, g3, g4, g5⟩ := ho
      have e : ¬(n' = n ∧ i' = i) := by intro ⟨e1, e2⟩; subst e1; subst e2; simp [pushRound] at hr
      exact ⟨g1, g2, fun h => by rw [kst]; exact g3 h, g4, by rw [keyne n' i' e]; exact g5⟩
    | pop n' i' => exact ho
  · intro b tb n' i' v' f' _ hne hb
    have hns := PushLoc.no_sec hs hne hb
    refine { hb with pre := ?_, pend := ?_, raw := ?_, built := ?_, msk := ?_, advT := ?_, advF := ?_ }
    · intro h; obtain ⟨g1, g2, g3, g4⟩ := hb.pre h
      exact ⟨g1, g2, g3, by rw [keyne n' i' hne]; exact g4⟩
    · intro h1' h2'
      obtain ⟨g1, g2, g3, g4, g5⟩ := hb.pend h1' h2'
      have : n' ≠ n := by omega
      refine ⟨g1, by rw [kst]; exact g2, by rw [knx]; exact g3, fun k => ?_, g5⟩
      rw [keyne n' k (fun e => this e.1)]; exact g4 k
    · intro h; rw [rawP_sec h] at hns; cases hns
    · intro h; rw [builtP_sec h] at hns; cases hns
    · intro h; have : secP tb.pc = true := by rw [h]; rfl
      rw [this] at hns; cases hns
    · intro h; have : secP tb.pc = true := by rw [h]; rfl
      rw [this] at hns; cases hns
    · intro h; have : secP tb.pc = true := by rw [h]; rfl
      rw [this] at hns; cases hns
  · intro b tb n' i' _ hb
    refine { hb with u1 := ?_, pub := ?_, qv := ?_, free := ?_ }
    · intro h; rw [kst]; exact hb.u1 h
    · intro h; rw [kst]; exact hb.pub h
    · intro h; rw [knx]; exact hb.qv h
    · intro h; rw [kst]; exact hb.free h
  · selfc
    case pcs => simp [isPushPc]
    case ilt => exact hl.ilt
    case sec => intro _; exact hs
    case lk => intro _; exact hl.lk (by rw [hpc]; rfl)
    case advT => intro _; exact ⟨hb'.1, by rw [key]; simp⟩

/-- `tail_counter.fetch_add(n_queue)`: the slot is published (`okb`) or given up -/
theorem p_adv (hg : LInv l) (hl : PushLoc l a t n i v f) (okb : Bool) (hpc : t.pc = .pAdv okb) (d : List Done) :
    PStep l a n i { l with tP := succP l.ipp l.tP l.tI, tI := succI l.ipp l.tI, done := d } := by
  obtain ⟨h1, h2, hp, hL, hlive, _⟩ := p_page_facts hg hl (by rw [hpc]; rfl)
  have hs : l.tP = n ∧ l.tI = i := ⟨h1, h2⟩
  have hi := hg.tI; have hh := hg.hI; have hip := hg.ipp
  have hslot : ((l.pages n).mask i = true ↔ ∃ v', l.slot n i = .cons v') := by
    cases okb with
    | true => have := hl.advT hpc; rw [this.1, this.2]; simp
    | false => have := hl.advF hpc; rw [this.1, this.2]; simp
  have hsc := succ_cases l.ipp l.tP l.tI
  refine ⟨?_, ?_, ?_, ?_⟩
  · refine { hg with tI := ?_, ht := ?_, Lrel := ?_, Urel := ?_, consR := ?_, maskR := ?_, mvR := ?_ }
    · (try dsimp only); rcases hsc with ⟨_, _, e⟩ | ⟨_, _, e⟩ <;> rw [e] <;> omega
    · have := hg.ht; simp only [rle] at this ⊢; (try dsimp only)
      rcases hsc with ⟨_, e1, e2⟩ | ⟨_, e1, e2⟩ <;> rw [e1, e2] <;> omega
    · (try dsimp only)
      rcases hsc with ⟨_, e1, e2⟩ | ⟨_, e1, e2⟩ <;> rw [e1, e2]
      · exact ⟨fun h => absurd rfl h, fun _ => Or.inl (by omega)⟩
      · exact ⟨fun _ => by omega, fun h => by omega⟩
    · rcases hg.Urel with h | ⟨g1, g2, g3, g4⟩
      · exact Or.inl h
      · refine Or.inr ⟨g1, g2, ?_, g4⟩
        simp only [rlt] at g3 ⊢; (try dsimp only)
        rcases hsc with ⟨_, e1, e2⟩ | ⟨_, e1, e2⟩ <;> rw [e1, e2] <;> omega
    · intro n' k v' hc
      obtain ⟨c1, c2, c3⟩ := hg.consR n' k v' hc
      refine ⟨c1, ?_, c3⟩
      simp only [rle] at c2 ⊢; (try dsimp only)
      rcases hsc with ⟨_, e1, e2⟩ | ⟨_, e1, e2⟩ <;> rw [e1, e2] <;> omega
    · intro n' k hk hm1 hm2 hm3
      (try dsimp only at hk hm1 hm2 hm3 ⊢)
      by_cases e : n' = n ∧ k = i
      · obtain ⟨e1, e2⟩ := e; subst e1; subst e2; exact hslot
      · refine hg.maskR n' k hk hm1 ?_ hm3
        simp only [rlt] at hm2 ⊢
        rcases hsc with ⟨_, e1, e2⟩ | ⟨_, e1, e2⟩ <;> rw [e1, e2] at hm2 <;> omega
    · intro hmv
      have := hg.mvR hmv
      simp only [rlt] at this ⊢; (try dsimp only)
      rcases hsc with ⟨_, e1, e2⟩ | ⟨_, e1, e2⟩ <;> rw [e1, e2] <;> omega
  · intro o ho hr
    cases o with
    | push n' i' v' f' =>
      obtain ⟨g1, g2, g3, g4, g5⟩ := ho
      have e : ¬(n' = n ∧ i' = i) := by intro ⟨e1, e2⟩; subst e1; subst e2; simp [pushRound] at hr
      refine ⟨g1, ?_, g3, g4, g5⟩
      simp only [rle] at g2 ⊢; (try dsimp only at g1 ⊢)
      rcases hsc with ⟨_, e1, e2⟩ | ⟨_, e1, e2⟩ <;> rw [e1, e2] <;> omega
    | pop n' i' => exact ho
  · intro b tb n' i' v' f' _ hne hb
    have hns := PushLoc.no_sec hs hne hb
    refine { hb with pre := ?_, sec := ?_, lk := ?_ }
    · intro h; obtain ⟨g1, g2, g3, g4⟩ := hb.pre h
      refine ⟨?_, g2, g3, g4⟩
      have := hb.ilt
      simp only [rle] at g1 ⊢; (try dsimp only)
      rcases hsc with ⟨_, e1, e2⟩ | ⟨_, e1, e2⟩ <;> rw [e1, e2] <;> omega
    · intro h; rw [h] at hns; cases hns
    · intro h; rw [linkedP_sec h] at hns; cases hns
  · intro b tb n' i' _ hb
    refine { hb with lt := ?_ }
    intro h
    have := hb.lt h
    simp only [rlt] at this ⊢; (try dsimp only)
    rcases hsc with ⟨_, e1, e2⟩ | ⟨_, e1, e2⟩ <;> rw [e1, e2] <;> omega

end

end TbbVerif.C09.Pg
