/-
C09 — page life cycle: the last steps of the pop finalizer (tail reset, unlock, publication of `head_counter`, deallocation).
-/
import TbbVerif.Proofs.C09.PgPop

namespace TbbVerif.C09.Pg

section
variable {l : Lane} {a n i : Nat} {t : LTh}

/-- `tail_page = nullptr` (the retired page was the last one) -/
theorem f_settail (hg : LInv l) (hl : PopLoc l a t n i) (hpc : t.pc = .fSetTail) :
    CStep l a n i { l with tp := .null, ph := .idle } ∧ PopLoc { l with tp := .null, ph := .idle } a { t with pc := .fUnlock } n i := by
  have hs := hl.sec (by rw [hpc]; rfl)
  have hm := hl.mx (by rw [hpc]; rfl)
  have hph := hl.phU hpc
  have hu := hl.u1 (by rw [hpc]; rfl)
  have hUL := hg.tpC.2 hph
  refine ⟨⟨?_, fun _ h _ => h, ?_, ?_⟩, ?_⟩
  · refine { hg with hpC := ?_, tpC := ?_, chain := ?_, mxPh := ?_ }
    · refine ⟨hg.hpC.1, fun h => ?_⟩
      have := hg.hpC.2 h; rw [hph] at this; simpa using this
    · refine ⟨fun _ => ?_, fun h => by cases h⟩
      have : ¬(l.U < l.L) := by omega
      show Ptr.null = _
      simp [this]
    · intro m hm1 hm2; om
    · intro _; rfl
  · intro b tb n' i' v' f' hba hb
    have hnm := PushLoc.no_mx hm hba hb
    refine { hb with phI := ?_, phL := ?_, qv := ?_ }
    · intro _; rfl
    · intro h; have : mxP tb.pc = true := by rw [h]; rfl
      rw [this] at hnm; cases hnm
    · intro h; have : mxP tb.pc = true := by rw [h]; rfl
      rw [this] at hnm; cases hnm
  · intro b tb n' i' hba _ hb
    have hnm := PopLoc.no_mx hm hba hb
    refine { hb with phI := ?_, phU := ?_ }
    · intro _; rfl
    · intro h; have : mxC tb.pc = true := by rw [h]; rfl
      rw [this] at hnm; cases hnm
  · selfc
    case pcs => simp [isPopPc]
    case ilt => exact hl.ilt
    case sec => intro _; exact hs
    case mv1 => intro _; exact hl.mv1 (by rw [hpc]; rfl)
    case lt => intro _; exact hl.lt (by rw [hpc]; rfl)
    case pg => intro _; exact hl.pg (by rw [hpc]; rfl)
    case last => intro _; exact hl.last (by rw [hpc]; rfl)
    case u1 => intro _; exact hu
    case mx => intro _; exact hm
    case phI => intro _; rfl

theorem f_unlock_self (hl : PopLoc l a t n i) (hpc : t.pc = .fUnlock) :
    PopLoc { l with mutex := none } a { t with pc := .fPub } n i := by
  selfc
  case pcs => simp [isPopPc]
  case ilt => exact hl.ilt
  case sec => intro _; exact hl.sec (by rw [hpc]; rfl)
  case mv1 => intro _; exact hl.mv1 (by rw [hpc]; rfl)
  case lt => intro _; exact hl.lt (by rw [hpc]; rfl)
  case pg => intro _; exact hl.pg (by rw [hpc]; rfl)
  case pub =>
    intro _
    have hlast := hl.last (by rw [hpc]; rfl)
    exact ⟨fun _ => hl.u1 (by rw [hpc]; rfl), fun h => absurd hlast h⟩

/-- `head_counter.store(k + n_queue)` -/
theorem f_pub (hg : LInv l) (hl : PopLoc l a t n i) (hpc : t.pc = .fPub) (d : List Done) :
    CStep l a n i { l with hP := succP l.ipp n i, hI := succI l.ipp i, mv := false, done := d } ∧
    (i + 1 = l.ipp → PopLoc { l with hP := succP l.ipp n i, hI := succI l.ipp i, mv := false, done := d } a { t with pc := .fFree } n i) := by
  have hs := hl.sec (by rw [hpc]; rfl)
  have hmv := hl.mv1 (by rw [hpc]; rfl)
  have hlt := hl.lt (by rw [hpc]; rfl)
  have hp := hl.pg (by rw [hpc]; rfl)
  have hpub := hl.pub hpc
  have hi := hl.ilt; have htI := hg.tI; have hip := hg.ipp
  have hsc := succ_cases l.ipp n i
  simp only [rlt] at hlt
  refine ⟨⟨?_, ?_, ?_, ?_⟩, ?_⟩
  · refine { hg with hI := ?_, ht := ?_, Urel := ?_, freed := ?_, consR := ?_, maskR := ?_, mvR := ?_ }
    · show succI l.ipp i < l.ipp
      rcases hsc with ⟨_, _, e⟩ | ⟨_, _, e⟩ <;> rw [e] <;> omega
    · show rle (succP l.ipp n i) (succI l.ipp i) l.tP l.tI
      simp only [rle]
      rcases hsc with ⟨_, e1, e2⟩ | ⟨_, e1, e2⟩ <;> rw [e1, e2] <;> omega
    · left
      show l.U = succP l.ipp n i
      rcases hsc with ⟨h, e1, _⟩ | ⟨h, e1, _⟩ <;> rw [e1]
      · exact (hpub.1 h).1
      · exact hpub.2 h
    · intro m hm
      have := hg.freed m hm
      show m < succP l.ipp n i
      rcases hsc with ⟨_, e1, _⟩ | ⟨_, e1, _⟩ <;> rw [e1] <;> omega
    · intro n' k v hc
      obtain ⟨c1, c2, c3, c4⟩ := hg.consR n' k v hc
      have c3' := c3 hmv
      have c4' : k < l.ipp := c4
      refine ⟨?_, c2, (fun h => by cases h), c4⟩
      show rle (succP l.ipp n i) (succI l.ipp i) n' k
      simp only [rle] at c1 ⊢
      rcases hsc with ⟨_, e1, e2⟩ | ⟨_, e1, e2⟩ <;> rw [e1, e2] <;> omega
    · intro n' k hk hm1 hm2 _
      have hm1' : rle (succP l.ipp n i) (succI l.ipp i) n' k := hm1
      have hk' : k < l.ipp := hk
      refine hg.maskR n' k hk ?_ hm2 (fun _ => ?_)
      · simp only [rle] at hm1' ⊢
        rcases hsc with ⟨_, e1, e2⟩ | ⟨_, e1, e2⟩ <;> rw [e1, e2] at hm1' <;> omega
      · intro ⟨q1, q2⟩
        simp only [rle] at hm1'
        rcases hsc with ⟨_, e1, e2⟩ | ⟨_, e1, e2⟩ <;> rw [e1, e2] at hm1' <;> omega
    · intro h; cases h
  · intro o ho hr
    cases o with
    | push n' i' v' f' => exact ho
    | pop n' i' =>
      obtain ⟨g1, g2, g3⟩ := ho
      have e : ¬(n' = n ∧ i' = i) := by intro ⟨e1, e2⟩; subst e1; subst e2; simp [popRound] at hr
      refine ⟨g1, ?_, fun _ => rfl⟩
      show rle (succP l.ipp n i) (succI l.ipp i) n' i'
      have g1' : i' < l.ipp := g1
      simp only [rle] at g2 ⊢
      rcases hsc with ⟨_, e1, e2⟩ | ⟨_, e1, e2⟩ <;> rw [e1, e2] <;> omega
  · intro b tb n' i' v' f' _ hb
    exact { hb with }
  · intro b tb n' i' _ hne hb
    have hns := PopLoc.no_sec hs hne hb
    refine { hb with pre := ?_, sec := ?_, mv0 := ?_, mv1 := ?_, lt := ?_, free := ?_ }
    · intro h; obtain ⟨g1, _⟩ := hb.pre h
      refine ⟨?_, fun _ => rfl⟩
      show rle (succP l.ipp n i) (succI l.ipp i) n' i'
      have := hb.ilt
      simp only [rle] at g1 ⊢
      rcases hsc with ⟨_, e1, e2⟩ | ⟨_, e1, e2⟩ <;> rw [e1, e2] <;> omega
    · intro h; exact absurd h (by rw [hns]; simp)
    · intro _; rfl
    · intro h; rw [mv1C_sec h] at hns; cases hns
    · intro h; rw [ltC_sec h] at hns; cases hns
    · intro h
      obtain ⟨g1, g2⟩ := hb.free h
      refine ⟨g1, ?_⟩
      show n' < succP l.ipp n i
      rcases hsc with ⟨_, e1, _⟩ | ⟨_, e1, _⟩ <;> rw [e1] <;> omega
  · intro hlast
    selfc
    case pcs => simp [isPopPc]
    case ilt => exact hl.ilt
    case pg => intro _; exact hp
    case last => intro _; exact hlast
    case free =>
      intro _
      refine ⟨(hpub.1 hlast).2, ?_⟩
      show n < succP l.ipp n i
      rcases hsc with ⟨_, e1, _⟩ | ⟨h, _, _⟩
      · rw [e1]; omega
      · exact absurd hlast h

/-- the retired page is deallocated -/
theorem f_free (hg : LInv l) (hl : PopLoc l a t n i) (hpc : t.pc = .fFree) (d : List Done) :
    CStep l a n i { l with pages := updF l.pages n { l.pages n with st := .freed }, done := d } := by
  obtain ⟨hlive, hnh⟩ := hl.free hpc
  have hlast := hl.last (by rw [hpc]; rfl)
  have hUge : l.hP ≤ l.U := by rcases hg.Urel with h | h <;> omega
  have hUL := hg.UleL
  have kst : ∀ m, m ≠ n → (updF l.pages n { l.pages n with st := .freed } m).st = (l.pages m).st :=
    fun m h => by rw [updF_ne _ _ _ _ h]
  have kn : (updF l.pages n { l.pages n with st := .freed } n).st = .freed := by simp
  have kmask : ∀ m, (updF l.pages n { l.pages n with st := .freed } m).mask = (l.pages m).mask := fun m => mask_updSt _ _ _ _
  have knext : ∀ m, (updF l.pages n { l.pages n with st := .freed } m).next = (l.pages m).next := fun m => next_updSt _ _ _ _
  refine ⟨?_, ?_, ?_, ?_⟩
  · refine { hg with chain := ?_, freed := ?_, maskR := ?_ }
    · intro m hm1 hm2
      have hne : m ≠ n := by have : l.U ≤ m := hm1; omega
      have hc := hg.chain m hm1 hm2
      exact ⟨(kst m hne).trans hc.1, (knext m).trans hc.2⟩
    · intro m hm
      by_cases e : m = n
      · subst e; exact hnh
      · exact hg.freed m ((kst m e).symm.trans hm)
    · intro n' k hk hm1 hm2 hm3
      have := hg.maskR n' k hk hm1 hm2 hm3
      rw [← kmask n'] at this; exact this
  · intro o ho _
    cases o with
    | push n' i' v' f' =>
      obtain ⟨g1, g2, g3, g4, g5⟩ := ho
      refine ⟨g1, g2, fun h => ?_, g4, ?_⟩
      · have hne : n' ≠ n := by intro e; have := g3 h; rw [e, hlive] at this; cases this
        exact (kst n' hne).trans (g3 h)
      · have := kmask n'; exact (congrFun this i').trans g5
    | pop n' i' => exact ho
  · intro b tb n' i' v' f' _ hb
    have mk : ∀ k x, (l.pages n').mask k = x → (updF l.pages n { l.pages n with st := .freed } n').mask k = x :=
      fun k x h => (congrFun (kmask n') k).trans h
    refine { hb with pre := ?_, pend := ?_, raw := ?_, built := ?_, msk := ?_, advT := ?_, advF := ?_ }
    · intro h; obtain ⟨g1, g2, g3, g4⟩ := hb.pre h
      exact ⟨g1, g2, g3, mk _ _ g4⟩
    · intro h1 h2
      obtain ⟨g1, g2, g3, g4, g5⟩ := hb.pend h1 h2
      have hne : n' ≠ n := by omega
      exact ⟨g1, (kst n' hne).trans g2, (knext n').trans g3, fun k => mk _ _ (g4 k), g5⟩
    · intro h; have := hb.raw h; exact ⟨this.1, mk _ _ this.2⟩
    · intro h; have := hb.built h; exact ⟨this.1, mk _ _ this.2⟩
    · intro h; exact (hb.msk h).trans (kmask n').symm
    · intro h; have := hb.advT h; exact ⟨this.1, mk _ _ this.2⟩
    · intro h; have := hb.advF h; exact ⟨this.1, mk _ _ this.2⟩
  · intro b tb n' i' _ hne hb
    -- another pop that still needs its page live is at the last slot of a different page
    have hdiff : i' + 1 = l.ipp → n' ≠ n := by
      intro h1 e
      exact hne ⟨e, by omega⟩
    refine { hb with u1 := ?_, pub := ?_, qv := ?_, free := ?_ }
    · intro h
      have hh := hb.u1 h
      have hd := hdiff (hb.last (by cases hpc' : tb.pc <;> simp_all [u1C, lastC]))
      exact ⟨hh.1, (kst n' hd).trans hh.2⟩
    · intro h
      have hh := hb.pub h
      refine ⟨fun e => ?_, hh.2⟩
      have h3 := hh.1 e
      exact ⟨h3.1, (kst n' (hdiff e)).trans h3.2⟩
    · intro h; exact (hb.qv h).trans (knext n').symm
    · intro h
      have hh := hb.free h
      have hd := hdiff (hb.last (by rw [h]; rfl))
      exact ⟨(kst n' hd).trans hh.1, hh.2⟩

end

end TbbVerif.C09.Pg
