/- C15 helper lemmas (aggregator). -/
import TbbVerif.Proofs.C15.ItemBuf
import TbbVerif.Proofs.C15.Nodes
import TbbVerif.Proofs.C15.Seq
import TbbVerif.Proofs.C15.Prio
import TbbVerif.Proofs.C15.Limiter
import TbbVerif.Proofs.C15.JoinQ
import TbbVerif.Proofs.C15.JoinR
import TbbVerif.Proofs.C15.JoinK
import TbbVerif.Proofs.C15.Misc
import TbbVerif.Proofs.C15.Batch
import TbbVerif.Proofs.C15.BatchNodes
import TbbVerif.Proofs.C15.Seq64
import TbbVerif.Proofs.C15.Join
