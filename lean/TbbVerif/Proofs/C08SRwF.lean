import TbbVerif.Proofs.C08SRwE

namespace TbbVerif.C08.Slp.Rw
open TbbVerif.C08 (Word Phase busy dec_enc enc_inj)

/-- **no sleeper on a satisfiable condition without a notifier**: a thread that has committed to sleep (its predicate
was false) and is still in the wait set under its context, while its wake-up condition holds for the current word, is
covered by a thread that is about to notify that context. -/
def NoLostWake (st : St) : Prop :=
  ∀ (w c : Nat) (tw : Th), (w, c) ∈ st.mon.waitset → st.ths[w]? = some tw → tw.pc = .wait →
    (tw.mw.w = .commit ∨ tw.mw.w = .sleep) → tw.wk.ctx = c → tw.wk.cond st.word = true →
    ∃ (n : Nat) (tn : Th), st.ths[n]? = some tn ∧ Covers tn c

/-- a wait step leaves the word, the kind of wait and the rest of the thread alone -/
theorem stepTh_wait (tid sm : Nat) (s : Word) (m : Mon) (t : Th) (op : Op) (rest : List Op) (hops : t.ops = op :: rest) (hpc : t.pc = .wait) :
    (stepTh tid sm s m t).1 = s ∧ (stepTh tid sm s m t).2.2.2.1.wk = t.wk ∧
    ((stepTh tid sm s m t).2.2.2.1.pc = .wait ∨ (stepTh tid sm s m t).2.2.2.1.pc = waitBack op t.wk) := by
  unfold stepTh; simp only [hops, hpc]; simp [stepOp, hpc]
  cases (waitStep tid s.enc (t.wk.cond s) t.wk.ctx sm false m t.mw).2.2.2 <;> simp

theorem notifyStep_subset (m : Mon) (x : WT) : ∀ e ∈ (notifyStep m x).1.waitset, e ∈ m.waitset := by
  unfold notifyStep
  cases x.n with
  | none => intro e he; exact he
  | peek => simp only []; split <;> (try split) <;> intro e he <;> exact he
  | flush => simp only []; split <;> intro e he <;> exact (List.mem_filter.mp he).1
  | v => simp only []; split <;> (try split) <;> intro e he <;> exact he

theorem selected_mem (sel : Sel) (ws : List (Tid × Nat)) (w c : Nat) (h : (w, c) ∈ ws) (hs : sel = .all ∨ sel = .ctx c) :
    w ∈ selected sel ws := by
  unfold selected
  rcases hs with rfl | rfl
  · simp only [List.mem_map, List.mem_filter, List.mem_reverse]
    exact ⟨(w, c), ⟨h, by simp [Sel.sel]⟩, rfl⟩
  · simp only [List.mem_map, List.mem_filter, List.mem_reverse]
    exact ⟨(w, c), ⟨h, by simp [Sel.sel]⟩, rfl⟩


theorem stepTh_wait_eq (tid sm : Nat) (s : Word) (m : Mon) (t : Th) (op : Op) (rest : List Op) (hops : t.ops = op :: rest) (hpc : t.pc = .wait) :
    (stepTh tid sm s m t).2.2.1 = (waitStep tid s.enc (t.wk.cond s) t.wk.ctx sm false m t.mw).1 ∧
    (stepTh tid sm s m t).2.2.2.1.mw = (waitStep tid s.enc (t.wk.cond s) t.wk.ctx sm false m t.mw).2.1 := by
  unfold stepTh; simp only [hops, hpc]; simp [stepOp, hpc]

theorem stepTh_notify_eq (tid sm : Nat) (s : Word) (m : Mon) (t : Th) (op : Op) (rest : List Op) (hops : t.ops = op :: rest) (hpc : t.pc = .notify) :
    (stepTh tid sm s m t).1 = s ∧ (stepTh tid sm s m t).2.2.1 = (notifyStep m t.mw).1 ∧
    ((notifyStep m t.mw).2.2.2 = false → (stepTh tid sm s m t).2.2.2.1 = { t with mw := (notifyStep m t.mw).2.1 }) := by
  unfold stepTh; simp only [hops, hpc]; simp [stepOp, hpc]
  refine ⟨?_, ?_, ?_⟩
  · split
    · rfl
    · split <;> (try split) <;> rfl
  · split
    · rfl
    · split <;> (try split) <;> rfl
  · intro hf; simp [hf, hops]

theorem pc_upFin_phase (t : Th) (hwf : Wf t) (hpc : t.pc = .upFin) : t.phase = .upgReady := by
  have w4 := hwf.op
  cases hops : t.ops with
  | nil => rw [hops] at w4; simp [hpc] at w4
  | cons op rest =>
    rw [hops] at w4
    cases op <;> simp [WfOp, inLockBody, hpc] at w4
    exact w4.1

theorem wait_upg_phase (t : Th) (hwf : Wf t) (hpc : t.pc = .wait) (hk : t.wk = .upg) : t.phase = .upgWait := by
  have w4 := hwf.op
  cases hops : t.ops with
  | nil => rw [hops] at w4; simp [hpc] at w4
  | cons op rest =>
    rw [hops] at w4
    cases op <;> simp [WfOp, inLockBody, hpc, hk] at w4
    exact w4.1

theorem pc_dgLoad_op (t : Th) (hwf : Wf t) (hpc : t.pc = .dgLoad) : ∃ rest, t.ops = .downgrade :: rest := by
  have w4 := hwf.op
  cases hops : t.ops with
  | nil => rw [hops] at w4; simp [hpc] at w4
  | cons op rest =>
    rw [hops] at w4
    cases op <;> simp [WfOp, inLockBody, hpc] at w4
    exact ⟨rest, rfl⟩

theorem nlw_step (st : St) (tid : Tid) (h : Inv st) (hn : NoLostWake st) : NoLostWake (step st tid) := by
  unfold step stepEv
  cases hget : st.ths[tid]? with
  | none => exact hn
  | some t =>
    dsimp only
    have hwf := h.wf tid t hget
    have hlt : tid < st.ths.length := (List.getElem?_eq_some_iff.mp hget).1
    have hm := stepTh_mon tid st.spinMax st.word st.mon t
    intro w c tw hmem hgetw hpcw hstage hctx hcond
    dsimp only at hmem hgetw hcond
    by_cases e : w = tid
    · -- the stepping thread is the sleeper itself
      subst e
      have htw : tw = (stepTh w st.spinMax st.word st.mon t).2.2.2.1 := by
        rw [List.getElem?_set] at hgetw; simp [hlt] at hgetw; exact hgetw.symm
      by_cases hpw : t.pc = .wait
      · have hops : ∃ op rest, t.ops = op :: rest := by
          cases ho : t.ops with
          | nil => have := hwf.op; rw [ho] at this; simp [hpw] at this
          | cons op rest => exact ⟨op, rest, rfl⟩
        obtain ⟨op, rest, hops⟩ := hops
        have e1 := stepTh_wait w st.spinMax st.word st.mon t op rest hops hpw
        have e2 := stepTh_wait_eq w st.spinMax st.word st.mon t op rest hops hpw
        have hset := (waitStep_set w st.word.enc (t.wk.cond st.word) t.wk.ctx st.spinMax false st.mon t.mw).2
        rw [htw, e2.2] at hstage
        have hs := hset hstage
        rw [e2.1, hs.2] at hmem
        rw [htw, e1.2.1] at hctx
        rw [htw, e1.2.1, e1.1] at hcond
        rcases hs.1 with hst | ⟨_, hcf⟩
        · obtain ⟨n, tn, hgn, hcov⟩ := hn w c t hmem hget hpw hst hctx hcond
          have hne : n ≠ w := by
            intro en; subst en; rw [hget] at hgn; cases hgn
            rcases hcov with ⟨a, _⟩ | ⟨a, _⟩ <;> (rw [hpw] at a; cases a)
          exact ⟨n, tn, by rw [List.getElem?_set_ne (Ne.symm hne)]; exact hgn, hcov⟩
        · rw [hcf] at hcond; cases hcond
      · -- it was not inside a wait: it cannot be at commit / sleep after one step
        exfalso
        have hw0 := hwf.mw hpw
        have hk := notifyStep_keep st.mon t.mw
        rw [htw] at hstage
        rcases hm with ⟨a, _⟩ | ⟨_, _, a | a⟩ | ⟨_, a | a | ⟨_, _, a⟩⟩
        · exact hpw a
        · rw [a, hk.1, hw0] at hstage; simp at hstage
        · rw [a] at hstage; simp at hstage
        · rw [a, hw0] at hstage; simp at hstage
        · rw [a] at hstage; simp at hstage
        · rw [a] at hstage; simp [hw0] at hstage
    · -- another thread steps
      have hgw : st.ths[w]? = some tw := by rw [List.getElem?_set_ne (Ne.symm e)] at hgetw; exact hgetw
      have hmem0 : (w, c) ∈ st.mon.waitset := by
        rcases hm with ⟨_, a, _⟩ | ⟨_, a, _⟩ | ⟨a, _⟩
        · rw [a] at hmem; exact ((waitStep_set tid st.word.enc (t.wk.cond st.word) t.wk.ctx st.spinMax false st.mon t.mw).1 w c e).mp hmem
        · rw [a] at hmem; exact notifyStep_subset _ _ _ hmem
        · rw [a] at hmem; exact hmem
      have hself : (st.ths.set tid (stepTh tid st.spinMax st.word st.mon t).2.2.2.1)[tid]? = some (stepTh tid st.spinMax st.word st.mon t).2.2.2.1 := by
        simp [hlt]
      by_cases hc0 : tw.wk.cond st.word = true
      · obtain ⟨n, tn, hgn, hcov⟩ := hn w c tw hmem0 hgw hpcw hstage hctx hc0
        by_cases en : n = tid
        · subst en
          rw [hget] at hgn; cases hgn
          rcases hcov with ⟨hpn, hnn, hsel⟩ | ⟨hpd, hc1⟩
          · -- the covering notifier itself steps
            have hops : ∃ op rest, t.ops = op :: rest := by
              cases ho : t.ops with
              | nil => have := hwf.op; rw [ho] at this; simp [hpn] at this
              | cons op rest => exact ⟨op, rest, rfl⟩
            obtain ⟨op, rest, hops⟩ := hops
            have e3 := stepTh_notify_eq n st.spinMax st.word st.mon t op rest hops hpn
            rcases hnn with hnn | hnn
            · -- peek: the wait set is not empty, it goes on to flush
              have hne : st.mon.waitset.length ≠ 0 := by
                intro h0; have := List.eq_nil_of_length_eq_zero h0; rw [this] at hmem0; cases hmem0
              have hr : notifyStep st.mon t.mw = (st.mon, { t.mw with n := .flush }, some ⟨"load", "cnt", st.mon.waitset.length, 0⟩, false) := by
                unfold notifyStep; rw [hnn]; simp only []; rw [if_pos hne]
              refine ⟨n, _, hself, Or.inl ?_⟩
              rw [e3.2.2 (by rw [hr])]
              rw [hr]; exact ⟨hpn, Or.inr rfl, hsel⟩
            · -- flush: it removes every waiter of the contexts it selects, in particular w
              exfalso
              rw [e3.2.1] at hmem
              have hw : w ∈ selected t.mw.nsel st.mon.waitset := selected_mem _ _ w c hmem0 hsel
              have : (notifyStep st.mon t.mw).1.waitset = st.mon.waitset.filter (fun e => !(selected t.mw.nsel st.mon.waitset).contains e.1) := by
                unfold notifyStep; rw [hnn]; simp only []; split <;> rfl
              rw [this] at hmem
              have := (List.mem_filter.mp hmem).2
              simp at this; exact this hw
          · -- downgrade's load of WRITER_PENDING
            obtain ⟨rest, hops⟩ := pc_dgLoad_op t hwf hpd
            have hk : tw.wk = .reader := by
              rw [hc1] at hctx
              cases hk : tw.wk <;> simp [hk, WKind.ctx] at hctx ⊢
            have hp : st.word.p = false := by
              rw [hk] at hc0; simp [WKind.cond] at hc0; exact hc0.2
            refine ⟨n, _, hself, Or.inl ?_⟩
            have : (stepTh n st.spinMax st.word st.mon t).2.2.2.1 = startNotify t (.ctx 1) .done := by
              unfold stepTh; simp only [hops, hpd]; simp [stepOp, hpd, hp]
            rw [this]
            exact ⟨rfl, Or.inl rfl, Or.inr (by rw [hc1]; rfl)⟩
        · exact ⟨n, tn, by rw [List.getElem?_set_ne (Ne.symm en)]; exact hgn, hcov⟩
      · -- this very access made the condition true: the wake rules
        have hc0' : tw.wk.cond st.word = false := by simpa using hc0
        have hwfw := h.wf w tw hgw
        have h1 : t.pc = .upFin → st.word.w = true := by
          intro hp
          have := cntS_pos_of_mem .upgReady st.ths tid t hget (pc_upFin_phase t hwf hp)
          have hw := h.c.hw
          cases hww : st.word.w with
          | true => rfl
          | false => rw [hww] at hw; simp at hw; omega
        have h2 : tw.wk = .upg → 1 ≤ st.word.r ∧ t.pc ≠ .upFin := by
          intro hk
          have p1 := cntS_pos_of_mem .upgWait st.ths w tw hgw (wait_upg_phase tw hwfw hpcw hk)
          refine ⟨by have := h.c.hr; omega, fun hp => ?_⟩
          have p2 := cntS_pos_of_mem .upgReady st.ths tid t hget (pc_upFin_phase t hwf hp)
          have hw := h.c.hw
          split at hw <;> omega
        have := wake_rules_step tid st.spinMax st.word st.mon t tw.wk h1 h2 hc0' hcond
        exact ⟨tid, _, hself, by rw [← hctx]; exact this⟩

theorem nlw_init (progs : List (List Op)) (orcs : List (List Bool)) (sm : Nat) : NoLostWake (sys progs orcs sm).init := by
  intro w c tw hmem; simp [sys] at hmem

/-- the invariant together with "no sleeper on a satisfiable condition without a covering notifier" -/
theorem nlw_reachable (progs : List (List Op)) (orcs : List (List Bool)) (sm : Nat) (sched : List Tid) :
    Inv ((sys progs orcs sm).run sched) ∧ NoLostWake ((sys progs orcs sm).run sched) :=
  Sys.inv_run (sys progs orcs sm) (fun s => Inv s ∧ NoLostWake s) ⟨inv_init progs orcs sm, nlw_init progs orcs sm⟩
    (fun s t h => ⟨inv_step s t h.1, nlw_step s t h.1 h.2⟩) sched

end TbbVerif.C08.Slp.Rw
