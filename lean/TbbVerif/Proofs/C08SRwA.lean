import TbbVerif.Proofs.C08
import TbbVerif.Proofs.C08Mon

namespace TbbVerif.C08.Slp.Rw
open TbbVerif.C08 (Word Phase busy Trans countP_set_add dec_enc enc_inj)

def cntS (ph : Phase) (l : List Th) : Nat := l.countP (fun t => t.phase == ph)

def isLocker (t : Th) : Bool :=
  match t.ops with
  | .lock :: _ => t.phase == .idle
  | .upgrade :: _ => t.slow && t.phase == .idle && t.pc != .notify && t.pc != .start
  | _ => false

def nLockS (l : List Th) : Nat := l.countP isLocker

theorem cntS_set (ph : Phase) (l : List Th) (i : Nat) (x y : Th) (h : l[i]? = some x) :
    cntS ph (l.set i y) + (if x.phase = ph then 1 else 0) = cntS ph l + (if y.phase = ph then 1 else 0) := by
  have := countP_set_add (fun t : Th => t.phase == ph) l i x y h
  simpa [cntS] using this

theorem nLockS_set (l : List Th) (i : Nat) (x y : Th) (h : l[i]? = some x) :
    nLockS (l.set i y) + (if isLocker x then 1 else 0) = nLockS l + (if isLocker y then 1 else 0) := by
  simpa [nLockS] using countP_set_add isLocker l i x y h

theorem cntS_pos_of_mem (ph : Phase) (l : List Th) (i : Nat) (x : Th) (h : l[i]? = some x) (hx : x.phase = ph) :
    0 < cntS ph l := by
  have hm : x ∈ l := List.mem_of_getElem? h
  exact List.countP_pos_iff.mpr ⟨x, hm, by simp [hx]⟩

theorem nLockS_pos_of_mem (l : List Th) (i : Nat) (x : Th) (h : l[i]? = some x) (hx : isLocker x = true) :
    0 < nLockS l := by
  have hm : x ∈ l := List.mem_of_getElem? h
  exact List.countP_pos_iff.mpr ⟨x, hm, hx⟩

/-- the abstract transitions of the spin_rw_mutex word, plus rw_mutex's unlock (which keeps WRITER_PENDING) -/
inductive TransS : Word → Phase → Bool → Word → Bool → Phase → Bool → Prop
  | old {s ph lk s' b ph' lk'} (h : Trans s ph lk s' b ph' lk') : TransS s ph lk s' b ph' lk'
  | relWKeep (s lk') : TransS s .holdW false { s with w := false } false .idle lk'
  /-- try_lock_shared's fetch_add found WRITER_PENDING (or WRITER): the unit is transient and will be taken back -/
  | addRRtAny (s) : TransS s .idle false { s with r := s.r + 1 } false .rt false

/-- counting invariant of the word (the same as for spin_rw_mutex) -/
structure InvC (word : Word) (bad : Bool) (ths : List Th) : Prop where
  hr : word.r = cntS .rt ths + cntS .holdR ths + cntS .upgWait ths + cntS .upgReady ths
  hw : cntS .holdW ths + cntS .upgWait ths + cntS .upgReady ths = (if word.w then 1 else 0)
  hx : 0 < cntS .holdW ths + cntS .upgReady ths → cntS .holdR ths = 0
  hp : 0 < cntS .upgWait ths + cntS .upgReady ths → word.p = true
  hl : word.p = true → 0 < nLockS ths + cntS .upgWait ths + cntS .upgReady ths
  hbad : bad = false

theorem invC_trans (word : Word) (bad : Bool) (ths : List Th) (tid : Nat) (t t' : Th) (hget : ths[tid]? = some t) (hinv : InvC word bad ths)
    (s' : Word) (b : Bool) (ph ph' : Phase) (lk lk' : Bool)
    (e1 : t.phase = ph) (e2 : isLocker t = lk) (e3 : t'.phase = ph') (e4 : isLocker t' = lk')
    (htr : TransS word ph lk s' b ph' lk') :
    InvC s' (bad || b) (ths.set tid t') := by
  obtain ⟨hr, hw, hx, hp, hl, hbad⟩ := hinv
  have c1 := cntS_set .rt ths tid t t' hget
  have c2 := cntS_set .holdR ths tid t t' hget
  have c3 := cntS_set .upgWait ths tid t t' hget
  have c4 := cntS_set .upgReady ths tid t t' hget
  have c5 := cntS_set .holdW ths tid t t' hget
  have c7 := nLockS_set ths tid t t' hget
  rw [e1, e3] at c1 c2 c3 c4 c5
  rw [e2, e4] at c7
  generalize word = s at *
  cases htr with
  | relWKeep =>
    simp at c1 c2 c3 c4 c5 c7
    refine ⟨?_, ?_, ?_, ?_, ?_, ?_⟩ <;> (try dsimp only)
    · omega
    · cases hws : s.w <;> simp [hws] at hw ⊢ <;> omega
    · intro hh; have := hx (by omega); omega
    · intro hh; exact hp (by omega)
    · intro hh; have := hl hh; cases lk' <;> simp at c7 <;> omega
    · simp [hbad]
  | addRRtAny =>
    simp at c1 c2 c3 c4 c5 c7
    refine ⟨?_, ?_, ?_, ?_, ?_, ?_⟩ <;> (try dsimp only)
    · omega
    · cases hws : s.w <;> simp [hws] at hw ⊢ <;> omega
    · intro hh; have := hx (by omega); omega
    · intro hh; exact hp (by omega)
    · intro hh; have := hl hh; omega
    · simp [hbad]
  | old htr =>
  cases htr <;> simp at c1 c2 c3 c4 c5 c7 <;> refine ⟨?_, ?_, ?_, ?_, ?_, ?_⟩ <;> (try dsimp only)
  all_goals (try (first
    | omega
    | exact ⟨hbad, by omega⟩
    | exact ⟨hbad, by omega, hp (by omega)⟩
    | (intro _; exact hp (by omega))
    | (have := nLockS_pos_of_mem ths tid t hget e2; omega)))
  all_goals (try (cases hws : s.w <;> simp [hws] at hw ⊢))
  all_goals (try omega)
  all_goals (try (simp_all; done))
  all_goals (try (intro h'; simp_all <;> omega))
  all_goals (try (intro h'; have := hl h'; cases lk <;> cases lk' <;> simp_all <;> omega))
  all_goals (try exact ⟨hbad, by omega⟩)
  all_goals (try exact ⟨hbad, by omega, hp (by omega)⟩)
  -- upgrade CAS succeeded while WRITER was set: impossible (we hold a reader unit)
  · rename_i hc
    exfalso
    by_cases hq : 0 < cntS Phase.holdW ths + cntS Phase.upgReady ths
    · have := hx hq; omega
    · have hp' := hp (by omega)
      rcases hc with h | h
      · omega
      · rw [hp'] at h; cases h


/-! ### local well-formedness and the classification of every step -/

def sv0 (t : Th) : Prop := (Word.dec t.sv).w = false ∧ (Word.dec t.sv).r = 0 ∧ (Word.dec t.sv).enc = t.sv
def svUp (t : Th) : Prop := ((Word.dec t.sv).r = 1 ∨ (Word.dec t.sv).p = false) ∧ (Word.dec t.sv).enc = t.sv

/-- the pcs of the lock() loop body after its first load -/
def inLockBody (t : Th) : Prop :=
  (t.pc = .tlCas ∧ sv0 t) ∨ t.pc = .pLoad ∨ t.pc = .pOr ∨ (t.pc = .wait ∧ t.wk = .writer)

def WfOp (op : Op) (t : Th) : Prop :=
  match op with
  | .lock => t.pc = .start ∨ (t.phase = .idle ∧ inLockBody t)
  | .tryLock => t.pc = .start ∨ (t.pc = .tlCas ∧ t.phase = .idle ∧ sv0 t)
  | .unlock | .unlockShared => t.pc = .start ∨ (t.pc = .notify ∧ t.phase = .idle ∧ t.nk = .done)
  | .lockShared =>
      t.pc = .start ∨ (t.pc = .shAdd ∧ t.phase = .idle) ∨ (t.pc = .shUndo ∧ t.phase = .rt) ∨
      (t.pc = .notify ∧ t.phase = .idle ∧ t.nk = .fail) ∨ (t.pc = .wait ∧ t.phase = .idle ∧ t.wk = .reader)
  | .tryLockShared =>
      t.pc = .start ∨ (t.pc = .shAdd ∧ t.phase = .idle) ∨ (t.pc = .shUndo ∧ t.phase = .rt) ∨
      (t.pc = .notify ∧ t.phase = .idle ∧ t.nk = .fail)
  | .upgrade =>
      t.pc = .start ∨
      (t.pc = .upCas ∧ t.phase = .holdR ∧ t.slow = false ∧ svUp t) ∨
      (t.pc = .upLoad ∧ t.phase = .upgWait ∧ t.slow = false) ∨
      (t.pc = .wait ∧ t.wk = .upg ∧ t.phase = .upgWait ∧ t.slow = false) ∨
      (t.pc = .upFin ∧ t.phase = .upgReady ∧ t.slow = false) ∨
      (t.pc = .upSlowRel ∧ t.phase = .holdR ∧ t.slow = true) ∨
      (t.pc = .notify ∧ t.phase = .idle ∧ t.slow = true ∧ t.nk = .slowLock) ∨
      (t.phase = .idle ∧ t.slow = true ∧ (t.pc = .lkLoad ∨ inLockBody t))
  | .downgrade => t.pc = .start ∨ (t.pc = .dgLoad ∧ t.phase = .holdR) ∨ (t.pc = .notify ∧ t.phase = .holdR ∧ t.nk = .done)

structure Wf (t : Th) : Prop where
  rt : t.phase = .rt → t.pc = .shUndo
  uw : t.phase = .upgWait → (t.pc = .upLoad ∨ t.pc = .wait)
  ur : t.phase = .upgReady → t.pc = .upFin
  op : match t.ops with | [] => t.pc = .start | op :: _ => WfOp op t
  mw : t.pc ≠ .wait → t.mw.w = .none
  mn : t.pc ≠ .notify → t.mw.n = .none

def Good (s : Word) (t : Th) (o : Out) : Prop :=
  TransS s t.phase (isLocker t) o.1 o.2.1 o.2.2.2.1.phase (isLocker o.2.2.2.1) ∧ Wf o.2.2.2.1

theorem wfOp_start (op : Op) (t : Th) (h : t.pc = .start) : WfOp op t := by
  cases op <;> simp [WfOp, h]

theorem wf_done (t : Th) (ph : Phase) (res : Option Nat)
    (h1 : ph ≠ .rt) (h2 : ph ≠ .upgWait) (h3 : ph ≠ .upgReady) (hw : t.mw.w = .none) (hn : t.mw.n = .none) : Wf (t.done ph res) := by
  refine ⟨fun h => absurd h h1, fun h => absurd h h2, fun h => absurd h h3, ?_, fun _ => hw, fun _ => hn⟩
  simp only [Th.done]
  cases t.ops.tail with
  | nil => simp
  | cons op r => exact wfOp_start op _ rfl

theorem sv0_word (s : Word) (t : Th) (h : sv0 t) (he : s.enc = t.sv) : s.w = false ∧ s.r = 0 := by
  obtain ⟨a, b, c⟩ := h
  have : s = Word.dec t.sv := enc_inj (by rw [c, he])
  subst this; exact ⟨a, b⟩

theorem sv0_of_not_busy (s : Word) (h : busy s = false) : (Word.dec s.enc).w = false ∧ (Word.dec s.enc).r = 0 ∧ (Word.dec s.enc).enc = s.enc := by
  rw [dec_enc]
  simp [busy] at h
  exact ⟨h.1, h.2, rfl⟩

section wrappers
open TbbVerif.C08
variable {s s' : Word} {ph ph' : Phase} {lk lk' : Bool} {b : Bool}
theorem S_silent (h0 : s' = s) (hb : b = false) (h1 : ph' = ph) (h : lk = true → lk' = true) : TransS s ph lk s' b ph' lk' :=
  .old (T_silent h0 hb h1 h)
theorem S_setPending (h1 : ph = .idle) (h2 : lk = true) (h3 : s' = { s with p := true }) (hb : b = false) (h4 : ph' = .idle) (h5 : lk' = true) :
    TransS s ph lk s' b ph' lk' := .old (T_setPending h1 h2 h3 hb h4 h5)
theorem S_acqW (h1 : ph = .idle) (hw : s.w = false) (hr : s.r = 0) (h3 : s' = { w := true, p := false, r := 0 }) (hb : b = false) (h4 : ph' = .holdW) :
    TransS s ph lk s' b ph' lk' := .old (T_acqW h1 hw hr h3 hb h4)
theorem S_relWKeep (h1 : ph = .holdW) (h2 : lk = false) (h3 : s' = { s with w := false }) (hb : b = false) (h4 : ph' = .idle) :
    TransS s ph lk s' b ph' lk' := by subst h1 h2 h3 hb h4; exact .relWKeep _ _
theorem S_addRRtAny (h1 : ph = .idle) (h2 : lk = false) (h3 : s' = { s with r := s.r + 1 }) (hb : b = false) (h4 : ph' = .rt) (h5 : lk' = false) :
    TransS s ph lk s' b ph' lk' := by subst h1 h2 h3 hb h4 h5; exact .addRRtAny _
theorem S_addROk (h1 : ph = .idle) (h2 : lk = false) (hw : s.w = false) (h3 : s' = { s with r := s.r + 1 }) (hb : b = false) (h4 : ph' = .holdR) :
    TransS s ph lk s' b ph' lk' := .old (T_addROk h1 h2 hw h3 hb h4)
theorem S_addRRt (h1 : ph = .idle) (h2 : lk = false) (hw : s.w = true) (h3 : s' = { s with r := s.r + 1 }) (hb : b = false) (h4 : ph' = .rt) (h5 : lk' = false) :
    TransS s ph lk s' b ph' lk' := .old (T_addRRt h1 h2 hw h3 hb h4 h5)
theorem S_undo (h1 : ph = .rt) (h2 : lk = false) (h3 : s' = { s with r := s.r - 1 }) (hb : b = decide (s.r = 0)) (h4 : ph' = .idle) :
    TransS s ph lk s' b ph' lk' := .old (T_undo h1 h2 h3 hb h4)
theorem S_relR (h1 : ph = .holdR) (h2 : lk = false) (h3 : s' = { s with r := s.r - 1 }) (hb : b = decide (s.r = 0)) (h4 : ph' = .idle) :
    TransS s ph lk s' b ph' lk' := .old (T_relR h1 h2 h3 hb h4)
theorem S_upgCasOk (h1 : ph = .holdR) (h2 : lk = false) (hc : s.r = 1 ∨ s.p = false) (h3 : s' = { s with w := true, p := true }) (hb : b = false)
    (h4 : ph' = .upgWait) (h5 : lk' = false) : TransS s ph lk s' b ph' lk' := .old (T_upgCasOk h1 h2 hc h3 hb h4 h5)
theorem S_upgSee (h1 : ph = .upgWait) (h2 : lk = false) (hr : s.r = 1) (h3 : s' = s) (hb : b = false) (h4 : ph' = .upgReady) (h5 : lk' = false) :
    TransS s ph lk s' b ph' lk' := .old (T_upgSee h1 h2 hr h3 hb h4 h5)
theorem S_upgFin (h1 : ph = .upgReady) (h2 : lk = false) (h3 : s' = { s with r := s.r - 1, p := false }) (hb : b = (decide (s.r = 0) || !s.p)) (h4 : ph' = .holdW) :
    TransS s ph lk s' b ph' lk' := .old (T_upgFin h1 h2 h3 hb h4)
theorem S_downgr (h1 : ph = .holdW) (h2 : lk = false) (h3 : s' = { s with w := false, r := s.r + 1 }) (hb : b = !s.w) (h4 : ph' = .holdR) :
    TransS s ph lk s' b ph' lk' := .old (T_downgr h1 h2 h3 hb h4)
end wrappers

end TbbVerif.C08.Slp.Rw
