/- C08 — invariant of the rtm_rw_mutex model `Rtm` (Model/C08R.lean): the write_flag protocol of the real writers and the
read-set discipline of the transactions, over the proved invariant of the underlying spin_rw_mutex (`C08.Inv`). -/
import TbbVerif.Model.C08R
import TbbVerif.Proofs.C08

namespace TbbVerif.C08

/-! ### completed / continuing operations of the underlying spin_rw_mutex -/

/-- what a completed operation of the spin_rw_mutex leaves behind -/
def doneSpec (op : Op) (y y' : Th) : Prop :=
  match op with
  | .lock => y'.phase = .holdW
  | .tryLock => (y'.phase = .holdW ∧ y'.results.head? = some 1) ∨ (y'.phase = .idle ∧ y'.results.head? = some 0)
  | .unlock => y'.phase = .idle
  | .lockShared => y'.phase = .holdR
  | .tryLockShared => (y'.phase = .holdR ∧ y'.results.head? = some 1) ∨ (y'.phase = .idle ∧ y'.results.head? = some 0)
  | .unlockShared => y'.phase = .idle
  | .upgrade => y'.phase = .holdW
  | .downgrade => y'.phase = .holdR

theorem stepTh_done (s : Word) (y : Th) (op : Op) (hops : y.ops = [op]) (hwf : Wf y)
    (hpre : y.pc = .start → y.phase = op.pre) (hd : (stepTh s y).2.2.1.ops = []) :
    doneSpec op y (stepTh s y).2.2.1 ∧ (stepTh s y).2.2.1.pc = .start := by
  obtain ⟨w1, w2, w3, w4⟩ := hwf
  rw [hops] at w4
  have hg : ¬(y.pc = .start ∧ y.phase ≠ op.pre) := fun h => h.2 (hpre h.1)
  simp only [stepTh, hops, hg, ite_false, stepOp] at hd ⊢
  cases op <;> simp only [doneSpec, stepLock, lockBody, stepTryLock, stepUnlock, stepShared, stepUnlockShared, stepUpgrade, stepDowngrade] at hd ⊢
  all_goals grind [Th.done, WfOp, Op.pre]

theorem stepTh_cont (s : Word) (y : Th) (op : Op) (hops : y.ops = [op]) (hwf : Wf y)
    (hpre : y.pc = .start → y.phase = op.pre) (hd : (stepTh s y).2.2.1.ops ≠ []) :
    (stepTh s y).2.2.1.ops = [op] ∧ ((stepTh s y).2.2.1.pc = .start → (stepTh s y).2.2.1.phase = op.pre) := by
  obtain ⟨w1, w2, w3, w4⟩ := hwf
  rw [hops] at w4
  have hg : ¬(y.pc = .start ∧ y.phase ≠ op.pre) := fun h => h.2 (hpre h.1)
  simp only [stepTh, hops, hg, ite_false, stepOp] at hd ⊢
  cases op <;> simp only [stepLock, lockBody, stepTryLock, stepUnlock, stepShared, stepUnlockShared, stepUpgrade, stepDowngrade] at hd ⊢
  all_goals grind [Th.done, WfOp, Op.pre]

end TbbVerif.C08

namespace TbbVerif.C08

theorem stepTh_write (s : Word) (y : Th) (hs : (stepTh s y).1 ≠ s) : Rtm.isWrite (stepTh s y).2.2.2 = true := by
  revert hs
  simp only [stepTh]
  split
  · simp
  · split
    · simp
    · rename_i op _ _ _
      cases op <;> simp only [stepOp, stepLock, lockBody, stepTryLock, stepUnlock, stepShared, stepUnlockShared, stepUpgrade, stepDowngrade]
      all_goals (repeat' split) <;> simp_all [Rtm.isWrite]

/-- installing an operation into an idle inner thread keeps the spin_rw_mutex invariant -/
theorem inv_install (rw : St) (k : Nat) (y : Th) (op : Op) (h : Inv rw) (hy : rw.ths[k]? = some y) (ho : y.ops = []) (hp : y.pc = .start) :
    Inv { rw with ths := rw.ths.set k { y with ops := [op] } } := by
  have hl : isLocker y = false := by simp [isLocker, ho]
  have hwf := h.hwf k y hy
  have hwf' : Wf { y with ops := [op] } := by
    refine ⟨hwf.1, hwf.2.1, hwf.2.2.1, ?_⟩
    exact wfOp_start op _ hp
  have := inv_trans rw k y { y with ops := [op] } hy h rw.word rw.word false y.phase y.phase false (isLocker { y with ops := [op] })
    rfl rfl hl rfl rfl (Trans.silent _ _ _ _ (fun hh => by cases hh)) hwf'
  simpa using this

end TbbVerif.C08

namespace TbbVerif.C08.Rtm
open TbbVerif.C08 (Phase Inv Wf)

/-- the inner thread is idle in phase `ph`, no operation of the spin_rw_mutex installed -/
def Rest (y : C08.Th) (ph : Phase) : Prop := y.ops = [] ∧ y.pc = .start ∧ y.phase = ph

/-- the inner thread is about to start, or inside, operation `op` of the spin_rw_mutex -/
def InnerAt (y : C08.Th) (op : C08.Op) : Prop :=
  Rest y op.pre ∨ (y.ops = [op] ∧ (y.pc = .start → y.phase = op.pre))

def restPhase (h : Nat) : Phase := if h = 2 then .holdW else if h = 1 then .holdR else .idle

/-- relation between a thread of `Rtm` and its position inside the underlying spin_rw_mutex -/
def Rel (x : Th) (y : C08.Th) : Prop :=
  (x.fl = true → x.pc = .start ∧ x.held = 2) ∧ (x.held = 2 → x.fl = true) ∧
  (x.held = 0 ∨ x.held = 1 ∨ x.held = 2) ∧
  (x.intx = false → x.subF = false ∧ x.subW = false ∧ x.txm = 0) ∧
  (x.intx = true → x.held = 0 ∧ (x.pc = .start ∨ x.pc = .sTxLd)) ∧
  (x.held = 1 → x.pc = .start ∨ x.pc = .dgDown) ∧
  (x.txm = 1 → x.subF = true ∨ x.subW = true) ∧ (x.txm = 2 → x.subW = true) ∧ (x.txm = 0 ∨ x.txm = 1 ∨ x.txm = 2) ∧
  (match x.pc with
   | .start => Rest y (restPhase x.held) ∧ (x.intx = true → x.txm ≠ 0)
   | .sWait | .sBegin => Rest y .idle ∧ x.held = 0 ∧ x.intx = false
   | .sTxLd => Rest y .idle ∧ x.held = 0 ∧ x.intx = true ∧ x.txm = 0
   | .awLock => InnerAt y .lock ∧ x.held = 0 ∧ x.intx = false
   | .awFlag | .twFlag | .ugFlag => Rest y .holdW ∧ x.held = 0 ∧ x.intx = false
   | .arLock => InnerAt y .lockShared ∧ x.held = 0 ∧ x.intx = false
   | .twTry => InnerAt y .tryLock ∧ x.held = 0 ∧ x.intx = false
   | .trTry => InnerAt y .tryLockShared ∧ x.held = 0 ∧ x.intx = false
   | .rlUnlock => InnerAt y .unlock ∧ x.held = 0 ∧ x.intx = false
   | .rlShared => InnerAt y .unlockShared ∧ x.held = 0 ∧ x.intx = false
   | .ugUp => InnerAt y .upgrade ∧ x.held = 0 ∧ x.intx = false
   | .dgDown => InnerAt y .downgrade ∧ x.held = 1 ∧ x.intx = false)

structure RInv (st : St) : Prop where
  inner : Inv st.rw
  rel   : ∀ k y, st.rw.ths[k]? = some y → Rel (st.ths k) y
  flg   : ∀ k, (st.ths k).fl = true → st.wflag = true
  subf  : ∀ k, (st.ths k).intx = true → (st.ths k).subF = true → st.wflag = false
  subw  : ∀ k, (st.ths k).intx = true → (st.ths k).subW = true → st.rw.word.enc = 0
  out   : ∀ k, st.rw.ths.length ≤ k → (st.ths k).fl = false ∧ (st.ths k).intx = false ∧ (st.ths k).held = 0 ∧ (st.ths k).txm = 0

@[simp] theorem updF_same (f : Tid → Th) (k : Tid) (x : Th) : updF f k x k = x := by simp [updF]
theorem updF_ne (f : Tid → Th) {k i : Tid} (x : Th) (h : i ≠ k) : updF f k x i = f i := by simp [updF, h]

theorem abort_of_not_intx (x : Th) (h : x.intx = false) : x.abort = x := by simp [Th.abort, h]

/-- an aborted transaction leaves the thread at the start of its acquire call -/
theorem rel_abort (x : Th) (y : C08.Th) (h : Rel x y) : Rel x.abort y := by
  by_cases hi : x.intx = true
  · obtain ⟨h1, h2, h3, h4, h5, h6, _, _, _, h7⟩ := h
    have h5' := h5 hi
    have hfl : x.fl = false := by
      cases hf : x.fl with
      | false => rfl
      | true => have := (h1 hf).2; omega
    have hy : Rest y .idle := by
      rcases h5'.2 with hp | hp
      · rw [hp] at h7; simpa [restPhase, h5'.1] using h7.1
      · rw [hp] at h7; exact h7.1
    simp only [Th.abort, hi, ite_true]
    refine ⟨by simp [hfl], by simp [h5'.1], by simp [h5'.1], by simp, by simp, by simp [h5'.1], by simp, by simp, by simp, ?_⟩
    simp [restPhase, h5'.1, hy]
  · simp at hi; rw [abort_of_not_intx x hi]; exact h

theorem abort_fl (x : Th) : x.abort.fl = x.fl := by unfold Th.abort; split <;> rfl
theorem abort_intx (x : Th) : x.abort.intx = false := by unfold Th.abort; split <;> simp_all
theorem abort_held (x : Th) : x.abort.held = x.held := by unfold Th.abort; split <;> rfl

/-- assembling the invariant after a step of thread `k` that may have aborted other threads' transactions -/
theorem rinv_mk (st : St) (k : Nat) (h : RInv st) (rw' : C08.St) (ths' : Tid → Th) (wf' : Bool) (y' : C08.Th)
    (hinv : Inv rw') (hlen : rw'.ths.length = st.rw.ths.length) (hk : rw'.ths[k]? = some y')
    (hoth : ∀ j, j ≠ k → rw'.ths[j]? = st.rw.ths[j]?)
    (hrel : Rel (ths' k) y')
    (hths : ∀ j, j ≠ k → ths' j = st.ths j ∨ ths' j = (st.ths j).abort)
    (c1 : ∀ j, (ths' j).fl = true → wf' = true)
    (c2 : ∀ j, (ths' j).intx = true → (ths' j).subF = true → wf' = false)
    (c3 : ∀ j, (ths' j).intx = true → (ths' j).subW = true → rw'.word.enc = 0) :
    RInv { rw := rw', wflag := wf', ths := ths' } := by
  refine ⟨hinv, ?_, c1, c2, c3, ?_⟩
  · intro j y hy
    dsimp only at hy ⊢
    by_cases e : j = k
    · subst e; rw [hk] at hy; cases hy; exact hrel
    · rw [hoth j e] at hy
      rcases hths j e with hh | hh <;> rw [hh]
      · exact h.rel j y hy
      · exact rel_abort _ _ (h.rel j y hy)
  · intro j hj
    have hkl : k < rw'.ths.length := (List.getElem?_eq_some_iff.mp hk).1
    have e : j ≠ k := by dsimp only at hj; omega
    have := h.out j (by dsimp only at hj; omega)
    dsimp only
    rcases hths j e with hh | hh <;> rw [hh]
    · exact this
    · exact ⟨by rw [abort_fl]; exact this.1, abort_intx _, by rw [abort_held]; exact this.2.2.1, by rw [abort_of_not_intx _ this.2.1]; exact this.2.2.2⟩

theorem abortSubs_k (ths : Tid → Th) (k : Nat) (f : Bool) : abortSubs ths k f k = ths k := by simp [abortSubs]
theorem abortSubs_cases (ths : Tid → Th) (k j : Nat) (f : Bool) : abortSubs ths k f j = ths j ∨ abortSubs ths k f j = (ths j).abort := by
  by_cases hc : j ≠ k ∧ (if f then (ths j).subF else (ths j).subW) = true
  · exact Or.inr (by unfold abortSubs; rw [if_pos hc])
  · exact Or.inl (by unfold abortSubs; rw [if_neg hc])
/-- after `abortSubs` no other thread has an open transaction that subscribes to the written word -/
theorem abortSubs_sub (ths : Tid → Th) (k j : Nat) (f : Bool) (hj : j ≠ k) (hi : (abortSubs ths k f j).intx = true) :
    (if f then (abortSubs ths k f j).subF else (abortSubs ths k f j).subW) = false := by
  by_cases hc : j ≠ k ∧ (if f then (ths j).subF else (ths j).subW) = true
  · have e : abortSubs ths k f j = (ths j).abort := by unfold abortSubs; rw [if_pos hc]
    rw [e, abort_intx] at hi; cases hi
  · have e : abortSubs ths k f j = ths j := by unfold abortSubs; rw [if_neg hc]
    rw [e]
    have : ¬ (if f then (ths j).subF else (ths j).subW) = true := fun hh => hc ⟨hj, hh⟩
    simpa using this

theorem cnt_ge_two (l : List C08.Th) (i j : Nat) (yi yj : C08.Th) (hij : i ≠ j) (hi : l[i]? = some yi) (hj : l[j]? = some yj)
    (pi : yi.phase = .holdW) (pj : yj.phase = .holdW) : 2 ≤ C08.cnt .holdW l := by
  have c := C08.cnt_set .holdW l j yj { yj with phase := .idle } hj
  have hi' : (l.set j { yj with phase := .idle })[i]? = some yi := by
    rw [List.getElem?_set_ne (Ne.symm hij)]; exact hi
  have := C08.cnt_pos_of_mem .holdW _ i yi hi' pi
  simp [pj] at c
  omega

/-- at most one thread has raised write_flag: it owns the write lock of the underlying mutex -/
theorem fl_unique (st : St) (h : RInv st) (k j : Nat) (y : C08.Th) (hk : st.rw.ths[k]? = some y) (hp : y.phase = .holdW)
    (hjk : j ≠ k) : (st.ths j).fl = false := by
  cases hf : (st.ths j).fl with
  | false => rfl
  | true =>
    exfalso
    have hjl : j < st.rw.ths.length := by
      apply Classical.byContradiction; intro hc
      have := (h.out j (by omega)).1; rw [hf] at this; cases this
    have hyj : st.rw.ths[j]? = some st.rw.ths[j] := by simp [hjl]
    have r := h.rel j _ hyj
    have hpc := r.1 hf
    have r7 := r.2.2.2.2.2.2.2.2.2
    rw [hpc.1] at r7
    have hph : (st.rw.ths[j]).phase = .holdW := by simpa [restPhase, hpc.2] using r7.1.2.2
    have := cnt_ge_two st.rw.ths j k _ y hjk hyj hk hph hp
    have hw := h.inner.hw
    split at hw <;> omega

theorem rinv_local (st : St) (k : Nat) (h : RInv st) (x' : Th) (y : C08.Th) (hk : st.rw.ths[k]? = some y) (hrel : Rel x' y)
    (c1 : x'.fl = true → st.wflag = true) (c2 : x'.intx = true → x'.subF = true → st.wflag = false)
    (c3 : x'.intx = true → x'.subW = true → st.rw.word.enc = 0) : RInv (upd st k x') := by
  have := rinv_mk st k h st.rw (updF st.ths k x') st.wflag y h.inner rfl hk (fun _ _ => rfl) (by simpa using hrel)
    (fun j e => Or.inl (updF_ne _ _ e))
    (fun j => by by_cases e : j = k
                 · subst e; simpa using c1
                 · rw [updF_ne _ _ e]; exact h.flg j)
    (fun j => by by_cases e : j = k
                 · subst e; simpa using c2
                 · rw [updF_ne _ _ e]; exact h.subf j)
    (fun j => by by_cases e : j = k
                 · subst e; simpa using c3
                 · rw [updF_ne _ _ e]; exact h.subw j)
  exact this

/-- `write_flag.store(v)` by thread `k` (not in a transaction); storing `false` is done only by the thread that owns the write lock -/
theorem rinv_flag (st : St) (k : Nat) (h : RInv st) (x0 : Th) (v : Bool) (g : Th → Th) (y : C08.Th) (hk : st.rw.ths[k]? = some y)
    (hrel : Rel (g { x0 with fl := v }) y) (hfl : (g { x0 with fl := v }).fl = v) (hin : (g { x0 with fl := v }).intx = false)
    (huniq : v = false → y.phase = .holdW) : RInv (flagStore st k x0 v g).st := by
  simp only [flagStore]
  apply rinv_mk st k h st.rw _ v y h.inner rfl hk (fun _ _ => rfl)
  · rw [abortSubs_k]; simpa using hrel
  · intro j e
    rcases abortSubs_cases (updF st.ths k (g { x0 with fl := v })) k j true with hh | hh <;> rw [hh, updF_ne _ _ e]
    · exact Or.inl rfl
    · exact Or.inr rfl
  · intro j hf
    by_cases e : j = k
    · subst e; rw [abortSubs_k] at hf; simp at hf; rw [hfl] at hf; exact hf
    · have hflj : (st.ths j).fl = true := by
        rcases abortSubs_cases (updF st.ths k (g { x0 with fl := v })) k j true with hh | hh <;> rw [hh] at hf
        · rwa [updF_ne _ _ e] at hf
        · rw [abort_fl, updF_ne _ _ e] at hf; exact hf
      cases v with
      | true => rfl
      | false =>
        have := fl_unique st h k j y hk (huniq rfl) e
        rw [this] at hflj; cases hflj
  · intro j hi hs
    by_cases e : j = k
    · subst e; rw [abortSubs_k] at hi; simp at hi; rw [hin] at hi; cases hi
    · have := abortSubs_sub _ k j true e hi
      simp at this; rw [this] at hs; cases hs
  · intro j hi hs
    by_cases e : j = k
    · subst e; rw [abortSubs_k] at hi; simp at hi; rw [hin] at hi; cases hi
    · rcases abortSubs_cases (updF st.ths k (g { x0 with fl := v })) k j true with hh | hh <;> rw [hh] at hi hs
      · rw [updF_ne _ _ e] at hi hs; exact h.subw j hi hs
      · rw [abort_intx] at hi; cases hi

/-- one access of thread `k` (not in a transaction, flag not raised by it) inside operation `op` of the underlying spin_rw_mutex -/
theorem rinv_inner (st : St) (k : Nat) (h : RInv st) (x : Th) (op : C08.Op) (fin : List Nat → Th → Th) (y : C08.Th)
    (hk : st.rw.ths[k]? = some y) (hat : InnerAt y op) (hin : x.intx = false) (hfl : x.fl = false)
    (hcont : ∀ y' : C08.Th, y'.ops = [op] → (y'.pc = .start → y'.phase = op.pre) → Rel x y')
    (hdone : ∀ y' : C08.Th, y'.ops = [] → y'.pc = .start → C08.doneSpec op y y' →
        Rel (fin y'.results x) y' ∧ (fin y'.results x).intx = false ∧ (fin y'.results x).fl = false) :
    RInv (inner st k x op fin).st := by
  -- the inner thread with the operation installed
  let y0 : C08.Th := if y.ops = [] then { y with ops := [op] } else y
  have hy0ops : y0.ops = [op] := by
    rcases hat with hr | hr
    · simp [y0, hr.1]
    · have : y.ops ≠ [] := by rw [hr.1]; simp
      simp [y0, this, hr.1]
  have hy0pre : y0.pc = .start → y0.phase = op.pre := by
    rcases hat with hr | hr
    · intro _; simp [y0, hr.1, hr.2.2]
    · have : y.ops ≠ [] := by rw [hr.1]; simp
      simpa [y0, this] using hr.2
  let rw1 : C08.St := { st.rw with ths := st.rw.ths.set k y0 }
  have hinv1 : Inv rw1 := by
    rcases hat with hr | hr
    · have := C08.inv_install st.rw k y op h.inner hk hr.1 hr.2.1
      simpa [rw1, y0, hr.1] using this
    · have hne : y.ops ≠ [] := by rw [hr.1]; simp
      have e : st.rw.ths.set k y0 = st.rw.ths := by
        simp only [y0, hne, ite_false]
        apply List.ext_getElem?; intro i
        by_cases ei : i = k
        · subst ei
          have hil : i < st.rw.ths.length := (List.getElem?_eq_some_iff.mp hk).1
          rw [List.getElem?_set]; simp only [hil, ite_true, hk]
        · rw [List.getElem?_set_ne (Ne.symm ei)]
      simpa [rw1, e] using h.inner
  have hkl : k < st.rw.ths.length := (List.getElem?_eq_some_iff.mp hk).1
  have hget1 : rw1.ths[k]? = some y0 := by simp [rw1, hkl]
  have hwf0 : Wf y0 := hinv1.hwf k y0 hget1
  have hstep := C08.inv_step rw1 k hinv1
  have hstepeq : C08.step rw1 k =
      { word := (C08.stepTh st.rw.word y0).1, bad := st.rw.bad || (C08.stepTh st.rw.word y0).2.1,
        ths := st.rw.ths.set k (C08.stepTh st.rw.word y0).2.2.1 } := by
    simp only [C08.step, hget1]
    simp [rw1]
  rw [hstepeq] at hstep
  -- unfold the model step
  have hinner : (inner st k x op fin).st =
      { rw := { word := (C08.stepTh st.rw.word y0).1, bad := st.rw.bad || (C08.stepTh st.rw.word y0).2.1,
                ths := st.rw.ths.set k (C08.stepTh st.rw.word y0).2.2.1 },
        wflag := st.wflag,
        ths := if isWrite (C08.stepTh st.rw.word y0).2.2.2 then
                 abortSubs (updF st.ths k (if (C08.stepTh st.rw.word y0).2.2.1.ops = [] then fin (C08.stepTh st.rw.word y0).2.2.1.results x else x)) k false
               else updF st.ths k (if (C08.stepTh st.rw.word y0).2.2.1.ops = [] then fin (C08.stepTh st.rw.word y0).2.2.1.results x else x) } := by
    simp only [inner, hk]
    rfl
  rw [hinner]
  generalize hy' : (C08.stepTh st.rw.word y0).2.2.1 = y' at *
  generalize hs' : (C08.stepTh st.rw.word y0).1 = s' at *
  generalize hev : (C08.stepTh st.rw.word y0).2.2.2 = ev at *
  -- the stepping thread afterwards
  have hx' : Rel (if y'.ops = [] then fin y'.results x else x) y' ∧
      (if y'.ops = [] then fin y'.results x else x).intx = false ∧ (if y'.ops = [] then fin y'.results x else x).fl = false := by
    by_cases hd : y'.ops = []
    · have := C08.stepTh_done st.rw.word y0 op hy0ops hwf0 hy0pre (by rw [hy']; exact hd)
      rw [hy'] at this
      simp only [hd, ite_true]
      exact hdone y' hd this.2 (by cases op <;> simpa [C08.doneSpec] using this.1)
    · have := C08.stepTh_cont st.rw.word y0 op hy0ops hwf0 hy0pre (by rw [hy']; exact hd)
      rw [hy'] at this
      simp only [hd, ite_false]
      exact ⟨hcont y' this.1 this.2, hin, hfl⟩
  generalize hxx : (if y'.ops = [] then fin y'.results x else x) = x' at *
  have hword : isWrite ev = false → s' = st.rw.word := by
    intro hw
    apply Classical.byContradiction; intro hne
    have := C08.stepTh_write st.rw.word y0 (by rw [hs']; exact hne)
    rw [hev, hw] at this; cases this
  apply rinv_mk st k h _ _ st.wflag y' hstep (by simp) (by simp [hkl])
    (fun j e => by simp [List.getElem?_set_ne (Ne.symm e)])
  · split
    · rw [abortSubs_k]; simpa using hx'.1
    · simpa using hx'.1
  · intro j e
    split
    · rcases abortSubs_cases (updF st.ths k x') k j false with hh | hh <;> rw [hh, updF_ne _ _ e]
      · exact Or.inl rfl
      · exact Or.inr rfl
    · exact Or.inl (updF_ne _ _ e)
  · intro j hf
    by_cases e : j = k
    · subst e
      split at hf
      · rw [abortSubs_k] at hf; simp at hf; rw [hx'.2.2] at hf; cases hf
      · simp at hf; rw [hx'.2.2] at hf; cases hf
    · apply h.flg j
      split at hf
      · rcases abortSubs_cases (updF st.ths k x') k j false with hh | hh <;> rw [hh] at hf
        · rwa [updF_ne _ _ e] at hf
        · rwa [abort_fl, updF_ne _ _ e] at hf
      · rwa [updF_ne _ _ e] at hf
  · intro j hi hs
    by_cases e : j = k
    · subst e
      split at hi
      · rw [abortSubs_k] at hi; simp at hi; rw [hx'.2.1] at hi; cases hi
      · simp at hi; rw [hx'.2.1] at hi; cases hi
    · by_cases hw : isWrite ev = true
      · simp only [hw, ite_true] at hi hs
        rcases abortSubs_cases (updF st.ths k x') k j false with hh | hh <;> rw [hh] at hi hs
        · rw [updF_ne _ _ e] at hi hs; exact h.subf j hi hs
        · rw [abort_intx] at hi; cases hi
      · simp only [hw] at hi hs
        simp at hi hs
        rw [updF_ne _ _ e] at hi hs; exact h.subf j hi hs
  · intro j hi hs
    dsimp only
    by_cases e : j = k
    · subst e
      split at hi
      · rw [abortSubs_k] at hi; simp at hi; rw [hx'.2.1] at hi; cases hi
      · simp at hi; rw [hx'.2.1] at hi; cases hi
    · by_cases hw : isWrite ev = true
      · simp only [hw, ite_true] at hi hs
        have := abortSubs_sub _ k j false e hi
        simp at this; rw [this] at hs; cases hs
      · simp only [hw] at hi hs
        simp at hi hs
        rw [updF_ne _ _ e] at hi hs
        rw [hword (by simpa using hw)]
        exact h.subw j hi hs

theorem rinv_misuse (st : St) (k : Nat) (h : RInv st) (y : C08.Th) (hk : st.rw.ths[k]? = some y) (hpc : (st.ths k).pc = .start) :
    RInv (misuse st k (st.ths k)).st := by
  have r := h.rel k y hk
  apply rinv_local st k h _ y hk
  · simp only [Rel, hpc] at r ⊢; exact r
  · exact h.flg k
  · exact h.subf k
  · exact h.subw k

theorem rinv_doWait (st : St) (k : Nat) (h : RInv st) (x : Th) (y : C08.Th) (hk : st.rw.ths[k]? = some y)
    (hy : Rest y .idle) (h0 : x.held = 0) (hin : x.intx = false) (hfl : x.fl = false)
    (hs : x.subF = false ∧ x.subW = false ∧ x.txm = 0) : RInv (doWait st k x).st := by
  simp only [doWait]
  apply rinv_local st k h _ y hk
  · split
    · split
      · split <;> simp [Rel, h0, hin, hfl, hs, InnerAt, hy, C08.Op.pre]
      · simp [Rel, h0, hin, hfl, hs, hy]
    · simp [Rel, h0, hin, hfl, hs, hy]
  all_goals (repeat' split) <;> simp [hin, hfl]

macro "relt" : tactic => `(tactic| (simp only [Rel, Rest, InnerAt, restPhase, Th.done, Th.abort, C08.Op.pre, finTryW, finTryR, C08.doneSpec, guardWord] at *; first | done | grind | grind (splits := 14)))

set_option maxHeartbeats 800000 in
theorem rinv_stepTh (st : St) (k : Nat) (h : RInv st) (y : C08.Th) (hk : st.rw.ths[k]? = some y) :
    RInv (stepTh st k (st.ths k)).st := by
  have r := h.rel k y hk
  have hflg := h.flg k
  have hsubf := h.subf k
  have hsubw := h.subw k
  unfold stepTh
  split
  · -- start
    rename_i hpc
    split
    · exact h
    · -- acquire w (n+1)
      split
      · exact rinv_misuse st k h y hk hpc
      · apply rinv_doWait st k h _ y hk <;> relt
    · -- tryAcquire w (n+1)
      split
      · exact rinv_misuse st k h y hk hpc
      · apply rinv_doWait st k h _ y hk <;> relt
    · -- acquire true 0
      split
      · exact rinv_misuse st k h y hk hpc
      · apply rinv_inner st k h _ .lock _ y hk <;> relt
    · -- acquire false 0
      split
      · exact rinv_misuse st k h y hk hpc
      · apply rinv_inner st k h _ .lockShared _ y hk <;> relt
    · -- tryAcquire true 0
      split
      · exact rinv_misuse st k h y hk hpc
      · apply rinv_inner st k h _ .tryLock _ y hk <;> relt
    · -- tryAcquire false 0
      split
      · exact rinv_misuse st k h y hk hpc
      · apply rinv_inner st k h _ .tryLockShared _ y hk <;> relt
    · -- release
      split
      · apply rinv_flag st k h _ false _ y hk <;> relt
      · split
        · apply rinv_inner st k h _ .unlockShared _ y hk <;> relt
        · split
          · apply rinv_local st k h _ y hk <;> relt
          · exact rinv_misuse st k h y hk hpc
    · -- upgrade
      split
      · apply rinv_inner st k h _ .upgrade _ y hk <;> relt
      · split
        · split
          · apply rinv_local st k h _ y hk <;> relt
          · apply rinv_local st k h _ y hk <;> relt
        · exact rinv_misuse st k h y hk hpc
    · -- downgrade
      split
      · apply rinv_flag st k h _ false _ y hk <;> relt
      · split
        · apply rinv_local st k h _ y hk <;> relt
        · exact rinv_misuse st k h y hk hpc
  · -- sWait
    rename_i hpc
    apply rinv_doWait st k h _ y hk <;> relt
  · -- sBegin
    rename_i hpc
    apply rinv_local st k h _ y hk <;> relt
  · -- sTxLd
    rename_i hpc
    split
    · apply rinv_local st k h _ y hk
      · exact rel_abort _ _ r
      · rw [abort_fl]; exact hflg
      · rw [abort_intx]; intro hh; cases hh
      · rw [abort_intx]; intro hh; cases hh
    · apply rinv_local st k h _ y hk <;> relt
  · -- awLock
    rename_i hpc
    apply rinv_inner st k h _ .lock _ y hk <;> relt
  · -- awFlag
    rename_i hpc
    apply rinv_flag st k h _ true _ y hk <;> relt
  · -- arLock
    rename_i hpc
    apply rinv_inner st k h _ .lockShared _ y hk <;> relt
  · -- twTry
    rename_i hpc
    apply rinv_inner st k h _ .tryLock _ y hk <;> relt
  · -- twFlag
    rename_i hpc
    apply rinv_flag st k h _ true _ y hk <;> relt
  · -- trTry
    rename_i hpc
    apply rinv_inner st k h _ .tryLockShared _ y hk <;> relt
  · -- rlUnlock
    rename_i hpc
    apply rinv_inner st k h _ .unlock _ y hk <;> relt
  · -- rlShared
    rename_i hpc
    apply rinv_inner st k h _ .unlockShared _ y hk <;> relt
  · -- ugUp
    rename_i hpc
    apply rinv_inner st k h _ .upgrade _ y hk <;> relt
  · -- ugFlag
    rename_i hpc
    apply rinv_flag st k h _ true _ y hk <;> relt
  · -- dgDown
    rename_i hpc
    apply rinv_inner st k h _ .downgrade _ y hk <;> relt


theorem rinv_step (st : St) (e : Nat) (h : RInv st) : RInv (step st e) := by
  unfold step stepOut
  split
  · rename_i hlt
    have hk : st.rw.ths[e / 2]? = some st.rw.ths[e / 2] := by simp [hlt]
    split
    · exact rinv_stepTh st (e / 2) h _ hk
    · -- spontaneous abort of the transaction of thread e / 2
      apply rinv_local st (e / 2) h _ _ hk
      · exact rel_abort _ _ (h.rel _ _ hk)
      · rw [abort_fl]; exact h.flg _
      · rw [abort_intx]; intro hh; cases hh
      · rw [abort_intx]; intro hh; cases hh
  · exact h

theorem rinv_init (progs : List (List Op)) : RInv (init progs) := by
  have hinner : Inv (init progs).rw := by
    have := C08.inv_init (progs.map (fun _ => ([] : List C08.Op)))
    simpa [init, C08.sys, List.map_map, Function.comp_def] using this
  refine ⟨hinner, ?_, ?_, ?_, ?_, ?_⟩
  · intro k y hy
    simp [init, List.getElem?_map] at hy
    obtain ⟨_, _, rfl⟩ := hy
    simp [init, Rel, Rest, restPhase]
  all_goals simp [init]

theorem rinv_reachable (progs : List (List Op)) (sched : List Nat) : RInv ((sys progs).run sched) :=
  Sys.inv_run (sys progs) RInv (rinv_init progs) (fun s t h => rinv_step s t h) sched

/-- a thread that holds the lock for real owns the corresponding unit of the underlying spin_rw_mutex: the word is not 0 -/
theorem word_ne_zero_of_held (st : St) (h : RInv st) (k : Nat) (hh : (st.ths k).held ≠ 0) : st.rw.word.enc ≠ 0 := by
  have hkl : k < st.rw.ths.length := by
    apply Classical.byContradiction; intro hc
    exact hh (h.out k (by omega)).2.2.1
  have hk : st.rw.ths[k]? = some st.rw.ths[k] := by simp [hkl]
  have r := h.rel k _ hk
  have hwf := h.inner.hwf k _ hk
  generalize st.rw.ths[k] = y at hk r hwf
  have hph : y.phase = .holdW ∨ y.phase = .holdR := by
    obtain ⟨r1, r2, r3, r4, r5, r6, _, _, _, r7⟩ := r
    rcases r3 with h0 | h1 | h2
    · exact absurd h0 hh
    · rcases r6 h1 with hp | hp
      · rw [hp] at r7; right; simpa [restPhase, h1] using r7.1.2.2
      · rw [hp] at r7
        rcases r7.1 with hr | hr
        · left; simpa [C08.Op.pre] using hr.2.2
        · left
          have hw4 := hwf.2.2.2
          rw [hr.1] at hw4
          simp only [C08.WfOp] at hw4
          simpa [C08.Op.pre] using hr.2 hw4
    · have := r1 (r2 h2)
      rw [this.1] at r7; left; simpa [restPhase, h2] using r7.1.2.2
  have hr := h.inner.hr
  have hw := h.inner.hw
  rcases hph with hp | hp
  · have := C08.cnt_pos_of_mem .holdW st.rw.ths k y hk hp
    have hw1 : st.rw.word.w = true := by
      cases hws : st.rw.word.w with
      | true => rfl
      | false => rw [hws] at hw; simp at hw; omega
    simp [C08.Word.enc, hw1]
  · have := C08.cnt_pos_of_mem .holdR st.rw.ths k y hk hp
    have : 0 < st.rw.word.r := by omega
    simp only [C08.Word.enc]; omega

end TbbVerif.C08.Rtm
