/-
C04 proofs — structural invariants (walked): preservation by `exec` and `begin`.
-/
import TbbVerif.Proofs.C04.ReachLemmas2

namespace TbbVerif.C04
variable {cfg : Cfg} {reg : List Nat} {s : St} {t : Nat}

set_option maxHeartbeats 1600000 in
theorem walked_exec_c (hS : Struct reg s) (hO : Orig s) (hR : Reach reg s) :
    ∀ t' a i pend L z, ((execCancel C reg s t).pc t').pending = some (a, i, pend) → reg[i]? = some L → z ∈ (execCancel C reg s t).items L → z ∈ pend ∨ (Anc (execCancel C reg s t).par z a → (execCancel C reg s t).can z = true) := by
  have g0 := hR.walked
  have g0t := hR.walked t
  have g1 := hR.painting
  have g1t := hR.painting t
  have g2 := hR.noResetPc
  have g2t := hR.noResetPc t
  have g3 := hR.copyTrue
  have g3t := hR.copyTrue t
  have g4 := hS.lmxWalk
  have g4t := hS.lmxWalk t
  have g5 := hS.lmxBind
  have g5t := hS.lmxBind t
  have g6 := hS.createdPar
  have g7 := hS.parDone
  have g8 := hS.itemsOk
  have g8t := hS.itemsOk t
  unfold execCancel
  try unfold walkNext
  try unfold afterHint
  try simp only [C_propHolds, C_copyNeverClears, afterLists, ↓reduceIte, Bool.true_and]
  repeat' split
  all_goals (try rw [‹s.pc t = _›] at g0t)
  all_goals (try simp [Pc.pending, Pc.pending_walk, Pc.walkIdx, Pc.copyVal, chain_none_not_anc, chain_some_head, anc_irrefl_s, anc_cas_back, ne_of_registered_created, List.mem_cons, List.mem_of_mem_erase] at g0t)
  all_goals (try rw [‹s.pc t = _›] at g1t)
  all_goals (try simp [Pc.pending, Pc.pending_walk, Pc.walkIdx, Pc.copyVal, chain_none_not_anc, chain_some_head, anc_irrefl_s, anc_cas_back, ne_of_registered_created, List.mem_cons, List.mem_of_mem_erase] at g1t)
  all_goals (try rw [‹s.pc t = _›] at g2t)
  all_goals (try simp [Pc.pending, Pc.pending_walk, Pc.walkIdx, Pc.copyVal, chain_none_not_anc, chain_some_head, anc_irrefl_s, anc_cas_back, ne_of_registered_created, List.mem_cons, List.mem_of_mem_erase] at g2t)
  all_goals (try rw [‹s.pc t = _›] at g3t)
  all_goals (try simp [Pc.pending, Pc.pending_walk, Pc.walkIdx, Pc.copyVal, chain_none_not_anc, chain_some_head, anc_irrefl_s, anc_cas_back, ne_of_registered_created, List.mem_cons, List.mem_of_mem_erase] at g3t)
  all_goals (try rw [‹s.pc t = _›] at g4t)
  all_goals (try simp [Pc.pending, Pc.pending_walk, Pc.walkIdx, Pc.copyVal, chain_none_not_anc, chain_some_head, anc_irrefl_s, anc_cas_back, ne_of_registered_created, List.mem_cons, List.mem_of_mem_erase] at g4t)
  all_goals (try rw [‹s.pc t = _›] at g5t)
  all_goals (try simp [Pc.pending, Pc.pending_walk, Pc.walkIdx, Pc.copyVal, chain_none_not_anc, chain_some_head, anc_irrefl_s, anc_cas_back, ne_of_registered_created, List.mem_cons, List.mem_of_mem_erase] at g5t)
  all_goals (try rw [‹s.pc t = _›] at g8t)
  all_goals (try simp [Pc.pending, Pc.pending_walk, Pc.walkIdx, Pc.copyVal, chain_none_not_anc, chain_some_head, anc_irrefl_s, anc_cas_back, ne_of_registered_created, List.mem_cons, List.mem_of_mem_erase] at g8t)
  all_goals (have gw := fun t' a i pend (h : (s.pc t').pending = some (a, i, pend)) => (Pc.pending_walk h).1)
  all_goals (intro t' a i pend L z h1 h2 h3; by_cases ht : t' = t <;> first | (subst ht; try simp [C, upd_apply, afterLists, nextList, Pc.pending, Pc.pending_walk, Pc.walkIdx, Pc.copyVal, chain_none_not_anc, chain_some_head, anc_irrefl_s, anc_cas_back, ne_of_registered_created, List.mem_cons, List.mem_of_mem_erase] at h1 h2 h3 ⊢) | (try simp [ht, C, upd_apply, afterLists, nextList] at h1 h2 h3 ⊢))
  all_goals grind [Pc.pending, Pc.pending_walk, Pc.walkIdx, Pc.copyVal, chain_none_not_anc, chain_some_head, anc_irrefl_s, anc_cas_back, ne_of_registered_created, List.mem_cons, List.mem_of_mem_erase]

set_option maxHeartbeats 1600000 in
theorem walked_exec_b (hS : Struct reg s) (hO : Orig s) (hR : Reach reg s) :
    ∀ t' a i pend L z, ((execBind C s t).pc t').pending = some (a, i, pend) → reg[i]? = some L → z ∈ (execBind C s t).items L → z ∈ pend ∨ (Anc (execBind C s t).par z a → (execBind C s t).can z = true) := by
  have g0 := hR.walked
  have g0t := hR.walked t
  have g1 := hR.painting
  have g1t := hR.painting t
  have g2 := hR.noResetPc
  have g2t := hR.noResetPc t
  have g3 := hR.copyTrue
  have g3t := hR.copyTrue t
  have g4 := hS.lmxWalk
  have g4t := hS.lmxWalk t
  have g5 := hS.lmxBind
  have g5t := hS.lmxBind t
  have g6 := hS.createdPar
  have g7 := hS.parDone
  have g8 := hS.itemsOk
  have g8t := hS.itemsOk t
  unfold execBind
  try unfold walkNext
  try unfold afterHint
  try simp only [C_propHolds, C_copyNeverClears, afterLists, ↓reduceIte, Bool.true_and]
  repeat' split
  all_goals (try rw [‹s.pc t = _›] at g0t)
  all_goals (try simp [Pc.pending, Pc.pending_walk, Pc.walkIdx, Pc.copyVal, chain_none_not_anc, chain_some_head, anc_irrefl_s, anc_cas_back, ne_of_registered_created, List.mem_cons, List.mem_of_mem_erase] at g0t)
  all_goals (try rw [‹s.pc t = _›] at g1t)
  all_goals (try simp [Pc.pending, Pc.pending_walk, Pc.walkIdx, Pc.copyVal, chain_none_not_anc, chain_some_head, anc_irrefl_s, anc_cas_back, ne_of_registered_created, List.mem_cons, List.mem_of_mem_erase] at g1t)
  all_goals (try rw [‹s.pc t = _›] at g2t)
  all_goals (try simp [Pc.pending, Pc.pending_walk, Pc.walkIdx, Pc.copyVal, chain_none_not_anc, chain_some_head, anc_irrefl_s, anc_cas_back, ne_of_registered_created, List.mem_cons, List.mem_of_mem_erase] at g2t)
  all_goals (try rw [‹s.pc t = _›] at g3t)
  all_goals (try simp [Pc.pending, Pc.pending_walk, Pc.walkIdx, Pc.copyVal, chain_none_not_anc, chain_some_head, anc_irrefl_s, anc_cas_back, ne_of_registered_created, List.mem_cons, List.mem_of_mem_erase] at g3t)
  all_goals (try rw [‹s.pc t = _›] at g4t)
  all_goals (try simp [Pc.pending, Pc.pending_walk, Pc.walkIdx, Pc.copyVal, chain_none_not_anc, chain_some_head, anc_irrefl_s, anc_cas_back, ne_of_registered_created, List.mem_cons, List.mem_of_mem_erase] at g4t)
  all_goals (try rw [‹s.pc t = _›] at g5t)
  all_goals (try simp [Pc.pending, Pc.pending_walk, Pc.walkIdx, Pc.copyVal, chain_none_not_anc, chain_some_head, anc_irrefl_s, anc_cas_back, ne_of_registered_created, List.mem_cons, List.mem_of_mem_erase] at g5t)
  all_goals (try rw [‹s.pc t = _›] at g8t)
  all_goals (try simp [Pc.pending, Pc.pending_walk, Pc.walkIdx, Pc.copyVal, chain_none_not_anc, chain_some_head, anc_irrefl_s, anc_cas_back, ne_of_registered_created, List.mem_cons, List.mem_of_mem_erase] at g8t)
  all_goals (have gw := fun t' a i pend (h : (s.pc t').pending = some (a, i, pend)) => (Pc.pending_walk h).1)
  all_goals (intro t' a i pend L z h1 h2 h3; by_cases ht : t' = t <;> first | (subst ht; try simp [C, upd_apply, afterLists, nextList, Pc.pending, Pc.pending_walk, Pc.walkIdx, Pc.copyVal, chain_none_not_anc, chain_some_head, anc_irrefl_s, anc_cas_back, ne_of_registered_created, List.mem_cons, List.mem_of_mem_erase] at h1 h2 h3 ⊢) | (try simp [ht, C, upd_apply, afterLists, nextList] at h1 h2 h3 ⊢))
  all_goals grind [Pc.pending, Pc.pending_walk, Pc.walkIdx, Pc.copyVal, chain_none_not_anc, chain_some_head, anc_irrefl_s, anc_cas_back, ne_of_registered_created, List.mem_cons, List.mem_of_mem_erase]

set_option maxHeartbeats 1600000 in
theorem walked_exec_o (hS : Struct reg s) (hO : Orig s) (hR : Reach reg s) :
    ∀ t' a i pend L z, ((execOther s t).pc t').pending = some (a, i, pend) → reg[i]? = some L → z ∈ (execOther s t).items L → z ∈ pend ∨ (Anc (execOther s t).par z a → (execOther s t).can z = true) := by
  have g0 := hR.walked
  have g0t := hR.walked t
  have g1 := hR.painting
  have g1t := hR.painting t
  have g2 := hR.noResetPc
  have g2t := hR.noResetPc t
  have g3 := hR.copyTrue
  have g3t := hR.copyTrue t
  have g4 := hS.lmxWalk
  have g4t := hS.lmxWalk t
  have g5 := hS.lmxBind
  have g5t := hS.lmxBind t
  have g6 := hS.createdPar
  have g7 := hS.parDone
  have g8 := hS.itemsOk
  have g8t := hS.itemsOk t
  unfold execOther
  try unfold walkNext
  try unfold afterHint
  try simp only [C_propHolds, C_copyNeverClears, afterLists, ↓reduceIte, Bool.true_and]
  repeat' split
  all_goals (try rw [‹s.pc t = _›] at g0t)
  all_goals (try simp [Pc.pending, Pc.pending_walk, Pc.walkIdx, Pc.copyVal, chain_none_not_anc, chain_some_head, anc_irrefl_s, anc_cas_back, ne_of_registered_created, List.mem_cons, List.mem_of_mem_erase] at g0t)
  all_goals (try rw [‹s.pc t = _›] at g1t)
  all_goals (try simp [Pc.pending, Pc.pending_walk, Pc.walkIdx, Pc.copyVal, chain_none_not_anc, chain_some_head, anc_irrefl_s, anc_cas_back, ne_of_registered_created, List.mem_cons, List.mem_of_mem_erase] at g1t)
  all_goals (try rw [‹s.pc t = _›] at g2t)
  all_goals (try simp [Pc.pending, Pc.pending_walk, Pc.walkIdx, Pc.copyVal, chain_none_not_anc, chain_some_head, anc_irrefl_s, anc_cas_back, ne_of_registered_created, List.mem_cons, List.mem_of_mem_erase] at g2t)
  all_goals (try rw [‹s.pc t = _›] at g3t)
  all_goals (try simp [Pc.pending, Pc.pending_walk, Pc.walkIdx, Pc.copyVal, chain_none_not_anc, chain_some_head, anc_irrefl_s, anc_cas_back, ne_of_registered_created, List.mem_cons, List.mem_of_mem_erase] at g3t)
  all_goals (try rw [‹s.pc t = _›] at g4t)
  all_goals (try simp [Pc.pending, Pc.pending_walk, Pc.walkIdx, Pc.copyVal, chain_none_not_anc, chain_some_head, anc_irrefl_s, anc_cas_back, ne_of_registered_created, List.mem_cons, List.mem_of_mem_erase] at g4t)
  all_goals (try rw [‹s.pc t = _›] at g5t)
  all_goals (try simp [Pc.pending, Pc.pending_walk, Pc.walkIdx, Pc.copyVal, chain_none_not_anc, chain_some_head, anc_irrefl_s, anc_cas_back, ne_of_registered_created, List.mem_cons, List.mem_of_mem_erase] at g5t)
  all_goals (try rw [‹s.pc t = _›] at g8t)
  all_goals (try simp [Pc.pending, Pc.pending_walk, Pc.walkIdx, Pc.copyVal, chain_none_not_anc, chain_some_head, anc_irrefl_s, anc_cas_back, ne_of_registered_created, List.mem_cons, List.mem_of_mem_erase] at g8t)
  all_goals (have gw := fun t' a i pend (h : (s.pc t').pending = some (a, i, pend)) => (Pc.pending_walk h).1)
  all_goals (intro t' a i pend L z h1 h2 h3; by_cases ht : t' = t <;> first | (subst ht; try simp [C, upd_apply, afterLists, nextList, Pc.pending, Pc.pending_walk, Pc.walkIdx, Pc.copyVal, chain_none_not_anc, chain_some_head, anc_irrefl_s, anc_cas_back, ne_of_registered_created, List.mem_cons, List.mem_of_mem_erase] at h1 h2 h3 ⊢) | (try simp [ht, C, upd_apply, afterLists, nextList] at h1 h2 h3 ⊢))
  all_goals grind [Pc.pending, Pc.pending_walk, Pc.walkIdx, Pc.copyVal, chain_none_not_anc, chain_some_head, anc_irrefl_s, anc_cas_back, ne_of_registered_created, List.mem_cons, List.mem_of_mem_erase]

theorem walked_exec (hS : Struct reg s) (hO : Orig s) (hR : Reach reg s) :
    ∀ t' a i pend L z, ((exec C reg s t).pc t').pending = some (a, i, pend) → reg[i]? = some L → z ∈ (exec C reg s t).items L → z ∈ pend ∨ (Anc (exec C reg s t).par z a → (exec C reg s t).can z = true) := by
  unfold exec
  split
  · exact walked_exec_c hS hO hR
  · split
    · exact walked_exec_b hS hO hR
    · exact walked_exec_o hS hO hR

set_option maxHeartbeats 1600000 in
theorem walked_begin (hS : Struct reg s) (hO : Orig s) (hR : Reach reg s) (hi : s.pc t = .idle) :
    ∀ t' a i pend L z, ((begin reg s t).pc t').pending = some (a, i, pend) → reg[i]? = some L → z ∈ (begin reg s t).items L → z ∈ pend ∨ (Anc (begin reg s t).par z a → (begin reg s t).can z = true) := by
  have g0 := hR.walked
  have g0t := hR.walked t
  have g1 := hR.painting
  have g1t := hR.painting t
  have g2 := hR.noResetPc
  have g2t := hR.noResetPc t
  have g3 := hR.copyTrue
  have g3t := hR.copyTrue t
  have g4 := hS.lmxWalk
  have g4t := hS.lmxWalk t
  have g5 := hS.lmxBind
  have g5t := hS.lmxBind t
  have g6 := hS.createdPar
  have g7 := hS.parDone
  have g8 := hS.itemsOk
  have g8t := hS.itemsOk t
  begin_cases
  all_goals (try rw [hi] at g0t)
  all_goals (try simp [Pc.pending, Pc.pending_walk, Pc.walkIdx, Pc.copyVal, chain_none_not_anc, chain_some_head, anc_irrefl_s, anc_cas_back, ne_of_registered_created, List.mem_cons, List.mem_of_mem_erase] at g0t)
  all_goals (try rw [hi] at g1t)
  all_goals (try simp [Pc.pending, Pc.pending_walk, Pc.walkIdx, Pc.copyVal, chain_none_not_anc, chain_some_head, anc_irrefl_s, anc_cas_back, ne_of_registered_created, List.mem_cons, List.mem_of_mem_erase] at g1t)
  all_goals (try rw [hi] at g2t)
  all_goals (try simp [Pc.pending, Pc.pending_walk, Pc.walkIdx, Pc.copyVal, chain_none_not_anc, chain_some_head, anc_irrefl_s, anc_cas_back, ne_of_registered_created, List.mem_cons, List.mem_of_mem_erase] at g2t)
  all_goals (try rw [hi] at g3t)
  all_goals (try simp [Pc.pending, Pc.pending_walk, Pc.walkIdx, Pc.copyVal, chain_none_not_anc, chain_some_head, anc_irrefl_s, anc_cas_back, ne_of_registered_created, List.mem_cons, List.mem_of_mem_erase] at g3t)
  all_goals (try rw [hi] at g4t)
  all_goals (try simp [Pc.pending, Pc.pending_walk, Pc.walkIdx, Pc.copyVal, chain_none_not_anc, chain_some_head, anc_irrefl_s, anc_cas_back, ne_of_registered_created, List.mem_cons, List.mem_of_mem_erase] at g4t)
  all_goals (try rw [hi] at g5t)
  all_goals (try simp [Pc.pending, Pc.pending_walk, Pc.walkIdx, Pc.copyVal, chain_none_not_anc, chain_some_head, anc_irrefl_s, anc_cas_back, ne_of_registered_created, List.mem_cons, List.mem_of_mem_erase] at g5t)
  all_goals (try rw [hi] at g8t)
  all_goals (try simp [Pc.pending, Pc.pending_walk, Pc.walkIdx, Pc.copyVal, chain_none_not_anc, chain_some_head, anc_irrefl_s, anc_cas_back, ne_of_registered_created, List.mem_cons, List.mem_of_mem_erase] at g8t)
  all_goals (intro t' a i pend L z h1 h2 h3; by_cases ht : t' = t <;> first | (subst ht; try simp [C, upd_apply, afterLists, nextList, Pc.pending, Pc.pending_walk, Pc.walkIdx, Pc.copyVal, chain_none_not_anc, chain_some_head, anc_irrefl_s, anc_cas_back, ne_of_registered_created, List.mem_cons, List.mem_of_mem_erase] at h1 h2 h3 ⊢) | (try simp [ht, C, upd_apply, afterLists, nextList] at h1 h2 h3 ⊢))
  all_goals grind [Pc.pending, Pc.pending_walk, Pc.walkIdx, Pc.copyVal, chain_none_not_anc, chain_some_head, anc_irrefl_s, anc_cas_back, ne_of_registered_created, List.mem_cons, List.mem_of_mem_erase]

end TbbVerif.C04
