/-
C04 proofs — structural invariants (spec, fbDone): preservation by `exec` and `begin`.
-/
import TbbVerif.Proofs.C04.ReachE

namespace TbbVerif.C04
variable {cfg : Cfg} {r : List RF} {reg : List Nat} {s : St} {t : Nat}

set_option maxHeartbeats 1600000 in
theorem spec_exec_c (hS : Struct reg s) (hO : Orig s) (hH : Hint s) (hR : Reach reg s) :
    ∀ t' x n a m, ((execCancel (C r) reg s t).pc t').afterSpec = some (x, n) → Passed (execCancel (C r) reg s t).skipSt (execCancel (C r) reg s t).srcOf (execCancel (C r) reg s t).pst n a m → Cur (execCancel (C r) reg s t).wst (execCancel (C r) reg s t).rst a m → Anc (execCancel (C r) reg s t).par x a → Vf (execCancel (C r) reg s t).par (execCancel (C r) reg s t).can (execCancel (C r) reg s t).rst (execCancel (C r) reg s t).oc m a x := by
  have g0 := hR.spec
  have g0t := hR.spec t
  have g1 := hR.copyTrue
  have g1t := hR.copyTrue t
  have g2 := hR.snapLe
  have g2t := hR.snapLe t
  have g3 := hR.wstLe
  have l0 := @snap_le_of_afterSpec reg s hR
  have l1 := @spec_establish reg s hS hR
  have l2 := @no_anc_afterSpec reg s hS hH
  have l3 := @locked_afterSpec reg s hS
  have l4 := @anc_cas_back reg s hS
  have l5 := @passed_le_s reg s hR
  have l6 := @cur_le_s reg s hR
  have l7 := @vf_cas reg s hS
  unfold execCancel
  try unfold walkNext
  try unfold afterHint
  try unfold applyReset
  try simp only [C_propHolds, C_copyNeverClears, afterLists, ↓reduceIte, Bool.true_and]
  repeat' split
  all_goals (try rw [‹s.pc t = _›] at g0t)
  all_goals (try simp [Pc.afterSpec, Pc.copyVal, Pc.snapVal] at g0t)
  all_goals (try rw [‹s.pc t = _›] at g1t)
  all_goals (try simp [Pc.afterSpec, Pc.copyVal, Pc.snapVal] at g1t)
  all_goals (try rw [‹s.pc t = _›] at g2t)
  all_goals (try simp [Pc.afterSpec, Pc.copyVal, Pc.snapVal] at g2t)
  all_goals (intro t' x n a m h1 h2 h3 h4; by_cases ht : t' = t <;> first | (subst ht; try simp [C, St.eff, upd_apply, afterLists, nextList, Pc.afterSpec, Pc.copyVal, Pc.snapVal] at h1 h2 h3 h4 ⊢) | (try simp [ht, C, St.eff, upd_apply, afterLists, nextList] at h1 h2 h3 h4 ⊢))
  all_goals grind [Pc.afterSpec, Pc.copyVal, Pc.snapVal , → Pc.afterSpec_owner, → passed_below_bump, → passed_upd_skip_back, → ne_of_locked_created, → cur_upd_wst, → cur_upd_rst, vf_upd_true, vf_upd_true_self, vf_reset, vf_exit]

set_option maxHeartbeats 1600000 in
theorem spec_exec_b (hS : Struct reg s) (hO : Orig s) (hH : Hint s) (hR : Reach reg s) :
    ∀ t' x n a m, ((execBind (C r) s t).pc t').afterSpec = some (x, n) → Passed (execBind (C r) s t).skipSt (execBind (C r) s t).srcOf (execBind (C r) s t).pst n a m → Cur (execBind (C r) s t).wst (execBind (C r) s t).rst a m → Anc (execBind (C r) s t).par x a → Vf (execBind (C r) s t).par (execBind (C r) s t).can (execBind (C r) s t).rst (execBind (C r) s t).oc m a x := by
  have g0 := hR.spec
  have g0t := hR.spec t
  have g1 := hR.copyTrue
  have g1t := hR.copyTrue t
  have g2 := hR.snapLe
  have g2t := hR.snapLe t
  have g3 := hR.wstLe
  have l0 := @snap_le_of_afterSpec reg s hR
  have l1 := @spec_establish reg s hS hR
  have l2 := @no_anc_afterSpec reg s hS hH
  have l3 := @locked_afterSpec reg s hS
  have l4 := @anc_cas_back reg s hS
  have l5 := @passed_le_s reg s hR
  have l6 := @cur_le_s reg s hR
  have l7 := @vf_cas reg s hS
  unfold execBind
  try unfold walkNext
  try unfold afterHint
  try unfold applyReset
  try simp only [C_propHolds, C_copyNeverClears, afterLists, ↓reduceIte, Bool.true_and]
  repeat' split
  all_goals (try rw [‹s.pc t = _›] at g0t)
  all_goals (try simp [Pc.afterSpec, Pc.copyVal, Pc.snapVal] at g0t)
  all_goals (try rw [‹s.pc t = _›] at g1t)
  all_goals (try simp [Pc.afterSpec, Pc.copyVal, Pc.snapVal] at g1t)
  all_goals (try rw [‹s.pc t = _›] at g2t)
  all_goals (try simp [Pc.afterSpec, Pc.copyVal, Pc.snapVal] at g2t)
  all_goals (intro t' x n a m h1 h2 h3 h4; by_cases ht : t' = t <;> first | (subst ht; try simp [C, St.eff, upd_apply, afterLists, nextList, Pc.afterSpec, Pc.copyVal, Pc.snapVal] at h1 h2 h3 h4 ⊢) | (try simp [ht, C, St.eff, upd_apply, afterLists, nextList] at h1 h2 h3 h4 ⊢))
  all_goals grind [Pc.afterSpec, Pc.copyVal, Pc.snapVal , → Pc.afterSpec_owner, → passed_below_bump, → passed_upd_skip_back, → ne_of_locked_created, → cur_upd_wst, → cur_upd_rst, vf_upd_true, vf_upd_true_self, vf_reset, vf_exit]

set_option maxHeartbeats 1600000 in
theorem spec_exec_o (hS : Struct reg s) (hO : Orig s) (hH : Hint s) (hR : Reach reg s) :
    ∀ t' x n a m, ((execOther s t).pc t').afterSpec = some (x, n) → Passed (execOther s t).skipSt (execOther s t).srcOf (execOther s t).pst n a m → Cur (execOther s t).wst (execOther s t).rst a m → Anc (execOther s t).par x a → Vf (execOther s t).par (execOther s t).can (execOther s t).rst (execOther s t).oc m a x := by
  have g0 := hR.spec
  have g0t := hR.spec t
  have g1 := hR.copyTrue
  have g1t := hR.copyTrue t
  have g2 := hR.snapLe
  have g2t := hR.snapLe t
  have g3 := hR.wstLe
  have l0 := @snap_le_of_afterSpec reg s hR
  have l1 := @spec_establish reg s hS hR
  have l2 := @no_anc_afterSpec reg s hS hH
  have l3 := @locked_afterSpec reg s hS
  have l4 := @anc_cas_back reg s hS
  have l5 := @passed_le_s reg s hR
  have l6 := @cur_le_s reg s hR
  have l7 := @vf_cas reg s hS
  unfold execOther
  try unfold walkNext
  try unfold afterHint
  try unfold applyReset
  try simp only [C_propHolds, C_copyNeverClears, afterLists, ↓reduceIte, Bool.true_and]
  repeat' split
  all_goals (try rw [‹s.pc t = _›] at g0t)
  all_goals (try simp [Pc.afterSpec, Pc.copyVal, Pc.snapVal] at g0t)
  all_goals (try rw [‹s.pc t = _›] at g1t)
  all_goals (try simp [Pc.afterSpec, Pc.copyVal, Pc.snapVal] at g1t)
  all_goals (try rw [‹s.pc t = _›] at g2t)
  all_goals (try simp [Pc.afterSpec, Pc.copyVal, Pc.snapVal] at g2t)
  all_goals (intro t' x n a m h1 h2 h3 h4; by_cases ht : t' = t <;> first | (subst ht; try simp [C, St.eff, upd_apply, afterLists, nextList, Pc.afterSpec, Pc.copyVal, Pc.snapVal] at h1 h2 h3 h4 ⊢) | (try simp [ht, C, St.eff, upd_apply, afterLists, nextList] at h1 h2 h3 h4 ⊢))
  all_goals grind [Pc.afterSpec, Pc.copyVal, Pc.snapVal , → Pc.afterSpec_owner, → passed_below_bump, → passed_upd_skip_back, → ne_of_locked_created, → cur_upd_wst, → cur_upd_rst, vf_upd_true, vf_upd_true_self, vf_reset, vf_exit]

theorem spec_exec (hS : Struct reg s) (hO : Orig s) (hH : Hint s) (hR : Reach reg s) :
    ∀ t' x n a m, ((exec (C r) reg s t).pc t').afterSpec = some (x, n) → Passed (exec (C r) reg s t).skipSt (exec (C r) reg s t).srcOf (exec (C r) reg s t).pst n a m → Cur (exec (C r) reg s t).wst (exec (C r) reg s t).rst a m → Anc (exec (C r) reg s t).par x a → Vf (exec (C r) reg s t).par (exec (C r) reg s t).can (exec (C r) reg s t).rst (exec (C r) reg s t).oc m a x := by
  unfold exec
  split
  · exact spec_exec_c hS hO hH hR
  · split
    · exact spec_exec_b hS hO hH hR
    · exact spec_exec_o hS hO hH hR

set_option maxHeartbeats 1600000 in
theorem spec_begin (hS : Struct reg s) (hO : Orig s) (hH : Hint s) (hR : Reach reg s) (hi : s.pc t = .idle) :
    ∀ t' x n a m, ((begin (C r) reg s t).pc t').afterSpec = some (x, n) → Passed (begin (C r) reg s t).skipSt (begin (C r) reg s t).srcOf (begin (C r) reg s t).pst n a m → Cur (begin (C r) reg s t).wst (begin (C r) reg s t).rst a m → Anc (begin (C r) reg s t).par x a → Vf (begin (C r) reg s t).par (begin (C r) reg s t).can (begin (C r) reg s t).rst (begin (C r) reg s t).oc m a x := by
  have g0 := hR.spec
  have g0t := hR.spec t
  have g1 := hR.copyTrue
  have g1t := hR.copyTrue t
  have g2 := hR.snapLe
  have g2t := hR.snapLe t
  have g3 := hR.wstLe
  have l0 := @snap_le_of_afterSpec reg s hR
  have l1 := @spec_establish reg s hS hR
  have l2 := @no_anc_afterSpec reg s hS hH
  have l3 := @locked_afterSpec reg s hS
  have l4 := @anc_cas_back reg s hS
  have l5 := @passed_le_s reg s hR
  have l6 := @cur_le_s reg s hR
  have l7 := @vf_cas reg s hS
  begin_cases
  all_goals (try rw [hi] at g0t)
  all_goals (try simp [Pc.afterSpec, Pc.copyVal, Pc.snapVal] at g0t)
  all_goals (try rw [hi] at g1t)
  all_goals (try simp [Pc.afterSpec, Pc.copyVal, Pc.snapVal] at g1t)
  all_goals (try rw [hi] at g2t)
  all_goals (try simp [Pc.afterSpec, Pc.copyVal, Pc.snapVal] at g2t)
  all_goals (intro t' x n a m h1 h2 h3 h4; by_cases ht : t' = t <;> first | (subst ht; try simp [C, St.eff, upd_apply, afterLists, nextList, Pc.afterSpec, Pc.copyVal, Pc.snapVal] at h1 h2 h3 h4 ⊢) | (try simp [ht, C, St.eff, upd_apply, afterLists, nextList] at h1 h2 h3 h4 ⊢))
  all_goals grind [Pc.afterSpec, Pc.copyVal, Pc.snapVal , → Pc.afterSpec_owner, → passed_below_bump, → passed_upd_skip_back, → ne_of_locked_created, → cur_upd_wst, → cur_upd_rst, vf_upd_true, vf_upd_true_self, vf_reset, vf_exit]

set_option maxHeartbeats 1600000 in
theorem fbDone_exec_c (hS : Struct reg s) (hO : Orig s) (hH : Hint s) (hR : Reach reg s) :
    ∀ t' x p a m, (execCancel (C r) reg s t).pc t' = .bFbU x p → Passed (execCancel (C r) reg s t).skipSt (execCancel (C r) reg s t).srcOf (execCancel (C r) reg s t).pst (execCancel (C r) reg s t).G a m → Cur (execCancel (C r) reg s t).wst (execCancel (C r) reg s t).rst a m → Anc (execCancel (C r) reg s t).par x a → Vf (execCancel (C r) reg s t).par (execCancel (C r) reg s t).can (execCancel (C r) reg s t).rst (execCancel (C r) reg s t).oc m a x := by
  have g0 := hR.fbDone
  have g0t := hR.fbDone t
  have g1 := hR.copyTrue
  have g1t := hR.copyTrue t
  have g2 := hR.propMx
  have g2t := hR.propMx t
  have g3 := hR.wstLe
  have g4 := hS.ownsSt
  have g4t := hS.ownsSt t
  have l0 := @fb_establish reg s hS hR
  have l1 := @no_anc_fbU reg s hS hH
  have l2 := @anc_cas_back reg s hS
  have l3 := @passed_le_s reg s hR
  have l4 := @cur_le_s reg s hR
  have l5 := @vf_cas reg s hS
  unfold execCancel
  try unfold walkNext
  try unfold afterHint
  try unfold applyReset
  try simp only [C_propHolds, C_copyNeverClears, afterLists, ↓reduceIte, Bool.true_and]
  repeat' split
  all_goals (try rw [‹s.pc t = _›] at g0t)
  all_goals (try simp [Pc.copyVal, Pc.inProp, Pc.owns] at g0t)
  all_goals (try rw [‹s.pc t = _›] at g1t)
  all_goals (try simp [Pc.copyVal, Pc.inProp, Pc.owns] at g1t)
  all_goals (try rw [‹s.pc t = _›] at g2t)
  all_goals (try simp [Pc.copyVal, Pc.inProp, Pc.owns] at g2t)
  all_goals (try rw [‹s.pc t = _›] at g4t)
  all_goals (try simp [Pc.copyVal, Pc.inProp, Pc.owns] at g4t)
  all_goals (intro t' x p a m h1 h2 h3 h4; by_cases ht : t' = t <;> first | (subst ht; try simp [C, St.eff, upd_apply, afterLists, nextList, Pc.copyVal, Pc.inProp, Pc.owns] at h1 h2 h3 h4 ⊢) | (try simp [ht, C, St.eff, upd_apply, afterLists, nextList] at h1 h2 h3 h4 ⊢))
  all_goals grind [Pc.copyVal, Pc.inProp, Pc.owns , → passed_upd_skip_back, passed_bump, → ne_of_locked_created, → cur_upd_wst, → cur_upd_rst, vf_upd_true, vf_upd_true_self, vf_reset, vf_exit]

set_option maxHeartbeats 1600000 in
theorem fbDone_exec_b (hS : Struct reg s) (hO : Orig s) (hH : Hint s) (hR : Reach reg s) :
    ∀ t' x p a m, (execBind (C r) s t).pc t' = .bFbU x p → Passed (execBind (C r) s t).skipSt (execBind (C r) s t).srcOf (execBind (C r) s t).pst (execBind (C r) s t).G a m → Cur (execBind (C r) s t).wst (execBind (C r) s t).rst a m → Anc (execBind (C r) s t).par x a → Vf (execBind (C r) s t).par (execBind (C r) s t).can (execBind (C r) s t).rst (execBind (C r) s t).oc m a x := by
  have g0 := hR.fbDone
  have g0t := hR.fbDone t
  have g1 := hR.copyTrue
  have g1t := hR.copyTrue t
  have g2 := hR.propMx
  have g2t := hR.propMx t
  have g3 := hR.wstLe
  have g4 := hS.ownsSt
  have g4t := hS.ownsSt t
  have l0 := @fb_establish reg s hS hR
  have l1 := @no_anc_fbU reg s hS hH
  have l2 := @anc_cas_back reg s hS
  have l3 := @passed_le_s reg s hR
  have l4 := @cur_le_s reg s hR
  have l5 := @vf_cas reg s hS
  unfold execBind
  try unfold walkNext
  try unfold afterHint
  try unfold applyReset
  try simp only [C_propHolds, C_copyNeverClears, afterLists, ↓reduceIte, Bool.true_and]
  repeat' split
  all_goals (try rw [‹s.pc t = _›] at g0t)
  all_goals (try simp [Pc.copyVal, Pc.inProp, Pc.owns] at g0t)
  all_goals (try rw [‹s.pc t = _›] at g1t)
  all_goals (try simp [Pc.copyVal, Pc.inProp, Pc.owns] at g1t)
  all_goals (try rw [‹s.pc t = _›] at g2t)
  all_goals (try simp [Pc.copyVal, Pc.inProp, Pc.owns] at g2t)
  all_goals (try rw [‹s.pc t = _›] at g4t)
  all_goals (try simp [Pc.copyVal, Pc.inProp, Pc.owns] at g4t)
  all_goals (intro t' x p a m h1 h2 h3 h4; by_cases ht : t' = t <;> first | (subst ht; try simp [C, St.eff, upd_apply, afterLists, nextList, Pc.copyVal, Pc.inProp, Pc.owns] at h1 h2 h3 h4 ⊢) | (try simp [ht, C, St.eff, upd_apply, afterLists, nextList] at h1 h2 h3 h4 ⊢))
  all_goals grind [Pc.copyVal, Pc.inProp, Pc.owns , → passed_upd_skip_back, passed_bump, → ne_of_locked_created, → cur_upd_wst, → cur_upd_rst, vf_upd_true, vf_upd_true_self, vf_reset, vf_exit]

set_option maxHeartbeats 1600000 in
theorem fbDone_exec_o (hS : Struct reg s) (hO : Orig s) (hH : Hint s) (hR : Reach reg s) :
    ∀ t' x p a m, (execOther s t).pc t' = .bFbU x p → Passed (execOther s t).skipSt (execOther s t).srcOf (execOther s t).pst (execOther s t).G a m → Cur (execOther s t).wst (execOther s t).rst a m → Anc (execOther s t).par x a → Vf (execOther s t).par (execOther s t).can (execOther s t).rst (execOther s t).oc m a x := by
  have g0 := hR.fbDone
  have g0t := hR.fbDone t
  have g1 := hR.copyTrue
  have g1t := hR.copyTrue t
  have g2 := hR.propMx
  have g2t := hR.propMx t
  have g3 := hR.wstLe
  have g4 := hS.ownsSt
  have g4t := hS.ownsSt t
  have l0 := @fb_establish reg s hS hR
  have l1 := @no_anc_fbU reg s hS hH
  have l2 := @anc_cas_back reg s hS
  have l3 := @passed_le_s reg s hR
  have l4 := @cur_le_s reg s hR
  have l5 := @vf_cas reg s hS
  unfold execOther
  try unfold walkNext
  try unfold afterHint
  try unfold applyReset
  try simp only [C_propHolds, C_copyNeverClears, afterLists, ↓reduceIte, Bool.true_and]
  repeat' split
  all_goals (try rw [‹s.pc t = _›] at g0t)
  all_goals (try simp [Pc.copyVal, Pc.inProp, Pc.owns] at g0t)
  all_goals (try rw [‹s.pc t = _›] at g1t)
  all_goals (try simp [Pc.copyVal, Pc.inProp, Pc.owns] at g1t)
  all_goals (try rw [‹s.pc t = _›] at g2t)
  all_goals (try simp [Pc.copyVal, Pc.inProp, Pc.owns] at g2t)
  all_goals (try rw [‹s.pc t = _›] at g4t)
  all_goals (try simp [Pc.copyVal, Pc.inProp, Pc.owns] at g4t)
  all_goals (intro t' x p a m h1 h2 h3 h4; by_cases ht : t' = t <;> first | (subst ht; try simp [C, St.eff, upd_apply, afterLists, nextList, Pc.copyVal, Pc.inProp, Pc.owns] at h1 h2 h3 h4 ⊢) | (try simp [ht, C, St.eff, upd_apply, afterLists, nextList] at h1 h2 h3 h4 ⊢))
  all_goals grind [Pc.copyVal, Pc.inProp, Pc.owns , → passed_upd_skip_back, passed_bump, → ne_of_locked_created, → cur_upd_wst, → cur_upd_rst, vf_upd_true, vf_upd_true_self, vf_reset, vf_exit]

theorem fbDone_exec (hS : Struct reg s) (hO : Orig s) (hH : Hint s) (hR : Reach reg s) :
    ∀ t' x p a m, (exec (C r) reg s t).pc t' = .bFbU x p → Passed (exec (C r) reg s t).skipSt (exec (C r) reg s t).srcOf (exec (C r) reg s t).pst (exec (C r) reg s t).G a m → Cur (exec (C r) reg s t).wst (exec (C r) reg s t).rst a m → Anc (exec (C r) reg s t).par x a → Vf (exec (C r) reg s t).par (exec (C r) reg s t).can (exec (C r) reg s t).rst (exec (C r) reg s t).oc m a x := by
  unfold exec
  split
  · exact fbDone_exec_c hS hO hH hR
  · split
    · exact fbDone_exec_b hS hO hH hR
    · exact fbDone_exec_o hS hO hH hR

set_option maxHeartbeats 1600000 in
theorem fbDone_begin (hS : Struct reg s) (hO : Orig s) (hH : Hint s) (hR : Reach reg s) (hi : s.pc t = .idle) :
    ∀ t' x p a m, (begin (C r) reg s t).pc t' = .bFbU x p → Passed (begin (C r) reg s t).skipSt (begin (C r) reg s t).srcOf (begin (C r) reg s t).pst (begin (C r) reg s t).G a m → Cur (begin (C r) reg s t).wst (begin (C r) reg s t).rst a m → Anc (begin (C r) reg s t).par x a → Vf (begin (C r) reg s t).par (begin (C r) reg s t).can (begin (C r) reg s t).rst (begin (C r) reg s t).oc m a x := by
  have g0 := hR.fbDone
  have g0t := hR.fbDone t
  have g1 := hR.copyTrue
  have g1t := hR.copyTrue t
  have g2 := hR.propMx
  have g2t := hR.propMx t
  have g3 := hR.wstLe
  have g4 := hS.ownsSt
  have g4t := hS.ownsSt t
  have l0 := @fb_establish reg s hS hR
  have l1 := @no_anc_fbU reg s hS hH
  have l2 := @anc_cas_back reg s hS
  have l3 := @passed_le_s reg s hR
  have l4 := @cur_le_s reg s hR
  have l5 := @vf_cas reg s hS
  begin_cases
  all_goals (try rw [hi] at g0t)
  all_goals (try simp [Pc.copyVal, Pc.inProp, Pc.owns] at g0t)
  all_goals (try rw [hi] at g1t)
  all_goals (try simp [Pc.copyVal, Pc.inProp, Pc.owns] at g1t)
  all_goals (try rw [hi] at g2t)
  all_goals (try simp [Pc.copyVal, Pc.inProp, Pc.owns] at g2t)
  all_goals (try rw [hi] at g4t)
  all_goals (try simp [Pc.copyVal, Pc.inProp, Pc.owns] at g4t)
  all_goals (intro t' x p a m h1 h2 h3 h4; by_cases ht : t' = t <;> first | (subst ht; try simp [C, St.eff, upd_apply, afterLists, nextList, Pc.copyVal, Pc.inProp, Pc.owns] at h1 h2 h3 h4 ⊢) | (try simp [ht, C, St.eff, upd_apply, afterLists, nextList] at h1 h2 h3 h4 ⊢))
  all_goals grind [Pc.copyVal, Pc.inProp, Pc.owns , → passed_upd_skip_back, passed_bump, → ne_of_locked_created, → cur_upd_wst, → cur_upd_rst, vf_upd_true, vf_upd_true_self, vf_reset, vf_exit]

end TbbVerif.C04
