/-
C04 proofs — lemmas used by the preservation proofs of `Reach`: `Passed`, `Cur`, `Stale` / `Vf` under the updates a step
makes; the registry suffix a walk has not yet synced; ancestors of registered contexts.
-/
import TbbVerif.Proofs.C04.ReachInv

namespace TbbVerif.C04

/-! ### `Passed` -/
section passed
variable {sk so ps : Nat → Nat} {k k' a m b v w n0 : Nat}

theorem passed_mono (h : k ≤ k') (hp : Passed sk so ps k a m) : Passed sk so ps k' a m := by
  rcases hp with hp | ⟨n, h1, h2, h3⟩
  · exact Or.inl hp
  · exact Or.inr ⟨n, h1, by omega, h3⟩

/-- entries above `k` are invisible below `k` -/
theorem passed_upd_src (h : k < n0) : Passed sk (upd so n0 v) (upd ps n0 w) k a m ↔ Passed sk so ps k a m := by
  unfold Passed
  constructor
  · rintro (hp | ⟨n, h1, h2, h3, h4⟩)
    · exact Or.inl hp
    · exact Or.inr ⟨n, h1, h2, by rwa [upd_ne (by omega)] at h3, by rwa [upd_ne (by omega)] at h4⟩
  · rintro (hp | ⟨n, h1, h2, h3, h4⟩)
    · exact Or.inl hp
    · exact Or.inr ⟨n, h1, h2, by rwa [upd_ne (by omega)], by rwa [upd_ne (by omega)]⟩

theorem passed_below_bump (hle : k ≤ n0) (h : Passed sk (upd so (n0 + 1) v) (upd ps (n0 + 1) w) k a m) :
    Passed sk so ps k a m :=
  (passed_upd_src (by omega)).1 h

theorem passed_below_bump' (hle : k ≤ n0) (h : Passed sk so ps k a m) :
    Passed sk (upd so (n0 + 1) v) (upd ps (n0 + 1) w) k a m :=
  (passed_upd_src (by omega)).2 h

/-- one more propagation number -/
theorem passed_succ : Passed sk so ps (k + 1) a m ↔ (so (k + 1) = a ∧ ps (k + 1) = m) ∨ Passed sk so ps k a m := by
  unfold Passed
  constructor
  · rintro (hp | ⟨n, h1, h2, h3⟩)
    · exact Or.inr (Or.inl hp)
    · by_cases e : n = k + 1
      · subst e; exact Or.inl h3
      · exact Or.inr (Or.inr ⟨n, h1, by omega, h3⟩)
  · rintro (hp | hp | ⟨n, h1, h2, h3⟩)
    · exact Or.inr ⟨k + 1, by omega, by omega, hp⟩
    · exact Or.inl hp
    · exact Or.inr ⟨n, h1, by omega, h3⟩

/-- the epoch increment of a propagation with source `v` and stamp `w` -/
theorem passed_bump : Passed sk (upd so (k + 1) v) (upd ps (k + 1) w) (k + 1) a m ↔
    (v = a ∧ w = m) ∨ Passed sk so ps k a m := by
  rw [passed_succ, passed_upd_src (Nat.lt_succ_self k)]
  simp

theorem passed_pred {G : Nat} (h : k + 1 = G) (hp : Passed sk so ps G a m) :
    (so G = a ∧ ps G = m) ∨ Passed sk so ps k a m := by
  subst h
  exact passed_succ.1 hp

/-- a hint-test skip of `b` at stamp `w`: backwards -/
theorem passed_upd_skip_back (h : Passed (upd sk b w) so ps k a m) : (a = b ∧ w = m) ∨ Passed sk so ps k a m := by
  rcases h with h | h
  · by_cases e : a = b
    · subst e; simp at h; exact Or.inl ⟨rfl, h⟩
    · rw [upd_ne e] at h; exact Or.inr (Or.inl h)
  · exact Or.inr (Or.inr h)

/-- forwards: what had passed still has, unless it was the skip entry of `b` that is being overwritten -/
theorem passed_upd_skip_fwd (h : Passed sk so ps k a m) (hab : a ≠ b ∨ w = m) : Passed (upd sk b w) so ps k a m := by
  rcases h with h | h
  · by_cases e : a = b
    · subst e
      rcases hab with hab | hab
      · exact absurd rfl hab
      · exact Or.inl (by simp [hab])
    · exact Or.inl (by rw [upd_ne e]; exact h)
  · exact Or.inr h

theorem passed_upd_skip_self : Passed (upd sk b w) so ps k b w := Or.inl (by simp)

/-- stamps of what has passed are in the past -/
theorem passed_le {clk : Nat} (hs : ∀ a, sk a ≤ clk) (hp : ∀ n, ps n ≤ clk) (h : Passed sk so ps k a m) : m ≤ clk := by
  rcases h with h | ⟨n, _, _, _, h⟩
  · exact h ▸ hs a
  · exact h ▸ hp n

end passed

/-! ### `Cur` -/
section cur
variable {wst rst : Nat → Nat} {a m b y clk : Nat}

theorem cur_wst (h : Cur wst rst a m) : wst a = m := h.1

theorem cur_le (hw : ∀ a, wst a ≤ clk) (h : Cur wst rst a m) : m ≤ clk := h.1 ▸ hw a

theorem cur_pos (h : Cur wst rst a m) : 1 ≤ m := by
  have := h.2
  omega

/-- a winning exchange on `b` at clock `clk` -/
theorem cur_upd_wst (h : Cur (upd wst b (clk + 1)) rst a m) : (a = b ∧ m = clk + 1) ∨ (a ≠ b ∧ Cur wst rst a m) := by
  by_cases e : a = b
  · subst e
    have := h.1
    simp at this
    exact Or.inl ⟨rfl, this.symm⟩
  · refine Or.inr ⟨e, ?_⟩
    have h1 := h.1
    rw [upd_ne e] at h1
    exact ⟨h1, h.2⟩

theorem cur_upd_wst_fwd (h : Cur wst rst a m) (e : a ≠ b) : Cur (upd wst b (clk + 1)) rst a m :=
  ⟨by rw [upd_ne e]; exact h.1, h.2⟩

/-- a reset of `y` at clock `clk` ends the current cancellation of `y` and leaves the others alone -/
theorem cur_upd_rst (hw : ∀ a, wst a ≤ clk) (h : Cur wst (upd rst y (clk + 1)) a m) : a ≠ y ∧ Cur wst rst a m := by
  by_cases e : a = y
  · subst e
    have h1 := h.1
    have h2 := h.2
    simp at h2
    have := hw a
    omega
  · refine ⟨e, h.1, ?_⟩
    have h2 := h.2
    rwa [upd_ne e] at h2

theorem cur_upd_rst_fwd (h : Cur wst rst a m) (e : a ≠ y) : Cur wst (upd rst y (clk + 1)) a m :=
  ⟨h.1, by rw [upd_ne e]; exact h.2⟩

end cur

/-! ### `Stale` and `Vf` -/
section vf
variable {par : Nat → Option Nat} {can : Nat → Bool} {rst : Nat → Nat} {oc : Nat → Bool} {m a x p y e clk : Nat}

theorem vf_can (h : can x = true) : Vf par can rst oc m a x := Or.inl h

/-- an excused parent (below `a`) makes the child stale -/
theorem stale_of_parent_exc (hp : par x = some p) (hpa : Anc par p a) (h : Exc rst oc m p) : Stale par rst oc m a x :=
  Or.inr ⟨p, .direct hp, hpa, h⟩

/-- staleness is inherited by children (below `a`) -/
theorem stale_child (hp : par x = some p) (hpa : Anc par p a) (h : Stale par rst oc m a p) : Stale par rst oc m a x := by
  rcases h with h | ⟨z, h1, h2, h3⟩
  · exact stale_of_parent_exc hp hpa h
  · exact Or.inr ⟨z, .step hp h1, h2, h3⟩

theorem vf_upd_true (h : Vf par can rst oc m a x) : Vf par (upd can e true) rst oc m a x := by
  rcases h with h | h
  · exact Or.inl (by simp only [upd_apply]; split <;> simp [h])
  · exact Or.inr h

theorem vf_upd_true_self : Vf par (upd can x true) rst oc m a x := Or.inl (by simp)

theorem exc_reset {z : Nat} (h : Exc rst oc m z) (hm : m ≤ clk) : Exc (upd rst y (clk + 1)) oc m z := by
  rcases h with h | h
  · refine Or.inl ?_
    simp only [upd_apply]; split <;> omega
  · exact Or.inr h

theorem stale_reset (h : Stale par rst oc m a x) (hm : m ≤ clk) : Stale par (upd rst y (clk + 1)) oc m a x := by
  rcases h with h | ⟨z, h1, h2, h3⟩
  · exact Or.inl (exc_reset h hm)
  · exact Or.inr ⟨z, h1, h2, exc_reset h3 hm⟩

/-- a reset of `y` at clock `clk ≥ m` keeps every `Vf m` fact (for `y` itself it makes it true) -/
theorem vf_reset (hm : m ≤ clk) (h : Vf par can rst oc m a x) :
    Vf par (upd can y false) (upd rst y (clk + 1)) oc m a x := by
  by_cases e : x = y
  · subst e
    exact Or.inr (Or.inl (Or.inl (by simp; omega)))
  · rcases h with h | h
    · exact Or.inl (by rw [upd_ne e]; exact h)
    · exact Or.inr (stale_reset h hm)

/-- `Vf` does not depend on the parent function beyond the ancestors it mentions -/
theorem vf_par {par' : Nat → Option Nat} (hf : ∀ z b, Anc par z b → Anc par' z b) (h : Vf par can rst oc m a x) :
    Vf par' can rst oc m a x := by
  rcases h with h | h | ⟨z, h1, h2, h3⟩
  · exact Or.inl h
  · exact Or.inr (Or.inl h)
  · exact Or.inr (Or.inr ⟨z, hf _ _ h1, hf _ _ h2, h3⟩)

/-- more orphaned contexts only excuse more -/
theorem vf_oc_or {b : Nat → Bool} (h : Vf par can rst oc m a x) : Vf par can rst (fun z => oc z || b z) m a x := by
  have he : ∀ z, Exc rst oc m z → Exc rst (fun z => oc z || b z) m z := by
    intro z hz
    rcases hz with hz | hz
    · exact Or.inl hz
    · exact Or.inr (by simp [hz])
  rcases h with h | h | ⟨z, h1, h2, h3⟩
  · exact Or.inl h
  · exact Or.inr (Or.inl (he _ h))
  · exact Or.inr (Or.inr ⟨z, h1, h2, he _ h3⟩)

end vf

/-! ### the registry suffix that a walk has not yet synced -/

theorem mem_drop_succ {reg : List Nat} {i b L : Nat} (hb : reg[i]? = some b) (hL : L ∈ reg.drop i) (hne : L ≠ b) :
    L ∈ reg.drop (i + 1) := by
  have hi : i < reg.length := by
    rcases Nat.lt_or_ge i reg.length with h | h
    · exact h
    · simp [List.getElem?_eq_none h] at hb
  have hd : reg.drop i = reg[i] :: reg.drop (i + 1) := List.drop_eq_getElem_cons hi
  have hbi : reg[i] = b := by
    have := List.getElem?_eq_getElem hi
    rw [this] at hb
    exact Option.some.inj hb
  rw [hd, hbi] at hL
  rcases List.mem_cons.1 hL with h | h
  · exact absurd h hne
  · exact h

theorem drop_nil_of_none {reg : List Nat} {i : Nat} (h : reg[i]? = none) : reg.drop i = [] := by
  apply List.drop_eq_nil_of_le
  rcases Nat.lt_or_ge i reg.length with h' | h'
  · simp [List.getElem?_eq_getElem h'] at h
  · exact h'

theorem drop_nil_of_len {reg : List Nat} {i : Nat} (h : ¬ i < reg.length) : reg.drop i = [] :=
  List.drop_eq_nil_of_le (by omega)

/-- a registered thread's list that the walk has not reached yet is still ahead after the walk moves on -/
theorem nextList_walk_ahead {cfg : Cfg} {reg : List Nat} {act : Nat → Bool} {src i L : Nat} (hL : L ∈ reg.drop i)
    (ha : act L = true) : ∃ j, (nextList cfg reg act src i).walkFrom = some j ∧ L ∈ reg.drop j := by
  obtain ⟨j, hj, hd⟩ := nextList_ahead (cfg := cfg) (src := src) hL ha
  exact ⟨j, by rw [hj]; rfl, hd⟩

grind_pattern nextList_walk_ahead => nextList cfg reg act src i, L ∈ reg

/-! ### ancestors of registered contexts are registered; their hints are set -/

/-- a context that is alive (`okParent`) and has a parent is in a context list -/
theorem alive_registered {reg : List Nat} {s : St} (hS : Struct reg s) {p q : Nat} (ok : okParent s p)
    (hq : s.par p = some q) : ∃ L, s.lst p = some L ∧ p ∈ s.items L := by
  obtain ⟨hst, hdy⟩ := ok
  have hb : s.cst p = .bound := by
    rcases hst with h | h
    · exact h
    · have := hS.isoRoot p h
      rw [hq] at this
      cases this
  exact hS.boundReg p hb hdy

theorem anc_mhc {reg : List Nat} {s : St} (hS : Struct reg s)
    (hm : ∀ L x p, x ∈ s.items L → s.par x = some p → s.mhc p = true) {x a : Nat} (h : Anc s.par x a) :
    ∀ L, x ∈ s.items L → s.mhc a = true := by
  induction h with
  | direct hp => intro L hx; exact hm L _ _ hx hp
  | @step x p a hp hpa ih =>
    intro L hx
    obtain ⟨q, hq, _⟩ := hpa.unfold
    obtain ⟨L', _, hL'⟩ := alive_registered hS (hS.parAlive L x p hx hp) hq
    exact ih L' hL'

/-- the hint of every ancestor-or-self of the parent a binder (past the hint store) refers to -/
theorem anc_mhc_bind {reg : List Nat} {s : St} (hS : Struct reg s)
    (hm : ∀ L x p, x ∈ s.items L → s.par x = some p → s.mhc p = true) {p a : Nat} (ok : okParent s p)
    (hp : s.mhc p = true) (h : p = a ∨ Anc s.par p a) : s.mhc a = true := by
  rcases h with h | h
  · exact h ▸ hp
  · obtain ⟨q, hq, _⟩ := h.unfold
    obtain ⟨L, _, hL⟩ := alive_registered hS ok hq
    exact anc_mhc hS hm h L hL

end TbbVerif.C04
