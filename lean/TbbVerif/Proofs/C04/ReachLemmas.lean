/-
C04 proofs — lemmas used by the preservation proofs of `Reach`.
-/
import TbbVerif.Proofs.C04.ReachInv

namespace TbbVerif.C04

/-! ### `PassedUpTo` -/
section passed
variable {sk : Nat → Bool} {so : Nat → Nat} {m m' k a v : Nat}

theorem passed_mono (h : m ≤ m') (hp : PassedUpTo sk so m a) : PassedUpTo sk so m' a := by
  rcases hp with hp | ⟨n, h1, h2, h3⟩
  · exact Or.inl hp
  · exact Or.inr ⟨n, h1, by omega, h3⟩

theorem passed_upd_src (h : m < k) : PassedUpTo sk (upd so k v) m a ↔ PassedUpTo sk so m a := by
  unfold PassedUpTo
  constructor
  · rintro (hp | ⟨n, h1, h2, h3⟩)
    · exact Or.inl hp
    · exact Or.inr ⟨n, h1, h2, by rwa [upd_ne (by omega)] at h3⟩
  · rintro (hp | ⟨n, h1, h2, h3⟩)
    · exact Or.inl hp
    · exact Or.inr ⟨n, h1, h2, by rwa [upd_ne (by omega)]⟩

/-- one more propagation number -/
theorem passed_succ : PassedUpTo sk so (m + 1) a ↔ so (m + 1) = a ∨ PassedUpTo sk so m a := by
  unfold PassedUpTo
  constructor
  · rintro (hp | ⟨n, h1, h2, h3⟩)
    · exact Or.inr (Or.inl hp)
    · by_cases e : n = m + 1
      · subst e; exact Or.inl h3
      · exact Or.inr (Or.inr ⟨n, h1, by omega, h3⟩)
  · rintro (hp | hp | ⟨n, h1, h2, h3⟩)
    · exact Or.inr ⟨m + 1, by omega, by omega, hp⟩
    · exact Or.inl hp
    · exact Or.inr ⟨n, h1, by omega, h3⟩

/-- the epoch increment of a propagation with source `v` -/
theorem passed_bump : PassedUpTo sk (upd so (m + 1) v) (m + 1) a ↔ v = a ∨ PassedUpTo sk so m a := by
  rw [passed_succ, passed_upd_src (Nat.lt_succ_self m)]
  simp

theorem passed_upd_skip : PassedUpTo (upd sk k true) so m a ↔ a = k ∨ PassedUpTo sk so m a := by
  unfold PassedUpTo
  simp only [upd_apply]
  constructor
  · rintro (hp | hp)
    · split at hp
      · exact Or.inl ‹_›
      · exact Or.inr (Or.inl hp)
    · exact Or.inr (Or.inr hp)
  · rintro (hp | hp | hp)
    · exact Or.inl (by simp [hp])
    · exact Or.inl (by split <;> simp [hp])
    · exact Or.inr hp

end passed

/-! ### the registry suffix that a walk has not yet synced -/

theorem mem_drop_succ {reg : List Nat} {i b L : Nat} (hb : reg[i]? = some b) (hL : L ∈ reg.drop i) (hne : L ≠ b) :
    L ∈ reg.drop (i + 1) := by
  have hi : i < reg.length := by
    rcases Nat.lt_or_ge i reg.length with h | h
    · exact h
    · simp [List.getElem?_eq_none h] at hb
  have hd : reg.drop i = reg[i] :: reg.drop (i + 1) := List.drop_eq_getElem_cons hi
  have hbi : reg[i] = b := by
    have := List.getElem?_eq_getElem hi
    rw [this] at hb
    exact Option.some.inj hb
  rw [hd, hbi] at hL
  rcases List.mem_cons.1 hL with h | h
  · exact absurd h hne
  · exact h

theorem drop_nil_of_none {reg : List Nat} {i : Nat} (h : reg[i]? = none) : reg.drop i = [] := by
  apply List.drop_eq_nil_of_le
  rcases Nat.lt_or_ge i reg.length with h' | h'
  · simp [List.getElem?_eq_getElem h'] at h
  · exact h'

theorem drop_nil_of_len {reg : List Nat} {i : Nat} (h : ¬ i < reg.length) : reg.drop i = [] :=
  List.drop_eq_nil_of_le (by omega)

/-! ### ancestors of registered contexts are registered; their hints are set -/

/-- a context that is alive (`okParent`) and has a parent is in a context list -/
theorem alive_registered {reg : List Nat} {s : St} (hS : Struct reg s) {p q : Nat} (ok : okParent s p)
    (hq : s.par p = some q) : ∃ L, s.lst p = some L ∧ p ∈ s.items L := by
  obtain ⟨hst, hdy⟩ := ok
  have hb : s.cst p = .bound := by
    rcases hst with h | h
    · exact h
    · have := hS.isoRoot p h
      rw [hq] at this
      cases this
  exact hS.boundReg p hb hdy

theorem anc_mhc {reg : List Nat} {s : St} (hS : Struct reg s)
    (hm : ∀ L x p, x ∈ s.items L → s.par x = some p → s.mhc p = true) {x a : Nat} (h : Anc s.par x a) :
    ∀ L, x ∈ s.items L → s.mhc a = true := by
  induction h with
  | direct hp => intro L hx; exact hm L _ _ hx hp
  | @step x p a hp hpa ih =>
    intro L hx
    obtain ⟨q, hq, _⟩ := hpa.unfold
    obtain ⟨L', _, hL'⟩ := alive_registered hS (hS.parAlive L x p hx hp) hq
    exact ih L' hL'

/-- the hint of every ancestor-or-self of the parent a binder (past the hint store) refers to -/
theorem anc_mhc_bind {reg : List Nat} {s : St} (hS : Struct reg s)
    (hm : ∀ L x p, x ∈ s.items L → s.par x = some p → s.mhc p = true) {p a : Nat} (ok : okParent s p)
    (hp : s.mhc p = true) (h : p = a ∨ Anc s.par p a) : s.mhc a = true := by
  rcases h with h | h
  · exact h ▸ hp
  · obtain ⟨q, hq, _⟩ := h.unfold
    obtain ⟨L, _, hL⟩ := alive_registered hS ok hq
    exact anc_mhc hS hm h L hL

end TbbVerif.C04
