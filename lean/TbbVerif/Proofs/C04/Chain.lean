/-
C04 proofs — the ancestor walk `chainUp` is sound (it only returns proper descendants of `src` that are ancestors-or-self
of the start) and, with the depth ghost as fuel, complete (it finds `src` whenever `src` is an ancestor).
-/
import TbbVerif.Proofs.C04.Basic

namespace TbbVerif.C04

theorem chainUp_sound {par : Nat → Option Nat} {src : Nat} :
    ∀ (fuel c : Nat) (ch : List Nat), chainUp par src fuel c = some ch →
      (∃ tl, ch = c :: tl) ∧ ∀ e ∈ ch, Anc par e src := by
  intro fuel
  induction fuel with
  | zero => intro c ch h; simp [chainUp] at h
  | succ n ih =>
    intro c ch h
    unfold chainUp at h
    split at h
    · simp at h
    · rename_i a ha
      split at h
      · rename_i hsrc
        simp at h
        subst h
        exact ⟨⟨[], rfl⟩, by intro e he; simp at he; subst he; exact .direct (hsrc ▸ ha)⟩
      · simp [Option.map_eq_some_iff] at h
        obtain ⟨tl, htl, rfl⟩ := h
        obtain ⟨_, hall⟩ := ih a tl htl
        refine ⟨⟨tl, rfl⟩, ?_⟩
        intro e he
        simp at he
        cases he with
        | inl he =>
          subst he
          obtain ⟨tl', rfl⟩ := (ih a tl htl).1
          exact .step ha (hall a (by simp))
        | inr he => exact hall e he

theorem chainUp_complete {par : Nat → Option Nat} {depth : Nat → Nat} {src : Nat}
    (hd : ∀ x p, par x = some p → depth x = depth p + 1) :
    ∀ (fuel c : Nat), depth c ≤ fuel → Anc par c src → ∃ tl, chainUp par src fuel c = some (c :: tl) := by
  intro fuel
  induction fuel with
  | zero =>
    intro c hf h
    obtain ⟨p, hp, _⟩ := h.unfold
    have := hd _ _ hp
    omega
  | succ n ih =>
    intro c hf h
    obtain ⟨p, hp, h'⟩ := h.unfold
    have hdp := hd _ _ hp
    unfold chainUp
    simp only [hp]
    by_cases hps : p = src
    · simp [hps]
    · simp only [hps, if_false]
      have hanc : Anc par p src := by
        cases h' with
        | inl e => exact absurd e hps
        | inr h' => exact h'
      obtain ⟨tl, htl⟩ := ih p (by omega) hanc
      exact ⟨p :: tl, by simp [htl]⟩

end TbbVerif.C04
