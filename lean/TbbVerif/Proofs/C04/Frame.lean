/-
C04 proofs — frame facts of one step: only the stepping thread's pc changes; how ownership of a locked context arises.
-/
import TbbVerif.Proofs.C04.Tactics

namespace TbbVerif.C04
variable {cfg : Cfg} {reg : List Nat} {s : St} {t : Nat}

theorem exec_pc_other {t' : Nat} (h : t' ≠ t) : (exec cfg reg s t).pc t' = s.pc t' := by
  exec_cases
  all_goals simp [upd_apply, h]

theorem begin_pc_other {t' : Nat} (h : t' ≠ t) : (begin cfg reg s t).pc t' = s.pc t' := by
  begin_cases
  all_goals simp [upd_apply, h]

theorem step_pc_other {t' : Nat} (h : t' ≠ t) : (step cfg reg s t).pc t' = s.pc t' := by
  rw [step_eq]
  split
  · rw [exec_pc_other h, begin_pc_other h]
  · rw [exec_pc_other h]

/-- a thread becomes the owner of `x` only by winning the CAS on a `created` context -/
theorem exec_owns_new {x : Nat} (h : ((exec cfg reg s t).pc t).owns = some x) :
    (s.pc t).owns = some x ∨ s.cst x = .created := by
  revert h
  exec_cases
  all_goals (intro h; try simp [upd_apply, afterLists, nextList] at h)
  all_goals grind [Pc.owns]

theorem begin_owns_new {x : Nat} (h : ((begin cfg reg s t).pc t).owns = some x) : (s.pc t).owns = some x := by
  revert h
  begin_cases
  all_goals (intro h; try simp [upd_apply] at h)
  all_goals grind [Pc.owns]

theorem exec_cst_created {x : Nat} (h : (exec cfg reg s t).cst x = .created) : s.cst x = .created := by
  revert h
  exec_cases
  all_goals (intro h; try simp [upd_apply] at h)
  all_goals grind

theorem begin_cst {x : Nat} : (begin cfg reg s t).cst x = s.cst x := by
  begin_cases
  all_goals simp

end TbbVerif.C04

namespace TbbVerif.C04
variable {cfg : Cfg} {reg : List Nat} {s : St} {t : Nat}

theorem ownsUnique_exec (hS : Struct reg s) :
    ∀ t1 t2 x, ((exec cfg reg s t).pc t1).owns = some x → ((exec cfg reg s t).pc t2).owns = some x → t1 = t2 := by
  intro t1 t2 x h1 h2
  by_cases e1 : t1 = t <;> by_cases e2 : t2 = t
  · rw [e1, e2]
  · subst e1
    rw [exec_pc_other e2] at h2
    rcases exec_owns_new h1 with h | h
    · exact hS.ownsUnique _ _ _ h h2
    · have := hS.ownsSt _ _ h2
      rw [h] at this
      cases this
  · subst e2
    rw [exec_pc_other e1] at h1
    rcases exec_owns_new h2 with h | h
    · exact hS.ownsUnique _ _ _ h1 h
    · have := hS.ownsSt _ _ h1
      rw [h] at this
      cases this
  · rw [exec_pc_other e1] at h1
    rw [exec_pc_other e2] at h2
    exact hS.ownsUnique _ _ _ h1 h2

theorem ownsUnique_begin (hS : Struct reg s) :
    ∀ t1 t2 x, ((begin cfg reg s t).pc t1).owns = some x → ((begin cfg reg s t).pc t2).owns = some x → t1 = t2 := by
  intro t1 t2 x h1 h2
  by_cases e1 : t1 = t <;> by_cases e2 : t2 = t
  · rw [e1, e2]
  · subst e1
    rw [begin_pc_other e2] at h2
    exact hS.ownsUnique _ _ _ (begin_owns_new h1) h2
  · subst e2
    rw [begin_pc_other e1] at h1
    exact hS.ownsUnique _ _ _ h1 (begin_owns_new h2)
  · rw [begin_pc_other e1] at h1
    rw [begin_pc_other e2] at h2
    exact hS.ownsUnique _ _ _ h1 h2

end TbbVerif.C04
