/-
C04 proofs — `Hint` (the may_have_children hint of a context with a registered child, or with a binder past the hint store,
is set) holds in every reachable state of any protocol whose `reset` does not store to my_may_have_children.
-/
import TbbVerif.Proofs.C04.HintA

namespace TbbVerif.C04
variable {cfg : Cfg} {reg : List Nat} {s : St} {t : Nat}

theorem hint_exec (hS : Struct reg s) (hm : RF.mhc ∉ cfg.resetSeq) (hH : Hint s) : Hint (exec cfg reg s t) where
  rseq := rseq_exec hS hm hH
  mhcReg := mhcReg_exec hS hm hH
  mhcBind := mhcBind_exec hS hm hH

theorem hint_begin (hS : Struct reg s) (hm : RF.mhc ∉ cfg.resetSeq) (hH : Hint s) (hi : s.pc t = .idle) :
    Hint (begin cfg reg s t) where
  rseq := rseq_begin hS hm hH hi
  mhcReg := mhcReg_begin hS hm hH hi
  mhcBind := mhcBind_begin hS hm hH hi

theorem sh_step (hm : RF.mhc ∉ cfg.resetSeq) (h : Struct reg s ∧ Hint s) :
    Struct reg (step cfg reg s t) ∧ Hint (step cfg reg s t) :=
  step_preserves (P := fun s => Struct reg s ∧ Hint s)
    (fun _ _ hi h => ⟨struct_begin h.1 hi, hint_begin h.1 hm h.2 hi⟩)
    (fun _ _ h => ⟨struct_exec h.1, hint_exec h.1 hm h.2⟩) s t h

theorem hint_init (reg : List Nat) (prog : Nat → List Op) : Hint (init reg prog) := by
  constructor <;> simp [init, Pc.pastHint]

theorem hint_run (cfg : Cfg) (hm : RF.mhc ∉ cfg.resetSeq) (reg : List Nat) (prog : Nat → List Op) (sched : List Nat) :
    Hint ((CtxTree cfg reg prog).run sched) :=
  (Sys.inv_run (CtxTree cfg reg prog) (fun s => Struct reg s ∧ Hint s) ⟨struct_init reg prog, hint_init reg prog⟩
    (fun _ _ h => sh_step hm h) sched).2

end TbbVerif.C04
