/-
C04 — closed witness schedules on the as-coded model (negations of the reach / sticky obligations when one of the two
generated facts is false).  Everything here is a finite computation checked by the kernel (`decide`).
-/
import TbbVerif.Model.C04

namespace TbbVerif.C04

/-- F2 scenario (DESIGN §4): thread 1 = X builds C1 ← C2 in its own list; thread 2 = B binds C5 under C2; thread 0
cancels C1; registry walk order B, X, canceller. -/
def f2Prog : Nat → List Op
  | 0 => [.cancel 1]
  | 1 => [.bind 1 none, .bind 2 (some 1)]
  | 2 => [.bind 5 (some 2)]
  | _ => []

def f2Reg : List Nat := [2, 1, 0]

/-- X completes both binds; the canceller wins, bumps the epoch, walks and syncs B's (empty) list and is pre-empted;
B binds C5 completely (snapshot of X's list epoch = 0, copy 0, register, epochs differ, fall-back lock is free,
copy 0 again); the canceller resumes and paints C2 in X's list. -/
def f2Sched : List Nat :=
  List.replicate 16 1 ++ List.replicate 10 0 ++ List.replicate 20 2 ++ List.replicate 20 0

def f2Final (cnc : Bool) : St := (CtxTree ⟨false, cnc, [.can]⟩ f2Reg f2Prog).run f2Sched

theorem f2_witness_ascoded :
    let s := f2Final false
    s.pc 0 = .idle ∧ s.pc 1 = .idle ∧ s.pc 2 = .idle ∧ s.res 0 = [true] ∧
    s.cst 5 = .bound ∧ s.par 5 = some 2 ∧ s.cst 2 = .bound ∧ s.can 2 = true ∧ s.can 5 = false := by
  decide +kernel

/-- the same schedule fails even if the binder's copies could not clear the flag: F2 is independent of that -/
theorem f2_witness_monotone_copy :
    let s := f2Final true
    s.pc 0 = .idle ∧ s.pc 1 = .idle ∧ s.pc 2 = .idle ∧ s.res 0 = [true] ∧
    s.cst 5 = .bound ∧ s.par 5 = some 2 ∧ s.cst 2 = .bound ∧ s.can 2 = true ∧ s.can 5 = false := by
  decide +kernel

/-! ### the binder's unconditional load+store copy (`copyNeverClears = false`), with the propagation mutex held -/

def staleProg : Nat → List Op
  | 0 => [.cancel 1]
  | 1 => [.bind 1 none, .bind 2 (some 1)]
  | _ => []

/-- thread 1 binds the root C1, then binds C2 under it up to and including its load of C1's flag (0); thread 0 cancels
C1 and paints the freshly registered C2; thread 1's stale store writes 0 over it. -/
def staleSched : List Nat := List.replicate 11 1 ++ List.replicate 25 0 ++ List.replicate 6 1

theorem stale_copy_witness :
    let s := (CtxTree ⟨true, false, [.can]⟩ [1, 0] staleProg).run staleSched
    s.pc 0 = .idle ∧ s.pc 1 = .idle ∧ s.res 0 = [true] ∧
    s.cst 2 = .bound ∧ s.par 2 = some 1 ∧ s.can 1 = true ∧ s.can 2 = false := by
  decide +kernel

/-- sequential: a context cancelled before its first use is un-cancelled when it is bound beneath a live parent -/
def earlyProg : Nat → List Op
  | 0 => [.bind 1 none, .cancel 2, .bind 2 (some 1)]
  | _ => []

theorem early_cancel_lost_witness :
    let s := (CtxTree ⟨true, false, [.can]⟩ [0] earlyProg).run (List.replicate 30 0)
    s.pc 0 = .idle ∧ s.res 0 = [true] ∧ s.resets 2 = 0 ∧ s.cst 2 = .bound ∧ s.can 2 = false := by
  decide +kernel

/-- with both facts true the same three schedules end well (sanity of the parameterisation) -/
theorem witnesses_repaired :
    ((CtxTree ⟨true, true, [.can]⟩ f2Reg f2Prog).run (f2Sched ++ List.replicate 30 2 ++ List.replicate 30 0)).can 5 = true ∧
    ((CtxTree ⟨true, true, [.can]⟩ [1, 0] staleProg).run staleSched).can 2 = true ∧
    ((CtxTree ⟨true, true, [.can]⟩ [0] earlyProg).run (List.replicate 30 0)).can 2 = true := by
  decide +kernel

/-! ### a `reset` that also clears my_may_have_children (`resetSeq = [.can, .mhc]`), everything else repaired -/

/-- sequential: P (context 1) gets a child (context 2, bound beneath it: e.g. a long-lived inner task_group first used
inside a task of P); the work completes and P is reset; P is used again and cancelled.  The reset cleared P's hint, so the
second `cancel_group_execution` returns at the hint test and the child is never reached. -/
def hintProg : Nat → List Op
  | 0 => [.bind 1 none, .bind 2 (some 1), .reset 1, .cancel 1]
  | _ => []

def hintSched : List Nat := List.replicate 40 0

theorem hint_cleared_witness :
    let s := (CtxTree ⟨true, true, [.can, .mhc]⟩ [0] hintProg).run hintSched
    s.pc 0 = .idle ∧ s.res 0 = [true] ∧ s.misuse 0 = false ∧ s.cst 2 = .bound ∧ s.par 2 = some 1 ∧
      s.par 1 = none ∧ s.wst 1 = 2 ∧ s.rst 1 = 1 ∧ s.rst 2 = 0 ∧ s.can 1 = true ∧ s.can 2 = false ∧ s.mhc 1 = false ∧
      s.oc 1 = false ∧ s.oc 2 = false := by
  decide +kernel

/-- the full round trip (cancel, leaf-first resets, cancel again) with the same faulty reset -/
def hintProg2 : Nat → List Op
  | 0 => [.bind 1 none, .bind 2 (some 1), .cancel 1, .reset 2, .reset 1, .cancel 1]
  | _ => []

theorem hint_cleared_witness2 :
    let s := (CtxTree ⟨true, true, [.can, .mhc]⟩ [0] hintProg2).run (List.replicate 60 0)
    s.pc 0 = .idle ∧ s.res 0 = [true, true] ∧ s.misuse 0 = false ∧ s.cst 2 = .bound ∧ s.par 2 = some 1 ∧
      s.can 1 = true ∧ s.can 2 = false := by
  decide +kernel

/-- as coded (`reset` stores only the cancellation flag) both programs end with the child cancelled -/
theorem hint_kept_witness :
    ((CtxTree ⟨true, true, [.can]⟩ [0] hintProg).run (List.replicate 40 0)).can 2 = true ∧
    ((CtxTree ⟨true, true, [.can]⟩ [0] hintProg2).run (List.replicate 60 0)).can 2 = true ∧
    ((CtxTree ⟨true, true, [.can]⟩ [0] hintProg2).run (List.replicate 60 0)).res 0 = [true, true] := by
  decide +kernel

/-! ### dynamic registry: a thread that leaves while contexts it bound are still in use (repaired protocol) -/

/-- thread 0 binds the root context 1; thread 1 binds context 2 beneath it (2 is registered in thread 1's list) and exits:
unregister_thread removes its thread_data from the registry, ~thread_data orphans its (non-empty) context list; thread 0
then cancels context 1: the call wins and walks the lists of the registered threads — thread 0's only. -/
def orphProg : Nat → List Op
  | 0 => [.bind 1 none, .cancel 1]
  | 1 => [.bind 2 (some 1), .exit]
  | _ => []

def orphSched : List Nat := List.replicate 4 0 ++ List.replicate 14 1 ++ List.replicate 20 0

theorem orphan_witness :
    let s := (CtxTree ⟨true, true, [.can]⟩ [1, 0] orphProg).run orphSched
    s.pc 0 = .idle ∧ s.pc 1 = .idle ∧ s.res 0 = [true] ∧ s.misuse 0 = false ∧ s.misuse 1 = false ∧
      s.cst 2 = .bound ∧ s.par 2 = some 1 ∧ s.par 1 = none ∧ s.wst 1 = 1 ∧ s.rst 1 = 0 ∧ s.rst 2 = 0 ∧
      s.can 1 = true ∧ s.can 2 = false ∧ s.act 1 = false ∧ s.orph 1 = true ∧ s.oc 2 = true ∧ s.lst 2 = some 1 := by
  decide +kernel

/-- a thread that registers during the run, after a propagation (its fresh list has epoch 0 while the global epoch is 1),
and binds a context beneath the already cancelled context: the epoch comparison sends the binder to the locked re-copy
and the context ends cancelled -/
def lateProg : Nat → List Op
  | 0 => [.bind 1 none, .bind 2 (some 1), .cancel 1]
  | 1 => [.register, .bind 3 (some 2)]
  | _ => []

def lateSched : List Nat := List.replicate 40 0 ++ List.replicate 20 1

theorem late_register_witness :
    let s := (CtxTree ⟨true, true, [.can]⟩ [1, 0] lateProg).run lateSched
    s.pc 0 = .idle ∧ s.pc 1 = .idle ∧ s.res 0 = [true] ∧ s.misuse 1 = false ∧ s.act 1 = true ∧ s.joined 1 = 1 ∧
      s.epoch 1 = 0 ∧ s.G = 1 ∧ s.cst 3 = .bound ∧ s.par 3 = some 2 ∧ s.lst 3 = some 1 ∧ s.can 1 = true ∧
      s.can 2 = true ∧ s.can 3 = true ∧ s.oc 3 = false := by
  decide +kernel

end TbbVerif.C04
