/-
C04 — closed witness schedules on the as-coded model (negations of the reach / sticky obligations when one of the two
generated facts is false).  Everything here is a finite computation checked by the kernel (`decide`).
-/
import TbbVerif.Model.C04

namespace TbbVerif.C04

/-- F2 scenario (DESIGN §4): thread 1 = X builds C1 ← C2 in its own list; thread 2 = B binds C5 under C2; thread 0
cancels C1; registry walk order B, X, canceller. -/
def f2Prog : Nat → List Op
  | 0 => [.cancel 1]
  | 1 => [.bind 1 none, .bind 2 (some 1)]
  | 2 => [.bind 5 (some 2)]
  | _ => []

def f2Reg : List Nat := [2, 1, 0]

/-- X completes both binds; the canceller wins, bumps the epoch, walks and syncs B's (empty) list and is pre-empted;
B binds C5 completely (snapshot of X's list epoch = 0, copy 0, register, epochs differ, fall-back lock is free,
copy 0 again); the canceller resumes and paints C2 in X's list. -/
def f2Sched : List Nat :=
  List.replicate 16 1 ++ List.replicate 10 0 ++ List.replicate 20 2 ++ List.replicate 20 0

def f2Final (cnc : Bool) : St := (CtxTree ⟨false, cnc⟩ f2Reg f2Prog).run f2Sched

theorem f2_witness_ascoded :
    let s := f2Final false
    s.pc 0 = .idle ∧ s.pc 1 = .idle ∧ s.pc 2 = .idle ∧ s.res 0 = [true] ∧
    s.cst 5 = .bound ∧ s.par 5 = some 2 ∧ s.cst 2 = .bound ∧ s.can 2 = true ∧ s.can 5 = false := by
  decide +kernel

/-- the same schedule fails even if the binder's copies could not clear the flag: F2 is independent of that -/
theorem f2_witness_monotone_copy :
    let s := f2Final true
    s.pc 0 = .idle ∧ s.pc 1 = .idle ∧ s.pc 2 = .idle ∧ s.res 0 = [true] ∧
    s.cst 5 = .bound ∧ s.par 5 = some 2 ∧ s.cst 2 = .bound ∧ s.can 2 = true ∧ s.can 5 = false := by
  decide +kernel

/-! ### the binder's unconditional load+store copy (`copyNeverClears = false`), with the propagation mutex held -/

def staleProg : Nat → List Op
  | 0 => [.cancel 1]
  | 1 => [.bind 1 none, .bind 2 (some 1)]
  | _ => []

/-- thread 1 binds the root C1, then binds C2 under it up to and including its load of C1's flag (0); thread 0 cancels
C1 and paints the freshly registered C2; thread 1's stale store writes 0 over it. -/
def staleSched : List Nat := List.replicate 11 1 ++ List.replicate 25 0 ++ List.replicate 6 1

theorem stale_copy_witness :
    let s := (CtxTree ⟨true, false⟩ [1, 0] staleProg).run staleSched
    s.pc 0 = .idle ∧ s.pc 1 = .idle ∧ s.res 0 = [true] ∧
    s.cst 2 = .bound ∧ s.par 2 = some 1 ∧ s.can 1 = true ∧ s.can 2 = false := by
  decide +kernel

/-- sequential: a context cancelled before its first use is un-cancelled when it is bound beneath a live parent -/
def earlyProg : Nat → List Op
  | 0 => [.bind 1 none, .cancel 2, .bind 2 (some 1)]
  | _ => []

theorem early_cancel_lost_witness :
    let s := (CtxTree ⟨true, false⟩ [0] earlyProg).run (List.replicate 30 0)
    s.pc 0 = .idle ∧ s.res 0 = [true] ∧ s.resets 2 = 0 ∧ s.cst 2 = .bound ∧ s.can 2 = false := by
  decide +kernel

/-- with both facts true the same three schedules end well (sanity of the parameterisation) -/
theorem witnesses_repaired :
    ((CtxTree ⟨true, true⟩ f2Reg f2Prog).run (f2Sched ++ List.replicate 30 2 ++ List.replicate 30 0)).can 5 = true ∧
    ((CtxTree ⟨true, true⟩ [1, 0] staleProg).run staleSched).can 2 = true ∧
    ((CtxTree ⟨true, true⟩ [0] earlyProg).run (List.replicate 30 0)).can 2 = true := by
  decide +kernel

end TbbVerif.C04
