/-
C04 proofs — structural invariants (propMx, propHeld, noResetOp, noResetPc, epochLe): preservation by `exec` and `begin`.
-/
import TbbVerif.Proofs.C04.ReachLemmas

namespace TbbVerif.C04
variable {cfg : Cfg} {reg : List Nat} {s : St} {t : Nat}

theorem propMx_exec (hS : Struct reg s) (hO : Orig s) (hR : Reach reg s) :
    ∀ t', ((exec C reg s t).pc t').inProp = true → (exec C reg s t).propMx = some t' := by
  have g0 := hR.propMx
  have g0t := hR.propMx t
  exec_cases_C
  all_goals (try rw [‹s.pc t = _›] at g0t)
  all_goals (try simp [Pc.inProp] at g0t)
  all_goals (intro t' h1; by_cases ht : t' = t <;> first | (subst ht; try simp [C, upd_apply, afterLists, nextList, Pc.inProp] at h1 ⊢) | (try simp [ht, upd_apply, afterLists, nextList] at h1 ⊢))
  all_goals grind [Pc.inProp]

theorem propMx_begin (hS : Struct reg s) (hO : Orig s) (hR : Reach reg s) (hi : s.pc t = .idle) :
    ∀ t', ((begin reg s t).pc t').inProp = true → (begin reg s t).propMx = some t' := by
  have g0 := hR.propMx
  have g0t := hR.propMx t
  begin_cases
  all_goals (try rw [hi] at g0t)
  all_goals (try simp [Pc.inProp] at g0t)
  all_goals (intro t' h1; by_cases ht : t' = t <;> first | (subst ht; try simp [C, upd_apply, afterLists, nextList, Pc.inProp] at h1 ⊢) | (try simp [ht, upd_apply, afterLists, nextList] at h1 ⊢))
  all_goals grind [Pc.inProp]

theorem propHeld_exec (hS : Struct reg s) (hO : Orig s) (hR : Reach reg s) :
    ∀ t', (exec C reg s t).propMx = some t' → ((exec C reg s t).pc t').inProp = true := by
  have g0 := hR.propMx
  have g0t := hR.propMx t
  have g1 := hR.propHeld
  have g1t := hR.propHeld t
  exec_cases_C
  all_goals (try rw [‹s.pc t = _›] at g0t)
  all_goals (try simp [Pc.inProp] at g0t)
  all_goals (try rw [‹s.pc t = _›] at g1t)
  all_goals (try simp [Pc.inProp] at g1t)
  all_goals (intro t' h1; by_cases ht : t' = t <;> first | (subst ht; try simp [C, upd_apply, afterLists, nextList, Pc.inProp] at h1 ⊢) | (try simp [ht, upd_apply, afterLists, nextList] at h1 ⊢))
  all_goals grind [Pc.inProp]

theorem propHeld_begin (hS : Struct reg s) (hO : Orig s) (hR : Reach reg s) (hi : s.pc t = .idle) :
    ∀ t', (begin reg s t).propMx = some t' → ((begin reg s t).pc t').inProp = true := by
  have g0 := hR.propMx
  have g0t := hR.propMx t
  have g1 := hR.propHeld
  have g1t := hR.propHeld t
  begin_cases
  all_goals (try rw [hi] at g0t)
  all_goals (try simp [Pc.inProp] at g0t)
  all_goals (try rw [hi] at g1t)
  all_goals (try simp [Pc.inProp] at g1t)
  all_goals (intro t' h1; by_cases ht : t' = t <;> first | (subst ht; try simp [C, upd_apply, afterLists, nextList, Pc.inProp] at h1 ⊢) | (try simp [ht, upd_apply, afterLists, nextList] at h1 ⊢))
  all_goals grind [Pc.inProp]

theorem noResetOp_exec (hS : Struct reg s) (hO : Orig s) (hR : Reach reg s) :
    ∀ t' x, Op.reset x ∉ (exec C reg s t).prog t' := by
  have g0 := hR.noResetOp
  have g0t := hR.noResetOp t
  exec_cases_C
  all_goals (try rw [‹s.pc t = _›] at g0t)
  all_goals (try simp [List.mem_cons] at g0t)
  all_goals (intro t' x; by_cases ht : t' = t <;> first | (subst ht; try simp [C, upd_apply, afterLists, nextList, List.mem_cons] at  ⊢) | (try simp [ht, upd_apply, afterLists, nextList] at  ⊢))
  all_goals grind [List.mem_cons]

theorem noResetOp_begin (hS : Struct reg s) (hO : Orig s) (hR : Reach reg s) (hi : s.pc t = .idle) :
    ∀ t' x, Op.reset x ∉ (begin reg s t).prog t' := by
  have g0 := hR.noResetOp
  have g0t := hR.noResetOp t
  begin_cases
  all_goals (try rw [hi] at g0t)
  all_goals (try simp [List.mem_cons] at g0t)
  all_goals (intro t' x; by_cases ht : t' = t <;> first | (subst ht; try simp [C, upd_apply, afterLists, nextList, List.mem_cons] at  ⊢) | (try simp [ht, upd_apply, afterLists, nextList] at  ⊢))
  all_goals grind [List.mem_cons]

theorem noResetPc_exec (hS : Struct reg s) (hO : Orig s) (hR : Reach reg s) :
    ∀ t' x, (exec C reg s t).pc t' ≠ .rStore x := by
  have g0 := hR.noResetPc
  have g0t := hR.noResetPc t
  have g1 := hR.noResetOp
  have g1t := hR.noResetOp t
  exec_cases_C
  all_goals (try rw [‹s.pc t = _›] at g0t)
  all_goals (try simp [List.mem_cons] at g0t)
  all_goals (try rw [‹s.pc t = _›] at g1t)
  all_goals (try simp [List.mem_cons] at g1t)
  all_goals (intro t' x; by_cases ht : t' = t <;> first | (subst ht; try simp [C, upd_apply, afterLists, nextList, List.mem_cons] at  ⊢) | (try simp [ht, upd_apply, afterLists, nextList] at  ⊢))
  all_goals grind [List.mem_cons]

theorem noResetPc_begin (hS : Struct reg s) (hO : Orig s) (hR : Reach reg s) (hi : s.pc t = .idle) :
    ∀ t' x, (begin reg s t).pc t' ≠ .rStore x := by
  have g0 := hR.noResetPc
  have g0t := hR.noResetPc t
  have g1 := hR.noResetOp
  have g1t := hR.noResetOp t
  begin_cases
  all_goals (try rw [hi] at g0t)
  all_goals (try simp [List.mem_cons] at g0t)
  all_goals (try rw [hi] at g1t)
  all_goals (try simp [List.mem_cons] at g1t)
  all_goals (intro t' x; by_cases ht : t' = t <;> first | (subst ht; try simp [C, upd_apply, afterLists, nextList, List.mem_cons] at  ⊢) | (try simp [ht, upd_apply, afterLists, nextList] at  ⊢))
  all_goals grind [List.mem_cons]

theorem epochLe_exec (hS : Struct reg s) (hO : Orig s) (hR : Reach reg s) :
    ∀ L, (exec C reg s t).epoch L ≤ (exec C reg s t).G := by
  have g0 := hR.epochLe
  have g1 := hR.syncG
  have g1t := hR.syncG t
  exec_cases_C
  all_goals (try rw [‹s.pc t = _›] at g1t)
  all_goals (try simp [] at g1t)
  all_goals (intro L; try simp [C, upd_apply, afterLists, nextList] at  ⊢)
  all_goals grind []

theorem epochLe_begin (hS : Struct reg s) (hO : Orig s) (hR : Reach reg s) (hi : s.pc t = .idle) :
    ∀ L, (begin reg s t).epoch L ≤ (begin reg s t).G := by
  have g0 := hR.epochLe
  have g1 := hR.syncG
  have g1t := hR.syncG t
  begin_cases
  all_goals (try rw [hi] at g1t)
  all_goals (try simp [] at g1t)
  all_goals (intro L; try simp [C, upd_apply, afterLists, nextList] at  ⊢)
  all_goals grind []

end TbbVerif.C04
