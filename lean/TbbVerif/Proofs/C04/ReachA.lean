/-
C04 proofs — structural invariants (propMx, propHeld, epochLe, joinedLe, freshLe, walkG, syncG): preservation by `exec` and `begin`.
-/
import TbbVerif.Proofs.C04.HintA

namespace TbbVerif.C04
variable {cfg : Cfg} {r : List RF} {reg : List Nat} {s : St} {t : Nat}

theorem propMx_exec_c (hS : Struct reg s) (hO : Orig s) (hH : Hint s) (hR : Reach reg s) :
    ∀ t', ((execCancel (C r) reg s t).pc t').inProp = true → (execCancel (C r) reg s t).propMx = some t' := by
  have g0 := hR.propMx
  have g0t := hR.propMx t
  unfold execCancel
  try unfold walkNext
  try unfold afterHint
  try unfold applyReset
  try simp only [C_propHolds, C_copyNeverClears, afterLists, ↓reduceIte, Bool.true_and]
  repeat' split
  all_goals (try rw [‹s.pc t = _›] at g0t)
  all_goals (try simp [Pc.inProp] at g0t)
  all_goals (intro t' h1; by_cases ht : t' = t <;> first | (subst ht; try simp [C, upd_apply, afterLists, nextList, Pc.inProp] at h1 ⊢) | (try simp [ht, C, upd_apply, afterLists, nextList] at h1 ⊢))
  all_goals grind [Pc.inProp]

theorem propMx_exec_b (hS : Struct reg s) (hO : Orig s) (hH : Hint s) (hR : Reach reg s) :
    ∀ t', ((execBind (C r) s t).pc t').inProp = true → (execBind (C r) s t).propMx = some t' := by
  have g0 := hR.propMx
  have g0t := hR.propMx t
  unfold execBind
  try unfold walkNext
  try unfold afterHint
  try unfold applyReset
  try simp only [C_propHolds, C_copyNeverClears, afterLists, ↓reduceIte, Bool.true_and]
  repeat' split
  all_goals (try rw [‹s.pc t = _›] at g0t)
  all_goals (try simp [Pc.inProp] at g0t)
  all_goals (intro t' h1; by_cases ht : t' = t <;> first | (subst ht; try simp [C, upd_apply, afterLists, nextList, Pc.inProp] at h1 ⊢) | (try simp [ht, C, upd_apply, afterLists, nextList] at h1 ⊢))
  all_goals grind [Pc.inProp]

theorem propMx_exec_o (hS : Struct reg s) (hO : Orig s) (hH : Hint s) (hR : Reach reg s) :
    ∀ t', ((execOther s t).pc t').inProp = true → (execOther s t).propMx = some t' := by
  have g0 := hR.propMx
  have g0t := hR.propMx t
  unfold execOther
  try unfold walkNext
  try unfold afterHint
  try unfold applyReset
  try simp only [C_propHolds, C_copyNeverClears, afterLists, ↓reduceIte, Bool.true_and]
  repeat' split
  all_goals (try rw [‹s.pc t = _›] at g0t)
  all_goals (try simp [Pc.inProp] at g0t)
  all_goals (intro t' h1; by_cases ht : t' = t <;> first | (subst ht; try simp [C, upd_apply, afterLists, nextList, Pc.inProp] at h1 ⊢) | (try simp [ht, C, upd_apply, afterLists, nextList] at h1 ⊢))
  all_goals grind [Pc.inProp]

theorem propMx_exec (hS : Struct reg s) (hO : Orig s) (hH : Hint s) (hR : Reach reg s) :
    ∀ t', ((exec (C r) reg s t).pc t').inProp = true → (exec (C r) reg s t).propMx = some t' := by
  unfold exec
  split
  · exact propMx_exec_c hS hO hH hR
  · split
    · exact propMx_exec_b hS hO hH hR
    · exact propMx_exec_o hS hO hH hR

theorem propMx_begin (hS : Struct reg s) (hO : Orig s) (hH : Hint s) (hR : Reach reg s) (hi : s.pc t = .idle) :
    ∀ t', ((begin (C r) reg s t).pc t').inProp = true → (begin (C r) reg s t).propMx = some t' := by
  have g0 := hR.propMx
  have g0t := hR.propMx t
  begin_cases
  all_goals (try rw [hi] at g0t)
  all_goals (try simp [Pc.inProp] at g0t)
  all_goals (intro t' h1; by_cases ht : t' = t <;> first | (subst ht; try simp [C, upd_apply, afterLists, nextList, Pc.inProp] at h1 ⊢) | (try simp [ht, C, upd_apply, afterLists, nextList] at h1 ⊢))
  all_goals grind [Pc.inProp]

theorem propHeld_exec_c (hS : Struct reg s) (hO : Orig s) (hH : Hint s) (hR : Reach reg s) :
    ∀ t', (execCancel (C r) reg s t).propMx = some t' → ((execCancel (C r) reg s t).pc t').inProp = true := by
  have g0 := hR.propMx
  have g0t := hR.propMx t
  have g1 := hR.propHeld
  have g1t := hR.propHeld t
  unfold execCancel
  try unfold walkNext
  try unfold afterHint
  try unfold applyReset
  try simp only [C_propHolds, C_copyNeverClears, afterLists, ↓reduceIte, Bool.true_and]
  repeat' split
  all_goals (try rw [‹s.pc t = _›] at g0t)
  all_goals (try simp [Pc.inProp] at g0t)
  all_goals (try rw [‹s.pc t = _›] at g1t)
  all_goals (try simp [Pc.inProp] at g1t)
  all_goals (intro t' h1; by_cases ht : t' = t <;> first | (subst ht; try simp [C, upd_apply, afterLists, nextList, Pc.inProp] at h1 ⊢) | (try simp [ht, C, upd_apply, afterLists, nextList] at h1 ⊢))
  all_goals grind [Pc.inProp]

theorem propHeld_exec_b (hS : Struct reg s) (hO : Orig s) (hH : Hint s) (hR : Reach reg s) :
    ∀ t', (execBind (C r) s t).propMx = some t' → ((execBind (C r) s t).pc t').inProp = true := by
  have g0 := hR.propMx
  have g0t := hR.propMx t
  have g1 := hR.propHeld
  have g1t := hR.propHeld t
  unfold execBind
  try unfold walkNext
  try unfold afterHint
  try unfold applyReset
  try simp only [C_propHolds, C_copyNeverClears, afterLists, ↓reduceIte, Bool.true_and]
  repeat' split
  all_goals (try rw [‹s.pc t = _›] at g0t)
  all_goals (try simp [Pc.inProp] at g0t)
  all_goals (try rw [‹s.pc t = _›] at g1t)
  all_goals (try simp [Pc.inProp] at g1t)
  all_goals (intro t' h1; by_cases ht : t' = t <;> first | (subst ht; try simp [C, upd_apply, afterLists, nextList, Pc.inProp] at h1 ⊢) | (try simp [ht, C, upd_apply, afterLists, nextList] at h1 ⊢))
  all_goals grind [Pc.inProp]

theorem propHeld_exec_o (hS : Struct reg s) (hO : Orig s) (hH : Hint s) (hR : Reach reg s) :
    ∀ t', (execOther s t).propMx = some t' → ((execOther s t).pc t').inProp = true := by
  have g0 := hR.propMx
  have g0t := hR.propMx t
  have g1 := hR.propHeld
  have g1t := hR.propHeld t
  unfold execOther
  try unfold walkNext
  try unfold afterHint
  try unfold applyReset
  try simp only [C_propHolds, C_copyNeverClears, afterLists, ↓reduceIte, Bool.true_and]
  repeat' split
  all_goals (try rw [‹s.pc t = _›] at g0t)
  all_goals (try simp [Pc.inProp] at g0t)
  all_goals (try rw [‹s.pc t = _›] at g1t)
  all_goals (try simp [Pc.inProp] at g1t)
  all_goals (intro t' h1; by_cases ht : t' = t <;> first | (subst ht; try simp [C, upd_apply, afterLists, nextList, Pc.inProp] at h1 ⊢) | (try simp [ht, C, upd_apply, afterLists, nextList] at h1 ⊢))
  all_goals grind [Pc.inProp]

theorem propHeld_exec (hS : Struct reg s) (hO : Orig s) (hH : Hint s) (hR : Reach reg s) :
    ∀ t', (exec (C r) reg s t).propMx = some t' → ((exec (C r) reg s t).pc t').inProp = true := by
  unfold exec
  split
  · exact propHeld_exec_c hS hO hH hR
  · split
    · exact propHeld_exec_b hS hO hH hR
    · exact propHeld_exec_o hS hO hH hR

theorem propHeld_begin (hS : Struct reg s) (hO : Orig s) (hH : Hint s) (hR : Reach reg s) (hi : s.pc t = .idle) :
    ∀ t', (begin (C r) reg s t).propMx = some t' → ((begin (C r) reg s t).pc t').inProp = true := by
  have g0 := hR.propMx
  have g0t := hR.propMx t
  have g1 := hR.propHeld
  have g1t := hR.propHeld t
  begin_cases
  all_goals (try rw [hi] at g0t)
  all_goals (try simp [Pc.inProp] at g0t)
  all_goals (try rw [hi] at g1t)
  all_goals (try simp [Pc.inProp] at g1t)
  all_goals (intro t' h1; by_cases ht : t' = t <;> first | (subst ht; try simp [C, upd_apply, afterLists, nextList, Pc.inProp] at h1 ⊢) | (try simp [ht, C, upd_apply, afterLists, nextList] at h1 ⊢))
  all_goals grind [Pc.inProp]

theorem epochLe_exec_c (hS : Struct reg s) (hO : Orig s) (hH : Hint s) (hR : Reach reg s) :
    ∀ L, (execCancel (C r) reg s t).epoch L ≤ (execCancel (C r) reg s t).G := by
  have g0 := hR.epochLe
  have g1 := hR.syncG
  have g1t := hR.syncG t
  unfold execCancel
  try unfold walkNext
  try unfold afterHint
  try unfold applyReset
  try simp only [C_propHolds, C_copyNeverClears, afterLists, ↓reduceIte, Bool.true_and]
  repeat' split
  all_goals (try rw [‹s.pc t = _›] at g1t)
  all_goals (try simp [] at g1t)
  all_goals (intro L; try simp [C, upd_apply, afterLists, nextList] at  ⊢)
  all_goals grind []

theorem epochLe_exec_b (hS : Struct reg s) (hO : Orig s) (hH : Hint s) (hR : Reach reg s) :
    ∀ L, (execBind (C r) s t).epoch L ≤ (execBind (C r) s t).G := by
  have g0 := hR.epochLe
  have g1 := hR.syncG
  have g1t := hR.syncG t
  unfold execBind
  try unfold walkNext
  try unfold afterHint
  try unfold applyReset
  try simp only [C_propHolds, C_copyNeverClears, afterLists, ↓reduceIte, Bool.true_and]
  repeat' split
  all_goals (try rw [‹s.pc t = _›] at g1t)
  all_goals (try simp [] at g1t)
  all_goals (intro L; try simp [C, upd_apply, afterLists, nextList] at  ⊢)
  all_goals grind []

theorem epochLe_exec_o (hS : Struct reg s) (hO : Orig s) (hH : Hint s) (hR : Reach reg s) :
    ∀ L, (execOther s t).epoch L ≤ (execOther s t).G := by
  have g0 := hR.epochLe
  have g1 := hR.syncG
  have g1t := hR.syncG t
  unfold execOther
  try unfold walkNext
  try unfold afterHint
  try unfold applyReset
  try simp only [C_propHolds, C_copyNeverClears, afterLists, ↓reduceIte, Bool.true_and]
  repeat' split
  all_goals (try rw [‹s.pc t = _›] at g1t)
  all_goals (try simp [] at g1t)
  all_goals (intro L; try simp [C, upd_apply, afterLists, nextList] at  ⊢)
  all_goals grind []

theorem epochLe_exec (hS : Struct reg s) (hO : Orig s) (hH : Hint s) (hR : Reach reg s) :
    ∀ L, (exec (C r) reg s t).epoch L ≤ (exec (C r) reg s t).G := by
  unfold exec
  split
  · exact epochLe_exec_c hS hO hH hR
  · split
    · exact epochLe_exec_b hS hO hH hR
    · exact epochLe_exec_o hS hO hH hR

theorem epochLe_begin (hS : Struct reg s) (hO : Orig s) (hH : Hint s) (hR : Reach reg s) (hi : s.pc t = .idle) :
    ∀ L, (begin (C r) reg s t).epoch L ≤ (begin (C r) reg s t).G := by
  have g0 := hR.epochLe
  have g1 := hR.syncG
  have g1t := hR.syncG t
  begin_cases
  all_goals (try rw [hi] at g1t)
  all_goals (try simp [] at g1t)
  all_goals (intro L; try simp [C, upd_apply, afterLists, nextList] at  ⊢)
  all_goals grind []

theorem joinedLe_exec_c (hS : Struct reg s) (hO : Orig s) (hH : Hint s) (hR : Reach reg s) :
    ∀ L, (execCancel (C r) reg s t).joined L ≤ (execCancel (C r) reg s t).G := by
  have g0 := hR.joinedLe
  unfold execCancel
  try unfold walkNext
  try unfold afterHint
  try unfold applyReset
  try simp only [C_propHolds, C_copyNeverClears, afterLists, ↓reduceIte, Bool.true_and]
  repeat' split
  all_goals (intro L; try simp [C, upd_apply, afterLists, nextList] at  ⊢)
  all_goals grind []

theorem joinedLe_exec_b (hS : Struct reg s) (hO : Orig s) (hH : Hint s) (hR : Reach reg s) :
    ∀ L, (execBind (C r) s t).joined L ≤ (execBind (C r) s t).G := by
  have g0 := hR.joinedLe
  unfold execBind
  try unfold walkNext
  try unfold afterHint
  try unfold applyReset
  try simp only [C_propHolds, C_copyNeverClears, afterLists, ↓reduceIte, Bool.true_and]
  repeat' split
  all_goals (intro L; try simp [C, upd_apply, afterLists, nextList] at  ⊢)
  all_goals grind []

theorem joinedLe_exec_o (hS : Struct reg s) (hO : Orig s) (hH : Hint s) (hR : Reach reg s) :
    ∀ L, (execOther s t).joined L ≤ (execOther s t).G := by
  have g0 := hR.joinedLe
  unfold execOther
  try unfold walkNext
  try unfold afterHint
  try unfold applyReset
  try simp only [C_propHolds, C_copyNeverClears, afterLists, ↓reduceIte, Bool.true_and]
  repeat' split
  all_goals (intro L; try simp [C, upd_apply, afterLists, nextList] at  ⊢)
  all_goals grind []

theorem joinedLe_exec (hS : Struct reg s) (hO : Orig s) (hH : Hint s) (hR : Reach reg s) :
    ∀ L, (exec (C r) reg s t).joined L ≤ (exec (C r) reg s t).G := by
  unfold exec
  split
  · exact joinedLe_exec_c hS hO hH hR
  · split
    · exact joinedLe_exec_b hS hO hH hR
    · exact joinedLe_exec_o hS hO hH hR

theorem joinedLe_begin (hS : Struct reg s) (hO : Orig s) (hH : Hint s) (hR : Reach reg s) (hi : s.pc t = .idle) :
    ∀ L, (begin (C r) reg s t).joined L ≤ (begin (C r) reg s t).G := by
  have g0 := hR.joinedLe
  begin_cases
  all_goals (intro L; try simp [C, upd_apply, afterLists, nextList] at  ⊢)
  all_goals grind []

theorem freshLe_exec_c (hS : Struct reg s) (hO : Orig s) (hH : Hint s) (hR : Reach reg s) :
    ∀ L, (execCancel (C r) reg s t).fresh L = true → (execCancel (C r) reg s t).epoch L ≤ (execCancel (C r) reg s t).joined L := by
  have g0 := hR.freshLe
  have g1 := hR.epochLe
  have g2 := hS.walkAct
  have g2t := hS.walkAct t
  have g3 := hS.regPc
  have g3t := hS.regPc t
  unfold execCancel
  try unfold walkNext
  try unfold afterHint
  try unfold applyReset
  try simp only [C_propHolds, C_copyNeverClears, afterLists, ↓reduceIte, Bool.true_and]
  repeat' split
  all_goals (try rw [‹s.pc t = _›] at g2t)
  all_goals (try simp [Pc.atList] at g2t)
  all_goals (try rw [‹s.pc t = _›] at g3t)
  all_goals (try simp [Pc.atList] at g3t)
  all_goals (intro L h1; try simp [C, upd_apply, afterLists, nextList] at h1 ⊢)
  all_goals grind [Pc.atList]

theorem freshLe_exec_b (hS : Struct reg s) (hO : Orig s) (hH : Hint s) (hR : Reach reg s) :
    ∀ L, (execBind (C r) s t).fresh L = true → (execBind (C r) s t).epoch L ≤ (execBind (C r) s t).joined L := by
  have g0 := hR.freshLe
  have g1 := hR.epochLe
  have g2 := hS.walkAct
  have g2t := hS.walkAct t
  have g3 := hS.regPc
  have g3t := hS.regPc t
  unfold execBind
  try unfold walkNext
  try unfold afterHint
  try unfold applyReset
  try simp only [C_propHolds, C_copyNeverClears, afterLists, ↓reduceIte, Bool.true_and]
  repeat' split
  all_goals (try rw [‹s.pc t = _›] at g2t)
  all_goals (try simp [Pc.atList] at g2t)
  all_goals (try rw [‹s.pc t = _›] at g3t)
  all_goals (try simp [Pc.atList] at g3t)
  all_goals (intro L h1; try simp [C, upd_apply, afterLists, nextList] at h1 ⊢)
  all_goals grind [Pc.atList]

theorem freshLe_exec_o (hS : Struct reg s) (hO : Orig s) (hH : Hint s) (hR : Reach reg s) :
    ∀ L, (execOther s t).fresh L = true → (execOther s t).epoch L ≤ (execOther s t).joined L := by
  have g0 := hR.freshLe
  have g1 := hR.epochLe
  have g2 := hS.walkAct
  have g2t := hS.walkAct t
  have g3 := hS.regPc
  have g3t := hS.regPc t
  unfold execOther
  try unfold walkNext
  try unfold afterHint
  try unfold applyReset
  try simp only [C_propHolds, C_copyNeverClears, afterLists, ↓reduceIte, Bool.true_and]
  repeat' split
  all_goals (try rw [‹s.pc t = _›] at g2t)
  all_goals (try simp [Pc.atList] at g2t)
  all_goals (try rw [‹s.pc t = _›] at g3t)
  all_goals (try simp [Pc.atList] at g3t)
  all_goals (intro L h1; try simp [C, upd_apply, afterLists, nextList] at h1 ⊢)
  all_goals grind [Pc.atList]

theorem freshLe_exec (hS : Struct reg s) (hO : Orig s) (hH : Hint s) (hR : Reach reg s) :
    ∀ L, (exec (C r) reg s t).fresh L = true → (exec (C r) reg s t).epoch L ≤ (exec (C r) reg s t).joined L := by
  unfold exec
  split
  · exact freshLe_exec_c hS hO hH hR
  · split
    · exact freshLe_exec_b hS hO hH hR
    · exact freshLe_exec_o hS hO hH hR

theorem freshLe_begin (hS : Struct reg s) (hO : Orig s) (hH : Hint s) (hR : Reach reg s) (hi : s.pc t = .idle) :
    ∀ L, (begin (C r) reg s t).fresh L = true → (begin (C r) reg s t).epoch L ≤ (begin (C r) reg s t).joined L := by
  have g0 := hR.freshLe
  have g1 := hR.epochLe
  have g2 := hS.walkAct
  have g2t := hS.walkAct t
  have g3 := hS.regPc
  have g3t := hS.regPc t
  begin_cases
  all_goals (try rw [hi] at g2t)
  all_goals (try simp [Pc.atList] at g2t)
  all_goals (try rw [hi] at g3t)
  all_goals (try simp [Pc.atList] at g3t)
  all_goals (intro L h1; try simp [C, upd_apply, afterLists, nextList] at h1 ⊢)
  all_goals grind [Pc.atList]

theorem walkG_exec_c (hS : Struct reg s) (hO : Orig s) (hH : Hint s) (hR : Reach reg s) :
    ∀ t' a, ((execCancel (C r) reg s t).pc t').walkSrc = some a → (execCancel (C r) reg s t).srcOf (execCancel (C r) reg s t).G = a ∧ 1 ≤ (execCancel (C r) reg s t).G := by
  have g0 := hR.walkG
  have g0t := hR.walkG t
  have g1 := hS.regMx
  have g1t := hS.regMx t
  unfold execCancel
  try unfold walkNext
  try unfold afterHint
  try unfold applyReset
  try simp only [C_propHolds, C_copyNeverClears, afterLists, ↓reduceIte, Bool.true_and]
  repeat' split
  all_goals (try rw [‹s.pc t = _›] at g0t)
  all_goals (try simp [Pc.walkSrc, Pc.inReg, Pc.walkSrc_inReg] at g0t)
  all_goals (try rw [‹s.pc t = _›] at g1t)
  all_goals (try simp [Pc.walkSrc, Pc.inReg, Pc.walkSrc_inReg] at g1t)
  all_goals (intro t' a h1; by_cases ht : t' = t <;> first | (subst ht; try simp [C, upd_apply, afterLists, nextList, Pc.walkSrc, Pc.inReg, Pc.walkSrc_inReg] at h1 ⊢) | (try simp [ht, C, upd_apply, afterLists, nextList] at h1 ⊢))
  all_goals grind [Pc.walkSrc, Pc.inReg, Pc.walkSrc_inReg]

theorem walkG_exec_b (hS : Struct reg s) (hO : Orig s) (hH : Hint s) (hR : Reach reg s) :
    ∀ t' a, ((execBind (C r) s t).pc t').walkSrc = some a → (execBind (C r) s t).srcOf (execBind (C r) s t).G = a ∧ 1 ≤ (execBind (C r) s t).G := by
  have g0 := hR.walkG
  have g0t := hR.walkG t
  have g1 := hS.regMx
  have g1t := hS.regMx t
  unfold execBind
  try unfold walkNext
  try unfold afterHint
  try unfold applyReset
  try simp only [C_propHolds, C_copyNeverClears, afterLists, ↓reduceIte, Bool.true_and]
  repeat' split
  all_goals (try rw [‹s.pc t = _›] at g0t)
  all_goals (try simp [Pc.walkSrc, Pc.inReg, Pc.walkSrc_inReg] at g0t)
  all_goals (try rw [‹s.pc t = _›] at g1t)
  all_goals (try simp [Pc.walkSrc, Pc.inReg, Pc.walkSrc_inReg] at g1t)
  all_goals (intro t' a h1; by_cases ht : t' = t <;> first | (subst ht; try simp [C, upd_apply, afterLists, nextList, Pc.walkSrc, Pc.inReg, Pc.walkSrc_inReg] at h1 ⊢) | (try simp [ht, C, upd_apply, afterLists, nextList] at h1 ⊢))
  all_goals grind [Pc.walkSrc, Pc.inReg, Pc.walkSrc_inReg]

theorem walkG_exec_o (hS : Struct reg s) (hO : Orig s) (hH : Hint s) (hR : Reach reg s) :
    ∀ t' a, ((execOther s t).pc t').walkSrc = some a → (execOther s t).srcOf (execOther s t).G = a ∧ 1 ≤ (execOther s t).G := by
  have g0 := hR.walkG
  have g0t := hR.walkG t
  have g1 := hS.regMx
  have g1t := hS.regMx t
  unfold execOther
  try unfold walkNext
  try unfold afterHint
  try unfold applyReset
  try simp only [C_propHolds, C_copyNeverClears, afterLists, ↓reduceIte, Bool.true_and]
  repeat' split
  all_goals (try rw [‹s.pc t = _›] at g0t)
  all_goals (try simp [Pc.walkSrc, Pc.inReg, Pc.walkSrc_inReg] at g0t)
  all_goals (try rw [‹s.pc t = _›] at g1t)
  all_goals (try simp [Pc.walkSrc, Pc.inReg, Pc.walkSrc_inReg] at g1t)
  all_goals (intro t' a h1; by_cases ht : t' = t <;> first | (subst ht; try simp [C, upd_apply, afterLists, nextList, Pc.walkSrc, Pc.inReg, Pc.walkSrc_inReg] at h1 ⊢) | (try simp [ht, C, upd_apply, afterLists, nextList] at h1 ⊢))
  all_goals grind [Pc.walkSrc, Pc.inReg, Pc.walkSrc_inReg]

theorem walkG_exec (hS : Struct reg s) (hO : Orig s) (hH : Hint s) (hR : Reach reg s) :
    ∀ t' a, ((exec (C r) reg s t).pc t').walkSrc = some a → (exec (C r) reg s t).srcOf (exec (C r) reg s t).G = a ∧ 1 ≤ (exec (C r) reg s t).G := by
  unfold exec
  split
  · exact walkG_exec_c hS hO hH hR
  · split
    · exact walkG_exec_b hS hO hH hR
    · exact walkG_exec_o hS hO hH hR

theorem walkG_begin (hS : Struct reg s) (hO : Orig s) (hH : Hint s) (hR : Reach reg s) (hi : s.pc t = .idle) :
    ∀ t' a, ((begin (C r) reg s t).pc t').walkSrc = some a → (begin (C r) reg s t).srcOf (begin (C r) reg s t).G = a ∧ 1 ≤ (begin (C r) reg s t).G := by
  have g0 := hR.walkG
  have g0t := hR.walkG t
  have g1 := hS.regMx
  have g1t := hS.regMx t
  begin_cases
  all_goals (try rw [hi] at g0t)
  all_goals (try simp [Pc.walkSrc, Pc.inReg, Pc.walkSrc_inReg] at g0t)
  all_goals (try rw [hi] at g1t)
  all_goals (try simp [Pc.walkSrc, Pc.inReg, Pc.walkSrc_inReg] at g1t)
  all_goals (intro t' a h1; by_cases ht : t' = t <;> first | (subst ht; try simp [C, upd_apply, afterLists, nextList, Pc.walkSrc, Pc.inReg, Pc.walkSrc_inReg] at h1 ⊢) | (try simp [ht, C, upd_apply, afterLists, nextList] at h1 ⊢))
  all_goals grind [Pc.walkSrc, Pc.inReg, Pc.walkSrc_inReg]

theorem syncG_exec_c (hS : Struct reg s) (hO : Orig s) (hH : Hint s) (hR : Reach reg s) :
    ∀ t' a i g, (execCancel (C r) reg s t).pc t' = .cSync a i g → g = (execCancel (C r) reg s t).G := by
  have g0 := hR.syncG
  have g0t := hR.syncG t
  have g1 := hS.regMx
  have g1t := hS.regMx t
  unfold execCancel
  try unfold walkNext
  try unfold afterHint
  try unfold applyReset
  try simp only [C_propHolds, C_copyNeverClears, afterLists, ↓reduceIte, Bool.true_and]
  repeat' split
  all_goals (try rw [‹s.pc t = _›] at g0t)
  all_goals (try simp [Pc.inReg] at g0t)
  all_goals (try rw [‹s.pc t = _›] at g1t)
  all_goals (try simp [Pc.inReg] at g1t)
  all_goals (intro t' a i g h1; by_cases ht : t' = t <;> first | (subst ht; try simp [C, upd_apply, afterLists, nextList, Pc.inReg] at h1 ⊢) | (try simp [ht, C, upd_apply, afterLists, nextList] at h1 ⊢))
  all_goals grind [Pc.inReg]

theorem syncG_exec_b (hS : Struct reg s) (hO : Orig s) (hH : Hint s) (hR : Reach reg s) :
    ∀ t' a i g, (execBind (C r) s t).pc t' = .cSync a i g → g = (execBind (C r) s t).G := by
  have g0 := hR.syncG
  have g0t := hR.syncG t
  have g1 := hS.regMx
  have g1t := hS.regMx t
  unfold execBind
  try unfold walkNext
  try unfold afterHint
  try unfold applyReset
  try simp only [C_propHolds, C_copyNeverClears, afterLists, ↓reduceIte, Bool.true_and]
  repeat' split
  all_goals (try rw [‹s.pc t = _›] at g0t)
  all_goals (try simp [Pc.inReg] at g0t)
  all_goals (try rw [‹s.pc t = _›] at g1t)
  all_goals (try simp [Pc.inReg] at g1t)
  all_goals (intro t' a i g h1; by_cases ht : t' = t <;> first | (subst ht; try simp [C, upd_apply, afterLists, nextList, Pc.inReg] at h1 ⊢) | (try simp [ht, C, upd_apply, afterLists, nextList] at h1 ⊢))
  all_goals grind [Pc.inReg]

theorem syncG_exec_o (hS : Struct reg s) (hO : Orig s) (hH : Hint s) (hR : Reach reg s) :
    ∀ t' a i g, (execOther s t).pc t' = .cSync a i g → g = (execOther s t).G := by
  have g0 := hR.syncG
  have g0t := hR.syncG t
  have g1 := hS.regMx
  have g1t := hS.regMx t
  unfold execOther
  try unfold walkNext
  try unfold afterHint
  try unfold applyReset
  try simp only [C_propHolds, C_copyNeverClears, afterLists, ↓reduceIte, Bool.true_and]
  repeat' split
  all_goals (try rw [‹s.pc t = _›] at g0t)
  all_goals (try simp [Pc.inReg] at g0t)
  all_goals (try rw [‹s.pc t = _›] at g1t)
  all_goals (try simp [Pc.inReg] at g1t)
  all_goals (intro t' a i g h1; by_cases ht : t' = t <;> first | (subst ht; try simp [C, upd_apply, afterLists, nextList, Pc.inReg] at h1 ⊢) | (try simp [ht, C, upd_apply, afterLists, nextList] at h1 ⊢))
  all_goals grind [Pc.inReg]

theorem syncG_exec (hS : Struct reg s) (hO : Orig s) (hH : Hint s) (hR : Reach reg s) :
    ∀ t' a i g, (exec (C r) reg s t).pc t' = .cSync a i g → g = (exec (C r) reg s t).G := by
  unfold exec
  split
  · exact syncG_exec_c hS hO hH hR
  · split
    · exact syncG_exec_b hS hO hH hR
    · exact syncG_exec_o hS hO hH hR

theorem syncG_begin (hS : Struct reg s) (hO : Orig s) (hH : Hint s) (hR : Reach reg s) (hi : s.pc t = .idle) :
    ∀ t' a i g, (begin (C r) reg s t).pc t' = .cSync a i g → g = (begin (C r) reg s t).G := by
  have g0 := hR.syncG
  have g0t := hR.syncG t
  have g1 := hS.regMx
  have g1t := hS.regMx t
  begin_cases
  all_goals (try rw [hi] at g0t)
  all_goals (try simp [Pc.inReg] at g0t)
  all_goals (try rw [hi] at g1t)
  all_goals (try simp [Pc.inReg] at g1t)
  all_goals (intro t' a i g h1; by_cases ht : t' = t <;> first | (subst ht; try simp [C, upd_apply, afterLists, nextList, Pc.inReg] at h1 ⊢) | (try simp [ht, C, upd_apply, afterLists, nextList] at h1 ⊢))
  all_goals grind [Pc.inReg]

end TbbVerif.C04
