/-
C04 proofs — P1 (`Reach.listed`) across one access of the repaired protocol, assembled from the frame facts.
-/
import TbbVerif.Proofs.C04.ReachI

namespace TbbVerif.C04
variable {reg : List Nat} {s : St} {t : Nat}

theorem syncing_eq {pc : Pc} {i : Nat} (h : pc.syncing = some i) : ∃ src g, pc = .cSync src i g := by
  cases pc <;> simp [Pc.syncing] at h
  rename_i src i' g
  exact ⟨src, g, by rw [h]⟩

/-- "cancelled, or its binder will copy again" survives a step, unless the binder has just learnt that nothing that
has passed is above the context -/
theorem covered_step (hS : Struct reg s) (hR : Reach reg s) {x : Nat}
    (hold : s.can x = true ∨ ∃ w, (s.pc w).coverOf s.G = some x)
    (hnone : (∀ a, PassedUpTo s.skip s.srcOf s.G a → ¬ Anc s.par x a) → False) :
    (exec C reg s t).can x = true ∨ ∃ w, ((exec C reg s t).pc w).coverOf (exec C reg s t).G = some x := by
  rcases hold with hc | ⟨w, hw⟩
  · exact Or.inl (can_mono hR hc)
  · by_cases e : w = t
    · subst e
      rcases cover_self hS hR hw with h | h | h
      · exact Or.inr ⟨w, h⟩
      · exact Or.inl h
      · exact (hnone h).elim
    · exact Or.inr ⟨w, cover_other e hw⟩

theorem listed_exec (hS : Struct reg s) (hR : Reach reg s) :
    ∀ L x a, x ∈ (exec C reg s t).items L →
      PassedUpTo (exec C reg s t).skip (exec C reg s t).srcOf ((exec C reg s t).epoch L) a →
      Anc (exec C reg s t).par x a →
      (exec C reg s t).can x = true ∨ ∃ t', ((exec C reg s t).pc t').coverOf (exec C reg s t).G = some x := by
  intro L x a h1 h2 h3
  rcases items_step h1 with hx | ⟨hLt, hpush, hfree⟩
  · have hne : s.cst x ≠ .created := fun e => (hS.itemsOk L x hx).2.2 (hS.createdPar x e)
    have ha := anc_step_back hS hne h3
    rcases passed_step_back hR h2 with hp | hm | ⟨i, hs, hL, hp⟩
    · exact covered_step hS hR (hR.listed L x a hx hp ha) (fun hn => hn a (passed_mono (hR.epochLe L) hp) ha)
    · exact (no_anc_of_hint_clear_reg hS hR hx hm ha).elim
    · obtain ⟨src, g, hpc⟩ := syncing_eq hs
      exact covered_step hS hR (listed_sync hS hR hpc hL hx hp ha) (fun hn => hn a hp ha)
  · subst hLt
    obtain ⟨p, sn, hpc⟩ := pushing_eq hpush
    have hlocked : s.cst x = .locked := hS.ownsSt L x (by rw [hpc]; rfl)
    have ha := anc_step_back hS (by rw [hlocked]; simp) h3
    rcases push_covered hR hpush hfree with h | h
    · exact Or.inr ⟨L, h⟩
    · rcases passed_step_back hR h2 with hp | hm | ⟨i, hs, _, _⟩
      · exact Or.inl (can_mono hR (h a hp ha))
      · exact (no_anc_of_hint_clear_owner hS hR (by rw [hpc]; rfl) (by rw [hpc]; rfl) hm ha).elim
      · rw [hpc] at hs
        simp [Pc.syncing] at hs

end TbbVerif.C04
