/-
C04 proofs — P1 (`Reach.listed`) across one access of the repaired protocol, assembled from the frame facts.
-/
import TbbVerif.Proofs.C04.ReachI

namespace TbbVerif.C04
variable {r : List RF} {reg : List Nat} {s : St} {t : Nat}

theorem eff_le (hR : Reach reg s) (L : Nat) : s.eff L ≤ s.G := by
  have h1 := hR.epochLe L
  have h2 := hR.joinedLe L
  unfold St.eff
  split <;> omega

theorem syncing_eq {pc : Pc} {i : Nat} (h : pc.syncing = some i) : ∃ src g, pc = .cSync src i g := by
  cases pc <;> simp [Pc.syncing] at h
  rename_i src i' g
  exact ⟨src, g, by rw [h]⟩

/-- "`Vf`, or its binder will copy again" survives a step; when the binder has just re-read its parent's flag, what it
learnt is the `Vf` fact itself -/
theorem covered_step (hS : Struct reg s) (hR : Reach reg s) {x a m : Nat} (hm : m ≤ s.clk)
    (hold : Vf s.par s.can s.rst s.oc m a x ∨ ∃ w, (s.pc w).coverOf s.G = some x)
    (hlearn : Learnt s x → Vf s.par s.can s.rst s.oc m a x) :
    Vf (exec (C r) reg s t).par (exec (C r) reg s t).can (exec (C r) reg s t).rst (exec (C r) reg s t).oc m a x ∨
      ∃ w, ((exec (C r) reg s t).pc w).coverOf (exec (C r) reg s t).G = some x := by
  rcases hold with hc | ⟨w, hw⟩
  · exact Or.inl (vf_mono hS hR hm hc)
  · by_cases e : w = t
    · subst e
      rcases cover_self (r := r) hS hR hw with h | h | h
      · exact Or.inr ⟨w, h⟩
      · exact Or.inl (Or.inl h)
      · exact Or.inl (vf_mono hS hR hm (hlearn h))
    · exact Or.inr ⟨w, cover_other e hw⟩

theorem listed_exec (hS : Struct reg s) (hH : Hint s) (hR : Reach reg s) :
    ∀ L x a m, x ∈ (exec (C r) reg s t).items L →
      Passed (exec (C r) reg s t).skipSt (exec (C r) reg s t).srcOf (exec (C r) reg s t).pst
        ((exec (C r) reg s t).eff L) a m →
      Cur (exec (C r) reg s t).wst (exec (C r) reg s t).rst a m →
      Anc (exec (C r) reg s t).par x a →
      Vf (exec (C r) reg s t).par (exec (C r) reg s t).can (exec (C r) reg s t).rst (exec (C r) reg s t).oc m a x ∨
        ∃ t', ((exec (C r) reg s t).pc t').coverOf (exec (C r) reg s t).G = some x := by
  intro L x a m h1 h2 h3 h4
  -- a cancellation that wins in this very step has not passed anything yet
  have hcur : Cur s.wst s.rst a m := by
    rcases cur_step_back hR h3 with h | h
    · exact h
    · exfalso
      have hle : m ≤ (exec (C r) reg s t).clk → False := by
        intro _
        rcases passed_step_back hR h2 with hp | hm | ⟨i, _, _, hp⟩ | ⟨_, hg⟩
        · have := passed_le_s hR hp; omega
        · -- the hint-skip step does not tick the clock: the stamp it records is in the past
          have hw := cur_wst h3
          rcases h2 with hs | ⟨n, _, _, _, hn⟩
          · have : (exec (C r) reg s t).skipSt a ≤ s.clk := by
              have g0 := hR.skipLe
              have g1 := hR.wstLe
              exec_cases_C
              all_goals (try simp [upd_apply])
              all_goals grind
            omega
          · have : (exec (C r) reg s t).pst n ≤ s.clk := by
              have g0 := hR.pstLe
              have g1 := hR.wstLe
              exec_cases_C
              all_goals (try simp [upd_apply])
              all_goals grind
            omega
        · have := passed_le_s hR hp; omega
        · -- registration does not tick the clock either
          have hw := cur_wst h3
          have hb : (exec (C r) reg s t).wst a ≤ s.clk := by
            have g0 := hR.wstLe
            revert hg
            exec_cases_C
            all_goals (intro hg; try simp [upd_apply] at hg ⊢)
            all_goals grind
          omega
      exact hle (by
        have := cur_wst h3
        have g1 := hR.wstLe
        subst h
        have hb : (exec (C r) reg s t).wst a ≤ (exec (C r) reg s t).clk := by
          have g0 := hR.wstLe
          exec_cases_C
          all_goals (try simp [upd_apply])
          all_goals grind
        omega)
  have hm : m ≤ s.clk := cur_le_s hR hcur
  rcases items_step h1 with hx | ⟨hLt, hpush, hfree⟩
  · have hne : s.cst x ≠ .created := fun e => (hS.itemsOk L x hx).2.2 (hS.createdPar x e)
    have ha := anc_step_back hS hne h4
    rcases passed_step_back hR h2 with hp | hmhc | ⟨i, hs, hL, hp⟩ | ⟨hLt, hg⟩
    · exact covered_step hS hR hm (hR.listed L x a m hx hp hcur ha)
        (fun hn => hn a m (passed_mono (eff_le hR L) hp) hcur ha)
    · exact (no_anc_of_hint_clear_reg hS hH hx hmhc ha).elim
    · obtain ⟨src, g, hpc⟩ := syncing_eq hs
      exact covered_step hS hR hm (listed_sync hS hR hpc hL hx hp hcur ha) (fun hn => hn a m hp hcur ha)
    · -- the list of a thread that is registering is empty
      subst hLt
      rw [hS.notWasEmpty L (hS.regPc L hg).2.2] at hx
      cases hx
  · subst hLt
    obtain ⟨p, sn, hpc⟩ := pushing_eq hpush
    have hlocked : s.cst x = .locked := hS.ownsSt L x (by rw [hpc]; rfl)
    have ha := anc_step_back hS (by rw [hlocked]; simp) h4
    rcases push_covered (r := r) hR hpush hfree with h | h
    · exact Or.inr ⟨L, h⟩
    · rcases passed_step_back hR h2 with hp | hmhc | ⟨i, hs, _, _⟩ | ⟨_, hg⟩
      · exact Or.inl (vf_mono hS hR hm (h a m hp hcur ha))
      · exact (no_anc_of_hint_clear_owner hS hH (by rw [hpc]; rfl) (by rw [hpc]; rfl) hmhc ha).elim
      · rw [hpc] at hs
        simp [Pc.syncing] at hs
      · rw [hpc] at hg
        cases hg

end TbbVerif.C04
