/-
C04 proofs — the invariant behind `cancel_reaches_all_bound_with_reset` for the repaired protocol (`cfg = C r`: the
propagator holds the binder's fall-back mutex; the binder's copies never clear the flag), for programs WITH resets.
Definitions only.

Key notions.  Propagation number `n` (1 ≤ n ≤ G) has source `srcOf n` and stamp `pst n` (the ghost-clock value of the
winning exchange it belongs to); it runs entirely while `G = n` (propagations are serialised by the registry mutex) and
`epoch L ≥ n` means it has finished list `L`.  A winning cancel that returned at the hint test (`skipSt`) counts as having
passed every list.  Because `reset` clears flags, "x is cancelled" is replaced by `Vf m a x`: x is cancelled, or x (or a
context between x and the source a) was reset after the stamp m of the cancellation — a fact that, once true, stays true.
All claims about a cancellation (a, m) are made only while it is current (`Cur`: a has not been reset since m).
  P1   every registered context x beneath a source whose current cancellation has passed x's list is `Vf`, or its binder is
       still at a point from which it will copy the parent's (already final) flag again.
-/
import TbbVerif.Proofs.C04.OrigAll

namespace TbbVerif.C04

/-- the repaired protocol: the propagator holds the binder's fall-back mutex, the binder's copies never clear the flag;
`r` = the stores `reset` performs (the proofs of `Reach` work for any `r`; `Hint` needs `RF.mhc ∉ r`) -/
def C (r : List RF) : Cfg := ⟨true, true, r⟩

/-- the latest winning cancel of `a` has stamp `m`, and `a` has not been reset since (so `a` is still cancelled) -/
def Cur (wst rst : Nat → Nat) (a m : Nat) : Prop := wst a = m ∧ rst a < m

/-- the cancellation of `a` that won at stamp `m` returned at the hint test, or is a propagation numbered ≤ k -/
def Passed (skipSt srcOf pst : Nat → Nat) (k a m : Nat) : Prop :=
  skipSt a = m ∨ ∃ n, 1 ≤ n ∧ n ≤ k ∧ srcOf n = a ∧ pst n = m

/-- a context is excused from the cancellation with stamp `m`: it was reset after `m`, or it is registered in the context
list of a thread that has left the registry (the propagator does not walk that list any more) -/
def Exc (rst : Nat → Nat) (oc : Nat → Bool) (m z : Nat) : Prop := m < rst z ∨ oc z = true

/-- `x`, or a context strictly between `x` and `a`, is excused -/
def Stale (par : Nat → Option Nat) (rst : Nat → Nat) (oc : Nat → Bool) (m a x : Nat) : Prop :=
  Exc rst oc m x ∨ ∃ z, Anc par x z ∧ Anc par z a ∧ Exc rst oc m z

/-- "cancelled, relative to the cancellation of `a` at stamp `m`": the flag is set, or the context (or one between it and
`a`) is excused -/
def Vf (par : Nat → Option Nat) (can : Nat → Bool) (rst : Nat → Nat) (oc : Nat → Bool) (m a x : Nat) : Prop :=
  can x = true ∨ Stale par rst oc m a x

/-- the propagation number up to which list `L` is in sync: its epoch word, or — for the fresh list of a thread that
registered during the run (epoch word still 0) and has not been walked yet — the global epoch at registration (every
earlier propagation was complete then, and the list was empty) -/
def St.eff (s : St) (L : Nat) : Nat := if s.fresh L then s.joined L else s.epoch L

/-- pcs at which a thread holds the propagation mutex (cfg = C) -/
def Pc.inProp : Pc → Bool
  | .cRecheck _ | .cEpoch _ | .cLockList _ _ | .cLoad1 _ _ _ _ | .cLoad2 _ _ _ _ | .cPaint _ _ _ _ _ | .cReadG _ _
  | .cSync _ _ _ | .cUnlockList _ _ | .cUnlockProp _ | .bFbL _ _ | .bFbS _ _ _ | .bFbU _ _ => true
  | _ => false

/-- walk phase of a propagation: index of the first list that is not yet synced -/
def Pc.walkFrom : Pc → Option Nat
  | .cLockList _ i | .cLoad1 _ i _ _ | .cLoad2 _ i _ _ | .cPaint _ i _ _ _ | .cReadG _ i | .cSync _ i _ => some i
  | .cUnlockList _ i => some (i + 1)
  | _ => none

/-- walk phase: the source -/
def Pc.walkSrc : Pc → Option Nat
  | .cLockList s _ | .cLoad1 s _ _ _ | .cLoad2 s _ _ _ | .cPaint s _ _ _ _ | .cReadG s _ | .cSync s _ _
  | .cUnlockList s _ => some s
  | _ => none

/-- a winner that has not yet bumped the epoch -/
def Pc.preWalk : Pc → Option Nat
  | .cHint s | .cLockReg s | .cLockProp s | .cRecheck s | .cEpoch s => some s
  | _ => none

/-- binder pcs that carry an epoch snapshot -/
def Pc.snapVal : Pc → Option Nat
  | .bSpecL _ _ n | .bSpecS _ _ n _ | .bLoadG _ _ n => some n
  | .bRegL _ _ sn | .bRegU _ _ sn => sn
  | _ => none

/-- binder pcs after the speculative copy on the snapshot path: (context, snapshot) -/
def Pc.afterSpec : Pc → Option (Nat × Nat)
  | .bLoadG x _ n => some (x, n)
  | .bRegL x _ (some n) | .bRegU x _ (some n) => some (x, n)
  | _ => none

/-- binder pcs (after registration) from which the parent's flag will be copied again: the context covered -/
def Pc.coverOf (G : Nat) : Pc → Option Nat
  | .bLoadG x _ n => if n < G then some x else none
  | .bRegU x _ sn => match sn with | some n => if n < G then some x else none | none => some x
  | .bFbLock x _ | .bFbL x _ | .bRootL x _ => some x
  | .bFbS x _ v | .bRootS x _ v => if v then some x else none
  | _ => none

/-- binder pcs after the store of may_have_children: the parent -/
def Pc.pastHint : Pc → Option Nat
  | .bSnap _ p | .bSpecL _ p _ | .bSpecS _ p _ _ | .bRegL _ p _ | .bRegU _ p _ | .bLoadG _ p _ | .bFbLock _ p | .bFbL _ p
  | .bFbS _ p _ | .bFbU _ p | .bRootL _ p | .bRootS _ p _ => some p
  | _ => none

/-- the walk of one list: (source, list index, items not yet handled) -/
def Pc.pending : Pc → Option (Nat × Nat × List Nat)
  | .cLoad1 s i x rest | .cLoad2 s i x rest | .cPaint s i x _ rest => some (s, i, x :: rest)
  | .cReadG s i | .cSync s i _ | .cUnlockList s i => some (s, i, [])
  | _ => none

/-- the hint invariant (any protocol whose `reset` does not store to my_may_have_children) -/
structure Hint (s : St) : Prop where
  /-- a reset in flight has no store to the hint left -/
  rseq : ∀ t x l, s.pc t = .rSeq x l → RF.mhc ∉ l
  /-- **the hint of a context with a registered child is set** -/
  mhcReg : ∀ L x p, x ∈ s.items L → s.par x = some p → s.mhc p = true
  mhcBind : ∀ t p, (s.pc t).pastHint = some p → s.mhc p = true

structure Reach (reg : List Nat) (s : St) : Prop where
  propMx : ∀ t, (s.pc t).inProp = true → s.propMx = some t
  propHeld : ∀ t, s.propMx = some t → (s.pc t).inProp = true
  epochLe : ∀ L, s.epoch L ≤ s.G
  joinedLe : ∀ L, s.joined L ≤ s.G
  freshLe : ∀ L, s.fresh L = true → s.epoch L ≤ s.joined L
  epochNear : ∀ L, L ∈ reg → s.act L = true → s.eff L = s.G ∨ s.eff L + 1 = s.G
  epochFree : ∀ L, L ∈ reg → s.act L = true → s.propMx = none → s.eff L = s.G
  epochWalk : ∀ t L, L ∈ reg → s.act L = true → s.propMx = some t → s.eff L ≠ s.G →
      ∃ j, (s.pc t).walkFrom = some j ∧ L ∈ reg.drop j
  walkG : ∀ t a, (s.pc t).walkSrc = some a → s.srcOf s.G = a ∧ 1 ≤ s.G
  syncG : ∀ t a i g, s.pc t = .cSync a i g → g = s.G
  snapLe : ∀ t n, (s.pc t).snapVal = some n → n ≤ s.G
  snapEpoch : ∀ t x p n L, s.pc t = .bSpecL x p n → s.lst p = some L → n ≤ s.eff L
  copyTrue : ∀ t p v, (s.pc t).copyVal = some (p, v) → v = true
  /-- stamps are in the past -/
  wstLe : ∀ a, s.wst a ≤ s.clk
  pstLe : ∀ n, s.pst n ≤ s.clk
  skipLe : ∀ a, s.skipSt a ≤ s.clk
  /-- a winning cancel that has not been undone by a reset keeps its context cancelled -/
  curCan : ∀ a m, Cur s.wst s.rst a m → s.can a = true
  /-- every current cancellation has been propagated (or was skipped at the hint test), or its winner (or a later caller that
  will find the flag set at the re-check) is still in front of the epoch increment -/
  pend : ∀ a m, Cur s.wst s.rst a m → Passed s.skipSt s.srcOf s.pst s.G a m ∨ ∃ t, (s.pc t).preWalk = some a
  /-- P1 -/
  listed : ∀ L x a m, x ∈ s.items L → Passed s.skipSt s.srcOf s.pst (s.eff L) a m → Cur s.wst s.rst a m →
      Anc s.par x a → Vf s.par s.can s.rst s.oc m a x ∨ ∃ t, (s.pc t).coverOf s.G = some x
  spec : ∀ t x n a m, (s.pc t).afterSpec = some (x, n) → Passed s.skipSt s.srcOf s.pst n a m → Cur s.wst s.rst a m →
      Anc s.par x a → Vf s.par s.can s.rst s.oc m a x
  fbDone : ∀ t x p a m, s.pc t = .bFbU x p → Passed s.skipSt s.srcOf s.pst s.G a m → Cur s.wst s.rst a m →
      Anc s.par x a → Vf s.par s.can s.rst s.oc m a x
  walked : ∀ t a i pend L z, (s.pc t).pending = some (a, i, pend) → reg[i]? = some L → z ∈ s.items L →
      z ∈ pend ∨ (Anc s.par z a → Vf s.par s.can s.rst s.oc (s.pst s.G) a z)
  painting : ∀ t a i x chain rest, s.pc t = .cPaint a i x chain rest →
      Vf s.par s.can s.rst s.oc (s.pst s.G) a x ∨ chain.head? = some x

theorem force_aux3 (x p : Nat) :
    (Pc.bHintL x p).inProp = false ∧ (Pc.bHintL x p).walkFrom = none ∧ (Pc.bHintL x p).walkSrc = none ∧
    (Pc.bHintL x p).preWalk = none ∧ (Pc.bHintL x p).snapVal = none ∧ (Pc.bHintL x p).afterSpec = none ∧
    (Pc.bHintL x p).coverOf 0 = none ∧ (Pc.bHintL x p).pastHint = none ∧ (Pc.bHintL x p).pending = none := by
  refine ⟨?_, ?_, ?_, ?_, ?_, ?_, ?_, ?_, ?_⟩
  · grind [Pc.inProp]
  · grind [Pc.walkFrom]
  · grind [Pc.walkSrc]
  · grind [Pc.preWalk]
  · grind [Pc.snapVal]
  · grind [Pc.afterSpec]
  · grind [Pc.coverOf]
  · grind [Pc.pastHint]
  · grind [Pc.pending]

end TbbVerif.C04

namespace TbbVerif.C04
@[simp] theorem C_propHolds (r : List RF) : (C r).propHolds = true := rfl
@[simp] theorem C_copyNeverClears (r : List RF) : (C r).copyNeverClears = true := rfl
@[simp] theorem C_resetSeq (r : List RF) : (C r).resetSeq = r := rfl

/-- `exec_cases` for the repaired protocol: the configuration tests are evaluated before splitting -/
macro "exec_cases_C" : tactic => `(tactic| (
  unfold exec
  split
  all_goals try split
  all_goals try unfold execCancel
  all_goals try unfold execBind
  all_goals try unfold execOther
  all_goals try unfold walkNext
  all_goals try unfold afterHint
  all_goals try unfold applyReset
  all_goals try simp only [C_propHolds, C_copyNeverClears, afterLists, ↓reduceIte, Bool.true_and]
  all_goals repeat' split))
end TbbVerif.C04

namespace TbbVerif.C04
theorem Pc.walkSrc_inReg {pc : Pc} {a : Nat} : pc.walkSrc = some a → pc.inReg = true ∧ pc.inProp = true ∧ pc.wonSrc = some a := by
  cases pc <;> simp [Pc.walkSrc, Pc.inReg, Pc.inProp, Pc.wonSrc]
theorem Pc.walkFrom_inReg {pc : Pc} {j : Nat} : pc.walkFrom = some j → pc.inReg = true ∧ pc.inProp = true := by
  cases pc <;> simp [Pc.walkFrom, Pc.inReg, Pc.inProp]
theorem Pc.walkFrom_walkSrc {pc : Pc} {j : Nat} : pc.walkFrom = some j → ∃ a, pc.walkSrc = some a := by
  cases pc <;> simp [Pc.walkFrom, Pc.walkSrc]
theorem Pc.pending_walk {pc : Pc} {a i : Nat} {l : List Nat} :
    pc.pending = some (a, i, l) → pc.walkIdx = some i ∧ pc.walkSrc = some a := by
  cases pc <;> simp [Pc.pending, Pc.walkIdx, Pc.walkSrc] <;> (intros; simp_all)
theorem Pc.preWalk_won {pc : Pc} {a : Nat} : pc.preWalk = some a → pc.wonSrc = some a := by
  cases pc <;> simp [Pc.preWalk, Pc.wonSrc]
theorem Pc.inProp_cancel_inReg {pc : Pc} : pc.inProp = true → pc.isCancel = true → pc.inReg = true := by
  cases pc <;> simp [Pc.inProp, Pc.inReg, Pc.isCancel]
theorem Pc.coverOf_registered {pc : Pc} {G x : Nat} : pc.coverOf G = some x → pc.registered = some x := by
  cases pc <;> simp [Pc.coverOf, Pc.registered]
  · rename_i a b c; cases c <;> simp
theorem Pc.afterSpec_owner {pc : Pc} {x n : Nat} : pc.afterSpec = some (x, n) → pc.owns = some x ∧ pc.snapVal = some n := by
  cases pc <;> simp [Pc.afterSpec, Pc.owns, Pc.snapVal]
  all_goals (rename_i a b c; cases c <;> simp)
  all_goals (intro h1 h2; exact ⟨h1, h2⟩)
theorem Pc.pastHint_bindParent {pc : Pc} {p : Nat} : pc.pastHint = some p → pc.bindParent = some p := by
  cases pc <;> simp [Pc.pastHint, Pc.bindParent]
end TbbVerif.C04
