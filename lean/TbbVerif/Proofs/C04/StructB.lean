/-
C04 proofs — structural invariants (lmxBind, lmxDes, bindReg, regPc, actReg, actWas, bindAct): preservation by `exec` and `begin`.
-/
import TbbVerif.Proofs.C04.StructA

namespace TbbVerif.C04
variable {cfg : Cfg} {r : List RF} {reg : List Nat} {s : St} {t : Nat}

theorem lmxBind_exec_c (hS : Struct reg s) :
    ∀ t' x p sn, (execCancel cfg reg s t).pc t' = .bRegU x p sn → (execCancel cfg reg s t).lmx t' = some t' := by
  have g0 := hS.lmxWalk
  have g0t := hS.lmxWalk t
  have g1 := hS.lmxBind
  have g1t := hS.lmxBind t
  have g2 := hS.lmxDes
  have g2t := hS.lmxDes t
  have g3 := hS.lmxOrph
  have g3t := hS.lmxOrph t
  unfold execCancel
  try unfold walkNext
  try unfold afterHint
  try unfold applyReset
  repeat' split
  all_goals (try rw [‹s.pc t = _›] at g0t)
  all_goals (try simp [Pc.walkIdx] at g0t)
  all_goals (try rw [‹s.pc t = _›] at g1t)
  all_goals (try simp [Pc.walkIdx] at g1t)
  all_goals (try rw [‹s.pc t = _›] at g2t)
  all_goals (try simp [Pc.walkIdx] at g2t)
  all_goals (try rw [‹s.pc t = _›] at g3t)
  all_goals (try simp [Pc.walkIdx] at g3t)
  all_goals (intro t' x p sn h1; by_cases ht : t' = t <;> first | (subst ht; try simp [upd_apply, afterLists, nextList, Pc.walkIdx] at h1 ⊢) | (try simp [ht, upd_apply, afterLists, nextList] at h1 ⊢))
  all_goals grind [Pc.walkIdx]

theorem lmxBind_exec_b (hS : Struct reg s) :
    ∀ t' x p sn, (execBind cfg s t).pc t' = .bRegU x p sn → (execBind cfg s t).lmx t' = some t' := by
  have g0 := hS.lmxWalk
  have g0t := hS.lmxWalk t
  have g1 := hS.lmxBind
  have g1t := hS.lmxBind t
  have g2 := hS.lmxDes
  have g2t := hS.lmxDes t
  have g3 := hS.lmxOrph
  have g3t := hS.lmxOrph t
  unfold execBind
  try unfold walkNext
  try unfold afterHint
  try unfold applyReset
  repeat' split
  all_goals (try rw [‹s.pc t = _›] at g0t)
  all_goals (try simp [Pc.walkIdx] at g0t)
  all_goals (try rw [‹s.pc t = _›] at g1t)
  all_goals (try simp [Pc.walkIdx] at g1t)
  all_goals (try rw [‹s.pc t = _›] at g2t)
  all_goals (try simp [Pc.walkIdx] at g2t)
  all_goals (try rw [‹s.pc t = _›] at g3t)
  all_goals (try simp [Pc.walkIdx] at g3t)
  all_goals (intro t' x p sn h1; by_cases ht : t' = t <;> first | (subst ht; try simp [upd_apply, afterLists, nextList, Pc.walkIdx] at h1 ⊢) | (try simp [ht, upd_apply, afterLists, nextList] at h1 ⊢))
  all_goals grind [Pc.walkIdx]

theorem lmxBind_exec_o (hS : Struct reg s) :
    ∀ t' x p sn, (execOther s t).pc t' = .bRegU x p sn → (execOther s t).lmx t' = some t' := by
  have g0 := hS.lmxWalk
  have g0t := hS.lmxWalk t
  have g1 := hS.lmxBind
  have g1t := hS.lmxBind t
  have g2 := hS.lmxDes
  have g2t := hS.lmxDes t
  have g3 := hS.lmxOrph
  have g3t := hS.lmxOrph t
  unfold execOther
  try unfold walkNext
  try unfold afterHint
  try unfold applyReset
  repeat' split
  all_goals (try rw [‹s.pc t = _›] at g0t)
  all_goals (try simp [Pc.walkIdx] at g0t)
  all_goals (try rw [‹s.pc t = _›] at g1t)
  all_goals (try simp [Pc.walkIdx] at g1t)
  all_goals (try rw [‹s.pc t = _›] at g2t)
  all_goals (try simp [Pc.walkIdx] at g2t)
  all_goals (try rw [‹s.pc t = _›] at g3t)
  all_goals (try simp [Pc.walkIdx] at g3t)
  all_goals (intro t' x p sn h1; by_cases ht : t' = t <;> first | (subst ht; try simp [upd_apply, afterLists, nextList, Pc.walkIdx] at h1 ⊢) | (try simp [ht, upd_apply, afterLists, nextList] at h1 ⊢))
  all_goals grind [Pc.walkIdx]

theorem lmxBind_exec (hS : Struct reg s) :
    ∀ t' x p sn, (exec cfg reg s t).pc t' = .bRegU x p sn → (exec cfg reg s t).lmx t' = some t' := by
  unfold exec
  split
  · exact lmxBind_exec_c hS
  · split
    · exact lmxBind_exec_b hS
    · exact lmxBind_exec_o hS

theorem lmxBind_begin (hS : Struct reg s) (hi : s.pc t = .idle) :
    ∀ t' x p sn, (begin cfg reg s t).pc t' = .bRegU x p sn → (begin cfg reg s t).lmx t' = some t' := by
  have g0 := hS.lmxWalk
  have g0t := hS.lmxWalk t
  have g1 := hS.lmxBind
  have g1t := hS.lmxBind t
  have g2 := hS.lmxDes
  have g2t := hS.lmxDes t
  have g3 := hS.lmxOrph
  have g3t := hS.lmxOrph t
  begin_cases
  all_goals (try rw [hi] at g0t)
  all_goals (try simp [Pc.walkIdx] at g0t)
  all_goals (try rw [hi] at g1t)
  all_goals (try simp [Pc.walkIdx] at g1t)
  all_goals (try rw [hi] at g2t)
  all_goals (try simp [Pc.walkIdx] at g2t)
  all_goals (try rw [hi] at g3t)
  all_goals (try simp [Pc.walkIdx] at g3t)
  all_goals (intro t' x p sn h1; by_cases ht : t' = t <;> first | (subst ht; try simp [upd_apply, afterLists, nextList, Pc.walkIdx] at h1 ⊢) | (try simp [ht, upd_apply, afterLists, nextList] at h1 ⊢))
  all_goals grind [Pc.walkIdx]

theorem lmxDes_exec_c (hS : Struct reg s) :
    ∀ t' x L, (execCancel cfg reg s t).pc t' = .dUnlock x → (execCancel cfg reg s t).lst x = some L → (execCancel cfg reg s t).lmx L = some t' := by
  have g0 := hS.lmxWalk
  have g0t := hS.lmxWalk t
  have g1 := hS.lmxBind
  have g1t := hS.lmxBind t
  have g2 := hS.lmxDes
  have g2t := hS.lmxDes t
  have g3 := hS.lmxOrph
  have g3t := hS.lmxOrph t
  have g4 := hS.bindNotDying
  have g4t := hS.bindNotDying t
  have g5 := hS.dyingOk
  have g5t := hS.dyingOk t
  unfold execCancel
  try unfold walkNext
  try unfold afterHint
  try unfold applyReset
  repeat' split
  all_goals (try rw [‹s.pc t = _›] at g0t)
  all_goals (try simp [Pc.walkIdx, Pc.bindTarget, Pc.destroying] at g0t)
  all_goals (try rw [‹s.pc t = _›] at g1t)
  all_goals (try simp [Pc.walkIdx, Pc.bindTarget, Pc.destroying] at g1t)
  all_goals (try rw [‹s.pc t = _›] at g2t)
  all_goals (try simp [Pc.walkIdx, Pc.bindTarget, Pc.destroying] at g2t)
  all_goals (try rw [‹s.pc t = _›] at g3t)
  all_goals (try simp [Pc.walkIdx, Pc.bindTarget, Pc.destroying] at g3t)
  all_goals (try rw [‹s.pc t = _›] at g4t)
  all_goals (try simp [Pc.walkIdx, Pc.bindTarget, Pc.destroying] at g4t)
  all_goals (try rw [‹s.pc t = _›] at g5t)
  all_goals (try simp [Pc.walkIdx, Pc.bindTarget, Pc.destroying] at g5t)
  all_goals (intro t' x L h1 h2; by_cases ht : t' = t <;> first | (subst ht; try simp [upd_apply, afterLists, nextList, Pc.walkIdx, Pc.bindTarget, Pc.destroying] at h1 h2 ⊢) | (try simp [ht, upd_apply, afterLists, nextList] at h1 h2 ⊢))
  all_goals grind [Pc.walkIdx, Pc.bindTarget, Pc.destroying]

theorem lmxDes_exec_b (hS : Struct reg s) :
    ∀ t' x L, (execBind cfg s t).pc t' = .dUnlock x → (execBind cfg s t).lst x = some L → (execBind cfg s t).lmx L = some t' := by
  have g0 := hS.lmxWalk
  have g0t := hS.lmxWalk t
  have g1 := hS.lmxBind
  have g1t := hS.lmxBind t
  have g2 := hS.lmxDes
  have g2t := hS.lmxDes t
  have g3 := hS.lmxOrph
  have g3t := hS.lmxOrph t
  have g4 := hS.bindNotDying
  have g4t := hS.bindNotDying t
  have g5 := hS.dyingOk
  have g5t := hS.dyingOk t
  unfold execBind
  try unfold walkNext
  try unfold afterHint
  try unfold applyReset
  repeat' split
  all_goals (try rw [‹s.pc t = _›] at g0t)
  all_goals (try simp [Pc.walkIdx, Pc.bindTarget, Pc.destroying] at g0t)
  all_goals (try rw [‹s.pc t = _›] at g1t)
  all_goals (try simp [Pc.walkIdx, Pc.bindTarget, Pc.destroying] at g1t)
  all_goals (try rw [‹s.pc t = _›] at g2t)
  all_goals (try simp [Pc.walkIdx, Pc.bindTarget, Pc.destroying] at g2t)
  all_goals (try rw [‹s.pc t = _›] at g3t)
  all_goals (try simp [Pc.walkIdx, Pc.bindTarget, Pc.destroying] at g3t)
  all_goals (try rw [‹s.pc t = _›] at g4t)
  all_goals (try simp [Pc.walkIdx, Pc.bindTarget, Pc.destroying] at g4t)
  all_goals (try rw [‹s.pc t = _›] at g5t)
  all_goals (try simp [Pc.walkIdx, Pc.bindTarget, Pc.destroying] at g5t)
  all_goals (intro t' x L h1 h2; by_cases ht : t' = t <;> first | (subst ht; try simp [upd_apply, afterLists, nextList, Pc.walkIdx, Pc.bindTarget, Pc.destroying] at h1 h2 ⊢) | (try simp [ht, upd_apply, afterLists, nextList] at h1 h2 ⊢))
  all_goals grind [Pc.walkIdx, Pc.bindTarget, Pc.destroying]

theorem lmxDes_exec_o (hS : Struct reg s) :
    ∀ t' x L, (execOther s t).pc t' = .dUnlock x → (execOther s t).lst x = some L → (execOther s t).lmx L = some t' := by
  have g0 := hS.lmxWalk
  have g0t := hS.lmxWalk t
  have g1 := hS.lmxBind
  have g1t := hS.lmxBind t
  have g2 := hS.lmxDes
  have g2t := hS.lmxDes t
  have g3 := hS.lmxOrph
  have g3t := hS.lmxOrph t
  have g4 := hS.bindNotDying
  have g4t := hS.bindNotDying t
  have g5 := hS.dyingOk
  have g5t := hS.dyingOk t
  unfold execOther
  try unfold walkNext
  try unfold afterHint
  try unfold applyReset
  repeat' split
  all_goals (try rw [‹s.pc t = _›] at g0t)
  all_goals (try simp [Pc.walkIdx, Pc.bindTarget, Pc.destroying] at g0t)
  all_goals (try rw [‹s.pc t = _›] at g1t)
  all_goals (try simp [Pc.walkIdx, Pc.bindTarget, Pc.destroying] at g1t)
  all_goals (try rw [‹s.pc t = _›] at g2t)
  all_goals (try simp [Pc.walkIdx, Pc.bindTarget, Pc.destroying] at g2t)
  all_goals (try rw [‹s.pc t = _›] at g3t)
  all_goals (try simp [Pc.walkIdx, Pc.bindTarget, Pc.destroying] at g3t)
  all_goals (try rw [‹s.pc t = _›] at g4t)
  all_goals (try simp [Pc.walkIdx, Pc.bindTarget, Pc.destroying] at g4t)
  all_goals (try rw [‹s.pc t = _›] at g5t)
  all_goals (try simp [Pc.walkIdx, Pc.bindTarget, Pc.destroying] at g5t)
  all_goals (intro t' x L h1 h2; by_cases ht : t' = t <;> first | (subst ht; try simp [upd_apply, afterLists, nextList, Pc.walkIdx, Pc.bindTarget, Pc.destroying] at h1 h2 ⊢) | (try simp [ht, upd_apply, afterLists, nextList] at h1 h2 ⊢))
  all_goals grind [Pc.walkIdx, Pc.bindTarget, Pc.destroying]

theorem lmxDes_exec (hS : Struct reg s) :
    ∀ t' x L, (exec cfg reg s t).pc t' = .dUnlock x → (exec cfg reg s t).lst x = some L → (exec cfg reg s t).lmx L = some t' := by
  unfold exec
  split
  · exact lmxDes_exec_c hS
  · split
    · exact lmxDes_exec_b hS
    · exact lmxDes_exec_o hS

theorem lmxDes_begin (hS : Struct reg s) (hi : s.pc t = .idle) :
    ∀ t' x L, (begin cfg reg s t).pc t' = .dUnlock x → (begin cfg reg s t).lst x = some L → (begin cfg reg s t).lmx L = some t' := by
  have g0 := hS.lmxWalk
  have g0t := hS.lmxWalk t
  have g1 := hS.lmxBind
  have g1t := hS.lmxBind t
  have g2 := hS.lmxDes
  have g2t := hS.lmxDes t
  have g3 := hS.lmxOrph
  have g3t := hS.lmxOrph t
  have g4 := hS.bindNotDying
  have g4t := hS.bindNotDying t
  have g5 := hS.dyingOk
  have g5t := hS.dyingOk t
  begin_cases
  all_goals (try rw [hi] at g0t)
  all_goals (try simp [Pc.walkIdx, Pc.bindTarget, Pc.destroying] at g0t)
  all_goals (try rw [hi] at g1t)
  all_goals (try simp [Pc.walkIdx, Pc.bindTarget, Pc.destroying] at g1t)
  all_goals (try rw [hi] at g2t)
  all_goals (try simp [Pc.walkIdx, Pc.bindTarget, Pc.destroying] at g2t)
  all_goals (try rw [hi] at g3t)
  all_goals (try simp [Pc.walkIdx, Pc.bindTarget, Pc.destroying] at g3t)
  all_goals (try rw [hi] at g4t)
  all_goals (try simp [Pc.walkIdx, Pc.bindTarget, Pc.destroying] at g4t)
  all_goals (try rw [hi] at g5t)
  all_goals (try simp [Pc.walkIdx, Pc.bindTarget, Pc.destroying] at g5t)
  all_goals (intro t' x L h1 h2; by_cases ht : t' = t <;> first | (subst ht; try simp [upd_apply, afterLists, nextList, Pc.walkIdx, Pc.bindTarget, Pc.destroying] at h1 h2 ⊢) | (try simp [ht, upd_apply, afterLists, nextList] at h1 h2 ⊢))
  all_goals grind [Pc.walkIdx, Pc.bindTarget, Pc.destroying]

theorem bindReg_exec_c (hS : Struct reg s) :
    ∀ t', ((execCancel cfg reg s t).pc t').isBind = true → t' ∈ reg := by
  have g0 := hS.bindReg
  have g0t := hS.bindReg t
  unfold execCancel
  try unfold walkNext
  try unfold afterHint
  try unfold applyReset
  repeat' split
  all_goals (try rw [‹s.pc t = _›] at g0t)
  all_goals (try simp [Pc.isBind] at g0t)
  all_goals (intro t' h1; by_cases ht : t' = t <;> first | (subst ht; try simp [upd_apply, afterLists, nextList, Pc.isBind] at h1 ⊢) | (try simp [ht, upd_apply, afterLists, nextList] at h1 ⊢))
  all_goals grind [Pc.isBind]

theorem bindReg_exec_b (hS : Struct reg s) :
    ∀ t', ((execBind cfg s t).pc t').isBind = true → t' ∈ reg := by
  have g0 := hS.bindReg
  have g0t := hS.bindReg t
  unfold execBind
  try unfold walkNext
  try unfold afterHint
  try unfold applyReset
  repeat' split
  all_goals (try rw [‹s.pc t = _›] at g0t)
  all_goals (try simp [Pc.isBind] at g0t)
  all_goals (intro t' h1; by_cases ht : t' = t <;> first | (subst ht; try simp [upd_apply, afterLists, nextList, Pc.isBind] at h1 ⊢) | (try simp [ht, upd_apply, afterLists, nextList] at h1 ⊢))
  all_goals grind [Pc.isBind]

theorem bindReg_exec_o (hS : Struct reg s) :
    ∀ t', ((execOther s t).pc t').isBind = true → t' ∈ reg := by
  have g0 := hS.bindReg
  have g0t := hS.bindReg t
  unfold execOther
  try unfold walkNext
  try unfold afterHint
  try unfold applyReset
  repeat' split
  all_goals (try rw [‹s.pc t = _›] at g0t)
  all_goals (try simp [Pc.isBind] at g0t)
  all_goals (intro t' h1; by_cases ht : t' = t <;> first | (subst ht; try simp [upd_apply, afterLists, nextList, Pc.isBind] at h1 ⊢) | (try simp [ht, upd_apply, afterLists, nextList] at h1 ⊢))
  all_goals grind [Pc.isBind]

theorem bindReg_exec (hS : Struct reg s) :
    ∀ t', ((exec cfg reg s t).pc t').isBind = true → t' ∈ reg := by
  unfold exec
  split
  · exact bindReg_exec_c hS
  · split
    · exact bindReg_exec_b hS
    · exact bindReg_exec_o hS

theorem bindReg_begin (hS : Struct reg s) (hi : s.pc t = .idle) :
    ∀ t', ((begin cfg reg s t).pc t').isBind = true → t' ∈ reg := by
  have g0 := hS.bindReg
  have g0t := hS.bindReg t
  begin_cases
  all_goals (try rw [hi] at g0t)
  all_goals (try simp [Pc.isBind] at g0t)
  all_goals (intro t' h1; by_cases ht : t' = t <;> first | (subst ht; try simp [upd_apply, afterLists, nextList, Pc.isBind] at h1 ⊢) | (try simp [ht, upd_apply, afterLists, nextList] at h1 ⊢))
  all_goals grind [Pc.isBind]

theorem regPc_exec_c (hS : Struct reg s) :
    ∀ t', (execCancel cfg reg s t).pc t' = .gLock → t' ∈ reg ∧ (execCancel cfg reg s t).act t' = false ∧ (execCancel cfg reg s t).wasReg t' = false := by
  have g0 := hS.regPc
  have g0t := hS.regPc t
  unfold execCancel
  try unfold walkNext
  try unfold afterHint
  try unfold applyReset
  repeat' split
  all_goals (try rw [‹s.pc t = _›] at g0t)
  all_goals (try simp [] at g0t)
  all_goals (intro t' h1; by_cases ht : t' = t <;> first | (subst ht; try simp [upd_apply, afterLists, nextList, ] at h1 ⊢) | (try simp [ht, upd_apply, afterLists, nextList] at h1 ⊢))
  all_goals grind []

theorem regPc_exec_b (hS : Struct reg s) :
    ∀ t', (execBind cfg s t).pc t' = .gLock → t' ∈ reg ∧ (execBind cfg s t).act t' = false ∧ (execBind cfg s t).wasReg t' = false := by
  have g0 := hS.regPc
  have g0t := hS.regPc t
  unfold execBind
  try unfold walkNext
  try unfold afterHint
  try unfold applyReset
  repeat' split
  all_goals (try rw [‹s.pc t = _›] at g0t)
  all_goals (try simp [] at g0t)
  all_goals (intro t' h1; by_cases ht : t' = t <;> first | (subst ht; try simp [upd_apply, afterLists, nextList, ] at h1 ⊢) | (try simp [ht, upd_apply, afterLists, nextList] at h1 ⊢))
  all_goals grind []

theorem regPc_exec_o (hS : Struct reg s) :
    ∀ t', (execOther s t).pc t' = .gLock → t' ∈ reg ∧ (execOther s t).act t' = false ∧ (execOther s t).wasReg t' = false := by
  have g0 := hS.regPc
  have g0t := hS.regPc t
  unfold execOther
  try unfold walkNext
  try unfold afterHint
  try unfold applyReset
  repeat' split
  all_goals (try rw [‹s.pc t = _›] at g0t)
  all_goals (try simp [] at g0t)
  all_goals (intro t' h1; by_cases ht : t' = t <;> first | (subst ht; try simp [upd_apply, afterLists, nextList, ] at h1 ⊢) | (try simp [ht, upd_apply, afterLists, nextList] at h1 ⊢))
  all_goals grind []

theorem regPc_exec (hS : Struct reg s) :
    ∀ t', (exec cfg reg s t).pc t' = .gLock → t' ∈ reg ∧ (exec cfg reg s t).act t' = false ∧ (exec cfg reg s t).wasReg t' = false := by
  unfold exec
  split
  · exact regPc_exec_c hS
  · split
    · exact regPc_exec_b hS
    · exact regPc_exec_o hS

theorem regPc_begin (hS : Struct reg s) (hi : s.pc t = .idle) :
    ∀ t', (begin cfg reg s t).pc t' = .gLock → t' ∈ reg ∧ (begin cfg reg s t).act t' = false ∧ (begin cfg reg s t).wasReg t' = false := by
  have g0 := hS.regPc
  have g0t := hS.regPc t
  begin_cases
  all_goals (try rw [hi] at g0t)
  all_goals (try simp [] at g0t)
  all_goals (intro t' h1; by_cases ht : t' = t <;> first | (subst ht; try simp [upd_apply, afterLists, nextList, ] at h1 ⊢) | (try simp [ht, upd_apply, afterLists, nextList] at h1 ⊢))
  all_goals grind []

theorem actReg_exec_c (hS : Struct reg s) :
    ∀ u, (execCancel cfg reg s t).act u = true → u ∈ reg := by
  have g0 := hS.actReg
  have g1 := hS.regPc
  have g1t := hS.regPc t
  unfold execCancel
  try unfold walkNext
  try unfold afterHint
  try unfold applyReset
  repeat' split
  all_goals (try rw [‹s.pc t = _›] at g1t)
  all_goals (try simp [] at g1t)
  all_goals (intro u h1; try simp [upd_apply, afterLists, nextList] at h1 ⊢)
  all_goals grind []

theorem actReg_exec_b (hS : Struct reg s) :
    ∀ u, (execBind cfg s t).act u = true → u ∈ reg := by
  have g0 := hS.actReg
  have g1 := hS.regPc
  have g1t := hS.regPc t
  unfold execBind
  try unfold walkNext
  try unfold afterHint
  try unfold applyReset
  repeat' split
  all_goals (try rw [‹s.pc t = _›] at g1t)
  all_goals (try simp [] at g1t)
  all_goals (intro u h1; try simp [upd_apply, afterLists, nextList] at h1 ⊢)
  all_goals grind []

theorem actReg_exec_o (hS : Struct reg s) :
    ∀ u, (execOther s t).act u = true → u ∈ reg := by
  have g0 := hS.actReg
  have g1 := hS.regPc
  have g1t := hS.regPc t
  unfold execOther
  try unfold walkNext
  try unfold afterHint
  try unfold applyReset
  repeat' split
  all_goals (try rw [‹s.pc t = _›] at g1t)
  all_goals (try simp [] at g1t)
  all_goals (intro u h1; try simp [upd_apply, afterLists, nextList] at h1 ⊢)
  all_goals grind []

theorem actReg_exec (hS : Struct reg s) :
    ∀ u, (exec cfg reg s t).act u = true → u ∈ reg := by
  unfold exec
  split
  · exact actReg_exec_c hS
  · split
    · exact actReg_exec_b hS
    · exact actReg_exec_o hS

theorem actReg_begin (hS : Struct reg s) (hi : s.pc t = .idle) :
    ∀ u, (begin cfg reg s t).act u = true → u ∈ reg := by
  have g0 := hS.actReg
  have g1 := hS.regPc
  have g1t := hS.regPc t
  begin_cases
  all_goals (try rw [hi] at g1t)
  all_goals (try simp [] at g1t)
  all_goals (intro u h1; try simp [upd_apply, afterLists, nextList] at h1 ⊢)
  all_goals grind []

theorem actWas_exec_c (hS : Struct reg s) :
    ∀ u, (execCancel cfg reg s t).act u = true → (execCancel cfg reg s t).wasReg u = true := by
  have g0 := hS.actWas
  have g1 := hS.regPc
  have g1t := hS.regPc t
  unfold execCancel
  try unfold walkNext
  try unfold afterHint
  try unfold applyReset
  repeat' split
  all_goals (try rw [‹s.pc t = _›] at g1t)
  all_goals (try simp [] at g1t)
  all_goals (intro u h1; try simp [upd_apply, afterLists, nextList] at h1 ⊢)
  all_goals grind []

theorem actWas_exec_b (hS : Struct reg s) :
    ∀ u, (execBind cfg s t).act u = true → (execBind cfg s t).wasReg u = true := by
  have g0 := hS.actWas
  have g1 := hS.regPc
  have g1t := hS.regPc t
  unfold execBind
  try unfold walkNext
  try unfold afterHint
  try unfold applyReset
  repeat' split
  all_goals (try rw [‹s.pc t = _›] at g1t)
  all_goals (try simp [] at g1t)
  all_goals (intro u h1; try simp [upd_apply, afterLists, nextList] at h1 ⊢)
  all_goals grind []

theorem actWas_exec_o (hS : Struct reg s) :
    ∀ u, (execOther s t).act u = true → (execOther s t).wasReg u = true := by
  have g0 := hS.actWas
  have g1 := hS.regPc
  have g1t := hS.regPc t
  unfold execOther
  try unfold walkNext
  try unfold afterHint
  try unfold applyReset
  repeat' split
  all_goals (try rw [‹s.pc t = _›] at g1t)
  all_goals (try simp [] at g1t)
  all_goals (intro u h1; try simp [upd_apply, afterLists, nextList] at h1 ⊢)
  all_goals grind []

theorem actWas_exec (hS : Struct reg s) :
    ∀ u, (exec cfg reg s t).act u = true → (exec cfg reg s t).wasReg u = true := by
  unfold exec
  split
  · exact actWas_exec_c hS
  · split
    · exact actWas_exec_b hS
    · exact actWas_exec_o hS

theorem actWas_begin (hS : Struct reg s) (hi : s.pc t = .idle) :
    ∀ u, (begin cfg reg s t).act u = true → (begin cfg reg s t).wasReg u = true := by
  have g0 := hS.actWas
  have g1 := hS.regPc
  have g1t := hS.regPc t
  begin_cases
  all_goals (try rw [hi] at g1t)
  all_goals (try simp [] at g1t)
  all_goals (intro u h1; try simp [upd_apply, afterLists, nextList] at h1 ⊢)
  all_goals grind []

theorem bindAct_exec_c (hS : Struct reg s) :
    ∀ t', ((execCancel cfg reg s t).pc t').isBind = true → (execCancel cfg reg s t).act t' = true := by
  have g0 := hS.bindAct
  have g0t := hS.bindAct t
  unfold execCancel
  try unfold walkNext
  try unfold afterHint
  try unfold applyReset
  repeat' split
  all_goals (try rw [‹s.pc t = _›] at g0t)
  all_goals (try simp [Pc.isBind] at g0t)
  all_goals (intro t' h1; by_cases ht : t' = t <;> first | (subst ht; try simp [upd_apply, afterLists, nextList, Pc.isBind] at h1 ⊢) | (try simp [ht, upd_apply, afterLists, nextList] at h1 ⊢))
  all_goals grind [Pc.isBind]

theorem bindAct_exec_b (hS : Struct reg s) :
    ∀ t', ((execBind cfg s t).pc t').isBind = true → (execBind cfg s t).act t' = true := by
  have g0 := hS.bindAct
  have g0t := hS.bindAct t
  unfold execBind
  try unfold walkNext
  try unfold afterHint
  try unfold applyReset
  repeat' split
  all_goals (try rw [‹s.pc t = _›] at g0t)
  all_goals (try simp [Pc.isBind] at g0t)
  all_goals (intro t' h1; by_cases ht : t' = t <;> first | (subst ht; try simp [upd_apply, afterLists, nextList, Pc.isBind] at h1 ⊢) | (try simp [ht, upd_apply, afterLists, nextList] at h1 ⊢))
  all_goals grind [Pc.isBind]

theorem bindAct_exec_o (hS : Struct reg s) :
    ∀ t', ((execOther s t).pc t').isBind = true → (execOther s t).act t' = true := by
  have g0 := hS.bindAct
  have g0t := hS.bindAct t
  unfold execOther
  try unfold walkNext
  try unfold afterHint
  try unfold applyReset
  repeat' split
  all_goals (try rw [‹s.pc t = _›] at g0t)
  all_goals (try simp [Pc.isBind] at g0t)
  all_goals (intro t' h1; by_cases ht : t' = t <;> first | (subst ht; try simp [upd_apply, afterLists, nextList, Pc.isBind] at h1 ⊢) | (try simp [ht, upd_apply, afterLists, nextList] at h1 ⊢))
  all_goals grind [Pc.isBind]

theorem bindAct_exec (hS : Struct reg s) :
    ∀ t', ((exec cfg reg s t).pc t').isBind = true → (exec cfg reg s t).act t' = true := by
  unfold exec
  split
  · exact bindAct_exec_c hS
  · split
    · exact bindAct_exec_b hS
    · exact bindAct_exec_o hS

theorem bindAct_begin (hS : Struct reg s) (hi : s.pc t = .idle) :
    ∀ t', ((begin cfg reg s t).pc t').isBind = true → (begin cfg reg s t).act t' = true := by
  have g0 := hS.bindAct
  have g0t := hS.bindAct t
  begin_cases
  all_goals (try rw [hi] at g0t)
  all_goals (try simp [Pc.isBind] at g0t)
  all_goals (intro t' h1; by_cases ht : t' = t <;> first | (subst ht; try simp [upd_apply, afterLists, nextList, Pc.isBind] at h1 ⊢) | (try simp [ht, upd_apply, afterLists, nextList] at h1 ⊢))
  all_goals grind [Pc.isBind]

end TbbVerif.C04
