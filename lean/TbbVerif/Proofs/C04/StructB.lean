/-
C04 proofs — structural invariants (lmxBind, lmxDes, bindReg): preservation by `exec` and `begin`.
-/
import TbbVerif.Proofs.C04.StructA

namespace TbbVerif.C04
variable {cfg : Cfg} {reg : List Nat} {s : St} {t : Nat}

theorem lmxBind_exec (hS : Struct reg s) :
    ∀ t' x p sn, (exec cfg reg s t).pc t' = .bRegU x p sn → (exec cfg reg s t).lmx t' = some t' := by
  have g0 := hS.lmxWalk
  have g0t := hS.lmxWalk t
  have g1 := hS.lmxBind
  have g1t := hS.lmxBind t
  have g2 := hS.lmxDes
  have g2t := hS.lmxDes t
  exec_cases
  all_goals (try rw [‹s.pc t = _›] at g0t)
  all_goals (try simp [Pc.walkIdx] at g0t)
  all_goals (try rw [‹s.pc t = _›] at g1t)
  all_goals (try simp [Pc.walkIdx] at g1t)
  all_goals (try rw [‹s.pc t = _›] at g2t)
  all_goals (try simp [Pc.walkIdx] at g2t)
  all_goals (intro t' x p sn h1; by_cases ht : t' = t <;> first | (subst ht; try simp [upd_apply, afterLists, nextList, Pc.walkIdx] at h1 ⊢) | (try simp [ht, upd_apply, afterLists, nextList] at h1 ⊢))
  all_goals grind [Pc.walkIdx]

theorem lmxBind_begin (hS : Struct reg s) (hi : s.pc t = .idle) :
    ∀ t' x p sn, (begin reg s t).pc t' = .bRegU x p sn → (begin reg s t).lmx t' = some t' := by
  have g0 := hS.lmxWalk
  have g0t := hS.lmxWalk t
  have g1 := hS.lmxBind
  have g1t := hS.lmxBind t
  have g2 := hS.lmxDes
  have g2t := hS.lmxDes t
  begin_cases
  all_goals (try rw [hi] at g0t)
  all_goals (try simp [Pc.walkIdx] at g0t)
  all_goals (try rw [hi] at g1t)
  all_goals (try simp [Pc.walkIdx] at g1t)
  all_goals (try rw [hi] at g2t)
  all_goals (try simp [Pc.walkIdx] at g2t)
  all_goals (intro t' x p sn h1; by_cases ht : t' = t <;> first | (subst ht; try simp [upd_apply, afterLists, nextList, Pc.walkIdx] at h1 ⊢) | (try simp [ht, upd_apply, afterLists, nextList] at h1 ⊢))
  all_goals grind [Pc.walkIdx]

theorem lmxDes_exec (hS : Struct reg s) :
    ∀ t' x L, (exec cfg reg s t).pc t' = .dUnlock x → (exec cfg reg s t).lst x = some L → (exec cfg reg s t).lmx L = some t' := by
  have g0 := hS.lmxWalk
  have g0t := hS.lmxWalk t
  have g1 := hS.lmxBind
  have g1t := hS.lmxBind t
  have g2 := hS.lmxDes
  have g2t := hS.lmxDes t
  have g3 := hS.bindNotDying
  have g3t := hS.bindNotDying t
  have g4 := hS.dyingOk
  have g4t := hS.dyingOk t
  exec_cases
  all_goals (try rw [‹s.pc t = _›] at g0t)
  all_goals (try simp [Pc.walkIdx, Pc.bindTarget, Pc.destroying] at g0t)
  all_goals (try rw [‹s.pc t = _›] at g1t)
  all_goals (try simp [Pc.walkIdx, Pc.bindTarget, Pc.destroying] at g1t)
  all_goals (try rw [‹s.pc t = _›] at g2t)
  all_goals (try simp [Pc.walkIdx, Pc.bindTarget, Pc.destroying] at g2t)
  all_goals (try rw [‹s.pc t = _›] at g3t)
  all_goals (try simp [Pc.walkIdx, Pc.bindTarget, Pc.destroying] at g3t)
  all_goals (try rw [‹s.pc t = _›] at g4t)
  all_goals (try simp [Pc.walkIdx, Pc.bindTarget, Pc.destroying] at g4t)
  all_goals (intro t' x L h1 h2; by_cases ht : t' = t <;> first | (subst ht; try simp [upd_apply, afterLists, nextList, Pc.walkIdx, Pc.bindTarget, Pc.destroying] at h1 h2 ⊢) | (try simp [ht, upd_apply, afterLists, nextList] at h1 h2 ⊢))
  all_goals grind [Pc.walkIdx, Pc.bindTarget, Pc.destroying]

theorem lmxDes_begin (hS : Struct reg s) (hi : s.pc t = .idle) :
    ∀ t' x L, (begin reg s t).pc t' = .dUnlock x → (begin reg s t).lst x = some L → (begin reg s t).lmx L = some t' := by
  have g0 := hS.lmxWalk
  have g0t := hS.lmxWalk t
  have g1 := hS.lmxBind
  have g1t := hS.lmxBind t
  have g2 := hS.lmxDes
  have g2t := hS.lmxDes t
  have g3 := hS.bindNotDying
  have g3t := hS.bindNotDying t
  have g4 := hS.dyingOk
  have g4t := hS.dyingOk t
  begin_cases
  all_goals (try rw [hi] at g0t)
  all_goals (try simp [Pc.walkIdx, Pc.bindTarget, Pc.destroying] at g0t)
  all_goals (try rw [hi] at g1t)
  all_goals (try simp [Pc.walkIdx, Pc.bindTarget, Pc.destroying] at g1t)
  all_goals (try rw [hi] at g2t)
  all_goals (try simp [Pc.walkIdx, Pc.bindTarget, Pc.destroying] at g2t)
  all_goals (try rw [hi] at g3t)
  all_goals (try simp [Pc.walkIdx, Pc.bindTarget, Pc.destroying] at g3t)
  all_goals (try rw [hi] at g4t)
  all_goals (try simp [Pc.walkIdx, Pc.bindTarget, Pc.destroying] at g4t)
  all_goals (intro t' x L h1 h2; by_cases ht : t' = t <;> first | (subst ht; try simp [upd_apply, afterLists, nextList, Pc.walkIdx, Pc.bindTarget, Pc.destroying] at h1 h2 ⊢) | (try simp [ht, upd_apply, afterLists, nextList] at h1 h2 ⊢))
  all_goals grind [Pc.walkIdx, Pc.bindTarget, Pc.destroying]

theorem bindReg_exec (hS : Struct reg s) :
    ∀ t', ((exec cfg reg s t).pc t').isBind = true → t' ∈ reg := by
  have g0 := hS.bindReg
  have g0t := hS.bindReg t
  exec_cases
  all_goals (try rw [‹s.pc t = _›] at g0t)
  all_goals (try simp [Pc.isBind] at g0t)
  all_goals (intro t' h1; by_cases ht : t' = t <;> first | (subst ht; try simp [upd_apply, afterLists, nextList, Pc.isBind] at h1 ⊢) | (try simp [ht, upd_apply, afterLists, nextList] at h1 ⊢))
  all_goals grind [Pc.isBind]

theorem bindReg_begin (hS : Struct reg s) (hi : s.pc t = .idle) :
    ∀ t', ((begin reg s t).pc t').isBind = true → t' ∈ reg := by
  have g0 := hS.bindReg
  have g0t := hS.bindReg t
  begin_cases
  all_goals (try rw [hi] at g0t)
  all_goals (try simp [Pc.isBind] at g0t)
  all_goals (intro t' h1; by_cases ht : t' = t <;> first | (subst ht; try simp [upd_apply, afterLists, nextList, Pc.isBind] at h1 ⊢) | (try simp [ht, upd_apply, afterLists, nextList] at h1 ⊢))
  all_goals grind [Pc.isBind]

end TbbVerif.C04
