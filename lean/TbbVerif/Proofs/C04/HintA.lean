/-
C04 proofs — structural invariants (rseq, mhcReg, mhcBind): preservation by `exec` and `begin`.
-/
import TbbVerif.Proofs.C04.ReachLemmas

namespace TbbVerif.C04
variable {cfg : Cfg} {r : List RF} {reg : List Nat} {s : St} {t : Nat}

theorem rseq_exec_c (hS : Struct reg s) (hm : RF.mhc ∉ cfg.resetSeq) (hH : Hint s) :
    ∀ t' x l, (execCancel cfg reg s t).pc t' = .rSeq x l → RF.mhc ∉ l := by
  have hm' : RF.mhc ∉ cfg.resetSeq := hm
  have g0 := hH.rseq
  have g0t := hH.rseq t
  unfold execCancel
  try unfold walkNext
  try unfold afterHint
  try unfold applyReset
  repeat' split
  all_goals (try rw [‹s.pc t = _›] at g0t)
  all_goals (try simp [List.mem_cons] at g0t)
  all_goals (intro t' x l h1; by_cases ht : t' = t <;> first | (subst ht; try simp [upd_apply, afterLists, nextList, List.mem_cons] at h1 ⊢) | (try simp [ht, upd_apply, afterLists, nextList] at h1 ⊢))
  all_goals grind [List.mem_cons]

theorem rseq_exec_b (hS : Struct reg s) (hm : RF.mhc ∉ cfg.resetSeq) (hH : Hint s) :
    ∀ t' x l, (execBind cfg s t).pc t' = .rSeq x l → RF.mhc ∉ l := by
  have hm' : RF.mhc ∉ cfg.resetSeq := hm
  have g0 := hH.rseq
  have g0t := hH.rseq t
  unfold execBind
  try unfold walkNext
  try unfold afterHint
  try unfold applyReset
  repeat' split
  all_goals (try rw [‹s.pc t = _›] at g0t)
  all_goals (try simp [List.mem_cons] at g0t)
  all_goals (intro t' x l h1; by_cases ht : t' = t <;> first | (subst ht; try simp [upd_apply, afterLists, nextList, List.mem_cons] at h1 ⊢) | (try simp [ht, upd_apply, afterLists, nextList] at h1 ⊢))
  all_goals grind [List.mem_cons]

theorem rseq_exec_o (hS : Struct reg s) (hm : RF.mhc ∉ cfg.resetSeq) (hH : Hint s) :
    ∀ t' x l, (execOther s t).pc t' = .rSeq x l → RF.mhc ∉ l := by
  have hm' : RF.mhc ∉ cfg.resetSeq := hm
  have g0 := hH.rseq
  have g0t := hH.rseq t
  unfold execOther
  try unfold walkNext
  try unfold afterHint
  try unfold applyReset
  repeat' split
  all_goals (try rw [‹s.pc t = _›] at g0t)
  all_goals (try simp [List.mem_cons] at g0t)
  all_goals (intro t' x l h1; by_cases ht : t' = t <;> first | (subst ht; try simp [upd_apply, afterLists, nextList, List.mem_cons] at h1 ⊢) | (try simp [ht, upd_apply, afterLists, nextList] at h1 ⊢))
  all_goals grind [List.mem_cons]

theorem rseq_exec (hS : Struct reg s) (hm : RF.mhc ∉ cfg.resetSeq) (hH : Hint s) :
    ∀ t' x l, (exec cfg reg s t).pc t' = .rSeq x l → RF.mhc ∉ l := by
  unfold exec
  split
  · exact rseq_exec_c hS hm hH
  · split
    · exact rseq_exec_b hS hm hH
    · exact rseq_exec_o hS hm hH

theorem rseq_begin (hS : Struct reg s) (hm : RF.mhc ∉ cfg.resetSeq) (hH : Hint s) (hi : s.pc t = .idle) :
    ∀ t' x l, (begin cfg reg s t).pc t' = .rSeq x l → RF.mhc ∉ l := by
  have hm' : RF.mhc ∉ cfg.resetSeq := hm
  have g0 := hH.rseq
  have g0t := hH.rseq t
  begin_cases
  all_goals (try rw [hi] at g0t)
  all_goals (try simp [List.mem_cons] at g0t)
  all_goals (intro t' x l h1; by_cases ht : t' = t <;> first | (subst ht; try simp [upd_apply, afterLists, nextList, List.mem_cons] at h1 ⊢) | (try simp [ht, upd_apply, afterLists, nextList] at h1 ⊢))
  all_goals grind [List.mem_cons]

theorem mhcReg_exec_c (hS : Struct reg s) (hm : RF.mhc ∉ cfg.resetSeq) (hH : Hint s) :
    ∀ L x p, x ∈ (execCancel cfg reg s t).items L → (execCancel cfg reg s t).par x = some p → (execCancel cfg reg s t).mhc p = true := by
  have hm' : RF.mhc ∉ cfg.resetSeq := hm
  have g0 := hH.mhcReg
  have g1 := hH.mhcBind
  have g1t := hH.mhcBind t
  have g2 := hH.rseq
  have g2t := hH.rseq t
  have g3 := hS.ownerPar
  have g3t := hS.ownerPar t
  have g4 := hS.itemsOk
  have g4t := hS.itemsOk t
  have g5 := hS.createdPar
  unfold execCancel
  try unfold walkNext
  try unfold afterHint
  try unfold applyReset
  repeat' split
  all_goals (try rw [‹s.pc t = _›] at g1t)
  all_goals (try simp [Pc.pastHint, Pc.owner, List.mem_cons, List.mem_of_mem_erase] at g1t)
  all_goals (try rw [‹s.pc t = _›] at g2t)
  all_goals (try simp [Pc.pastHint, Pc.owner, List.mem_cons, List.mem_of_mem_erase] at g2t)
  all_goals (try rw [‹s.pc t = _›] at g3t)
  all_goals (try simp [Pc.pastHint, Pc.owner, List.mem_cons, List.mem_of_mem_erase] at g3t)
  all_goals (try rw [‹s.pc t = _›] at g4t)
  all_goals (try simp [Pc.pastHint, Pc.owner, List.mem_cons, List.mem_of_mem_erase] at g4t)
  all_goals (intro L x p h1 h2; try simp [upd_apply, afterLists, nextList] at h1 h2 ⊢)
  all_goals grind [Pc.pastHint, Pc.owner, List.mem_cons, List.mem_of_mem_erase]

theorem mhcReg_exec_b (hS : Struct reg s) (hm : RF.mhc ∉ cfg.resetSeq) (hH : Hint s) :
    ∀ L x p, x ∈ (execBind cfg s t).items L → (execBind cfg s t).par x = some p → (execBind cfg s t).mhc p = true := by
  have hm' : RF.mhc ∉ cfg.resetSeq := hm
  have g0 := hH.mhcReg
  have g1 := hH.mhcBind
  have g1t := hH.mhcBind t
  have g2 := hH.rseq
  have g2t := hH.rseq t
  have g3 := hS.ownerPar
  have g3t := hS.ownerPar t
  have g4 := hS.itemsOk
  have g4t := hS.itemsOk t
  have g5 := hS.createdPar
  unfold execBind
  try unfold walkNext
  try unfold afterHint
  try unfold applyReset
  repeat' split
  all_goals (try rw [‹s.pc t = _›] at g1t)
  all_goals (try simp [Pc.pastHint, Pc.owner, List.mem_cons, List.mem_of_mem_erase] at g1t)
  all_goals (try rw [‹s.pc t = _›] at g2t)
  all_goals (try simp [Pc.pastHint, Pc.owner, List.mem_cons, List.mem_of_mem_erase] at g2t)
  all_goals (try rw [‹s.pc t = _›] at g3t)
  all_goals (try simp [Pc.pastHint, Pc.owner, List.mem_cons, List.mem_of_mem_erase] at g3t)
  all_goals (try rw [‹s.pc t = _›] at g4t)
  all_goals (try simp [Pc.pastHint, Pc.owner, List.mem_cons, List.mem_of_mem_erase] at g4t)
  all_goals (intro L x p h1 h2; try simp [upd_apply, afterLists, nextList] at h1 h2 ⊢)
  all_goals grind [Pc.pastHint, Pc.owner, List.mem_cons, List.mem_of_mem_erase]

theorem mhcReg_exec_o (hS : Struct reg s) (hm : RF.mhc ∉ cfg.resetSeq) (hH : Hint s) :
    ∀ L x p, x ∈ (execOther s t).items L → (execOther s t).par x = some p → (execOther s t).mhc p = true := by
  have hm' : RF.mhc ∉ cfg.resetSeq := hm
  have g0 := hH.mhcReg
  have g1 := hH.mhcBind
  have g1t := hH.mhcBind t
  have g2 := hH.rseq
  have g2t := hH.rseq t
  have g3 := hS.ownerPar
  have g3t := hS.ownerPar t
  have g4 := hS.itemsOk
  have g4t := hS.itemsOk t
  have g5 := hS.createdPar
  unfold execOther
  try unfold walkNext
  try unfold afterHint
  try unfold applyReset
  repeat' split
  all_goals (try rw [‹s.pc t = _›] at g1t)
  all_goals (try simp [Pc.pastHint, Pc.owner, List.mem_cons, List.mem_of_mem_erase] at g1t)
  all_goals (try rw [‹s.pc t = _›] at g2t)
  all_goals (try simp [Pc.pastHint, Pc.owner, List.mem_cons, List.mem_of_mem_erase] at g2t)
  all_goals (try rw [‹s.pc t = _›] at g3t)
  all_goals (try simp [Pc.pastHint, Pc.owner, List.mem_cons, List.mem_of_mem_erase] at g3t)
  all_goals (try rw [‹s.pc t = _›] at g4t)
  all_goals (try simp [Pc.pastHint, Pc.owner, List.mem_cons, List.mem_of_mem_erase] at g4t)
  all_goals (intro L x p h1 h2; try simp [upd_apply, afterLists, nextList] at h1 h2 ⊢)
  all_goals grind [Pc.pastHint, Pc.owner, List.mem_cons, List.mem_of_mem_erase]

theorem mhcReg_exec (hS : Struct reg s) (hm : RF.mhc ∉ cfg.resetSeq) (hH : Hint s) :
    ∀ L x p, x ∈ (exec cfg reg s t).items L → (exec cfg reg s t).par x = some p → (exec cfg reg s t).mhc p = true := by
  unfold exec
  split
  · exact mhcReg_exec_c hS hm hH
  · split
    · exact mhcReg_exec_b hS hm hH
    · exact mhcReg_exec_o hS hm hH

theorem mhcReg_begin (hS : Struct reg s) (hm : RF.mhc ∉ cfg.resetSeq) (hH : Hint s) (hi : s.pc t = .idle) :
    ∀ L x p, x ∈ (begin cfg reg s t).items L → (begin cfg reg s t).par x = some p → (begin cfg reg s t).mhc p = true := by
  have hm' : RF.mhc ∉ cfg.resetSeq := hm
  have g0 := hH.mhcReg
  have g1 := hH.mhcBind
  have g1t := hH.mhcBind t
  have g2 := hH.rseq
  have g2t := hH.rseq t
  have g3 := hS.ownerPar
  have g3t := hS.ownerPar t
  have g4 := hS.itemsOk
  have g4t := hS.itemsOk t
  have g5 := hS.createdPar
  begin_cases
  all_goals (try rw [hi] at g1t)
  all_goals (try simp [Pc.pastHint, Pc.owner, List.mem_cons, List.mem_of_mem_erase] at g1t)
  all_goals (try rw [hi] at g2t)
  all_goals (try simp [Pc.pastHint, Pc.owner, List.mem_cons, List.mem_of_mem_erase] at g2t)
  all_goals (try rw [hi] at g3t)
  all_goals (try simp [Pc.pastHint, Pc.owner, List.mem_cons, List.mem_of_mem_erase] at g3t)
  all_goals (try rw [hi] at g4t)
  all_goals (try simp [Pc.pastHint, Pc.owner, List.mem_cons, List.mem_of_mem_erase] at g4t)
  all_goals (intro L x p h1 h2; try simp [upd_apply, afterLists, nextList] at h1 h2 ⊢)
  all_goals grind [Pc.pastHint, Pc.owner, List.mem_cons, List.mem_of_mem_erase]

theorem mhcBind_exec_c (hS : Struct reg s) (hm : RF.mhc ∉ cfg.resetSeq) (hH : Hint s) :
    ∀ t' p, ((execCancel cfg reg s t).pc t').pastHint = some p → (execCancel cfg reg s t).mhc p = true := by
  have hm' : RF.mhc ∉ cfg.resetSeq := hm
  have g0 := hH.mhcBind
  have g0t := hH.mhcBind t
  have g1 := hH.rseq
  have g1t := hH.rseq t
  unfold execCancel
  try unfold walkNext
  try unfold afterHint
  try unfold applyReset
  repeat' split
  all_goals (try rw [‹s.pc t = _›] at g0t)
  all_goals (try simp [Pc.pastHint, List.mem_cons] at g0t)
  all_goals (try rw [‹s.pc t = _›] at g1t)
  all_goals (try simp [Pc.pastHint, List.mem_cons] at g1t)
  all_goals (intro t' p h1; by_cases ht : t' = t <;> first | (subst ht; try simp [upd_apply, afterLists, nextList, Pc.pastHint, List.mem_cons] at h1 ⊢) | (try simp [ht, upd_apply, afterLists, nextList] at h1 ⊢))
  all_goals grind [Pc.pastHint, List.mem_cons]

theorem mhcBind_exec_b (hS : Struct reg s) (hm : RF.mhc ∉ cfg.resetSeq) (hH : Hint s) :
    ∀ t' p, ((execBind cfg s t).pc t').pastHint = some p → (execBind cfg s t).mhc p = true := by
  have hm' : RF.mhc ∉ cfg.resetSeq := hm
  have g0 := hH.mhcBind
  have g0t := hH.mhcBind t
  have g1 := hH.rseq
  have g1t := hH.rseq t
  unfold execBind
  try unfold walkNext
  try unfold afterHint
  try unfold applyReset
  repeat' split
  all_goals (try rw [‹s.pc t = _›] at g0t)
  all_goals (try simp [Pc.pastHint, List.mem_cons] at g0t)
  all_goals (try rw [‹s.pc t = _›] at g1t)
  all_goals (try simp [Pc.pastHint, List.mem_cons] at g1t)
  all_goals (intro t' p h1; by_cases ht : t' = t <;> first | (subst ht; try simp [upd_apply, afterLists, nextList, Pc.pastHint, List.mem_cons] at h1 ⊢) | (try simp [ht, upd_apply, afterLists, nextList] at h1 ⊢))
  all_goals grind [Pc.pastHint, List.mem_cons]

theorem mhcBind_exec_o (hS : Struct reg s) (hm : RF.mhc ∉ cfg.resetSeq) (hH : Hint s) :
    ∀ t' p, ((execOther s t).pc t').pastHint = some p → (execOther s t).mhc p = true := by
  have hm' : RF.mhc ∉ cfg.resetSeq := hm
  have g0 := hH.mhcBind
  have g0t := hH.mhcBind t
  have g1 := hH.rseq
  have g1t := hH.rseq t
  unfold execOther
  try unfold walkNext
  try unfold afterHint
  try unfold applyReset
  repeat' split
  all_goals (try rw [‹s.pc t = _›] at g0t)
  all_goals (try simp [Pc.pastHint, List.mem_cons] at g0t)
  all_goals (try rw [‹s.pc t = _›] at g1t)
  all_goals (try simp [Pc.pastHint, List.mem_cons] at g1t)
  all_goals (intro t' p h1; by_cases ht : t' = t <;> first | (subst ht; try simp [upd_apply, afterLists, nextList, Pc.pastHint, List.mem_cons] at h1 ⊢) | (try simp [ht, upd_apply, afterLists, nextList] at h1 ⊢))
  all_goals grind [Pc.pastHint, List.mem_cons]

theorem mhcBind_exec (hS : Struct reg s) (hm : RF.mhc ∉ cfg.resetSeq) (hH : Hint s) :
    ∀ t' p, ((exec cfg reg s t).pc t').pastHint = some p → (exec cfg reg s t).mhc p = true := by
  unfold exec
  split
  · exact mhcBind_exec_c hS hm hH
  · split
    · exact mhcBind_exec_b hS hm hH
    · exact mhcBind_exec_o hS hm hH

theorem mhcBind_begin (hS : Struct reg s) (hm : RF.mhc ∉ cfg.resetSeq) (hH : Hint s) (hi : s.pc t = .idle) :
    ∀ t' p, ((begin cfg reg s t).pc t').pastHint = some p → (begin cfg reg s t).mhc p = true := by
  have hm' : RF.mhc ∉ cfg.resetSeq := hm
  have g0 := hH.mhcBind
  have g0t := hH.mhcBind t
  have g1 := hH.rseq
  have g1t := hH.rseq t
  begin_cases
  all_goals (try rw [hi] at g0t)
  all_goals (try simp [Pc.pastHint, List.mem_cons] at g0t)
  all_goals (try rw [hi] at g1t)
  all_goals (try simp [Pc.pastHint, List.mem_cons] at g1t)
  all_goals (intro t' p h1; by_cases ht : t' = t <;> first | (subst ht; try simp [upd_apply, afterLists, nextList, Pc.pastHint, List.mem_cons] at h1 ⊢) | (try simp [ht, upd_apply, afterLists, nextList] at h1 ⊢))
  all_goals grind [Pc.pastHint, List.mem_cons]

end TbbVerif.C04
