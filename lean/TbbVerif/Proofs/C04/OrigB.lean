/-
C04 proofs — structural invariants (can): preservation by `exec` and `begin`.
-/
import TbbVerif.Proofs.C04.OrigA

namespace TbbVerif.C04
variable {cfg : Cfg} {reg : List Nat} {s : St} {t : Nat}

theorem can_exec (hS : Struct reg s) (hO : Orig s) :
    ∀ x, (exec cfg reg s t).can x = true → Justified (exec cfg reg s t).par (exec cfg reg s t).wins x := by
  have g0 := hO.can
  have g1 := hO.won
  have g1t := hO.won t
  have g2 := hO.paint
  have g2t := hO.paint t
  have g3 := hO.copy
  have g3t := hO.copy t
  have g4 := hS.ownerPar
  have g4t := hS.ownerPar t
  have g5 := hS.createdPar
  have g6 := hS.parDone
  exec_cases
  all_goals (try rw [‹s.pc t = _›] at g1t)
  all_goals (try simp [Pc.wonSrc, Pc.copyVal, Pc.owner, justified_self, justified_anc, justified_child, justified_upd_wins, justified_upd_wins_self, justified_upd_par] at g1t)
  all_goals (try rw [‹s.pc t = _›] at g2t)
  all_goals (try simp [Pc.wonSrc, Pc.copyVal, Pc.owner, justified_self, justified_anc, justified_child, justified_upd_wins, justified_upd_wins_self, justified_upd_par] at g2t)
  all_goals (try rw [‹s.pc t = _›] at g3t)
  all_goals (try simp [Pc.wonSrc, Pc.copyVal, Pc.owner, justified_self, justified_anc, justified_child, justified_upd_wins, justified_upd_wins_self, justified_upd_par] at g3t)
  all_goals (try rw [‹s.pc t = _›] at g4t)
  all_goals (try simp [Pc.wonSrc, Pc.copyVal, Pc.owner, justified_self, justified_anc, justified_child, justified_upd_wins, justified_upd_wins_self, justified_upd_par] at g4t)
  all_goals (try (have hp := g2t _ _ _ _ _ rfl rfl rfl rfl rfl; simp at hp))
  all_goals (intro x h1; try simp [upd_apply, afterLists, nextList] at h1 ⊢)
  all_goals grind [Pc.wonSrc, Pc.copyVal, Pc.owner, justified_self, justified_anc, justified_child, justified_upd_wins, justified_upd_wins_self, justified_upd_par]

theorem can_begin (hS : Struct reg s) (hO : Orig s) (hi : s.pc t = .idle) :
    ∀ x, (begin cfg reg s t).can x = true → Justified (begin cfg reg s t).par (begin cfg reg s t).wins x := by
  have g0 := hO.can
  have g1 := hO.won
  have g1t := hO.won t
  have g2 := hO.paint
  have g2t := hO.paint t
  have g3 := hO.copy
  have g3t := hO.copy t
  have g4 := hS.ownerPar
  have g4t := hS.ownerPar t
  have g5 := hS.createdPar
  have g6 := hS.parDone
  begin_cases
  all_goals (try rw [hi] at g1t)
  all_goals (try simp [Pc.wonSrc, Pc.copyVal, Pc.owner, justified_self, justified_anc, justified_child, justified_upd_wins, justified_upd_wins_self, justified_upd_par] at g1t)
  all_goals (try rw [hi] at g2t)
  all_goals (try simp [Pc.wonSrc, Pc.copyVal, Pc.owner, justified_self, justified_anc, justified_child, justified_upd_wins, justified_upd_wins_self, justified_upd_par] at g2t)
  all_goals (try rw [hi] at g3t)
  all_goals (try simp [Pc.wonSrc, Pc.copyVal, Pc.owner, justified_self, justified_anc, justified_child, justified_upd_wins, justified_upd_wins_self, justified_upd_par] at g3t)
  all_goals (try rw [hi] at g4t)
  all_goals (try simp [Pc.wonSrc, Pc.copyVal, Pc.owner, justified_self, justified_anc, justified_child, justified_upd_wins, justified_upd_wins_self, justified_upd_par] at g4t)
  all_goals (intro x h1; try simp [upd_apply, afterLists, nextList] at h1 ⊢)
  all_goals grind [Pc.wonSrc, Pc.copyVal, Pc.owner, justified_self, justified_anc, justified_child, justified_upd_wins, justified_upd_wins_self, justified_upd_par]

end TbbVerif.C04
