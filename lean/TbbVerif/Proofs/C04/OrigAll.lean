/-
C04 proofs — `Orig` (every cancelled context is justified by a winning cancel on an ancestor-or-self) holds in every
reachable state, for any cfg.
-/
import TbbVerif.Proofs.C04.OrigB

namespace TbbVerif.C04
variable {cfg : Cfg} {reg : List Nat} {s : St} {t : Nat}

theorem orig_exec (hS : Struct reg s) (hO : Orig s) : Orig (exec cfg reg s t) where
  can := can_exec hS hO
  won := won_exec hS hO
  paint := paint_exec hS hO
  copy := copy_exec hS hO

theorem orig_begin (hS : Struct reg s) (hO : Orig s) (hi : s.pc t = .idle) : Orig (begin cfg reg s t) where
  can := can_begin hS hO hi
  won := won_begin hS hO hi
  paint := paint_begin hS hO hi
  copy := copy_begin hS hO hi

theorem so_step (h : Struct reg s ∧ Orig s) : Struct reg (step cfg reg s t) ∧ Orig (step cfg reg s t) :=
  step_preserves (P := fun s => Struct reg s ∧ Orig s)
    (fun _ _ hi h => ⟨struct_begin h.1 hi, orig_begin h.1 h.2 hi⟩)
    (fun _ _ h => ⟨struct_exec h.1, orig_exec h.1 h.2⟩) s t h

theorem orig_init (reg : List Nat) (prog : Nat → List Op) : Orig (init reg prog) := by
  constructor <;> simp [init, Pc.wonSrc, Pc.copyVal]

theorem orig_run (cfg : Cfg) (reg : List Nat) (prog : Nat → List Op) (sched : List Nat) :
    Orig ((CtxTree cfg reg prog).run sched) :=
  (Sys.inv_run (CtxTree cfg reg prog) (fun s => Struct reg s ∧ Orig s) ⟨struct_init reg prog, orig_init reg prog⟩
    (fun _ _ h => so_step h) sched).2

end TbbVerif.C04
