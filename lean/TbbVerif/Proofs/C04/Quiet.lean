/-
C04 proofs — threads that never run stay idle (used to show that the closed witness schedules end in quiescent states).
-/
import TbbVerif.Proofs.C04.Frame
import TbbVerif.Proofs.C04.Witness

namespace TbbVerif.C04

theorem runFrom_pc_of_not_mem (cfg : Cfg) (reg : List Nat) (prog : Nat → List Op) (t : Nat) :
    ∀ (sched : List Nat) (s : St), t ∉ sched → ((CtxTree cfg reg prog).runFrom s sched).pc t = s.pc t := by
  intro sched
  induction sched with
  | nil => intro s _; rfl
  | cons u us ih =>
    intro s h
    simp only [List.mem_cons, not_or] at h
    rw [Sys.runFrom_cons, ih _ h.2]
    exact step_pc_other h.1

theorem run_pc_of_not_mem (cfg : Cfg) (reg : List Nat) (prog : Nat → List Op) (sched : List Nat) (t : Nat)
    (h : t ∉ sched) : ((CtxTree cfg reg prog).run sched).pc t = .idle :=
  runFrom_pc_of_not_mem cfg reg prog t sched _ h

/-- a state is quiescent if the finitely many threads that ever ran are idle -/
theorem quiescent_of (cfg : Cfg) (reg : List Nat) (prog : Nat → List Op) (sched : List Nat)
    (h : ∀ t ∈ sched, ((CtxTree cfg reg prog).run sched).pc t = .idle) :
    ∀ t, ((CtxTree cfg reg prog).run sched).pc t = .idle := by
  intro t
  by_cases ht : t ∈ sched
  · exact h t ht
  · exact run_pc_of_not_mem cfg reg prog sched t ht

end TbbVerif.C04
