/-
C04 proofs — structural invariants (epochNear, epochFree): preservation by `exec` and `begin`.
-/
import TbbVerif.Proofs.C04.ReachB

namespace TbbVerif.C04
variable {cfg : Cfg} {r : List RF} {reg : List Nat} {s : St} {t : Nat}

theorem epochNear_exec_c (hS : Struct reg s) (hO : Orig s) (hH : Hint s) (hR : Reach reg s) :
    ∀ L, L ∈ reg → (execCancel (C r) reg s t).act L = true → (execCancel (C r) reg s t).eff L = (execCancel (C r) reg s t).G ∨ (execCancel (C r) reg s t).eff L + 1 = (execCancel (C r) reg s t).G := by
  have g0 := hR.epochNear
  have g1 := hR.epochWalk
  have g1t := hR.epochWalk t
  have g2 := hR.propMx
  have g2t := hR.propMx t
  have g3 := hR.syncG
  have g3t := hR.syncG t
  have g4 := hS.regMx
  have g4t := hS.regMx t
  unfold execCancel
  try unfold walkNext
  try unfold afterHint
  try unfold applyReset
  try simp only [C_propHolds, C_copyNeverClears, afterLists, ↓reduceIte, Bool.true_and]
  repeat' split
  all_goals (try rw [‹s.pc t = _›] at g1t)
  all_goals (try simp [Pc.inProp, Pc.walkFrom, Pc.inReg, St.eff] at g1t)
  all_goals (try rw [‹s.pc t = _›] at g2t)
  all_goals (try simp [Pc.inProp, Pc.walkFrom, Pc.inReg, St.eff] at g2t)
  all_goals (try rw [‹s.pc t = _›] at g3t)
  all_goals (try simp [Pc.inProp, Pc.walkFrom, Pc.inReg, St.eff] at g3t)
  all_goals (try rw [‹s.pc t = _›] at g4t)
  all_goals (try simp [Pc.inProp, Pc.walkFrom, Pc.inReg, St.eff] at g4t)
  all_goals (intro L h1 h2; try simp [C, St.eff, upd_apply, afterLists, nextList] at h1 h2 ⊢)
  all_goals grind [Pc.inProp, Pc.walkFrom, Pc.inReg, St.eff]

theorem epochNear_exec_b (hS : Struct reg s) (hO : Orig s) (hH : Hint s) (hR : Reach reg s) :
    ∀ L, L ∈ reg → (execBind (C r) s t).act L = true → (execBind (C r) s t).eff L = (execBind (C r) s t).G ∨ (execBind (C r) s t).eff L + 1 = (execBind (C r) s t).G := by
  have g0 := hR.epochNear
  have g1 := hR.epochWalk
  have g1t := hR.epochWalk t
  have g2 := hR.propMx
  have g2t := hR.propMx t
  have g3 := hR.syncG
  have g3t := hR.syncG t
  have g4 := hS.regMx
  have g4t := hS.regMx t
  unfold execBind
  try unfold walkNext
  try unfold afterHint
  try unfold applyReset
  try simp only [C_propHolds, C_copyNeverClears, afterLists, ↓reduceIte, Bool.true_and]
  repeat' split
  all_goals (try rw [‹s.pc t = _›] at g1t)
  all_goals (try simp [Pc.inProp, Pc.walkFrom, Pc.inReg, St.eff] at g1t)
  all_goals (try rw [‹s.pc t = _›] at g2t)
  all_goals (try simp [Pc.inProp, Pc.walkFrom, Pc.inReg, St.eff] at g2t)
  all_goals (try rw [‹s.pc t = _›] at g3t)
  all_goals (try simp [Pc.inProp, Pc.walkFrom, Pc.inReg, St.eff] at g3t)
  all_goals (try rw [‹s.pc t = _›] at g4t)
  all_goals (try simp [Pc.inProp, Pc.walkFrom, Pc.inReg, St.eff] at g4t)
  all_goals (intro L h1 h2; try simp [C, St.eff, upd_apply, afterLists, nextList] at h1 h2 ⊢)
  all_goals grind [Pc.inProp, Pc.walkFrom, Pc.inReg, St.eff]

theorem epochNear_exec_o (hS : Struct reg s) (hO : Orig s) (hH : Hint s) (hR : Reach reg s) :
    ∀ L, L ∈ reg → (execOther s t).act L = true → (execOther s t).eff L = (execOther s t).G ∨ (execOther s t).eff L + 1 = (execOther s t).G := by
  have g0 := hR.epochNear
  have g1 := hR.epochWalk
  have g1t := hR.epochWalk t
  have g2 := hR.propMx
  have g2t := hR.propMx t
  have g3 := hR.syncG
  have g3t := hR.syncG t
  have g4 := hS.regMx
  have g4t := hS.regMx t
  unfold execOther
  try unfold walkNext
  try unfold afterHint
  try unfold applyReset
  try simp only [C_propHolds, C_copyNeverClears, afterLists, ↓reduceIte, Bool.true_and]
  repeat' split
  all_goals (try rw [‹s.pc t = _›] at g1t)
  all_goals (try simp [Pc.inProp, Pc.walkFrom, Pc.inReg, St.eff] at g1t)
  all_goals (try rw [‹s.pc t = _›] at g2t)
  all_goals (try simp [Pc.inProp, Pc.walkFrom, Pc.inReg, St.eff] at g2t)
  all_goals (try rw [‹s.pc t = _›] at g3t)
  all_goals (try simp [Pc.inProp, Pc.walkFrom, Pc.inReg, St.eff] at g3t)
  all_goals (try rw [‹s.pc t = _›] at g4t)
  all_goals (try simp [Pc.inProp, Pc.walkFrom, Pc.inReg, St.eff] at g4t)
  all_goals (intro L h1 h2; try simp [C, St.eff, upd_apply, afterLists, nextList] at h1 h2 ⊢)
  all_goals grind [Pc.inProp, Pc.walkFrom, Pc.inReg, St.eff]

theorem epochNear_exec (hS : Struct reg s) (hO : Orig s) (hH : Hint s) (hR : Reach reg s) :
    ∀ L, L ∈ reg → (exec (C r) reg s t).act L = true → (exec (C r) reg s t).eff L = (exec (C r) reg s t).G ∨ (exec (C r) reg s t).eff L + 1 = (exec (C r) reg s t).G := by
  unfold exec
  split
  · exact epochNear_exec_c hS hO hH hR
  · split
    · exact epochNear_exec_b hS hO hH hR
    · exact epochNear_exec_o hS hO hH hR

theorem epochNear_begin (hS : Struct reg s) (hO : Orig s) (hH : Hint s) (hR : Reach reg s) (hi : s.pc t = .idle) :
    ∀ L, L ∈ reg → (begin (C r) reg s t).act L = true → (begin (C r) reg s t).eff L = (begin (C r) reg s t).G ∨ (begin (C r) reg s t).eff L + 1 = (begin (C r) reg s t).G := by
  have g0 := hR.epochNear
  have g1 := hR.epochWalk
  have g1t := hR.epochWalk t
  have g2 := hR.propMx
  have g2t := hR.propMx t
  have g3 := hR.syncG
  have g3t := hR.syncG t
  have g4 := hS.regMx
  have g4t := hS.regMx t
  begin_cases
  all_goals (try rw [hi] at g1t)
  all_goals (try simp [Pc.inProp, Pc.walkFrom, Pc.inReg, St.eff] at g1t)
  all_goals (try rw [hi] at g2t)
  all_goals (try simp [Pc.inProp, Pc.walkFrom, Pc.inReg, St.eff] at g2t)
  all_goals (try rw [hi] at g3t)
  all_goals (try simp [Pc.inProp, Pc.walkFrom, Pc.inReg, St.eff] at g3t)
  all_goals (try rw [hi] at g4t)
  all_goals (try simp [Pc.inProp, Pc.walkFrom, Pc.inReg, St.eff] at g4t)
  all_goals (intro L h1 h2; try simp [C, St.eff, upd_apply, afterLists, nextList] at h1 h2 ⊢)
  all_goals grind [Pc.inProp, Pc.walkFrom, Pc.inReg, St.eff]

theorem epochFree_exec_c (hS : Struct reg s) (hO : Orig s) (hH : Hint s) (hR : Reach reg s) :
    ∀ L, L ∈ reg → (execCancel (C r) reg s t).act L = true → (execCancel (C r) reg s t).propMx = none → (execCancel (C r) reg s t).eff L = (execCancel (C r) reg s t).G := by
  have g0 := hR.epochFree
  have g1 := hR.epochWalk
  have g1t := hR.epochWalk t
  have g2 := hR.propMx
  have g2t := hR.propMx t
  have g3 := hR.syncG
  have g3t := hR.syncG t
  have g4 := hS.regMx
  have g4t := hS.regMx t
  unfold execCancel
  try unfold walkNext
  try unfold afterHint
  try unfold applyReset
  try simp only [C_propHolds, C_copyNeverClears, afterLists, ↓reduceIte, Bool.true_and]
  repeat' split
  all_goals (try rw [‹s.pc t = _›] at g1t)
  all_goals (try simp [Pc.inProp, Pc.walkFrom, Pc.inReg, St.eff] at g1t)
  all_goals (try rw [‹s.pc t = _›] at g2t)
  all_goals (try simp [Pc.inProp, Pc.walkFrom, Pc.inReg, St.eff] at g2t)
  all_goals (try rw [‹s.pc t = _›] at g3t)
  all_goals (try simp [Pc.inProp, Pc.walkFrom, Pc.inReg, St.eff] at g3t)
  all_goals (try rw [‹s.pc t = _›] at g4t)
  all_goals (try simp [Pc.inProp, Pc.walkFrom, Pc.inReg, St.eff] at g4t)
  all_goals (intro L h1 h2 h3; try simp [C, St.eff, upd_apply, afterLists, nextList] at h1 h2 h3 ⊢)
  all_goals grind [Pc.inProp, Pc.walkFrom, Pc.inReg, St.eff]

theorem epochFree_exec_b (hS : Struct reg s) (hO : Orig s) (hH : Hint s) (hR : Reach reg s) :
    ∀ L, L ∈ reg → (execBind (C r) s t).act L = true → (execBind (C r) s t).propMx = none → (execBind (C r) s t).eff L = (execBind (C r) s t).G := by
  have g0 := hR.epochFree
  have g1 := hR.epochWalk
  have g1t := hR.epochWalk t
  have g2 := hR.propMx
  have g2t := hR.propMx t
  have g3 := hR.syncG
  have g3t := hR.syncG t
  have g4 := hS.regMx
  have g4t := hS.regMx t
  unfold execBind
  try unfold walkNext
  try unfold afterHint
  try unfold applyReset
  try simp only [C_propHolds, C_copyNeverClears, afterLists, ↓reduceIte, Bool.true_and]
  repeat' split
  all_goals (try rw [‹s.pc t = _›] at g1t)
  all_goals (try simp [Pc.inProp, Pc.walkFrom, Pc.inReg, St.eff] at g1t)
  all_goals (try rw [‹s.pc t = _›] at g2t)
  all_goals (try simp [Pc.inProp, Pc.walkFrom, Pc.inReg, St.eff] at g2t)
  all_goals (try rw [‹s.pc t = _›] at g3t)
  all_goals (try simp [Pc.inProp, Pc.walkFrom, Pc.inReg, St.eff] at g3t)
  all_goals (try rw [‹s.pc t = _›] at g4t)
  all_goals (try simp [Pc.inProp, Pc.walkFrom, Pc.inReg, St.eff] at g4t)
  all_goals (intro L h1 h2 h3; try simp [C, St.eff, upd_apply, afterLists, nextList] at h1 h2 h3 ⊢)
  all_goals grind [Pc.inProp, Pc.walkFrom, Pc.inReg, St.eff]

theorem epochFree_exec_o (hS : Struct reg s) (hO : Orig s) (hH : Hint s) (hR : Reach reg s) :
    ∀ L, L ∈ reg → (execOther s t).act L = true → (execOther s t).propMx = none → (execOther s t).eff L = (execOther s t).G := by
  have g0 := hR.epochFree
  have g1 := hR.epochWalk
  have g1t := hR.epochWalk t
  have g2 := hR.propMx
  have g2t := hR.propMx t
  have g3 := hR.syncG
  have g3t := hR.syncG t
  have g4 := hS.regMx
  have g4t := hS.regMx t
  unfold execOther
  try unfold walkNext
  try unfold afterHint
  try unfold applyReset
  try simp only [C_propHolds, C_copyNeverClears, afterLists, ↓reduceIte, Bool.true_and]
  repeat' split
  all_goals (try rw [‹s.pc t = _›] at g1t)
  all_goals (try simp [Pc.inProp, Pc.walkFrom, Pc.inReg, St.eff] at g1t)
  all_goals (try rw [‹s.pc t = _›] at g2t)
  all_goals (try simp [Pc.inProp, Pc.walkFrom, Pc.inReg, St.eff] at g2t)
  all_goals (try rw [‹s.pc t = _›] at g3t)
  all_goals (try simp [Pc.inProp, Pc.walkFrom, Pc.inReg, St.eff] at g3t)
  all_goals (try rw [‹s.pc t = _›] at g4t)
  all_goals (try simp [Pc.inProp, Pc.walkFrom, Pc.inReg, St.eff] at g4t)
  all_goals (intro L h1 h2 h3; try simp [C, St.eff, upd_apply, afterLists, nextList] at h1 h2 h3 ⊢)
  all_goals grind [Pc.inProp, Pc.walkFrom, Pc.inReg, St.eff]

theorem epochFree_exec (hS : Struct reg s) (hO : Orig s) (hH : Hint s) (hR : Reach reg s) :
    ∀ L, L ∈ reg → (exec (C r) reg s t).act L = true → (exec (C r) reg s t).propMx = none → (exec (C r) reg s t).eff L = (exec (C r) reg s t).G := by
  unfold exec
  split
  · exact epochFree_exec_c hS hO hH hR
  · split
    · exact epochFree_exec_b hS hO hH hR
    · exact epochFree_exec_o hS hO hH hR

theorem epochFree_begin (hS : Struct reg s) (hO : Orig s) (hH : Hint s) (hR : Reach reg s) (hi : s.pc t = .idle) :
    ∀ L, L ∈ reg → (begin (C r) reg s t).act L = true → (begin (C r) reg s t).propMx = none → (begin (C r) reg s t).eff L = (begin (C r) reg s t).G := by
  have g0 := hR.epochFree
  have g1 := hR.epochWalk
  have g1t := hR.epochWalk t
  have g2 := hR.propMx
  have g2t := hR.propMx t
  have g3 := hR.syncG
  have g3t := hR.syncG t
  have g4 := hS.regMx
  have g4t := hS.regMx t
  begin_cases
  all_goals (try rw [hi] at g1t)
  all_goals (try simp [Pc.inProp, Pc.walkFrom, Pc.inReg, St.eff] at g1t)
  all_goals (try rw [hi] at g2t)
  all_goals (try simp [Pc.inProp, Pc.walkFrom, Pc.inReg, St.eff] at g2t)
  all_goals (try rw [hi] at g3t)
  all_goals (try simp [Pc.inProp, Pc.walkFrom, Pc.inReg, St.eff] at g3t)
  all_goals (try rw [hi] at g4t)
  all_goals (try simp [Pc.inProp, Pc.walkFrom, Pc.inReg, St.eff] at g4t)
  all_goals (intro L h1 h2 h3; try simp [C, St.eff, upd_apply, afterLists, nextList] at h1 h2 h3 ⊢)
  all_goals grind [Pc.inProp, Pc.walkFrom, Pc.inReg, St.eff]

end TbbVerif.C04
