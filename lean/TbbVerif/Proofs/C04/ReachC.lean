/-
C04 proofs — structural invariants (snapLe, copyTrue, mhcReg, mhcBind): preservation by `exec` and `begin`.
-/
import TbbVerif.Proofs.C04.ReachB

namespace TbbVerif.C04
variable {cfg : Cfg} {reg : List Nat} {s : St} {t : Nat}

theorem snapLe_exec (hS : Struct reg s) (hO : Orig s) (hR : Reach reg s) :
    ∀ t' n, ((exec C reg s t).pc t').snapVal = some n → n ≤ (exec C reg s t).G := by
  have g0 := hR.snapLe
  have g0t := hR.snapLe t
  have g1 := hR.epochLe
  exec_cases_C
  all_goals (try rw [‹s.pc t = _›] at g0t)
  all_goals (try simp [Pc.snapVal] at g0t)
  all_goals (intro t' n h1; by_cases ht : t' = t <;> first | (subst ht; try simp [C, upd_apply, afterLists, nextList, Pc.snapVal] at h1 ⊢) | (try simp [ht, upd_apply, afterLists, nextList] at h1 ⊢))
  all_goals grind [Pc.snapVal]

theorem snapLe_begin (hS : Struct reg s) (hO : Orig s) (hR : Reach reg s) (hi : s.pc t = .idle) :
    ∀ t' n, ((begin reg s t).pc t').snapVal = some n → n ≤ (begin reg s t).G := by
  have g0 := hR.snapLe
  have g0t := hR.snapLe t
  have g1 := hR.epochLe
  begin_cases
  all_goals (try rw [hi] at g0t)
  all_goals (try simp [Pc.snapVal] at g0t)
  all_goals (intro t' n h1; by_cases ht : t' = t <;> first | (subst ht; try simp [C, upd_apply, afterLists, nextList, Pc.snapVal] at h1 ⊢) | (try simp [ht, upd_apply, afterLists, nextList] at h1 ⊢))
  all_goals grind [Pc.snapVal]

theorem copyTrue_exec (hS : Struct reg s) (hO : Orig s) (hR : Reach reg s) :
    ∀ t' p v, ((exec C reg s t).pc t').copyVal = some (p, v) → v = true := by
  have g0 := hR.copyTrue
  have g0t := hR.copyTrue t
  exec_cases_C
  all_goals (try rw [‹s.pc t = _›] at g0t)
  all_goals (try simp [Pc.copyVal] at g0t)
  all_goals (intro t' p v h1; by_cases ht : t' = t <;> first | (subst ht; try simp [C, upd_apply, afterLists, nextList, Pc.copyVal] at h1 ⊢) | (try simp [ht, upd_apply, afterLists, nextList] at h1 ⊢))
  all_goals grind [Pc.copyVal]

theorem copyTrue_begin (hS : Struct reg s) (hO : Orig s) (hR : Reach reg s) (hi : s.pc t = .idle) :
    ∀ t' p v, ((begin reg s t).pc t').copyVal = some (p, v) → v = true := by
  have g0 := hR.copyTrue
  have g0t := hR.copyTrue t
  begin_cases
  all_goals (try rw [hi] at g0t)
  all_goals (try simp [Pc.copyVal] at g0t)
  all_goals (intro t' p v h1; by_cases ht : t' = t <;> first | (subst ht; try simp [C, upd_apply, afterLists, nextList, Pc.copyVal] at h1 ⊢) | (try simp [ht, upd_apply, afterLists, nextList] at h1 ⊢))
  all_goals grind [Pc.copyVal]

theorem mhcReg_exec (hS : Struct reg s) (hO : Orig s) (hR : Reach reg s) :
    ∀ L x p, x ∈ (exec C reg s t).items L → (exec C reg s t).par x = some p → (exec C reg s t).mhc p = true := by
  have g0 := hR.mhcReg
  have g1 := hR.mhcBind
  have g1t := hR.mhcBind t
  have g2 := hS.ownerPar
  have g2t := hS.ownerPar t
  have g3 := hS.itemsOk
  have g3t := hS.itemsOk t
  have g4 := hS.createdPar
  exec_cases_C
  all_goals (try rw [‹s.pc t = _›] at g1t)
  all_goals (try simp [Pc.pastHint, Pc.owner, List.mem_cons, List.mem_of_mem_erase] at g1t)
  all_goals (try rw [‹s.pc t = _›] at g2t)
  all_goals (try simp [Pc.pastHint, Pc.owner, List.mem_cons, List.mem_of_mem_erase] at g2t)
  all_goals (try rw [‹s.pc t = _›] at g3t)
  all_goals (try simp [Pc.pastHint, Pc.owner, List.mem_cons, List.mem_of_mem_erase] at g3t)
  all_goals (intro L x p h1 h2; try simp [C, upd_apply, afterLists, nextList] at h1 h2 ⊢)
  all_goals grind [Pc.pastHint, Pc.owner, List.mem_cons, List.mem_of_mem_erase]

theorem mhcReg_begin (hS : Struct reg s) (hO : Orig s) (hR : Reach reg s) (hi : s.pc t = .idle) :
    ∀ L x p, x ∈ (begin reg s t).items L → (begin reg s t).par x = some p → (begin reg s t).mhc p = true := by
  have g0 := hR.mhcReg
  have g1 := hR.mhcBind
  have g1t := hR.mhcBind t
  have g2 := hS.ownerPar
  have g2t := hS.ownerPar t
  have g3 := hS.itemsOk
  have g3t := hS.itemsOk t
  have g4 := hS.createdPar
  begin_cases
  all_goals (try rw [hi] at g1t)
  all_goals (try simp [Pc.pastHint, Pc.owner, List.mem_cons, List.mem_of_mem_erase] at g1t)
  all_goals (try rw [hi] at g2t)
  all_goals (try simp [Pc.pastHint, Pc.owner, List.mem_cons, List.mem_of_mem_erase] at g2t)
  all_goals (try rw [hi] at g3t)
  all_goals (try simp [Pc.pastHint, Pc.owner, List.mem_cons, List.mem_of_mem_erase] at g3t)
  all_goals (intro L x p h1 h2; try simp [C, upd_apply, afterLists, nextList] at h1 h2 ⊢)
  all_goals grind [Pc.pastHint, Pc.owner, List.mem_cons, List.mem_of_mem_erase]

theorem mhcBind_exec (hS : Struct reg s) (hO : Orig s) (hR : Reach reg s) :
    ∀ t' p, ((exec C reg s t).pc t').pastHint = some p → (exec C reg s t).mhc p = true := by
  have g0 := hR.mhcBind
  have g0t := hR.mhcBind t
  exec_cases_C
  all_goals (try rw [‹s.pc t = _›] at g0t)
  all_goals (try simp [Pc.pastHint] at g0t)
  all_goals (intro t' p h1; by_cases ht : t' = t <;> first | (subst ht; try simp [C, upd_apply, afterLists, nextList, Pc.pastHint] at h1 ⊢) | (try simp [ht, upd_apply, afterLists, nextList] at h1 ⊢))
  all_goals grind [Pc.pastHint]

theorem mhcBind_begin (hS : Struct reg s) (hO : Orig s) (hR : Reach reg s) (hi : s.pc t = .idle) :
    ∀ t' p, ((begin reg s t).pc t').pastHint = some p → (begin reg s t).mhc p = true := by
  have g0 := hR.mhcBind
  have g0t := hR.mhcBind t
  begin_cases
  all_goals (try rw [hi] at g0t)
  all_goals (try simp [Pc.pastHint] at g0t)
  all_goals (intro t' p h1; by_cases ht : t' = t <;> first | (subst ht; try simp [C, upd_apply, afterLists, nextList, Pc.pastHint] at h1 ⊢) | (try simp [ht, upd_apply, afterLists, nextList] at h1 ⊢))
  all_goals grind [Pc.pastHint]

end TbbVerif.C04
