/-
C04 proofs — basics: projections of the state combinators, the ancestor relation, the ancestor walk.
-/
import TbbVerif.Model.C04

namespace TbbVerif.C04

/-! ### `upd` -/

theorem upd_ne {α : Type} {f : Nat → α} {k i : Nat} {v : α} (h : i ≠ k) : upd f k v i = f i := upd_other f k v i h

@[simp] theorem orphanMark_apply (oc : Nat → Bool) (l : List Nat) (z : Nat) : orphanMark oc l z = (oc z || l.contains z) := rfl

/-! ### projections of `setPc`, `finishOp`, `finishCancel`, `walkNext` -/

section proj
variable (s : St) (t : Nat) (pc : Pc) (r : Bool)

@[simp] theorem setPc_pc : (setPc s t pc).pc = upd s.pc t pc := rfl
@[simp] theorem setPc_par : (setPc s t pc).par = s.par := rfl
@[simp] theorem setPc_can : (setPc s t pc).can = s.can := rfl
@[simp] theorem setPc_mhc : (setPc s t pc).mhc = s.mhc := rfl
@[simp] theorem setPc_cst : (setPc s t pc).cst = s.cst := rfl
@[simp] theorem setPc_lst : (setPc s t pc).lst = s.lst := rfl
@[simp] theorem setPc_depth : (setPc s t pc).depth = s.depth := rfl
@[simp] theorem setPc_wins : (setPc s t pc).wins = s.wins := rfl
@[simp] theorem setPc_resets : (setPc s t pc).resets = s.resets := rfl
@[simp] theorem setPc_dying : (setPc s t pc).dying = s.dying := rfl
@[simp] theorem setPc_items : (setPc s t pc).items = s.items := rfl
@[simp] theorem setPc_lmx : (setPc s t pc).lmx = s.lmx := rfl
@[simp] theorem setPc_epoch : (setPc s t pc).epoch = s.epoch := rfl
@[simp] theorem setPc_G : (setPc s t pc).G = s.G := rfl
@[simp] theorem setPc_regMx : (setPc s t pc).regMx = s.regMx := rfl
@[simp] theorem setPc_propMx : (setPc s t pc).propMx = s.propMx := rfl
@[simp] theorem setPc_srcOf : (setPc s t pc).srcOf = s.srcOf := rfl
@[simp] theorem setPc_skipSt : (setPc s t pc).skipSt = s.skipSt := rfl
@[simp] theorem setPc_clk : (setPc s t pc).clk = s.clk := rfl
@[simp] theorem setPc_rst : (setPc s t pc).rst = s.rst := rfl
@[simp] theorem setPc_wst : (setPc s t pc).wst = s.wst := rfl
@[simp] theorem setPc_pst : (setPc s t pc).pst = s.pst := rfl
@[simp] theorem setPc_act : (setPc s t pc).act = s.act := rfl
@[simp] theorem setPc_orph : (setPc s t pc).orph = s.orph := rfl
@[simp] theorem setPc_wasReg : (setPc s t pc).wasReg = s.wasReg := rfl
@[simp] theorem setPc_joined : (setPc s t pc).joined = s.joined := rfl
@[simp] theorem setPc_fresh : (setPc s t pc).fresh = s.fresh := rfl
@[simp] theorem setPc_oc : (setPc s t pc).oc = s.oc := rfl
@[simp] theorem setPc_prog : (setPc s t pc).prog = s.prog := rfl
@[simp] theorem setPc_res : (setPc s t pc).res = s.res := rfl
@[simp] theorem setPc_misuse : (setPc s t pc).misuse = s.misuse := rfl

@[simp] theorem finishOp_eq : finishOp s t = setPc s t .idle := rfl

@[simp] theorem finishCancel_pc : (finishCancel s t r).pc = upd s.pc t .idle := rfl
@[simp] theorem finishCancel_par : (finishCancel s t r).par = s.par := rfl
@[simp] theorem finishCancel_can : (finishCancel s t r).can = s.can := rfl
@[simp] theorem finishCancel_mhc : (finishCancel s t r).mhc = s.mhc := rfl
@[simp] theorem finishCancel_cst : (finishCancel s t r).cst = s.cst := rfl
@[simp] theorem finishCancel_lst : (finishCancel s t r).lst = s.lst := rfl
@[simp] theorem finishCancel_depth : (finishCancel s t r).depth = s.depth := rfl
@[simp] theorem finishCancel_wins : (finishCancel s t r).wins = s.wins := rfl
@[simp] theorem finishCancel_resets : (finishCancel s t r).resets = s.resets := rfl
@[simp] theorem finishCancel_dying : (finishCancel s t r).dying = s.dying := rfl
@[simp] theorem finishCancel_items : (finishCancel s t r).items = s.items := rfl
@[simp] theorem finishCancel_lmx : (finishCancel s t r).lmx = s.lmx := rfl
@[simp] theorem finishCancel_epoch : (finishCancel s t r).epoch = s.epoch := rfl
@[simp] theorem finishCancel_G : (finishCancel s t r).G = s.G := rfl
@[simp] theorem finishCancel_regMx : (finishCancel s t r).regMx = s.regMx := rfl
@[simp] theorem finishCancel_propMx : (finishCancel s t r).propMx = s.propMx := rfl
@[simp] theorem finishCancel_srcOf : (finishCancel s t r).srcOf = s.srcOf := rfl
@[simp] theorem finishCancel_skipSt : (finishCancel s t r).skipSt = s.skipSt := rfl
@[simp] theorem finishCancel_clk : (finishCancel s t r).clk = s.clk := rfl
@[simp] theorem finishCancel_rst : (finishCancel s t r).rst = s.rst := rfl
@[simp] theorem finishCancel_wst : (finishCancel s t r).wst = s.wst := rfl
@[simp] theorem finishCancel_pst : (finishCancel s t r).pst = s.pst := rfl
@[simp] theorem finishCancel_act : (finishCancel s t r).act = s.act := rfl
@[simp] theorem finishCancel_orph : (finishCancel s t r).orph = s.orph := rfl
@[simp] theorem finishCancel_wasReg : (finishCancel s t r).wasReg = s.wasReg := rfl
@[simp] theorem finishCancel_joined : (finishCancel s t r).joined = s.joined := rfl
@[simp] theorem finishCancel_fresh : (finishCancel s t r).fresh = s.fresh := rfl
@[simp] theorem finishCancel_oc : (finishCancel s t r).oc = s.oc := rfl
@[simp] theorem finishCancel_prog : (finishCancel s t r).prog = s.prog := rfl
@[simp] theorem finishCancel_res : (finishCancel s t r).res = upd s.res t (r :: s.res t) := rfl
@[simp] theorem finishCancel_misuse : (finishCancel s t r).misuse = s.misuse := rfl

/-- `walkNext` only sets the pc of `t` -/
def walkPc (src i : Nat) : List Nat → Pc
  | [] => .cReadG src i
  | y :: ys => .cLoad1 src i y ys

theorem walkNext_eq (src i : Nat) (rest : List Nat) : walkNext s t src i rest = setPc s t (walkPc src i rest) := by
  cases rest <;> rfl

end proj

/-! ### ancestors -/

/-- `Anc par x a`: `a` is a proper ancestor of `x` along `my_parent` -/
inductive Anc (par : Nat → Option Nat) : Nat → Nat → Prop where
  | direct {x a : Nat} : par x = some a → Anc par x a
  | step {x p a : Nat} : par x = some p → Anc par p a → Anc par x a

theorem Anc.unfold {par : Nat → Option Nat} {x a : Nat} (h : Anc par x a) :
    ∃ p, par x = some p ∧ (p = a ∨ Anc par p a) := by
  cases h with
  | direct h => exact ⟨_, h, Or.inl rfl⟩
  | step h1 h2 => exact ⟨_, h1, Or.inr h2⟩

theorem Anc.of_parent {par : Nat → Option Nat} {x p a : Nat} (hp : par x = some p) (h : p = a ∨ Anc par p a) :
    Anc par x a := by
  cases h with
  | inl h => exact .direct (h ▸ hp)
  | inr h => exact .step hp h

theorem Anc.trans {par : Nat → Option Nat} {x y z : Nat} (h1 : Anc par x y) (h2 : Anc par y z) : Anc par x z := by
  induction h1 with
  | direct h => exact .step h h2
  | step h _ ih => exact .step h (ih h2)

/-- a root has no ancestors -/
theorem Anc.not_root {par : Nat → Option Nat} {x a : Nat} (hx : par x = none) : ¬ Anc par x a := by
  intro h
  obtain ⟨p, hp, _⟩ := h.unfold
  simp [hx] at hp

/-- the depth ghost decreases strictly towards the ancestors -/
theorem Anc.depth_lt {par : Nat → Option Nat} {depth : Nat → Nat}
    (hd : ∀ x p, par x = some p → depth x = depth p + 1) {x a : Nat} (h : Anc par x a) : depth a < depth x := by
  induction h with
  | direct h => have := hd _ _ h; omega
  | step h _ ih => have := hd _ _ h; omega

theorem Anc.irrefl {par : Nat → Option Nat} {depth : Nat → Nat}
    (hd : ∀ x p, par x = some p → depth x = depth p + 1) {x : Nat} : ¬ Anc par x x := by
  intro h
  have := h.depth_lt hd
  omega

/-- Setting the parent of a context `c` that nobody has as parent changes the ancestors of `c` only. -/
theorem Anc.upd_other {par : Nat → Option Nat} {c : Nat} {v : Option Nat}
    (hc : ∀ y, par y ≠ some c) {y a : Nat} (hy : y ≠ c) : Anc (upd par c v) y a ↔ Anc par y a := by
  constructor
  · intro h
    induction h with
    | direct h => exact .direct (by simpa [upd_apply, hy] using h)
    | @step x p a h _ ih =>
      have hx : par x = some p := by simpa [upd_apply, hy] using h
      have hp : p ≠ c := fun e => hc x (e ▸ hx)
      exact .step hx (ih hp)
  · intro h
    induction h with
    | direct h => exact .direct (by simpa [upd_apply, hy] using h)
    | @step x p a h _ ih =>
      have hp : p ≠ c := fun e => hc x (e ▸ h)
      exact .step (by simpa [upd_apply, hy] using h) (ih hp)

/-- Under the updated parent function the new context `c` has exactly the ancestors `p` and the ancestors of `p`. -/
theorem Anc.upd_self {par : Nat → Option Nat} {c p : Nat}
    (hc : ∀ y, par y ≠ some c) (hpc : p ≠ c) {a : Nat} :
    Anc (upd par c (some p)) c a ↔ (p = a ∨ Anc par p a) := by
  constructor
  · intro h
    obtain ⟨q, hq, h'⟩ := h.unfold
    have : q = p := by simpa [upd_apply] using hq.symm
    subst this
    cases h' with
    | inl h' => exact Or.inl h'
    | inr h' => exact Or.inr ((Anc.upd_other hc hpc).1 h')
  · intro h
    refine Anc.of_parent (p := p) (by simp) ?_
    cases h with
    | inl h => exact Or.inl h
    | inr h => exact Or.inr ((Anc.upd_other hc hpc).2 h)

end TbbVerif.C04
