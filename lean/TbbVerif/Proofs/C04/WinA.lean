/-
C04 proofs — structural invariants (copyT, winsLe, winsClr): preservation by `exec` and `begin`.
-/
import TbbVerif.Proofs.C04.WinInv

namespace TbbVerif.C04
variable {cfg : Cfg} {reg : List Nat} {s : St} {t : Nat}

theorem copyT_exec_c (hS : Struct reg s) (hc : cfg.copyNeverClears = true) (hW : Win s) :
    ∀ t' p v, ((execCancel cfg reg s t).pc t').copyVal = some (p, v) → v = true := by
  have g0 := hW.copyT
  have g0t := hW.copyT t
  unfold execCancel
  try unfold walkNext
  try unfold afterHint
  try unfold applyReset
  repeat' split
  all_goals (try rw [‹s.pc t = _›] at g0t)
  all_goals (try simp [Pc.copyVal] at g0t)
  all_goals (intro t' p v h1; by_cases ht : t' = t <;> first | (subst ht; try simp [upd_apply, afterLists, nextList, Pc.copyVal] at h1 ⊢) | (try simp [ht, upd_apply, afterLists, nextList] at h1 ⊢))
  all_goals grind [Pc.copyVal]

theorem copyT_exec_b (hS : Struct reg s) (hc : cfg.copyNeverClears = true) (hW : Win s) :
    ∀ t' p v, ((execBind cfg s t).pc t').copyVal = some (p, v) → v = true := by
  have g0 := hW.copyT
  have g0t := hW.copyT t
  unfold execBind
  try unfold walkNext
  try unfold afterHint
  try unfold applyReset
  repeat' split
  all_goals (try rw [‹s.pc t = _›] at g0t)
  all_goals (try simp [Pc.copyVal] at g0t)
  all_goals (intro t' p v h1; by_cases ht : t' = t <;> first | (subst ht; try simp [upd_apply, afterLists, nextList, Pc.copyVal] at h1 ⊢) | (try simp [ht, upd_apply, afterLists, nextList] at h1 ⊢))
  all_goals grind [Pc.copyVal]

theorem copyT_exec_o (hS : Struct reg s) (hc : cfg.copyNeverClears = true) (hW : Win s) :
    ∀ t' p v, ((execOther s t).pc t').copyVal = some (p, v) → v = true := by
  have g0 := hW.copyT
  have g0t := hW.copyT t
  unfold execOther
  try unfold walkNext
  try unfold afterHint
  try unfold applyReset
  repeat' split
  all_goals (try rw [‹s.pc t = _›] at g0t)
  all_goals (try simp [Pc.copyVal] at g0t)
  all_goals (intro t' p v h1; by_cases ht : t' = t <;> first | (subst ht; try simp [upd_apply, afterLists, nextList, Pc.copyVal] at h1 ⊢) | (try simp [ht, upd_apply, afterLists, nextList] at h1 ⊢))
  all_goals grind [Pc.copyVal]

theorem copyT_exec (hS : Struct reg s) (hc : cfg.copyNeverClears = true) (hW : Win s) :
    ∀ t' p v, ((exec cfg reg s t).pc t').copyVal = some (p, v) → v = true := by
  unfold exec
  split
  · exact copyT_exec_c hS hc hW
  · split
    · exact copyT_exec_b hS hc hW
    · exact copyT_exec_o hS hc hW

theorem copyT_begin (hS : Struct reg s) (hc : cfg.copyNeverClears = true) (hW : Win s) (hi : s.pc t = .idle) :
    ∀ t' p v, ((begin cfg reg s t).pc t').copyVal = some (p, v) → v = true := by
  have g0 := hW.copyT
  have g0t := hW.copyT t
  begin_cases
  all_goals (try rw [hi] at g0t)
  all_goals (try simp [Pc.copyVal] at g0t)
  all_goals (intro t' p v h1; by_cases ht : t' = t <;> first | (subst ht; try simp [upd_apply, afterLists, nextList, Pc.copyVal] at h1 ⊢) | (try simp [ht, upd_apply, afterLists, nextList] at h1 ⊢))
  all_goals grind [Pc.copyVal]

theorem winsLe_exec_c (hS : Struct reg s) (hc : cfg.copyNeverClears = true) (hW : Win s) :
    ∀ x, (execCancel cfg reg s t).wins x ≤ (execCancel cfg reg s t).resets x + 1 := by
  have g0 := hW.winsLe
  have g1 := hW.winsClr
  unfold execCancel
  try unfold walkNext
  try unfold afterHint
  try unfold applyReset
  repeat' split
  all_goals (intro x; try simp [upd_apply, afterLists, nextList] at  ⊢)
  all_goals grind []

theorem winsLe_exec_b (hS : Struct reg s) (hc : cfg.copyNeverClears = true) (hW : Win s) :
    ∀ x, (execBind cfg s t).wins x ≤ (execBind cfg s t).resets x + 1 := by
  have g0 := hW.winsLe
  have g1 := hW.winsClr
  unfold execBind
  try unfold walkNext
  try unfold afterHint
  try unfold applyReset
  repeat' split
  all_goals (intro x; try simp [upd_apply, afterLists, nextList] at  ⊢)
  all_goals grind []

theorem winsLe_exec_o (hS : Struct reg s) (hc : cfg.copyNeverClears = true) (hW : Win s) :
    ∀ x, (execOther s t).wins x ≤ (execOther s t).resets x + 1 := by
  have g0 := hW.winsLe
  have g1 := hW.winsClr
  unfold execOther
  try unfold walkNext
  try unfold afterHint
  try unfold applyReset
  repeat' split
  all_goals (intro x; try simp [upd_apply, afterLists, nextList] at  ⊢)
  all_goals grind []

theorem winsLe_exec (hS : Struct reg s) (hc : cfg.copyNeverClears = true) (hW : Win s) :
    ∀ x, (exec cfg reg s t).wins x ≤ (exec cfg reg s t).resets x + 1 := by
  unfold exec
  split
  · exact winsLe_exec_c hS hc hW
  · split
    · exact winsLe_exec_b hS hc hW
    · exact winsLe_exec_o hS hc hW

theorem winsLe_begin (hS : Struct reg s) (hc : cfg.copyNeverClears = true) (hW : Win s) (hi : s.pc t = .idle) :
    ∀ x, (begin cfg reg s t).wins x ≤ (begin cfg reg s t).resets x + 1 := by
  have g0 := hW.winsLe
  have g1 := hW.winsClr
  begin_cases
  all_goals (intro x; try simp [upd_apply, afterLists, nextList] at  ⊢)
  all_goals grind []

theorem winsClr_exec_c (hS : Struct reg s) (hc : cfg.copyNeverClears = true) (hW : Win s) :
    ∀ x, (execCancel cfg reg s t).can x = false → (execCancel cfg reg s t).wins x ≤ (execCancel cfg reg s t).resets x := by
  have g0 := hW.winsLe
  have g1 := hW.winsClr
  have g2 := hW.copyT
  have g2t := hW.copyT t
  unfold execCancel
  try unfold walkNext
  try unfold afterHint
  try unfold applyReset
  repeat' split
  all_goals (try rw [‹s.pc t = _›] at g2t)
  all_goals (try simp [Pc.copyVal] at g2t)
  all_goals (intro x h1; try simp [upd_apply, afterLists, nextList] at h1 ⊢)
  all_goals grind [Pc.copyVal]

theorem winsClr_exec_b (hS : Struct reg s) (hc : cfg.copyNeverClears = true) (hW : Win s) :
    ∀ x, (execBind cfg s t).can x = false → (execBind cfg s t).wins x ≤ (execBind cfg s t).resets x := by
  have g0 := hW.winsLe
  have g1 := hW.winsClr
  have g2 := hW.copyT
  have g2t := hW.copyT t
  unfold execBind
  try unfold walkNext
  try unfold afterHint
  try unfold applyReset
  repeat' split
  all_goals (try rw [‹s.pc t = _›] at g2t)
  all_goals (try simp [Pc.copyVal] at g2t)
  all_goals (intro x h1; try simp [upd_apply, afterLists, nextList] at h1 ⊢)
  all_goals grind [Pc.copyVal]

theorem winsClr_exec_o (hS : Struct reg s) (hc : cfg.copyNeverClears = true) (hW : Win s) :
    ∀ x, (execOther s t).can x = false → (execOther s t).wins x ≤ (execOther s t).resets x := by
  have g0 := hW.winsLe
  have g1 := hW.winsClr
  have g2 := hW.copyT
  have g2t := hW.copyT t
  unfold execOther
  try unfold walkNext
  try unfold afterHint
  try unfold applyReset
  repeat' split
  all_goals (try rw [‹s.pc t = _›] at g2t)
  all_goals (try simp [Pc.copyVal] at g2t)
  all_goals (intro x h1; try simp [upd_apply, afterLists, nextList] at h1 ⊢)
  all_goals grind [Pc.copyVal]

theorem winsClr_exec (hS : Struct reg s) (hc : cfg.copyNeverClears = true) (hW : Win s) :
    ∀ x, (exec cfg reg s t).can x = false → (exec cfg reg s t).wins x ≤ (exec cfg reg s t).resets x := by
  unfold exec
  split
  · exact winsClr_exec_c hS hc hW
  · split
    · exact winsClr_exec_b hS hc hW
    · exact winsClr_exec_o hS hc hW

theorem winsClr_begin (hS : Struct reg s) (hc : cfg.copyNeverClears = true) (hW : Win s) (hi : s.pc t = .idle) :
    ∀ x, (begin cfg reg s t).can x = false → (begin cfg reg s t).wins x ≤ (begin cfg reg s t).resets x := by
  have g0 := hW.winsLe
  have g1 := hW.winsClr
  have g2 := hW.copyT
  have g2t := hW.copyT t
  begin_cases
  all_goals (try rw [hi] at g2t)
  all_goals (try simp [Pc.copyVal] at g2t)
  all_goals (intro x h1; try simp [upd_apply, afterLists, nextList] at h1 ⊢)
  all_goals grind [Pc.copyVal]

end TbbVerif.C04
