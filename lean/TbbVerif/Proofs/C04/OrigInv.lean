/-
C04 proofs — "nothing else is marked": every cancelled context has an ancestor-or-self on which a cancel call won.
Definitions and the lemmas about `Justified`; preservation in `OrigA.lean`.
-/
import TbbVerif.Proofs.C04.StructAll

namespace TbbVerif.C04

/-- some ancestor-or-self of `x` was the target of a winning `cancel_group_execution` -/
def Justified (par : Nat → Option Nat) (wins : Nat → Nat) (x : Nat) : Prop :=
  ∃ a, (a = x ∨ Anc par x a) ∧ 1 ≤ wins a

theorem justified_self {par : Nat → Option Nat} {wins : Nat → Nat} {x : Nat} (h : 1 ≤ wins x) : Justified par wins x :=
  ⟨x, Or.inl rfl, h⟩

theorem justified_anc {par : Nat → Option Nat} {wins : Nat → Nat} {x a : Nat} (h : Anc par x a) (hw : 1 ≤ wins a) :
    Justified par wins x := ⟨a, Or.inr h, hw⟩

theorem justified_child {par : Nat → Option Nat} {wins : Nat → Nat} {x p : Nat} (hp : par x = some p)
    (h : Justified par wins p) : Justified par wins x := by
  obtain ⟨a, ha, hw⟩ := h
  exact ⟨a, Or.inr (Anc.of_parent hp (ha.imp (fun e => e.symm) id)), hw⟩

theorem justified_upd_wins {par : Nat → Option Nat} {wins : Nat → Nat} {x k : Nat}
    (h : Justified par wins x) : Justified par (upd wins k (wins k + 1)) x := by
  obtain ⟨a, ha, hw⟩ := h
  refine ⟨a, ha, ?_⟩
  simp only [upd_apply]
  split <;> omega

theorem justified_upd_wins_self {par : Nat → Option Nat} {wins : Nat → Nat} {k : Nat} :
    Justified par (upd wins k (wins k + 1)) k := ⟨k, Or.inl rfl, by simp⟩

/-- setting the parent of a context that has no parent and is nobody's parent keeps every justification -/
theorem justified_upd_par {par : Nat → Option Nat} {wins : Nat → Nat} {x c : Nat} {v : Option Nat}
    (hc : par c = none) (hn : ∀ y, par y ≠ some c) (h : Justified par wins x) : Justified (upd par c v) wins x := by
  obtain ⟨a, ha, hw⟩ := h
  refine ⟨a, ?_, hw⟩
  cases ha with
  | inl e => exact Or.inl e
  | inr h =>
    have hx : x ≠ c := by
      intro e
      subst e
      exact Anc.not_root hc h
    exact Or.inr ((Anc.upd_other hn hx).2 h)

theorem anc_upd_par {par : Nat → Option Nat} {x a c : Nat} {v : Option Nat}
    (hc : par c = none) (hn : ∀ y, par y ≠ some c) (h : Anc par x a) : Anc (upd par c v) x a := by
  have hx : x ≠ c := by
    intro e
    subst e
    exact Anc.not_root hc h
  exact (Anc.upd_other hn hx).2 h

/-- pcs of a canceller after its winning exchange, with the source -/
def Pc.wonSrc : Pc → Option Nat
  | .cHint s | .cLockReg s | .cLockProp s | .cRecheck s | .cEpoch s | .cLockList s _ | .cLoad1 s _ _ _ | .cLoad2 s _ _ _
  | .cPaint s _ _ _ _ | .cReadG s _ | .cSync s _ _ | .cUnlockList s _ | .cUnlockProp s | .cUnlockReg s => some s
  | _ => none

/-- pcs at which a binder is about to store a copy `v` of `p`'s flag -/
def Pc.copyVal : Pc → Option (Nat × Bool)
  | .bSpecS _ p _ v | .bFbS _ p v | .bRootS _ p v => some (p, v)
  | _ => none

structure Orig (s : St) : Prop where
  can : ∀ x, s.can x = true → Justified s.par s.wins x
  won : ∀ t a, (s.pc t).wonSrc = some a → 1 ≤ s.wins a
  paint : ∀ t src i x chain rest, s.pc t = .cPaint src i x chain rest → ∀ e ∈ chain, Anc s.par e src
  copy : ∀ t p, (s.pc t).copyVal = some (p, true) → Justified s.par s.wins p

theorem force_aux2 (x p : Nat) : (Pc.bHintL x p).wonSrc = none ∧ (Pc.bHintL x p).copyVal = none := by
  constructor
  · grind [Pc.wonSrc]
  · grind [Pc.copyVal]

end TbbVerif.C04
