/-
C04 proofs — structural invariants (srcCan, skipCan, walkG, syncG, wonCan): preservation by `exec` and `begin`.
-/
import TbbVerif.Proofs.C04.ReachA

namespace TbbVerif.C04
variable {cfg : Cfg} {reg : List Nat} {s : St} {t : Nat}

theorem srcCan_exec (hS : Struct reg s) (hO : Orig s) (hR : Reach reg s) :
    ∀ n, 1 ≤ n → n ≤ (exec C reg s t).G → (exec C reg s t).can ((exec C reg s t).srcOf n) = true := by
  have g0 := hR.srcCan
  have g1 := hR.noResetPc
  have g1t := hR.noResetPc t
  have g2 := hR.copyTrue
  have g2t := hR.copyTrue t
  have g3 := hR.wonCan
  have g3t := hR.wonCan t
  exec_cases_C
  all_goals (try rw [‹s.pc t = _›] at g1t)
  all_goals (try simp [Pc.copyVal, Pc.wonSrc] at g1t)
  all_goals (try rw [‹s.pc t = _›] at g2t)
  all_goals (try simp [Pc.copyVal, Pc.wonSrc] at g2t)
  all_goals (try rw [‹s.pc t = _›] at g3t)
  all_goals (try simp [Pc.copyVal, Pc.wonSrc] at g3t)
  all_goals (intro n h1 h2; try simp [C, upd_apply, afterLists, nextList] at h1 h2 ⊢)
  all_goals grind [Pc.copyVal, Pc.wonSrc]

theorem srcCan_begin (hS : Struct reg s) (hO : Orig s) (hR : Reach reg s) (hi : s.pc t = .idle) :
    ∀ n, 1 ≤ n → n ≤ (begin reg s t).G → (begin reg s t).can ((begin reg s t).srcOf n) = true := by
  have g0 := hR.srcCan
  have g1 := hR.noResetPc
  have g1t := hR.noResetPc t
  have g2 := hR.copyTrue
  have g2t := hR.copyTrue t
  have g3 := hR.wonCan
  have g3t := hR.wonCan t
  begin_cases
  all_goals (try rw [hi] at g1t)
  all_goals (try simp [Pc.copyVal, Pc.wonSrc] at g1t)
  all_goals (try rw [hi] at g2t)
  all_goals (try simp [Pc.copyVal, Pc.wonSrc] at g2t)
  all_goals (try rw [hi] at g3t)
  all_goals (try simp [Pc.copyVal, Pc.wonSrc] at g3t)
  all_goals (intro n h1 h2; try simp [C, upd_apply, afterLists, nextList] at h1 h2 ⊢)
  all_goals grind [Pc.copyVal, Pc.wonSrc]

theorem skipCan_exec (hS : Struct reg s) (hO : Orig s) (hR : Reach reg s) :
    ∀ x, (exec C reg s t).skip x = true → (exec C reg s t).can x = true := by
  have g0 := hR.skipCan
  have g1 := hR.noResetPc
  have g1t := hR.noResetPc t
  have g2 := hR.copyTrue
  have g2t := hR.copyTrue t
  have g3 := hR.wonCan
  have g3t := hR.wonCan t
  exec_cases_C
  all_goals (try rw [‹s.pc t = _›] at g1t)
  all_goals (try simp [Pc.copyVal, Pc.wonSrc] at g1t)
  all_goals (try rw [‹s.pc t = _›] at g2t)
  all_goals (try simp [Pc.copyVal, Pc.wonSrc] at g2t)
  all_goals (try rw [‹s.pc t = _›] at g3t)
  all_goals (try simp [Pc.copyVal, Pc.wonSrc] at g3t)
  all_goals (intro x h1; try simp [C, upd_apply, afterLists, nextList] at h1 ⊢)
  all_goals grind [Pc.copyVal, Pc.wonSrc]

theorem skipCan_begin (hS : Struct reg s) (hO : Orig s) (hR : Reach reg s) (hi : s.pc t = .idle) :
    ∀ x, (begin reg s t).skip x = true → (begin reg s t).can x = true := by
  have g0 := hR.skipCan
  have g1 := hR.noResetPc
  have g1t := hR.noResetPc t
  have g2 := hR.copyTrue
  have g2t := hR.copyTrue t
  have g3 := hR.wonCan
  have g3t := hR.wonCan t
  begin_cases
  all_goals (try rw [hi] at g1t)
  all_goals (try simp [Pc.copyVal, Pc.wonSrc] at g1t)
  all_goals (try rw [hi] at g2t)
  all_goals (try simp [Pc.copyVal, Pc.wonSrc] at g2t)
  all_goals (try rw [hi] at g3t)
  all_goals (try simp [Pc.copyVal, Pc.wonSrc] at g3t)
  all_goals (intro x h1; try simp [C, upd_apply, afterLists, nextList] at h1 ⊢)
  all_goals grind [Pc.copyVal, Pc.wonSrc]

theorem walkG_exec (hS : Struct reg s) (hO : Orig s) (hR : Reach reg s) :
    ∀ t' a, ((exec C reg s t).pc t').walkSrc = some a → (exec C reg s t).srcOf (exec C reg s t).G = a ∧ 1 ≤ (exec C reg s t).G := by
  have g0 := hR.walkG
  have g0t := hR.walkG t
  have g1 := hS.regMx
  have g1t := hS.regMx t
  exec_cases_C
  all_goals (try rw [‹s.pc t = _›] at g0t)
  all_goals (try simp [Pc.walkSrc, Pc.inReg, Pc.walkSrc_inReg] at g0t)
  all_goals (try rw [‹s.pc t = _›] at g1t)
  all_goals (try simp [Pc.walkSrc, Pc.inReg, Pc.walkSrc_inReg] at g1t)
  all_goals (intro t' a h1; by_cases ht : t' = t <;> first | (subst ht; try simp [C, upd_apply, afterLists, nextList, Pc.walkSrc, Pc.inReg, Pc.walkSrc_inReg] at h1 ⊢) | (try simp [ht, upd_apply, afterLists, nextList] at h1 ⊢))
  all_goals grind [Pc.walkSrc, Pc.inReg, Pc.walkSrc_inReg]

theorem walkG_begin (hS : Struct reg s) (hO : Orig s) (hR : Reach reg s) (hi : s.pc t = .idle) :
    ∀ t' a, ((begin reg s t).pc t').walkSrc = some a → (begin reg s t).srcOf (begin reg s t).G = a ∧ 1 ≤ (begin reg s t).G := by
  have g0 := hR.walkG
  have g0t := hR.walkG t
  have g1 := hS.regMx
  have g1t := hS.regMx t
  begin_cases
  all_goals (try rw [hi] at g0t)
  all_goals (try simp [Pc.walkSrc, Pc.inReg, Pc.walkSrc_inReg] at g0t)
  all_goals (try rw [hi] at g1t)
  all_goals (try simp [Pc.walkSrc, Pc.inReg, Pc.walkSrc_inReg] at g1t)
  all_goals (intro t' a h1; by_cases ht : t' = t <;> first | (subst ht; try simp [C, upd_apply, afterLists, nextList, Pc.walkSrc, Pc.inReg, Pc.walkSrc_inReg] at h1 ⊢) | (try simp [ht, upd_apply, afterLists, nextList] at h1 ⊢))
  all_goals grind [Pc.walkSrc, Pc.inReg, Pc.walkSrc_inReg]

theorem syncG_exec (hS : Struct reg s) (hO : Orig s) (hR : Reach reg s) :
    ∀ t' a i g, (exec C reg s t).pc t' = .cSync a i g → g = (exec C reg s t).G := by
  have g0 := hR.syncG
  have g0t := hR.syncG t
  have g1 := hS.regMx
  have g1t := hS.regMx t
  exec_cases_C
  all_goals (try rw [‹s.pc t = _›] at g0t)
  all_goals (try simp [Pc.inReg] at g0t)
  all_goals (try rw [‹s.pc t = _›] at g1t)
  all_goals (try simp [Pc.inReg] at g1t)
  all_goals (intro t' a i g h1; by_cases ht : t' = t <;> first | (subst ht; try simp [C, upd_apply, afterLists, nextList, Pc.inReg] at h1 ⊢) | (try simp [ht, upd_apply, afterLists, nextList] at h1 ⊢))
  all_goals grind [Pc.inReg]

theorem syncG_begin (hS : Struct reg s) (hO : Orig s) (hR : Reach reg s) (hi : s.pc t = .idle) :
    ∀ t' a i g, (begin reg s t).pc t' = .cSync a i g → g = (begin reg s t).G := by
  have g0 := hR.syncG
  have g0t := hR.syncG t
  have g1 := hS.regMx
  have g1t := hS.regMx t
  begin_cases
  all_goals (try rw [hi] at g0t)
  all_goals (try simp [Pc.inReg] at g0t)
  all_goals (try rw [hi] at g1t)
  all_goals (try simp [Pc.inReg] at g1t)
  all_goals (intro t' a i g h1; by_cases ht : t' = t <;> first | (subst ht; try simp [C, upd_apply, afterLists, nextList, Pc.inReg] at h1 ⊢) | (try simp [ht, upd_apply, afterLists, nextList] at h1 ⊢))
  all_goals grind [Pc.inReg]

theorem wonCan_exec (hS : Struct reg s) (hO : Orig s) (hR : Reach reg s) :
    ∀ t' a, ((exec C reg s t).pc t').wonSrc = some a → (exec C reg s t).can a = true := by
  have g0 := hR.wonCan
  have g0t := hR.wonCan t
  have g1 := hR.noResetPc
  have g1t := hR.noResetPc t
  have g2 := hR.copyTrue
  have g2t := hR.copyTrue t
  exec_cases_C
  all_goals (try rw [‹s.pc t = _›] at g0t)
  all_goals (try simp [Pc.wonSrc, Pc.copyVal] at g0t)
  all_goals (try rw [‹s.pc t = _›] at g1t)
  all_goals (try simp [Pc.wonSrc, Pc.copyVal] at g1t)
  all_goals (try rw [‹s.pc t = _›] at g2t)
  all_goals (try simp [Pc.wonSrc, Pc.copyVal] at g2t)
  all_goals (intro t' a h1; by_cases ht : t' = t <;> first | (subst ht; try simp [C, upd_apply, afterLists, nextList, Pc.wonSrc, Pc.copyVal] at h1 ⊢) | (try simp [ht, upd_apply, afterLists, nextList] at h1 ⊢))
  all_goals grind [Pc.wonSrc, Pc.copyVal]

theorem wonCan_begin (hS : Struct reg s) (hO : Orig s) (hR : Reach reg s) (hi : s.pc t = .idle) :
    ∀ t' a, ((begin reg s t).pc t').wonSrc = some a → (begin reg s t).can a = true := by
  have g0 := hR.wonCan
  have g0t := hR.wonCan t
  have g1 := hR.noResetPc
  have g1t := hR.noResetPc t
  have g2 := hR.copyTrue
  have g2t := hR.copyTrue t
  begin_cases
  all_goals (try rw [hi] at g0t)
  all_goals (try simp [Pc.wonSrc, Pc.copyVal] at g0t)
  all_goals (try rw [hi] at g1t)
  all_goals (try simp [Pc.wonSrc, Pc.copyVal] at g1t)
  all_goals (try rw [hi] at g2t)
  all_goals (try simp [Pc.wonSrc, Pc.copyVal] at g2t)
  all_goals (intro t' a h1; by_cases ht : t' = t <;> first | (subst ht; try simp [C, upd_apply, afterLists, nextList, Pc.wonSrc, Pc.copyVal] at h1 ⊢) | (try simp [ht, upd_apply, afterLists, nextList] at h1 ⊢))
  all_goals grind [Pc.wonSrc, Pc.copyVal]

end TbbVerif.C04
