/-
C04 proofs — structural invariants (snapLe, copyTrue, wstLe, pstLe, skipLe): preservation by `exec` and `begin`.
-/
import TbbVerif.Proofs.C04.ReachA

namespace TbbVerif.C04
variable {cfg : Cfg} {r : List RF} {reg : List Nat} {s : St} {t : Nat}

theorem snapLe_exec_c (hS : Struct reg s) (hO : Orig s) (hH : Hint s) (hR : Reach reg s) :
    ∀ t' n, ((execCancel (C r) reg s t).pc t').snapVal = some n → n ≤ (execCancel (C r) reg s t).G := by
  have g0 := hR.snapLe
  have g0t := hR.snapLe t
  have g1 := hR.epochLe
  unfold execCancel
  try unfold walkNext
  try unfold afterHint
  try unfold applyReset
  try simp only [C_propHolds, C_copyNeverClears, afterLists, ↓reduceIte, Bool.true_and]
  repeat' split
  all_goals (try rw [‹s.pc t = _›] at g0t)
  all_goals (try simp [Pc.snapVal] at g0t)
  all_goals (intro t' n h1; by_cases ht : t' = t <;> first | (subst ht; try simp [C, upd_apply, afterLists, nextList, Pc.snapVal] at h1 ⊢) | (try simp [ht, C, upd_apply, afterLists, nextList] at h1 ⊢))
  all_goals grind [Pc.snapVal]

theorem snapLe_exec_b (hS : Struct reg s) (hO : Orig s) (hH : Hint s) (hR : Reach reg s) :
    ∀ t' n, ((execBind (C r) s t).pc t').snapVal = some n → n ≤ (execBind (C r) s t).G := by
  have g0 := hR.snapLe
  have g0t := hR.snapLe t
  have g1 := hR.epochLe
  unfold execBind
  try unfold walkNext
  try unfold afterHint
  try unfold applyReset
  try simp only [C_propHolds, C_copyNeverClears, afterLists, ↓reduceIte, Bool.true_and]
  repeat' split
  all_goals (try rw [‹s.pc t = _›] at g0t)
  all_goals (try simp [Pc.snapVal] at g0t)
  all_goals (intro t' n h1; by_cases ht : t' = t <;> first | (subst ht; try simp [C, upd_apply, afterLists, nextList, Pc.snapVal] at h1 ⊢) | (try simp [ht, C, upd_apply, afterLists, nextList] at h1 ⊢))
  all_goals grind [Pc.snapVal]

theorem snapLe_exec_o (hS : Struct reg s) (hO : Orig s) (hH : Hint s) (hR : Reach reg s) :
    ∀ t' n, ((execOther s t).pc t').snapVal = some n → n ≤ (execOther s t).G := by
  have g0 := hR.snapLe
  have g0t := hR.snapLe t
  have g1 := hR.epochLe
  unfold execOther
  try unfold walkNext
  try unfold afterHint
  try unfold applyReset
  try simp only [C_propHolds, C_copyNeverClears, afterLists, ↓reduceIte, Bool.true_and]
  repeat' split
  all_goals (try rw [‹s.pc t = _›] at g0t)
  all_goals (try simp [Pc.snapVal] at g0t)
  all_goals (intro t' n h1; by_cases ht : t' = t <;> first | (subst ht; try simp [C, upd_apply, afterLists, nextList, Pc.snapVal] at h1 ⊢) | (try simp [ht, C, upd_apply, afterLists, nextList] at h1 ⊢))
  all_goals grind [Pc.snapVal]

theorem snapLe_exec (hS : Struct reg s) (hO : Orig s) (hH : Hint s) (hR : Reach reg s) :
    ∀ t' n, ((exec (C r) reg s t).pc t').snapVal = some n → n ≤ (exec (C r) reg s t).G := by
  unfold exec
  split
  · exact snapLe_exec_c hS hO hH hR
  · split
    · exact snapLe_exec_b hS hO hH hR
    · exact snapLe_exec_o hS hO hH hR

theorem snapLe_begin (hS : Struct reg s) (hO : Orig s) (hH : Hint s) (hR : Reach reg s) (hi : s.pc t = .idle) :
    ∀ t' n, ((begin (C r) reg s t).pc t').snapVal = some n → n ≤ (begin (C r) reg s t).G := by
  have g0 := hR.snapLe
  have g0t := hR.snapLe t
  have g1 := hR.epochLe
  begin_cases
  all_goals (try rw [hi] at g0t)
  all_goals (try simp [Pc.snapVal] at g0t)
  all_goals (intro t' n h1; by_cases ht : t' = t <;> first | (subst ht; try simp [C, upd_apply, afterLists, nextList, Pc.snapVal] at h1 ⊢) | (try simp [ht, C, upd_apply, afterLists, nextList] at h1 ⊢))
  all_goals grind [Pc.snapVal]

theorem copyTrue_exec_c (hS : Struct reg s) (hO : Orig s) (hH : Hint s) (hR : Reach reg s) :
    ∀ t' p v, ((execCancel (C r) reg s t).pc t').copyVal = some (p, v) → v = true := by
  have g0 := hR.copyTrue
  have g0t := hR.copyTrue t
  unfold execCancel
  try unfold walkNext
  try unfold afterHint
  try unfold applyReset
  try simp only [C_propHolds, C_copyNeverClears, afterLists, ↓reduceIte, Bool.true_and]
  repeat' split
  all_goals (try rw [‹s.pc t = _›] at g0t)
  all_goals (try simp [Pc.copyVal] at g0t)
  all_goals (intro t' p v h1; by_cases ht : t' = t <;> first | (subst ht; try simp [C, upd_apply, afterLists, nextList, Pc.copyVal] at h1 ⊢) | (try simp [ht, C, upd_apply, afterLists, nextList] at h1 ⊢))
  all_goals grind [Pc.copyVal]

theorem copyTrue_exec_b (hS : Struct reg s) (hO : Orig s) (hH : Hint s) (hR : Reach reg s) :
    ∀ t' p v, ((execBind (C r) s t).pc t').copyVal = some (p, v) → v = true := by
  have g0 := hR.copyTrue
  have g0t := hR.copyTrue t
  unfold execBind
  try unfold walkNext
  try unfold afterHint
  try unfold applyReset
  try simp only [C_propHolds, C_copyNeverClears, afterLists, ↓reduceIte, Bool.true_and]
  repeat' split
  all_goals (try rw [‹s.pc t = _›] at g0t)
  all_goals (try simp [Pc.copyVal] at g0t)
  all_goals (intro t' p v h1; by_cases ht : t' = t <;> first | (subst ht; try simp [C, upd_apply, afterLists, nextList, Pc.copyVal] at h1 ⊢) | (try simp [ht, C, upd_apply, afterLists, nextList] at h1 ⊢))
  all_goals grind [Pc.copyVal]

theorem copyTrue_exec_o (hS : Struct reg s) (hO : Orig s) (hH : Hint s) (hR : Reach reg s) :
    ∀ t' p v, ((execOther s t).pc t').copyVal = some (p, v) → v = true := by
  have g0 := hR.copyTrue
  have g0t := hR.copyTrue t
  unfold execOther
  try unfold walkNext
  try unfold afterHint
  try unfold applyReset
  try simp only [C_propHolds, C_copyNeverClears, afterLists, ↓reduceIte, Bool.true_and]
  repeat' split
  all_goals (try rw [‹s.pc t = _›] at g0t)
  all_goals (try simp [Pc.copyVal] at g0t)
  all_goals (intro t' p v h1; by_cases ht : t' = t <;> first | (subst ht; try simp [C, upd_apply, afterLists, nextList, Pc.copyVal] at h1 ⊢) | (try simp [ht, C, upd_apply, afterLists, nextList] at h1 ⊢))
  all_goals grind [Pc.copyVal]

theorem copyTrue_exec (hS : Struct reg s) (hO : Orig s) (hH : Hint s) (hR : Reach reg s) :
    ∀ t' p v, ((exec (C r) reg s t).pc t').copyVal = some (p, v) → v = true := by
  unfold exec
  split
  · exact copyTrue_exec_c hS hO hH hR
  · split
    · exact copyTrue_exec_b hS hO hH hR
    · exact copyTrue_exec_o hS hO hH hR

theorem copyTrue_begin (hS : Struct reg s) (hO : Orig s) (hH : Hint s) (hR : Reach reg s) (hi : s.pc t = .idle) :
    ∀ t' p v, ((begin (C r) reg s t).pc t').copyVal = some (p, v) → v = true := by
  have g0 := hR.copyTrue
  have g0t := hR.copyTrue t
  begin_cases
  all_goals (try rw [hi] at g0t)
  all_goals (try simp [Pc.copyVal] at g0t)
  all_goals (intro t' p v h1; by_cases ht : t' = t <;> first | (subst ht; try simp [C, upd_apply, afterLists, nextList, Pc.copyVal] at h1 ⊢) | (try simp [ht, C, upd_apply, afterLists, nextList] at h1 ⊢))
  all_goals grind [Pc.copyVal]

theorem wstLe_exec_c (hS : Struct reg s) (hO : Orig s) (hH : Hint s) (hR : Reach reg s) :
    ∀ a, (execCancel (C r) reg s t).wst a ≤ (execCancel (C r) reg s t).clk := by
  have g0 := hR.wstLe
  unfold execCancel
  try unfold walkNext
  try unfold afterHint
  try unfold applyReset
  try simp only [C_propHolds, C_copyNeverClears, afterLists, ↓reduceIte, Bool.true_and]
  repeat' split
  all_goals (intro a; try simp [C, upd_apply, afterLists, nextList] at  ⊢)
  all_goals grind []

theorem wstLe_exec_b (hS : Struct reg s) (hO : Orig s) (hH : Hint s) (hR : Reach reg s) :
    ∀ a, (execBind (C r) s t).wst a ≤ (execBind (C r) s t).clk := by
  have g0 := hR.wstLe
  unfold execBind
  try unfold walkNext
  try unfold afterHint
  try unfold applyReset
  try simp only [C_propHolds, C_copyNeverClears, afterLists, ↓reduceIte, Bool.true_and]
  repeat' split
  all_goals (intro a; try simp [C, upd_apply, afterLists, nextList] at  ⊢)
  all_goals grind []

theorem wstLe_exec_o (hS : Struct reg s) (hO : Orig s) (hH : Hint s) (hR : Reach reg s) :
    ∀ a, (execOther s t).wst a ≤ (execOther s t).clk := by
  have g0 := hR.wstLe
  unfold execOther
  try unfold walkNext
  try unfold afterHint
  try unfold applyReset
  try simp only [C_propHolds, C_copyNeverClears, afterLists, ↓reduceIte, Bool.true_and]
  repeat' split
  all_goals (intro a; try simp [C, upd_apply, afterLists, nextList] at  ⊢)
  all_goals grind []

theorem wstLe_exec (hS : Struct reg s) (hO : Orig s) (hH : Hint s) (hR : Reach reg s) :
    ∀ a, (exec (C r) reg s t).wst a ≤ (exec (C r) reg s t).clk := by
  unfold exec
  split
  · exact wstLe_exec_c hS hO hH hR
  · split
    · exact wstLe_exec_b hS hO hH hR
    · exact wstLe_exec_o hS hO hH hR

theorem wstLe_begin (hS : Struct reg s) (hO : Orig s) (hH : Hint s) (hR : Reach reg s) (hi : s.pc t = .idle) :
    ∀ a, (begin (C r) reg s t).wst a ≤ (begin (C r) reg s t).clk := by
  have g0 := hR.wstLe
  begin_cases
  all_goals (intro a; try simp [C, upd_apply, afterLists, nextList] at  ⊢)
  all_goals grind []

theorem pstLe_exec_c (hS : Struct reg s) (hO : Orig s) (hH : Hint s) (hR : Reach reg s) :
    ∀ n, (execCancel (C r) reg s t).pst n ≤ (execCancel (C r) reg s t).clk := by
  have g0 := hR.pstLe
  have g1 := hR.wstLe
  unfold execCancel
  try unfold walkNext
  try unfold afterHint
  try unfold applyReset
  try simp only [C_propHolds, C_copyNeverClears, afterLists, ↓reduceIte, Bool.true_and]
  repeat' split
  all_goals (intro n; try simp [C, upd_apply, afterLists, nextList] at  ⊢)
  all_goals grind []

theorem pstLe_exec_b (hS : Struct reg s) (hO : Orig s) (hH : Hint s) (hR : Reach reg s) :
    ∀ n, (execBind (C r) s t).pst n ≤ (execBind (C r) s t).clk := by
  have g0 := hR.pstLe
  have g1 := hR.wstLe
  unfold execBind
  try unfold walkNext
  try unfold afterHint
  try unfold applyReset
  try simp only [C_propHolds, C_copyNeverClears, afterLists, ↓reduceIte, Bool.true_and]
  repeat' split
  all_goals (intro n; try simp [C, upd_apply, afterLists, nextList] at  ⊢)
  all_goals grind []

theorem pstLe_exec_o (hS : Struct reg s) (hO : Orig s) (hH : Hint s) (hR : Reach reg s) :
    ∀ n, (execOther s t).pst n ≤ (execOther s t).clk := by
  have g0 := hR.pstLe
  have g1 := hR.wstLe
  unfold execOther
  try unfold walkNext
  try unfold afterHint
  try unfold applyReset
  try simp only [C_propHolds, C_copyNeverClears, afterLists, ↓reduceIte, Bool.true_and]
  repeat' split
  all_goals (intro n; try simp [C, upd_apply, afterLists, nextList] at  ⊢)
  all_goals grind []

theorem pstLe_exec (hS : Struct reg s) (hO : Orig s) (hH : Hint s) (hR : Reach reg s) :
    ∀ n, (exec (C r) reg s t).pst n ≤ (exec (C r) reg s t).clk := by
  unfold exec
  split
  · exact pstLe_exec_c hS hO hH hR
  · split
    · exact pstLe_exec_b hS hO hH hR
    · exact pstLe_exec_o hS hO hH hR

theorem pstLe_begin (hS : Struct reg s) (hO : Orig s) (hH : Hint s) (hR : Reach reg s) (hi : s.pc t = .idle) :
    ∀ n, (begin (C r) reg s t).pst n ≤ (begin (C r) reg s t).clk := by
  have g0 := hR.pstLe
  have g1 := hR.wstLe
  begin_cases
  all_goals (intro n; try simp [C, upd_apply, afterLists, nextList] at  ⊢)
  all_goals grind []

theorem skipLe_exec_c (hS : Struct reg s) (hO : Orig s) (hH : Hint s) (hR : Reach reg s) :
    ∀ a, (execCancel (C r) reg s t).skipSt a ≤ (execCancel (C r) reg s t).clk := by
  have g0 := hR.skipLe
  have g1 := hR.wstLe
  unfold execCancel
  try unfold walkNext
  try unfold afterHint
  try unfold applyReset
  try simp only [C_propHolds, C_copyNeverClears, afterLists, ↓reduceIte, Bool.true_and]
  repeat' split
  all_goals (intro a; try simp [C, upd_apply, afterLists, nextList] at  ⊢)
  all_goals grind []

theorem skipLe_exec_b (hS : Struct reg s) (hO : Orig s) (hH : Hint s) (hR : Reach reg s) :
    ∀ a, (execBind (C r) s t).skipSt a ≤ (execBind (C r) s t).clk := by
  have g0 := hR.skipLe
  have g1 := hR.wstLe
  unfold execBind
  try unfold walkNext
  try unfold afterHint
  try unfold applyReset
  try simp only [C_propHolds, C_copyNeverClears, afterLists, ↓reduceIte, Bool.true_and]
  repeat' split
  all_goals (intro a; try simp [C, upd_apply, afterLists, nextList] at  ⊢)
  all_goals grind []

theorem skipLe_exec_o (hS : Struct reg s) (hO : Orig s) (hH : Hint s) (hR : Reach reg s) :
    ∀ a, (execOther s t).skipSt a ≤ (execOther s t).clk := by
  have g0 := hR.skipLe
  have g1 := hR.wstLe
  unfold execOther
  try unfold walkNext
  try unfold afterHint
  try unfold applyReset
  try simp only [C_propHolds, C_copyNeverClears, afterLists, ↓reduceIte, Bool.true_and]
  repeat' split
  all_goals (intro a; try simp [C, upd_apply, afterLists, nextList] at  ⊢)
  all_goals grind []

theorem skipLe_exec (hS : Struct reg s) (hO : Orig s) (hH : Hint s) (hR : Reach reg s) :
    ∀ a, (exec (C r) reg s t).skipSt a ≤ (exec (C r) reg s t).clk := by
  unfold exec
  split
  · exact skipLe_exec_c hS hO hH hR
  · split
    · exact skipLe_exec_b hS hO hH hR
    · exact skipLe_exec_o hS hO hH hR

theorem skipLe_begin (hS : Struct reg s) (hO : Orig s) (hH : Hint s) (hR : Reach reg s) (hi : s.pc t = .idle) :
    ∀ a, (begin (C r) reg s t).skipSt a ≤ (begin (C r) reg s t).clk := by
  have g0 := hR.skipLe
  have g1 := hR.wstLe
  begin_cases
  all_goals (intro a; try simp [C, upd_apply, afterLists, nextList] at  ⊢)
  all_goals grind []

end TbbVerif.C04
