/-
C04 proofs — frame facts of one access of the repaired protocol, used to carry P1 (`Reach.listed`) across a step.
-/
import TbbVerif.Proofs.C04.ReachF

namespace TbbVerif.C04
variable {r : List RF} {reg : List Nat} {s : St} {t : Nat}

/-- the context a binder is about to push onto its own list -/
def Pc.pushing : Pc → Option Nat
  | .bRegL x _ _ => some x
  | _ => none

/-- the list index a propagation is about to sync -/
def Pc.syncing : Pc → Option Nat
  | .cSync _ i _ => some i
  | _ => none

theorem force_aux4 (x p : Nat) : (Pc.bHintL x p).pushing = none ∧ (Pc.bHintL x p).syncing = none := by
  constructor
  · grind [Pc.pushing]
  · grind [Pc.syncing]

/-- F1: list membership after a step -/
theorem items_step {L x : Nat} (h : x ∈ (exec (C r) reg s t).items L) :
    x ∈ s.items L ∨ (L = t ∧ (s.pc t).pushing = some x ∧ s.lmx t = none) := by
  revert h
  exec_cases_C
  all_goals (intro h; try simp [upd_apply] at h ⊢)
  all_goals grind [Pc.pushing, List.mem_cons, → List.mem_of_mem_erase]

/-- F3: `Vf m` facts survive every access (flags are only cleared by a reset, which makes the context stale for every
stamp in the past; copies only store "cancelled"; the parent function only grows) -/
theorem vf_mono (hS : Struct reg s) (hR : Reach reg s) {m a x : Nat} (hm : m ≤ s.clk)
    (h : Vf s.par s.can s.rst s.oc m a x) :
    Vf (exec (C r) reg s t).par (exec (C r) reg s t).can (exec (C r) reg s t).rst (exec (C r) reg s t).oc m a x := by
  have g1 := hR.copyTrue t
  have l0 := @vf_cas reg s hS
  revert h
  exec_cases_C
  all_goals (try rw [‹s.pc t = _›] at g1)
  all_goals (try simp [Pc.copyVal] at g1)
  all_goals (intro h; try simp [upd_apply] at h ⊢)
  all_goals grind [vf_upd_true, vf_reset, vf_exit]

theorem G_step : (exec (C r) reg s t).G = s.G ∨ (exec (C r) reg s t).G = s.G + 1 := by
  exec_cases_C
  all_goals simp

/-- F4: another binder's pending re-copy is still pending -/
theorem cover_other {w x : Nat} (hw : w ≠ t) (h : (s.pc w).coverOf s.G = some x) :
    ((exec (C r) reg s t).pc w).coverOf (exec (C r) reg s t).G = some x := by
  rw [exec_pc_other hw]
  rcases G_step (r := r) (reg := reg) (s := s) (t := t) with e | e <;> rw [e]
  · exact h
  · exact Pc.coverOf_mono h

/-- F2a: ancestors of a context that already has left the `created` state do not change -/
theorem anc_step_back (hS : Struct reg s) {x a : Nat} (hx : s.cst x ≠ .created) (h : Anc (exec (C r) reg s t).par x a) :
    Anc s.par x a := by
  have l0 := @anc_cas_back reg s hS
  revert h
  exec_cases_C
  all_goals (intro h; try simp [upd_apply] at h ⊢)
  all_goals grind

/-- F7: a cancellation that is current after the step was current before it, or is the winning exchange of this step -/
theorem cur_step_back (hR : Reach reg s) {a m : Nat} (h : Cur (exec (C r) reg s t).wst (exec (C r) reg s t).rst a m) :
    Cur s.wst s.rst a m ∨ m = s.clk + 1 := by
  have g0 := hR.wstLe
  revert h
  exec_cases_C
  all_goals (intro h; try simp [upd_apply] at h ⊢)
  all_goals grind [→ cur_upd_wst, → cur_upd_rst]

theorem clk_step : s.clk ≤ (exec (C r) reg s t).clk := by
  exec_cases_C
  all_goals simp

end TbbVerif.C04
