/-
C04 proofs — structural invariants (won, paint, copy): preservation by `exec` and `begin`.
-/
import TbbVerif.Proofs.C04.OrigInv

namespace TbbVerif.C04
variable {cfg : Cfg} {reg : List Nat} {s : St} {t : Nat}

theorem won_exec (hS : Struct reg s) (hO : Orig s) :
    ∀ t' a, ((exec cfg reg s t).pc t').wonSrc = some a → 1 ≤ (exec cfg reg s t).wins a := by
  have g0 := hO.won
  have g0t := hO.won t
  exec_cases
  all_goals (try rw [‹s.pc t = _›] at g0t)
  all_goals (try simp [Pc.wonSrc] at g0t)
  all_goals (intro t' a h1; by_cases ht : t' = t <;> first | (subst ht; try simp [upd_apply, afterLists, nextList, Pc.wonSrc] at h1 ⊢) | (try simp [ht, upd_apply, afterLists, nextList] at h1 ⊢))
  all_goals grind [Pc.wonSrc]

theorem won_begin (hS : Struct reg s) (hO : Orig s) (hi : s.pc t = .idle) :
    ∀ t' a, ((begin cfg reg s t).pc t').wonSrc = some a → 1 ≤ (begin cfg reg s t).wins a := by
  have g0 := hO.won
  have g0t := hO.won t
  begin_cases
  all_goals (try rw [hi] at g0t)
  all_goals (try simp [Pc.wonSrc] at g0t)
  all_goals (intro t' a h1; by_cases ht : t' = t <;> first | (subst ht; try simp [upd_apply, afterLists, nextList, Pc.wonSrc] at h1 ⊢) | (try simp [ht, upd_apply, afterLists, nextList] at h1 ⊢))
  all_goals grind [Pc.wonSrc]

theorem paint_exec (hS : Struct reg s) (hO : Orig s) :
    ∀ t' src i x chain rest, (exec cfg reg s t).pc t' = .cPaint src i x chain rest → ∀ e ∈ chain, Anc (exec cfg reg s t).par e src := by
  have g0 := hO.paint
  have g0t := hO.paint t
  have g1 := hS.createdPar
  have g2 := hS.parDone
  exec_cases
  all_goals (try rw [‹s.pc t = _›] at g0t)
  all_goals (try simp [chainUp_sound, anc_upd_par] at g0t)
  all_goals (intro t' src i x chain rest h1 e h2; by_cases ht : t' = t <;> first | (subst ht; try simp [upd_apply, afterLists, nextList, chainUp_sound, anc_upd_par] at h1 h2 ⊢) | (try simp [ht, upd_apply, afterLists, nextList] at h1 h2 ⊢))
  all_goals grind [chainUp_sound, anc_upd_par]

theorem paint_begin (hS : Struct reg s) (hO : Orig s) (hi : s.pc t = .idle) :
    ∀ t' src i x chain rest, (begin cfg reg s t).pc t' = .cPaint src i x chain rest → ∀ e ∈ chain, Anc (begin cfg reg s t).par e src := by
  have g0 := hO.paint
  have g0t := hO.paint t
  have g1 := hS.createdPar
  have g2 := hS.parDone
  begin_cases
  all_goals (try rw [hi] at g0t)
  all_goals (try simp [chainUp_sound, anc_upd_par] at g0t)
  all_goals (intro t' src i x chain rest h1 e h2; by_cases ht : t' = t <;> first | (subst ht; try simp [upd_apply, afterLists, nextList, chainUp_sound, anc_upd_par] at h1 h2 ⊢) | (try simp [ht, upd_apply, afterLists, nextList] at h1 h2 ⊢))
  all_goals grind [chainUp_sound, anc_upd_par]

theorem copy_exec (hS : Struct reg s) (hO : Orig s) :
    ∀ t' p, ((exec cfg reg s t).pc t').copyVal = some (p, true) → Justified (exec cfg reg s t).par (exec cfg reg s t).wins p := by
  have g0 := hO.copy
  have g0t := hO.copy t
  have g1 := hO.can
  have g2 := hS.createdPar
  have g3 := hS.parDone
  exec_cases
  all_goals (try rw [‹s.pc t = _›] at g0t)
  all_goals (try simp [Pc.copyVal, justified_upd_wins, justified_upd_par] at g0t)
  all_goals (intro t' p h1; by_cases ht : t' = t <;> first | (subst ht; try simp [upd_apply, afterLists, nextList, Pc.copyVal, justified_upd_wins, justified_upd_par] at h1 ⊢) | (try simp [ht, upd_apply, afterLists, nextList] at h1 ⊢))
  all_goals grind [Pc.copyVal, justified_upd_wins, justified_upd_par]

theorem copy_begin (hS : Struct reg s) (hO : Orig s) (hi : s.pc t = .idle) :
    ∀ t' p, ((begin cfg reg s t).pc t').copyVal = some (p, true) → Justified (begin cfg reg s t).par (begin cfg reg s t).wins p := by
  have g0 := hO.copy
  have g0t := hO.copy t
  have g1 := hO.can
  have g2 := hS.createdPar
  have g3 := hS.parDone
  begin_cases
  all_goals (try rw [hi] at g0t)
  all_goals (try simp [Pc.copyVal, justified_upd_wins, justified_upd_par] at g0t)
  all_goals (intro t' p h1; by_cases ht : t' = t <;> first | (subst ht; try simp [upd_apply, afterLists, nextList, Pc.copyVal, justified_upd_wins, justified_upd_par] at h1 ⊢) | (try simp [ht, upd_apply, afterLists, nextList] at h1 ⊢))
  all_goals grind [Pc.copyVal, justified_upd_wins, justified_upd_par]

end TbbVerif.C04
