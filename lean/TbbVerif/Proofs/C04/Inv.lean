/-
C04 proofs — structural invariants of `CtxTree` (any `cfg`): mutex ownership, who may bind, parent pointers, registration.
Definitions only; preservation is proved in `Struct*.lean`.
-/
import TbbVerif.Proofs.C04.Chain

namespace TbbVerif.C04

/-- pcs at which a canceller holds `my_threads_list_mutex` -/
def Pc.inReg : Pc → Bool
  | .cLockProp _ | .cRecheck _ | .cEpoch _ | .cLockList _ _ | .cLoad1 _ _ _ _ | .cLoad2 _ _ _ _ | .cPaint _ _ _ _ _
  | .cReadG _ _ | .cSync _ _ _ | .cUnlockList _ _ | .cUnlockProp _ | .cUnlockReg _ => true
  | .gUnlock | .xUnlock => true              -- a thread entering / leaving the registry
  | _ => false

/-- the list index a canceller is working on while it holds that list's mutex -/
def Pc.walkIdx : Pc → Option Nat
  | .cLoad1 _ i _ _ | .cLoad2 _ i _ _ | .cPaint _ i _ _ _ | .cReadG _ i | .cSync _ i _ | .cUnlockList _ i => some i
  | _ => none

/-- the list index a canceller is about to lock, holds, or has just released -/
def Pc.atList : Pc → Option Nat
  | .cLockList _ i | .cLoad1 _ i _ _ | .cLoad2 _ i _ _ | .cPaint _ i _ _ _ | .cReadG _ i | .cSync _ i _ | .cUnlockList _ i => some i
  | _ => none

/-- pcs of the thread that won the created→locked CAS on `x` and has not yet published the final state, with the
parent it binds to -/
def Pc.owner : Pc → Option (Nat × Option Nat)
  | .bIso x => some (x, none)
  | .bHintL x p | .bHintS x p | .bSnap x p | .bSpecL x p _ | .bSpecS x p _ _ | .bRegL x p _ | .bRegU x p _
  | .bLoadG x p _ | .bFbLock x p | .bFbL x p | .bFbS x p _ | .bFbU x p | .bRootL x p | .bRootS x p _ => some (x, some p)
  | _ => none

/-- all pcs between the successful CAS and the store of the final state -/
def Pc.owns : Pc → Option Nat
  | .bIso x | .bHintL x _ | .bHintS x _ | .bSnap x _ | .bSpecL x _ _ | .bSpecS x _ _ _ | .bRegL x _ _ | .bRegU x _ _
  | .bLoadG x _ _ | .bFbLock x _ | .bFbL x _ | .bFbS x _ _ | .bFbU x _ | .bRootL x _ | .bRootS x _ _ | .bPub x => some x
  | _ => none

/-- owner pcs after the registration in the binder's own list -/
def Pc.registered : Pc → Option Nat
  | .bRegU x _ _ | .bLoadG x _ _ | .bFbLock x _ | .bFbL x _ | .bFbS x _ _ | .bFbU x _ | .bRootL x _ | .bRootS x _ _
  | .bPub x => some x
  | _ => none

/-- owner pcs of the branch taken when the parent has a parent (snapshot / fall-back), with the parent -/
def Pc.snapBranch : Pc → Option Nat
  | .bSnap _ p | .bSpecL _ p _ | .bSpecS _ p _ _ | .bLoadG _ p _ | .bFbLock _ p | .bFbL _ p | .bFbS _ p _ | .bFbU _ p => some p
  | .bRegL _ p sn | .bRegU _ p sn => if sn = none then none else some p
  | _ => none

/-- owner pcs of the branch taken when the parent is a root -/
def Pc.rootBranch : Pc → Option Nat
  | .bRootL _ p | .bRootS _ p _ => some p
  | .bRegL _ p sn | .bRegU _ p sn => if sn = none then some p else none
  | _ => none

/-- pcs of a destroy call on x -/
def Pc.destroying : Pc → Option Nat
  | .dLock x | .dUnlock x | .dDead x => some x
  | _ => none

def okParent (s : St) (p : Nat) : Prop := (s.cst p = .bound ∨ s.cst p = .isolated) ∧ s.dying p = false

structure Struct (reg : List Nat) (s : St) : Prop where
  /-- a canceller inside the registry critical section holds the registry mutex -/
  regMx : ∀ t, (s.pc t).inReg = true → s.regMx = some t
  /-- holders of list mutexes: a canceller walking list reg[i], a binder between push_front and unlock, a destroyer -/
  lmxWalk : ∀ t i L, (s.pc t).walkIdx = some i → reg[i]? = some L → s.lmx L = some t
  lmxBind : ∀ t x p sn, s.pc t = .bRegU x p sn → s.lmx t = some t
  lmxDes : ∀ t x L, s.pc t = .dUnlock x → s.lst x = some L → s.lmx L = some t
  lmxOrph : ∀ t, s.pc t = .xOrphU → s.lmx t = some t
  /-- registry membership: only threads of `reg` ever register; binders are registered; the propagator walks registered
  threads; a thread that never registered has an empty list; contexts in the list of a thread that left are marked -/
  regPc : ∀ t, s.pc t = .gLock → t ∈ reg ∧ s.act t = false ∧ s.wasReg t = false
  actReg : ∀ t, s.act t = true → t ∈ reg
  actWas : ∀ t, s.act t = true → s.wasReg t = true
  bindAct : ∀ t, (s.pc t).isBind = true → s.act t = true
  walkAct : ∀ t i L, (s.pc t).atList = some i → reg[i]? = some L → s.act L = true
  notWasEmpty : ∀ L, s.wasReg L = false → s.items L = []
  ocItems : ∀ L x, x ∈ s.items L → s.act L = false → s.oc x = true
  /-- only registered threads bind -/
  bindReg : ∀ t, (s.pc t).isBind = true → t ∈ reg
  /-- parent pointers: set once, consistent with the depth ghost -/
  parSet : ∀ x p, s.par x = some p → s.cst x ≠ .created ∧ s.depth x = s.depth p + 1
  isoRoot : ∀ x, s.cst x = .isolated → s.par x = none
  createdPar : ∀ x, s.cst x = .created → s.par x = none
  /-- parents are contexts whose binding is complete -/
  parDone : ∀ y p, s.par y = some p → s.cst p ≠ .created ∧ s.cst p ≠ .locked
  /-- the owner of a locked context -/
  ownsSt : ∀ t x, (s.pc t).owns = some x → s.cst x = .locked
  ownsUnique : ∀ t1 t2 x, (s.pc t1).owns = some x → (s.pc t2).owns = some x → t1 = t2
  ownerPar : ∀ t x p, (s.pc t).owner = some (x, p) → s.par x = p
  /-- a binder past the registration step has its context in its own list -/
  regMem : ∀ t x, (s.pc t).registered = some x → x ∈ s.items t
  /-- the snapshot branch is taken iff the parent has a parent -/
  snapPar : ∀ t p, (s.pc t).snapBranch = some p → s.par p ≠ none
  rootPar : ∀ t p, (s.pc t).rootBranch = some p → s.par p = none
  /-- members of a context list -/
  itemsOk : ∀ L x, x ∈ s.items L → s.lst x = some L ∧ L ∈ reg ∧ s.par x ≠ none
  itemsNodup : ∀ L, (s.items L).Nodup
  /-- not yet registered -/
  createdLst : ∀ x, s.cst x = .created → s.lst x = none
  preReg : ∀ t x p, (s.pc t).owner = some (x, p) → (s.pc t).registered = none → s.lst x = none
  /-- a destroyer that has unregistered its context -/
  desGone : ∀ t x L, s.pc t = .dUnlock x → x ∉ s.items L
  /-- a bound context that nobody is destroying is in its list -/
  boundReg : ∀ x, s.cst x = .bound → s.dying x = false → ∃ L, s.lst x = some L ∧ x ∈ s.items L
  /-- the parent of a registered context, and the parent a binder refers to, is alive and not being destroyed -/
  parAlive : ∀ L x p, x ∈ s.items L → s.par x = some p → okParent s p
  bindAlive : ∀ t p, (s.pc t).bindParent = some p → okParent s p
  /-- destroy in flight -/
  dyingOk : ∀ t x, (s.pc t).destroying = some x → s.dying x = true
  dyingSt : ∀ x, s.dying x = true → s.cst x = .dead ∨ ∃ t, (s.pc t).destroying = some x
  bindNotDying : ∀ t x, (s.pc t).bindTarget = some x → s.dying x = false

end TbbVerif.C04

namespace TbbVerif.C04

/-! ### the pc predicates on `walkPc` -/
section
variable (src i : Nat) (l : List Nat)
@[simp, grind =] theorem walkPc_walkIdx : (walkPc src i l).walkIdx = some i := by cases l <;> rfl
@[simp, grind =] theorem walkPc_inReg : (walkPc src i l).inReg = true := by cases l <;> rfl
@[simp, grind =] theorem walkPc_isCancel : (walkPc src i l).isCancel = true := by cases l <;> rfl
@[simp, grind =] theorem walkPc_isBind : (walkPc src i l).isBind = false := by cases l <;> rfl
@[simp, grind =] theorem walkPc_owner : (walkPc src i l).owner = none := by cases l <;> rfl
@[simp, grind =] theorem walkPc_registered : (walkPc src i l).registered = none := by cases l <;> rfl
@[simp, grind =] theorem walkPc_destroying : (walkPc src i l).destroying = none := by cases l <;> rfl
@[simp, grind =] theorem walkPc_bindParent : (walkPc src i l).bindParent = none := by cases l <;> rfl
@[simp, grind =] theorem walkPc_bindTarget : (walkPc src i l).bindTarget = none := by cases l <;> rfl
theorem walkPc_cases : (l = [] ∧ walkPc src i l = .cReadG src i) ∨ (∃ y ys, l = y :: ys ∧ walkPc src i l = .cLoad1 src i y ys) := by
  cases l with
  | nil => exact Or.inl ⟨rfl, rfl⟩
  | cons y ys => exact Or.inr ⟨y, ys, rfl, rfl⟩
end

end TbbVerif.C04

namespace TbbVerif.C04

theorem destroyOk_spec {reg : List Nat} {s : St} {x : Nat} (h : destroyOk reg s x = true) :
    (s.cst x = .bound ∨ s.cst x = .isolated ∨ s.cst x = .created) ∧
    ∀ t ∈ reg, (s.pc t).bindParent ≠ some x ∧ (s.pc t).bindTarget ≠ some x ∧ ∀ y ∈ s.items t, s.par y ≠ some x := by
  unfold destroyOk at h
  simp only [Bool.and_eq_true, Bool.or_eq_true, beq_iff_eq, List.all_eq_true, bne_iff_ne, ne_eq] at h
  refine ⟨by rcases h.1 with (h | h) | h <;> simp [h], ?_⟩
  intro t ht
  have := h.2 t ht
  exact ⟨this.1.1, this.1.2, this.2⟩

theorem bindOk_spec {reg : List Nat} {s : St} {t x : Nat} {p : Option Nat} (h : bindOk reg s t x p = true) :
    t ∈ reg ∧ s.act t = true ∧ s.cst x ≠ .dead ∧ s.dying x = false ∧
    ∀ q, p = some q → (s.cst q = .bound ∨ s.cst q = .isolated) ∧ s.dying q = false ∧ q ≠ x := by
  unfold bindOk at h
  cases p with
  | none => simp at h; exact ⟨h.1.1.1, h.1.1.2, h.1.2, h.2, by simp⟩
  | some q =>
    simp at h
    refine ⟨h.1.1.1.1, h.1.1.1.2, h.1.1.2, h.1.2, ?_⟩
    intro q' hq'
    cases hq'
    exact ⟨h.2.1.1, h.2.1.2, h.2.2⟩

end TbbVerif.C04

namespace TbbVerif.C04

/-! ### relations between the pc classifications -/
theorem Pc.owns_bindTarget {pc : Pc} {x : Nat} : pc.owns = some x → pc.bindTarget = some x := by
  cases pc <;> simp [Pc.owns, Pc.bindTarget]
theorem Pc.owner_owns {pc : Pc} {x : Nat} {p : Option Nat} : pc.owner = some (x, p) → pc.owns = some x := by
  cases pc <;> simp [Pc.owns, Pc.owner] <;> (intro h _; exact h)
theorem Pc.owner_bindParent {pc : Pc} {x p : Nat} : pc.owner = some (x, some p) → pc.bindParent = some p := by
  cases pc <;> simp [Pc.owner, Pc.bindParent]
theorem Pc.registered_owns {pc : Pc} {x : Nat} : pc.registered = some x → pc.owns = some x := by
  cases pc <;> simp [Pc.owns, Pc.registered]
theorem Pc.snapBranch_bindParent {pc : Pc} {p : Nat} : pc.snapBranch = some p → pc.bindParent = some p := by
  cases pc <;> simp [Pc.snapBranch, Pc.bindParent]
theorem Pc.rootBranch_bindParent {pc : Pc} {p : Nat} : pc.rootBranch = some p → pc.bindParent = some p := by
  cases pc <;> simp [Pc.rootBranch, Pc.bindParent]
theorem Pc.owns_isBind {pc : Pc} {x : Nat} : pc.owns = some x → pc.isBind = true := by
  cases pc <;> simp [Pc.owns, Pc.isBind]
theorem Pc.bindTarget_isBind {pc : Pc} {x : Nat} : pc.bindTarget = some x → pc.isBind = true := by
  cases pc <;> simp [Pc.bindTarget, Pc.isBind]

end TbbVerif.C04

namespace TbbVerif.C04
theorem Pc.bindParent_isBind {pc : Pc} {p : Nat} : pc.bindParent = some p → pc.isBind = true := by
  cases pc <;> simp [Pc.bindParent, Pc.isBind]
theorem Pc.destroying_not_bind {pc : Pc} {x : Nat} : pc.destroying = some x → pc.isBind = false ∧ pc.isCancel = false := by
  cases pc <;> simp [Pc.destroying, Pc.isBind, Pc.isCancel]
end TbbVerif.C04

namespace TbbVerif.C04
/-! Force the auxiliary matcher lemmas that `grind [f]` derives for the pc classifications to be generated here, once
(otherwise sibling modules generate them independently and cannot be imported together). -/
theorem force_aux (x p : Nat) :
    (Pc.bHintL x p).owner = some (x, some p) ∧ (Pc.bHintL x p).owns = some x ∧ (Pc.bHintL x p).registered = none ∧
    (Pc.bHintL x p).snapBranch = none ∧ (Pc.bHintL x p).rootBranch = none ∧ (Pc.bHintL x p).destroying = none ∧
    (Pc.bHintL x p).inReg = false ∧ (Pc.bHintL x p).walkIdx = none ∧ (Pc.bHintL x p).isCancel = false ∧
    (Pc.bHintL x p).isBind = true ∧ (Pc.bHintL x p).bindParent = some p ∧ (Pc.bHintL x p).bindTarget = some x ∧
    (Pc.bHintL x p).atList = none := by
  refine ⟨?_, ?_, ?_, ?_, ?_, ?_, ?_, ?_, ?_, ?_, ?_, ?_, ?_⟩
  · grind [Pc.owner]
  · grind [Pc.owns]
  · grind [Pc.registered]
  · grind [Pc.snapBranch]
  · grind [Pc.rootBranch]
  · grind [Pc.destroying]
  · grind [Pc.inReg]
  · grind [Pc.walkIdx]
  · grind [Pc.isCancel]
  · grind [Pc.isBind]
  · grind [Pc.bindParent]
  · grind [Pc.bindTarget]
  · grind [Pc.atList]

/-! ### the walk over the registered threads -/

theorem nextActFrom_spec (act : Nat → Bool) : ∀ (l : List Nat) (j k : Nat), nextActFrom act l j = some k →
    j ≤ k ∧ (∃ L, l[k - j]? = some L ∧ act L = true) ∧ ∀ L ∈ l.take (k - j), act L = false := by
  intro l
  induction l with
  | nil => intro j k h; simp [nextActFrom] at h
  | cons a rest ih =>
    intro j k h
    unfold nextActFrom at h
    split at h
    · rename_i ha
      simp at h
      subst h
      simp [ha]
    · rename_i ha
      obtain ⟨h1, ⟨L, h2, h3⟩, h4⟩ := ih (j + 1) k h
      have e : k - j = (k - (j + 1)) + 1 := by omega
      refine ⟨by omega, ⟨L, by rw [e]; simpa using h2, h3⟩, ?_⟩
      intro L' hL'
      rw [e, List.take_succ_cons] at hL'
      rcases List.mem_cons.1 hL' with h' | h'
      · subst h'; simpa using ha
      · exact h4 L' h'

theorem nextActFrom_none (act : Nat → Bool) : ∀ (l : List Nat) (j : Nat), nextActFrom act l j = none →
    ∀ L ∈ l, act L = false := by
  intro l
  induction l with
  | nil => intro j _ L hL; cases hL
  | cons a rest ih =>
    intro j h L hL
    unfold nextActFrom at h
    split at h
    · cases h
    · rename_i ha
      rcases List.mem_cons.1 hL with h' | h'
      · subst h'; simpa using ha
      · exact ih (j + 1) h L h'

/-- the list the walk locks next belongs to a registered thread -/
theorem nextList_act {cfg : Cfg} {reg : List Nat} {act : Nat → Bool} {src i src' j L : Nat}
    (h : nextList cfg reg act src i = .cLockList src' j) (hL : reg[j]? = some L) : act L = true := by
  unfold nextList at h
  split at h
  · rename_i k hk
    cases h
    obtain ⟨h1, ⟨L', h2, h3⟩, _⟩ := nextActFrom_spec act _ _ _ hk
    rw [List.getElem?_drop] at h2
    have : i + (j - i) = j := by omega
    rw [this, hL] at h2
    cases h2
    exact h3
  · unfold afterLists at h
    split at h <;> cases h

/-- the walk either locks a further list or leaves the loop -/
theorem nextList_cases (cfg : Cfg) (reg : List Nat) (act : Nat → Bool) (src i : Nat) :
    (∃ j, nextList cfg reg act src i = .cLockList src j) ∨ nextList cfg reg act src i = afterLists cfg src := by
  unfold nextList
  cases nextActFrom act (List.drop i reg) i with
  | some j => exact Or.inl ⟨j, rfl⟩
  | none => exact Or.inr rfl

theorem Pc.atList_inReg {pc : Pc} {i : Nat} : pc.atList = some i → pc.inReg = true := by
  cases pc <;> simp [Pc.atList, Pc.inReg]

theorem nextList_atList {cfg : Cfg} {reg : List Nat} {act : Nat → Bool} {src k i L : Nat}
    (h : (nextList cfg reg act src k).atList = some i) (hL : reg[i]? = some L) : act L = true := by
  have : nextList cfg reg act src k = .cLockList src i := by
    unfold nextList at h ⊢
    cases hj : nextActFrom act (List.drop k reg) k with
    | some j =>
      simp only [hj] at h ⊢
      simp [Pc.atList] at h
      rw [h]
    | none =>
      simp only [hj] at h
      unfold afterLists at h
      split at h <;> simp [Pc.atList] at h
  exact nextList_act this hL

/-- a registered thread's list that the walk has not reached yet is still ahead after the walk moves on -/
theorem nextList_ahead {cfg : Cfg} {reg : List Nat} {act : Nat → Bool} {src i L : Nat} (hL : L ∈ reg.drop i)
    (ha : act L = true) : ∃ j, nextList cfg reg act src i = .cLockList src j ∧ L ∈ reg.drop j := by
  unfold nextList
  split
  · rename_i k hk
    refine ⟨k, rfl, ?_⟩
    obtain ⟨h1, _, h4⟩ := nextActFrom_spec act _ _ _ hk
    have hsplit : reg.drop i = (reg.drop i).take (k - i) ++ (reg.drop i).drop (k - i) := (List.take_append_drop _ _).symm
    rw [hsplit] at hL
    rcases List.mem_append.1 hL with h | h
    · have := h4 L h
      rw [ha] at this; cases this
    · rw [List.drop_drop] at h
      have : i + (k - i) = k := by omega
      rwa [this] at h
  · rename_i hk
    have := nextActFrom_none act _ _ hk L hL
    rw [ha] at this; cases this

end TbbVerif.C04
