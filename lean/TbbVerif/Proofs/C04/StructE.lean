/-
C04 proofs — structural invariants (itemsOk, itemsNodup, preReg, desGone, createdPar): preservation by `exec` and `begin`.
-/
import TbbVerif.Proofs.C04.StructD

namespace TbbVerif.C04
variable {cfg : Cfg} {reg : List Nat} {s : St} {t : Nat}

theorem itemsOk_exec (hS : Struct reg s) :
    ∀ L x, x ∈ (exec cfg reg s t).items L → (exec cfg reg s t).lst x = some L ∧ L ∈ reg ∧ (exec cfg reg s t).par x ≠ none := by
  have g0 := hS.itemsOk
  have g1 := hS.itemsNodup
  have g2 := hS.bindReg
  have g2t := hS.bindReg t
  have g3 := hS.ownerPar
  have g3t := hS.ownerPar t
  have g4 := hS.preReg
  have g4t := hS.preReg t
  have g5 := hS.desGone
  have g5t := hS.desGone t
  have g6 := hS.createdPar
  exec_cases
  all_goals (try rw [‹s.pc t = _›] at g2t)
  all_goals (try simp [Pc.owner, Pc.registered, Pc.isBind, List.Nodup.mem_erase_iff] at g2t)
  all_goals (try rw [‹s.pc t = _›] at g3t)
  all_goals (try simp [Pc.owner, Pc.registered, Pc.isBind, List.Nodup.mem_erase_iff] at g3t)
  all_goals (try rw [‹s.pc t = _›] at g4t)
  all_goals (try simp [Pc.owner, Pc.registered, Pc.isBind, List.Nodup.mem_erase_iff] at g4t)
  all_goals (try rw [‹s.pc t = _›] at g5t)
  all_goals (try simp [Pc.owner, Pc.registered, Pc.isBind, List.Nodup.mem_erase_iff] at g5t)
  all_goals (intro L x h1; try simp [upd_apply, afterLists, nextList] at h1 ⊢)
  all_goals grind [Pc.owner, Pc.registered, Pc.isBind, List.Nodup.mem_erase_iff]

theorem itemsOk_begin (hS : Struct reg s) (hi : s.pc t = .idle) :
    ∀ L x, x ∈ (begin reg s t).items L → (begin reg s t).lst x = some L ∧ L ∈ reg ∧ (begin reg s t).par x ≠ none := by
  have g0 := hS.itemsOk
  have g1 := hS.itemsNodup
  have g2 := hS.bindReg
  have g2t := hS.bindReg t
  have g3 := hS.ownerPar
  have g3t := hS.ownerPar t
  have g4 := hS.preReg
  have g4t := hS.preReg t
  have g5 := hS.desGone
  have g5t := hS.desGone t
  have g6 := hS.createdPar
  begin_cases
  all_goals (try rw [hi] at g2t)
  all_goals (try simp [Pc.owner, Pc.registered, Pc.isBind, List.Nodup.mem_erase_iff] at g2t)
  all_goals (try rw [hi] at g3t)
  all_goals (try simp [Pc.owner, Pc.registered, Pc.isBind, List.Nodup.mem_erase_iff] at g3t)
  all_goals (try rw [hi] at g4t)
  all_goals (try simp [Pc.owner, Pc.registered, Pc.isBind, List.Nodup.mem_erase_iff] at g4t)
  all_goals (try rw [hi] at g5t)
  all_goals (try simp [Pc.owner, Pc.registered, Pc.isBind, List.Nodup.mem_erase_iff] at g5t)
  all_goals (intro L x h1; try simp [upd_apply, afterLists, nextList] at h1 ⊢)
  all_goals grind [Pc.owner, Pc.registered, Pc.isBind, List.Nodup.mem_erase_iff]

theorem itemsNodup_exec (hS : Struct reg s) :
    ∀ L, ((exec cfg reg s t).items L).Nodup := by
  have g0 := hS.itemsOk
  have g1 := hS.itemsNodup
  have g2 := hS.preReg
  have g2t := hS.preReg t
  exec_cases
  all_goals (try rw [‹s.pc t = _›] at g2t)
  all_goals (try simp [Pc.owner, Pc.registered, List.Nodup.erase, List.nodup_cons] at g2t)
  all_goals (intro L; try simp [upd_apply, afterLists, nextList] at  ⊢)
  all_goals grind [Pc.owner, Pc.registered, List.Nodup.erase, List.nodup_cons]

theorem itemsNodup_begin (hS : Struct reg s) (hi : s.pc t = .idle) :
    ∀ L, ((begin reg s t).items L).Nodup := by
  have g0 := hS.itemsOk
  have g1 := hS.itemsNodup
  have g2 := hS.preReg
  have g2t := hS.preReg t
  begin_cases
  all_goals (try rw [hi] at g2t)
  all_goals (try simp [Pc.owner, Pc.registered, List.Nodup.erase, List.nodup_cons] at g2t)
  all_goals (intro L; try simp [upd_apply, afterLists, nextList] at  ⊢)
  all_goals grind [Pc.owner, Pc.registered, List.Nodup.erase, List.nodup_cons]

theorem preReg_exec (hS : Struct reg s) :
    ∀ t' x p, ((exec cfg reg s t).pc t').owner = some (x, p) → ((exec cfg reg s t).pc t').registered = none → (exec cfg reg s t).lst x = none := by
  have g0 := hS.preReg
  have g0t := hS.preReg t
  have g1 := hS.createdLst
  have g2 := hS.ownsUnique
  have g2t := hS.ownsUnique t
  have g3 := hS.ownsSt
  have g3t := hS.ownsSt t
  exec_cases
  all_goals (try rw [‹s.pc t = _›] at g0t)
  all_goals (try simp [Pc.owner, Pc.registered, Pc.owns, Pc.owner_owns] at g0t)
  all_goals (try rw [‹s.pc t = _›] at g2t)
  all_goals (try simp [Pc.owner, Pc.registered, Pc.owns, Pc.owner_owns] at g2t)
  all_goals (try rw [‹s.pc t = _›] at g3t)
  all_goals (try simp [Pc.owner, Pc.registered, Pc.owns, Pc.owner_owns] at g3t)
  all_goals (intro t' x p h1 h2; by_cases ht : t' = t <;> first | (subst ht; try simp [upd_apply, afterLists, nextList, Pc.owner, Pc.registered, Pc.owns, Pc.owner_owns] at h1 h2 ⊢) | (try simp [ht, upd_apply, afterLists, nextList] at h1 h2 ⊢))
  all_goals grind [Pc.owner, Pc.registered, Pc.owns, Pc.owner_owns]

theorem preReg_begin (hS : Struct reg s) (hi : s.pc t = .idle) :
    ∀ t' x p, ((begin reg s t).pc t').owner = some (x, p) → ((begin reg s t).pc t').registered = none → (begin reg s t).lst x = none := by
  have g0 := hS.preReg
  have g0t := hS.preReg t
  have g1 := hS.createdLst
  have g2 := hS.ownsUnique
  have g2t := hS.ownsUnique t
  have g3 := hS.ownsSt
  have g3t := hS.ownsSt t
  begin_cases
  all_goals (try rw [hi] at g0t)
  all_goals (try simp [Pc.owner, Pc.registered, Pc.owns, Pc.owner_owns] at g0t)
  all_goals (try rw [hi] at g2t)
  all_goals (try simp [Pc.owner, Pc.registered, Pc.owns, Pc.owner_owns] at g2t)
  all_goals (try rw [hi] at g3t)
  all_goals (try simp [Pc.owner, Pc.registered, Pc.owns, Pc.owner_owns] at g3t)
  all_goals (intro t' x p h1 h2; by_cases ht : t' = t <;> first | (subst ht; try simp [upd_apply, afterLists, nextList, Pc.owner, Pc.registered, Pc.owns, Pc.owner_owns] at h1 h2 ⊢) | (try simp [ht, upd_apply, afterLists, nextList] at h1 h2 ⊢))
  all_goals grind [Pc.owner, Pc.registered, Pc.owns, Pc.owner_owns]

theorem desGone_exec (hS : Struct reg s) :
    ∀ t' x L, (exec cfg reg s t).pc t' = .dUnlock x → x ∉ (exec cfg reg s t).items L := by
  have g0 := hS.desGone
  have g0t := hS.desGone t
  have g1 := hS.itemsOk
  have g2 := hS.itemsNodup
  have g3 := hS.dyingOk
  have g3t := hS.dyingOk t
  have g4 := hS.bindNotDying
  have g4t := hS.bindNotDying t
  exec_cases
  all_goals (try rw [‹s.pc t = _›] at g0t)
  all_goals (try simp [Pc.destroying, Pc.bindTarget, List.Nodup.mem_erase_iff] at g0t)
  all_goals (try rw [‹s.pc t = _›] at g3t)
  all_goals (try simp [Pc.destroying, Pc.bindTarget, List.Nodup.mem_erase_iff] at g3t)
  all_goals (try rw [‹s.pc t = _›] at g4t)
  all_goals (try simp [Pc.destroying, Pc.bindTarget, List.Nodup.mem_erase_iff] at g4t)
  all_goals (intro t' x L h1; by_cases ht : t' = t <;> first | (subst ht; try simp [upd_apply, afterLists, nextList, Pc.destroying, Pc.bindTarget, List.Nodup.mem_erase_iff] at h1 ⊢) | (try simp [ht, upd_apply, afterLists, nextList] at h1 ⊢))
  all_goals grind [Pc.destroying, Pc.bindTarget, List.Nodup.mem_erase_iff]

theorem desGone_begin (hS : Struct reg s) (hi : s.pc t = .idle) :
    ∀ t' x L, (begin reg s t).pc t' = .dUnlock x → x ∉ (begin reg s t).items L := by
  have g0 := hS.desGone
  have g0t := hS.desGone t
  have g1 := hS.itemsOk
  have g2 := hS.itemsNodup
  have g3 := hS.dyingOk
  have g3t := hS.dyingOk t
  have g4 := hS.bindNotDying
  have g4t := hS.bindNotDying t
  begin_cases
  all_goals (try rw [hi] at g0t)
  all_goals (try simp [Pc.destroying, Pc.bindTarget, List.Nodup.mem_erase_iff] at g0t)
  all_goals (try rw [hi] at g3t)
  all_goals (try simp [Pc.destroying, Pc.bindTarget, List.Nodup.mem_erase_iff] at g3t)
  all_goals (try rw [hi] at g4t)
  all_goals (try simp [Pc.destroying, Pc.bindTarget, List.Nodup.mem_erase_iff] at g4t)
  all_goals (intro t' x L h1; by_cases ht : t' = t <;> first | (subst ht; try simp [upd_apply, afterLists, nextList, Pc.destroying, Pc.bindTarget, List.Nodup.mem_erase_iff] at h1 ⊢) | (try simp [ht, upd_apply, afterLists, nextList] at h1 ⊢))
  all_goals grind [Pc.destroying, Pc.bindTarget, List.Nodup.mem_erase_iff]

theorem createdPar_exec (hS : Struct reg s) :
    ∀ x, (exec cfg reg s t).cst x = .created → (exec cfg reg s t).par x = none := by
  have g0 := hS.createdPar
  exec_cases
  all_goals (intro x h1; try simp [upd_apply, afterLists, nextList] at h1 ⊢)
  all_goals grind [Pc.owns]

theorem createdPar_begin (hS : Struct reg s) (hi : s.pc t = .idle) :
    ∀ x, (begin reg s t).cst x = .created → (begin reg s t).par x = none := by
  have g0 := hS.createdPar
  begin_cases
  all_goals (intro x h1; try simp [upd_apply, afterLists, nextList] at h1 ⊢)
  all_goals grind [Pc.owns]

end TbbVerif.C04
