/-
C04 proofs — structural invariants (itemsOk, itemsNodup, preReg, desGone, createdPar): preservation by `exec` and `begin`.
-/
import TbbVerif.Proofs.C04.StructD

namespace TbbVerif.C04
variable {cfg : Cfg} {r : List RF} {reg : List Nat} {s : St} {t : Nat}

theorem itemsOk_exec_c (hS : Struct reg s) :
    ∀ L x, x ∈ (execCancel cfg reg s t).items L → (execCancel cfg reg s t).lst x = some L ∧ L ∈ reg ∧ (execCancel cfg reg s t).par x ≠ none := by
  have g0 := hS.itemsOk
  have g1 := hS.itemsNodup
  have g2 := hS.bindReg
  have g2t := hS.bindReg t
  have g3 := hS.ownerPar
  have g3t := hS.ownerPar t
  have g4 := hS.preReg
  have g4t := hS.preReg t
  have g5 := hS.desGone
  have g5t := hS.desGone t
  have g6 := hS.createdPar
  unfold execCancel
  try unfold walkNext
  try unfold afterHint
  try unfold applyReset
  repeat' split
  all_goals (try rw [‹s.pc t = _›] at g2t)
  all_goals (try simp [Pc.owner, Pc.registered, Pc.isBind, List.Nodup.mem_erase_iff] at g2t)
  all_goals (try rw [‹s.pc t = _›] at g3t)
  all_goals (try simp [Pc.owner, Pc.registered, Pc.isBind, List.Nodup.mem_erase_iff] at g3t)
  all_goals (try rw [‹s.pc t = _›] at g4t)
  all_goals (try simp [Pc.owner, Pc.registered, Pc.isBind, List.Nodup.mem_erase_iff] at g4t)
  all_goals (try rw [‹s.pc t = _›] at g5t)
  all_goals (try simp [Pc.owner, Pc.registered, Pc.isBind, List.Nodup.mem_erase_iff] at g5t)
  all_goals (intro L x h1; try simp [upd_apply, afterLists, nextList] at h1 ⊢)
  all_goals grind [Pc.owner, Pc.registered, Pc.isBind, List.Nodup.mem_erase_iff]

theorem itemsOk_exec_b (hS : Struct reg s) :
    ∀ L x, x ∈ (execBind cfg s t).items L → (execBind cfg s t).lst x = some L ∧ L ∈ reg ∧ (execBind cfg s t).par x ≠ none := by
  have g0 := hS.itemsOk
  have g1 := hS.itemsNodup
  have g2 := hS.bindReg
  have g2t := hS.bindReg t
  have g3 := hS.ownerPar
  have g3t := hS.ownerPar t
  have g4 := hS.preReg
  have g4t := hS.preReg t
  have g5 := hS.desGone
  have g5t := hS.desGone t
  have g6 := hS.createdPar
  unfold execBind
  try unfold walkNext
  try unfold afterHint
  try unfold applyReset
  repeat' split
  all_goals (try rw [‹s.pc t = _›] at g2t)
  all_goals (try simp [Pc.owner, Pc.registered, Pc.isBind, List.Nodup.mem_erase_iff] at g2t)
  all_goals (try rw [‹s.pc t = _›] at g3t)
  all_goals (try simp [Pc.owner, Pc.registered, Pc.isBind, List.Nodup.mem_erase_iff] at g3t)
  all_goals (try rw [‹s.pc t = _›] at g4t)
  all_goals (try simp [Pc.owner, Pc.registered, Pc.isBind, List.Nodup.mem_erase_iff] at g4t)
  all_goals (try rw [‹s.pc t = _›] at g5t)
  all_goals (try simp [Pc.owner, Pc.registered, Pc.isBind, List.Nodup.mem_erase_iff] at g5t)
  all_goals (intro L x h1; try simp [upd_apply, afterLists, nextList] at h1 ⊢)
  all_goals grind [Pc.owner, Pc.registered, Pc.isBind, List.Nodup.mem_erase_iff]

theorem itemsOk_exec_o (hS : Struct reg s) :
    ∀ L x, x ∈ (execOther s t).items L → (execOther s t).lst x = some L ∧ L ∈ reg ∧ (execOther s t).par x ≠ none := by
  have g0 := hS.itemsOk
  have g1 := hS.itemsNodup
  have g2 := hS.bindReg
  have g2t := hS.bindReg t
  have g3 := hS.ownerPar
  have g3t := hS.ownerPar t
  have g4 := hS.preReg
  have g4t := hS.preReg t
  have g5 := hS.desGone
  have g5t := hS.desGone t
  have g6 := hS.createdPar
  unfold execOther
  try unfold walkNext
  try unfold afterHint
  try unfold applyReset
  repeat' split
  all_goals (try rw [‹s.pc t = _›] at g2t)
  all_goals (try simp [Pc.owner, Pc.registered, Pc.isBind, List.Nodup.mem_erase_iff] at g2t)
  all_goals (try rw [‹s.pc t = _›] at g3t)
  all_goals (try simp [Pc.owner, Pc.registered, Pc.isBind, List.Nodup.mem_erase_iff] at g3t)
  all_goals (try rw [‹s.pc t = _›] at g4t)
  all_goals (try simp [Pc.owner, Pc.registered, Pc.isBind, List.Nodup.mem_erase_iff] at g4t)
  all_goals (try rw [‹s.pc t = _›] at g5t)
  all_goals (try simp [Pc.owner, Pc.registered, Pc.isBind, List.Nodup.mem_erase_iff] at g5t)
  all_goals (intro L x h1; try simp [upd_apply, afterLists, nextList] at h1 ⊢)
  all_goals grind [Pc.owner, Pc.registered, Pc.isBind, List.Nodup.mem_erase_iff]

theorem itemsOk_exec (hS : Struct reg s) :
    ∀ L x, x ∈ (exec cfg reg s t).items L → (exec cfg reg s t).lst x = some L ∧ L ∈ reg ∧ (exec cfg reg s t).par x ≠ none := by
  unfold exec
  split
  · exact itemsOk_exec_c hS
  · split
    · exact itemsOk_exec_b hS
    · exact itemsOk_exec_o hS

theorem itemsOk_begin (hS : Struct reg s) (hi : s.pc t = .idle) :
    ∀ L x, x ∈ (begin cfg reg s t).items L → (begin cfg reg s t).lst x = some L ∧ L ∈ reg ∧ (begin cfg reg s t).par x ≠ none := by
  have g0 := hS.itemsOk
  have g1 := hS.itemsNodup
  have g2 := hS.bindReg
  have g2t := hS.bindReg t
  have g3 := hS.ownerPar
  have g3t := hS.ownerPar t
  have g4 := hS.preReg
  have g4t := hS.preReg t
  have g5 := hS.desGone
  have g5t := hS.desGone t
  have g6 := hS.createdPar
  begin_cases
  all_goals (try rw [hi] at g2t)
  all_goals (try simp [Pc.owner, Pc.registered, Pc.isBind, List.Nodup.mem_erase_iff] at g2t)
  all_goals (try rw [hi] at g3t)
  all_goals (try simp [Pc.owner, Pc.registered, Pc.isBind, List.Nodup.mem_erase_iff] at g3t)
  all_goals (try rw [hi] at g4t)
  all_goals (try simp [Pc.owner, Pc.registered, Pc.isBind, List.Nodup.mem_erase_iff] at g4t)
  all_goals (try rw [hi] at g5t)
  all_goals (try simp [Pc.owner, Pc.registered, Pc.isBind, List.Nodup.mem_erase_iff] at g5t)
  all_goals (intro L x h1; try simp [upd_apply, afterLists, nextList] at h1 ⊢)
  all_goals grind [Pc.owner, Pc.registered, Pc.isBind, List.Nodup.mem_erase_iff]

theorem itemsNodup_exec_c (hS : Struct reg s) :
    ∀ L, ((execCancel cfg reg s t).items L).Nodup := by
  have g0 := hS.itemsOk
  have g1 := hS.itemsNodup
  have g2 := hS.preReg
  have g2t := hS.preReg t
  unfold execCancel
  try unfold walkNext
  try unfold afterHint
  try unfold applyReset
  repeat' split
  all_goals (try rw [‹s.pc t = _›] at g2t)
  all_goals (try simp [Pc.owner, Pc.registered, List.Nodup.erase, List.nodup_cons] at g2t)
  all_goals (intro L; try simp [upd_apply, afterLists, nextList] at  ⊢)
  all_goals grind [Pc.owner, Pc.registered, List.Nodup.erase, List.nodup_cons]

theorem itemsNodup_exec_b (hS : Struct reg s) :
    ∀ L, ((execBind cfg s t).items L).Nodup := by
  have g0 := hS.itemsOk
  have g1 := hS.itemsNodup
  have g2 := hS.preReg
  have g2t := hS.preReg t
  unfold execBind
  try unfold walkNext
  try unfold afterHint
  try unfold applyReset
  repeat' split
  all_goals (try rw [‹s.pc t = _›] at g2t)
  all_goals (try simp [Pc.owner, Pc.registered, List.Nodup.erase, List.nodup_cons] at g2t)
  all_goals (intro L; try simp [upd_apply, afterLists, nextList] at  ⊢)
  all_goals grind [Pc.owner, Pc.registered, List.Nodup.erase, List.nodup_cons]

theorem itemsNodup_exec_o (hS : Struct reg s) :
    ∀ L, ((execOther s t).items L).Nodup := by
  have g0 := hS.itemsOk
  have g1 := hS.itemsNodup
  have g2 := hS.preReg
  have g2t := hS.preReg t
  unfold execOther
  try unfold walkNext
  try unfold afterHint
  try unfold applyReset
  repeat' split
  all_goals (try rw [‹s.pc t = _›] at g2t)
  all_goals (try simp [Pc.owner, Pc.registered, List.Nodup.erase, List.nodup_cons] at g2t)
  all_goals (intro L; try simp [upd_apply, afterLists, nextList] at  ⊢)
  all_goals grind [Pc.owner, Pc.registered, List.Nodup.erase, List.nodup_cons]

theorem itemsNodup_exec (hS : Struct reg s) :
    ∀ L, ((exec cfg reg s t).items L).Nodup := by
  unfold exec
  split
  · exact itemsNodup_exec_c hS
  · split
    · exact itemsNodup_exec_b hS
    · exact itemsNodup_exec_o hS

theorem itemsNodup_begin (hS : Struct reg s) (hi : s.pc t = .idle) :
    ∀ L, ((begin cfg reg s t).items L).Nodup := by
  have g0 := hS.itemsOk
  have g1 := hS.itemsNodup
  have g2 := hS.preReg
  have g2t := hS.preReg t
  begin_cases
  all_goals (try rw [hi] at g2t)
  all_goals (try simp [Pc.owner, Pc.registered, List.Nodup.erase, List.nodup_cons] at g2t)
  all_goals (intro L; try simp [upd_apply, afterLists, nextList] at  ⊢)
  all_goals grind [Pc.owner, Pc.registered, List.Nodup.erase, List.nodup_cons]

theorem preReg_exec_c (hS : Struct reg s) :
    ∀ t' x p, ((execCancel cfg reg s t).pc t').owner = some (x, p) → ((execCancel cfg reg s t).pc t').registered = none → (execCancel cfg reg s t).lst x = none := by
  have g0 := hS.preReg
  have g0t := hS.preReg t
  have g1 := hS.createdLst
  have g2 := hS.ownsUnique
  have g2t := hS.ownsUnique t
  have g3 := hS.ownsSt
  have g3t := hS.ownsSt t
  unfold execCancel
  try unfold walkNext
  try unfold afterHint
  try unfold applyReset
  repeat' split
  all_goals (try rw [‹s.pc t = _›] at g0t)
  all_goals (try simp [Pc.owner, Pc.registered, Pc.owns, Pc.owner_owns] at g0t)
  all_goals (try rw [‹s.pc t = _›] at g2t)
  all_goals (try simp [Pc.owner, Pc.registered, Pc.owns, Pc.owner_owns] at g2t)
  all_goals (try rw [‹s.pc t = _›] at g3t)
  all_goals (try simp [Pc.owner, Pc.registered, Pc.owns, Pc.owner_owns] at g3t)
  all_goals (intro t' x p h1 h2; by_cases ht : t' = t <;> first | (subst ht; try simp [upd_apply, afterLists, nextList, Pc.owner, Pc.registered, Pc.owns, Pc.owner_owns] at h1 h2 ⊢) | (try simp [ht, upd_apply, afterLists, nextList] at h1 h2 ⊢))
  all_goals grind [Pc.owner, Pc.registered, Pc.owns, Pc.owner_owns]

theorem preReg_exec_b (hS : Struct reg s) :
    ∀ t' x p, ((execBind cfg s t).pc t').owner = some (x, p) → ((execBind cfg s t).pc t').registered = none → (execBind cfg s t).lst x = none := by
  have g0 := hS.preReg
  have g0t := hS.preReg t
  have g1 := hS.createdLst
  have g2 := hS.ownsUnique
  have g2t := hS.ownsUnique t
  have g3 := hS.ownsSt
  have g3t := hS.ownsSt t
  unfold execBind
  try unfold walkNext
  try unfold afterHint
  try unfold applyReset
  repeat' split
  all_goals (try rw [‹s.pc t = _›] at g0t)
  all_goals (try simp [Pc.owner, Pc.registered, Pc.owns, Pc.owner_owns] at g0t)
  all_goals (try rw [‹s.pc t = _›] at g2t)
  all_goals (try simp [Pc.owner, Pc.registered, Pc.owns, Pc.owner_owns] at g2t)
  all_goals (try rw [‹s.pc t = _›] at g3t)
  all_goals (try simp [Pc.owner, Pc.registered, Pc.owns, Pc.owner_owns] at g3t)
  all_goals (intro t' x p h1 h2; by_cases ht : t' = t <;> first | (subst ht; try simp [upd_apply, afterLists, nextList, Pc.owner, Pc.registered, Pc.owns, Pc.owner_owns] at h1 h2 ⊢) | (try simp [ht, upd_apply, afterLists, nextList] at h1 h2 ⊢))
  all_goals grind [Pc.owner, Pc.registered, Pc.owns, Pc.owner_owns]

theorem preReg_exec_o (hS : Struct reg s) :
    ∀ t' x p, ((execOther s t).pc t').owner = some (x, p) → ((execOther s t).pc t').registered = none → (execOther s t).lst x = none := by
  have g0 := hS.preReg
  have g0t := hS.preReg t
  have g1 := hS.createdLst
  have g2 := hS.ownsUnique
  have g2t := hS.ownsUnique t
  have g3 := hS.ownsSt
  have g3t := hS.ownsSt t
  unfold execOther
  try unfold walkNext
  try unfold afterHint
  try unfold applyReset
  repeat' split
  all_goals (try rw [‹s.pc t = _›] at g0t)
  all_goals (try simp [Pc.owner, Pc.registered, Pc.owns, Pc.owner_owns] at g0t)
  all_goals (try rw [‹s.pc t = _›] at g2t)
  all_goals (try simp [Pc.owner, Pc.registered, Pc.owns, Pc.owner_owns] at g2t)
  all_goals (try rw [‹s.pc t = _›] at g3t)
  all_goals (try simp [Pc.owner, Pc.registered, Pc.owns, Pc.owner_owns] at g3t)
  all_goals (intro t' x p h1 h2; by_cases ht : t' = t <;> first | (subst ht; try simp [upd_apply, afterLists, nextList, Pc.owner, Pc.registered, Pc.owns, Pc.owner_owns] at h1 h2 ⊢) | (try simp [ht, upd_apply, afterLists, nextList] at h1 h2 ⊢))
  all_goals grind [Pc.owner, Pc.registered, Pc.owns, Pc.owner_owns]

theorem preReg_exec (hS : Struct reg s) :
    ∀ t' x p, ((exec cfg reg s t).pc t').owner = some (x, p) → ((exec cfg reg s t).pc t').registered = none → (exec cfg reg s t).lst x = none := by
  unfold exec
  split
  · exact preReg_exec_c hS
  · split
    · exact preReg_exec_b hS
    · exact preReg_exec_o hS

theorem preReg_begin (hS : Struct reg s) (hi : s.pc t = .idle) :
    ∀ t' x p, ((begin cfg reg s t).pc t').owner = some (x, p) → ((begin cfg reg s t).pc t').registered = none → (begin cfg reg s t).lst x = none := by
  have g0 := hS.preReg
  have g0t := hS.preReg t
  have g1 := hS.createdLst
  have g2 := hS.ownsUnique
  have g2t := hS.ownsUnique t
  have g3 := hS.ownsSt
  have g3t := hS.ownsSt t
  begin_cases
  all_goals (try rw [hi] at g0t)
  all_goals (try simp [Pc.owner, Pc.registered, Pc.owns, Pc.owner_owns] at g0t)
  all_goals (try rw [hi] at g2t)
  all_goals (try simp [Pc.owner, Pc.registered, Pc.owns, Pc.owner_owns] at g2t)
  all_goals (try rw [hi] at g3t)
  all_goals (try simp [Pc.owner, Pc.registered, Pc.owns, Pc.owner_owns] at g3t)
  all_goals (intro t' x p h1 h2; by_cases ht : t' = t <;> first | (subst ht; try simp [upd_apply, afterLists, nextList, Pc.owner, Pc.registered, Pc.owns, Pc.owner_owns] at h1 h2 ⊢) | (try simp [ht, upd_apply, afterLists, nextList] at h1 h2 ⊢))
  all_goals grind [Pc.owner, Pc.registered, Pc.owns, Pc.owner_owns]

theorem desGone_exec_c (hS : Struct reg s) :
    ∀ t' x L, (execCancel cfg reg s t).pc t' = .dUnlock x → x ∉ (execCancel cfg reg s t).items L := by
  have g0 := hS.desGone
  have g0t := hS.desGone t
  have g1 := hS.itemsOk
  have g2 := hS.itemsNodup
  have g3 := hS.dyingOk
  have g3t := hS.dyingOk t
  have g4 := hS.bindNotDying
  have g4t := hS.bindNotDying t
  unfold execCancel
  try unfold walkNext
  try unfold afterHint
  try unfold applyReset
  repeat' split
  all_goals (try rw [‹s.pc t = _›] at g0t)
  all_goals (try simp [Pc.destroying, Pc.bindTarget, List.Nodup.mem_erase_iff] at g0t)
  all_goals (try rw [‹s.pc t = _›] at g3t)
  all_goals (try simp [Pc.destroying, Pc.bindTarget, List.Nodup.mem_erase_iff] at g3t)
  all_goals (try rw [‹s.pc t = _›] at g4t)
  all_goals (try simp [Pc.destroying, Pc.bindTarget, List.Nodup.mem_erase_iff] at g4t)
  all_goals (intro t' x L h1; by_cases ht : t' = t <;> first | (subst ht; try simp [upd_apply, afterLists, nextList, Pc.destroying, Pc.bindTarget, List.Nodup.mem_erase_iff] at h1 ⊢) | (try simp [ht, upd_apply, afterLists, nextList] at h1 ⊢))
  all_goals grind [Pc.destroying, Pc.bindTarget, List.Nodup.mem_erase_iff]

theorem desGone_exec_b (hS : Struct reg s) :
    ∀ t' x L, (execBind cfg s t).pc t' = .dUnlock x → x ∉ (execBind cfg s t).items L := by
  have g0 := hS.desGone
  have g0t := hS.desGone t
  have g1 := hS.itemsOk
  have g2 := hS.itemsNodup
  have g3 := hS.dyingOk
  have g3t := hS.dyingOk t
  have g4 := hS.bindNotDying
  have g4t := hS.bindNotDying t
  unfold execBind
  try unfold walkNext
  try unfold afterHint
  try unfold applyReset
  repeat' split
  all_goals (try rw [‹s.pc t = _›] at g0t)
  all_goals (try simp [Pc.destroying, Pc.bindTarget, List.Nodup.mem_erase_iff] at g0t)
  all_goals (try rw [‹s.pc t = _›] at g3t)
  all_goals (try simp [Pc.destroying, Pc.bindTarget, List.Nodup.mem_erase_iff] at g3t)
  all_goals (try rw [‹s.pc t = _›] at g4t)
  all_goals (try simp [Pc.destroying, Pc.bindTarget, List.Nodup.mem_erase_iff] at g4t)
  all_goals (intro t' x L h1; by_cases ht : t' = t <;> first | (subst ht; try simp [upd_apply, afterLists, nextList, Pc.destroying, Pc.bindTarget, List.Nodup.mem_erase_iff] at h1 ⊢) | (try simp [ht, upd_apply, afterLists, nextList] at h1 ⊢))
  all_goals grind [Pc.destroying, Pc.bindTarget, List.Nodup.mem_erase_iff]

theorem desGone_exec_o (hS : Struct reg s) :
    ∀ t' x L, (execOther s t).pc t' = .dUnlock x → x ∉ (execOther s t).items L := by
  have g0 := hS.desGone
  have g0t := hS.desGone t
  have g1 := hS.itemsOk
  have g2 := hS.itemsNodup
  have g3 := hS.dyingOk
  have g3t := hS.dyingOk t
  have g4 := hS.bindNotDying
  have g4t := hS.bindNotDying t
  unfold execOther
  try unfold walkNext
  try unfold afterHint
  try unfold applyReset
  repeat' split
  all_goals (try rw [‹s.pc t = _›] at g0t)
  all_goals (try simp [Pc.destroying, Pc.bindTarget, List.Nodup.mem_erase_iff] at g0t)
  all_goals (try rw [‹s.pc t = _›] at g3t)
  all_goals (try simp [Pc.destroying, Pc.bindTarget, List.Nodup.mem_erase_iff] at g3t)
  all_goals (try rw [‹s.pc t = _›] at g4t)
  all_goals (try simp [Pc.destroying, Pc.bindTarget, List.Nodup.mem_erase_iff] at g4t)
  all_goals (intro t' x L h1; by_cases ht : t' = t <;> first | (subst ht; try simp [upd_apply, afterLists, nextList, Pc.destroying, Pc.bindTarget, List.Nodup.mem_erase_iff] at h1 ⊢) | (try simp [ht, upd_apply, afterLists, nextList] at h1 ⊢))
  all_goals grind [Pc.destroying, Pc.bindTarget, List.Nodup.mem_erase_iff]

theorem desGone_exec (hS : Struct reg s) :
    ∀ t' x L, (exec cfg reg s t).pc t' = .dUnlock x → x ∉ (exec cfg reg s t).items L := by
  unfold exec
  split
  · exact desGone_exec_c hS
  · split
    · exact desGone_exec_b hS
    · exact desGone_exec_o hS

theorem desGone_begin (hS : Struct reg s) (hi : s.pc t = .idle) :
    ∀ t' x L, (begin cfg reg s t).pc t' = .dUnlock x → x ∉ (begin cfg reg s t).items L := by
  have g0 := hS.desGone
  have g0t := hS.desGone t
  have g1 := hS.itemsOk
  have g2 := hS.itemsNodup
  have g3 := hS.dyingOk
  have g3t := hS.dyingOk t
  have g4 := hS.bindNotDying
  have g4t := hS.bindNotDying t
  begin_cases
  all_goals (try rw [hi] at g0t)
  all_goals (try simp [Pc.destroying, Pc.bindTarget, List.Nodup.mem_erase_iff] at g0t)
  all_goals (try rw [hi] at g3t)
  all_goals (try simp [Pc.destroying, Pc.bindTarget, List.Nodup.mem_erase_iff] at g3t)
  all_goals (try rw [hi] at g4t)
  all_goals (try simp [Pc.destroying, Pc.bindTarget, List.Nodup.mem_erase_iff] at g4t)
  all_goals (intro t' x L h1; by_cases ht : t' = t <;> first | (subst ht; try simp [upd_apply, afterLists, nextList, Pc.destroying, Pc.bindTarget, List.Nodup.mem_erase_iff] at h1 ⊢) | (try simp [ht, upd_apply, afterLists, nextList] at h1 ⊢))
  all_goals grind [Pc.destroying, Pc.bindTarget, List.Nodup.mem_erase_iff]

theorem createdPar_exec_c (hS : Struct reg s) :
    ∀ x, (execCancel cfg reg s t).cst x = .created → (execCancel cfg reg s t).par x = none := by
  have g0 := hS.createdPar
  unfold execCancel
  try unfold walkNext
  try unfold afterHint
  try unfold applyReset
  repeat' split
  all_goals (intro x h1; try simp [upd_apply, afterLists, nextList] at h1 ⊢)
  all_goals grind [Pc.owns]

theorem createdPar_exec_b (hS : Struct reg s) :
    ∀ x, (execBind cfg s t).cst x = .created → (execBind cfg s t).par x = none := by
  have g0 := hS.createdPar
  unfold execBind
  try unfold walkNext
  try unfold afterHint
  try unfold applyReset
  repeat' split
  all_goals (intro x h1; try simp [upd_apply, afterLists, nextList] at h1 ⊢)
  all_goals grind [Pc.owns]

theorem createdPar_exec_o (hS : Struct reg s) :
    ∀ x, (execOther s t).cst x = .created → (execOther s t).par x = none := by
  have g0 := hS.createdPar
  unfold execOther
  try unfold walkNext
  try unfold afterHint
  try unfold applyReset
  repeat' split
  all_goals (intro x h1; try simp [upd_apply, afterLists, nextList] at h1 ⊢)
  all_goals grind [Pc.owns]

theorem createdPar_exec (hS : Struct reg s) :
    ∀ x, (exec cfg reg s t).cst x = .created → (exec cfg reg s t).par x = none := by
  unfold exec
  split
  · exact createdPar_exec_c hS
  · split
    · exact createdPar_exec_b hS
    · exact createdPar_exec_o hS

theorem createdPar_begin (hS : Struct reg s) (hi : s.pc t = .idle) :
    ∀ x, (begin cfg reg s t).cst x = .created → (begin cfg reg s t).par x = none := by
  have g0 := hS.createdPar
  begin_cases
  all_goals (intro x h1; try simp [upd_apply, afterLists, nextList] at h1 ⊢)
  all_goals grind [Pc.owns]

end TbbVerif.C04
