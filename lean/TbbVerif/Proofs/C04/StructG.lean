/-
C04 proofs — structural invariants (dyingSt): preservation by `exec` and `begin`.
-/
import TbbVerif.Proofs.C04.StructF

namespace TbbVerif.C04
variable {cfg : Cfg} {reg : List Nat} {s : St} {t : Nat}

theorem dyingSt_exec (hS : Struct reg s) :
    ∀ x, (exec cfg reg s t).dying x = true → (exec cfg reg s t).cst x = .dead ∨ ∃ t', ((exec cfg reg s t).pc t').destroying = some x := by
  have g0 := hS.dyingSt
  have g1 := hS.dyingOk
  have g1t := hS.dyingOk t
  have g2 := hS.bindNotDying
  have g2t := hS.bindNotDying t
  have g3 := hS.ownsSt
  have g3t := hS.ownsSt t
  exec_cases
  all_goals (try rw [‹s.pc t = _›] at g1t)
  all_goals (try simp [Pc.destroying, Pc.owns, Pc.owns_bindTarget] at g1t)
  all_goals (try rw [‹s.pc t = _›] at g2t)
  all_goals (try simp [Pc.destroying, Pc.owns, Pc.owns_bindTarget] at g2t)
  all_goals (try rw [‹s.pc t = _›] at g3t)
  all_goals (try simp [Pc.destroying, Pc.owns, Pc.owns_bindTarget] at g3t)
  all_goals (intro x h1; try simp [upd_apply, afterLists, nextList] at h1 ⊢)
  all_goals grind [Pc.destroying, Pc.owns, Pc.owns_bindTarget]

theorem dyingSt_begin (hS : Struct reg s) (hi : s.pc t = .idle) :
    ∀ x, (begin reg s t).dying x = true → (begin reg s t).cst x = .dead ∨ ∃ t', ((begin reg s t).pc t').destroying = some x := by
  have g0 := hS.dyingSt
  have g1 := hS.dyingOk
  have g1t := hS.dyingOk t
  have g2 := hS.bindNotDying
  have g2t := hS.bindNotDying t
  have g3 := hS.ownsSt
  have g3t := hS.ownsSt t
  begin_cases
  all_goals (try rw [hi] at g1t)
  all_goals (try simp [Pc.destroying, Pc.owns, Pc.owns_bindTarget] at g1t)
  all_goals (try rw [hi] at g2t)
  all_goals (try simp [Pc.destroying, Pc.owns, Pc.owns_bindTarget] at g2t)
  all_goals (try rw [hi] at g3t)
  all_goals (try simp [Pc.destroying, Pc.owns, Pc.owns_bindTarget] at g3t)
  all_goals (intro x h1; try simp [upd_apply, afterLists, nextList] at h1 ⊢)
  all_goals grind [Pc.destroying, Pc.owns, Pc.owns_bindTarget]

end TbbVerif.C04
