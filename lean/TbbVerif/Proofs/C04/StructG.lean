/-
C04 proofs — structural invariants (dyingSt, walkAct, notWasEmpty, ocItems): preservation by `exec` and `begin`.
-/
import TbbVerif.Proofs.C04.StructF

namespace TbbVerif.C04
variable {cfg : Cfg} {r : List RF} {reg : List Nat} {s : St} {t : Nat}

theorem dyingSt_exec_c (hS : Struct reg s) :
    ∀ x, (execCancel cfg reg s t).dying x = true → (execCancel cfg reg s t).cst x = .dead ∨ ∃ t', ((execCancel cfg reg s t).pc t').destroying = some x := by
  have g0 := hS.dyingSt
  have g1 := hS.dyingOk
  have g1t := hS.dyingOk t
  have g2 := hS.bindNotDying
  have g2t := hS.bindNotDying t
  have g3 := hS.ownsSt
  have g3t := hS.ownsSt t
  unfold execCancel
  try unfold walkNext
  try unfold afterHint
  try unfold applyReset
  repeat' split
  all_goals (try rw [‹s.pc t = _›] at g1t)
  all_goals (try simp [Pc.destroying, Pc.owns, Pc.owns_bindTarget] at g1t)
  all_goals (try rw [‹s.pc t = _›] at g2t)
  all_goals (try simp [Pc.destroying, Pc.owns, Pc.owns_bindTarget] at g2t)
  all_goals (try rw [‹s.pc t = _›] at g3t)
  all_goals (try simp [Pc.destroying, Pc.owns, Pc.owns_bindTarget] at g3t)
  all_goals (intro x h1; try simp [upd_apply, afterLists, nextList] at h1 ⊢)
  all_goals grind [Pc.destroying, Pc.owns, Pc.owns_bindTarget]

theorem dyingSt_exec_b (hS : Struct reg s) :
    ∀ x, (execBind cfg s t).dying x = true → (execBind cfg s t).cst x = .dead ∨ ∃ t', ((execBind cfg s t).pc t').destroying = some x := by
  have g0 := hS.dyingSt
  have g1 := hS.dyingOk
  have g1t := hS.dyingOk t
  have g2 := hS.bindNotDying
  have g2t := hS.bindNotDying t
  have g3 := hS.ownsSt
  have g3t := hS.ownsSt t
  unfold execBind
  try unfold walkNext
  try unfold afterHint
  try unfold applyReset
  repeat' split
  all_goals (try rw [‹s.pc t = _›] at g1t)
  all_goals (try simp [Pc.destroying, Pc.owns, Pc.owns_bindTarget] at g1t)
  all_goals (try rw [‹s.pc t = _›] at g2t)
  all_goals (try simp [Pc.destroying, Pc.owns, Pc.owns_bindTarget] at g2t)
  all_goals (try rw [‹s.pc t = _›] at g3t)
  all_goals (try simp [Pc.destroying, Pc.owns, Pc.owns_bindTarget] at g3t)
  all_goals (intro x h1; try simp [upd_apply, afterLists, nextList] at h1 ⊢)
  all_goals grind [Pc.destroying, Pc.owns, Pc.owns_bindTarget]

theorem dyingSt_exec_o (hS : Struct reg s) :
    ∀ x, (execOther s t).dying x = true → (execOther s t).cst x = .dead ∨ ∃ t', ((execOther s t).pc t').destroying = some x := by
  have g0 := hS.dyingSt
  have g1 := hS.dyingOk
  have g1t := hS.dyingOk t
  have g2 := hS.bindNotDying
  have g2t := hS.bindNotDying t
  have g3 := hS.ownsSt
  have g3t := hS.ownsSt t
  unfold execOther
  try unfold walkNext
  try unfold afterHint
  try unfold applyReset
  repeat' split
  all_goals (try rw [‹s.pc t = _›] at g1t)
  all_goals (try simp [Pc.destroying, Pc.owns, Pc.owns_bindTarget] at g1t)
  all_goals (try rw [‹s.pc t = _›] at g2t)
  all_goals (try simp [Pc.destroying, Pc.owns, Pc.owns_bindTarget] at g2t)
  all_goals (try rw [‹s.pc t = _›] at g3t)
  all_goals (try simp [Pc.destroying, Pc.owns, Pc.owns_bindTarget] at g3t)
  all_goals (intro x h1; try simp [upd_apply, afterLists, nextList] at h1 ⊢)
  all_goals grind [Pc.destroying, Pc.owns, Pc.owns_bindTarget]

theorem dyingSt_exec (hS : Struct reg s) :
    ∀ x, (exec cfg reg s t).dying x = true → (exec cfg reg s t).cst x = .dead ∨ ∃ t', ((exec cfg reg s t).pc t').destroying = some x := by
  unfold exec
  split
  · exact dyingSt_exec_c hS
  · split
    · exact dyingSt_exec_b hS
    · exact dyingSt_exec_o hS

theorem dyingSt_begin (hS : Struct reg s) (hi : s.pc t = .idle) :
    ∀ x, (begin cfg reg s t).dying x = true → (begin cfg reg s t).cst x = .dead ∨ ∃ t', ((begin cfg reg s t).pc t').destroying = some x := by
  have g0 := hS.dyingSt
  have g1 := hS.dyingOk
  have g1t := hS.dyingOk t
  have g2 := hS.bindNotDying
  have g2t := hS.bindNotDying t
  have g3 := hS.ownsSt
  have g3t := hS.ownsSt t
  begin_cases
  all_goals (try rw [hi] at g1t)
  all_goals (try simp [Pc.destroying, Pc.owns, Pc.owns_bindTarget] at g1t)
  all_goals (try rw [hi] at g2t)
  all_goals (try simp [Pc.destroying, Pc.owns, Pc.owns_bindTarget] at g2t)
  all_goals (try rw [hi] at g3t)
  all_goals (try simp [Pc.destroying, Pc.owns, Pc.owns_bindTarget] at g3t)
  all_goals (intro x h1; try simp [upd_apply, afterLists, nextList] at h1 ⊢)
  all_goals grind [Pc.destroying, Pc.owns, Pc.owns_bindTarget]

theorem walkAct_exec_c (hS : Struct reg s) :
    ∀ t' i L, ((execCancel cfg reg s t).pc t').atList = some i → reg[i]? = some L → (execCancel cfg reg s t).act L = true := by
  have g0 := hS.walkAct
  have g0t := hS.walkAct t
  have g1 := hS.regMx
  have g1t := hS.regMx t
  unfold execCancel
  try unfold walkNext
  try unfold afterHint
  try unfold applyReset
  repeat' split
  all_goals (try rw [‹s.pc t = _›] at g0t)
  all_goals (try simp [Pc.inReg] at g0t)
  all_goals (try rw [‹s.pc t = _›] at g1t)
  all_goals (try simp [Pc.inReg] at g1t)
  all_goals (intro t' i L h1 h2; by_cases ht : t' = t <;> first | (subst ht; try simp [upd_apply, afterLists, Pc.inReg] at h1 h2 ⊢) | (try simp [ht, upd_apply, afterLists] at h1 h2 ⊢))
  all_goals grind [Pc.inReg , Pc.atList, → nextList_atList, → Pc.atList_inReg]

theorem walkAct_exec_b (hS : Struct reg s) :
    ∀ t' i L, ((execBind cfg s t).pc t').atList = some i → reg[i]? = some L → (execBind cfg s t).act L = true := by
  have g0 := hS.walkAct
  have g0t := hS.walkAct t
  have g1 := hS.regMx
  have g1t := hS.regMx t
  unfold execBind
  try unfold walkNext
  try unfold afterHint
  try unfold applyReset
  repeat' split
  all_goals (try rw [‹s.pc t = _›] at g0t)
  all_goals (try simp [Pc.inReg] at g0t)
  all_goals (try rw [‹s.pc t = _›] at g1t)
  all_goals (try simp [Pc.inReg] at g1t)
  all_goals (intro t' i L h1 h2; by_cases ht : t' = t <;> first | (subst ht; try simp [upd_apply, afterLists, Pc.inReg] at h1 h2 ⊢) | (try simp [ht, upd_apply, afterLists] at h1 h2 ⊢))
  all_goals grind [Pc.inReg , Pc.atList, → nextList_atList, → Pc.atList_inReg]

theorem walkAct_exec_o (hS : Struct reg s) :
    ∀ t' i L, ((execOther s t).pc t').atList = some i → reg[i]? = some L → (execOther s t).act L = true := by
  have g0 := hS.walkAct
  have g0t := hS.walkAct t
  have g1 := hS.regMx
  have g1t := hS.regMx t
  unfold execOther
  try unfold walkNext
  try unfold afterHint
  try unfold applyReset
  repeat' split
  all_goals (try rw [‹s.pc t = _›] at g0t)
  all_goals (try simp [Pc.inReg] at g0t)
  all_goals (try rw [‹s.pc t = _›] at g1t)
  all_goals (try simp [Pc.inReg] at g1t)
  all_goals (intro t' i L h1 h2; by_cases ht : t' = t <;> first | (subst ht; try simp [upd_apply, afterLists, Pc.inReg] at h1 h2 ⊢) | (try simp [ht, upd_apply, afterLists] at h1 h2 ⊢))
  all_goals grind [Pc.inReg , Pc.atList, → nextList_atList, → Pc.atList_inReg]

theorem walkAct_exec (hS : Struct reg s) :
    ∀ t' i L, ((exec cfg reg s t).pc t').atList = some i → reg[i]? = some L → (exec cfg reg s t).act L = true := by
  unfold exec
  split
  · exact walkAct_exec_c hS
  · split
    · exact walkAct_exec_b hS
    · exact walkAct_exec_o hS

theorem walkAct_begin (hS : Struct reg s) (hi : s.pc t = .idle) :
    ∀ t' i L, ((begin cfg reg s t).pc t').atList = some i → reg[i]? = some L → (begin cfg reg s t).act L = true := by
  have g0 := hS.walkAct
  have g0t := hS.walkAct t
  have g1 := hS.regMx
  have g1t := hS.regMx t
  begin_cases
  all_goals (try rw [hi] at g0t)
  all_goals (try simp [Pc.inReg] at g0t)
  all_goals (try rw [hi] at g1t)
  all_goals (try simp [Pc.inReg] at g1t)
  all_goals (intro t' i L h1 h2; by_cases ht : t' = t <;> first | (subst ht; try simp [upd_apply, afterLists, Pc.inReg] at h1 h2 ⊢) | (try simp [ht, upd_apply, afterLists] at h1 h2 ⊢))
  all_goals grind [Pc.inReg , Pc.atList, → nextList_atList, → Pc.atList_inReg]

theorem notWasEmpty_exec_c (hS : Struct reg s) :
    ∀ L, (execCancel cfg reg s t).wasReg L = false → (execCancel cfg reg s t).items L = [] := by
  have g0 := hS.notWasEmpty
  have g1 := hS.bindAct
  have g1t := hS.bindAct t
  have g2 := hS.actWas
  have g3 := hS.regPc
  have g3t := hS.regPc t
  unfold execCancel
  try unfold walkNext
  try unfold afterHint
  try unfold applyReset
  repeat' split
  all_goals (try rw [‹s.pc t = _›] at g1t)
  all_goals (try simp [Pc.isBind] at g1t)
  all_goals (try rw [‹s.pc t = _›] at g3t)
  all_goals (try simp [Pc.isBind] at g3t)
  all_goals (intro L h1; try simp [upd_apply, afterLists, nextList] at h1 ⊢)
  all_goals grind [Pc.isBind]

theorem notWasEmpty_exec_b (hS : Struct reg s) :
    ∀ L, (execBind cfg s t).wasReg L = false → (execBind cfg s t).items L = [] := by
  have g0 := hS.notWasEmpty
  have g1 := hS.bindAct
  have g1t := hS.bindAct t
  have g2 := hS.actWas
  have g3 := hS.regPc
  have g3t := hS.regPc t
  unfold execBind
  try unfold walkNext
  try unfold afterHint
  try unfold applyReset
  repeat' split
  all_goals (try rw [‹s.pc t = _›] at g1t)
  all_goals (try simp [Pc.isBind] at g1t)
  all_goals (try rw [‹s.pc t = _›] at g3t)
  all_goals (try simp [Pc.isBind] at g3t)
  all_goals (intro L h1; try simp [upd_apply, afterLists, nextList] at h1 ⊢)
  all_goals grind [Pc.isBind]

theorem notWasEmpty_exec_o (hS : Struct reg s) :
    ∀ L, (execOther s t).wasReg L = false → (execOther s t).items L = [] := by
  have g0 := hS.notWasEmpty
  have g1 := hS.bindAct
  have g1t := hS.bindAct t
  have g2 := hS.actWas
  have g3 := hS.regPc
  have g3t := hS.regPc t
  unfold execOther
  try unfold walkNext
  try unfold afterHint
  try unfold applyReset
  repeat' split
  all_goals (try rw [‹s.pc t = _›] at g1t)
  all_goals (try simp [Pc.isBind] at g1t)
  all_goals (try rw [‹s.pc t = _›] at g3t)
  all_goals (try simp [Pc.isBind] at g3t)
  all_goals (intro L h1; try simp [upd_apply, afterLists, nextList] at h1 ⊢)
  all_goals grind [Pc.isBind]

theorem notWasEmpty_exec (hS : Struct reg s) :
    ∀ L, (exec cfg reg s t).wasReg L = false → (exec cfg reg s t).items L = [] := by
  unfold exec
  split
  · exact notWasEmpty_exec_c hS
  · split
    · exact notWasEmpty_exec_b hS
    · exact notWasEmpty_exec_o hS

theorem notWasEmpty_begin (hS : Struct reg s) (hi : s.pc t = .idle) :
    ∀ L, (begin cfg reg s t).wasReg L = false → (begin cfg reg s t).items L = [] := by
  have g0 := hS.notWasEmpty
  have g1 := hS.bindAct
  have g1t := hS.bindAct t
  have g2 := hS.actWas
  have g3 := hS.regPc
  have g3t := hS.regPc t
  begin_cases
  all_goals (try rw [hi] at g1t)
  all_goals (try simp [Pc.isBind] at g1t)
  all_goals (try rw [hi] at g3t)
  all_goals (try simp [Pc.isBind] at g3t)
  all_goals (intro L h1; try simp [upd_apply, afterLists, nextList] at h1 ⊢)
  all_goals grind [Pc.isBind]

theorem ocItems_exec_c (hS : Struct reg s) :
    ∀ L x, x ∈ (execCancel cfg reg s t).items L → (execCancel cfg reg s t).act L = false → (execCancel cfg reg s t).oc x = true := by
  have g0 := hS.ocItems
  have g1 := hS.bindAct
  have g1t := hS.bindAct t
  unfold execCancel
  try unfold walkNext
  try unfold afterHint
  try unfold applyReset
  repeat' split
  all_goals (try rw [‹s.pc t = _›] at g1t)
  all_goals (try simp [Pc.isBind, List.mem_cons, List.mem_of_mem_erase] at g1t)
  all_goals (intro L x h1 h2; try simp [upd_apply, afterLists, nextList] at h1 h2 ⊢)
  all_goals grind [Pc.isBind, List.mem_cons, List.mem_of_mem_erase]

theorem ocItems_exec_b (hS : Struct reg s) :
    ∀ L x, x ∈ (execBind cfg s t).items L → (execBind cfg s t).act L = false → (execBind cfg s t).oc x = true := by
  have g0 := hS.ocItems
  have g1 := hS.bindAct
  have g1t := hS.bindAct t
  unfold execBind
  try unfold walkNext
  try unfold afterHint
  try unfold applyReset
  repeat' split
  all_goals (try rw [‹s.pc t = _›] at g1t)
  all_goals (try simp [Pc.isBind, List.mem_cons, List.mem_of_mem_erase] at g1t)
  all_goals (intro L x h1 h2; try simp [upd_apply, afterLists, nextList] at h1 h2 ⊢)
  all_goals grind [Pc.isBind, List.mem_cons, List.mem_of_mem_erase]

theorem ocItems_exec_o (hS : Struct reg s) :
    ∀ L x, x ∈ (execOther s t).items L → (execOther s t).act L = false → (execOther s t).oc x = true := by
  have g0 := hS.ocItems
  have g1 := hS.bindAct
  have g1t := hS.bindAct t
  unfold execOther
  try unfold walkNext
  try unfold afterHint
  try unfold applyReset
  repeat' split
  all_goals (try rw [‹s.pc t = _›] at g1t)
  all_goals (try simp [Pc.isBind, List.mem_cons, List.mem_of_mem_erase] at g1t)
  all_goals (intro L x h1 h2; try simp [upd_apply, afterLists, nextList] at h1 h2 ⊢)
  all_goals grind [Pc.isBind, List.mem_cons, List.mem_of_mem_erase]

theorem ocItems_exec (hS : Struct reg s) :
    ∀ L x, x ∈ (exec cfg reg s t).items L → (exec cfg reg s t).act L = false → (exec cfg reg s t).oc x = true := by
  unfold exec
  split
  · exact ocItems_exec_c hS
  · split
    · exact ocItems_exec_b hS
    · exact ocItems_exec_o hS

theorem ocItems_begin (hS : Struct reg s) (hi : s.pc t = .idle) :
    ∀ L x, x ∈ (begin cfg reg s t).items L → (begin cfg reg s t).act L = false → (begin cfg reg s t).oc x = true := by
  have g0 := hS.ocItems
  have g1 := hS.bindAct
  have g1t := hS.bindAct t
  begin_cases
  all_goals (try rw [hi] at g1t)
  all_goals (try simp [Pc.isBind, List.mem_cons, List.mem_of_mem_erase] at g1t)
  all_goals (intro L x h1 h2; try simp [upd_apply, afterLists, nextList] at h1 h2 ⊢)
  all_goals grind [Pc.isBind, List.mem_cons, List.mem_of_mem_erase]

end TbbVerif.C04
