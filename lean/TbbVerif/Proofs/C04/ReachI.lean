/-
C04 proofs — P1 (`Reach.listed`) is preserved by every access of the repaired protocol.
-/
import TbbVerif.Proofs.C04.ReachH

namespace TbbVerif.C04
variable {reg : List Nat} {s : St} {t : Nat}

/-- F2b: what "a source has passed list L" after a step means before the step: it had passed already, or the step is the
hint-skip of that source (its hint is clear), or the step is the epoch sync of L by the current propagation. -/
theorem passed_step_back (hR : Reach reg s) {L a : Nat}
    (h : PassedUpTo (exec C reg s t).skip (exec C reg s t).srcOf ((exec C reg s t).epoch L) a) :
    PassedUpTo s.skip s.srcOf (s.epoch L) a ∨ s.mhc a = false ∨
      (∃ i, (s.pc t).syncing = some i ∧ reg[i]? = some L ∧ PassedUpTo s.skip s.srcOf s.G a) := by
  have g0 := hR.epochLe L
  have g1 := hR.syncG t
  revert h
  exec_cases_C
  all_goals (try rw [‹s.pc t = _›] at g1)
  all_goals (try simp at g1)
  all_goals (intro h; try simp [upd_apply, Pc.syncing] at h ⊢)
  all_goals grind [→ passed_below_bump, passed_upd_skip]

/-- F5: the stepping binder's pending re-copy stays pending, or it has just stored "cancelled", or it has just read
"not cancelled" from a parent whose flag was final for everything that had passed. -/
theorem cover_self (hS : Struct reg s) (hR : Reach reg s) {x : Nat} (h : (s.pc t).coverOf s.G = some x) :
    ((exec C reg s t).pc t).coverOf (exec C reg s t).G = some x ∨ (exec C reg s t).can x = true ∨
      (∀ a, PassedUpTo s.skip s.srcOf s.G a → ¬ Anc s.par x a) := by
  have g0 := hR.copyTrue t
  have l0 := @fb_establish reg s hS hR t
  have l1 := @root_establish reg s hS hR t
  revert h
  exec_cases_C
  all_goals (try rw [‹s.pc t = _›] at g0)
  all_goals (try simp [Pc.copyVal] at g0)
  all_goals (intro h; try simp [upd_apply, Pc.coverOf] at h ⊢)
  all_goals grind [Pc.coverOf]

theorem pushing_eq {pc : Pc} {x : Nat} (h : pc.pushing = some x) : ∃ p sn, pc = .bRegL x p sn := by
  cases pc <;> simp [Pc.pushing] at h
  rename_i x' p sn
  exact ⟨p, sn, by rw [h]⟩

/-- F6: right after push_front the new context is covered, or the speculative copy already accounts for every
propagation that has passed the binder's own list -/
theorem push_covered (hR : Reach reg s) {x : Nat} (hp : (s.pc t).pushing = some x) (hf : s.lmx t = none) :
    ((exec C reg s t).pc t).coverOf (exec C reg s t).G = some x ∨
      (∀ a, PassedUpTo s.skip s.srcOf (s.epoch t) a → Anc s.par x a → s.can x = true) := by
  obtain ⟨p, sn, hpc⟩ := pushing_eq hp
  have hpc' : ((exec C reg s t).pc t) = .bRegU x p sn ∧ (exec C reg s t).G = s.G := by
    unfold exec execBind
    simp [hpc, Pc.isCancel, Pc.isBind, hf]
  rw [hpc'.1, hpc'.2]
  cases sn with
  | none => exact Or.inl rfl
  | some n =>
    by_cases hn : n < s.G
    · exact Or.inl (by simp [Pc.coverOf, hn])
    · refine Or.inr (fun a hpa ha => hR.spec t x n a (by rw [hpc]; rfl) (passed_mono ?_ hpa) ha)
      have := hR.epochLe t
      omega

end TbbVerif.C04
