/-
C04 proofs — P1 (`Reach.listed`) is preserved by every access of the repaired protocol: the step-specific facts.
-/
import TbbVerif.Proofs.C04.ReachH

namespace TbbVerif.C04
variable {r : List RF} {reg : List Nat} {s : St} {t : Nat}

/-- F2b: what "the cancellation (a, m) has passed list L" after a step means before the step: it had passed already, or
the step is the hint-skip of `a` (its hint is clear), or the step is the epoch sync of L by the current propagation, or the
step is the registration of thread L (whose list is empty). -/
theorem passed_step_back (hR : Reach reg s) {L a m : Nat}
    (h : Passed (exec (C r) reg s t).skipSt (exec (C r) reg s t).srcOf (exec (C r) reg s t).pst
      ((exec (C r) reg s t).eff L) a m) :
    Passed s.skipSt s.srcOf s.pst (s.eff L) a m ∨ s.mhc a = false ∨
      (∃ i, (s.pc t).syncing = some i ∧ reg[i]? = some L ∧ Passed s.skipSt s.srcOf s.pst s.G a m) ∨
      (L = t ∧ s.pc t = .gLock) := by
  have g0 := hR.epochLe L
  have g1 := hR.syncG t
  have g2 := hR.joinedLe L
  revert h
  exec_cases_C
  all_goals (try rw [‹s.pc t = _›] at g1)
  all_goals (try simp at g1)
  all_goals (intro h; try simp [upd_apply, Pc.syncing, St.eff] at h ⊢)
  all_goals grind [→ passed_below_bump, → passed_upd_skip_back, St.eff]

/-- what a binder that re-reads its parent's flag learns about everything that has passed -/
def Learnt (s : St) (x : Nat) : Prop :=
  ∀ a m, Passed s.skipSt s.srcOf s.pst s.G a m → Cur s.wst s.rst a m → Anc s.par x a → Vf s.par s.can s.rst s.oc m a x

/-- F5: the stepping binder's pending re-copy stays pending, or it has just stored "cancelled", or it has just read
"not cancelled" from a parent whose flag was final for everything that had passed. -/
theorem cover_self (hS : Struct reg s) (hR : Reach reg s) {x : Nat} (h : (s.pc t).coverOf s.G = some x) :
    ((exec (C r) reg s t).pc t).coverOf (exec (C r) reg s t).G = some x ∨ (exec (C r) reg s t).can x = true ∨
      Learnt s x := by
  have g0 := hR.copyTrue t
  have l0 := @fb_establish reg s hS hR t
  have l1 := @root_establish reg s hS hR t
  unfold Learnt
  revert h
  exec_cases_C
  all_goals (try rw [‹s.pc t = _›] at g0)
  all_goals (try simp [Pc.copyVal] at g0)
  all_goals (intro h; try simp [upd_apply, Pc.coverOf] at h ⊢)
  all_goals grind [Pc.coverOf]

theorem pushing_eq {pc : Pc} {x : Nat} (h : pc.pushing = some x) : ∃ p sn, pc = .bRegL x p sn := by
  cases pc <;> simp [Pc.pushing] at h
  rename_i x' p sn
  exact ⟨p, sn, by rw [h]⟩

/-- F6: right after push_front the new context is covered, or the speculative copy already accounts for every
propagation that has passed the binder's own list -/
theorem push_covered (hR : Reach reg s) {x : Nat} (hp : (s.pc t).pushing = some x) (hf : s.lmx t = none) :
    ((exec (C r) reg s t).pc t).coverOf (exec (C r) reg s t).G = some x ∨
      (∀ a m, Passed s.skipSt s.srcOf s.pst (s.eff t) a m → Cur s.wst s.rst a m → Anc s.par x a →
        Vf s.par s.can s.rst s.oc m a x) := by
  obtain ⟨p, sn, hpc⟩ := pushing_eq hp
  have hpc' : ((exec (C r) reg s t).pc t) = .bRegU x p sn ∧ (exec (C r) reg s t).G = s.G := by
    unfold exec execBind
    simp [hpc, Pc.isCancel, Pc.isBind, hf]
  rw [hpc'.1, hpc'.2]
  cases sn with
  | none => exact Or.inl rfl
  | some n =>
    by_cases hn : n < s.G
    · exact Or.inl (by simp [Pc.coverOf, hn])
    · refine Or.inr (fun a m hpa hc ha => hR.spec t x n a m (by rw [hpc]; rfl) (passed_mono ?_ hpa) hc ha)
      have h1 := hR.epochLe t
      have h2 := hR.joinedLe t
      unfold St.eff
      split <;> omega

end TbbVerif.C04
