/-
C04 proofs — structural invariants (regMem, snapPar, rootPar, createdLst): preservation by `exec` and `begin`.
-/
import TbbVerif.Proofs.C04.StructC

namespace TbbVerif.C04
variable {cfg : Cfg} {r : List RF} {reg : List Nat} {s : St} {t : Nat}

theorem regMem_exec_c (hS : Struct reg s) :
    ∀ t' x, ((execCancel cfg reg s t).pc t').registered = some x → x ∈ (execCancel cfg reg s t).items t' := by
  have g0 := hS.regMem
  have g0t := hS.regMem t
  have g1 := hS.dyingOk
  have g1t := hS.dyingOk t
  have g2 := hS.bindNotDying
  have g2t := hS.bindNotDying t
  unfold execCancel
  try unfold walkNext
  try unfold afterHint
  try unfold applyReset
  repeat' split
  all_goals (try rw [‹s.pc t = _›] at g0t)
  all_goals (try simp [Pc.registered, Pc.registered_owns, Pc.owns_bindTarget, Pc.destroying, Pc.bindTarget] at g0t)
  all_goals (try rw [‹s.pc t = _›] at g1t)
  all_goals (try simp [Pc.registered, Pc.registered_owns, Pc.owns_bindTarget, Pc.destroying, Pc.bindTarget] at g1t)
  all_goals (try rw [‹s.pc t = _›] at g2t)
  all_goals (try simp [Pc.registered, Pc.registered_owns, Pc.owns_bindTarget, Pc.destroying, Pc.bindTarget] at g2t)
  all_goals (intro t' x h1; by_cases ht : t' = t <;> first | (subst ht; try simp [upd_apply, afterLists, nextList, Pc.registered, Pc.registered_owns, Pc.owns_bindTarget, Pc.destroying, Pc.bindTarget] at h1 ⊢) | (try simp [ht, upd_apply, afterLists, nextList] at h1 ⊢))
  all_goals grind [Pc.registered, Pc.registered_owns, Pc.owns_bindTarget, Pc.destroying, Pc.bindTarget]

theorem regMem_exec_b (hS : Struct reg s) :
    ∀ t' x, ((execBind cfg s t).pc t').registered = some x → x ∈ (execBind cfg s t).items t' := by
  have g0 := hS.regMem
  have g0t := hS.regMem t
  have g1 := hS.dyingOk
  have g1t := hS.dyingOk t
  have g2 := hS.bindNotDying
  have g2t := hS.bindNotDying t
  unfold execBind
  try unfold walkNext
  try unfold afterHint
  try unfold applyReset
  repeat' split
  all_goals (try rw [‹s.pc t = _›] at g0t)
  all_goals (try simp [Pc.registered, Pc.registered_owns, Pc.owns_bindTarget, Pc.destroying, Pc.bindTarget] at g0t)
  all_goals (try rw [‹s.pc t = _›] at g1t)
  all_goals (try simp [Pc.registered, Pc.registered_owns, Pc.owns_bindTarget, Pc.destroying, Pc.bindTarget] at g1t)
  all_goals (try rw [‹s.pc t = _›] at g2t)
  all_goals (try simp [Pc.registered, Pc.registered_owns, Pc.owns_bindTarget, Pc.destroying, Pc.bindTarget] at g2t)
  all_goals (intro t' x h1; by_cases ht : t' = t <;> first | (subst ht; try simp [upd_apply, afterLists, nextList, Pc.registered, Pc.registered_owns, Pc.owns_bindTarget, Pc.destroying, Pc.bindTarget] at h1 ⊢) | (try simp [ht, upd_apply, afterLists, nextList] at h1 ⊢))
  all_goals grind [Pc.registered, Pc.registered_owns, Pc.owns_bindTarget, Pc.destroying, Pc.bindTarget]

theorem regMem_exec_o (hS : Struct reg s) :
    ∀ t' x, ((execOther s t).pc t').registered = some x → x ∈ (execOther s t).items t' := by
  have g0 := hS.regMem
  have g0t := hS.regMem t
  have g1 := hS.dyingOk
  have g1t := hS.dyingOk t
  have g2 := hS.bindNotDying
  have g2t := hS.bindNotDying t
  unfold execOther
  try unfold walkNext
  try unfold afterHint
  try unfold applyReset
  repeat' split
  all_goals (try rw [‹s.pc t = _›] at g0t)
  all_goals (try simp [Pc.registered, Pc.registered_owns, Pc.owns_bindTarget, Pc.destroying, Pc.bindTarget] at g0t)
  all_goals (try rw [‹s.pc t = _›] at g1t)
  all_goals (try simp [Pc.registered, Pc.registered_owns, Pc.owns_bindTarget, Pc.destroying, Pc.bindTarget] at g1t)
  all_goals (try rw [‹s.pc t = _›] at g2t)
  all_goals (try simp [Pc.registered, Pc.registered_owns, Pc.owns_bindTarget, Pc.destroying, Pc.bindTarget] at g2t)
  all_goals (intro t' x h1; by_cases ht : t' = t <;> first | (subst ht; try simp [upd_apply, afterLists, nextList, Pc.registered, Pc.registered_owns, Pc.owns_bindTarget, Pc.destroying, Pc.bindTarget] at h1 ⊢) | (try simp [ht, upd_apply, afterLists, nextList] at h1 ⊢))
  all_goals grind [Pc.registered, Pc.registered_owns, Pc.owns_bindTarget, Pc.destroying, Pc.bindTarget]

theorem regMem_exec (hS : Struct reg s) :
    ∀ t' x, ((exec cfg reg s t).pc t').registered = some x → x ∈ (exec cfg reg s t).items t' := by
  unfold exec
  split
  · exact regMem_exec_c hS
  · split
    · exact regMem_exec_b hS
    · exact regMem_exec_o hS

theorem regMem_begin (hS : Struct reg s) (hi : s.pc t = .idle) :
    ∀ t' x, ((begin cfg reg s t).pc t').registered = some x → x ∈ (begin cfg reg s t).items t' := by
  have g0 := hS.regMem
  have g0t := hS.regMem t
  have g1 := hS.dyingOk
  have g1t := hS.dyingOk t
  have g2 := hS.bindNotDying
  have g2t := hS.bindNotDying t
  begin_cases
  all_goals (try rw [hi] at g0t)
  all_goals (try simp [Pc.registered, Pc.registered_owns, Pc.owns_bindTarget, Pc.destroying, Pc.bindTarget] at g0t)
  all_goals (try rw [hi] at g1t)
  all_goals (try simp [Pc.registered, Pc.registered_owns, Pc.owns_bindTarget, Pc.destroying, Pc.bindTarget] at g1t)
  all_goals (try rw [hi] at g2t)
  all_goals (try simp [Pc.registered, Pc.registered_owns, Pc.owns_bindTarget, Pc.destroying, Pc.bindTarget] at g2t)
  all_goals (intro t' x h1; by_cases ht : t' = t <;> first | (subst ht; try simp [upd_apply, afterLists, nextList, Pc.registered, Pc.registered_owns, Pc.owns_bindTarget, Pc.destroying, Pc.bindTarget] at h1 ⊢) | (try simp [ht, upd_apply, afterLists, nextList] at h1 ⊢))
  all_goals grind [Pc.registered, Pc.registered_owns, Pc.owns_bindTarget, Pc.destroying, Pc.bindTarget]

theorem snapPar_exec_c (hS : Struct reg s) :
    ∀ t' p, ((execCancel cfg reg s t).pc t').snapBranch = some p → (execCancel cfg reg s t).par p ≠ none := by
  have g0 := hS.snapPar
  have g0t := hS.snapPar t
  have g1 := hS.bindAlive
  have g1t := hS.bindAlive t
  unfold execCancel
  try unfold walkNext
  try unfold afterHint
  try unfold applyReset
  repeat' split
  all_goals (try rw [‹s.pc t = _›] at g0t)
  all_goals (try simp [Pc.snapBranch, Pc.snapBranch_bindParent, Pc.bindParent, okParent] at g0t)
  all_goals (try rw [‹s.pc t = _›] at g1t)
  all_goals (try simp [Pc.snapBranch, Pc.snapBranch_bindParent, Pc.bindParent, okParent] at g1t)
  all_goals (intro t' p h1; by_cases ht : t' = t <;> first | (subst ht; try simp [upd_apply, afterLists, nextList, Pc.snapBranch, Pc.snapBranch_bindParent, Pc.bindParent, okParent] at h1 ⊢) | (try simp [ht, upd_apply, afterLists, nextList] at h1 ⊢))
  all_goals grind [Pc.snapBranch, Pc.snapBranch_bindParent, Pc.bindParent, okParent]

theorem snapPar_exec_b (hS : Struct reg s) :
    ∀ t' p, ((execBind cfg s t).pc t').snapBranch = some p → (execBind cfg s t).par p ≠ none := by
  have g0 := hS.snapPar
  have g0t := hS.snapPar t
  have g1 := hS.bindAlive
  have g1t := hS.bindAlive t
  unfold execBind
  try unfold walkNext
  try unfold afterHint
  try unfold applyReset
  repeat' split
  all_goals (try rw [‹s.pc t = _›] at g0t)
  all_goals (try simp [Pc.snapBranch, Pc.snapBranch_bindParent, Pc.bindParent, okParent] at g0t)
  all_goals (try rw [‹s.pc t = _›] at g1t)
  all_goals (try simp [Pc.snapBranch, Pc.snapBranch_bindParent, Pc.bindParent, okParent] at g1t)
  all_goals (intro t' p h1; by_cases ht : t' = t <;> first | (subst ht; try simp [upd_apply, afterLists, nextList, Pc.snapBranch, Pc.snapBranch_bindParent, Pc.bindParent, okParent] at h1 ⊢) | (try simp [ht, upd_apply, afterLists, nextList] at h1 ⊢))
  all_goals grind [Pc.snapBranch, Pc.snapBranch_bindParent, Pc.bindParent, okParent]

theorem snapPar_exec_o (hS : Struct reg s) :
    ∀ t' p, ((execOther s t).pc t').snapBranch = some p → (execOther s t).par p ≠ none := by
  have g0 := hS.snapPar
  have g0t := hS.snapPar t
  have g1 := hS.bindAlive
  have g1t := hS.bindAlive t
  unfold execOther
  try unfold walkNext
  try unfold afterHint
  try unfold applyReset
  repeat' split
  all_goals (try rw [‹s.pc t = _›] at g0t)
  all_goals (try simp [Pc.snapBranch, Pc.snapBranch_bindParent, Pc.bindParent, okParent] at g0t)
  all_goals (try rw [‹s.pc t = _›] at g1t)
  all_goals (try simp [Pc.snapBranch, Pc.snapBranch_bindParent, Pc.bindParent, okParent] at g1t)
  all_goals (intro t' p h1; by_cases ht : t' = t <;> first | (subst ht; try simp [upd_apply, afterLists, nextList, Pc.snapBranch, Pc.snapBranch_bindParent, Pc.bindParent, okParent] at h1 ⊢) | (try simp [ht, upd_apply, afterLists, nextList] at h1 ⊢))
  all_goals grind [Pc.snapBranch, Pc.snapBranch_bindParent, Pc.bindParent, okParent]

theorem snapPar_exec (hS : Struct reg s) :
    ∀ t' p, ((exec cfg reg s t).pc t').snapBranch = some p → (exec cfg reg s t).par p ≠ none := by
  unfold exec
  split
  · exact snapPar_exec_c hS
  · split
    · exact snapPar_exec_b hS
    · exact snapPar_exec_o hS

theorem snapPar_begin (hS : Struct reg s) (hi : s.pc t = .idle) :
    ∀ t' p, ((begin cfg reg s t).pc t').snapBranch = some p → (begin cfg reg s t).par p ≠ none := by
  have g0 := hS.snapPar
  have g0t := hS.snapPar t
  have g1 := hS.bindAlive
  have g1t := hS.bindAlive t
  begin_cases
  all_goals (try rw [hi] at g0t)
  all_goals (try simp [Pc.snapBranch, Pc.snapBranch_bindParent, Pc.bindParent, okParent] at g0t)
  all_goals (try rw [hi] at g1t)
  all_goals (try simp [Pc.snapBranch, Pc.snapBranch_bindParent, Pc.bindParent, okParent] at g1t)
  all_goals (intro t' p h1; by_cases ht : t' = t <;> first | (subst ht; try simp [upd_apply, afterLists, nextList, Pc.snapBranch, Pc.snapBranch_bindParent, Pc.bindParent, okParent] at h1 ⊢) | (try simp [ht, upd_apply, afterLists, nextList] at h1 ⊢))
  all_goals grind [Pc.snapBranch, Pc.snapBranch_bindParent, Pc.bindParent, okParent]

theorem rootPar_exec_c (hS : Struct reg s) :
    ∀ t' p, ((execCancel cfg reg s t).pc t').rootBranch = some p → (execCancel cfg reg s t).par p = none := by
  have g0 := hS.rootPar
  have g0t := hS.rootPar t
  have g1 := hS.bindAlive
  have g1t := hS.bindAlive t
  unfold execCancel
  try unfold walkNext
  try unfold afterHint
  try unfold applyReset
  repeat' split
  all_goals (try rw [‹s.pc t = _›] at g0t)
  all_goals (try simp [Pc.rootBranch, Pc.rootBranch_bindParent, Pc.bindParent, okParent] at g0t)
  all_goals (try rw [‹s.pc t = _›] at g1t)
  all_goals (try simp [Pc.rootBranch, Pc.rootBranch_bindParent, Pc.bindParent, okParent] at g1t)
  all_goals (intro t' p h1; by_cases ht : t' = t <;> first | (subst ht; try simp [upd_apply, afterLists, nextList, Pc.rootBranch, Pc.rootBranch_bindParent, Pc.bindParent, okParent] at h1 ⊢) | (try simp [ht, upd_apply, afterLists, nextList] at h1 ⊢))
  all_goals grind [Pc.rootBranch, Pc.rootBranch_bindParent, Pc.bindParent, okParent]

theorem rootPar_exec_b (hS : Struct reg s) :
    ∀ t' p, ((execBind cfg s t).pc t').rootBranch = some p → (execBind cfg s t).par p = none := by
  have g0 := hS.rootPar
  have g0t := hS.rootPar t
  have g1 := hS.bindAlive
  have g1t := hS.bindAlive t
  unfold execBind
  try unfold walkNext
  try unfold afterHint
  try unfold applyReset
  repeat' split
  all_goals (try rw [‹s.pc t = _›] at g0t)
  all_goals (try simp [Pc.rootBranch, Pc.rootBranch_bindParent, Pc.bindParent, okParent] at g0t)
  all_goals (try rw [‹s.pc t = _›] at g1t)
  all_goals (try simp [Pc.rootBranch, Pc.rootBranch_bindParent, Pc.bindParent, okParent] at g1t)
  all_goals (intro t' p h1; by_cases ht : t' = t <;> first | (subst ht; try simp [upd_apply, afterLists, nextList, Pc.rootBranch, Pc.rootBranch_bindParent, Pc.bindParent, okParent] at h1 ⊢) | (try simp [ht, upd_apply, afterLists, nextList] at h1 ⊢))
  all_goals grind [Pc.rootBranch, Pc.rootBranch_bindParent, Pc.bindParent, okParent]

theorem rootPar_exec_o (hS : Struct reg s) :
    ∀ t' p, ((execOther s t).pc t').rootBranch = some p → (execOther s t).par p = none := by
  have g0 := hS.rootPar
  have g0t := hS.rootPar t
  have g1 := hS.bindAlive
  have g1t := hS.bindAlive t
  unfold execOther
  try unfold walkNext
  try unfold afterHint
  try unfold applyReset
  repeat' split
  all_goals (try rw [‹s.pc t = _›] at g0t)
  all_goals (try simp [Pc.rootBranch, Pc.rootBranch_bindParent, Pc.bindParent, okParent] at g0t)
  all_goals (try rw [‹s.pc t = _›] at g1t)
  all_goals (try simp [Pc.rootBranch, Pc.rootBranch_bindParent, Pc.bindParent, okParent] at g1t)
  all_goals (intro t' p h1; by_cases ht : t' = t <;> first | (subst ht; try simp [upd_apply, afterLists, nextList, Pc.rootBranch, Pc.rootBranch_bindParent, Pc.bindParent, okParent] at h1 ⊢) | (try simp [ht, upd_apply, afterLists, nextList] at h1 ⊢))
  all_goals grind [Pc.rootBranch, Pc.rootBranch_bindParent, Pc.bindParent, okParent]

theorem rootPar_exec (hS : Struct reg s) :
    ∀ t' p, ((exec cfg reg s t).pc t').rootBranch = some p → (exec cfg reg s t).par p = none := by
  unfold exec
  split
  · exact rootPar_exec_c hS
  · split
    · exact rootPar_exec_b hS
    · exact rootPar_exec_o hS

theorem rootPar_begin (hS : Struct reg s) (hi : s.pc t = .idle) :
    ∀ t' p, ((begin cfg reg s t).pc t').rootBranch = some p → (begin cfg reg s t).par p = none := by
  have g0 := hS.rootPar
  have g0t := hS.rootPar t
  have g1 := hS.bindAlive
  have g1t := hS.bindAlive t
  begin_cases
  all_goals (try rw [hi] at g0t)
  all_goals (try simp [Pc.rootBranch, Pc.rootBranch_bindParent, Pc.bindParent, okParent] at g0t)
  all_goals (try rw [hi] at g1t)
  all_goals (try simp [Pc.rootBranch, Pc.rootBranch_bindParent, Pc.bindParent, okParent] at g1t)
  all_goals (intro t' p h1; by_cases ht : t' = t <;> first | (subst ht; try simp [upd_apply, afterLists, nextList, Pc.rootBranch, Pc.rootBranch_bindParent, Pc.bindParent, okParent] at h1 ⊢) | (try simp [ht, upd_apply, afterLists, nextList] at h1 ⊢))
  all_goals grind [Pc.rootBranch, Pc.rootBranch_bindParent, Pc.bindParent, okParent]

theorem createdLst_exec_c (hS : Struct reg s) :
    ∀ x, (execCancel cfg reg s t).cst x = .created → (execCancel cfg reg s t).lst x = none := by
  have g0 := hS.createdLst
  have g1 := hS.ownsSt
  have g1t := hS.ownsSt t
  unfold execCancel
  try unfold walkNext
  try unfold afterHint
  try unfold applyReset
  repeat' split
  all_goals (try rw [‹s.pc t = _›] at g1t)
  all_goals (try simp [Pc.owns] at g1t)
  all_goals (intro x h1; try simp [upd_apply, afterLists, nextList] at h1 ⊢)
  all_goals grind [Pc.owns]

theorem createdLst_exec_b (hS : Struct reg s) :
    ∀ x, (execBind cfg s t).cst x = .created → (execBind cfg s t).lst x = none := by
  have g0 := hS.createdLst
  have g1 := hS.ownsSt
  have g1t := hS.ownsSt t
  unfold execBind
  try unfold walkNext
  try unfold afterHint
  try unfold applyReset
  repeat' split
  all_goals (try rw [‹s.pc t = _›] at g1t)
  all_goals (try simp [Pc.owns] at g1t)
  all_goals (intro x h1; try simp [upd_apply, afterLists, nextList] at h1 ⊢)
  all_goals grind [Pc.owns]

theorem createdLst_exec_o (hS : Struct reg s) :
    ∀ x, (execOther s t).cst x = .created → (execOther s t).lst x = none := by
  have g0 := hS.createdLst
  have g1 := hS.ownsSt
  have g1t := hS.ownsSt t
  unfold execOther
  try unfold walkNext
  try unfold afterHint
  try unfold applyReset
  repeat' split
  all_goals (try rw [‹s.pc t = _›] at g1t)
  all_goals (try simp [Pc.owns] at g1t)
  all_goals (intro x h1; try simp [upd_apply, afterLists, nextList] at h1 ⊢)
  all_goals grind [Pc.owns]

theorem createdLst_exec (hS : Struct reg s) :
    ∀ x, (exec cfg reg s t).cst x = .created → (exec cfg reg s t).lst x = none := by
  unfold exec
  split
  · exact createdLst_exec_c hS
  · split
    · exact createdLst_exec_b hS
    · exact createdLst_exec_o hS

theorem createdLst_begin (hS : Struct reg s) (hi : s.pc t = .idle) :
    ∀ x, (begin cfg reg s t).cst x = .created → (begin cfg reg s t).lst x = none := by
  have g0 := hS.createdLst
  have g1 := hS.ownsSt
  have g1t := hS.ownsSt t
  begin_cases
  all_goals (try rw [hi] at g1t)
  all_goals (try simp [Pc.owns] at g1t)
  all_goals (intro x h1; try simp [upd_apply, afterLists, nextList] at h1 ⊢)
  all_goals grind [Pc.owns]

end TbbVerif.C04
