/-
C04 proofs — consequences of `Struct` + `Reach` in one state, used by the preservation proofs of the protocol fields.
-/
import TbbVerif.Proofs.C04.ReachD

namespace TbbVerif.C04
variable {reg : List Nat} {s : St}

theorem anc_irrefl_s (hS : Struct reg s) {x : Nat} : ¬ Anc s.par x x :=
  Anc.irrefl (depth := s.depth) (fun x p h => (hS.parSet x p h).2)

/-- the ancestor walk of the model misses nothing -/
theorem chain_none_not_anc (hS : Struct reg s) {src x : Nat} (h : chainUp s.par src (s.depth x) x = none) :
    ¬ Anc s.par x src := by
  intro ha
  obtain ⟨tl, htl⟩ := chainUp_complete (depth := s.depth) (fun x p h => (hS.parSet x p h).2) (s.depth x) x (Nat.le_refl _) ha
  rw [h] at htl
  cases htl

theorem chain_some_head (s : St) {src x : Nat} {ch : List Nat} (h : chainUp s.par src (s.depth x) x = some ch) :
    ch.head? = some x ∧ ∀ e ∈ ch, Anc s.par e src := by
  obtain ⟨⟨tl, rfl⟩, hall⟩ := chainUp_sound _ _ _ h
  exact ⟨rfl, hall⟩

/-- ancestors of contexts other than the one whose parent is being set are unchanged -/
theorem anc_of_upd_par {par : Nat → Option Nat} {z a c : Nat} {v : Option Nat}
    (hn : ∀ y, par y ≠ some c) (hz : z ≠ c) (h : Anc (upd par c v) z a) : Anc par z a :=
  (Anc.upd_other hn hz).1 h

/-- a context whose binding is complete and that is alive cannot be "covered" (nobody is binding it) -/
theorem no_cover_of_alive (hS : Struct reg s) {p t : Nat} (ok : okParent s p) : (s.pc t).coverOf s.G ≠ some p := by
  intro h
  have := hS.ownsSt t p (Pc.registered_owns (Pc.coverOf_registered h))
  rcases ok.1 with h' | h' <;> rw [h'] at this <;> cases this

theorem Pc.pending_inReg {pc : Pc} {a i : Nat} {l : List Nat} (h : pc.pending = some (a, i, l)) : pc.inReg = true :=
  (Pc.walkSrc_inReg (Pc.pending_walk h).2).1

theorem cur_le_s (hR : Reach reg s) {a m : Nat} (h : Cur s.wst s.rst a m) : m ≤ s.clk := cur_le hR.wstLe h

theorem passed_le_s (hR : Reach reg s) {k a m : Nat} (h : Passed s.skipSt s.srcOf s.pst k a m) : m ≤ s.clk :=
  passed_le hR.skipLe hR.pstLe h

/-- the created→locked CAS on `c` keeps every `Vf` fact -/
theorem vf_cas (hS : Struct reg s) {c x a m : Nat} {v : Option Nat} {can : Nat → Bool} {rst : Nat → Nat} {oc : Nat → Bool}
    (hc : s.cst c = .created) (h : Vf s.par can rst oc m a x) : Vf (upd s.par c v) can rst oc m a x :=
  vf_par (fun _ _ h => anc_upd_par (hS.createdPar c hc) (fun y e => (hS.parDone y c e).1 hc) h) h

/-! ### classification of the pc a walk moves to -/
section nextl
variable (cfg : Cfg) (reg : List Nat) (act : Nat → Bool) (src i : Nat)

theorem nextList_cases' : (∃ j, nextList cfg reg act src i = .cLockList src j) ∨
    nextList cfg reg act src i = .cUnlockProp src ∨ nextList cfg reg act src i = .cUnlockReg src := by
  rcases nextList_cases cfg reg act src i with h | h
  · exact Or.inl h
  · unfold afterLists at h
    split at h
    · exact Or.inr (Or.inl h)
    · exact Or.inr (Or.inr h)

@[simp high] theorem nextList_pending : (nextList cfg reg act src i).pending = none := by
  rcases nextList_cases' cfg reg act src i with ⟨j, h⟩ | h | h <;> rw [h] <;> rfl
@[simp high] theorem nextList_inReg : (nextList cfg reg act src i).inReg = true := by
  rcases nextList_cases' cfg reg act src i with ⟨j, h⟩ | h | h <;> rw [h] <;> rfl
@[simp high] theorem nextList_walkIdx : (nextList cfg reg act src i).walkIdx = none := by
  rcases nextList_cases' cfg reg act src i with ⟨j, h⟩ | h | h <;> rw [h] <;> rfl
@[simp high] theorem nextList_copyVal : (nextList cfg reg act src i).copyVal = none := by
  rcases nextList_cases' cfg reg act src i with ⟨j, h⟩ | h | h <;> rw [h] <;> rfl
end nextl

/-- a thread leaving the registry (its contexts become orphaned) keeps every `Vf` fact -/
theorem vf_exit {x a m : Nat} {can : Nat → Bool} {rst : Nat → Nat} {par : Nat → Option Nat} {oc : Nat → Bool} {l : List Nat}
    (h : Vf par can rst oc m a x) : Vf par can rst (orphanMark oc l) m a x :=
  vf_oc_or h

/-- **The parent's flag is final for everything that has passed.**  If the parent `p` of a binder is alive and not
cancelled, every propagation numbered ≤ k has finished p's list (if that list still belongs to a registered thread), and the
current cancellation (a, m) has passed (number ≤ k, or skipped at the hint test) with `a` an ancestor-or-self of `p`, then
`p` is not `a` and is stale for (a, m) — possibly because its list was orphaned. -/
theorem parent_final (hS : Struct reg s) (hR : Reach reg s) {p k a m : Nat} (ok : okParent s p)
    (hL : ∀ L, s.lst p = some L → s.act L = true → k ≤ s.eff L) (hcan : s.can p = false)
    (hp : Passed s.skipSt s.srcOf s.pst k a m) (hc : Cur s.wst s.rst a m) (h : p = a ∨ Anc s.par p a) :
    Anc s.par p a ∧ Stale s.par s.rst s.oc m a p := by
  rcases h with e | h
  · subst e
    rw [hR.curCan _ _ hc] at hcan; cases hcan
  · refine ⟨h, ?_⟩
    obtain ⟨q, hq, _⟩ := h.unfold
    obtain ⟨L, hlst, hmem⟩ := alive_registered hS ok hq
    cases hact : s.act L with
    | false => exact Or.inl (Or.inr (hS.ocItems L p hmem hact))
    | true =>
      rcases hR.listed L p a m hmem (passed_mono (hL L hlst hact) hp) hc h with (hc' | hst) | ⟨t, ht⟩
      · rw [hc'] at hcan; cases hcan
      · exact hst
      · exact (no_cover_of_alive hS ok ht).elim

/-- while a binder holds the propagation mutex every list epoch equals the global epoch -/
theorem epochs_synced_of_binder (hR : Reach reg s) {t : Nat} (hp : s.propMx = some t) (hw : (s.pc t).walkFrom = none)
    {L : Nat} (hL : L ∈ reg) (ha : s.act L = true) : s.eff L = s.G := by
  by_cases h : s.eff L = s.G
  · exact h
  · obtain ⟨j, hj, _⟩ := hR.epochWalk t L hL ha hp h
    rw [hw] at hj; cases hj

theorem Pc.afterSpec_pastHint {pc : Pc} {x n : Nat} (h : pc.afterSpec = some (x, n)) :
    ∃ p, pc.owner = some (x, some p) ∧ pc.pastHint = some p := by
  cases pc <;> simp [Pc.afterSpec] at h
  case bLoadG x' p n' => exact ⟨p, by simp [Pc.owner, h.1], rfl⟩
  case bRegL x' p sn =>
    cases sn <;> simp at h
    exact ⟨p, by simp [Pc.owner, h.1], rfl⟩
  case bRegU x' p sn =>
    cases sn <;> simp at h
    exact ⟨p, by simp [Pc.owner, h.1], rfl⟩

/-- the hint of every ancestor of a context whose binder is past the hint store is set -/
theorem anc_mhc_owner (hS : Struct reg s) (hH : Hint s) {t x p a : Nat}
    (ho : (s.pc t).owner = some (x, some p)) (hh : (s.pc t).pastHint = some p) (h : Anc s.par x a) : s.mhc a = true := by
  have hpar := hS.ownerPar t x (some p) ho
  obtain ⟨q, hq, h'⟩ := h.unfold
  rw [hpar] at hq
  have e : p = q := Option.some.inj hq
  subst e
  exact anc_mhc_bind hS hH.mhcReg (hS.bindAlive t p (Pc.pastHint_bindParent hh)) (hH.mhcBind t p hh) h'

/-- the created→locked CAS on `c` (which sets `c`'s parent) changes the ancestors of no other context -/
theorem anc_cas_back (hS : Struct reg s) {c z a : Nat} {v : Option Nat} (hc : s.cst c = .created) (hz : z ≠ c)
    (h : Anc (upd s.par c v) z a) : Anc s.par z a :=
  anc_of_upd_par (fun y e => (hS.parDone y c e).1 hc) hz h

theorem anc_cas_fwd (hS : Struct reg s) {c z a : Nat} {v : Option Nat} (hc : s.cst c = .created)
    (h : Anc s.par z a) : Anc (upd s.par c v) z a :=
  anc_upd_par (hS.createdPar c hc) (fun y e => (hS.parDone y c e).1 hc) h

theorem ne_of_registered_created (hS : Struct reg s) {c z L : Nat} (hc : s.cst c = .created) (hz : z ∈ s.items L) : z ≠ c := by
  intro e
  subst e
  exact (hS.itemsOk L _ hz).2.2 (hS.createdPar _ hc)

theorem ne_of_locked_created {c z : Nat} (hc : s.cst c = .created) (hz : s.cst z = .locked) : z ≠ c := by
  intro e
  subst e
  rw [hc] at hz
  cases hz

/-! ### what a binder learns when it reads "not cancelled" from its parent -/

theorem anc_via_parent (hS : Struct reg s) {t x p a : Nat} (ho : (s.pc t).owner = some (x, some p)) (h : Anc s.par x a) :
    p = a ∨ Anc s.par p a := by
  obtain ⟨q, hq, h'⟩ := h.unfold
  rw [hS.ownerPar t x (some p) ho] at hq
  cases hq
  exact h'

/-- what the child learns: stale for (a, m) -/
theorem stale_via_parent (hS : Struct reg s) {t x p a m : Nat} (ho : (s.pc t).owner = some (x, some p))
    (h : Anc s.par p a ∧ Stale s.par s.rst s.oc m a p) : Stale s.par s.rst s.oc m a x :=
  stale_child (hS.ownerPar t x (some p) ho) h.1 h.2

/-- speculative load on the snapshot path -/
theorem spec_establish (hS : Struct reg s) (hR : Reach reg s) {t x p n a m : Nat} (hpc : s.pc t = .bSpecL x p n)
    (hcan : s.can p = false) (hp : Passed s.skipSt s.srcOf s.pst n a m) (hc : Cur s.wst s.rst a m)
    (h : Anc s.par x a) : Vf s.par s.can s.rst s.oc m a x := by
  have ok := hS.bindAlive t p (by rw [hpc]; rfl)
  exact Or.inr (stale_via_parent hS (by rw [hpc]; rfl)
    (parent_final hS hR ok (fun L hL _ => hR.snapEpoch t x p n L hpc hL) hcan hp hc
      (anc_via_parent hS (by rw [hpc]; rfl) h)))

/-- load under the fall-back mutex: no propagation is in flight, every list is synced -/
theorem fb_establish (hS : Struct reg s) (hR : Reach reg s) {t x p a m : Nat} (hpc : s.pc t = .bFbL x p)
    (hcan : s.can p = false) (hp : Passed s.skipSt s.srcOf s.pst s.G a m) (hc : Cur s.wst s.rst a m)
    (h : Anc s.par x a) : Vf s.par s.can s.rst s.oc m a x := by
  have ok := hS.bindAlive t p (by rw [hpc]; rfl)
  have hmx := hR.propMx t (by rw [hpc]; rfl)
  refine Or.inr (stale_via_parent hS (by rw [hpc]; rfl)
    (parent_final hS hR ok (fun L hL ha => ?_) hcan hp hc (anc_via_parent hS (by rw [hpc]; rfl) h)))
  have hpar : s.par p ≠ none := hS.snapPar t p (by rw [hpc]; rfl)
  obtain ⟨q, hq⟩ := Option.ne_none_iff_exists'.1 hpar
  obtain ⟨L', hL', hmem⟩ := alive_registered hS ok hq
  rw [hL] at hL'
  cases hL'
  have := epochs_synced_of_binder hR hmx (by rw [hpc]; rfl) (hS.itemsOk L p hmem).2.1 ha
  omega

/-- load after registration when the parent is a root: only the parent itself can be a source above, and a current
cancellation keeps its context cancelled -/
theorem root_establish (hS : Struct reg s) (hR : Reach reg s) {t x p a m : Nat} (hpc : s.pc t = .bRootL x p)
    (hcan : s.can p = false) (hc : Cur s.wst s.rst a m) : ¬ Anc s.par x a := by
  intro h
  have hroot := hS.rootPar t p (by rw [hpc]; rfl)
  rcases anc_via_parent hS (by rw [hpc]; rfl) h with e | h'
  · subst e
    rw [hR.curCan _ _ hc] at hcan; cases hcan
  · exact Anc.not_root hroot h'

/-- a source whose hint is still clear has nothing registered or being bound (past the hint store) beneath it -/
theorem no_anc_of_hint_clear_owner (hS : Struct reg s) (hH : Hint s) {t x p a : Nat}
    (ho : (s.pc t).owner = some (x, some p)) (hh : (s.pc t).pastHint = some p) (hm : s.mhc a = false) : ¬ Anc s.par x a := by
  intro h
  rw [anc_mhc_owner hS hH ho hh h] at hm
  cases hm

theorem no_anc_of_hint_clear_reg (hS : Struct reg s) (hH : Hint s) {L x a : Nat} (hx : x ∈ s.items L)
    (hm : s.mhc a = false) : ¬ Anc s.par x a := by
  intro h
  rw [anc_mhc hS hH.mhcReg h L hx] at hm
  cases hm

theorem no_anc_afterSpec (hS : Struct reg s) (hH : Hint s) {t x n a : Nat}
    (h : (s.pc t).afterSpec = some (x, n)) (hm : s.mhc a = false) : ¬ Anc s.par x a := by
  obtain ⟨p, ho, hh⟩ := Pc.afterSpec_pastHint h
  exact no_anc_of_hint_clear_owner hS hH ho hh hm

theorem no_anc_fbU (hS : Struct reg s) (hH : Hint s) {t x p a : Nat}
    (h : s.pc t = .bFbU x p) (hm : s.mhc a = false) : ¬ Anc s.par x a :=
  no_anc_of_hint_clear_owner hS hH (by rw [h]; rfl) (by rw [h]; rfl) hm

theorem locked_afterSpec (hS : Struct reg s) {t x n : Nat} (h : (s.pc t).afterSpec = some (x, n)) : s.cst x = .locked :=
  hS.ownsSt t x (Pc.afterSpec_owner h).1

theorem snap_le_of_afterSpec (hR : Reach reg s) {t x n : Nat} (h : (s.pc t).afterSpec = some (x, n)) : n ≤ s.G :=
  hR.snapLe t n (Pc.afterSpec_owner h).2

theorem Pc.coverOf_mono {pc : Pc} {G x : Nat} (h : pc.coverOf G = some x) : pc.coverOf (G + 1) = some x := by
  cases pc <;> simp [Pc.coverOf] at h ⊢
  case bLoadG x' p n => exact ⟨by omega, h.2⟩
  case bRegU x' p sn =>
    cases sn <;> simp at h ⊢
    · exact h
    · exact ⟨by omega, h.2⟩
  all_goals exact h

theorem mem_of_getElem?_some {reg : List Nat} {i L : Nat} (h : reg[i]? = some L) : L ∈ reg :=
  List.mem_of_getElem? h

/-- P1 for the list a propagation is about to sync: everything beneath its source in that list has been painted -/
theorem listed_sync (hS : Struct reg s) (hR : Reach reg s) {t src i g L x a m : Nat} (hpc : s.pc t = .cSync src i g)
    (hL : reg[i]? = some L) (hx : x ∈ s.items L) (hp : Passed s.skipSt s.srcOf s.pst s.G a m)
    (hc : Cur s.wst s.rst a m) (ha : Anc s.par x a) :
    Vf s.par s.can s.rst s.oc m a x ∨ ∃ t', (s.pc t').coverOf s.G = some x := by
  have hact : s.act L = true := hS.walkAct t i L (by rw [hpc]; rfl) hL
  rcases hR.epochNear L (mem_of_getElem?_some hL) hact with he | he
  · exact hR.listed L x a m hx (he ▸ hp) hc ha
  · rcases passed_pred he hp with h | h
    · have hw := hR.walkG t src (by rw [hpc]; rfl)
      rw [hw.1] at h
      obtain ⟨h1, h2⟩ := h
      subst h1
      rcases hR.walked t src i [] L x (by rw [hpc]; rfl) hL hx with h | h
      · cases h
      · exact Or.inl (h2 ▸ h ha)
    · exact hR.listed L x a m hx h hc ha

end TbbVerif.C04
