/-
C04 proofs — consequences of `Struct` + `Reach` in one state, used by the preservation proofs of the protocol fields.
-/
import TbbVerif.Proofs.C04.ReachE

namespace TbbVerif.C04
variable {reg : List Nat} {s : St}

theorem anc_irrefl_s (hS : Struct reg s) {x : Nat} : ¬ Anc s.par x x :=
  Anc.irrefl (depth := s.depth) (fun x p h => (hS.parSet x p h).2)

/-- the ancestor walk of the model misses nothing -/
theorem chain_none_not_anc (hS : Struct reg s) {src x : Nat} (h : chainUp s.par src (s.depth x) x = none) :
    ¬ Anc s.par x src := by
  intro ha
  obtain ⟨tl, htl⟩ := chainUp_complete (depth := s.depth) (fun x p h => (hS.parSet x p h).2) (s.depth x) x (Nat.le_refl _) ha
  rw [h] at htl
  cases htl

theorem chain_some_head (s : St) {src x : Nat} {ch : List Nat} (h : chainUp s.par src (s.depth x) x = some ch) :
    ch.head? = some x ∧ ∀ e ∈ ch, Anc s.par e src := by
  obtain ⟨⟨tl, rfl⟩, hall⟩ := chainUp_sound _ _ _ h
  exact ⟨rfl, hall⟩

/-- ancestors of contexts other than the one whose parent is being set are unchanged -/
theorem anc_of_upd_par {par : Nat → Option Nat} {z a c : Nat} {v : Option Nat}
    (hn : ∀ y, par y ≠ some c) (hz : z ≠ c) (h : Anc (upd par c v) z a) : Anc par z a :=
  (Anc.upd_other hn hz).1 h

/-- a context whose binding is complete and that is alive cannot be "covered" (nobody is binding it) -/
theorem no_cover_of_alive (hS : Struct reg s) {p t : Nat} (ok : okParent s p) : (s.pc t).coverOf s.G ≠ some p := by
  intro h
  have := hS.ownsSt t p (Pc.registered_owns (Pc.coverOf_registered h))
  rcases ok.1 with h' | h' <;> rw [h'] at this <;> cases this

/-- **The parent's flag is final for everything that has passed.**  If the parent `p` of a binder is alive and not
cancelled, and every propagation numbered ≤ m has finished p's list, then no source that has passed (number ≤ m, or
skipped at the hint test) is an ancestor-or-self of `p`. -/
theorem parent_final (hS : Struct reg s) (hR : Reach reg s) {p m a : Nat} (ok : okParent s p) (hm : m ≤ s.G)
    (hL : ∀ L, s.lst p = some L → m ≤ s.epoch L) (hcan : s.can p = false)
    (hp : PassedUpTo s.skip s.srcOf m a) : ¬ (p = a ∨ Anc s.par p a) := by
  rintro (e | h)
  · subst e
    rcases hp with hp | ⟨n, h1, h2, h3⟩
    · rw [hR.skipCan _ hp] at hcan; cases hcan
    · have := hR.srcCan n h1 (by omega)
      rw [h3, hcan] at this; cases this
  · obtain ⟨q, hq, _⟩ := h.unfold
    obtain ⟨L, hlst, hmem⟩ := alive_registered hS ok hq
    rcases hR.listed L p a hmem (passed_mono (hL L hlst) hp) h with hc | ⟨t, ht⟩
    · rw [hc] at hcan; cases hcan
    · exact no_cover_of_alive hS ok ht

/-- while a binder holds the propagation mutex every list epoch equals the global epoch -/
theorem epochs_synced_of_binder (hR : Reach reg s) {t : Nat} (hp : s.propMx = some t) (hw : (s.pc t).walkFrom = none)
    {L : Nat} (hL : L ∈ reg) : s.epoch L = s.G := by
  rcases Nat.lt_or_ge (s.epoch L) s.G with h | h
  · obtain ⟨j, hj, _⟩ := hR.epochWalk t L hL hp (by omega)
    rw [hw] at hj; cases hj
  · have := hR.epochLe L; omega

theorem Pc.afterSpec_pastHint {pc : Pc} {x n : Nat} (h : pc.afterSpec = some (x, n)) :
    ∃ p, pc.owner = some (x, some p) ∧ pc.pastHint = some p := by
  cases pc <;> simp [Pc.afterSpec] at h
  case bLoadG x' p n' => exact ⟨p, by simp [Pc.owner, h.1], rfl⟩
  case bRegL x' p sn =>
    cases sn <;> simp at h
    exact ⟨p, by simp [Pc.owner, h.1], rfl⟩
  case bRegU x' p sn =>
    cases sn <;> simp at h
    exact ⟨p, by simp [Pc.owner, h.1], rfl⟩

/-- the hint of every ancestor of a context whose binder is past the hint store is set -/
theorem anc_mhc_owner (hS : Struct reg s) (hR : Reach reg s) {t x p a : Nat}
    (ho : (s.pc t).owner = some (x, some p)) (hh : (s.pc t).pastHint = some p) (h : Anc s.par x a) : s.mhc a = true := by
  have hpar := hS.ownerPar t x (some p) ho
  obtain ⟨q, hq, h'⟩ := h.unfold
  rw [hpar] at hq
  have e : p = q := Option.some.inj hq
  subst e
  exact anc_mhc_bind hS hR.mhcReg (hS.bindAlive t p (Pc.pastHint_bindParent hh)) (hR.mhcBind t p hh) h'

/-- the created→locked CAS on `c` (which sets `c`'s parent) changes the ancestors of no other context -/
theorem anc_cas_back (hS : Struct reg s) {c z a : Nat} {v : Option Nat} (hc : s.cst c = .created) (hz : z ≠ c)
    (h : Anc (upd s.par c v) z a) : Anc s.par z a :=
  anc_of_upd_par (fun y e => (hS.parDone y c e).1 hc) hz h

theorem anc_cas_fwd (hS : Struct reg s) {c z a : Nat} {v : Option Nat} (hc : s.cst c = .created)
    (h : Anc s.par z a) : Anc (upd s.par c v) z a :=
  anc_upd_par (hS.createdPar c hc) (fun y e => (hS.parDone y c e).1 hc) h

theorem ne_of_registered_created (hS : Struct reg s) {c z L : Nat} (hc : s.cst c = .created) (hz : z ∈ s.items L) : z ≠ c := by
  intro e
  subst e
  exact (hS.itemsOk L _ hz).2.2 (hS.createdPar _ hc)

theorem ne_of_locked_created {c z : Nat} (hc : s.cst c = .created) (hz : s.cst z = .locked) : z ≠ c := by
  intro e
  subst e
  rw [hc] at hz
  cases hz

/-! ### what a binder learns when it reads "not cancelled" from its parent -/

theorem anc_via_parent (hS : Struct reg s) {t x p a : Nat} (ho : (s.pc t).owner = some (x, some p)) (h : Anc s.par x a) :
    p = a ∨ Anc s.par p a := by
  obtain ⟨q, hq, h'⟩ := h.unfold
  rw [hS.ownerPar t x (some p) ho] at hq
  cases hq
  exact h'

/-- speculative load on the snapshot path -/
theorem spec_establish (hS : Struct reg s) (hR : Reach reg s) {t x p n a : Nat} (hpc : s.pc t = .bSpecL x p n)
    (hcan : s.can p = false) (hp : PassedUpTo s.skip s.srcOf n a) : ¬ Anc s.par x a := by
  intro h
  have ok := hS.bindAlive t p (by rw [hpc]; rfl)
  exact parent_final hS hR ok (hR.snapLe t n (by rw [hpc]; rfl)) (fun L hL => hR.snapEpoch t x p n L hpc hL) hcan hp
    (anc_via_parent hS (by rw [hpc]; rfl) h)

/-- load under the fall-back mutex: no propagation is in flight, every list is synced -/
theorem fb_establish (hS : Struct reg s) (hR : Reach reg s) {t x p a : Nat} (hpc : s.pc t = .bFbL x p)
    (hcan : s.can p = false) (hp : PassedUpTo s.skip s.srcOf s.G a) : ¬ Anc s.par x a := by
  intro h
  have ok := hS.bindAlive t p (by rw [hpc]; rfl)
  have hmx := hR.propMx t (by rw [hpc]; rfl)
  refine parent_final hS hR ok (Nat.le_refl _) (fun L hL => ?_) hcan hp (anc_via_parent hS (by rw [hpc]; rfl) h)
  have hpar : s.par p ≠ none := hS.snapPar t p (by rw [hpc]; rfl)
  obtain ⟨q, hq⟩ := Option.ne_none_iff_exists'.1 hpar
  obtain ⟨L', hL', hmem⟩ := alive_registered hS ok hq
  rw [hL] at hL'
  cases hL'
  have := epochs_synced_of_binder hR hmx (by rw [hpc]; rfl) (hS.itemsOk L p hmem).2.1
  omega

/-- load after registration when the parent is a root: only the parent itself can be a source above -/
theorem root_establish (hS : Struct reg s) (hR : Reach reg s) {t x p a : Nat} (hpc : s.pc t = .bRootL x p)
    (hcan : s.can p = false) (hp : PassedUpTo s.skip s.srcOf s.G a) : ¬ Anc s.par x a := by
  intro h
  have hroot := hS.rootPar t p (by rw [hpc]; rfl)
  rcases anc_via_parent hS (by rw [hpc]; rfl) h with e | h'
  · subst e
    rcases hp with hp | ⟨n, h1, h2, h3⟩
    · rw [hR.skipCan _ hp] at hcan; cases hcan
    · have := hR.srcCan n h1 h2
      rw [h3, hcan] at this; cases this
  · exact Anc.not_root hroot h'

/-- a source whose hint is still clear has nothing registered or being bound (past the hint store) beneath it -/
theorem no_anc_of_hint_clear_owner (hS : Struct reg s) (hR : Reach reg s) {t x p a : Nat}
    (ho : (s.pc t).owner = some (x, some p)) (hh : (s.pc t).pastHint = some p) (hm : s.mhc a = false) : ¬ Anc s.par x a := by
  intro h
  rw [anc_mhc_owner hS hR ho hh h] at hm
  cases hm

theorem no_anc_of_hint_clear_reg (hS : Struct reg s) (hR : Reach reg s) {L x a : Nat} (hx : x ∈ s.items L)
    (hm : s.mhc a = false) : ¬ Anc s.par x a := by
  intro h
  rw [anc_mhc hS hR.mhcReg h L hx] at hm
  cases hm

theorem no_anc_afterSpec (hS : Struct reg s) (hR : Reach reg s) {t x n a : Nat}
    (h : (s.pc t).afterSpec = some (x, n)) (hm : s.mhc a = false) : ¬ Anc s.par x a := by
  obtain ⟨p, ho, hh⟩ := Pc.afterSpec_pastHint h
  exact no_anc_of_hint_clear_owner hS hR ho hh hm

theorem no_anc_fbU (hS : Struct reg s) (hR : Reach reg s) {t x p a : Nat}
    (h : s.pc t = .bFbU x p) (hm : s.mhc a = false) : ¬ Anc s.par x a :=
  no_anc_of_hint_clear_owner hS hR (by rw [h]; rfl) (by rw [h]; rfl) hm

theorem locked_afterSpec (hS : Struct reg s) {t x n : Nat} (h : (s.pc t).afterSpec = some (x, n)) : s.cst x = .locked :=
  hS.ownsSt t x (Pc.afterSpec_owner h).1

theorem snap_le_of_afterSpec (hR : Reach reg s) {t x n : Nat} (h : (s.pc t).afterSpec = some (x, n)) : n ≤ s.G :=
  hR.snapLe t n (Pc.afterSpec_owner h).2

/-- the source recorded by an epoch increment is invisible below the new epoch -/
theorem passed_below_bump {sk : Nat → Bool} {so : Nat → Nat} {G n a v : Nat} (hle : n ≤ G)
    (h : PassedUpTo sk (upd so (G + 1) v) n a) : PassedUpTo sk so n a :=
  (passed_upd_src (by omega)).1 h

theorem passed_below_upd {sk : Nat → Bool} {so : Nat → Nat} {k n a v : Nat} (hlt : n < k)
    (h : PassedUpTo sk (upd so k v) n a) : PassedUpTo sk so n a :=
  (passed_upd_src hlt).1 h

theorem passed_below_upd' {sk : Nat → Bool} {so : Nat → Nat} {k n a v : Nat} (hlt : n < k)
    (h : PassedUpTo sk so n a) : PassedUpTo sk (upd so k v) n a :=
  (passed_upd_src hlt).2 h

theorem passed_pred {sk : Nat → Bool} {so : Nat → Nat} {m G a : Nat} (h : m + 1 = G)
    (hp : PassedUpTo sk so G a) : so G = a ∨ PassedUpTo sk so m a := by
  subst h
  exact passed_succ.1 hp

theorem Pc.coverOf_mono {pc : Pc} {G x : Nat} (h : pc.coverOf G = some x) : pc.coverOf (G + 1) = some x := by
  cases pc <;> simp [Pc.coverOf] at h ⊢
  case bLoadG x' p n => exact ⟨by omega, h.2⟩
  case bRegU x' p sn =>
    cases sn <;> simp at h ⊢
    · exact h
    · exact ⟨by omega, h.2⟩
  all_goals exact h

theorem mem_of_getElem?_some {reg : List Nat} {i L : Nat} (h : reg[i]? = some L) : L ∈ reg :=
  List.mem_of_getElem? h

/-- P1 for the list a propagation is about to sync: everything beneath its source in that list has been painted -/
theorem listed_sync (hS : Struct reg s) (hR : Reach reg s) {t src i g L x a : Nat} (hpc : s.pc t = .cSync src i g)
    (hL : reg[i]? = some L) (hx : x ∈ s.items L) (hp : PassedUpTo s.skip s.srcOf s.G a) (ha : Anc s.par x a) :
    s.can x = true ∨ ∃ t', (s.pc t').coverOf s.G = some x := by
  rcases hR.epochNear L (mem_of_getElem?_some hL) with he | he
  · exact hR.listed L x a hx (he ▸ hp) ha
  · rcases passed_pred he hp with h | h
    · have hw := hR.walkG t src (by rw [hpc]; rfl)
      rw [hw.1] at h
      subst h
      rcases hR.walked t src i [] L x (by rw [hpc]; rfl) hL hx with h | h
      · cases h
      · exact Or.inl (h ha)
    · exact hR.listed L x a hx h ha

end TbbVerif.C04
