/-
C04 proofs — P1 (`Reach.listed`) is preserved when a thread starts its next operation (`begin` touches no shared field
that P1 reads, and an idle thread covers nothing).
-/
import TbbVerif.Proofs.C04.ReachJ

namespace TbbVerif.C04
variable {cfg : Cfg} {reg : List Nat} {s : St} {t : Nat}

theorem begin_frame : (begin cfg reg s t).items = s.items ∧ (begin cfg reg s t).skipSt = s.skipSt ∧
    (begin cfg reg s t).srcOf = s.srcOf ∧ (begin cfg reg s t).epoch = s.epoch ∧ (begin cfg reg s t).par = s.par ∧
    (begin cfg reg s t).can = s.can ∧ (begin cfg reg s t).G = s.G ∧ (begin cfg reg s t).pst = s.pst ∧
    (begin cfg reg s t).wst = s.wst ∧ (begin cfg reg s t).rst = s.rst ∧ (begin cfg reg s t).oc = s.oc ∧
    (begin cfg reg s t).fresh = s.fresh ∧ (begin cfg reg s t).joined = s.joined := by
  begin_cases
  all_goals simp

theorem listed_begin (hS : Struct reg s) (hR : Reach reg s) (hi : s.pc t = .idle) :
    ∀ L x a m, x ∈ (begin cfg reg s t).items L →
      Passed (begin cfg reg s t).skipSt (begin cfg reg s t).srcOf (begin cfg reg s t).pst ((begin cfg reg s t).eff L) a m →
      Cur (begin cfg reg s t).wst (begin cfg reg s t).rst a m →
      Anc (begin cfg reg s t).par x a →
      Vf (begin cfg reg s t).par (begin cfg reg s t).can (begin cfg reg s t).rst (begin cfg reg s t).oc m a x ∨
        ∃ t', ((begin cfg reg s t).pc t').coverOf (begin cfg reg s t).G = some x := by
  obtain ⟨e1, e2, e3, e4, e5, e6, e7, e8, e9, e10, e11, e12, e13⟩ := begin_frame (cfg := cfg) (reg := reg) (s := s) (t := t)
  have eeff : ∀ L, (begin cfg reg s t).eff L = s.eff L := by
    intro L
    unfold St.eff
    rw [e12, e13, e4]
  simp only [eeff]
  rw [e1, e2, e3, e5, e6, e7, e8, e9, e10, e11]
  intro L x a m h1 h2 h3 h4
  rcases hR.listed L x a m h1 h2 h3 h4 with h | ⟨w, hw⟩
  · exact Or.inl h
  · refine Or.inr ⟨w, ?_⟩
    have hwt : w ≠ t := by
      intro e
      subst e
      rw [hi] at hw
      simp [Pc.coverOf] at hw
    rw [begin_pc_other hwt]
    exact hw

end TbbVerif.C04
