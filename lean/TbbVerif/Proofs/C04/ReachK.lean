/-
C04 proofs — P1 (`Reach.listed`) is preserved when a thread starts its next operation (`begin` touches no shared field
that P1 reads, and an idle thread covers nothing).
-/
import TbbVerif.Proofs.C04.ReachJ

namespace TbbVerif.C04
variable {reg : List Nat} {s : St} {t : Nat}

theorem begin_frame : (begin reg s t).items = s.items ∧ (begin reg s t).skip = s.skip ∧
    (begin reg s t).srcOf = s.srcOf ∧ (begin reg s t).epoch = s.epoch ∧ (begin reg s t).par = s.par ∧
    (begin reg s t).can = s.can ∧ (begin reg s t).G = s.G := by
  begin_cases
  all_goals simp

theorem listed_begin (hS : Struct reg s) (hO : Orig s) (hR : Reach reg s) (hi : s.pc t = .idle) :
    ∀ L x a, x ∈ (begin reg s t).items L →
      PassedUpTo (begin reg s t).skip (begin reg s t).srcOf ((begin reg s t).epoch L) a →
      Anc (begin reg s t).par x a →
      (begin reg s t).can x = true ∨ ∃ t', ((begin reg s t).pc t').coverOf (begin reg s t).G = some x := by
  obtain ⟨e1, e2, e3, e4, e5, e6, e7⟩ := begin_frame (reg := reg) (s := s) (t := t)
  rw [e1, e2, e3, e4, e5, e6, e7]
  intro L x a h1 h2 h3
  rcases hR.listed L x a h1 h2 h3 with h | ⟨w, hw⟩
  · exact Or.inl h
  · refine Or.inr ⟨w, ?_⟩
    have hwt : w ≠ t := by
      intro e
      subst e
      rw [hi] at hw
      simp [Pc.coverOf] at hw
    rw [begin_pc_other hwt]
    exact hw

end TbbVerif.C04
