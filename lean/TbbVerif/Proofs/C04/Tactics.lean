/-
C04 proofs — case analysis of one step.
-/
import TbbVerif.Proofs.C04.Inv

namespace TbbVerif.C04

/-- split a goal about `exec cfg reg s t` into one goal per pc of `t` and per branch of that access -/
macro "exec_cases" : tactic => `(tactic| (
  unfold exec
  split
  all_goals try split
  all_goals try unfold execCancel
  all_goals try unfold execBind
  all_goals try unfold execOther
  all_goals try unfold walkNext
  all_goals try unfold afterHint
  all_goals try unfold applyReset
  all_goals repeat' split))

/-- split a goal about `begin reg s t` -/
macro "begin_cases" : tactic => `(tactic| (
  unfold begin
  repeat' split
  all_goals try simp only [popOp, badOp, noteMisuse]
  all_goals try (have hbo := bindOk_spec (by assumption))
  all_goals try (have hdo := destroyOk_spec (by assumption))))

theorem step_eq (cfg : Cfg) (reg : List Nat) (s : St) (t : Nat) :
    step cfg reg s t = exec cfg reg (if s.pc t = .idle then begin cfg reg s t else s) t := rfl

/-- an invariant preserved by `begin` and by `exec` is preserved by `step` -/
theorem step_preserves {cfg : Cfg} {reg : List Nat} {P : St → Prop}
    (hb : ∀ s t, s.pc t = .idle → P s → P (begin cfg reg s t)) (he : ∀ s t, P s → P (exec cfg reg s t)) :
    ∀ s t, P s → P (step cfg reg s t) := by
  intro s t h
  rw [step_eq]
  split
  · rename_i hi
    exact he _ _ (hb _ _ hi h)
  · exact he _ _ h

end TbbVerif.C04
