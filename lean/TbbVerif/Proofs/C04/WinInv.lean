/-
C04 proofs — one winner per cancellation, and stickiness, for any protocol in which the binder's copies never clear the
flag (`cfg.copyNeverClears = true`; whether the propagator holds the fall-back mutex is irrelevant here).
-/
import TbbVerif.Proofs.C04.OrigAll

namespace TbbVerif.C04

structure Win (s : St) : Prop where
  /-- the binder only ever stores "cancelled" -/
  copyT : ∀ t p v, (s.pc t).copyVal = some (p, v) → v = true
  /-- at most one winning call per reset -/
  winsLe : ∀ x, s.wins x ≤ s.resets x + 1
  /-- while the flag is clear every win so far has been undone by a reset -/
  winsClr : ∀ x, s.can x = false → s.wins x ≤ s.resets x

end TbbVerif.C04
