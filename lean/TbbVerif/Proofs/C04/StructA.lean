/-
C04 proofs — structural invariants (regMx, lmxWalk, lmxOrph): preservation by `exec` and `begin`.
-/
import TbbVerif.Proofs.C04.Frame

namespace TbbVerif.C04
variable {cfg : Cfg} {r : List RF} {reg : List Nat} {s : St} {t : Nat}

theorem regMx_exec_c (hS : Struct reg s) :
    ∀ t', ((execCancel cfg reg s t).pc t').inReg = true → (execCancel cfg reg s t).regMx = some t' := by
  have g0 := hS.regMx
  have g0t := hS.regMx t
  unfold execCancel
  try unfold walkNext
  try unfold afterHint
  try unfold applyReset
  repeat' split
  all_goals (try rw [‹s.pc t = _›] at g0t)
  all_goals (try simp [Pc.inReg] at g0t)
  all_goals (intro t' h1; by_cases ht : t' = t <;> first | (subst ht; try simp [upd_apply, afterLists, nextList, Pc.inReg] at h1 ⊢) | (try simp [ht, upd_apply, afterLists, nextList] at h1 ⊢))
  all_goals grind [Pc.inReg]

theorem regMx_exec_b (hS : Struct reg s) :
    ∀ t', ((execBind cfg s t).pc t').inReg = true → (execBind cfg s t).regMx = some t' := by
  have g0 := hS.regMx
  have g0t := hS.regMx t
  unfold execBind
  try unfold walkNext
  try unfold afterHint
  try unfold applyReset
  repeat' split
  all_goals (try rw [‹s.pc t = _›] at g0t)
  all_goals (try simp [Pc.inReg] at g0t)
  all_goals (intro t' h1; by_cases ht : t' = t <;> first | (subst ht; try simp [upd_apply, afterLists, nextList, Pc.inReg] at h1 ⊢) | (try simp [ht, upd_apply, afterLists, nextList] at h1 ⊢))
  all_goals grind [Pc.inReg]

theorem regMx_exec_o (hS : Struct reg s) :
    ∀ t', ((execOther s t).pc t').inReg = true → (execOther s t).regMx = some t' := by
  have g0 := hS.regMx
  have g0t := hS.regMx t
  unfold execOther
  try unfold walkNext
  try unfold afterHint
  try unfold applyReset
  repeat' split
  all_goals (try rw [‹s.pc t = _›] at g0t)
  all_goals (try simp [Pc.inReg] at g0t)
  all_goals (intro t' h1; by_cases ht : t' = t <;> first | (subst ht; try simp [upd_apply, afterLists, nextList, Pc.inReg] at h1 ⊢) | (try simp [ht, upd_apply, afterLists, nextList] at h1 ⊢))
  all_goals grind [Pc.inReg]

theorem regMx_exec (hS : Struct reg s) :
    ∀ t', ((exec cfg reg s t).pc t').inReg = true → (exec cfg reg s t).regMx = some t' := by
  unfold exec
  split
  · exact regMx_exec_c hS
  · split
    · exact regMx_exec_b hS
    · exact regMx_exec_o hS

theorem regMx_begin (hS : Struct reg s) (hi : s.pc t = .idle) :
    ∀ t', ((begin cfg reg s t).pc t').inReg = true → (begin cfg reg s t).regMx = some t' := by
  have g0 := hS.regMx
  have g0t := hS.regMx t
  begin_cases
  all_goals (try rw [hi] at g0t)
  all_goals (try simp [Pc.inReg] at g0t)
  all_goals (intro t' h1; by_cases ht : t' = t <;> first | (subst ht; try simp [upd_apply, afterLists, nextList, Pc.inReg] at h1 ⊢) | (try simp [ht, upd_apply, afterLists, nextList] at h1 ⊢))
  all_goals grind [Pc.inReg]

theorem lmxWalk_exec_c (hS : Struct reg s) :
    ∀ t' i L, ((execCancel cfg reg s t).pc t').walkIdx = some i → reg[i]? = some L → (execCancel cfg reg s t).lmx L = some t' := by
  have g0 := hS.lmxWalk
  have g0t := hS.lmxWalk t
  have g1 := hS.lmxBind
  have g1t := hS.lmxBind t
  have g2 := hS.lmxDes
  have g2t := hS.lmxDes t
  have g3 := hS.lmxOrph
  have g3t := hS.lmxOrph t
  unfold execCancel
  try unfold walkNext
  try unfold afterHint
  try unfold applyReset
  repeat' split
  all_goals (try rw [‹s.pc t = _›] at g0t)
  all_goals (try simp [Pc.walkIdx] at g0t)
  all_goals (try rw [‹s.pc t = _›] at g1t)
  all_goals (try simp [Pc.walkIdx] at g1t)
  all_goals (try rw [‹s.pc t = _›] at g2t)
  all_goals (try simp [Pc.walkIdx] at g2t)
  all_goals (try rw [‹s.pc t = _›] at g3t)
  all_goals (try simp [Pc.walkIdx] at g3t)
  all_goals (intro t' i L h1 h2; by_cases ht : t' = t <;> first | (subst ht; try simp [upd_apply, afterLists, nextList, Pc.walkIdx] at h1 h2 ⊢) | (try simp [ht, upd_apply, afterLists, nextList] at h1 h2 ⊢))
  all_goals grind [Pc.walkIdx]

theorem lmxWalk_exec_b (hS : Struct reg s) :
    ∀ t' i L, ((execBind cfg s t).pc t').walkIdx = some i → reg[i]? = some L → (execBind cfg s t).lmx L = some t' := by
  have g0 := hS.lmxWalk
  have g0t := hS.lmxWalk t
  have g1 := hS.lmxBind
  have g1t := hS.lmxBind t
  have g2 := hS.lmxDes
  have g2t := hS.lmxDes t
  have g3 := hS.lmxOrph
  have g3t := hS.lmxOrph t
  unfold execBind
  try unfold walkNext
  try unfold afterHint
  try unfold applyReset
  repeat' split
  all_goals (try rw [‹s.pc t = _›] at g0t)
  all_goals (try simp [Pc.walkIdx] at g0t)
  all_goals (try rw [‹s.pc t = _›] at g1t)
  all_goals (try simp [Pc.walkIdx] at g1t)
  all_goals (try rw [‹s.pc t = _›] at g2t)
  all_goals (try simp [Pc.walkIdx] at g2t)
  all_goals (try rw [‹s.pc t = _›] at g3t)
  all_goals (try simp [Pc.walkIdx] at g3t)
  all_goals (intro t' i L h1 h2; by_cases ht : t' = t <;> first | (subst ht; try simp [upd_apply, afterLists, nextList, Pc.walkIdx] at h1 h2 ⊢) | (try simp [ht, upd_apply, afterLists, nextList] at h1 h2 ⊢))
  all_goals grind [Pc.walkIdx]

theorem lmxWalk_exec_o (hS : Struct reg s) :
    ∀ t' i L, ((execOther s t).pc t').walkIdx = some i → reg[i]? = some L → (execOther s t).lmx L = some t' := by
  have g0 := hS.lmxWalk
  have g0t := hS.lmxWalk t
  have g1 := hS.lmxBind
  have g1t := hS.lmxBind t
  have g2 := hS.lmxDes
  have g2t := hS.lmxDes t
  have g3 := hS.lmxOrph
  have g3t := hS.lmxOrph t
  unfold execOther
  try unfold walkNext
  try unfold afterHint
  try unfold applyReset
  repeat' split
  all_goals (try rw [‹s.pc t = _›] at g0t)
  all_goals (try simp [Pc.walkIdx] at g0t)
  all_goals (try rw [‹s.pc t = _›] at g1t)
  all_goals (try simp [Pc.walkIdx] at g1t)
  all_goals (try rw [‹s.pc t = _›] at g2t)
  all_goals (try simp [Pc.walkIdx] at g2t)
  all_goals (try rw [‹s.pc t = _›] at g3t)
  all_goals (try simp [Pc.walkIdx] at g3t)
  all_goals (intro t' i L h1 h2; by_cases ht : t' = t <;> first | (subst ht; try simp [upd_apply, afterLists, nextList, Pc.walkIdx] at h1 h2 ⊢) | (try simp [ht, upd_apply, afterLists, nextList] at h1 h2 ⊢))
  all_goals grind [Pc.walkIdx]

theorem lmxWalk_exec (hS : Struct reg s) :
    ∀ t' i L, ((exec cfg reg s t).pc t').walkIdx = some i → reg[i]? = some L → (exec cfg reg s t).lmx L = some t' := by
  unfold exec
  split
  · exact lmxWalk_exec_c hS
  · split
    · exact lmxWalk_exec_b hS
    · exact lmxWalk_exec_o hS

theorem lmxWalk_begin (hS : Struct reg s) (hi : s.pc t = .idle) :
    ∀ t' i L, ((begin cfg reg s t).pc t').walkIdx = some i → reg[i]? = some L → (begin cfg reg s t).lmx L = some t' := by
  have g0 := hS.lmxWalk
  have g0t := hS.lmxWalk t
  have g1 := hS.lmxBind
  have g1t := hS.lmxBind t
  have g2 := hS.lmxDes
  have g2t := hS.lmxDes t
  have g3 := hS.lmxOrph
  have g3t := hS.lmxOrph t
  begin_cases
  all_goals (try rw [hi] at g0t)
  all_goals (try simp [Pc.walkIdx] at g0t)
  all_goals (try rw [hi] at g1t)
  all_goals (try simp [Pc.walkIdx] at g1t)
  all_goals (try rw [hi] at g2t)
  all_goals (try simp [Pc.walkIdx] at g2t)
  all_goals (try rw [hi] at g3t)
  all_goals (try simp [Pc.walkIdx] at g3t)
  all_goals (intro t' i L h1 h2; by_cases ht : t' = t <;> first | (subst ht; try simp [upd_apply, afterLists, nextList, Pc.walkIdx] at h1 h2 ⊢) | (try simp [ht, upd_apply, afterLists, nextList] at h1 h2 ⊢))
  all_goals grind [Pc.walkIdx]

theorem lmxOrph_exec_c (hS : Struct reg s) :
    ∀ t', (execCancel cfg reg s t).pc t' = .xOrphU → (execCancel cfg reg s t).lmx t' = some t' := by
  have g0 := hS.lmxWalk
  have g0t := hS.lmxWalk t
  have g1 := hS.lmxBind
  have g1t := hS.lmxBind t
  have g2 := hS.lmxDes
  have g2t := hS.lmxDes t
  have g3 := hS.lmxOrph
  have g3t := hS.lmxOrph t
  unfold execCancel
  try unfold walkNext
  try unfold afterHint
  try unfold applyReset
  repeat' split
  all_goals (try rw [‹s.pc t = _›] at g0t)
  all_goals (try simp [Pc.walkIdx] at g0t)
  all_goals (try rw [‹s.pc t = _›] at g1t)
  all_goals (try simp [Pc.walkIdx] at g1t)
  all_goals (try rw [‹s.pc t = _›] at g2t)
  all_goals (try simp [Pc.walkIdx] at g2t)
  all_goals (try rw [‹s.pc t = _›] at g3t)
  all_goals (try simp [Pc.walkIdx] at g3t)
  all_goals (intro t' h1; by_cases ht : t' = t <;> first | (subst ht; try simp [upd_apply, afterLists, nextList, Pc.walkIdx] at h1 ⊢) | (try simp [ht, upd_apply, afterLists, nextList] at h1 ⊢))
  all_goals grind [Pc.walkIdx]

theorem lmxOrph_exec_b (hS : Struct reg s) :
    ∀ t', (execBind cfg s t).pc t' = .xOrphU → (execBind cfg s t).lmx t' = some t' := by
  have g0 := hS.lmxWalk
  have g0t := hS.lmxWalk t
  have g1 := hS.lmxBind
  have g1t := hS.lmxBind t
  have g2 := hS.lmxDes
  have g2t := hS.lmxDes t
  have g3 := hS.lmxOrph
  have g3t := hS.lmxOrph t
  unfold execBind
  try unfold walkNext
  try unfold afterHint
  try unfold applyReset
  repeat' split
  all_goals (try rw [‹s.pc t = _›] at g0t)
  all_goals (try simp [Pc.walkIdx] at g0t)
  all_goals (try rw [‹s.pc t = _›] at g1t)
  all_goals (try simp [Pc.walkIdx] at g1t)
  all_goals (try rw [‹s.pc t = _›] at g2t)
  all_goals (try simp [Pc.walkIdx] at g2t)
  all_goals (try rw [‹s.pc t = _›] at g3t)
  all_goals (try simp [Pc.walkIdx] at g3t)
  all_goals (intro t' h1; by_cases ht : t' = t <;> first | (subst ht; try simp [upd_apply, afterLists, nextList, Pc.walkIdx] at h1 ⊢) | (try simp [ht, upd_apply, afterLists, nextList] at h1 ⊢))
  all_goals grind [Pc.walkIdx]

theorem lmxOrph_exec_o (hS : Struct reg s) :
    ∀ t', (execOther s t).pc t' = .xOrphU → (execOther s t).lmx t' = some t' := by
  have g0 := hS.lmxWalk
  have g0t := hS.lmxWalk t
  have g1 := hS.lmxBind
  have g1t := hS.lmxBind t
  have g2 := hS.lmxDes
  have g2t := hS.lmxDes t
  have g3 := hS.lmxOrph
  have g3t := hS.lmxOrph t
  unfold execOther
  try unfold walkNext
  try unfold afterHint
  try unfold applyReset
  repeat' split
  all_goals (try rw [‹s.pc t = _›] at g0t)
  all_goals (try simp [Pc.walkIdx] at g0t)
  all_goals (try rw [‹s.pc t = _›] at g1t)
  all_goals (try simp [Pc.walkIdx] at g1t)
  all_goals (try rw [‹s.pc t = _›] at g2t)
  all_goals (try simp [Pc.walkIdx] at g2t)
  all_goals (try rw [‹s.pc t = _›] at g3t)
  all_goals (try simp [Pc.walkIdx] at g3t)
  all_goals (intro t' h1; by_cases ht : t' = t <;> first | (subst ht; try simp [upd_apply, afterLists, nextList, Pc.walkIdx] at h1 ⊢) | (try simp [ht, upd_apply, afterLists, nextList] at h1 ⊢))
  all_goals grind [Pc.walkIdx]

theorem lmxOrph_exec (hS : Struct reg s) :
    ∀ t', (exec cfg reg s t).pc t' = .xOrphU → (exec cfg reg s t).lmx t' = some t' := by
  unfold exec
  split
  · exact lmxOrph_exec_c hS
  · split
    · exact lmxOrph_exec_b hS
    · exact lmxOrph_exec_o hS

theorem lmxOrph_begin (hS : Struct reg s) (hi : s.pc t = .idle) :
    ∀ t', (begin cfg reg s t).pc t' = .xOrphU → (begin cfg reg s t).lmx t' = some t' := by
  have g0 := hS.lmxWalk
  have g0t := hS.lmxWalk t
  have g1 := hS.lmxBind
  have g1t := hS.lmxBind t
  have g2 := hS.lmxDes
  have g2t := hS.lmxDes t
  have g3 := hS.lmxOrph
  have g3t := hS.lmxOrph t
  begin_cases
  all_goals (try rw [hi] at g0t)
  all_goals (try simp [Pc.walkIdx] at g0t)
  all_goals (try rw [hi] at g1t)
  all_goals (try simp [Pc.walkIdx] at g1t)
  all_goals (try rw [hi] at g2t)
  all_goals (try simp [Pc.walkIdx] at g2t)
  all_goals (try rw [hi] at g3t)
  all_goals (try simp [Pc.walkIdx] at g3t)
  all_goals (intro t' h1; by_cases ht : t' = t <;> first | (subst ht; try simp [upd_apply, afterLists, nextList, Pc.walkIdx] at h1 ⊢) | (try simp [ht, upd_apply, afterLists, nextList] at h1 ⊢))
  all_goals grind [Pc.walkIdx]

end TbbVerif.C04
