/-
C04 proofs — structural invariants, part A: mutex ownership.
-/
import TbbVerif.Proofs.C04.Frame

namespace TbbVerif.C04
variable {cfg : Cfg} {reg : List Nat} {s : St} {t : Nat}

theorem regMx_exec (hS : Struct reg s) :
    ∀ t', ((exec cfg reg s t).pc t').inReg = true → (exec cfg reg s t).regMx = some t' := by
  have h := hS.regMx
  exec_cases
  all_goals (intro t' h'; try simp [upd_apply, afterLists, nextList] at h' ⊢)
  all_goals grind [Pc.inReg]

theorem regMx_begin (hS : Struct reg s) :
    ∀ t', ((begin reg s t).pc t').inReg = true → (begin reg s t).regMx = some t' := by
  have h := hS.regMx
  begin_cases
  all_goals (intro t' h'; try simp [upd_apply] at h' ⊢)
  all_goals grind [Pc.inReg]

theorem lmxWalk_exec (hS : Struct reg s) :
    ∀ t' i L, ((exec cfg reg s t).pc t').walkIdx = some i → reg[i]? = some L → (exec cfg reg s t).lmx L = some t' := by
  have h1 := hS.lmxWalk
  have h2 := hS.lmxBind
  have h3 := hS.lmxDes
  exec_cases
  all_goals (intro t' i L h' hL; try simp [upd_apply, afterLists, nextList] at h' ⊢)
  all_goals grind [Pc.walkIdx]

theorem lmxWalk_begin (hS : Struct reg s) :
    ∀ t' i L, ((begin reg s t).pc t').walkIdx = some i → reg[i]? = some L → (begin reg s t).lmx L = some t' := by
  have h1 := hS.lmxWalk
  begin_cases
  all_goals (intro t' i L h' hL; try simp [upd_apply] at h' ⊢)
  all_goals grind [Pc.walkIdx]

end TbbVerif.C04
