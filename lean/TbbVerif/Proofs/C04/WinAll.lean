/-
C04 proofs — `Win` along every schedule; stickiness of the cancellation flag.
-/
import TbbVerif.Proofs.C04.WinA

namespace TbbVerif.C04
variable {cfg : Cfg} {reg : List Nat} {s : St} {t : Nat}

theorem win_exec (hS : Struct reg s) (hc : cfg.copyNeverClears = true) (hW : Win s) : Win (exec cfg reg s t) where
  copyT := copyT_exec hS hc hW
  winsLe := winsLe_exec hS hc hW
  winsClr := winsClr_exec hS hc hW

theorem win_begin (hS : Struct reg s) (hc : cfg.copyNeverClears = true) (hW : Win s) (hi : s.pc t = .idle) :
    Win (begin cfg reg s t) where
  copyT := copyT_begin hS hc hW hi
  winsLe := winsLe_begin hS hc hW hi
  winsClr := winsClr_begin hS hc hW hi

theorem sw_step (hc : cfg.copyNeverClears = true) (h : Struct reg s ∧ Win s) :
    Struct reg (step cfg reg s t) ∧ Win (step cfg reg s t) :=
  step_preserves (P := fun s => Struct reg s ∧ Win s)
    (fun _ _ hi h => ⟨struct_begin h.1 hi, win_begin h.1 hc h.2 hi⟩)
    (fun _ _ h => ⟨struct_exec h.1, win_exec h.1 hc h.2⟩) s t h

theorem win_init (reg : List Nat) (prog : Nat → List Op) : Win (init reg prog) := by
  constructor <;> simp [init, Pc.copyVal]

theorem sw_run (cfg : Cfg) (hc : cfg.copyNeverClears = true) (reg : List Nat) (prog : Nat → List Op) (sched : List Nat) :
    Struct reg ((CtxTree cfg reg prog).run sched) ∧ Win ((CtxTree cfg reg prog).run sched) :=
  Sys.inv_run (CtxTree cfg reg prog) (fun s => Struct reg s ∧ Win s) ⟨struct_init reg prog, win_init reg prog⟩
    (fun _ _ h => sw_step hc h) sched

/-- one access: a set flag stays set unless this access is a reset of that context; reset counts never decrease -/
theorem sticky_exec (hc : cfg.copyNeverClears = true) (hW : Win s) {x : Nat} :
    s.resets x ≤ (exec cfg reg s t).resets x ∧
    (s.can x = true → (exec cfg reg s t).can x = true ∨ s.resets x < (exec cfg reg s t).resets x) := by
  have g0 := hW.copyT t
  exec_cases
  all_goals (try rw [‹s.pc t = _›] at g0)
  all_goals (try simp [Pc.copyVal] at g0)
  all_goals (try simp [upd_apply])
  all_goals grind

theorem sticky_begin (cfg : Cfg) {x : Nat} : (begin cfg reg s t).resets x = s.resets x ∧ (begin cfg reg s t).can x = s.can x := by
  begin_cases
  all_goals simp

theorem sticky_step (hS : Struct reg s) (hc : cfg.copyNeverClears = true) (hW : Win s) {x : Nat} :
    s.resets x ≤ (step cfg reg s t).resets x ∧
    (s.can x = true → (step cfg reg s t).can x = true ∨ s.resets x < (step cfg reg s t).resets x) := by
  rw [step_eq]
  split
  · rename_i hi
    have hb := sticky_begin cfg (reg := reg) (s := s) (t := t) (x := x)
    have he := sticky_exec (cfg := cfg) (reg := reg) (t := t) hc (win_begin hS hc hW hi) (x := x)
    rw [hb.1, hb.2] at he
    exact he
  · exact sticky_exec hc hW

/-- along any continuation of a reachable state -/
theorem sticky_runFrom (hc : cfg.copyNeverClears = true) {x : Nat} :
    ∀ (sched : List Nat) (s : St), Struct reg s ∧ Win s →
      s.resets x ≤ ((CtxTree cfg reg fun _ => []).runFrom s sched).resets x ∧
      (s.can x = true → ((CtxTree cfg reg fun _ => []).runFrom s sched).can x = true ∨
        s.resets x < ((CtxTree cfg reg fun _ => []).runFrom s sched).resets x) := by
  intro sched
  induction sched with
  | nil => intro s _; simp [Sys.runFrom]
  | cons t ts ih =>
    intro s h
    have h1 := sticky_step (cfg := cfg) (reg := reg) (t := t) h.1 hc h.2 (x := x)
    have h2 := ih (step cfg reg s t) (sw_step hc h)
    simp only [Sys.runFrom_cons]
    change (s.resets x ≤ ((CtxTree cfg reg fun _ => []).runFrom (step cfg reg s t) ts).resets x) ∧ _
    refine ⟨Nat.le_trans h1.1 h2.1, ?_⟩
    intro hx
    rcases h1.2 hx with h' | h'
    · rcases h2.2 h' with h'' | h''
      · exact Or.inl h''
      · exact Or.inr (Nat.lt_of_le_of_lt h1.1 h'')
    · exact Or.inr (Nat.lt_of_lt_of_le h' h2.1)

end TbbVerif.C04
