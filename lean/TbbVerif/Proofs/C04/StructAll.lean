/-
C04 proofs — the structural invariant holds in every reachable state of `CtxTree` (any cfg, registry, programs, schedule).
-/
import TbbVerif.Proofs.C04.StructG

namespace TbbVerif.C04
variable {cfg : Cfg} {reg : List Nat} {s : St} {t : Nat}

theorem struct_exec (hS : Struct reg s) : Struct reg (exec cfg reg s t) where
  regMx := regMx_exec hS
  lmxWalk := lmxWalk_exec hS
  lmxBind := lmxBind_exec hS
  lmxDes := lmxDes_exec hS
  lmxOrph := lmxOrph_exec hS
  regPc := regPc_exec hS
  actReg := actReg_exec hS
  actWas := actWas_exec hS
  bindAct := bindAct_exec hS
  walkAct := walkAct_exec hS
  notWasEmpty := notWasEmpty_exec hS
  ocItems := ocItems_exec hS
  bindReg := bindReg_exec hS
  parSet := parSet_exec hS
  isoRoot := isoRoot_exec hS
  createdPar := createdPar_exec hS
  parDone := parDone_exec hS
  ownsSt := ownsSt_exec hS
  ownsUnique := ownsUnique_exec hS
  ownerPar := ownerPar_exec hS
  regMem := regMem_exec hS
  snapPar := snapPar_exec hS
  rootPar := rootPar_exec hS
  itemsOk := itemsOk_exec hS
  itemsNodup := itemsNodup_exec hS
  createdLst := createdLst_exec hS
  preReg := preReg_exec hS
  desGone := desGone_exec hS
  boundReg := boundReg_exec hS
  parAlive := fun L x p h1 h2 => parAlive_exec hS L x p h1 h2
  bindAlive := fun t' p h => bindAlive_exec hS t' p h
  dyingOk := dyingOk_exec hS
  dyingSt := dyingSt_exec hS
  bindNotDying := bindNotDying_exec hS

theorem struct_begin (hS : Struct reg s) (hi : s.pc t = .idle) : Struct reg (begin cfg reg s t) where
  regMx := regMx_begin hS hi
  lmxWalk := lmxWalk_begin hS hi
  lmxBind := lmxBind_begin hS hi
  lmxDes := lmxDes_begin hS hi
  lmxOrph := lmxOrph_begin hS hi
  regPc := regPc_begin hS hi
  actReg := actReg_begin hS hi
  actWas := actWas_begin hS hi
  bindAct := bindAct_begin hS hi
  walkAct := walkAct_begin hS hi
  notWasEmpty := notWasEmpty_begin hS hi
  ocItems := ocItems_begin hS hi
  bindReg := bindReg_begin hS hi
  parSet := parSet_begin hS hi
  isoRoot := isoRoot_begin hS hi
  createdPar := createdPar_begin hS hi
  parDone := parDone_begin hS hi
  ownsSt := ownsSt_begin hS hi
  ownsUnique := ownsUnique_begin hS
  ownerPar := ownerPar_begin hS hi
  regMem := regMem_begin hS hi
  snapPar := snapPar_begin hS hi
  rootPar := rootPar_begin hS hi
  itemsOk := itemsOk_begin hS hi
  itemsNodup := itemsNodup_begin hS hi
  createdLst := createdLst_begin hS hi
  preReg := preReg_begin hS hi
  desGone := desGone_begin hS hi
  boundReg := boundReg_begin hS hi
  parAlive := fun L x p h1 h2 => parAlive_begin hS hi L x p h1 h2
  bindAlive := fun t' p h => bindAlive_begin hS hi t' p h
  dyingOk := dyingOk_begin hS hi
  dyingSt := dyingSt_begin hS hi
  bindNotDying := bindNotDying_begin hS hi

theorem struct_step (hS : Struct reg s) : Struct reg (step cfg reg s t) :=
  step_preserves (P := Struct reg) (fun _ _ hi h => struct_begin h hi) (fun _ _ h => struct_exec h) s t hS

theorem struct_init (reg : List Nat) (prog : Nat → List Op) : Struct reg (init reg prog) := by
  constructor <;> simp [init, Pc.inReg, Pc.walkIdx, Pc.isBind, Pc.owns, Pc.owner, Pc.registered, Pc.snapBranch, Pc.rootBranch,
    Pc.bindParent, Pc.destroying, Pc.bindTarget, Pc.atList]
  · intro t h _; exact h

/-- the structural invariant holds along every schedule -/
theorem struct_run (cfg : Cfg) (reg : List Nat) (prog : Nat → List Op) (sched : List Nat) :
    Struct reg ((CtxTree cfg reg prog).run sched) :=
  Sys.inv_run (CtxTree cfg reg prog) (Struct reg) (struct_init reg prog) (fun _ _ h => struct_step h) sched

end TbbVerif.C04
