/-
C04 proofs — structural invariants (painting, walked): preservation by `exec` and `begin`.
-/
import TbbVerif.Proofs.C04.ReachLemmas2

namespace TbbVerif.C04
variable {cfg : Cfg} {r : List RF} {reg : List Nat} {s : St} {t : Nat}

theorem painting_exec_c (hS : Struct reg s) (hO : Orig s) (hH : Hint s) (hR : Reach reg s) :
    ∀ t' a i x chain rest, (execCancel (C r) reg s t).pc t' = .cPaint a i x chain rest → Vf (execCancel (C r) reg s t).par (execCancel (C r) reg s t).can (execCancel (C r) reg s t).rst (execCancel (C r) reg s t).oc ((execCancel (C r) reg s t).pst (execCancel (C r) reg s t).G) a x ∨ chain.head? = some x := by
  have g0 := hR.painting
  have g0t := hR.painting t
  have g1 := hR.copyTrue
  have g1t := hR.copyTrue t
  have g2 := hR.pstLe
  have g3 := hS.regMx
  have g3t := hS.regMx t
  have l0 := @vf_cas reg s hS
  unfold execCancel
  try unfold walkNext
  try unfold afterHint
  try unfold applyReset
  try simp only [C_propHolds, C_copyNeverClears, afterLists, ↓reduceIte, Bool.true_and]
  repeat' split
  all_goals (try rw [‹s.pc t = _›] at g0t)
  all_goals (try simp [Pc.copyVal, Pc.inReg] at g0t)
  all_goals (try rw [‹s.pc t = _›] at g1t)
  all_goals (try simp [Pc.copyVal, Pc.inReg] at g1t)
  all_goals (try rw [‹s.pc t = _›] at g3t)
  all_goals (try simp [Pc.copyVal, Pc.inReg] at g3t)
  all_goals (intro t' a i x chain rest h1; by_cases ht : t' = t <;> first | (subst ht; try simp [C, St.eff, upd_apply, afterLists, nextList, Pc.copyVal, Pc.inReg] at h1 ⊢) | (try simp [ht, C, St.eff, upd_apply, afterLists, nextList] at h1 ⊢))
  all_goals grind [Pc.copyVal, Pc.inReg , chainUp_sound, vf_upd_true, vf_upd_true_self, vf_reset, vf_exit]

theorem painting_exec_b (hS : Struct reg s) (hO : Orig s) (hH : Hint s) (hR : Reach reg s) :
    ∀ t' a i x chain rest, (execBind (C r) s t).pc t' = .cPaint a i x chain rest → Vf (execBind (C r) s t).par (execBind (C r) s t).can (execBind (C r) s t).rst (execBind (C r) s t).oc ((execBind (C r) s t).pst (execBind (C r) s t).G) a x ∨ chain.head? = some x := by
  have g0 := hR.painting
  have g0t := hR.painting t
  have g1 := hR.copyTrue
  have g1t := hR.copyTrue t
  have g2 := hR.pstLe
  have g3 := hS.regMx
  have g3t := hS.regMx t
  have l0 := @vf_cas reg s hS
  unfold execBind
  try unfold walkNext
  try unfold afterHint
  try unfold applyReset
  try simp only [C_propHolds, C_copyNeverClears, afterLists, ↓reduceIte, Bool.true_and]
  repeat' split
  all_goals (try rw [‹s.pc t = _›] at g0t)
  all_goals (try simp [Pc.copyVal, Pc.inReg] at g0t)
  all_goals (try rw [‹s.pc t = _›] at g1t)
  all_goals (try simp [Pc.copyVal, Pc.inReg] at g1t)
  all_goals (try rw [‹s.pc t = _›] at g3t)
  all_goals (try simp [Pc.copyVal, Pc.inReg] at g3t)
  all_goals (intro t' a i x chain rest h1; by_cases ht : t' = t <;> first | (subst ht; try simp [C, St.eff, upd_apply, afterLists, nextList, Pc.copyVal, Pc.inReg] at h1 ⊢) | (try simp [ht, C, St.eff, upd_apply, afterLists, nextList] at h1 ⊢))
  all_goals grind [Pc.copyVal, Pc.inReg , chainUp_sound, vf_upd_true, vf_upd_true_self, vf_reset, vf_exit]

theorem painting_exec_o (hS : Struct reg s) (hO : Orig s) (hH : Hint s) (hR : Reach reg s) :
    ∀ t' a i x chain rest, (execOther s t).pc t' = .cPaint a i x chain rest → Vf (execOther s t).par (execOther s t).can (execOther s t).rst (execOther s t).oc ((execOther s t).pst (execOther s t).G) a x ∨ chain.head? = some x := by
  have g0 := hR.painting
  have g0t := hR.painting t
  have g1 := hR.copyTrue
  have g1t := hR.copyTrue t
  have g2 := hR.pstLe
  have g3 := hS.regMx
  have g3t := hS.regMx t
  have l0 := @vf_cas reg s hS
  unfold execOther
  try unfold walkNext
  try unfold afterHint
  try unfold applyReset
  try simp only [C_propHolds, C_copyNeverClears, afterLists, ↓reduceIte, Bool.true_and]
  repeat' split
  all_goals (try rw [‹s.pc t = _›] at g0t)
  all_goals (try simp [Pc.copyVal, Pc.inReg] at g0t)
  all_goals (try rw [‹s.pc t = _›] at g1t)
  all_goals (try simp [Pc.copyVal, Pc.inReg] at g1t)
  all_goals (try rw [‹s.pc t = _›] at g3t)
  all_goals (try simp [Pc.copyVal, Pc.inReg] at g3t)
  all_goals (intro t' a i x chain rest h1; by_cases ht : t' = t <;> first | (subst ht; try simp [C, St.eff, upd_apply, afterLists, nextList, Pc.copyVal, Pc.inReg] at h1 ⊢) | (try simp [ht, C, St.eff, upd_apply, afterLists, nextList] at h1 ⊢))
  all_goals grind [Pc.copyVal, Pc.inReg , chainUp_sound, vf_upd_true, vf_upd_true_self, vf_reset, vf_exit]

theorem painting_exec (hS : Struct reg s) (hO : Orig s) (hH : Hint s) (hR : Reach reg s) :
    ∀ t' a i x chain rest, (exec (C r) reg s t).pc t' = .cPaint a i x chain rest → Vf (exec (C r) reg s t).par (exec (C r) reg s t).can (exec (C r) reg s t).rst (exec (C r) reg s t).oc ((exec (C r) reg s t).pst (exec (C r) reg s t).G) a x ∨ chain.head? = some x := by
  unfold exec
  split
  · exact painting_exec_c hS hO hH hR
  · split
    · exact painting_exec_b hS hO hH hR
    · exact painting_exec_o hS hO hH hR

theorem painting_begin (hS : Struct reg s) (hO : Orig s) (hH : Hint s) (hR : Reach reg s) (hi : s.pc t = .idle) :
    ∀ t' a i x chain rest, (begin (C r) reg s t).pc t' = .cPaint a i x chain rest → Vf (begin (C r) reg s t).par (begin (C r) reg s t).can (begin (C r) reg s t).rst (begin (C r) reg s t).oc ((begin (C r) reg s t).pst (begin (C r) reg s t).G) a x ∨ chain.head? = some x := by
  have g0 := hR.painting
  have g0t := hR.painting t
  have g1 := hR.copyTrue
  have g1t := hR.copyTrue t
  have g2 := hR.pstLe
  have g3 := hS.regMx
  have g3t := hS.regMx t
  have l0 := @vf_cas reg s hS
  begin_cases
  all_goals (try rw [hi] at g0t)
  all_goals (try simp [Pc.copyVal, Pc.inReg] at g0t)
  all_goals (try rw [hi] at g1t)
  all_goals (try simp [Pc.copyVal, Pc.inReg] at g1t)
  all_goals (try rw [hi] at g3t)
  all_goals (try simp [Pc.copyVal, Pc.inReg] at g3t)
  all_goals (intro t' a i x chain rest h1; by_cases ht : t' = t <;> first | (subst ht; try simp [C, St.eff, upd_apply, afterLists, nextList, Pc.copyVal, Pc.inReg] at h1 ⊢) | (try simp [ht, C, St.eff, upd_apply, afterLists, nextList] at h1 ⊢))
  all_goals grind [Pc.copyVal, Pc.inReg , chainUp_sound, vf_upd_true, vf_upd_true_self, vf_reset, vf_exit]

set_option maxHeartbeats 1600000 in
theorem walked_exec_c (hS : Struct reg s) (hO : Orig s) (hH : Hint s) (hR : Reach reg s) :
    ∀ t' a i pend L z, ((execCancel (C r) reg s t).pc t').pending = some (a, i, pend) → reg[i]? = some L → z ∈ (execCancel (C r) reg s t).items L → z ∈ pend ∨ (Anc (execCancel (C r) reg s t).par z a → Vf (execCancel (C r) reg s t).par (execCancel (C r) reg s t).can (execCancel (C r) reg s t).rst (execCancel (C r) reg s t).oc ((execCancel (C r) reg s t).pst (execCancel (C r) reg s t).G) a z) := by
  have g0 := hR.walked
  have g0t := hR.walked t
  have g1 := hR.painting
  have g1t := hR.painting t
  have g2 := hR.copyTrue
  have g2t := hR.copyTrue t
  have g3 := hR.pstLe
  have g4 := hS.regMx
  have g4t := hS.regMx t
  have g5 := hS.lmxWalk
  have g5t := hS.lmxWalk t
  have g6 := hS.lmxBind
  have g6t := hS.lmxBind t
  have g7 := hS.createdPar
  have g8 := hS.parDone
  have g9 := hS.itemsOk
  have g9t := hS.itemsOk t
  have l0 := @vf_cas reg s hS
  unfold execCancel
  try unfold walkNext
  try unfold afterHint
  try unfold applyReset
  try simp only [C_propHolds, C_copyNeverClears, afterLists, ↓reduceIte, Bool.true_and]
  repeat' split
  all_goals (try rw [‹s.pc t = _›] at g0t)
  all_goals (try simp [Pc.pending, Pc.pending_walk, Pc.walkIdx, Pc.copyVal, Pc.inReg, nextList_pending, nextList_inReg, nextList_walkIdx, nextList_copyVal] at g0t)
  all_goals (try rw [‹s.pc t = _›] at g1t)
  all_goals (try simp [Pc.pending, Pc.pending_walk, Pc.walkIdx, Pc.copyVal, Pc.inReg, nextList_pending, nextList_inReg, nextList_walkIdx, nextList_copyVal] at g1t)
  all_goals (try rw [‹s.pc t = _›] at g2t)
  all_goals (try simp [Pc.pending, Pc.pending_walk, Pc.walkIdx, Pc.copyVal, Pc.inReg, nextList_pending, nextList_inReg, nextList_walkIdx, nextList_copyVal] at g2t)
  all_goals (try rw [‹s.pc t = _›] at g4t)
  all_goals (try simp [Pc.pending, Pc.pending_walk, Pc.walkIdx, Pc.copyVal, Pc.inReg, nextList_pending, nextList_inReg, nextList_walkIdx, nextList_copyVal] at g4t)
  all_goals (try rw [‹s.pc t = _›] at g5t)
  all_goals (try simp [Pc.pending, Pc.pending_walk, Pc.walkIdx, Pc.copyVal, Pc.inReg, nextList_pending, nextList_inReg, nextList_walkIdx, nextList_copyVal] at g5t)
  all_goals (try rw [‹s.pc t = _›] at g6t)
  all_goals (try simp [Pc.pending, Pc.pending_walk, Pc.walkIdx, Pc.copyVal, Pc.inReg, nextList_pending, nextList_inReg, nextList_walkIdx, nextList_copyVal] at g6t)
  all_goals (try rw [‹s.pc t = _›] at g9t)
  all_goals (try simp [Pc.pending, Pc.pending_walk, Pc.walkIdx, Pc.copyVal, Pc.inReg, nextList_pending, nextList_inReg, nextList_walkIdx, nextList_copyVal] at g9t)
  all_goals (have gw := fun t' a i pend (h : (s.pc t').pending = some (a, i, pend)) => (Pc.pending_walk h).1)
  all_goals (intro t' a i pend L z h1 h2 h3; by_cases ht : t' = t <;> first | (subst ht; (try simp only [upd_same, setPc_pc, finishCancel_pc, nextList_pending, nextList_inReg, nextList_walkIdx, nextList_copyVal] at h1 h2 h3 ⊢); try simp [C, St.eff, upd_apply, afterLists, Pc.pending, Pc.pending_walk, Pc.walkIdx, Pc.copyVal, Pc.inReg, nextList_pending, nextList_inReg, nextList_walkIdx, nextList_copyVal] at h1 h2 h3 ⊢) | (try simp [ht, C, St.eff, upd_apply, afterLists] at h1 h2 h3 ⊢))
  all_goals grind [Pc.pending, Pc.pending_walk, Pc.walkIdx, Pc.copyVal, Pc.inReg, nextList_pending, nextList_inReg, nextList_walkIdx, nextList_copyVal , → Pc.pending_inReg, chain_none_not_anc, chain_some_head, anc_irrefl_s, anc_cas_back, ne_of_registered_created, List.mem_cons, List.mem_of_mem_erase, vf_upd_true, vf_upd_true_self, vf_reset, vf_exit, vf_can]

set_option maxHeartbeats 1600000 in
theorem walked_exec_b (hS : Struct reg s) (hO : Orig s) (hH : Hint s) (hR : Reach reg s) :
    ∀ t' a i pend L z, ((execBind (C r) s t).pc t').pending = some (a, i, pend) → reg[i]? = some L → z ∈ (execBind (C r) s t).items L → z ∈ pend ∨ (Anc (execBind (C r) s t).par z a → Vf (execBind (C r) s t).par (execBind (C r) s t).can (execBind (C r) s t).rst (execBind (C r) s t).oc ((execBind (C r) s t).pst (execBind (C r) s t).G) a z) := by
  have g0 := hR.walked
  have g0t := hR.walked t
  have g1 := hR.painting
  have g1t := hR.painting t
  have g2 := hR.copyTrue
  have g2t := hR.copyTrue t
  have g3 := hR.pstLe
  have g4 := hS.regMx
  have g4t := hS.regMx t
  have g5 := hS.lmxWalk
  have g5t := hS.lmxWalk t
  have g6 := hS.lmxBind
  have g6t := hS.lmxBind t
  have g7 := hS.createdPar
  have g8 := hS.parDone
  have g9 := hS.itemsOk
  have g9t := hS.itemsOk t
  have l0 := @vf_cas reg s hS
  unfold execBind
  try unfold walkNext
  try unfold afterHint
  try unfold applyReset
  try simp only [C_propHolds, C_copyNeverClears, afterLists, ↓reduceIte, Bool.true_and]
  repeat' split
  all_goals (try rw [‹s.pc t = _›] at g0t)
  all_goals (try simp [Pc.pending, Pc.pending_walk, Pc.walkIdx, Pc.copyVal, Pc.inReg, nextList_pending, nextList_inReg, nextList_walkIdx, nextList_copyVal] at g0t)
  all_goals (try rw [‹s.pc t = _›] at g1t)
  all_goals (try simp [Pc.pending, Pc.pending_walk, Pc.walkIdx, Pc.copyVal, Pc.inReg, nextList_pending, nextList_inReg, nextList_walkIdx, nextList_copyVal] at g1t)
  all_goals (try rw [‹s.pc t = _›] at g2t)
  all_goals (try simp [Pc.pending, Pc.pending_walk, Pc.walkIdx, Pc.copyVal, Pc.inReg, nextList_pending, nextList_inReg, nextList_walkIdx, nextList_copyVal] at g2t)
  all_goals (try rw [‹s.pc t = _›] at g4t)
  all_goals (try simp [Pc.pending, Pc.pending_walk, Pc.walkIdx, Pc.copyVal, Pc.inReg, nextList_pending, nextList_inReg, nextList_walkIdx, nextList_copyVal] at g4t)
  all_goals (try rw [‹s.pc t = _›] at g5t)
  all_goals (try simp [Pc.pending, Pc.pending_walk, Pc.walkIdx, Pc.copyVal, Pc.inReg, nextList_pending, nextList_inReg, nextList_walkIdx, nextList_copyVal] at g5t)
  all_goals (try rw [‹s.pc t = _›] at g6t)
  all_goals (try simp [Pc.pending, Pc.pending_walk, Pc.walkIdx, Pc.copyVal, Pc.inReg, nextList_pending, nextList_inReg, nextList_walkIdx, nextList_copyVal] at g6t)
  all_goals (try rw [‹s.pc t = _›] at g9t)
  all_goals (try simp [Pc.pending, Pc.pending_walk, Pc.walkIdx, Pc.copyVal, Pc.inReg, nextList_pending, nextList_inReg, nextList_walkIdx, nextList_copyVal] at g9t)
  all_goals (have gw := fun t' a i pend (h : (s.pc t').pending = some (a, i, pend)) => (Pc.pending_walk h).1)
  all_goals (intro t' a i pend L z h1 h2 h3; by_cases ht : t' = t <;> first | (subst ht; (try simp only [upd_same, setPc_pc, finishCancel_pc, nextList_pending, nextList_inReg, nextList_walkIdx, nextList_copyVal] at h1 h2 h3 ⊢); try simp [C, St.eff, upd_apply, afterLists, Pc.pending, Pc.pending_walk, Pc.walkIdx, Pc.copyVal, Pc.inReg, nextList_pending, nextList_inReg, nextList_walkIdx, nextList_copyVal] at h1 h2 h3 ⊢) | (try simp [ht, C, St.eff, upd_apply, afterLists] at h1 h2 h3 ⊢))
  all_goals grind [Pc.pending, Pc.pending_walk, Pc.walkIdx, Pc.copyVal, Pc.inReg, nextList_pending, nextList_inReg, nextList_walkIdx, nextList_copyVal , → Pc.pending_inReg, chain_none_not_anc, chain_some_head, anc_irrefl_s, anc_cas_back, ne_of_registered_created, List.mem_cons, List.mem_of_mem_erase, vf_upd_true, vf_upd_true_self, vf_reset, vf_exit, vf_can]

set_option maxHeartbeats 1600000 in
theorem walked_exec_o (hS : Struct reg s) (hO : Orig s) (hH : Hint s) (hR : Reach reg s) :
    ∀ t' a i pend L z, ((execOther s t).pc t').pending = some (a, i, pend) → reg[i]? = some L → z ∈ (execOther s t).items L → z ∈ pend ∨ (Anc (execOther s t).par z a → Vf (execOther s t).par (execOther s t).can (execOther s t).rst (execOther s t).oc ((execOther s t).pst (execOther s t).G) a z) := by
  have g0 := hR.walked
  have g0t := hR.walked t
  have g1 := hR.painting
  have g1t := hR.painting t
  have g2 := hR.copyTrue
  have g2t := hR.copyTrue t
  have g3 := hR.pstLe
  have g4 := hS.regMx
  have g4t := hS.regMx t
  have g5 := hS.lmxWalk
  have g5t := hS.lmxWalk t
  have g6 := hS.lmxBind
  have g6t := hS.lmxBind t
  have g7 := hS.createdPar
  have g8 := hS.parDone
  have g9 := hS.itemsOk
  have g9t := hS.itemsOk t
  have l0 := @vf_cas reg s hS
  unfold execOther
  try unfold walkNext
  try unfold afterHint
  try unfold applyReset
  try simp only [C_propHolds, C_copyNeverClears, afterLists, ↓reduceIte, Bool.true_and]
  repeat' split
  all_goals (try rw [‹s.pc t = _›] at g0t)
  all_goals (try simp [Pc.pending, Pc.pending_walk, Pc.walkIdx, Pc.copyVal, Pc.inReg, nextList_pending, nextList_inReg, nextList_walkIdx, nextList_copyVal] at g0t)
  all_goals (try rw [‹s.pc t = _›] at g1t)
  all_goals (try simp [Pc.pending, Pc.pending_walk, Pc.walkIdx, Pc.copyVal, Pc.inReg, nextList_pending, nextList_inReg, nextList_walkIdx, nextList_copyVal] at g1t)
  all_goals (try rw [‹s.pc t = _›] at g2t)
  all_goals (try simp [Pc.pending, Pc.pending_walk, Pc.walkIdx, Pc.copyVal, Pc.inReg, nextList_pending, nextList_inReg, nextList_walkIdx, nextList_copyVal] at g2t)
  all_goals (try rw [‹s.pc t = _›] at g4t)
  all_goals (try simp [Pc.pending, Pc.pending_walk, Pc.walkIdx, Pc.copyVal, Pc.inReg, nextList_pending, nextList_inReg, nextList_walkIdx, nextList_copyVal] at g4t)
  all_goals (try rw [‹s.pc t = _›] at g5t)
  all_goals (try simp [Pc.pending, Pc.pending_walk, Pc.walkIdx, Pc.copyVal, Pc.inReg, nextList_pending, nextList_inReg, nextList_walkIdx, nextList_copyVal] at g5t)
  all_goals (try rw [‹s.pc t = _›] at g6t)
  all_goals (try simp [Pc.pending, Pc.pending_walk, Pc.walkIdx, Pc.copyVal, Pc.inReg, nextList_pending, nextList_inReg, nextList_walkIdx, nextList_copyVal] at g6t)
  all_goals (try rw [‹s.pc t = _›] at g9t)
  all_goals (try simp [Pc.pending, Pc.pending_walk, Pc.walkIdx, Pc.copyVal, Pc.inReg, nextList_pending, nextList_inReg, nextList_walkIdx, nextList_copyVal] at g9t)
  all_goals (have gw := fun t' a i pend (h : (s.pc t').pending = some (a, i, pend)) => (Pc.pending_walk h).1)
  all_goals (intro t' a i pend L z h1 h2 h3; by_cases ht : t' = t <;> first | (subst ht; (try simp only [upd_same, setPc_pc, finishCancel_pc, nextList_pending, nextList_inReg, nextList_walkIdx, nextList_copyVal] at h1 h2 h3 ⊢); try simp [C, St.eff, upd_apply, afterLists, Pc.pending, Pc.pending_walk, Pc.walkIdx, Pc.copyVal, Pc.inReg, nextList_pending, nextList_inReg, nextList_walkIdx, nextList_copyVal] at h1 h2 h3 ⊢) | (try simp [ht, C, St.eff, upd_apply, afterLists] at h1 h2 h3 ⊢))
  all_goals grind [Pc.pending, Pc.pending_walk, Pc.walkIdx, Pc.copyVal, Pc.inReg, nextList_pending, nextList_inReg, nextList_walkIdx, nextList_copyVal , → Pc.pending_inReg, chain_none_not_anc, chain_some_head, anc_irrefl_s, anc_cas_back, ne_of_registered_created, List.mem_cons, List.mem_of_mem_erase, vf_upd_true, vf_upd_true_self, vf_reset, vf_exit, vf_can]

theorem walked_exec (hS : Struct reg s) (hO : Orig s) (hH : Hint s) (hR : Reach reg s) :
    ∀ t' a i pend L z, ((exec (C r) reg s t).pc t').pending = some (a, i, pend) → reg[i]? = some L → z ∈ (exec (C r) reg s t).items L → z ∈ pend ∨ (Anc (exec (C r) reg s t).par z a → Vf (exec (C r) reg s t).par (exec (C r) reg s t).can (exec (C r) reg s t).rst (exec (C r) reg s t).oc ((exec (C r) reg s t).pst (exec (C r) reg s t).G) a z) := by
  unfold exec
  split
  · exact walked_exec_c hS hO hH hR
  · split
    · exact walked_exec_b hS hO hH hR
    · exact walked_exec_o hS hO hH hR

set_option maxHeartbeats 1600000 in
theorem walked_begin (hS : Struct reg s) (hO : Orig s) (hH : Hint s) (hR : Reach reg s) (hi : s.pc t = .idle) :
    ∀ t' a i pend L z, ((begin (C r) reg s t).pc t').pending = some (a, i, pend) → reg[i]? = some L → z ∈ (begin (C r) reg s t).items L → z ∈ pend ∨ (Anc (begin (C r) reg s t).par z a → Vf (begin (C r) reg s t).par (begin (C r) reg s t).can (begin (C r) reg s t).rst (begin (C r) reg s t).oc ((begin (C r) reg s t).pst (begin (C r) reg s t).G) a z) := by
  have g0 := hR.walked
  have g0t := hR.walked t
  have g1 := hR.painting
  have g1t := hR.painting t
  have g2 := hR.copyTrue
  have g2t := hR.copyTrue t
  have g3 := hR.pstLe
  have g4 := hS.regMx
  have g4t := hS.regMx t
  have g5 := hS.lmxWalk
  have g5t := hS.lmxWalk t
  have g6 := hS.lmxBind
  have g6t := hS.lmxBind t
  have g7 := hS.createdPar
  have g8 := hS.parDone
  have g9 := hS.itemsOk
  have g9t := hS.itemsOk t
  have l0 := @vf_cas reg s hS
  begin_cases
  all_goals (try rw [hi] at g0t)
  all_goals (try simp [Pc.pending, Pc.pending_walk, Pc.walkIdx, Pc.copyVal, Pc.inReg, nextList_pending, nextList_inReg, nextList_walkIdx, nextList_copyVal] at g0t)
  all_goals (try rw [hi] at g1t)
  all_goals (try simp [Pc.pending, Pc.pending_walk, Pc.walkIdx, Pc.copyVal, Pc.inReg, nextList_pending, nextList_inReg, nextList_walkIdx, nextList_copyVal] at g1t)
  all_goals (try rw [hi] at g2t)
  all_goals (try simp [Pc.pending, Pc.pending_walk, Pc.walkIdx, Pc.copyVal, Pc.inReg, nextList_pending, nextList_inReg, nextList_walkIdx, nextList_copyVal] at g2t)
  all_goals (try rw [hi] at g4t)
  all_goals (try simp [Pc.pending, Pc.pending_walk, Pc.walkIdx, Pc.copyVal, Pc.inReg, nextList_pending, nextList_inReg, nextList_walkIdx, nextList_copyVal] at g4t)
  all_goals (try rw [hi] at g5t)
  all_goals (try simp [Pc.pending, Pc.pending_walk, Pc.walkIdx, Pc.copyVal, Pc.inReg, nextList_pending, nextList_inReg, nextList_walkIdx, nextList_copyVal] at g5t)
  all_goals (try rw [hi] at g6t)
  all_goals (try simp [Pc.pending, Pc.pending_walk, Pc.walkIdx, Pc.copyVal, Pc.inReg, nextList_pending, nextList_inReg, nextList_walkIdx, nextList_copyVal] at g6t)
  all_goals (try rw [hi] at g9t)
  all_goals (try simp [Pc.pending, Pc.pending_walk, Pc.walkIdx, Pc.copyVal, Pc.inReg, nextList_pending, nextList_inReg, nextList_walkIdx, nextList_copyVal] at g9t)
  all_goals (intro t' a i pend L z h1 h2 h3; by_cases ht : t' = t <;> first | (subst ht; (try simp only [upd_same, setPc_pc, finishCancel_pc, nextList_pending, nextList_inReg, nextList_walkIdx, nextList_copyVal] at h1 h2 h3 ⊢); try simp [C, St.eff, upd_apply, afterLists, Pc.pending, Pc.pending_walk, Pc.walkIdx, Pc.copyVal, Pc.inReg, nextList_pending, nextList_inReg, nextList_walkIdx, nextList_copyVal] at h1 h2 h3 ⊢) | (try simp [ht, C, St.eff, upd_apply, afterLists] at h1 h2 h3 ⊢))
  all_goals grind [Pc.pending, Pc.pending_walk, Pc.walkIdx, Pc.copyVal, Pc.inReg, nextList_pending, nextList_inReg, nextList_walkIdx, nextList_copyVal , → Pc.pending_inReg, chain_none_not_anc, chain_some_head, anc_irrefl_s, anc_cas_back, ne_of_registered_created, List.mem_cons, List.mem_of_mem_erase, vf_upd_true, vf_upd_true_self, vf_reset, vf_exit, vf_can]

end TbbVerif.C04
