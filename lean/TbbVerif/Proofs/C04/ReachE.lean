/-
C04 proofs — structural invariants (snapEpoch, pend, painting): preservation by `exec` and `begin`.
-/
import TbbVerif.Proofs.C04.ReachD

namespace TbbVerif.C04
variable {cfg : Cfg} {reg : List Nat} {s : St} {t : Nat}

theorem snapEpoch_exec_c (hS : Struct reg s) (hO : Orig s) (hR : Reach reg s) :
    ∀ t' x p n L, (execCancel C reg s t).pc t' = .bSpecL x p n → (execCancel C reg s t).lst p = some L → n ≤ (execCancel C reg s t).epoch L := by
  have g0 := hR.snapEpoch
  have g0t := hR.snapEpoch t
  have g1 := hR.epochLe
  have g2 := hR.syncG
  have g2t := hR.syncG t
  have g3 := hS.bindAlive
  have g3t := hS.bindAlive t
  have g4 := hS.ownsSt
  have g4t := hS.ownsSt t
  have g5 := hS.dyingOk
  have g5t := hS.dyingOk t
  unfold execCancel
  try unfold walkNext
  try unfold afterHint
  try simp only [C_propHolds, C_copyNeverClears, afterLists, ↓reduceIte, Bool.true_and]
  repeat' split
  all_goals (try rw [‹s.pc t = _›] at g0t)
  all_goals (try simp [Pc.bindParent, Pc.owns, Pc.destroying, okParent] at g0t)
  all_goals (try rw [‹s.pc t = _›] at g2t)
  all_goals (try simp [Pc.bindParent, Pc.owns, Pc.destroying, okParent] at g2t)
  all_goals (try rw [‹s.pc t = _›] at g3t)
  all_goals (try simp [Pc.bindParent, Pc.owns, Pc.destroying, okParent] at g3t)
  all_goals (try rw [‹s.pc t = _›] at g4t)
  all_goals (try simp [Pc.bindParent, Pc.owns, Pc.destroying, okParent] at g4t)
  all_goals (try rw [‹s.pc t = _›] at g5t)
  all_goals (try simp [Pc.bindParent, Pc.owns, Pc.destroying, okParent] at g5t)
  all_goals (intro t' x p n L h1 h2; by_cases ht : t' = t <;> first | (subst ht; try simp [C, upd_apply, afterLists, nextList, Pc.bindParent, Pc.owns, Pc.destroying, okParent] at h1 h2 ⊢) | (try simp [ht, C, upd_apply, afterLists, nextList] at h1 h2 ⊢))
  all_goals grind [Pc.bindParent, Pc.owns, Pc.destroying, okParent]

theorem snapEpoch_exec_b (hS : Struct reg s) (hO : Orig s) (hR : Reach reg s) :
    ∀ t' x p n L, (execBind C s t).pc t' = .bSpecL x p n → (execBind C s t).lst p = some L → n ≤ (execBind C s t).epoch L := by
  have g0 := hR.snapEpoch
  have g0t := hR.snapEpoch t
  have g1 := hR.epochLe
  have g2 := hR.syncG
  have g2t := hR.syncG t
  have g3 := hS.bindAlive
  have g3t := hS.bindAlive t
  have g4 := hS.ownsSt
  have g4t := hS.ownsSt t
  have g5 := hS.dyingOk
  have g5t := hS.dyingOk t
  unfold execBind
  try unfold walkNext
  try unfold afterHint
  try simp only [C_propHolds, C_copyNeverClears, afterLists, ↓reduceIte, Bool.true_and]
  repeat' split
  all_goals (try rw [‹s.pc t = _›] at g0t)
  all_goals (try simp [Pc.bindParent, Pc.owns, Pc.destroying, okParent] at g0t)
  all_goals (try rw [‹s.pc t = _›] at g2t)
  all_goals (try simp [Pc.bindParent, Pc.owns, Pc.destroying, okParent] at g2t)
  all_goals (try rw [‹s.pc t = _›] at g3t)
  all_goals (try simp [Pc.bindParent, Pc.owns, Pc.destroying, okParent] at g3t)
  all_goals (try rw [‹s.pc t = _›] at g4t)
  all_goals (try simp [Pc.bindParent, Pc.owns, Pc.destroying, okParent] at g4t)
  all_goals (try rw [‹s.pc t = _›] at g5t)
  all_goals (try simp [Pc.bindParent, Pc.owns, Pc.destroying, okParent] at g5t)
  all_goals (intro t' x p n L h1 h2; by_cases ht : t' = t <;> first | (subst ht; try simp [C, upd_apply, afterLists, nextList, Pc.bindParent, Pc.owns, Pc.destroying, okParent] at h1 h2 ⊢) | (try simp [ht, C, upd_apply, afterLists, nextList] at h1 h2 ⊢))
  all_goals grind [Pc.bindParent, Pc.owns, Pc.destroying, okParent]

theorem snapEpoch_exec_o (hS : Struct reg s) (hO : Orig s) (hR : Reach reg s) :
    ∀ t' x p n L, (execOther s t).pc t' = .bSpecL x p n → (execOther s t).lst p = some L → n ≤ (execOther s t).epoch L := by
  have g0 := hR.snapEpoch
  have g0t := hR.snapEpoch t
  have g1 := hR.epochLe
  have g2 := hR.syncG
  have g2t := hR.syncG t
  have g3 := hS.bindAlive
  have g3t := hS.bindAlive t
  have g4 := hS.ownsSt
  have g4t := hS.ownsSt t
  have g5 := hS.dyingOk
  have g5t := hS.dyingOk t
  unfold execOther
  try unfold walkNext
  try unfold afterHint
  try simp only [C_propHolds, C_copyNeverClears, afterLists, ↓reduceIte, Bool.true_and]
  repeat' split
  all_goals (try rw [‹s.pc t = _›] at g0t)
  all_goals (try simp [Pc.bindParent, Pc.owns, Pc.destroying, okParent] at g0t)
  all_goals (try rw [‹s.pc t = _›] at g2t)
  all_goals (try simp [Pc.bindParent, Pc.owns, Pc.destroying, okParent] at g2t)
  all_goals (try rw [‹s.pc t = _›] at g3t)
  all_goals (try simp [Pc.bindParent, Pc.owns, Pc.destroying, okParent] at g3t)
  all_goals (try rw [‹s.pc t = _›] at g4t)
  all_goals (try simp [Pc.bindParent, Pc.owns, Pc.destroying, okParent] at g4t)
  all_goals (try rw [‹s.pc t = _›] at g5t)
  all_goals (try simp [Pc.bindParent, Pc.owns, Pc.destroying, okParent] at g5t)
  all_goals (intro t' x p n L h1 h2; by_cases ht : t' = t <;> first | (subst ht; try simp [C, upd_apply, afterLists, nextList, Pc.bindParent, Pc.owns, Pc.destroying, okParent] at h1 h2 ⊢) | (try simp [ht, C, upd_apply, afterLists, nextList] at h1 h2 ⊢))
  all_goals grind [Pc.bindParent, Pc.owns, Pc.destroying, okParent]

theorem snapEpoch_exec (hS : Struct reg s) (hO : Orig s) (hR : Reach reg s) :
    ∀ t' x p n L, (exec C reg s t).pc t' = .bSpecL x p n → (exec C reg s t).lst p = some L → n ≤ (exec C reg s t).epoch L := by
  unfold exec
  split
  · exact snapEpoch_exec_c hS hO hR
  · split
    · exact snapEpoch_exec_b hS hO hR
    · exact snapEpoch_exec_o hS hO hR

theorem snapEpoch_begin (hS : Struct reg s) (hO : Orig s) (hR : Reach reg s) (hi : s.pc t = .idle) :
    ∀ t' x p n L, (begin reg s t).pc t' = .bSpecL x p n → (begin reg s t).lst p = some L → n ≤ (begin reg s t).epoch L := by
  have g0 := hR.snapEpoch
  have g0t := hR.snapEpoch t
  have g1 := hR.epochLe
  have g2 := hR.syncG
  have g2t := hR.syncG t
  have g3 := hS.bindAlive
  have g3t := hS.bindAlive t
  have g4 := hS.ownsSt
  have g4t := hS.ownsSt t
  have g5 := hS.dyingOk
  have g5t := hS.dyingOk t
  begin_cases
  all_goals (try rw [hi] at g0t)
  all_goals (try simp [Pc.bindParent, Pc.owns, Pc.destroying, okParent] at g0t)
  all_goals (try rw [hi] at g2t)
  all_goals (try simp [Pc.bindParent, Pc.owns, Pc.destroying, okParent] at g2t)
  all_goals (try rw [hi] at g3t)
  all_goals (try simp [Pc.bindParent, Pc.owns, Pc.destroying, okParent] at g3t)
  all_goals (try rw [hi] at g4t)
  all_goals (try simp [Pc.bindParent, Pc.owns, Pc.destroying, okParent] at g4t)
  all_goals (try rw [hi] at g5t)
  all_goals (try simp [Pc.bindParent, Pc.owns, Pc.destroying, okParent] at g5t)
  all_goals (intro t' x p n L h1 h2; by_cases ht : t' = t <;> first | (subst ht; try simp [C, upd_apply, afterLists, nextList, Pc.bindParent, Pc.owns, Pc.destroying, okParent] at h1 h2 ⊢) | (try simp [ht, C, upd_apply, afterLists, nextList] at h1 h2 ⊢))
  all_goals grind [Pc.bindParent, Pc.owns, Pc.destroying, okParent]

theorem pend_exec_c (hS : Struct reg s) (hO : Orig s) (hR : Reach reg s) :
    ∀ a, 1 ≤ (execCancel C reg s t).wins a → PassedUpTo (execCancel C reg s t).skip (execCancel C reg s t).srcOf (execCancel C reg s t).G a ∨ ∃ t', ((execCancel C reg s t).pc t').preWalk = some a := by
  have g0 := hR.pend
  have g1 := hR.wonCan
  have g1t := hR.wonCan t
  unfold execCancel
  try unfold walkNext
  try unfold afterHint
  try simp only [C_propHolds, C_copyNeverClears, afterLists, ↓reduceIte, Bool.true_and]
  repeat' split
  all_goals (try rw [‹s.pc t = _›] at g1t)
  all_goals (try simp [Pc.preWalk, Pc.wonSrc, passed_upd_skip, passed_bump] at g1t)
  all_goals (intro a h1; try simp [C, upd_apply, afterLists, nextList] at h1 ⊢)
  all_goals grind [Pc.preWalk, Pc.wonSrc, passed_upd_skip, passed_bump]

theorem pend_exec_b (hS : Struct reg s) (hO : Orig s) (hR : Reach reg s) :
    ∀ a, 1 ≤ (execBind C s t).wins a → PassedUpTo (execBind C s t).skip (execBind C s t).srcOf (execBind C s t).G a ∨ ∃ t', ((execBind C s t).pc t').preWalk = some a := by
  have g0 := hR.pend
  have g1 := hR.wonCan
  have g1t := hR.wonCan t
  unfold execBind
  try unfold walkNext
  try unfold afterHint
  try simp only [C_propHolds, C_copyNeverClears, afterLists, ↓reduceIte, Bool.true_and]
  repeat' split
  all_goals (try rw [‹s.pc t = _›] at g1t)
  all_goals (try simp [Pc.preWalk, Pc.wonSrc, passed_upd_skip, passed_bump] at g1t)
  all_goals (intro a h1; try simp [C, upd_apply, afterLists, nextList] at h1 ⊢)
  all_goals grind [Pc.preWalk, Pc.wonSrc, passed_upd_skip, passed_bump]

theorem pend_exec_o (hS : Struct reg s) (hO : Orig s) (hR : Reach reg s) :
    ∀ a, 1 ≤ (execOther s t).wins a → PassedUpTo (execOther s t).skip (execOther s t).srcOf (execOther s t).G a ∨ ∃ t', ((execOther s t).pc t').preWalk = some a := by
  have g0 := hR.pend
  have g1 := hR.wonCan
  have g1t := hR.wonCan t
  unfold execOther
  try unfold walkNext
  try unfold afterHint
  try simp only [C_propHolds, C_copyNeverClears, afterLists, ↓reduceIte, Bool.true_and]
  repeat' split
  all_goals (try rw [‹s.pc t = _›] at g1t)
  all_goals (try simp [Pc.preWalk, Pc.wonSrc, passed_upd_skip, passed_bump] at g1t)
  all_goals (intro a h1; try simp [C, upd_apply, afterLists, nextList] at h1 ⊢)
  all_goals grind [Pc.preWalk, Pc.wonSrc, passed_upd_skip, passed_bump]

theorem pend_exec (hS : Struct reg s) (hO : Orig s) (hR : Reach reg s) :
    ∀ a, 1 ≤ (exec C reg s t).wins a → PassedUpTo (exec C reg s t).skip (exec C reg s t).srcOf (exec C reg s t).G a ∨ ∃ t', ((exec C reg s t).pc t').preWalk = some a := by
  unfold exec
  split
  · exact pend_exec_c hS hO hR
  · split
    · exact pend_exec_b hS hO hR
    · exact pend_exec_o hS hO hR

theorem pend_begin (hS : Struct reg s) (hO : Orig s) (hR : Reach reg s) (hi : s.pc t = .idle) :
    ∀ a, 1 ≤ (begin reg s t).wins a → PassedUpTo (begin reg s t).skip (begin reg s t).srcOf (begin reg s t).G a ∨ ∃ t', ((begin reg s t).pc t').preWalk = some a := by
  have g0 := hR.pend
  have g1 := hR.wonCan
  have g1t := hR.wonCan t
  begin_cases
  all_goals (try rw [hi] at g1t)
  all_goals (try simp [Pc.preWalk, Pc.wonSrc, passed_upd_skip, passed_bump] at g1t)
  all_goals (intro a h1; try simp [C, upd_apply, afterLists, nextList] at h1 ⊢)
  all_goals grind [Pc.preWalk, Pc.wonSrc, passed_upd_skip, passed_bump]

theorem painting_exec_c (hS : Struct reg s) (hO : Orig s) (hR : Reach reg s) :
    ∀ t' a i x chain rest, (execCancel C reg s t).pc t' = .cPaint a i x chain rest → (execCancel C reg s t).can x = true ∨ chain.head? = some x := by
  have g0 := hR.painting
  have g0t := hR.painting t
  have g1 := hR.noResetPc
  have g1t := hR.noResetPc t
  have g2 := hR.copyTrue
  have g2t := hR.copyTrue t
  unfold execCancel
  try unfold walkNext
  try unfold afterHint
  try simp only [C_propHolds, C_copyNeverClears, afterLists, ↓reduceIte, Bool.true_and]
  repeat' split
  all_goals (try rw [‹s.pc t = _›] at g0t)
  all_goals (try simp [chainUp_sound, Pc.copyVal] at g0t)
  all_goals (try rw [‹s.pc t = _›] at g1t)
  all_goals (try simp [chainUp_sound, Pc.copyVal] at g1t)
  all_goals (try rw [‹s.pc t = _›] at g2t)
  all_goals (try simp [chainUp_sound, Pc.copyVal] at g2t)
  all_goals (intro t' a i x chain rest h1; by_cases ht : t' = t <;> first | (subst ht; try simp [C, upd_apply, afterLists, nextList, chainUp_sound, Pc.copyVal] at h1 ⊢) | (try simp [ht, C, upd_apply, afterLists, nextList] at h1 ⊢))
  all_goals grind [chainUp_sound, Pc.copyVal]

theorem painting_exec_b (hS : Struct reg s) (hO : Orig s) (hR : Reach reg s) :
    ∀ t' a i x chain rest, (execBind C s t).pc t' = .cPaint a i x chain rest → (execBind C s t).can x = true ∨ chain.head? = some x := by
  have g0 := hR.painting
  have g0t := hR.painting t
  have g1 := hR.noResetPc
  have g1t := hR.noResetPc t
  have g2 := hR.copyTrue
  have g2t := hR.copyTrue t
  unfold execBind
  try unfold walkNext
  try unfold afterHint
  try simp only [C_propHolds, C_copyNeverClears, afterLists, ↓reduceIte, Bool.true_and]
  repeat' split
  all_goals (try rw [‹s.pc t = _›] at g0t)
  all_goals (try simp [chainUp_sound, Pc.copyVal] at g0t)
  all_goals (try rw [‹s.pc t = _›] at g1t)
  all_goals (try simp [chainUp_sound, Pc.copyVal] at g1t)
  all_goals (try rw [‹s.pc t = _›] at g2t)
  all_goals (try simp [chainUp_sound, Pc.copyVal] at g2t)
  all_goals (intro t' a i x chain rest h1; by_cases ht : t' = t <;> first | (subst ht; try simp [C, upd_apply, afterLists, nextList, chainUp_sound, Pc.copyVal] at h1 ⊢) | (try simp [ht, C, upd_apply, afterLists, nextList] at h1 ⊢))
  all_goals grind [chainUp_sound, Pc.copyVal]

theorem painting_exec_o (hS : Struct reg s) (hO : Orig s) (hR : Reach reg s) :
    ∀ t' a i x chain rest, (execOther s t).pc t' = .cPaint a i x chain rest → (execOther s t).can x = true ∨ chain.head? = some x := by
  have g0 := hR.painting
  have g0t := hR.painting t
  have g1 := hR.noResetPc
  have g1t := hR.noResetPc t
  have g2 := hR.copyTrue
  have g2t := hR.copyTrue t
  unfold execOther
  try unfold walkNext
  try unfold afterHint
  try simp only [C_propHolds, C_copyNeverClears, afterLists, ↓reduceIte, Bool.true_and]
  repeat' split
  all_goals (try rw [‹s.pc t = _›] at g0t)
  all_goals (try simp [chainUp_sound, Pc.copyVal] at g0t)
  all_goals (try rw [‹s.pc t = _›] at g1t)
  all_goals (try simp [chainUp_sound, Pc.copyVal] at g1t)
  all_goals (try rw [‹s.pc t = _›] at g2t)
  all_goals (try simp [chainUp_sound, Pc.copyVal] at g2t)
  all_goals (intro t' a i x chain rest h1; by_cases ht : t' = t <;> first | (subst ht; try simp [C, upd_apply, afterLists, nextList, chainUp_sound, Pc.copyVal] at h1 ⊢) | (try simp [ht, C, upd_apply, afterLists, nextList] at h1 ⊢))
  all_goals grind [chainUp_sound, Pc.copyVal]

theorem painting_exec (hS : Struct reg s) (hO : Orig s) (hR : Reach reg s) :
    ∀ t' a i x chain rest, (exec C reg s t).pc t' = .cPaint a i x chain rest → (exec C reg s t).can x = true ∨ chain.head? = some x := by
  unfold exec
  split
  · exact painting_exec_c hS hO hR
  · split
    · exact painting_exec_b hS hO hR
    · exact painting_exec_o hS hO hR

theorem painting_begin (hS : Struct reg s) (hO : Orig s) (hR : Reach reg s) (hi : s.pc t = .idle) :
    ∀ t' a i x chain rest, (begin reg s t).pc t' = .cPaint a i x chain rest → (begin reg s t).can x = true ∨ chain.head? = some x := by
  have g0 := hR.painting
  have g0t := hR.painting t
  have g1 := hR.noResetPc
  have g1t := hR.noResetPc t
  have g2 := hR.copyTrue
  have g2t := hR.copyTrue t
  begin_cases
  all_goals (try rw [hi] at g0t)
  all_goals (try simp [chainUp_sound, Pc.copyVal] at g0t)
  all_goals (try rw [hi] at g1t)
  all_goals (try simp [chainUp_sound, Pc.copyVal] at g1t)
  all_goals (try rw [hi] at g2t)
  all_goals (try simp [chainUp_sound, Pc.copyVal] at g2t)
  all_goals (intro t' a i x chain rest h1; by_cases ht : t' = t <;> first | (subst ht; try simp [C, upd_apply, afterLists, nextList, chainUp_sound, Pc.copyVal] at h1 ⊢) | (try simp [ht, C, upd_apply, afterLists, nextList] at h1 ⊢))
  all_goals grind [chainUp_sound, Pc.copyVal]

end TbbVerif.C04
