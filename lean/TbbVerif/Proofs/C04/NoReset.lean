/-
C04 proofs — programs that never call `reset`: no context is ever stamped as reset; every context on which a cancel won has
a positive win stamp.  (Used to obtain the reset-free reach theorem as a corollary of the one with resets.)
-/
import TbbVerif.Proofs.C04.ReachAll

namespace TbbVerif.C04
variable {cfg : Cfg} {reg : List Nat} {s : St} {t : Nat}

structure NoRst (s : St) : Prop where
  op : ∀ t x, Op.reset x ∉ s.prog t
  pc : ∀ t x l, s.pc t ≠ .rSeq x l
  rst : ∀ x, s.rst x = 0

/-- every context on which a cancel call won carries the stamp of its latest win -/
def WinStamped (s : St) : Prop := ∀ a, 1 ≤ s.wins a → 1 ≤ s.wst a

theorem norst_exec (h : NoRst s) : NoRst (exec cfg reg s t) := by
  have g0 := h.op
  have g1 := h.pc
  have g1t := h.pc t
  have g2 := h.rst
  constructor
  · exec_cases
    all_goals (intro t' x; try simp [upd_apply])
    all_goals grind
  · exec_cases
    all_goals (intro t' x l; by_cases ht : t' = t <;> try simp [ht, upd_apply, afterLists, nextList])
    all_goals grind
  · exec_cases
    all_goals (intro x; try simp [upd_apply])
    all_goals grind

theorem norst_begin (h : NoRst s) : NoRst (begin cfg reg s t) := by
  have g0 := h.op
  have g0t := h.op t
  have g1 := h.pc
  have g2 := h.rst
  constructor
  · begin_cases
    all_goals (intro t' x; by_cases ht : t' = t <;> try simp [ht, upd_apply])
    all_goals grind [List.mem_cons]
  · begin_cases
    all_goals (intro t' x l; by_cases ht : t' = t <;> try simp [ht, upd_apply])
    all_goals grind [List.mem_cons]
  · begin_cases
    all_goals (intro x; try simp [upd_apply])
    all_goals grind

theorem norst_run (cfg : Cfg) (reg : List Nat) (prog : Nat → List Op) (hnr : ∀ t x, Op.reset x ∉ prog t)
    (sched : List Nat) : NoRst ((CtxTree cfg reg prog).run sched) :=
  Sys.inv_run (CtxTree cfg reg prog) NoRst ⟨hnr, by simp [CtxTree, init], by simp [CtxTree, init]⟩
    (fun s t h => by
      show NoRst (step cfg reg s t)
      rw [step_eq]
      split
      · exact norst_exec (norst_begin h)
      · exact norst_exec h) sched

/-- programs in which no thread leaves the registry: no context is ever orphaned -/
structure NoExitInv (s : St) : Prop where
  op : ∀ t, Op.exit ∉ s.prog t
  pc : ∀ t, s.pc t ≠ .xLock
  oc : ∀ z, s.oc z = false

theorem noexit_exec (h : NoExitInv s) : NoExitInv (exec cfg reg s t) := by
  have g0 := h.op
  have g1 := h.pc
  have g1t := h.pc t
  have g2 := h.oc
  constructor
  · exec_cases
    all_goals (intro t'; try simp [upd_apply])
    all_goals grind
  · exec_cases
    all_goals (intro t'; by_cases ht : t' = t <;> try simp [ht, upd_apply, afterLists, nextList])
    all_goals grind
  · exec_cases
    all_goals (intro z; try simp [upd_apply])
    all_goals grind

theorem noexit_begin (h : NoExitInv s) : NoExitInv (begin cfg reg s t) := by
  have g0 := h.op
  have g0t := h.op t
  have g1 := h.pc
  have g2 := h.oc
  constructor
  · begin_cases
    all_goals (intro t'; by_cases ht : t' = t <;> try simp [ht, upd_apply])
    all_goals grind [List.mem_cons]
  · begin_cases
    all_goals (intro t'; by_cases ht : t' = t <;> try simp [ht, upd_apply])
    all_goals grind [List.mem_cons]
  · begin_cases
    all_goals (intro z; try simp [upd_apply])
    all_goals grind

theorem noexit_run (cfg : Cfg) (reg : List Nat) (prog : Nat → List Op) (hne : ∀ t, Op.exit ∉ prog t)
    (sched : List Nat) : NoExitInv ((CtxTree cfg reg prog).run sched) :=
  Sys.inv_run (CtxTree cfg reg prog) NoExitInv ⟨hne, by simp [CtxTree, init], by simp [CtxTree, init]⟩
    (fun s t h => by
      show NoExitInv (step cfg reg s t)
      rw [step_eq]
      split
      · exact noexit_exec (noexit_begin h)
      · exact noexit_exec h) sched

theorem winStamped_exec (h : WinStamped s) : WinStamped (exec cfg reg s t) := by
  unfold WinStamped at *
  exec_cases
  all_goals (intro a; try simp [upd_apply])
  all_goals grind

theorem winStamped_begin (h : WinStamped s) : WinStamped (begin cfg reg s t) := by
  unfold WinStamped at *
  begin_cases
  all_goals (intro a; try simp [upd_apply])
  all_goals grind

theorem winStamped_run (cfg : Cfg) (reg : List Nat) (prog : Nat → List Op) (sched : List Nat) :
    WinStamped ((CtxTree cfg reg prog).run sched) :=
  Sys.inv_run (CtxTree cfg reg prog) WinStamped (by intro a; simp [CtxTree, init])
    (fun s t h => by
      show WinStamped (step cfg reg s t)
      rw [step_eq]
      split
      · exact winStamped_exec (winStamped_begin h)
      · exact winStamped_exec h) sched

end TbbVerif.C04
