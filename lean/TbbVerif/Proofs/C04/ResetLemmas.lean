/-
C04 proofs — `reset`: the accesses of a reset touch only the context itself; the executable precondition check `resetOk`
(which sets the `misuse` flag) implies the documented precondition.
-/
import TbbVerif.Proofs.C04.NoReset

namespace TbbVerif.C04
variable {cfg : Cfg} {reg : List Nat} {s : St} {t : Nat}

/-- the thread's next access belongs to `reset(x)`: it is about to start that call, or is inside it -/
def ResetStep (s : St) (t x : Nat) : Prop :=
  (s.pc t = .idle ∧ ∃ rest, s.prog t = .reset x :: rest) ∨ ∃ l, s.pc t = .rSeq x l

theorem exec_reset_frame {x : Nat} {l : List RF} (h : s.pc t = .rSeq x l) (y : Nat) (hy : y ≠ x) :
    (exec cfg reg s t).can y = s.can y ∧ (exec cfg reg s t).mhc y = s.mhc y ∧ (exec cfg reg s t).par y = s.par y ∧
      (exec cfg reg s t).cst y = s.cst y ∧ (exec cfg reg s t).lst y = s.lst y := by
  revert h
  exec_cases
  all_goals (intro h; try simp_all [upd_apply])

theorem exec_idle_frame (h : s.pc t = .idle) : exec cfg reg s t = s := by
  unfold exec execOther
  simp [h, Pc.isCancel, Pc.isBind]

theorem begin_reset {x : Nat} {rest : List Op} (hi : s.pc t = .idle) (hp : s.prog t = .reset x :: rest) :
    ((begin cfg reg s t).pc t = .idle ∨ (begin cfg reg s t).pc t = .rSeq x cfg.resetSeq) ∧
    (begin cfg reg s t).can = s.can ∧ (begin cfg reg s t).mhc = s.mhc ∧ (begin cfg reg s t).par = s.par ∧
      (begin cfg reg s t).cst = s.cst ∧ (begin cfg reg s t).lst = s.lst := by
  unfold begin
  simp only [hp]
  split <;> simp [badOp, popOp, noteMisuse, hi]

/-- one access of `reset(x)` changes no field of any other context -/
theorem reset_step_frame {x : Nat} (h : ResetStep s t x) (y : Nat) (hy : y ≠ x) :
    (step cfg reg s t).can y = s.can y ∧ (step cfg reg s t).mhc y = s.mhc y ∧ (step cfg reg s t).par y = s.par y ∧
      (step cfg reg s t).cst y = s.cst y ∧ (step cfg reg s t).lst y = s.lst y := by
  rw [step_eq]
  rcases h with ⟨hi, rest, hp⟩ | ⟨l, hl⟩
  · simp only [hi, if_true]
    obtain ⟨hpc, e1, e2, e3, e4, e5⟩ := begin_reset (cfg := cfg) (reg := reg) hi hp
    rcases hpc with hpc | hpc
    · rw [exec_idle_frame hpc, e1, e2, e3, e4, e5]
      exact ⟨rfl, rfl, rfl, rfl, rfl⟩
    · have := exec_reset_frame (cfg := cfg) (reg := reg) hpc y hy
      rw [e1, e2, e3, e4, e5] at this
      exact this
  · have hne : s.pc t ≠ .idle := by rw [hl]; simp
    simp only [hne, if_false]
    exact exec_reset_frame hl y hy

/-- the executable subtree test is exact in reachable states -/
theorem inSubtree_false (hS : Struct reg s) {x y : Nat} (h : inSubtree s x y = false) : y ≠ x ∧ ¬ Anc s.par y x := by
  unfold inSubtree at h
  simp only [Bool.or_eq_false_iff, beq_eq_false_iff_ne, ne_eq] at h
  refine ⟨h.1, ?_⟩
  have hn : chainUp s.par x (s.depth y) y = none := by
    cases hc : chainUp s.par x (s.depth y) y with
    | none => rfl
    | some l => rw [hc] at h; simp at h
  exact chain_none_not_anc hS hn

/-- **`resetOk` implies the documented precondition of `reset`**: no other registered thread has an operation in flight on
the context or on a context bound (directly or transitively) beneath it -/
theorem resetOk_sound (hS : Struct reg s) {x : Nat} (h : resetOk reg s t x = true) :
    ∀ u ∈ reg, u ≠ t → ∀ y ∈ (s.pc u).subjects, y ≠ x ∧ ¬ Anc s.par y x := by
  intro u hu hne y hy
  unfold resetOk at h
  rw [List.all_eq_true] at h
  have := h u hu
  simp only [Bool.or_eq_true, beq_iff_eq, hne, false_or, List.all_eq_true, Bool.not_eq_true'] at this
  exact inSubtree_false hS (this y hy)

end TbbVerif.C04
