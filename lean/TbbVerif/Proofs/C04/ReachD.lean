/-
C04 proofs — structural invariants (snapEpoch, curCan, pend): preservation by `exec` and `begin`.
-/
import TbbVerif.Proofs.C04.ReachC2

namespace TbbVerif.C04
variable {cfg : Cfg} {r : List RF} {reg : List Nat} {s : St} {t : Nat}

theorem snapEpoch_exec_c (hS : Struct reg s) (hO : Orig s) (hH : Hint s) (hR : Reach reg s) :
    ∀ t' x p n L, (execCancel (C r) reg s t).pc t' = .bSpecL x p n → (execCancel (C r) reg s t).lst p = some L → n ≤ (execCancel (C r) reg s t).eff L := by
  have g0 := hR.snapEpoch
  have g0t := hR.snapEpoch t
  have g1 := hR.epochLe
  have g2 := hR.joinedLe
  have g3 := hR.freshLe
  have g4 := hR.syncG
  have g4t := hR.syncG t
  have g5 := hS.bindAlive
  have g5t := hS.bindAlive t
  have g6 := hS.ownsSt
  have g6t := hS.ownsSt t
  have g7 := hS.dyingOk
  have g7t := hS.dyingOk t
  have g8 := hS.regPc
  have g8t := hS.regPc t
  have g9 := hS.itemsOk
  have g9t := hS.itemsOk t
  have g10 := hS.notWasEmpty
  have g10t := hS.notWasEmpty t
  unfold execCancel
  try unfold walkNext
  try unfold afterHint
  try unfold applyReset
  try simp only [C_propHolds, C_copyNeverClears, afterLists, ↓reduceIte, Bool.true_and]
  repeat' split
  all_goals (try rw [‹s.pc t = _›] at g0t)
  all_goals (try simp [Pc.bindParent, Pc.owns, Pc.destroying, okParent, St.eff] at g0t)
  all_goals (try rw [‹s.pc t = _›] at g4t)
  all_goals (try simp [Pc.bindParent, Pc.owns, Pc.destroying, okParent, St.eff] at g4t)
  all_goals (try rw [‹s.pc t = _›] at g5t)
  all_goals (try simp [Pc.bindParent, Pc.owns, Pc.destroying, okParent, St.eff] at g5t)
  all_goals (try rw [‹s.pc t = _›] at g6t)
  all_goals (try simp [Pc.bindParent, Pc.owns, Pc.destroying, okParent, St.eff] at g6t)
  all_goals (try rw [‹s.pc t = _›] at g7t)
  all_goals (try simp [Pc.bindParent, Pc.owns, Pc.destroying, okParent, St.eff] at g7t)
  all_goals (try rw [‹s.pc t = _›] at g8t)
  all_goals (try simp [Pc.bindParent, Pc.owns, Pc.destroying, okParent, St.eff] at g8t)
  all_goals (try rw [‹s.pc t = _›] at g9t)
  all_goals (try simp [Pc.bindParent, Pc.owns, Pc.destroying, okParent, St.eff] at g9t)
  all_goals (try rw [‹s.pc t = _›] at g10t)
  all_goals (try simp [Pc.bindParent, Pc.owns, Pc.destroying, okParent, St.eff] at g10t)
  all_goals (intro t' x p n L h1 h2; by_cases ht : t' = t <;> first | (subst ht; try simp [C, St.eff, upd_apply, afterLists, nextList, Pc.bindParent, Pc.owns, Pc.destroying, okParent, St.eff] at h1 h2 ⊢) | (try simp [ht, C, St.eff, upd_apply, afterLists, nextList] at h1 h2 ⊢))
  all_goals grind [Pc.bindParent, Pc.owns, Pc.destroying, okParent, St.eff]

theorem snapEpoch_exec_b (hS : Struct reg s) (hO : Orig s) (hH : Hint s) (hR : Reach reg s) :
    ∀ t' x p n L, (execBind (C r) s t).pc t' = .bSpecL x p n → (execBind (C r) s t).lst p = some L → n ≤ (execBind (C r) s t).eff L := by
  have g0 := hR.snapEpoch
  have g0t := hR.snapEpoch t
  have g1 := hR.epochLe
  have g2 := hR.joinedLe
  have g3 := hR.freshLe
  have g4 := hR.syncG
  have g4t := hR.syncG t
  have g5 := hS.bindAlive
  have g5t := hS.bindAlive t
  have g6 := hS.ownsSt
  have g6t := hS.ownsSt t
  have g7 := hS.dyingOk
  have g7t := hS.dyingOk t
  have g8 := hS.regPc
  have g8t := hS.regPc t
  have g9 := hS.itemsOk
  have g9t := hS.itemsOk t
  have g10 := hS.notWasEmpty
  have g10t := hS.notWasEmpty t
  unfold execBind
  try unfold walkNext
  try unfold afterHint
  try unfold applyReset
  try simp only [C_propHolds, C_copyNeverClears, afterLists, ↓reduceIte, Bool.true_and]
  repeat' split
  all_goals (try rw [‹s.pc t = _›] at g0t)
  all_goals (try simp [Pc.bindParent, Pc.owns, Pc.destroying, okParent, St.eff] at g0t)
  all_goals (try rw [‹s.pc t = _›] at g4t)
  all_goals (try simp [Pc.bindParent, Pc.owns, Pc.destroying, okParent, St.eff] at g4t)
  all_goals (try rw [‹s.pc t = _›] at g5t)
  all_goals (try simp [Pc.bindParent, Pc.owns, Pc.destroying, okParent, St.eff] at g5t)
  all_goals (try rw [‹s.pc t = _›] at g6t)
  all_goals (try simp [Pc.bindParent, Pc.owns, Pc.destroying, okParent, St.eff] at g6t)
  all_goals (try rw [‹s.pc t = _›] at g7t)
  all_goals (try simp [Pc.bindParent, Pc.owns, Pc.destroying, okParent, St.eff] at g7t)
  all_goals (try rw [‹s.pc t = _›] at g8t)
  all_goals (try simp [Pc.bindParent, Pc.owns, Pc.destroying, okParent, St.eff] at g8t)
  all_goals (try rw [‹s.pc t = _›] at g9t)
  all_goals (try simp [Pc.bindParent, Pc.owns, Pc.destroying, okParent, St.eff] at g9t)
  all_goals (try rw [‹s.pc t = _›] at g10t)
  all_goals (try simp [Pc.bindParent, Pc.owns, Pc.destroying, okParent, St.eff] at g10t)
  all_goals (intro t' x p n L h1 h2; by_cases ht : t' = t <;> first | (subst ht; try simp [C, St.eff, upd_apply, afterLists, nextList, Pc.bindParent, Pc.owns, Pc.destroying, okParent, St.eff] at h1 h2 ⊢) | (try simp [ht, C, St.eff, upd_apply, afterLists, nextList] at h1 h2 ⊢))
  all_goals grind [Pc.bindParent, Pc.owns, Pc.destroying, okParent, St.eff]

theorem snapEpoch_exec_o (hS : Struct reg s) (hO : Orig s) (hH : Hint s) (hR : Reach reg s) :
    ∀ t' x p n L, (execOther s t).pc t' = .bSpecL x p n → (execOther s t).lst p = some L → n ≤ (execOther s t).eff L := by
  have g0 := hR.snapEpoch
  have g0t := hR.snapEpoch t
  have g1 := hR.epochLe
  have g2 := hR.joinedLe
  have g3 := hR.freshLe
  have g4 := hR.syncG
  have g4t := hR.syncG t
  have g5 := hS.bindAlive
  have g5t := hS.bindAlive t
  have g6 := hS.ownsSt
  have g6t := hS.ownsSt t
  have g7 := hS.dyingOk
  have g7t := hS.dyingOk t
  have g8 := hS.regPc
  have g8t := hS.regPc t
  have g9 := hS.itemsOk
  have g9t := hS.itemsOk t
  have g10 := hS.notWasEmpty
  have g10t := hS.notWasEmpty t
  unfold execOther
  try unfold walkNext
  try unfold afterHint
  try unfold applyReset
  try simp only [C_propHolds, C_copyNeverClears, afterLists, ↓reduceIte, Bool.true_and]
  repeat' split
  all_goals (try rw [‹s.pc t = _›] at g0t)
  all_goals (try simp [Pc.bindParent, Pc.owns, Pc.destroying, okParent, St.eff] at g0t)
  all_goals (try rw [‹s.pc t = _›] at g4t)
  all_goals (try simp [Pc.bindParent, Pc.owns, Pc.destroying, okParent, St.eff] at g4t)
  all_goals (try rw [‹s.pc t = _›] at g5t)
  all_goals (try simp [Pc.bindParent, Pc.owns, Pc.destroying, okParent, St.eff] at g5t)
  all_goals (try rw [‹s.pc t = _›] at g6t)
  all_goals (try simp [Pc.bindParent, Pc.owns, Pc.destroying, okParent, St.eff] at g6t)
  all_goals (try rw [‹s.pc t = _›] at g7t)
  all_goals (try simp [Pc.bindParent, Pc.owns, Pc.destroying, okParent, St.eff] at g7t)
  all_goals (try rw [‹s.pc t = _›] at g8t)
  all_goals (try simp [Pc.bindParent, Pc.owns, Pc.destroying, okParent, St.eff] at g8t)
  all_goals (try rw [‹s.pc t = _›] at g9t)
  all_goals (try simp [Pc.bindParent, Pc.owns, Pc.destroying, okParent, St.eff] at g9t)
  all_goals (try rw [‹s.pc t = _›] at g10t)
  all_goals (try simp [Pc.bindParent, Pc.owns, Pc.destroying, okParent, St.eff] at g10t)
  all_goals (intro t' x p n L h1 h2; by_cases ht : t' = t <;> first | (subst ht; try simp [C, St.eff, upd_apply, afterLists, nextList, Pc.bindParent, Pc.owns, Pc.destroying, okParent, St.eff] at h1 h2 ⊢) | (try simp [ht, C, St.eff, upd_apply, afterLists, nextList] at h1 h2 ⊢))
  all_goals grind [Pc.bindParent, Pc.owns, Pc.destroying, okParent, St.eff]

theorem snapEpoch_exec (hS : Struct reg s) (hO : Orig s) (hH : Hint s) (hR : Reach reg s) :
    ∀ t' x p n L, (exec (C r) reg s t).pc t' = .bSpecL x p n → (exec (C r) reg s t).lst p = some L → n ≤ (exec (C r) reg s t).eff L := by
  unfold exec
  split
  · exact snapEpoch_exec_c hS hO hH hR
  · split
    · exact snapEpoch_exec_b hS hO hH hR
    · exact snapEpoch_exec_o hS hO hH hR

theorem snapEpoch_begin (hS : Struct reg s) (hO : Orig s) (hH : Hint s) (hR : Reach reg s) (hi : s.pc t = .idle) :
    ∀ t' x p n L, (begin (C r) reg s t).pc t' = .bSpecL x p n → (begin (C r) reg s t).lst p = some L → n ≤ (begin (C r) reg s t).eff L := by
  have g0 := hR.snapEpoch
  have g0t := hR.snapEpoch t
  have g1 := hR.epochLe
  have g2 := hR.joinedLe
  have g3 := hR.freshLe
  have g4 := hR.syncG
  have g4t := hR.syncG t
  have g5 := hS.bindAlive
  have g5t := hS.bindAlive t
  have g6 := hS.ownsSt
  have g6t := hS.ownsSt t
  have g7 := hS.dyingOk
  have g7t := hS.dyingOk t
  have g8 := hS.regPc
  have g8t := hS.regPc t
  have g9 := hS.itemsOk
  have g9t := hS.itemsOk t
  have g10 := hS.notWasEmpty
  have g10t := hS.notWasEmpty t
  begin_cases
  all_goals (try rw [hi] at g0t)
  all_goals (try simp [Pc.bindParent, Pc.owns, Pc.destroying, okParent, St.eff] at g0t)
  all_goals (try rw [hi] at g4t)
  all_goals (try simp [Pc.bindParent, Pc.owns, Pc.destroying, okParent, St.eff] at g4t)
  all_goals (try rw [hi] at g5t)
  all_goals (try simp [Pc.bindParent, Pc.owns, Pc.destroying, okParent, St.eff] at g5t)
  all_goals (try rw [hi] at g6t)
  all_goals (try simp [Pc.bindParent, Pc.owns, Pc.destroying, okParent, St.eff] at g6t)
  all_goals (try rw [hi] at g7t)
  all_goals (try simp [Pc.bindParent, Pc.owns, Pc.destroying, okParent, St.eff] at g7t)
  all_goals (try rw [hi] at g8t)
  all_goals (try simp [Pc.bindParent, Pc.owns, Pc.destroying, okParent, St.eff] at g8t)
  all_goals (try rw [hi] at g9t)
  all_goals (try simp [Pc.bindParent, Pc.owns, Pc.destroying, okParent, St.eff] at g9t)
  all_goals (try rw [hi] at g10t)
  all_goals (try simp [Pc.bindParent, Pc.owns, Pc.destroying, okParent, St.eff] at g10t)
  all_goals (intro t' x p n L h1 h2; by_cases ht : t' = t <;> first | (subst ht; try simp [C, St.eff, upd_apply, afterLists, nextList, Pc.bindParent, Pc.owns, Pc.destroying, okParent, St.eff] at h1 h2 ⊢) | (try simp [ht, C, St.eff, upd_apply, afterLists, nextList] at h1 h2 ⊢))
  all_goals grind [Pc.bindParent, Pc.owns, Pc.destroying, okParent, St.eff]

theorem curCan_exec_c (hS : Struct reg s) (hO : Orig s) (hH : Hint s) (hR : Reach reg s) :
    ∀ a m, Cur (execCancel (C r) reg s t).wst (execCancel (C r) reg s t).rst a m → (execCancel (C r) reg s t).can a = true := by
  have g0 := hR.curCan
  have g1 := hR.copyTrue
  have g1t := hR.copyTrue t
  have g2 := hR.wstLe
  unfold execCancel
  try unfold walkNext
  try unfold afterHint
  try unfold applyReset
  try simp only [C_propHolds, C_copyNeverClears, afterLists, ↓reduceIte, Bool.true_and]
  repeat' split
  all_goals (try rw [‹s.pc t = _›] at g1t)
  all_goals (try simp [Pc.copyVal] at g1t)
  all_goals (intro a m h1; try simp [C, St.eff, upd_apply, afterLists, nextList] at h1 ⊢)
  all_goals grind [Pc.copyVal , → cur_upd_wst, → cur_upd_rst]

theorem curCan_exec_b (hS : Struct reg s) (hO : Orig s) (hH : Hint s) (hR : Reach reg s) :
    ∀ a m, Cur (execBind (C r) s t).wst (execBind (C r) s t).rst a m → (execBind (C r) s t).can a = true := by
  have g0 := hR.curCan
  have g1 := hR.copyTrue
  have g1t := hR.copyTrue t
  have g2 := hR.wstLe
  unfold execBind
  try unfold walkNext
  try unfold afterHint
  try unfold applyReset
  try simp only [C_propHolds, C_copyNeverClears, afterLists, ↓reduceIte, Bool.true_and]
  repeat' split
  all_goals (try rw [‹s.pc t = _›] at g1t)
  all_goals (try simp [Pc.copyVal] at g1t)
  all_goals (intro a m h1; try simp [C, St.eff, upd_apply, afterLists, nextList] at h1 ⊢)
  all_goals grind [Pc.copyVal , → cur_upd_wst, → cur_upd_rst]

theorem curCan_exec_o (hS : Struct reg s) (hO : Orig s) (hH : Hint s) (hR : Reach reg s) :
    ∀ a m, Cur (execOther s t).wst (execOther s t).rst a m → (execOther s t).can a = true := by
  have g0 := hR.curCan
  have g1 := hR.copyTrue
  have g1t := hR.copyTrue t
  have g2 := hR.wstLe
  unfold execOther
  try unfold walkNext
  try unfold afterHint
  try unfold applyReset
  try simp only [C_propHolds, C_copyNeverClears, afterLists, ↓reduceIte, Bool.true_and]
  repeat' split
  all_goals (try rw [‹s.pc t = _›] at g1t)
  all_goals (try simp [Pc.copyVal] at g1t)
  all_goals (intro a m h1; try simp [C, St.eff, upd_apply, afterLists, nextList] at h1 ⊢)
  all_goals grind [Pc.copyVal , → cur_upd_wst, → cur_upd_rst]

theorem curCan_exec (hS : Struct reg s) (hO : Orig s) (hH : Hint s) (hR : Reach reg s) :
    ∀ a m, Cur (exec (C r) reg s t).wst (exec (C r) reg s t).rst a m → (exec (C r) reg s t).can a = true := by
  unfold exec
  split
  · exact curCan_exec_c hS hO hH hR
  · split
    · exact curCan_exec_b hS hO hH hR
    · exact curCan_exec_o hS hO hH hR

theorem curCan_begin (hS : Struct reg s) (hO : Orig s) (hH : Hint s) (hR : Reach reg s) (hi : s.pc t = .idle) :
    ∀ a m, Cur (begin (C r) reg s t).wst (begin (C r) reg s t).rst a m → (begin (C r) reg s t).can a = true := by
  have g0 := hR.curCan
  have g1 := hR.copyTrue
  have g1t := hR.copyTrue t
  have g2 := hR.wstLe
  begin_cases
  all_goals (try rw [hi] at g1t)
  all_goals (try simp [Pc.copyVal] at g1t)
  all_goals (intro a m h1; try simp [C, St.eff, upd_apply, afterLists, nextList] at h1 ⊢)
  all_goals grind [Pc.copyVal , → cur_upd_wst, → cur_upd_rst]

theorem pend_exec_c (hS : Struct reg s) (hO : Orig s) (hH : Hint s) (hR : Reach reg s) :
    ∀ a m, Cur (execCancel (C r) reg s t).wst (execCancel (C r) reg s t).rst a m → Passed (execCancel (C r) reg s t).skipSt (execCancel (C r) reg s t).srcOf (execCancel (C r) reg s t).pst (execCancel (C r) reg s t).G a m ∨ ∃ t', ((execCancel (C r) reg s t).pc t').preWalk = some a := by
  have g0 := hR.pend
  have g1 := hR.curCan
  have g2 := hR.wstLe
  unfold execCancel
  try unfold walkNext
  try unfold afterHint
  try unfold applyReset
  try simp only [C_propHolds, C_copyNeverClears, afterLists, ↓reduceIte, Bool.true_and]
  repeat' split
  all_goals (intro a m h1; try simp [C, St.eff, upd_apply, afterLists, nextList] at h1 ⊢)
  all_goals grind [Pc.preWalk , → cur_wst, → cur_upd_wst, → cur_upd_rst, passed_upd_skip_fwd, passed_upd_skip_self, passed_bump]

theorem pend_exec_b (hS : Struct reg s) (hO : Orig s) (hH : Hint s) (hR : Reach reg s) :
    ∀ a m, Cur (execBind (C r) s t).wst (execBind (C r) s t).rst a m → Passed (execBind (C r) s t).skipSt (execBind (C r) s t).srcOf (execBind (C r) s t).pst (execBind (C r) s t).G a m ∨ ∃ t', ((execBind (C r) s t).pc t').preWalk = some a := by
  have g0 := hR.pend
  have g1 := hR.curCan
  have g2 := hR.wstLe
  unfold execBind
  try unfold walkNext
  try unfold afterHint
  try unfold applyReset
  try simp only [C_propHolds, C_copyNeverClears, afterLists, ↓reduceIte, Bool.true_and]
  repeat' split
  all_goals (intro a m h1; try simp [C, St.eff, upd_apply, afterLists, nextList] at h1 ⊢)
  all_goals grind [Pc.preWalk , → cur_wst, → cur_upd_wst, → cur_upd_rst, passed_upd_skip_fwd, passed_upd_skip_self, passed_bump]

theorem pend_exec_o (hS : Struct reg s) (hO : Orig s) (hH : Hint s) (hR : Reach reg s) :
    ∀ a m, Cur (execOther s t).wst (execOther s t).rst a m → Passed (execOther s t).skipSt (execOther s t).srcOf (execOther s t).pst (execOther s t).G a m ∨ ∃ t', ((execOther s t).pc t').preWalk = some a := by
  have g0 := hR.pend
  have g1 := hR.curCan
  have g2 := hR.wstLe
  unfold execOther
  try unfold walkNext
  try unfold afterHint
  try unfold applyReset
  try simp only [C_propHolds, C_copyNeverClears, afterLists, ↓reduceIte, Bool.true_and]
  repeat' split
  all_goals (intro a m h1; try simp [C, St.eff, upd_apply, afterLists, nextList] at h1 ⊢)
  all_goals grind [Pc.preWalk , → cur_wst, → cur_upd_wst, → cur_upd_rst, passed_upd_skip_fwd, passed_upd_skip_self, passed_bump]

theorem pend_exec (hS : Struct reg s) (hO : Orig s) (hH : Hint s) (hR : Reach reg s) :
    ∀ a m, Cur (exec (C r) reg s t).wst (exec (C r) reg s t).rst a m → Passed (exec (C r) reg s t).skipSt (exec (C r) reg s t).srcOf (exec (C r) reg s t).pst (exec (C r) reg s t).G a m ∨ ∃ t', ((exec (C r) reg s t).pc t').preWalk = some a := by
  unfold exec
  split
  · exact pend_exec_c hS hO hH hR
  · split
    · exact pend_exec_b hS hO hH hR
    · exact pend_exec_o hS hO hH hR

theorem pend_begin (hS : Struct reg s) (hO : Orig s) (hH : Hint s) (hR : Reach reg s) (hi : s.pc t = .idle) :
    ∀ a m, Cur (begin (C r) reg s t).wst (begin (C r) reg s t).rst a m → Passed (begin (C r) reg s t).skipSt (begin (C r) reg s t).srcOf (begin (C r) reg s t).pst (begin (C r) reg s t).G a m ∨ ∃ t', ((begin (C r) reg s t).pc t').preWalk = some a := by
  have g0 := hR.pend
  have g1 := hR.curCan
  have g2 := hR.wstLe
  begin_cases
  all_goals (intro a m h1; try simp [C, St.eff, upd_apply, afterLists, nextList] at h1 ⊢)
  all_goals grind [Pc.preWalk , → cur_wst, → cur_upd_wst, → cur_upd_rst, passed_upd_skip_fwd, passed_upd_skip_self, passed_bump]

end TbbVerif.C04
