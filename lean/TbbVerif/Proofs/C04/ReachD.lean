/-
C04 proofs — structural invariants (epochNear, epochFree, epochWalk): preservation by `exec` and `begin`.
-/
import TbbVerif.Proofs.C04.ReachC

namespace TbbVerif.C04
variable {cfg : Cfg} {reg : List Nat} {s : St} {t : Nat}

theorem epochNear_exec_c (hS : Struct reg s) (hO : Orig s) (hR : Reach reg s) :
    ∀ L, L ∈ reg → (execCancel C reg s t).epoch L = (execCancel C reg s t).G ∨ (execCancel C reg s t).epoch L + 1 = (execCancel C reg s t).G := by
  have g0 := hR.epochNear
  have g1 := hR.epochWalk
  have g1t := hR.epochWalk t
  have g2 := hR.propMx
  have g2t := hR.propMx t
  have g3 := hR.syncG
  have g3t := hR.syncG t
  unfold execCancel
  try unfold walkNext
  try unfold afterHint
  try simp only [C_propHolds, C_copyNeverClears, afterLists, ↓reduceIte, Bool.true_and]
  repeat' split
  all_goals (try rw [‹s.pc t = _›] at g1t)
  all_goals (try simp [Pc.inProp, Pc.walkFrom] at g1t)
  all_goals (try rw [‹s.pc t = _›] at g2t)
  all_goals (try simp [Pc.inProp, Pc.walkFrom] at g2t)
  all_goals (try rw [‹s.pc t = _›] at g3t)
  all_goals (try simp [Pc.inProp, Pc.walkFrom] at g3t)
  all_goals (intro L h1; try simp [C, upd_apply, afterLists, nextList] at h1 ⊢)
  all_goals grind [Pc.inProp, Pc.walkFrom]

theorem epochNear_exec_b (hS : Struct reg s) (hO : Orig s) (hR : Reach reg s) :
    ∀ L, L ∈ reg → (execBind C s t).epoch L = (execBind C s t).G ∨ (execBind C s t).epoch L + 1 = (execBind C s t).G := by
  have g0 := hR.epochNear
  have g1 := hR.epochWalk
  have g1t := hR.epochWalk t
  have g2 := hR.propMx
  have g2t := hR.propMx t
  have g3 := hR.syncG
  have g3t := hR.syncG t
  unfold execBind
  try unfold walkNext
  try unfold afterHint
  try simp only [C_propHolds, C_copyNeverClears, afterLists, ↓reduceIte, Bool.true_and]
  repeat' split
  all_goals (try rw [‹s.pc t = _›] at g1t)
  all_goals (try simp [Pc.inProp, Pc.walkFrom] at g1t)
  all_goals (try rw [‹s.pc t = _›] at g2t)
  all_goals (try simp [Pc.inProp, Pc.walkFrom] at g2t)
  all_goals (try rw [‹s.pc t = _›] at g3t)
  all_goals (try simp [Pc.inProp, Pc.walkFrom] at g3t)
  all_goals (intro L h1; try simp [C, upd_apply, afterLists, nextList] at h1 ⊢)
  all_goals grind [Pc.inProp, Pc.walkFrom]

theorem epochNear_exec_o (hS : Struct reg s) (hO : Orig s) (hR : Reach reg s) :
    ∀ L, L ∈ reg → (execOther s t).epoch L = (execOther s t).G ∨ (execOther s t).epoch L + 1 = (execOther s t).G := by
  have g0 := hR.epochNear
  have g1 := hR.epochWalk
  have g1t := hR.epochWalk t
  have g2 := hR.propMx
  have g2t := hR.propMx t
  have g3 := hR.syncG
  have g3t := hR.syncG t
  unfold execOther
  try unfold walkNext
  try unfold afterHint
  try simp only [C_propHolds, C_copyNeverClears, afterLists, ↓reduceIte, Bool.true_and]
  repeat' split
  all_goals (try rw [‹s.pc t = _›] at g1t)
  all_goals (try simp [Pc.inProp, Pc.walkFrom] at g1t)
  all_goals (try rw [‹s.pc t = _›] at g2t)
  all_goals (try simp [Pc.inProp, Pc.walkFrom] at g2t)
  all_goals (try rw [‹s.pc t = _›] at g3t)
  all_goals (try simp [Pc.inProp, Pc.walkFrom] at g3t)
  all_goals (intro L h1; try simp [C, upd_apply, afterLists, nextList] at h1 ⊢)
  all_goals grind [Pc.inProp, Pc.walkFrom]

theorem epochNear_exec (hS : Struct reg s) (hO : Orig s) (hR : Reach reg s) :
    ∀ L, L ∈ reg → (exec C reg s t).epoch L = (exec C reg s t).G ∨ (exec C reg s t).epoch L + 1 = (exec C reg s t).G := by
  unfold exec
  split
  · exact epochNear_exec_c hS hO hR
  · split
    · exact epochNear_exec_b hS hO hR
    · exact epochNear_exec_o hS hO hR

theorem epochNear_begin (hS : Struct reg s) (hO : Orig s) (hR : Reach reg s) (hi : s.pc t = .idle) :
    ∀ L, L ∈ reg → (begin reg s t).epoch L = (begin reg s t).G ∨ (begin reg s t).epoch L + 1 = (begin reg s t).G := by
  have g0 := hR.epochNear
  have g1 := hR.epochWalk
  have g1t := hR.epochWalk t
  have g2 := hR.propMx
  have g2t := hR.propMx t
  have g3 := hR.syncG
  have g3t := hR.syncG t
  begin_cases
  all_goals (try rw [hi] at g1t)
  all_goals (try simp [Pc.inProp, Pc.walkFrom] at g1t)
  all_goals (try rw [hi] at g2t)
  all_goals (try simp [Pc.inProp, Pc.walkFrom] at g2t)
  all_goals (try rw [hi] at g3t)
  all_goals (try simp [Pc.inProp, Pc.walkFrom] at g3t)
  all_goals (intro L h1; try simp [C, upd_apply, afterLists, nextList] at h1 ⊢)
  all_goals grind [Pc.inProp, Pc.walkFrom]

theorem epochFree_exec_c (hS : Struct reg s) (hO : Orig s) (hR : Reach reg s) :
    ∀ L, L ∈ reg → (execCancel C reg s t).propMx = none → (execCancel C reg s t).epoch L = (execCancel C reg s t).G := by
  have g0 := hR.epochFree
  have g1 := hR.epochWalk
  have g1t := hR.epochWalk t
  have g2 := hR.propMx
  have g2t := hR.propMx t
  have g3 := hR.syncG
  have g3t := hR.syncG t
  unfold execCancel
  try unfold walkNext
  try unfold afterHint
  try simp only [C_propHolds, C_copyNeverClears, afterLists, ↓reduceIte, Bool.true_and]
  repeat' split
  all_goals (try rw [‹s.pc t = _›] at g1t)
  all_goals (try simp [Pc.inProp, Pc.walkFrom] at g1t)
  all_goals (try rw [‹s.pc t = _›] at g2t)
  all_goals (try simp [Pc.inProp, Pc.walkFrom] at g2t)
  all_goals (try rw [‹s.pc t = _›] at g3t)
  all_goals (try simp [Pc.inProp, Pc.walkFrom] at g3t)
  all_goals (intro L h1 h2; try simp [C, upd_apply, afterLists, nextList] at h1 h2 ⊢)
  all_goals grind [Pc.inProp, Pc.walkFrom]

theorem epochFree_exec_b (hS : Struct reg s) (hO : Orig s) (hR : Reach reg s) :
    ∀ L, L ∈ reg → (execBind C s t).propMx = none → (execBind C s t).epoch L = (execBind C s t).G := by
  have g0 := hR.epochFree
  have g1 := hR.epochWalk
  have g1t := hR.epochWalk t
  have g2 := hR.propMx
  have g2t := hR.propMx t
  have g3 := hR.syncG
  have g3t := hR.syncG t
  unfold execBind
  try unfold walkNext
  try unfold afterHint
  try simp only [C_propHolds, C_copyNeverClears, afterLists, ↓reduceIte, Bool.true_and]
  repeat' split
  all_goals (try rw [‹s.pc t = _›] at g1t)
  all_goals (try simp [Pc.inProp, Pc.walkFrom] at g1t)
  all_goals (try rw [‹s.pc t = _›] at g2t)
  all_goals (try simp [Pc.inProp, Pc.walkFrom] at g2t)
  all_goals (try rw [‹s.pc t = _›] at g3t)
  all_goals (try simp [Pc.inProp, Pc.walkFrom] at g3t)
  all_goals (intro L h1 h2; try simp [C, upd_apply, afterLists, nextList] at h1 h2 ⊢)
  all_goals grind [Pc.inProp, Pc.walkFrom]

theorem epochFree_exec_o (hS : Struct reg s) (hO : Orig s) (hR : Reach reg s) :
    ∀ L, L ∈ reg → (execOther s t).propMx = none → (execOther s t).epoch L = (execOther s t).G := by
  have g0 := hR.epochFree
  have g1 := hR.epochWalk
  have g1t := hR.epochWalk t
  have g2 := hR.propMx
  have g2t := hR.propMx t
  have g3 := hR.syncG
  have g3t := hR.syncG t
  unfold execOther
  try unfold walkNext
  try unfold afterHint
  try simp only [C_propHolds, C_copyNeverClears, afterLists, ↓reduceIte, Bool.true_and]
  repeat' split
  all_goals (try rw [‹s.pc t = _›] at g1t)
  all_goals (try simp [Pc.inProp, Pc.walkFrom] at g1t)
  all_goals (try rw [‹s.pc t = _›] at g2t)
  all_goals (try simp [Pc.inProp, Pc.walkFrom] at g2t)
  all_goals (try rw [‹s.pc t = _›] at g3t)
  all_goals (try simp [Pc.inProp, Pc.walkFrom] at g3t)
  all_goals (intro L h1 h2; try simp [C, upd_apply, afterLists, nextList] at h1 h2 ⊢)
  all_goals grind [Pc.inProp, Pc.walkFrom]

theorem epochFree_exec (hS : Struct reg s) (hO : Orig s) (hR : Reach reg s) :
    ∀ L, L ∈ reg → (exec C reg s t).propMx = none → (exec C reg s t).epoch L = (exec C reg s t).G := by
  unfold exec
  split
  · exact epochFree_exec_c hS hO hR
  · split
    · exact epochFree_exec_b hS hO hR
    · exact epochFree_exec_o hS hO hR

theorem epochFree_begin (hS : Struct reg s) (hO : Orig s) (hR : Reach reg s) (hi : s.pc t = .idle) :
    ∀ L, L ∈ reg → (begin reg s t).propMx = none → (begin reg s t).epoch L = (begin reg s t).G := by
  have g0 := hR.epochFree
  have g1 := hR.epochWalk
  have g1t := hR.epochWalk t
  have g2 := hR.propMx
  have g2t := hR.propMx t
  have g3 := hR.syncG
  have g3t := hR.syncG t
  begin_cases
  all_goals (try rw [hi] at g1t)
  all_goals (try simp [Pc.inProp, Pc.walkFrom] at g1t)
  all_goals (try rw [hi] at g2t)
  all_goals (try simp [Pc.inProp, Pc.walkFrom] at g2t)
  all_goals (try rw [hi] at g3t)
  all_goals (try simp [Pc.inProp, Pc.walkFrom] at g3t)
  all_goals (intro L h1 h2; try simp [C, upd_apply, afterLists, nextList] at h1 h2 ⊢)
  all_goals grind [Pc.inProp, Pc.walkFrom]

theorem epochWalk_exec_c (hS : Struct reg s) (hO : Orig s) (hR : Reach reg s) :
    ∀ t' L, L ∈ reg → (execCancel C reg s t).propMx = some t' → (execCancel C reg s t).epoch L ≠ (execCancel C reg s t).G → ∃ j, ((execCancel C reg s t).pc t').walkFrom = some j ∧ L ∈ reg.drop j := by
  have g0 := hR.epochWalk
  have g0t := hR.epochWalk t
  have g1 := hR.epochFree
  have g2 := hR.propMx
  have g2t := hR.propMx t
  have g3 := hR.syncG
  have g3t := hR.syncG t
  have g4 := hR.epochNear
  unfold execCancel
  try unfold walkNext
  try unfold afterHint
  try simp only [C_propHolds, C_copyNeverClears, afterLists, ↓reduceIte, Bool.true_and]
  repeat' split
  all_goals (try rw [‹s.pc t = _›] at g0t)
  all_goals (try simp [Pc.inProp, Pc.walkFrom, mem_drop_succ, drop_nil_of_len, drop_nil_of_none, List.drop_zero] at g0t)
  all_goals (try rw [‹s.pc t = _›] at g2t)
  all_goals (try simp [Pc.inProp, Pc.walkFrom, mem_drop_succ, drop_nil_of_len, drop_nil_of_none, List.drop_zero] at g2t)
  all_goals (try rw [‹s.pc t = _›] at g3t)
  all_goals (try simp [Pc.inProp, Pc.walkFrom, mem_drop_succ, drop_nil_of_len, drop_nil_of_none, List.drop_zero] at g3t)
  all_goals (intro t' L h1 h2 h3; by_cases ht : t' = t <;> first | (subst ht; try simp [C, upd_apply, afterLists, nextList, Pc.inProp, Pc.walkFrom, mem_drop_succ, drop_nil_of_len, drop_nil_of_none, List.drop_zero] at h1 h2 h3 ⊢) | (try simp [ht, C, upd_apply, afterLists, nextList] at h1 h2 h3 ⊢))
  all_goals grind [Pc.inProp, Pc.walkFrom, mem_drop_succ, drop_nil_of_len, drop_nil_of_none, List.drop_zero]

theorem epochWalk_exec_b (hS : Struct reg s) (hO : Orig s) (hR : Reach reg s) :
    ∀ t' L, L ∈ reg → (execBind C s t).propMx = some t' → (execBind C s t).epoch L ≠ (execBind C s t).G → ∃ j, ((execBind C s t).pc t').walkFrom = some j ∧ L ∈ reg.drop j := by
  have g0 := hR.epochWalk
  have g0t := hR.epochWalk t
  have g1 := hR.epochFree
  have g2 := hR.propMx
  have g2t := hR.propMx t
  have g3 := hR.syncG
  have g3t := hR.syncG t
  have g4 := hR.epochNear
  unfold execBind
  try unfold walkNext
  try unfold afterHint
  try simp only [C_propHolds, C_copyNeverClears, afterLists, ↓reduceIte, Bool.true_and]
  repeat' split
  all_goals (try rw [‹s.pc t = _›] at g0t)
  all_goals (try simp [Pc.inProp, Pc.walkFrom, mem_drop_succ, drop_nil_of_len, drop_nil_of_none, List.drop_zero] at g0t)
  all_goals (try rw [‹s.pc t = _›] at g2t)
  all_goals (try simp [Pc.inProp, Pc.walkFrom, mem_drop_succ, drop_nil_of_len, drop_nil_of_none, List.drop_zero] at g2t)
  all_goals (try rw [‹s.pc t = _›] at g3t)
  all_goals (try simp [Pc.inProp, Pc.walkFrom, mem_drop_succ, drop_nil_of_len, drop_nil_of_none, List.drop_zero] at g3t)
  all_goals (intro t' L h1 h2 h3; by_cases ht : t' = t <;> first | (subst ht; try simp [C, upd_apply, afterLists, nextList, Pc.inProp, Pc.walkFrom, mem_drop_succ, drop_nil_of_len, drop_nil_of_none, List.drop_zero] at h1 h2 h3 ⊢) | (try simp [ht, C, upd_apply, afterLists, nextList] at h1 h2 h3 ⊢))
  all_goals grind [Pc.inProp, Pc.walkFrom, mem_drop_succ, drop_nil_of_len, drop_nil_of_none, List.drop_zero]

theorem epochWalk_exec_o (hS : Struct reg s) (hO : Orig s) (hR : Reach reg s) :
    ∀ t' L, L ∈ reg → (execOther s t).propMx = some t' → (execOther s t).epoch L ≠ (execOther s t).G → ∃ j, ((execOther s t).pc t').walkFrom = some j ∧ L ∈ reg.drop j := by
  have g0 := hR.epochWalk
  have g0t := hR.epochWalk t
  have g1 := hR.epochFree
  have g2 := hR.propMx
  have g2t := hR.propMx t
  have g3 := hR.syncG
  have g3t := hR.syncG t
  have g4 := hR.epochNear
  unfold execOther
  try unfold walkNext
  try unfold afterHint
  try simp only [C_propHolds, C_copyNeverClears, afterLists, ↓reduceIte, Bool.true_and]
  repeat' split
  all_goals (try rw [‹s.pc t = _›] at g0t)
  all_goals (try simp [Pc.inProp, Pc.walkFrom, mem_drop_succ, drop_nil_of_len, drop_nil_of_none, List.drop_zero] at g0t)
  all_goals (try rw [‹s.pc t = _›] at g2t)
  all_goals (try simp [Pc.inProp, Pc.walkFrom, mem_drop_succ, drop_nil_of_len, drop_nil_of_none, List.drop_zero] at g2t)
  all_goals (try rw [‹s.pc t = _›] at g3t)
  all_goals (try simp [Pc.inProp, Pc.walkFrom, mem_drop_succ, drop_nil_of_len, drop_nil_of_none, List.drop_zero] at g3t)
  all_goals (intro t' L h1 h2 h3; by_cases ht : t' = t <;> first | (subst ht; try simp [C, upd_apply, afterLists, nextList, Pc.inProp, Pc.walkFrom, mem_drop_succ, drop_nil_of_len, drop_nil_of_none, List.drop_zero] at h1 h2 h3 ⊢) | (try simp [ht, C, upd_apply, afterLists, nextList] at h1 h2 h3 ⊢))
  all_goals grind [Pc.inProp, Pc.walkFrom, mem_drop_succ, drop_nil_of_len, drop_nil_of_none, List.drop_zero]

theorem epochWalk_exec (hS : Struct reg s) (hO : Orig s) (hR : Reach reg s) :
    ∀ t' L, L ∈ reg → (exec C reg s t).propMx = some t' → (exec C reg s t).epoch L ≠ (exec C reg s t).G → ∃ j, ((exec C reg s t).pc t').walkFrom = some j ∧ L ∈ reg.drop j := by
  unfold exec
  split
  · exact epochWalk_exec_c hS hO hR
  · split
    · exact epochWalk_exec_b hS hO hR
    · exact epochWalk_exec_o hS hO hR

theorem epochWalk_begin (hS : Struct reg s) (hO : Orig s) (hR : Reach reg s) (hi : s.pc t = .idle) :
    ∀ t' L, L ∈ reg → (begin reg s t).propMx = some t' → (begin reg s t).epoch L ≠ (begin reg s t).G → ∃ j, ((begin reg s t).pc t').walkFrom = some j ∧ L ∈ reg.drop j := by
  have g0 := hR.epochWalk
  have g0t := hR.epochWalk t
  have g1 := hR.epochFree
  have g2 := hR.propMx
  have g2t := hR.propMx t
  have g3 := hR.syncG
  have g3t := hR.syncG t
  have g4 := hR.epochNear
  begin_cases
  all_goals (try rw [hi] at g0t)
  all_goals (try simp [Pc.inProp, Pc.walkFrom, mem_drop_succ, drop_nil_of_len, drop_nil_of_none, List.drop_zero] at g0t)
  all_goals (try rw [hi] at g2t)
  all_goals (try simp [Pc.inProp, Pc.walkFrom, mem_drop_succ, drop_nil_of_len, drop_nil_of_none, List.drop_zero] at g2t)
  all_goals (try rw [hi] at g3t)
  all_goals (try simp [Pc.inProp, Pc.walkFrom, mem_drop_succ, drop_nil_of_len, drop_nil_of_none, List.drop_zero] at g3t)
  all_goals (intro t' L h1 h2 h3; by_cases ht : t' = t <;> first | (subst ht; try simp [C, upd_apply, afterLists, nextList, Pc.inProp, Pc.walkFrom, mem_drop_succ, drop_nil_of_len, drop_nil_of_none, List.drop_zero] at h1 h2 h3 ⊢) | (try simp [ht, C, upd_apply, afterLists, nextList] at h1 h2 h3 ⊢))
  all_goals grind [Pc.inProp, Pc.walkFrom, mem_drop_succ, drop_nil_of_len, drop_nil_of_none, List.drop_zero]

end TbbVerif.C04
