/-
C04 proofs — structural invariants (parSet, isoRoot, parDone, ownsSt, ownerPar): preservation by `exec` and `begin`.
-/
import TbbVerif.Proofs.C04.StructB

namespace TbbVerif.C04
variable {cfg : Cfg} {r : List RF} {reg : List Nat} {s : St} {t : Nat}

theorem parSet_exec_c (hS : Struct reg s) :
    ∀ x p, (execCancel cfg reg s t).par x = some p → (execCancel cfg reg s t).cst x ≠ .created ∧ (execCancel cfg reg s t).depth x = (execCancel cfg reg s t).depth p + 1 := by
  have g0 := hS.parSet
  have g1 := hS.parDone
  have g2 := hS.bindAlive
  have g2t := hS.bindAlive t
  unfold execCancel
  try unfold walkNext
  try unfold afterHint
  try unfold applyReset
  repeat' split
  all_goals (try rw [‹s.pc t = _›] at g2t)
  all_goals (try simp [Pc.bindParent, okParent] at g2t)
  all_goals (intro x p h1; try simp [upd_apply, afterLists, nextList] at h1 ⊢)
  all_goals grind [Pc.bindParent, okParent]

theorem parSet_exec_b (hS : Struct reg s) :
    ∀ x p, (execBind cfg s t).par x = some p → (execBind cfg s t).cst x ≠ .created ∧ (execBind cfg s t).depth x = (execBind cfg s t).depth p + 1 := by
  have g0 := hS.parSet
  have g1 := hS.parDone
  have g2 := hS.bindAlive
  have g2t := hS.bindAlive t
  unfold execBind
  try unfold walkNext
  try unfold afterHint
  try unfold applyReset
  repeat' split
  all_goals (try rw [‹s.pc t = _›] at g2t)
  all_goals (try simp [Pc.bindParent, okParent] at g2t)
  all_goals (intro x p h1; try simp [upd_apply, afterLists, nextList] at h1 ⊢)
  all_goals grind [Pc.bindParent, okParent]

theorem parSet_exec_o (hS : Struct reg s) :
    ∀ x p, (execOther s t).par x = some p → (execOther s t).cst x ≠ .created ∧ (execOther s t).depth x = (execOther s t).depth p + 1 := by
  have g0 := hS.parSet
  have g1 := hS.parDone
  have g2 := hS.bindAlive
  have g2t := hS.bindAlive t
  unfold execOther
  try unfold walkNext
  try unfold afterHint
  try unfold applyReset
  repeat' split
  all_goals (try rw [‹s.pc t = _›] at g2t)
  all_goals (try simp [Pc.bindParent, okParent] at g2t)
  all_goals (intro x p h1; try simp [upd_apply, afterLists, nextList] at h1 ⊢)
  all_goals grind [Pc.bindParent, okParent]

theorem parSet_exec (hS : Struct reg s) :
    ∀ x p, (exec cfg reg s t).par x = some p → (exec cfg reg s t).cst x ≠ .created ∧ (exec cfg reg s t).depth x = (exec cfg reg s t).depth p + 1 := by
  unfold exec
  split
  · exact parSet_exec_c hS
  · split
    · exact parSet_exec_b hS
    · exact parSet_exec_o hS

theorem parSet_begin (hS : Struct reg s) (hi : s.pc t = .idle) :
    ∀ x p, (begin cfg reg s t).par x = some p → (begin cfg reg s t).cst x ≠ .created ∧ (begin cfg reg s t).depth x = (begin cfg reg s t).depth p + 1 := by
  have g0 := hS.parSet
  have g1 := hS.parDone
  have g2 := hS.bindAlive
  have g2t := hS.bindAlive t
  begin_cases
  all_goals (try rw [hi] at g2t)
  all_goals (try simp [Pc.bindParent, okParent] at g2t)
  all_goals (intro x p h1; try simp [upd_apply, afterLists, nextList] at h1 ⊢)
  all_goals grind [Pc.bindParent, okParent]

theorem isoRoot_exec_c (hS : Struct reg s) :
    ∀ x, (execCancel cfg reg s t).cst x = .isolated → (execCancel cfg reg s t).par x = none := by
  have g0 := hS.isoRoot
  have g1 := hS.ownsSt
  have g1t := hS.ownsSt t
  have g2 := hS.ownerPar
  have g2t := hS.ownerPar t
  unfold execCancel
  try unfold walkNext
  try unfold afterHint
  try unfold applyReset
  repeat' split
  all_goals (try rw [‹s.pc t = _›] at g1t)
  all_goals (try simp [Pc.owner, Pc.owns] at g1t)
  all_goals (try rw [‹s.pc t = _›] at g2t)
  all_goals (try simp [Pc.owner, Pc.owns] at g2t)
  all_goals (intro x h1; try simp [upd_apply, afterLists, nextList] at h1 ⊢)
  all_goals grind [Pc.owner, Pc.owns]

theorem isoRoot_exec_b (hS : Struct reg s) :
    ∀ x, (execBind cfg s t).cst x = .isolated → (execBind cfg s t).par x = none := by
  have g0 := hS.isoRoot
  have g1 := hS.ownsSt
  have g1t := hS.ownsSt t
  have g2 := hS.ownerPar
  have g2t := hS.ownerPar t
  unfold execBind
  try unfold walkNext
  try unfold afterHint
  try unfold applyReset
  repeat' split
  all_goals (try rw [‹s.pc t = _›] at g1t)
  all_goals (try simp [Pc.owner, Pc.owns] at g1t)
  all_goals (try rw [‹s.pc t = _›] at g2t)
  all_goals (try simp [Pc.owner, Pc.owns] at g2t)
  all_goals (intro x h1; try simp [upd_apply, afterLists, nextList] at h1 ⊢)
  all_goals grind [Pc.owner, Pc.owns]

theorem isoRoot_exec_o (hS : Struct reg s) :
    ∀ x, (execOther s t).cst x = .isolated → (execOther s t).par x = none := by
  have g0 := hS.isoRoot
  have g1 := hS.ownsSt
  have g1t := hS.ownsSt t
  have g2 := hS.ownerPar
  have g2t := hS.ownerPar t
  unfold execOther
  try unfold walkNext
  try unfold afterHint
  try unfold applyReset
  repeat' split
  all_goals (try rw [‹s.pc t = _›] at g1t)
  all_goals (try simp [Pc.owner, Pc.owns] at g1t)
  all_goals (try rw [‹s.pc t = _›] at g2t)
  all_goals (try simp [Pc.owner, Pc.owns] at g2t)
  all_goals (intro x h1; try simp [upd_apply, afterLists, nextList] at h1 ⊢)
  all_goals grind [Pc.owner, Pc.owns]

theorem isoRoot_exec (hS : Struct reg s) :
    ∀ x, (exec cfg reg s t).cst x = .isolated → (exec cfg reg s t).par x = none := by
  unfold exec
  split
  · exact isoRoot_exec_c hS
  · split
    · exact isoRoot_exec_b hS
    · exact isoRoot_exec_o hS

theorem isoRoot_begin (hS : Struct reg s) (hi : s.pc t = .idle) :
    ∀ x, (begin cfg reg s t).cst x = .isolated → (begin cfg reg s t).par x = none := by
  have g0 := hS.isoRoot
  have g1 := hS.ownsSt
  have g1t := hS.ownsSt t
  have g2 := hS.ownerPar
  have g2t := hS.ownerPar t
  begin_cases
  all_goals (try rw [hi] at g1t)
  all_goals (try simp [Pc.owner, Pc.owns] at g1t)
  all_goals (try rw [hi] at g2t)
  all_goals (try simp [Pc.owner, Pc.owns] at g2t)
  all_goals (intro x h1; try simp [upd_apply, afterLists, nextList] at h1 ⊢)
  all_goals grind [Pc.owner, Pc.owns]

theorem parDone_exec_c (hS : Struct reg s) :
    ∀ y p, (execCancel cfg reg s t).par y = some p → (execCancel cfg reg s t).cst p ≠ .created ∧ (execCancel cfg reg s t).cst p ≠ .locked := by
  have g0 := hS.parDone
  have g1 := hS.bindAlive
  have g1t := hS.bindAlive t
  have g2 := hS.ownsSt
  have g2t := hS.ownsSt t
  unfold execCancel
  try unfold walkNext
  try unfold afterHint
  try unfold applyReset
  repeat' split
  all_goals (try rw [‹s.pc t = _›] at g1t)
  all_goals (try simp [Pc.bindParent, Pc.owns, okParent] at g1t)
  all_goals (try rw [‹s.pc t = _›] at g2t)
  all_goals (try simp [Pc.bindParent, Pc.owns, okParent] at g2t)
  all_goals (intro y p h1; try simp [upd_apply, afterLists, nextList] at h1 ⊢)
  all_goals grind [Pc.bindParent, Pc.owns, okParent]

theorem parDone_exec_b (hS : Struct reg s) :
    ∀ y p, (execBind cfg s t).par y = some p → (execBind cfg s t).cst p ≠ .created ∧ (execBind cfg s t).cst p ≠ .locked := by
  have g0 := hS.parDone
  have g1 := hS.bindAlive
  have g1t := hS.bindAlive t
  have g2 := hS.ownsSt
  have g2t := hS.ownsSt t
  unfold execBind
  try unfold walkNext
  try unfold afterHint
  try unfold applyReset
  repeat' split
  all_goals (try rw [‹s.pc t = _›] at g1t)
  all_goals (try simp [Pc.bindParent, Pc.owns, okParent] at g1t)
  all_goals (try rw [‹s.pc t = _›] at g2t)
  all_goals (try simp [Pc.bindParent, Pc.owns, okParent] at g2t)
  all_goals (intro y p h1; try simp [upd_apply, afterLists, nextList] at h1 ⊢)
  all_goals grind [Pc.bindParent, Pc.owns, okParent]

theorem parDone_exec_o (hS : Struct reg s) :
    ∀ y p, (execOther s t).par y = some p → (execOther s t).cst p ≠ .created ∧ (execOther s t).cst p ≠ .locked := by
  have g0 := hS.parDone
  have g1 := hS.bindAlive
  have g1t := hS.bindAlive t
  have g2 := hS.ownsSt
  have g2t := hS.ownsSt t
  unfold execOther
  try unfold walkNext
  try unfold afterHint
  try unfold applyReset
  repeat' split
  all_goals (try rw [‹s.pc t = _›] at g1t)
  all_goals (try simp [Pc.bindParent, Pc.owns, okParent] at g1t)
  all_goals (try rw [‹s.pc t = _›] at g2t)
  all_goals (try simp [Pc.bindParent, Pc.owns, okParent] at g2t)
  all_goals (intro y p h1; try simp [upd_apply, afterLists, nextList] at h1 ⊢)
  all_goals grind [Pc.bindParent, Pc.owns, okParent]

theorem parDone_exec (hS : Struct reg s) :
    ∀ y p, (exec cfg reg s t).par y = some p → (exec cfg reg s t).cst p ≠ .created ∧ (exec cfg reg s t).cst p ≠ .locked := by
  unfold exec
  split
  · exact parDone_exec_c hS
  · split
    · exact parDone_exec_b hS
    · exact parDone_exec_o hS

theorem parDone_begin (hS : Struct reg s) (hi : s.pc t = .idle) :
    ∀ y p, (begin cfg reg s t).par y = some p → (begin cfg reg s t).cst p ≠ .created ∧ (begin cfg reg s t).cst p ≠ .locked := by
  have g0 := hS.parDone
  have g1 := hS.bindAlive
  have g1t := hS.bindAlive t
  have g2 := hS.ownsSt
  have g2t := hS.ownsSt t
  begin_cases
  all_goals (try rw [hi] at g1t)
  all_goals (try simp [Pc.bindParent, Pc.owns, okParent] at g1t)
  all_goals (try rw [hi] at g2t)
  all_goals (try simp [Pc.bindParent, Pc.owns, okParent] at g2t)
  all_goals (intro y p h1; try simp [upd_apply, afterLists, nextList] at h1 ⊢)
  all_goals grind [Pc.bindParent, Pc.owns, okParent]

theorem ownsSt_exec_c (hS : Struct reg s) :
    ∀ t' x, ((execCancel cfg reg s t).pc t').owns = some x → (execCancel cfg reg s t).cst x = .locked := by
  have g0 := hS.ownsSt
  have g0t := hS.ownsSt t
  have g1 := hS.ownsUnique
  have g1t := hS.ownsUnique t
  have g2 := hS.bindNotDying
  have g2t := hS.bindNotDying t
  have g3 := hS.dyingOk
  have g3t := hS.dyingOk t
  unfold execCancel
  try unfold walkNext
  try unfold afterHint
  try unfold applyReset
  repeat' split
  all_goals (try rw [‹s.pc t = _›] at g0t)
  all_goals (try simp [Pc.owns, Pc.owns_bindTarget, Pc.bindTarget, Pc.destroying] at g0t)
  all_goals (try rw [‹s.pc t = _›] at g1t)
  all_goals (try simp [Pc.owns, Pc.owns_bindTarget, Pc.bindTarget, Pc.destroying] at g1t)
  all_goals (try rw [‹s.pc t = _›] at g2t)
  all_goals (try simp [Pc.owns, Pc.owns_bindTarget, Pc.bindTarget, Pc.destroying] at g2t)
  all_goals (try rw [‹s.pc t = _›] at g3t)
  all_goals (try simp [Pc.owns, Pc.owns_bindTarget, Pc.bindTarget, Pc.destroying] at g3t)
  all_goals (intro t' x h1; by_cases ht : t' = t <;> first | (subst ht; try simp [upd_apply, afterLists, nextList, Pc.owns, Pc.owns_bindTarget, Pc.bindTarget, Pc.destroying] at h1 ⊢) | (try simp [ht, upd_apply, afterLists, nextList] at h1 ⊢))
  all_goals grind [Pc.owns, Pc.owns_bindTarget, Pc.bindTarget, Pc.destroying]

theorem ownsSt_exec_b (hS : Struct reg s) :
    ∀ t' x, ((execBind cfg s t).pc t').owns = some x → (execBind cfg s t).cst x = .locked := by
  have g0 := hS.ownsSt
  have g0t := hS.ownsSt t
  have g1 := hS.ownsUnique
  have g1t := hS.ownsUnique t
  have g2 := hS.bindNotDying
  have g2t := hS.bindNotDying t
  have g3 := hS.dyingOk
  have g3t := hS.dyingOk t
  unfold execBind
  try unfold walkNext
  try unfold afterHint
  try unfold applyReset
  repeat' split
  all_goals (try rw [‹s.pc t = _›] at g0t)
  all_goals (try simp [Pc.owns, Pc.owns_bindTarget, Pc.bindTarget, Pc.destroying] at g0t)
  all_goals (try rw [‹s.pc t = _›] at g1t)
  all_goals (try simp [Pc.owns, Pc.owns_bindTarget, Pc.bindTarget, Pc.destroying] at g1t)
  all_goals (try rw [‹s.pc t = _›] at g2t)
  all_goals (try simp [Pc.owns, Pc.owns_bindTarget, Pc.bindTarget, Pc.destroying] at g2t)
  all_goals (try rw [‹s.pc t = _›] at g3t)
  all_goals (try simp [Pc.owns, Pc.owns_bindTarget, Pc.bindTarget, Pc.destroying] at g3t)
  all_goals (intro t' x h1; by_cases ht : t' = t <;> first | (subst ht; try simp [upd_apply, afterLists, nextList, Pc.owns, Pc.owns_bindTarget, Pc.bindTarget, Pc.destroying] at h1 ⊢) | (try simp [ht, upd_apply, afterLists, nextList] at h1 ⊢))
  all_goals grind [Pc.owns, Pc.owns_bindTarget, Pc.bindTarget, Pc.destroying]

theorem ownsSt_exec_o (hS : Struct reg s) :
    ∀ t' x, ((execOther s t).pc t').owns = some x → (execOther s t).cst x = .locked := by
  have g0 := hS.ownsSt
  have g0t := hS.ownsSt t
  have g1 := hS.ownsUnique
  have g1t := hS.ownsUnique t
  have g2 := hS.bindNotDying
  have g2t := hS.bindNotDying t
  have g3 := hS.dyingOk
  have g3t := hS.dyingOk t
  unfold execOther
  try unfold walkNext
  try unfold afterHint
  try unfold applyReset
  repeat' split
  all_goals (try rw [‹s.pc t = _›] at g0t)
  all_goals (try simp [Pc.owns, Pc.owns_bindTarget, Pc.bindTarget, Pc.destroying] at g0t)
  all_goals (try rw [‹s.pc t = _›] at g1t)
  all_goals (try simp [Pc.owns, Pc.owns_bindTarget, Pc.bindTarget, Pc.destroying] at g1t)
  all_goals (try rw [‹s.pc t = _›] at g2t)
  all_goals (try simp [Pc.owns, Pc.owns_bindTarget, Pc.bindTarget, Pc.destroying] at g2t)
  all_goals (try rw [‹s.pc t = _›] at g3t)
  all_goals (try simp [Pc.owns, Pc.owns_bindTarget, Pc.bindTarget, Pc.destroying] at g3t)
  all_goals (intro t' x h1; by_cases ht : t' = t <;> first | (subst ht; try simp [upd_apply, afterLists, nextList, Pc.owns, Pc.owns_bindTarget, Pc.bindTarget, Pc.destroying] at h1 ⊢) | (try simp [ht, upd_apply, afterLists, nextList] at h1 ⊢))
  all_goals grind [Pc.owns, Pc.owns_bindTarget, Pc.bindTarget, Pc.destroying]

theorem ownsSt_exec (hS : Struct reg s) :
    ∀ t' x, ((exec cfg reg s t).pc t').owns = some x → (exec cfg reg s t).cst x = .locked := by
  unfold exec
  split
  · exact ownsSt_exec_c hS
  · split
    · exact ownsSt_exec_b hS
    · exact ownsSt_exec_o hS

theorem ownsSt_begin (hS : Struct reg s) (hi : s.pc t = .idle) :
    ∀ t' x, ((begin cfg reg s t).pc t').owns = some x → (begin cfg reg s t).cst x = .locked := by
  have g0 := hS.ownsSt
  have g0t := hS.ownsSt t
  have g1 := hS.ownsUnique
  have g1t := hS.ownsUnique t
  have g2 := hS.bindNotDying
  have g2t := hS.bindNotDying t
  have g3 := hS.dyingOk
  have g3t := hS.dyingOk t
  begin_cases
  all_goals (try rw [hi] at g0t)
  all_goals (try simp [Pc.owns, Pc.owns_bindTarget, Pc.bindTarget, Pc.destroying] at g0t)
  all_goals (try rw [hi] at g1t)
  all_goals (try simp [Pc.owns, Pc.owns_bindTarget, Pc.bindTarget, Pc.destroying] at g1t)
  all_goals (try rw [hi] at g2t)
  all_goals (try simp [Pc.owns, Pc.owns_bindTarget, Pc.bindTarget, Pc.destroying] at g2t)
  all_goals (try rw [hi] at g3t)
  all_goals (try simp [Pc.owns, Pc.owns_bindTarget, Pc.bindTarget, Pc.destroying] at g3t)
  all_goals (intro t' x h1; by_cases ht : t' = t <;> first | (subst ht; try simp [upd_apply, afterLists, nextList, Pc.owns, Pc.owns_bindTarget, Pc.bindTarget, Pc.destroying] at h1 ⊢) | (try simp [ht, upd_apply, afterLists, nextList] at h1 ⊢))
  all_goals grind [Pc.owns, Pc.owns_bindTarget, Pc.bindTarget, Pc.destroying]

theorem ownerPar_exec_c (hS : Struct reg s) :
    ∀ t' x p, ((execCancel cfg reg s t).pc t').owner = some (x, p) → (execCancel cfg reg s t).par x = p := by
  have g0 := hS.ownerPar
  have g0t := hS.ownerPar t
  have g1 := hS.ownsSt
  have g1t := hS.ownsSt t
  unfold execCancel
  try unfold walkNext
  try unfold afterHint
  try unfold applyReset
  repeat' split
  all_goals (try rw [‹s.pc t = _›] at g0t)
  all_goals (try simp [Pc.owner, Pc.owns, Pc.owner_owns] at g0t)
  all_goals (try rw [‹s.pc t = _›] at g1t)
  all_goals (try simp [Pc.owner, Pc.owns, Pc.owner_owns] at g1t)
  all_goals (intro t' x p h1; by_cases ht : t' = t <;> first | (subst ht; try simp [upd_apply, afterLists, nextList, Pc.owner, Pc.owns, Pc.owner_owns] at h1 ⊢) | (try simp [ht, upd_apply, afterLists, nextList] at h1 ⊢))
  all_goals grind [Pc.owner, Pc.owns, Pc.owner_owns]

theorem ownerPar_exec_b (hS : Struct reg s) :
    ∀ t' x p, ((execBind cfg s t).pc t').owner = some (x, p) → (execBind cfg s t).par x = p := by
  have g0 := hS.ownerPar
  have g0t := hS.ownerPar t
  have g1 := hS.ownsSt
  have g1t := hS.ownsSt t
  unfold execBind
  try unfold walkNext
  try unfold afterHint
  try unfold applyReset
  repeat' split
  all_goals (try rw [‹s.pc t = _›] at g0t)
  all_goals (try simp [Pc.owner, Pc.owns, Pc.owner_owns] at g0t)
  all_goals (try rw [‹s.pc t = _›] at g1t)
  all_goals (try simp [Pc.owner, Pc.owns, Pc.owner_owns] at g1t)
  all_goals (intro t' x p h1; by_cases ht : t' = t <;> first | (subst ht; try simp [upd_apply, afterLists, nextList, Pc.owner, Pc.owns, Pc.owner_owns] at h1 ⊢) | (try simp [ht, upd_apply, afterLists, nextList] at h1 ⊢))
  all_goals grind [Pc.owner, Pc.owns, Pc.owner_owns]

theorem ownerPar_exec_o (hS : Struct reg s) :
    ∀ t' x p, ((execOther s t).pc t').owner = some (x, p) → (execOther s t).par x = p := by
  have g0 := hS.ownerPar
  have g0t := hS.ownerPar t
  have g1 := hS.ownsSt
  have g1t := hS.ownsSt t
  unfold execOther
  try unfold walkNext
  try unfold afterHint
  try unfold applyReset
  repeat' split
  all_goals (try rw [‹s.pc t = _›] at g0t)
  all_goals (try simp [Pc.owner, Pc.owns, Pc.owner_owns] at g0t)
  all_goals (try rw [‹s.pc t = _›] at g1t)
  all_goals (try simp [Pc.owner, Pc.owns, Pc.owner_owns] at g1t)
  all_goals (intro t' x p h1; by_cases ht : t' = t <;> first | (subst ht; try simp [upd_apply, afterLists, nextList, Pc.owner, Pc.owns, Pc.owner_owns] at h1 ⊢) | (try simp [ht, upd_apply, afterLists, nextList] at h1 ⊢))
  all_goals grind [Pc.owner, Pc.owns, Pc.owner_owns]

theorem ownerPar_exec (hS : Struct reg s) :
    ∀ t' x p, ((exec cfg reg s t).pc t').owner = some (x, p) → (exec cfg reg s t).par x = p := by
  unfold exec
  split
  · exact ownerPar_exec_c hS
  · split
    · exact ownerPar_exec_b hS
    · exact ownerPar_exec_o hS

theorem ownerPar_begin (hS : Struct reg s) (hi : s.pc t = .idle) :
    ∀ t' x p, ((begin cfg reg s t).pc t').owner = some (x, p) → (begin cfg reg s t).par x = p := by
  have g0 := hS.ownerPar
  have g0t := hS.ownerPar t
  have g1 := hS.ownsSt
  have g1t := hS.ownsSt t
  begin_cases
  all_goals (try rw [hi] at g0t)
  all_goals (try simp [Pc.owner, Pc.owns, Pc.owner_owns] at g0t)
  all_goals (try rw [hi] at g1t)
  all_goals (try simp [Pc.owner, Pc.owns, Pc.owner_owns] at g1t)
  all_goals (intro t' x p h1; by_cases ht : t' = t <;> first | (subst ht; try simp [upd_apply, afterLists, nextList, Pc.owner, Pc.owns, Pc.owner_owns] at h1 ⊢) | (try simp [ht, upd_apply, afterLists, nextList] at h1 ⊢))
  all_goals grind [Pc.owner, Pc.owns, Pc.owner_owns]

end TbbVerif.C04
