/-
C04 proofs — structural invariants (parSet, isoRoot, parDone, ownsSt, ownerPar): preservation by `exec` and `begin`.
-/
import TbbVerif.Proofs.C04.StructB

namespace TbbVerif.C04
variable {cfg : Cfg} {reg : List Nat} {s : St} {t : Nat}

theorem parSet_exec (hS : Struct reg s) :
    ∀ x p, (exec cfg reg s t).par x = some p → (exec cfg reg s t).cst x ≠ .created ∧ (exec cfg reg s t).depth x = (exec cfg reg s t).depth p + 1 := by
  have g0 := hS.parSet
  have g1 := hS.parDone
  have g2 := hS.bindAlive
  have g2t := hS.bindAlive t
  exec_cases
  all_goals (try rw [‹s.pc t = _›] at g2t)
  all_goals (try simp [Pc.bindParent, okParent] at g2t)
  all_goals (intro x p h1; try simp [upd_apply, afterLists, nextList] at h1 ⊢)
  all_goals grind [Pc.bindParent, okParent]

theorem parSet_begin (hS : Struct reg s) (hi : s.pc t = .idle) :
    ∀ x p, (begin reg s t).par x = some p → (begin reg s t).cst x ≠ .created ∧ (begin reg s t).depth x = (begin reg s t).depth p + 1 := by
  have g0 := hS.parSet
  have g1 := hS.parDone
  have g2 := hS.bindAlive
  have g2t := hS.bindAlive t
  begin_cases
  all_goals (try rw [hi] at g2t)
  all_goals (try simp [Pc.bindParent, okParent] at g2t)
  all_goals (intro x p h1; try simp [upd_apply, afterLists, nextList] at h1 ⊢)
  all_goals grind [Pc.bindParent, okParent]

theorem isoRoot_exec (hS : Struct reg s) :
    ∀ x, (exec cfg reg s t).cst x = .isolated → (exec cfg reg s t).par x = none := by
  have g0 := hS.isoRoot
  have g1 := hS.ownsSt
  have g1t := hS.ownsSt t
  have g2 := hS.ownerPar
  have g2t := hS.ownerPar t
  exec_cases
  all_goals (try rw [‹s.pc t = _›] at g1t)
  all_goals (try simp [Pc.owner, Pc.owns] at g1t)
  all_goals (try rw [‹s.pc t = _›] at g2t)
  all_goals (try simp [Pc.owner, Pc.owns] at g2t)
  all_goals (intro x h1; try simp [upd_apply, afterLists, nextList] at h1 ⊢)
  all_goals grind [Pc.owner, Pc.owns]

theorem isoRoot_begin (hS : Struct reg s) (hi : s.pc t = .idle) :
    ∀ x, (begin reg s t).cst x = .isolated → (begin reg s t).par x = none := by
  have g0 := hS.isoRoot
  have g1 := hS.ownsSt
  have g1t := hS.ownsSt t
  have g2 := hS.ownerPar
  have g2t := hS.ownerPar t
  begin_cases
  all_goals (try rw [hi] at g1t)
  all_goals (try simp [Pc.owner, Pc.owns] at g1t)
  all_goals (try rw [hi] at g2t)
  all_goals (try simp [Pc.owner, Pc.owns] at g2t)
  all_goals (intro x h1; try simp [upd_apply, afterLists, nextList] at h1 ⊢)
  all_goals grind [Pc.owner, Pc.owns]

theorem parDone_exec (hS : Struct reg s) :
    ∀ y p, (exec cfg reg s t).par y = some p → (exec cfg reg s t).cst p ≠ .created ∧ (exec cfg reg s t).cst p ≠ .locked := by
  have g0 := hS.parDone
  have g1 := hS.bindAlive
  have g1t := hS.bindAlive t
  have g2 := hS.ownsSt
  have g2t := hS.ownsSt t
  exec_cases
  all_goals (try rw [‹s.pc t = _›] at g1t)
  all_goals (try simp [Pc.bindParent, Pc.owns, okParent] at g1t)
  all_goals (try rw [‹s.pc t = _›] at g2t)
  all_goals (try simp [Pc.bindParent, Pc.owns, okParent] at g2t)
  all_goals (intro y p h1; try simp [upd_apply, afterLists, nextList] at h1 ⊢)
  all_goals grind [Pc.bindParent, Pc.owns, okParent]

theorem parDone_begin (hS : Struct reg s) (hi : s.pc t = .idle) :
    ∀ y p, (begin reg s t).par y = some p → (begin reg s t).cst p ≠ .created ∧ (begin reg s t).cst p ≠ .locked := by
  have g0 := hS.parDone
  have g1 := hS.bindAlive
  have g1t := hS.bindAlive t
  have g2 := hS.ownsSt
  have g2t := hS.ownsSt t
  begin_cases
  all_goals (try rw [hi] at g1t)
  all_goals (try simp [Pc.bindParent, Pc.owns, okParent] at g1t)
  all_goals (try rw [hi] at g2t)
  all_goals (try simp [Pc.bindParent, Pc.owns, okParent] at g2t)
  all_goals (intro y p h1; try simp [upd_apply, afterLists, nextList] at h1 ⊢)
  all_goals grind [Pc.bindParent, Pc.owns, okParent]

theorem ownsSt_exec (hS : Struct reg s) :
    ∀ t' x, ((exec cfg reg s t).pc t').owns = some x → (exec cfg reg s t).cst x = .locked := by
  have g0 := hS.ownsSt
  have g0t := hS.ownsSt t
  have g1 := hS.ownsUnique
  have g1t := hS.ownsUnique t
  have g2 := hS.bindNotDying
  have g2t := hS.bindNotDying t
  have g3 := hS.dyingOk
  have g3t := hS.dyingOk t
  exec_cases
  all_goals (try rw [‹s.pc t = _›] at g0t)
  all_goals (try simp [Pc.owns, Pc.owns_bindTarget, Pc.bindTarget, Pc.destroying] at g0t)
  all_goals (try rw [‹s.pc t = _›] at g1t)
  all_goals (try simp [Pc.owns, Pc.owns_bindTarget, Pc.bindTarget, Pc.destroying] at g1t)
  all_goals (try rw [‹s.pc t = _›] at g2t)
  all_goals (try simp [Pc.owns, Pc.owns_bindTarget, Pc.bindTarget, Pc.destroying] at g2t)
  all_goals (try rw [‹s.pc t = _›] at g3t)
  all_goals (try simp [Pc.owns, Pc.owns_bindTarget, Pc.bindTarget, Pc.destroying] at g3t)
  all_goals (intro t' x h1; by_cases ht : t' = t <;> first | (subst ht; try simp [upd_apply, afterLists, nextList, Pc.owns, Pc.owns_bindTarget, Pc.bindTarget, Pc.destroying] at h1 ⊢) | (try simp [ht, upd_apply, afterLists, nextList] at h1 ⊢))
  all_goals grind [Pc.owns, Pc.owns_bindTarget, Pc.bindTarget, Pc.destroying]

theorem ownsSt_begin (hS : Struct reg s) (hi : s.pc t = .idle) :
    ∀ t' x, ((begin reg s t).pc t').owns = some x → (begin reg s t).cst x = .locked := by
  have g0 := hS.ownsSt
  have g0t := hS.ownsSt t
  have g1 := hS.ownsUnique
  have g1t := hS.ownsUnique t
  have g2 := hS.bindNotDying
  have g2t := hS.bindNotDying t
  have g3 := hS.dyingOk
  have g3t := hS.dyingOk t
  begin_cases
  all_goals (try rw [hi] at g0t)
  all_goals (try simp [Pc.owns, Pc.owns_bindTarget, Pc.bindTarget, Pc.destroying] at g0t)
  all_goals (try rw [hi] at g1t)
  all_goals (try simp [Pc.owns, Pc.owns_bindTarget, Pc.bindTarget, Pc.destroying] at g1t)
  all_goals (try rw [hi] at g2t)
  all_goals (try simp [Pc.owns, Pc.owns_bindTarget, Pc.bindTarget, Pc.destroying] at g2t)
  all_goals (try rw [hi] at g3t)
  all_goals (try simp [Pc.owns, Pc.owns_bindTarget, Pc.bindTarget, Pc.destroying] at g3t)
  all_goals (intro t' x h1; by_cases ht : t' = t <;> first | (subst ht; try simp [upd_apply, afterLists, nextList, Pc.owns, Pc.owns_bindTarget, Pc.bindTarget, Pc.destroying] at h1 ⊢) | (try simp [ht, upd_apply, afterLists, nextList] at h1 ⊢))
  all_goals grind [Pc.owns, Pc.owns_bindTarget, Pc.bindTarget, Pc.destroying]

theorem ownerPar_exec (hS : Struct reg s) :
    ∀ t' x p, ((exec cfg reg s t).pc t').owner = some (x, p) → (exec cfg reg s t).par x = p := by
  have g0 := hS.ownerPar
  have g0t := hS.ownerPar t
  have g1 := hS.ownsSt
  have g1t := hS.ownsSt t
  exec_cases
  all_goals (try rw [‹s.pc t = _›] at g0t)
  all_goals (try simp [Pc.owner, Pc.owns, Pc.owner_owns] at g0t)
  all_goals (try rw [‹s.pc t = _›] at g1t)
  all_goals (try simp [Pc.owner, Pc.owns, Pc.owner_owns] at g1t)
  all_goals (intro t' x p h1; by_cases ht : t' = t <;> first | (subst ht; try simp [upd_apply, afterLists, nextList, Pc.owner, Pc.owns, Pc.owner_owns] at h1 ⊢) | (try simp [ht, upd_apply, afterLists, nextList] at h1 ⊢))
  all_goals grind [Pc.owner, Pc.owns, Pc.owner_owns]

theorem ownerPar_begin (hS : Struct reg s) (hi : s.pc t = .idle) :
    ∀ t' x p, ((begin reg s t).pc t').owner = some (x, p) → (begin reg s t).par x = p := by
  have g0 := hS.ownerPar
  have g0t := hS.ownerPar t
  have g1 := hS.ownsSt
  have g1t := hS.ownsSt t
  begin_cases
  all_goals (try rw [hi] at g0t)
  all_goals (try simp [Pc.owner, Pc.owns, Pc.owner_owns] at g0t)
  all_goals (try rw [hi] at g1t)
  all_goals (try simp [Pc.owner, Pc.owns, Pc.owner_owns] at g1t)
  all_goals (intro t' x p h1; by_cases ht : t' = t <;> first | (subst ht; try simp [upd_apply, afterLists, nextList, Pc.owner, Pc.owns, Pc.owner_owns] at h1 ⊢) | (try simp [ht, upd_apply, afterLists, nextList] at h1 ⊢))
  all_goals grind [Pc.owner, Pc.owns, Pc.owner_owns]

end TbbVerif.C04
