/-
C04 proofs — structural invariants (spec, fbDone): preservation by `exec` and `begin`.
-/
import TbbVerif.Proofs.C04.ReachF

namespace TbbVerif.C04
variable {cfg : Cfg} {reg : List Nat} {s : St} {t : Nat}

set_option maxHeartbeats 1600000 in
theorem spec_exec_c (hS : Struct reg s) (hO : Orig s) (hR : Reach reg s) :
    ∀ t' x n a, ((execCancel C reg s t).pc t').afterSpec = some (x, n) → PassedUpTo (execCancel C reg s t).skip (execCancel C reg s t).srcOf n a → Anc (execCancel C reg s t).par x a → (execCancel C reg s t).can x = true := by
  have g0 := hR.spec
  have g0t := hR.spec t
  have g1 := hR.copyTrue
  have g1t := hR.copyTrue t
  have g2 := hR.noResetPc
  have g2t := hR.noResetPc t
  have g3 := hR.snapLe
  have g3t := hR.snapLe t
  have l0 := @snap_le_of_afterSpec reg s hR
  have l1 := @spec_establish reg s hS hR
  have l2 := @no_anc_afterSpec reg s hS hR
  have l3 := @locked_afterSpec reg s hS
  have l4 := @anc_cas_back reg s hS
  unfold execCancel
  try unfold walkNext
  try unfold afterHint
  try simp only [C_propHolds, C_copyNeverClears, afterLists, ↓reduceIte, Bool.true_and]
  repeat' split
  all_goals (try rw [‹s.pc t = _›] at g0t)
  all_goals (try simp [Pc.afterSpec, Pc.copyVal, Pc.snapVal] at g0t)
  all_goals (try rw [‹s.pc t = _›] at g1t)
  all_goals (try simp [Pc.afterSpec, Pc.copyVal, Pc.snapVal] at g1t)
  all_goals (try rw [‹s.pc t = _›] at g2t)
  all_goals (try simp [Pc.afterSpec, Pc.copyVal, Pc.snapVal] at g2t)
  all_goals (try rw [‹s.pc t = _›] at g3t)
  all_goals (try simp [Pc.afterSpec, Pc.copyVal, Pc.snapVal] at g3t)
  all_goals (intro t' x n a h1 h2 h3; by_cases ht : t' = t <;> first | (subst ht; try simp [C, upd_apply, afterLists, nextList, Pc.afterSpec, Pc.copyVal, Pc.snapVal] at h1 h2 h3 ⊢) | (try simp [ht, C, upd_apply, afterLists, nextList] at h1 h2 h3 ⊢))
  all_goals grind [Pc.afterSpec, Pc.copyVal, Pc.snapVal , → Pc.afterSpec_owner, → passed_below_bump, passed_upd_skip, → ne_of_locked_created]

set_option maxHeartbeats 1600000 in
theorem spec_exec_b (hS : Struct reg s) (hO : Orig s) (hR : Reach reg s) :
    ∀ t' x n a, ((execBind C s t).pc t').afterSpec = some (x, n) → PassedUpTo (execBind C s t).skip (execBind C s t).srcOf n a → Anc (execBind C s t).par x a → (execBind C s t).can x = true := by
  have g0 := hR.spec
  have g0t := hR.spec t
  have g1 := hR.copyTrue
  have g1t := hR.copyTrue t
  have g2 := hR.noResetPc
  have g2t := hR.noResetPc t
  have g3 := hR.snapLe
  have g3t := hR.snapLe t
  have l0 := @snap_le_of_afterSpec reg s hR
  have l1 := @spec_establish reg s hS hR
  have l2 := @no_anc_afterSpec reg s hS hR
  have l3 := @locked_afterSpec reg s hS
  have l4 := @anc_cas_back reg s hS
  unfold execBind
  try unfold walkNext
  try unfold afterHint
  try simp only [C_propHolds, C_copyNeverClears, afterLists, ↓reduceIte, Bool.true_and]
  repeat' split
  all_goals (try rw [‹s.pc t = _›] at g0t)
  all_goals (try simp [Pc.afterSpec, Pc.copyVal, Pc.snapVal] at g0t)
  all_goals (try rw [‹s.pc t = _›] at g1t)
  all_goals (try simp [Pc.afterSpec, Pc.copyVal, Pc.snapVal] at g1t)
  all_goals (try rw [‹s.pc t = _›] at g2t)
  all_goals (try simp [Pc.afterSpec, Pc.copyVal, Pc.snapVal] at g2t)
  all_goals (try rw [‹s.pc t = _›] at g3t)
  all_goals (try simp [Pc.afterSpec, Pc.copyVal, Pc.snapVal] at g3t)
  all_goals (intro t' x n a h1 h2 h3; by_cases ht : t' = t <;> first | (subst ht; try simp [C, upd_apply, afterLists, nextList, Pc.afterSpec, Pc.copyVal, Pc.snapVal] at h1 h2 h3 ⊢) | (try simp [ht, C, upd_apply, afterLists, nextList] at h1 h2 h3 ⊢))
  all_goals grind [Pc.afterSpec, Pc.copyVal, Pc.snapVal , → Pc.afterSpec_owner, → passed_below_bump, passed_upd_skip, → ne_of_locked_created]

set_option maxHeartbeats 1600000 in
theorem spec_exec_o (hS : Struct reg s) (hO : Orig s) (hR : Reach reg s) :
    ∀ t' x n a, ((execOther s t).pc t').afterSpec = some (x, n) → PassedUpTo (execOther s t).skip (execOther s t).srcOf n a → Anc (execOther s t).par x a → (execOther s t).can x = true := by
  have g0 := hR.spec
  have g0t := hR.spec t
  have g1 := hR.copyTrue
  have g1t := hR.copyTrue t
  have g2 := hR.noResetPc
  have g2t := hR.noResetPc t
  have g3 := hR.snapLe
  have g3t := hR.snapLe t
  have l0 := @snap_le_of_afterSpec reg s hR
  have l1 := @spec_establish reg s hS hR
  have l2 := @no_anc_afterSpec reg s hS hR
  have l3 := @locked_afterSpec reg s hS
  have l4 := @anc_cas_back reg s hS
  unfold execOther
  try unfold walkNext
  try unfold afterHint
  try simp only [C_propHolds, C_copyNeverClears, afterLists, ↓reduceIte, Bool.true_and]
  repeat' split
  all_goals (try rw [‹s.pc t = _›] at g0t)
  all_goals (try simp [Pc.afterSpec, Pc.copyVal, Pc.snapVal] at g0t)
  all_goals (try rw [‹s.pc t = _›] at g1t)
  all_goals (try simp [Pc.afterSpec, Pc.copyVal, Pc.snapVal] at g1t)
  all_goals (try rw [‹s.pc t = _›] at g2t)
  all_goals (try simp [Pc.afterSpec, Pc.copyVal, Pc.snapVal] at g2t)
  all_goals (try rw [‹s.pc t = _›] at g3t)
  all_goals (try simp [Pc.afterSpec, Pc.copyVal, Pc.snapVal] at g3t)
  all_goals (intro t' x n a h1 h2 h3; by_cases ht : t' = t <;> first | (subst ht; try simp [C, upd_apply, afterLists, nextList, Pc.afterSpec, Pc.copyVal, Pc.snapVal] at h1 h2 h3 ⊢) | (try simp [ht, C, upd_apply, afterLists, nextList] at h1 h2 h3 ⊢))
  all_goals grind [Pc.afterSpec, Pc.copyVal, Pc.snapVal , → Pc.afterSpec_owner, → passed_below_bump, passed_upd_skip, → ne_of_locked_created]

theorem spec_exec (hS : Struct reg s) (hO : Orig s) (hR : Reach reg s) :
    ∀ t' x n a, ((exec C reg s t).pc t').afterSpec = some (x, n) → PassedUpTo (exec C reg s t).skip (exec C reg s t).srcOf n a → Anc (exec C reg s t).par x a → (exec C reg s t).can x = true := by
  unfold exec
  split
  · exact spec_exec_c hS hO hR
  · split
    · exact spec_exec_b hS hO hR
    · exact spec_exec_o hS hO hR

set_option maxHeartbeats 1600000 in
theorem spec_begin (hS : Struct reg s) (hO : Orig s) (hR : Reach reg s) (hi : s.pc t = .idle) :
    ∀ t' x n a, ((begin reg s t).pc t').afterSpec = some (x, n) → PassedUpTo (begin reg s t).skip (begin reg s t).srcOf n a → Anc (begin reg s t).par x a → (begin reg s t).can x = true := by
  have g0 := hR.spec
  have g0t := hR.spec t
  have g1 := hR.copyTrue
  have g1t := hR.copyTrue t
  have g2 := hR.noResetPc
  have g2t := hR.noResetPc t
  have g3 := hR.snapLe
  have g3t := hR.snapLe t
  have l0 := @snap_le_of_afterSpec reg s hR
  have l1 := @spec_establish reg s hS hR
  have l2 := @no_anc_afterSpec reg s hS hR
  have l3 := @locked_afterSpec reg s hS
  have l4 := @anc_cas_back reg s hS
  begin_cases
  all_goals (try rw [hi] at g0t)
  all_goals (try simp [Pc.afterSpec, Pc.copyVal, Pc.snapVal] at g0t)
  all_goals (try rw [hi] at g1t)
  all_goals (try simp [Pc.afterSpec, Pc.copyVal, Pc.snapVal] at g1t)
  all_goals (try rw [hi] at g2t)
  all_goals (try simp [Pc.afterSpec, Pc.copyVal, Pc.snapVal] at g2t)
  all_goals (try rw [hi] at g3t)
  all_goals (try simp [Pc.afterSpec, Pc.copyVal, Pc.snapVal] at g3t)
  all_goals (intro t' x n a h1 h2 h3; by_cases ht : t' = t <;> first | (subst ht; try simp [C, upd_apply, afterLists, nextList, Pc.afterSpec, Pc.copyVal, Pc.snapVal] at h1 h2 h3 ⊢) | (try simp [ht, C, upd_apply, afterLists, nextList] at h1 h2 h3 ⊢))
  all_goals grind [Pc.afterSpec, Pc.copyVal, Pc.snapVal , → Pc.afterSpec_owner, → passed_below_bump, passed_upd_skip, → ne_of_locked_created]

set_option maxHeartbeats 1600000 in
theorem fbDone_exec_c (hS : Struct reg s) (hO : Orig s) (hR : Reach reg s) :
    ∀ t' x p a, (execCancel C reg s t).pc t' = .bFbU x p → PassedUpTo (execCancel C reg s t).skip (execCancel C reg s t).srcOf (execCancel C reg s t).G a → Anc (execCancel C reg s t).par x a → (execCancel C reg s t).can x = true := by
  have g0 := hR.fbDone
  have g0t := hR.fbDone t
  have g1 := hR.copyTrue
  have g1t := hR.copyTrue t
  have g2 := hR.noResetPc
  have g2t := hR.noResetPc t
  have g3 := hR.propMx
  have g3t := hR.propMx t
  have g4 := hS.ownsSt
  have g4t := hS.ownsSt t
  have l0 := @fb_establish reg s hS hR
  have l1 := @no_anc_fbU reg s hS hR
  have l2 := @anc_cas_back reg s hS
  unfold execCancel
  try unfold walkNext
  try unfold afterHint
  try simp only [C_propHolds, C_copyNeverClears, afterLists, ↓reduceIte, Bool.true_and]
  repeat' split
  all_goals (try rw [‹s.pc t = _›] at g0t)
  all_goals (try simp [Pc.copyVal, Pc.inProp, Pc.owns] at g0t)
  all_goals (try rw [‹s.pc t = _›] at g1t)
  all_goals (try simp [Pc.copyVal, Pc.inProp, Pc.owns] at g1t)
  all_goals (try rw [‹s.pc t = _›] at g2t)
  all_goals (try simp [Pc.copyVal, Pc.inProp, Pc.owns] at g2t)
  all_goals (try rw [‹s.pc t = _›] at g3t)
  all_goals (try simp [Pc.copyVal, Pc.inProp, Pc.owns] at g3t)
  all_goals (try rw [‹s.pc t = _›] at g4t)
  all_goals (try simp [Pc.copyVal, Pc.inProp, Pc.owns] at g4t)
  all_goals (intro t' x p a h1 h2 h3; by_cases ht : t' = t <;> first | (subst ht; try simp [C, upd_apply, afterLists, nextList, Pc.copyVal, Pc.inProp, Pc.owns] at h1 h2 h3 ⊢) | (try simp [ht, C, upd_apply, afterLists, nextList] at h1 h2 h3 ⊢))
  all_goals grind [Pc.copyVal, Pc.inProp, Pc.owns , passed_upd_skip, passed_bump, → ne_of_locked_created]

set_option maxHeartbeats 1600000 in
theorem fbDone_exec_b (hS : Struct reg s) (hO : Orig s) (hR : Reach reg s) :
    ∀ t' x p a, (execBind C s t).pc t' = .bFbU x p → PassedUpTo (execBind C s t).skip (execBind C s t).srcOf (execBind C s t).G a → Anc (execBind C s t).par x a → (execBind C s t).can x = true := by
  have g0 := hR.fbDone
  have g0t := hR.fbDone t
  have g1 := hR.copyTrue
  have g1t := hR.copyTrue t
  have g2 := hR.noResetPc
  have g2t := hR.noResetPc t
  have g3 := hR.propMx
  have g3t := hR.propMx t
  have g4 := hS.ownsSt
  have g4t := hS.ownsSt t
  have l0 := @fb_establish reg s hS hR
  have l1 := @no_anc_fbU reg s hS hR
  have l2 := @anc_cas_back reg s hS
  unfold execBind
  try unfold walkNext
  try unfold afterHint
  try simp only [C_propHolds, C_copyNeverClears, afterLists, ↓reduceIte, Bool.true_and]
  repeat' split
  all_goals (try rw [‹s.pc t = _›] at g0t)
  all_goals (try simp [Pc.copyVal, Pc.inProp, Pc.owns] at g0t)
  all_goals (try rw [‹s.pc t = _›] at g1t)
  all_goals (try simp [Pc.copyVal, Pc.inProp, Pc.owns] at g1t)
  all_goals (try rw [‹s.pc t = _›] at g2t)
  all_goals (try simp [Pc.copyVal, Pc.inProp, Pc.owns] at g2t)
  all_goals (try rw [‹s.pc t = _›] at g3t)
  all_goals (try simp [Pc.copyVal, Pc.inProp, Pc.owns] at g3t)
  all_goals (try rw [‹s.pc t = _›] at g4t)
  all_goals (try simp [Pc.copyVal, Pc.inProp, Pc.owns] at g4t)
  all_goals (intro t' x p a h1 h2 h3; by_cases ht : t' = t <;> first | (subst ht; try simp [C, upd_apply, afterLists, nextList, Pc.copyVal, Pc.inProp, Pc.owns] at h1 h2 h3 ⊢) | (try simp [ht, C, upd_apply, afterLists, nextList] at h1 h2 h3 ⊢))
  all_goals grind [Pc.copyVal, Pc.inProp, Pc.owns , passed_upd_skip, passed_bump, → ne_of_locked_created]

set_option maxHeartbeats 1600000 in
theorem fbDone_exec_o (hS : Struct reg s) (hO : Orig s) (hR : Reach reg s) :
    ∀ t' x p a, (execOther s t).pc t' = .bFbU x p → PassedUpTo (execOther s t).skip (execOther s t).srcOf (execOther s t).G a → Anc (execOther s t).par x a → (execOther s t).can x = true := by
  have g0 := hR.fbDone
  have g0t := hR.fbDone t
  have g1 := hR.copyTrue
  have g1t := hR.copyTrue t
  have g2 := hR.noResetPc
  have g2t := hR.noResetPc t
  have g3 := hR.propMx
  have g3t := hR.propMx t
  have g4 := hS.ownsSt
  have g4t := hS.ownsSt t
  have l0 := @fb_establish reg s hS hR
  have l1 := @no_anc_fbU reg s hS hR
  have l2 := @anc_cas_back reg s hS
  unfold execOther
  try unfold walkNext
  try unfold afterHint
  try simp only [C_propHolds, C_copyNeverClears, afterLists, ↓reduceIte, Bool.true_and]
  repeat' split
  all_goals (try rw [‹s.pc t = _›] at g0t)
  all_goals (try simp [Pc.copyVal, Pc.inProp, Pc.owns] at g0t)
  all_goals (try rw [‹s.pc t = _›] at g1t)
  all_goals (try simp [Pc.copyVal, Pc.inProp, Pc.owns] at g1t)
  all_goals (try rw [‹s.pc t = _›] at g2t)
  all_goals (try simp [Pc.copyVal, Pc.inProp, Pc.owns] at g2t)
  all_goals (try rw [‹s.pc t = _›] at g3t)
  all_goals (try simp [Pc.copyVal, Pc.inProp, Pc.owns] at g3t)
  all_goals (try rw [‹s.pc t = _›] at g4t)
  all_goals (try simp [Pc.copyVal, Pc.inProp, Pc.owns] at g4t)
  all_goals (intro t' x p a h1 h2 h3; by_cases ht : t' = t <;> first | (subst ht; try simp [C, upd_apply, afterLists, nextList, Pc.copyVal, Pc.inProp, Pc.owns] at h1 h2 h3 ⊢) | (try simp [ht, C, upd_apply, afterLists, nextList] at h1 h2 h3 ⊢))
  all_goals grind [Pc.copyVal, Pc.inProp, Pc.owns , passed_upd_skip, passed_bump, → ne_of_locked_created]

theorem fbDone_exec (hS : Struct reg s) (hO : Orig s) (hR : Reach reg s) :
    ∀ t' x p a, (exec C reg s t).pc t' = .bFbU x p → PassedUpTo (exec C reg s t).skip (exec C reg s t).srcOf (exec C reg s t).G a → Anc (exec C reg s t).par x a → (exec C reg s t).can x = true := by
  unfold exec
  split
  · exact fbDone_exec_c hS hO hR
  · split
    · exact fbDone_exec_b hS hO hR
    · exact fbDone_exec_o hS hO hR

set_option maxHeartbeats 1600000 in
theorem fbDone_begin (hS : Struct reg s) (hO : Orig s) (hR : Reach reg s) (hi : s.pc t = .idle) :
    ∀ t' x p a, (begin reg s t).pc t' = .bFbU x p → PassedUpTo (begin reg s t).skip (begin reg s t).srcOf (begin reg s t).G a → Anc (begin reg s t).par x a → (begin reg s t).can x = true := by
  have g0 := hR.fbDone
  have g0t := hR.fbDone t
  have g1 := hR.copyTrue
  have g1t := hR.copyTrue t
  have g2 := hR.noResetPc
  have g2t := hR.noResetPc t
  have g3 := hR.propMx
  have g3t := hR.propMx t
  have g4 := hS.ownsSt
  have g4t := hS.ownsSt t
  have l0 := @fb_establish reg s hS hR
  have l1 := @no_anc_fbU reg s hS hR
  have l2 := @anc_cas_back reg s hS
  begin_cases
  all_goals (try rw [hi] at g0t)
  all_goals (try simp [Pc.copyVal, Pc.inProp, Pc.owns] at g0t)
  all_goals (try rw [hi] at g1t)
  all_goals (try simp [Pc.copyVal, Pc.inProp, Pc.owns] at g1t)
  all_goals (try rw [hi] at g2t)
  all_goals (try simp [Pc.copyVal, Pc.inProp, Pc.owns] at g2t)
  all_goals (try rw [hi] at g3t)
  all_goals (try simp [Pc.copyVal, Pc.inProp, Pc.owns] at g3t)
  all_goals (try rw [hi] at g4t)
  all_goals (try simp [Pc.copyVal, Pc.inProp, Pc.owns] at g4t)
  all_goals (intro t' x p a h1 h2 h3; by_cases ht : t' = t <;> first | (subst ht; try simp [C, upd_apply, afterLists, nextList, Pc.copyVal, Pc.inProp, Pc.owns] at h1 h2 h3 ⊢) | (try simp [ht, C, upd_apply, afterLists, nextList] at h1 h2 h3 ⊢))
  all_goals grind [Pc.copyVal, Pc.inProp, Pc.owns , passed_upd_skip, passed_bump, → ne_of_locked_created]

end TbbVerif.C04
