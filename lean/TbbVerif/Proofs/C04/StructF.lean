/-
C04 proofs — structural invariants (boundReg, parAlive, bindAlive, dyingOk, bindNotDying): preservation by `exec` and `begin`.
-/
import TbbVerif.Proofs.C04.StructE

namespace TbbVerif.C04
variable {cfg : Cfg} {r : List RF} {reg : List Nat} {s : St} {t : Nat}

theorem boundReg_exec_c (hS : Struct reg s) :
    ∀ x, (execCancel cfg reg s t).cst x = .bound → (execCancel cfg reg s t).dying x = false → ∃ L, (execCancel cfg reg s t).lst x = some L ∧ x ∈ (execCancel cfg reg s t).items L := by
  have g0 := hS.boundReg
  have g1 := hS.regMem
  have g1t := hS.regMem t
  have g2 := hS.itemsOk
  have g3 := hS.dyingOk
  have g3t := hS.dyingOk t
  have g4 := hS.ownsSt
  have g4t := hS.ownsSt t
  unfold execCancel
  try unfold walkNext
  try unfold afterHint
  try unfold applyReset
  repeat' split
  all_goals (try rw [‹s.pc t = _›] at g1t)
  all_goals (try simp [Pc.registered, Pc.destroying, Pc.owns, List.mem_cons] at g1t)
  all_goals (try rw [‹s.pc t = _›] at g3t)
  all_goals (try simp [Pc.registered, Pc.destroying, Pc.owns, List.mem_cons] at g3t)
  all_goals (try rw [‹s.pc t = _›] at g4t)
  all_goals (try simp [Pc.registered, Pc.destroying, Pc.owns, List.mem_cons] at g4t)
  all_goals (intro x h1 h2; try simp [upd_apply, afterLists, nextList] at h1 h2 ⊢)
  all_goals grind [Pc.registered, Pc.destroying, Pc.owns, List.mem_cons]

theorem boundReg_exec_b (hS : Struct reg s) :
    ∀ x, (execBind cfg s t).cst x = .bound → (execBind cfg s t).dying x = false → ∃ L, (execBind cfg s t).lst x = some L ∧ x ∈ (execBind cfg s t).items L := by
  have g0 := hS.boundReg
  have g1 := hS.regMem
  have g1t := hS.regMem t
  have g2 := hS.itemsOk
  have g3 := hS.dyingOk
  have g3t := hS.dyingOk t
  have g4 := hS.ownsSt
  have g4t := hS.ownsSt t
  unfold execBind
  try unfold walkNext
  try unfold afterHint
  try unfold applyReset
  repeat' split
  all_goals (try rw [‹s.pc t = _›] at g1t)
  all_goals (try simp [Pc.registered, Pc.destroying, Pc.owns, List.mem_cons] at g1t)
  all_goals (try rw [‹s.pc t = _›] at g3t)
  all_goals (try simp [Pc.registered, Pc.destroying, Pc.owns, List.mem_cons] at g3t)
  all_goals (try rw [‹s.pc t = _›] at g4t)
  all_goals (try simp [Pc.registered, Pc.destroying, Pc.owns, List.mem_cons] at g4t)
  all_goals (intro x h1 h2; try simp [upd_apply, afterLists, nextList] at h1 h2 ⊢)
  all_goals grind [Pc.registered, Pc.destroying, Pc.owns, List.mem_cons]

theorem boundReg_exec_o (hS : Struct reg s) :
    ∀ x, (execOther s t).cst x = .bound → (execOther s t).dying x = false → ∃ L, (execOther s t).lst x = some L ∧ x ∈ (execOther s t).items L := by
  have g0 := hS.boundReg
  have g1 := hS.regMem
  have g1t := hS.regMem t
  have g2 := hS.itemsOk
  have g3 := hS.dyingOk
  have g3t := hS.dyingOk t
  have g4 := hS.ownsSt
  have g4t := hS.ownsSt t
  unfold execOther
  try unfold walkNext
  try unfold afterHint
  try unfold applyReset
  repeat' split
  all_goals (try rw [‹s.pc t = _›] at g1t)
  all_goals (try simp [Pc.registered, Pc.destroying, Pc.owns, List.mem_cons] at g1t)
  all_goals (try rw [‹s.pc t = _›] at g3t)
  all_goals (try simp [Pc.registered, Pc.destroying, Pc.owns, List.mem_cons] at g3t)
  all_goals (try rw [‹s.pc t = _›] at g4t)
  all_goals (try simp [Pc.registered, Pc.destroying, Pc.owns, List.mem_cons] at g4t)
  all_goals (intro x h1 h2; try simp [upd_apply, afterLists, nextList] at h1 h2 ⊢)
  all_goals grind [Pc.registered, Pc.destroying, Pc.owns, List.mem_cons]

theorem boundReg_exec (hS : Struct reg s) :
    ∀ x, (exec cfg reg s t).cst x = .bound → (exec cfg reg s t).dying x = false → ∃ L, (exec cfg reg s t).lst x = some L ∧ x ∈ (exec cfg reg s t).items L := by
  unfold exec
  split
  · exact boundReg_exec_c hS
  · split
    · exact boundReg_exec_b hS
    · exact boundReg_exec_o hS

theorem boundReg_begin (hS : Struct reg s) (hi : s.pc t = .idle) :
    ∀ x, (begin cfg reg s t).cst x = .bound → (begin cfg reg s t).dying x = false → ∃ L, (begin cfg reg s t).lst x = some L ∧ x ∈ (begin cfg reg s t).items L := by
  have g0 := hS.boundReg
  have g1 := hS.regMem
  have g1t := hS.regMem t
  have g2 := hS.itemsOk
  have g3 := hS.dyingOk
  have g3t := hS.dyingOk t
  have g4 := hS.ownsSt
  have g4t := hS.ownsSt t
  begin_cases
  all_goals (try rw [hi] at g1t)
  all_goals (try simp [Pc.registered, Pc.destroying, Pc.owns, List.mem_cons] at g1t)
  all_goals (try rw [hi] at g3t)
  all_goals (try simp [Pc.registered, Pc.destroying, Pc.owns, List.mem_cons] at g3t)
  all_goals (try rw [hi] at g4t)
  all_goals (try simp [Pc.registered, Pc.destroying, Pc.owns, List.mem_cons] at g4t)
  all_goals (intro x h1 h2; try simp [upd_apply, afterLists, nextList] at h1 h2 ⊢)
  all_goals grind [Pc.registered, Pc.destroying, Pc.owns, List.mem_cons]

theorem parAlive_exec_c (hS : Struct reg s) :
    ∀ L x p, x ∈ (execCancel cfg reg s t).items L → (execCancel cfg reg s t).par x = some p → ((execCancel cfg reg s t).cst p = .bound ∨ (execCancel cfg reg s t).cst p = .isolated) ∧ (execCancel cfg reg s t).dying p = false := by
  have g0 := hS.parAlive
  have g1 := hS.bindAlive
  have g1t := hS.bindAlive t
  have g2 := hS.itemsOk
  have g3 := hS.dyingOk
  have g3t := hS.dyingOk t
  have g4 := hS.ownerPar
  have g4t := hS.ownerPar t
  have g5 := hS.parSet
  have g6 := hS.ownsSt
  have g6t := hS.ownsSt t
  unfold execCancel
  try unfold walkNext
  try unfold afterHint
  try unfold applyReset
  repeat' split
  all_goals (try rw [‹s.pc t = _›] at g1t)
  all_goals (try simp [okParent, Pc.bindParent, Pc.owner, Pc.owns, Pc.destroying, List.mem_of_mem_erase, List.mem_cons] at g1t)
  all_goals (try rw [‹s.pc t = _›] at g3t)
  all_goals (try simp [okParent, Pc.bindParent, Pc.owner, Pc.owns, Pc.destroying, List.mem_of_mem_erase, List.mem_cons] at g3t)
  all_goals (try rw [‹s.pc t = _›] at g4t)
  all_goals (try simp [okParent, Pc.bindParent, Pc.owner, Pc.owns, Pc.destroying, List.mem_of_mem_erase, List.mem_cons] at g4t)
  all_goals (try rw [‹s.pc t = _›] at g6t)
  all_goals (try simp [okParent, Pc.bindParent, Pc.owner, Pc.owns, Pc.destroying, List.mem_of_mem_erase, List.mem_cons] at g6t)
  all_goals (intro L x p h1 h2; try simp [upd_apply, afterLists, nextList] at h1 h2 ⊢)
  all_goals grind [okParent, Pc.bindParent, Pc.owner, Pc.owns, Pc.destroying, List.mem_of_mem_erase, List.mem_cons]

theorem parAlive_exec_b (hS : Struct reg s) :
    ∀ L x p, x ∈ (execBind cfg s t).items L → (execBind cfg s t).par x = some p → ((execBind cfg s t).cst p = .bound ∨ (execBind cfg s t).cst p = .isolated) ∧ (execBind cfg s t).dying p = false := by
  have g0 := hS.parAlive
  have g1 := hS.bindAlive
  have g1t := hS.bindAlive t
  have g2 := hS.itemsOk
  have g3 := hS.dyingOk
  have g3t := hS.dyingOk t
  have g4 := hS.ownerPar
  have g4t := hS.ownerPar t
  have g5 := hS.parSet
  have g6 := hS.ownsSt
  have g6t := hS.ownsSt t
  unfold execBind
  try unfold walkNext
  try unfold afterHint
  try unfold applyReset
  repeat' split
  all_goals (try rw [‹s.pc t = _›] at g1t)
  all_goals (try simp [okParent, Pc.bindParent, Pc.owner, Pc.owns, Pc.destroying, List.mem_of_mem_erase, List.mem_cons] at g1t)
  all_goals (try rw [‹s.pc t = _›] at g3t)
  all_goals (try simp [okParent, Pc.bindParent, Pc.owner, Pc.owns, Pc.destroying, List.mem_of_mem_erase, List.mem_cons] at g3t)
  all_goals (try rw [‹s.pc t = _›] at g4t)
  all_goals (try simp [okParent, Pc.bindParent, Pc.owner, Pc.owns, Pc.destroying, List.mem_of_mem_erase, List.mem_cons] at g4t)
  all_goals (try rw [‹s.pc t = _›] at g6t)
  all_goals (try simp [okParent, Pc.bindParent, Pc.owner, Pc.owns, Pc.destroying, List.mem_of_mem_erase, List.mem_cons] at g6t)
  all_goals (intro L x p h1 h2; try simp [upd_apply, afterLists, nextList] at h1 h2 ⊢)
  all_goals grind [okParent, Pc.bindParent, Pc.owner, Pc.owns, Pc.destroying, List.mem_of_mem_erase, List.mem_cons]

theorem parAlive_exec_o (hS : Struct reg s) :
    ∀ L x p, x ∈ (execOther s t).items L → (execOther s t).par x = some p → ((execOther s t).cst p = .bound ∨ (execOther s t).cst p = .isolated) ∧ (execOther s t).dying p = false := by
  have g0 := hS.parAlive
  have g1 := hS.bindAlive
  have g1t := hS.bindAlive t
  have g2 := hS.itemsOk
  have g3 := hS.dyingOk
  have g3t := hS.dyingOk t
  have g4 := hS.ownerPar
  have g4t := hS.ownerPar t
  have g5 := hS.parSet
  have g6 := hS.ownsSt
  have g6t := hS.ownsSt t
  unfold execOther
  try unfold walkNext
  try unfold afterHint
  try unfold applyReset
  repeat' split
  all_goals (try rw [‹s.pc t = _›] at g1t)
  all_goals (try simp [okParent, Pc.bindParent, Pc.owner, Pc.owns, Pc.destroying, List.mem_of_mem_erase, List.mem_cons] at g1t)
  all_goals (try rw [‹s.pc t = _›] at g3t)
  all_goals (try simp [okParent, Pc.bindParent, Pc.owner, Pc.owns, Pc.destroying, List.mem_of_mem_erase, List.mem_cons] at g3t)
  all_goals (try rw [‹s.pc t = _›] at g4t)
  all_goals (try simp [okParent, Pc.bindParent, Pc.owner, Pc.owns, Pc.destroying, List.mem_of_mem_erase, List.mem_cons] at g4t)
  all_goals (try rw [‹s.pc t = _›] at g6t)
  all_goals (try simp [okParent, Pc.bindParent, Pc.owner, Pc.owns, Pc.destroying, List.mem_of_mem_erase, List.mem_cons] at g6t)
  all_goals (intro L x p h1 h2; try simp [upd_apply, afterLists, nextList] at h1 h2 ⊢)
  all_goals grind [okParent, Pc.bindParent, Pc.owner, Pc.owns, Pc.destroying, List.mem_of_mem_erase, List.mem_cons]

theorem parAlive_exec (hS : Struct reg s) :
    ∀ L x p, x ∈ (exec cfg reg s t).items L → (exec cfg reg s t).par x = some p → ((exec cfg reg s t).cst p = .bound ∨ (exec cfg reg s t).cst p = .isolated) ∧ (exec cfg reg s t).dying p = false := by
  unfold exec
  split
  · exact parAlive_exec_c hS
  · split
    · exact parAlive_exec_b hS
    · exact parAlive_exec_o hS

theorem parAlive_begin (hS : Struct reg s) (hi : s.pc t = .idle) :
    ∀ L x p, x ∈ (begin cfg reg s t).items L → (begin cfg reg s t).par x = some p → ((begin cfg reg s t).cst p = .bound ∨ (begin cfg reg s t).cst p = .isolated) ∧ (begin cfg reg s t).dying p = false := by
  have g0 := hS.parAlive
  have g1 := hS.bindAlive
  have g1t := hS.bindAlive t
  have g2 := hS.itemsOk
  have g3 := hS.dyingOk
  have g3t := hS.dyingOk t
  have g4 := hS.ownerPar
  have g4t := hS.ownerPar t
  have g5 := hS.parSet
  have g6 := hS.ownsSt
  have g6t := hS.ownsSt t
  begin_cases
  all_goals (try rw [hi] at g1t)
  all_goals (try simp [okParent, Pc.bindParent, Pc.owner, Pc.owns, Pc.destroying, List.mem_of_mem_erase, List.mem_cons] at g1t)
  all_goals (try rw [hi] at g3t)
  all_goals (try simp [okParent, Pc.bindParent, Pc.owner, Pc.owns, Pc.destroying, List.mem_of_mem_erase, List.mem_cons] at g3t)
  all_goals (try rw [hi] at g4t)
  all_goals (try simp [okParent, Pc.bindParent, Pc.owner, Pc.owns, Pc.destroying, List.mem_of_mem_erase, List.mem_cons] at g4t)
  all_goals (try rw [hi] at g6t)
  all_goals (try simp [okParent, Pc.bindParent, Pc.owner, Pc.owns, Pc.destroying, List.mem_of_mem_erase, List.mem_cons] at g6t)
  all_goals (intro L x p h1 h2; try simp [upd_apply, afterLists, nextList] at h1 h2 ⊢)
  all_goals grind [okParent, Pc.bindParent, Pc.owner, Pc.owns, Pc.destroying, List.mem_of_mem_erase, List.mem_cons]

theorem bindAlive_exec_c (hS : Struct reg s) :
    ∀ t' p, ((execCancel cfg reg s t).pc t').bindParent = some p → ((execCancel cfg reg s t).cst p = .bound ∨ (execCancel cfg reg s t).cst p = .isolated) ∧ (execCancel cfg reg s t).dying p = false := by
  have g0 := hS.bindAlive
  have g0t := hS.bindAlive t
  have g1 := hS.dyingOk
  have g1t := hS.dyingOk t
  have g2 := hS.bindReg
  have g2t := hS.bindReg t
  have g3 := hS.ownsSt
  have g3t := hS.ownsSt t
  unfold execCancel
  try unfold walkNext
  try unfold afterHint
  try unfold applyReset
  repeat' split
  all_goals (try rw [‹s.pc t = _›] at g0t)
  all_goals (try simp [okParent, Pc.bindParent, Pc.destroying, Pc.bindParent_isBind, Pc.owns] at g0t)
  all_goals (try rw [‹s.pc t = _›] at g1t)
  all_goals (try simp [okParent, Pc.bindParent, Pc.destroying, Pc.bindParent_isBind, Pc.owns] at g1t)
  all_goals (try rw [‹s.pc t = _›] at g2t)
  all_goals (try simp [okParent, Pc.bindParent, Pc.destroying, Pc.bindParent_isBind, Pc.owns] at g2t)
  all_goals (try rw [‹s.pc t = _›] at g3t)
  all_goals (try simp [okParent, Pc.bindParent, Pc.destroying, Pc.bindParent_isBind, Pc.owns] at g3t)
  all_goals (intro t' p h1; by_cases ht : t' = t <;> first | (subst ht; try simp [upd_apply, afterLists, nextList, okParent, Pc.bindParent, Pc.destroying, Pc.bindParent_isBind, Pc.owns] at h1 ⊢) | (try simp [ht, upd_apply, afterLists, nextList] at h1 ⊢))
  all_goals grind [okParent, Pc.bindParent, Pc.destroying, Pc.bindParent_isBind, Pc.owns]

theorem bindAlive_exec_b (hS : Struct reg s) :
    ∀ t' p, ((execBind cfg s t).pc t').bindParent = some p → ((execBind cfg s t).cst p = .bound ∨ (execBind cfg s t).cst p = .isolated) ∧ (execBind cfg s t).dying p = false := by
  have g0 := hS.bindAlive
  have g0t := hS.bindAlive t
  have g1 := hS.dyingOk
  have g1t := hS.dyingOk t
  have g2 := hS.bindReg
  have g2t := hS.bindReg t
  have g3 := hS.ownsSt
  have g3t := hS.ownsSt t
  unfold execBind
  try unfold walkNext
  try unfold afterHint
  try unfold applyReset
  repeat' split
  all_goals (try rw [‹s.pc t = _›] at g0t)
  all_goals (try simp [okParent, Pc.bindParent, Pc.destroying, Pc.bindParent_isBind, Pc.owns] at g0t)
  all_goals (try rw [‹s.pc t = _›] at g1t)
  all_goals (try simp [okParent, Pc.bindParent, Pc.destroying, Pc.bindParent_isBind, Pc.owns] at g1t)
  all_goals (try rw [‹s.pc t = _›] at g2t)
  all_goals (try simp [okParent, Pc.bindParent, Pc.destroying, Pc.bindParent_isBind, Pc.owns] at g2t)
  all_goals (try rw [‹s.pc t = _›] at g3t)
  all_goals (try simp [okParent, Pc.bindParent, Pc.destroying, Pc.bindParent_isBind, Pc.owns] at g3t)
  all_goals (intro t' p h1; by_cases ht : t' = t <;> first | (subst ht; try simp [upd_apply, afterLists, nextList, okParent, Pc.bindParent, Pc.destroying, Pc.bindParent_isBind, Pc.owns] at h1 ⊢) | (try simp [ht, upd_apply, afterLists, nextList] at h1 ⊢))
  all_goals grind [okParent, Pc.bindParent, Pc.destroying, Pc.bindParent_isBind, Pc.owns]

theorem bindAlive_exec_o (hS : Struct reg s) :
    ∀ t' p, ((execOther s t).pc t').bindParent = some p → ((execOther s t).cst p = .bound ∨ (execOther s t).cst p = .isolated) ∧ (execOther s t).dying p = false := by
  have g0 := hS.bindAlive
  have g0t := hS.bindAlive t
  have g1 := hS.dyingOk
  have g1t := hS.dyingOk t
  have g2 := hS.bindReg
  have g2t := hS.bindReg t
  have g3 := hS.ownsSt
  have g3t := hS.ownsSt t
  unfold execOther
  try unfold walkNext
  try unfold afterHint
  try unfold applyReset
  repeat' split
  all_goals (try rw [‹s.pc t = _›] at g0t)
  all_goals (try simp [okParent, Pc.bindParent, Pc.destroying, Pc.bindParent_isBind, Pc.owns] at g0t)
  all_goals (try rw [‹s.pc t = _›] at g1t)
  all_goals (try simp [okParent, Pc.bindParent, Pc.destroying, Pc.bindParent_isBind, Pc.owns] at g1t)
  all_goals (try rw [‹s.pc t = _›] at g2t)
  all_goals (try simp [okParent, Pc.bindParent, Pc.destroying, Pc.bindParent_isBind, Pc.owns] at g2t)
  all_goals (try rw [‹s.pc t = _›] at g3t)
  all_goals (try simp [okParent, Pc.bindParent, Pc.destroying, Pc.bindParent_isBind, Pc.owns] at g3t)
  all_goals (intro t' p h1; by_cases ht : t' = t <;> first | (subst ht; try simp [upd_apply, afterLists, nextList, okParent, Pc.bindParent, Pc.destroying, Pc.bindParent_isBind, Pc.owns] at h1 ⊢) | (try simp [ht, upd_apply, afterLists, nextList] at h1 ⊢))
  all_goals grind [okParent, Pc.bindParent, Pc.destroying, Pc.bindParent_isBind, Pc.owns]

theorem bindAlive_exec (hS : Struct reg s) :
    ∀ t' p, ((exec cfg reg s t).pc t').bindParent = some p → ((exec cfg reg s t).cst p = .bound ∨ (exec cfg reg s t).cst p = .isolated) ∧ (exec cfg reg s t).dying p = false := by
  unfold exec
  split
  · exact bindAlive_exec_c hS
  · split
    · exact bindAlive_exec_b hS
    · exact bindAlive_exec_o hS

theorem bindAlive_begin (hS : Struct reg s) (hi : s.pc t = .idle) :
    ∀ t' p, ((begin cfg reg s t).pc t').bindParent = some p → ((begin cfg reg s t).cst p = .bound ∨ (begin cfg reg s t).cst p = .isolated) ∧ (begin cfg reg s t).dying p = false := by
  have g0 := hS.bindAlive
  have g0t := hS.bindAlive t
  have g1 := hS.dyingOk
  have g1t := hS.dyingOk t
  have g2 := hS.bindReg
  have g2t := hS.bindReg t
  have g3 := hS.ownsSt
  have g3t := hS.ownsSt t
  begin_cases
  all_goals (try rw [hi] at g0t)
  all_goals (try simp [okParent, Pc.bindParent, Pc.destroying, Pc.bindParent_isBind, Pc.owns] at g0t)
  all_goals (try rw [hi] at g1t)
  all_goals (try simp [okParent, Pc.bindParent, Pc.destroying, Pc.bindParent_isBind, Pc.owns] at g1t)
  all_goals (try rw [hi] at g2t)
  all_goals (try simp [okParent, Pc.bindParent, Pc.destroying, Pc.bindParent_isBind, Pc.owns] at g2t)
  all_goals (try rw [hi] at g3t)
  all_goals (try simp [okParent, Pc.bindParent, Pc.destroying, Pc.bindParent_isBind, Pc.owns] at g3t)
  all_goals (intro t' p h1; by_cases ht : t' = t <;> first | (subst ht; try simp [upd_apply, afterLists, nextList, okParent, Pc.bindParent, Pc.destroying, Pc.bindParent_isBind, Pc.owns] at h1 ⊢) | (try simp [ht, upd_apply, afterLists, nextList] at h1 ⊢))
  all_goals grind [okParent, Pc.bindParent, Pc.destroying, Pc.bindParent_isBind, Pc.owns]

theorem dyingOk_exec_c (hS : Struct reg s) :
    ∀ t' x, ((execCancel cfg reg s t).pc t').destroying = some x → (execCancel cfg reg s t).dying x = true := by
  have g0 := hS.dyingOk
  have g0t := hS.dyingOk t
  unfold execCancel
  try unfold walkNext
  try unfold afterHint
  try unfold applyReset
  repeat' split
  all_goals (try rw [‹s.pc t = _›] at g0t)
  all_goals (try simp [Pc.destroying] at g0t)
  all_goals (intro t' x h1; by_cases ht : t' = t <;> first | (subst ht; try simp [upd_apply, afterLists, nextList, Pc.destroying] at h1 ⊢) | (try simp [ht, upd_apply, afterLists, nextList] at h1 ⊢))
  all_goals grind [Pc.destroying]

theorem dyingOk_exec_b (hS : Struct reg s) :
    ∀ t' x, ((execBind cfg s t).pc t').destroying = some x → (execBind cfg s t).dying x = true := by
  have g0 := hS.dyingOk
  have g0t := hS.dyingOk t
  unfold execBind
  try unfold walkNext
  try unfold afterHint
  try unfold applyReset
  repeat' split
  all_goals (try rw [‹s.pc t = _›] at g0t)
  all_goals (try simp [Pc.destroying] at g0t)
  all_goals (intro t' x h1; by_cases ht : t' = t <;> first | (subst ht; try simp [upd_apply, afterLists, nextList, Pc.destroying] at h1 ⊢) | (try simp [ht, upd_apply, afterLists, nextList] at h1 ⊢))
  all_goals grind [Pc.destroying]

theorem dyingOk_exec_o (hS : Struct reg s) :
    ∀ t' x, ((execOther s t).pc t').destroying = some x → (execOther s t).dying x = true := by
  have g0 := hS.dyingOk
  have g0t := hS.dyingOk t
  unfold execOther
  try unfold walkNext
  try unfold afterHint
  try unfold applyReset
  repeat' split
  all_goals (try rw [‹s.pc t = _›] at g0t)
  all_goals (try simp [Pc.destroying] at g0t)
  all_goals (intro t' x h1; by_cases ht : t' = t <;> first | (subst ht; try simp [upd_apply, afterLists, nextList, Pc.destroying] at h1 ⊢) | (try simp [ht, upd_apply, afterLists, nextList] at h1 ⊢))
  all_goals grind [Pc.destroying]

theorem dyingOk_exec (hS : Struct reg s) :
    ∀ t' x, ((exec cfg reg s t).pc t').destroying = some x → (exec cfg reg s t).dying x = true := by
  unfold exec
  split
  · exact dyingOk_exec_c hS
  · split
    · exact dyingOk_exec_b hS
    · exact dyingOk_exec_o hS

theorem dyingOk_begin (hS : Struct reg s) (hi : s.pc t = .idle) :
    ∀ t' x, ((begin cfg reg s t).pc t').destroying = some x → (begin cfg reg s t).dying x = true := by
  have g0 := hS.dyingOk
  have g0t := hS.dyingOk t
  begin_cases
  all_goals (try rw [hi] at g0t)
  all_goals (try simp [Pc.destroying] at g0t)
  all_goals (intro t' x h1; by_cases ht : t' = t <;> first | (subst ht; try simp [upd_apply, afterLists, nextList, Pc.destroying] at h1 ⊢) | (try simp [ht, upd_apply, afterLists, nextList] at h1 ⊢))
  all_goals grind [Pc.destroying]

theorem bindNotDying_exec_c (hS : Struct reg s) :
    ∀ t' x, ((execCancel cfg reg s t).pc t').bindTarget = some x → (execCancel cfg reg s t).dying x = false := by
  have g0 := hS.bindNotDying
  have g0t := hS.bindNotDying t
  have g1 := hS.bindReg
  have g1t := hS.bindReg t
  unfold execCancel
  try unfold walkNext
  try unfold afterHint
  try unfold applyReset
  repeat' split
  all_goals (try rw [‹s.pc t = _›] at g0t)
  all_goals (try simp [Pc.bindTarget, Pc.bindTarget_isBind] at g0t)
  all_goals (try rw [‹s.pc t = _›] at g1t)
  all_goals (try simp [Pc.bindTarget, Pc.bindTarget_isBind] at g1t)
  all_goals (intro t' x h1; by_cases ht : t' = t <;> first | (subst ht; try simp [upd_apply, afterLists, nextList, Pc.bindTarget, Pc.bindTarget_isBind] at h1 ⊢) | (try simp [ht, upd_apply, afterLists, nextList] at h1 ⊢))
  all_goals grind [Pc.bindTarget, Pc.bindTarget_isBind]

theorem bindNotDying_exec_b (hS : Struct reg s) :
    ∀ t' x, ((execBind cfg s t).pc t').bindTarget = some x → (execBind cfg s t).dying x = false := by
  have g0 := hS.bindNotDying
  have g0t := hS.bindNotDying t
  have g1 := hS.bindReg
  have g1t := hS.bindReg t
  unfold execBind
  try unfold walkNext
  try unfold afterHint
  try unfold applyReset
  repeat' split
  all_goals (try rw [‹s.pc t = _›] at g0t)
  all_goals (try simp [Pc.bindTarget, Pc.bindTarget_isBind] at g0t)
  all_goals (try rw [‹s.pc t = _›] at g1t)
  all_goals (try simp [Pc.bindTarget, Pc.bindTarget_isBind] at g1t)
  all_goals (intro t' x h1; by_cases ht : t' = t <;> first | (subst ht; try simp [upd_apply, afterLists, nextList, Pc.bindTarget, Pc.bindTarget_isBind] at h1 ⊢) | (try simp [ht, upd_apply, afterLists, nextList] at h1 ⊢))
  all_goals grind [Pc.bindTarget, Pc.bindTarget_isBind]

theorem bindNotDying_exec_o (hS : Struct reg s) :
    ∀ t' x, ((execOther s t).pc t').bindTarget = some x → (execOther s t).dying x = false := by
  have g0 := hS.bindNotDying
  have g0t := hS.bindNotDying t
  have g1 := hS.bindReg
  have g1t := hS.bindReg t
  unfold execOther
  try unfold walkNext
  try unfold afterHint
  try unfold applyReset
  repeat' split
  all_goals (try rw [‹s.pc t = _›] at g0t)
  all_goals (try simp [Pc.bindTarget, Pc.bindTarget_isBind] at g0t)
  all_goals (try rw [‹s.pc t = _›] at g1t)
  all_goals (try simp [Pc.bindTarget, Pc.bindTarget_isBind] at g1t)
  all_goals (intro t' x h1; by_cases ht : t' = t <;> first | (subst ht; try simp [upd_apply, afterLists, nextList, Pc.bindTarget, Pc.bindTarget_isBind] at h1 ⊢) | (try simp [ht, upd_apply, afterLists, nextList] at h1 ⊢))
  all_goals grind [Pc.bindTarget, Pc.bindTarget_isBind]

theorem bindNotDying_exec (hS : Struct reg s) :
    ∀ t' x, ((exec cfg reg s t).pc t').bindTarget = some x → (exec cfg reg s t).dying x = false := by
  unfold exec
  split
  · exact bindNotDying_exec_c hS
  · split
    · exact bindNotDying_exec_b hS
    · exact bindNotDying_exec_o hS

theorem bindNotDying_begin (hS : Struct reg s) (hi : s.pc t = .idle) :
    ∀ t' x, ((begin cfg reg s t).pc t').bindTarget = some x → (begin cfg reg s t).dying x = false := by
  have g0 := hS.bindNotDying
  have g0t := hS.bindNotDying t
  have g1 := hS.bindReg
  have g1t := hS.bindReg t
  begin_cases
  all_goals (try rw [hi] at g0t)
  all_goals (try simp [Pc.bindTarget, Pc.bindTarget_isBind] at g0t)
  all_goals (try rw [hi] at g1t)
  all_goals (try simp [Pc.bindTarget, Pc.bindTarget_isBind] at g1t)
  all_goals (intro t' x h1; by_cases ht : t' = t <;> first | (subst ht; try simp [upd_apply, afterLists, nextList, Pc.bindTarget, Pc.bindTarget_isBind] at h1 ⊢) | (try simp [ht, upd_apply, afterLists, nextList] at h1 ⊢))
  all_goals grind [Pc.bindTarget, Pc.bindTarget_isBind]

end TbbVerif.C04
