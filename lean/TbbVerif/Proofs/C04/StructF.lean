/-
C04 proofs — structural invariants (boundReg, parAlive, bindAlive, dyingOk, bindNotDying): preservation by `exec` and `begin`.
-/
import TbbVerif.Proofs.C04.StructE

namespace TbbVerif.C04
variable {cfg : Cfg} {reg : List Nat} {s : St} {t : Nat}

theorem boundReg_exec (hS : Struct reg s) :
    ∀ x, (exec cfg reg s t).cst x = .bound → (exec cfg reg s t).dying x = false → ∃ L, (exec cfg reg s t).lst x = some L ∧ x ∈ (exec cfg reg s t).items L := by
  have g0 := hS.boundReg
  have g1 := hS.regMem
  have g1t := hS.regMem t
  have g2 := hS.itemsOk
  have g3 := hS.dyingOk
  have g3t := hS.dyingOk t
  have g4 := hS.ownsSt
  have g4t := hS.ownsSt t
  exec_cases
  all_goals (try rw [‹s.pc t = _›] at g1t)
  all_goals (try simp [Pc.registered, Pc.destroying, Pc.owns, List.mem_cons] at g1t)
  all_goals (try rw [‹s.pc t = _›] at g3t)
  all_goals (try simp [Pc.registered, Pc.destroying, Pc.owns, List.mem_cons] at g3t)
  all_goals (try rw [‹s.pc t = _›] at g4t)
  all_goals (try simp [Pc.registered, Pc.destroying, Pc.owns, List.mem_cons] at g4t)
  all_goals (intro x h1 h2; try simp [upd_apply, afterLists, nextList] at h1 h2 ⊢)
  all_goals grind [Pc.registered, Pc.destroying, Pc.owns, List.mem_cons]

theorem boundReg_begin (hS : Struct reg s) (hi : s.pc t = .idle) :
    ∀ x, (begin reg s t).cst x = .bound → (begin reg s t).dying x = false → ∃ L, (begin reg s t).lst x = some L ∧ x ∈ (begin reg s t).items L := by
  have g0 := hS.boundReg
  have g1 := hS.regMem
  have g1t := hS.regMem t
  have g2 := hS.itemsOk
  have g3 := hS.dyingOk
  have g3t := hS.dyingOk t
  have g4 := hS.ownsSt
  have g4t := hS.ownsSt t
  begin_cases
  all_goals (try rw [hi] at g1t)
  all_goals (try simp [Pc.registered, Pc.destroying, Pc.owns, List.mem_cons] at g1t)
  all_goals (try rw [hi] at g3t)
  all_goals (try simp [Pc.registered, Pc.destroying, Pc.owns, List.mem_cons] at g3t)
  all_goals (try rw [hi] at g4t)
  all_goals (try simp [Pc.registered, Pc.destroying, Pc.owns, List.mem_cons] at g4t)
  all_goals (intro x h1 h2; try simp [upd_apply, afterLists, nextList] at h1 h2 ⊢)
  all_goals grind [Pc.registered, Pc.destroying, Pc.owns, List.mem_cons]

theorem parAlive_exec (hS : Struct reg s) :
    ∀ L x p, x ∈ (exec cfg reg s t).items L → (exec cfg reg s t).par x = some p → ((exec cfg reg s t).cst p = .bound ∨ (exec cfg reg s t).cst p = .isolated) ∧ (exec cfg reg s t).dying p = false := by
  have g0 := hS.parAlive
  have g1 := hS.bindAlive
  have g1t := hS.bindAlive t
  have g2 := hS.itemsOk
  have g3 := hS.dyingOk
  have g3t := hS.dyingOk t
  have g4 := hS.ownerPar
  have g4t := hS.ownerPar t
  have g5 := hS.parSet
  have g6 := hS.ownsSt
  have g6t := hS.ownsSt t
  exec_cases
  all_goals (try rw [‹s.pc t = _›] at g1t)
  all_goals (try simp [okParent, Pc.bindParent, Pc.owner, Pc.owns, Pc.destroying, List.mem_of_mem_erase, List.mem_cons] at g1t)
  all_goals (try rw [‹s.pc t = _›] at g3t)
  all_goals (try simp [okParent, Pc.bindParent, Pc.owner, Pc.owns, Pc.destroying, List.mem_of_mem_erase, List.mem_cons] at g3t)
  all_goals (try rw [‹s.pc t = _›] at g4t)
  all_goals (try simp [okParent, Pc.bindParent, Pc.owner, Pc.owns, Pc.destroying, List.mem_of_mem_erase, List.mem_cons] at g4t)
  all_goals (try rw [‹s.pc t = _›] at g6t)
  all_goals (try simp [okParent, Pc.bindParent, Pc.owner, Pc.owns, Pc.destroying, List.mem_of_mem_erase, List.mem_cons] at g6t)
  all_goals (intro L x p h1 h2; try simp [upd_apply, afterLists, nextList] at h1 h2 ⊢)
  all_goals grind [okParent, Pc.bindParent, Pc.owner, Pc.owns, Pc.destroying, List.mem_of_mem_erase, List.mem_cons]

theorem parAlive_begin (hS : Struct reg s) (hi : s.pc t = .idle) :
    ∀ L x p, x ∈ (begin reg s t).items L → (begin reg s t).par x = some p → ((begin reg s t).cst p = .bound ∨ (begin reg s t).cst p = .isolated) ∧ (begin reg s t).dying p = false := by
  have g0 := hS.parAlive
  have g1 := hS.bindAlive
  have g1t := hS.bindAlive t
  have g2 := hS.itemsOk
  have g3 := hS.dyingOk
  have g3t := hS.dyingOk t
  have g4 := hS.ownerPar
  have g4t := hS.ownerPar t
  have g5 := hS.parSet
  have g6 := hS.ownsSt
  have g6t := hS.ownsSt t
  begin_cases
  all_goals (try rw [hi] at g1t)
  all_goals (try simp [okParent, Pc.bindParent, Pc.owner, Pc.owns, Pc.destroying, List.mem_of_mem_erase, List.mem_cons] at g1t)
  all_goals (try rw [hi] at g3t)
  all_goals (try simp [okParent, Pc.bindParent, Pc.owner, Pc.owns, Pc.destroying, List.mem_of_mem_erase, List.mem_cons] at g3t)
  all_goals (try rw [hi] at g4t)
  all_goals (try simp [okParent, Pc.bindParent, Pc.owner, Pc.owns, Pc.destroying, List.mem_of_mem_erase, List.mem_cons] at g4t)
  all_goals (try rw [hi] at g6t)
  all_goals (try simp [okParent, Pc.bindParent, Pc.owner, Pc.owns, Pc.destroying, List.mem_of_mem_erase, List.mem_cons] at g6t)
  all_goals (intro L x p h1 h2; try simp [upd_apply, afterLists, nextList] at h1 h2 ⊢)
  all_goals grind [okParent, Pc.bindParent, Pc.owner, Pc.owns, Pc.destroying, List.mem_of_mem_erase, List.mem_cons]

theorem bindAlive_exec (hS : Struct reg s) :
    ∀ t' p, ((exec cfg reg s t).pc t').bindParent = some p → ((exec cfg reg s t).cst p = .bound ∨ (exec cfg reg s t).cst p = .isolated) ∧ (exec cfg reg s t).dying p = false := by
  have g0 := hS.bindAlive
  have g0t := hS.bindAlive t
  have g1 := hS.dyingOk
  have g1t := hS.dyingOk t
  have g2 := hS.bindReg
  have g2t := hS.bindReg t
  have g3 := hS.ownsSt
  have g3t := hS.ownsSt t
  exec_cases
  all_goals (try rw [‹s.pc t = _›] at g0t)
  all_goals (try simp [okParent, Pc.bindParent, Pc.destroying, Pc.bindParent_isBind, Pc.owns] at g0t)
  all_goals (try rw [‹s.pc t = _›] at g1t)
  all_goals (try simp [okParent, Pc.bindParent, Pc.destroying, Pc.bindParent_isBind, Pc.owns] at g1t)
  all_goals (try rw [‹s.pc t = _›] at g2t)
  all_goals (try simp [okParent, Pc.bindParent, Pc.destroying, Pc.bindParent_isBind, Pc.owns] at g2t)
  all_goals (try rw [‹s.pc t = _›] at g3t)
  all_goals (try simp [okParent, Pc.bindParent, Pc.destroying, Pc.bindParent_isBind, Pc.owns] at g3t)
  all_goals (intro t' p h1; by_cases ht : t' = t <;> first | (subst ht; try simp [upd_apply, afterLists, nextList, okParent, Pc.bindParent, Pc.destroying, Pc.bindParent_isBind, Pc.owns] at h1 ⊢) | (try simp [ht, upd_apply, afterLists, nextList] at h1 ⊢))
  all_goals grind [okParent, Pc.bindParent, Pc.destroying, Pc.bindParent_isBind, Pc.owns]

theorem bindAlive_begin (hS : Struct reg s) (hi : s.pc t = .idle) :
    ∀ t' p, ((begin reg s t).pc t').bindParent = some p → ((begin reg s t).cst p = .bound ∨ (begin reg s t).cst p = .isolated) ∧ (begin reg s t).dying p = false := by
  have g0 := hS.bindAlive
  have g0t := hS.bindAlive t
  have g1 := hS.dyingOk
  have g1t := hS.dyingOk t
  have g2 := hS.bindReg
  have g2t := hS.bindReg t
  have g3 := hS.ownsSt
  have g3t := hS.ownsSt t
  begin_cases
  all_goals (try rw [hi] at g0t)
  all_goals (try simp [okParent, Pc.bindParent, Pc.destroying, Pc.bindParent_isBind, Pc.owns] at g0t)
  all_goals (try rw [hi] at g1t)
  all_goals (try simp [okParent, Pc.bindParent, Pc.destroying, Pc.bindParent_isBind, Pc.owns] at g1t)
  all_goals (try rw [hi] at g2t)
  all_goals (try simp [okParent, Pc.bindParent, Pc.destroying, Pc.bindParent_isBind, Pc.owns] at g2t)
  all_goals (try rw [hi] at g3t)
  all_goals (try simp [okParent, Pc.bindParent, Pc.destroying, Pc.bindParent_isBind, Pc.owns] at g3t)
  all_goals (intro t' p h1; by_cases ht : t' = t <;> first | (subst ht; try simp [upd_apply, afterLists, nextList, okParent, Pc.bindParent, Pc.destroying, Pc.bindParent_isBind, Pc.owns] at h1 ⊢) | (try simp [ht, upd_apply, afterLists, nextList] at h1 ⊢))
  all_goals grind [okParent, Pc.bindParent, Pc.destroying, Pc.bindParent_isBind, Pc.owns]

theorem dyingOk_exec (hS : Struct reg s) :
    ∀ t' x, ((exec cfg reg s t).pc t').destroying = some x → (exec cfg reg s t).dying x = true := by
  have g0 := hS.dyingOk
  have g0t := hS.dyingOk t
  exec_cases
  all_goals (try rw [‹s.pc t = _›] at g0t)
  all_goals (try simp [Pc.destroying] at g0t)
  all_goals (intro t' x h1; by_cases ht : t' = t <;> first | (subst ht; try simp [upd_apply, afterLists, nextList, Pc.destroying] at h1 ⊢) | (try simp [ht, upd_apply, afterLists, nextList] at h1 ⊢))
  all_goals grind [Pc.destroying]

theorem dyingOk_begin (hS : Struct reg s) (hi : s.pc t = .idle) :
    ∀ t' x, ((begin reg s t).pc t').destroying = some x → (begin reg s t).dying x = true := by
  have g0 := hS.dyingOk
  have g0t := hS.dyingOk t
  begin_cases
  all_goals (try rw [hi] at g0t)
  all_goals (try simp [Pc.destroying] at g0t)
  all_goals (intro t' x h1; by_cases ht : t' = t <;> first | (subst ht; try simp [upd_apply, afterLists, nextList, Pc.destroying] at h1 ⊢) | (try simp [ht, upd_apply, afterLists, nextList] at h1 ⊢))
  all_goals grind [Pc.destroying]

theorem bindNotDying_exec (hS : Struct reg s) :
    ∀ t' x, ((exec cfg reg s t).pc t').bindTarget = some x → (exec cfg reg s t).dying x = false := by
  have g0 := hS.bindNotDying
  have g0t := hS.bindNotDying t
  have g1 := hS.bindReg
  have g1t := hS.bindReg t
  exec_cases
  all_goals (try rw [‹s.pc t = _›] at g0t)
  all_goals (try simp [Pc.bindTarget, Pc.bindTarget_isBind] at g0t)
  all_goals (try rw [‹s.pc t = _›] at g1t)
  all_goals (try simp [Pc.bindTarget, Pc.bindTarget_isBind] at g1t)
  all_goals (intro t' x h1; by_cases ht : t' = t <;> first | (subst ht; try simp [upd_apply, afterLists, nextList, Pc.bindTarget, Pc.bindTarget_isBind] at h1 ⊢) | (try simp [ht, upd_apply, afterLists, nextList] at h1 ⊢))
  all_goals grind [Pc.bindTarget, Pc.bindTarget_isBind]

theorem bindNotDying_begin (hS : Struct reg s) (hi : s.pc t = .idle) :
    ∀ t' x, ((begin reg s t).pc t').bindTarget = some x → (begin reg s t).dying x = false := by
  have g0 := hS.bindNotDying
  have g0t := hS.bindNotDying t
  have g1 := hS.bindReg
  have g1t := hS.bindReg t
  begin_cases
  all_goals (try rw [hi] at g0t)
  all_goals (try simp [Pc.bindTarget, Pc.bindTarget_isBind] at g0t)
  all_goals (try rw [hi] at g1t)
  all_goals (try simp [Pc.bindTarget, Pc.bindTarget_isBind] at g1t)
  all_goals (intro t' x h1; by_cases ht : t' = t <;> first | (subst ht; try simp [upd_apply, afterLists, nextList, Pc.bindTarget, Pc.bindTarget_isBind] at h1 ⊢) | (try simp [ht, upd_apply, afterLists, nextList] at h1 ⊢))
  all_goals grind [Pc.bindTarget, Pc.bindTarget_isBind]

end TbbVerif.C04
