/-
C04 proofs — `Reach` holds in every reachable state of the repaired protocol (programs without `reset`), and at
quiescence it yields: every context bound beneath a cancelled one is cancelled.
-/
import TbbVerif.Proofs.C04.ReachK

namespace TbbVerif.C04
variable {reg : List Nat} {s : St} {t : Nat}

theorem reach_exec (hS : Struct reg s) (hO : Orig s) (hR : Reach reg s) : Reach reg (exec C reg s t) where
  propMx := propMx_exec hS hO hR
  propHeld := propHeld_exec hS hO hR
  noResetOp := noResetOp_exec hS hO hR
  noResetPc := noResetPc_exec hS hO hR
  epochLe := epochLe_exec hS hO hR
  epochNear := epochNear_exec hS hO hR
  epochFree := epochFree_exec hS hO hR
  epochWalk := epochWalk_exec hS hO hR
  srcCan := srcCan_exec hS hO hR
  skipCan := skipCan_exec hS hO hR
  walkG := walkG_exec hS hO hR
  syncG := syncG_exec hS hO hR
  wonCan := wonCan_exec hS hO hR
  pend := pend_exec hS hO hR
  listed := listed_exec hS hR
  snapLe := snapLe_exec hS hO hR
  snapEpoch := snapEpoch_exec hS hO hR
  spec := spec_exec hS hO hR
  copyTrue := copyTrue_exec hS hO hR
  mhcReg := mhcReg_exec hS hO hR
  mhcBind := mhcBind_exec hS hO hR
  fbDone := fbDone_exec hS hO hR
  walked := walked_exec hS hO hR
  painting := painting_exec hS hO hR

theorem reach_begin (hS : Struct reg s) (hO : Orig s) (hR : Reach reg s) (hi : s.pc t = .idle) :
    Reach reg (begin reg s t) where
  propMx := propMx_begin hS hO hR hi
  propHeld := propHeld_begin hS hO hR hi
  noResetOp := noResetOp_begin hS hO hR hi
  noResetPc := noResetPc_begin hS hO hR hi
  epochLe := epochLe_begin hS hO hR hi
  epochNear := epochNear_begin hS hO hR hi
  epochFree := epochFree_begin hS hO hR hi
  epochWalk := epochWalk_begin hS hO hR hi
  srcCan := srcCan_begin hS hO hR hi
  skipCan := skipCan_begin hS hO hR hi
  walkG := walkG_begin hS hO hR hi
  syncG := syncG_begin hS hO hR hi
  wonCan := wonCan_begin hS hO hR hi
  pend := pend_begin hS hO hR hi
  listed := listed_begin hS hO hR hi
  snapLe := snapLe_begin hS hO hR hi
  snapEpoch := snapEpoch_begin hS hO hR hi
  spec := spec_begin hS hO hR hi
  copyTrue := copyTrue_begin hS hO hR hi
  mhcReg := mhcReg_begin hS hO hR hi
  mhcBind := mhcBind_begin hS hO hR hi
  fbDone := fbDone_begin hS hO hR hi
  walked := walked_begin hS hO hR hi
  painting := painting_begin hS hO hR hi

/-- the three invariants together -/
def AllInv (reg : List Nat) (s : St) : Prop := Struct reg s ∧ Orig s ∧ Reach reg s

theorem allInv_step (h : AllInv reg s) : AllInv reg (step C reg s t) :=
  step_preserves (P := AllInv reg)
    (fun _ _ hi h => ⟨struct_begin h.1 hi, orig_begin h.1 h.2.1 hi, reach_begin h.1 h.2.1 h.2.2 hi⟩)
    (fun _ _ h => ⟨struct_exec h.1, orig_exec h.1 h.2.1, reach_exec h.1 h.2.1 h.2.2⟩) s t h

theorem reach_init (prog : Nat → List Op) (hnr : ∀ t x, Op.reset x ∉ prog t) : Reach reg (init prog) := by
  constructor <;> simp [init, Pc.inProp, Pc.walkFrom, Pc.walkSrc, Pc.wonSrc, Pc.preWalk, Pc.snapVal, Pc.afterSpec,
    Pc.copyVal, Pc.pastHint, Pc.pending, Pc.coverOf]
  · exact hnr
  · intro n h; omega

theorem allInv_run (reg : List Nat) (prog : Nat → List Op) (hnr : ∀ t x, Op.reset x ∉ prog t) (sched : List Nat) :
    AllInv reg ((CtxTree C reg prog).run sched) :=
  Sys.inv_run (CtxTree C reg prog) (AllInv reg) ⟨struct_init prog, orig_init prog, reach_init prog hnr⟩
    (fun _ _ h => allInv_step h) sched

/-- at quiescence every context bound beneath a cancelled one is cancelled -/
theorem reaches_of_inv (h : AllInv reg s) (hq : ∀ t, s.pc t = .idle) {x a : Nat} (hb : s.cst x = .bound)
    (ha : Anc s.par x a) (hc : s.can a = true) : s.can x = true := by
  obtain ⟨hS, hO, hR⟩ := h
  -- x is registered
  have hdy : s.dying x = false := by
    cases hd : s.dying x with
    | false => rfl
    | true =>
      rcases hS.dyingSt x hd with h | ⟨t, ht⟩
      · rw [h] at hb; cases hb
      · rw [hq t] at ht; simp [Pc.destroying] at ht
  obtain ⟨L, _, hmem⟩ := hS.boundReg x hb hdy
  have hLreg := (hS.itemsOk L x hmem).2.1
  -- the cancelled ancestor is justified by a winner b above (or equal to) it
  obtain ⟨b, hba, hw⟩ := hO.can a hc
  have hxb : Anc s.par x b := by
    rcases hba with e | h
    · exact e ▸ ha
    · exact ha.trans h
  -- whose propagation is complete
  have hpass : PassedUpTo s.skip s.srcOf s.G b := by
    rcases hR.pend b hw with h | ⟨t, ht⟩
    · exact h
    · rw [hq t] at ht; simp [Pc.preWalk] at ht
  have hfree : s.propMx = none := by
    cases hp : s.propMx with
    | none => rfl
    | some t =>
      have := hR.propHeld t hp
      rw [hq t] at this
      simp [Pc.inProp] at this
  have he := hR.epochFree L hLreg hfree
  rcases hR.listed L x b hmem (he ▸ hpass) hxb with h | ⟨t, ht⟩
  · exact h
  · rw [hq t] at ht; simp [Pc.coverOf] at ht

end TbbVerif.C04
