/-
C04 proofs — `Reach` holds in every reachable state of the repaired protocol (programs with or without `reset`, as long as
`reset` does not store to my_may_have_children), and at quiescence it yields: every context bound beneath a context whose
winning cancel is still current is cancelled, unless it (or a context between the two) was reset after that cancel won.
-/
import TbbVerif.Proofs.C04.ReachK
import TbbVerif.Proofs.C04.HintAll

namespace TbbVerif.C04
variable {r : List RF} {reg : List Nat} {s : St} {t : Nat}

theorem reach_exec (hS : Struct reg s) (hO : Orig s) (hH : Hint s) (hR : Reach reg s) : Reach reg (exec (C r) reg s t) where
  propMx := propMx_exec hS hO hH hR
  propHeld := propHeld_exec hS hO hH hR
  epochLe := epochLe_exec hS hO hH hR
  joinedLe := joinedLe_exec hS hO hH hR
  freshLe := freshLe_exec hS hO hH hR
  epochNear := epochNear_exec hS hO hH hR
  epochFree := epochFree_exec hS hO hH hR
  epochWalk := epochWalk_exec hS hO hH hR
  walkG := walkG_exec hS hO hH hR
  syncG := syncG_exec hS hO hH hR
  snapLe := snapLe_exec hS hO hH hR
  snapEpoch := snapEpoch_exec hS hO hH hR
  copyTrue := copyTrue_exec hS hO hH hR
  wstLe := wstLe_exec hS hO hH hR
  pstLe := pstLe_exec hS hO hH hR
  skipLe := skipLe_exec hS hO hH hR
  curCan := curCan_exec hS hO hH hR
  pend := pend_exec hS hO hH hR
  listed := listed_exec hS hH hR
  spec := spec_exec hS hO hH hR
  fbDone := fbDone_exec hS hO hH hR
  walked := walked_exec hS hO hH hR
  painting := painting_exec hS hO hH hR

theorem reach_begin (hS : Struct reg s) (hO : Orig s) (hH : Hint s) (hR : Reach reg s) (hi : s.pc t = .idle) :
    Reach reg (begin (C r) reg s t) where
  propMx := propMx_begin hS hO hH hR hi
  propHeld := propHeld_begin hS hO hH hR hi
  epochLe := epochLe_begin hS hO hH hR hi
  joinedLe := joinedLe_begin hS hO hH hR hi
  freshLe := freshLe_begin hS hO hH hR hi
  epochNear := epochNear_begin hS hO hH hR hi
  epochFree := epochFree_begin hS hO hH hR hi
  epochWalk := epochWalk_begin hS hO hH hR hi
  walkG := walkG_begin hS hO hH hR hi
  syncG := syncG_begin hS hO hH hR hi
  snapLe := snapLe_begin hS hO hH hR hi
  snapEpoch := snapEpoch_begin hS hO hH hR hi
  copyTrue := copyTrue_begin hS hO hH hR hi
  wstLe := wstLe_begin hS hO hH hR hi
  pstLe := pstLe_begin hS hO hH hR hi
  skipLe := skipLe_begin hS hO hH hR hi
  curCan := curCan_begin hS hO hH hR hi
  pend := pend_begin hS hO hH hR hi
  listed := listed_begin hS hR hi
  spec := spec_begin hS hO hH hR hi
  fbDone := fbDone_begin hS hO hH hR hi
  walked := walked_begin hS hO hH hR hi
  painting := painting_begin hS hO hH hR hi

/-- the four invariants together -/
def AllInv (reg : List Nat) (s : St) : Prop := Struct reg s ∧ Orig s ∧ Hint s ∧ Reach reg s

theorem allInv_step (hm : RF.mhc ∉ r) (h : AllInv reg s) : AllInv reg (step (C r) reg s t) :=
  step_preserves (P := AllInv reg)
    (fun _ _ hi h => ⟨struct_begin h.1 hi, orig_begin h.1 h.2.1 hi, hint_begin h.1 hm h.2.2.1 hi,
      reach_begin h.1 h.2.1 h.2.2.1 h.2.2.2 hi⟩)
    (fun _ _ h => ⟨struct_exec h.1, orig_exec h.1 h.2.1, hint_exec h.1 hm h.2.2.1,
      reach_exec h.1 h.2.1 h.2.2.1 h.2.2.2⟩) s t h

theorem reach_init (reg : List Nat) (prog : Nat → List Op) : Reach reg (init reg prog) := by
  constructor <;> simp [init, Pc.inProp, Pc.walkFrom, Pc.walkSrc, Pc.wonSrc, Pc.preWalk, Pc.snapVal, Pc.afterSpec,
    Pc.copyVal, Pc.pastHint, Pc.pending, Pc.coverOf, Cur, St.eff]

theorem allInv_run (hm : RF.mhc ∉ r) (reg : List Nat) (prog : Nat → List Op) (sched : List Nat) :
    AllInv reg ((CtxTree (C r) reg prog).run sched) :=
  Sys.inv_run (CtxTree (C r) reg prog) (AllInv reg) ⟨struct_init reg prog, orig_init reg prog, hint_init reg prog, reach_init reg prog⟩
    (fun _ _ h => allInv_step hm h) sched

/-- at quiescence: every context bound beneath a context `a` whose winning cancel (stamp `m`) is current is cancelled,
unless it, or a context strictly between it and `a`, was reset after `m` or is registered in the context list of a thread
that has left the registry -/
theorem reaches_of_inv (h : AllInv reg s) (hq : ∀ t, s.pc t = .idle) {x a m : Nat} (hb : s.cst x = .bound)
    (ha : Anc s.par x a) (hc : Cur s.wst s.rst a m) (hfresh : ¬ Stale s.par s.rst s.oc m a x) : s.can x = true := by
  obtain ⟨hS, hO, hH, hR⟩ := h
  -- x is registered
  have hdy : s.dying x = false := by
    cases hd : s.dying x with
    | false => rfl
    | true =>
      rcases hS.dyingSt x hd with h | ⟨t, ht⟩
      · rw [h] at hb; cases hb
      · rw [hq t] at ht; simp [Pc.destroying] at ht
  obtain ⟨L, _, hmem⟩ := hS.boundReg x hb hdy
  have hLreg := (hS.itemsOk L x hmem).2.1
  -- in the list of a thread that is still registered
  have hact : s.act L = true := by
    cases hl : s.act L with
    | true => rfl
    | false => exact (hfresh (Or.inl (Or.inr (hS.ocItems L x hmem hl)))).elim
  -- the cancellation of a is complete
  have hpass : Passed s.skipSt s.srcOf s.pst s.G a m := by
    rcases hR.pend a m hc with h | ⟨t, ht⟩
    · exact h
    · rw [hq t] at ht; simp [Pc.preWalk] at ht
  have hfree : s.propMx = none := by
    cases hp : s.propMx with
    | none => rfl
    | some t =>
      have := hR.propHeld t hp
      rw [hq t] at this
      simp [Pc.inProp] at this
  have he := hR.epochFree L hLreg hact hfree
  rcases hR.listed L x a m hmem (he ▸ hpass) hc ha with (h | h) | ⟨t, ht⟩
  · exact h
  · exact (hfresh h).elim
  · rw [hq t] at ht; simp [Pc.coverOf] at ht

end TbbVerif.C04
