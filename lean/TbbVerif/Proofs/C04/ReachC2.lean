/-
C04 proofs — structural invariants (epochWalk): preservation by `exec` and `begin`.
-/
import TbbVerif.Proofs.C04.ReachC

namespace TbbVerif.C04
variable {cfg : Cfg} {r : List RF} {reg : List Nat} {s : St} {t : Nat}

theorem epochWalk_exec_c (hS : Struct reg s) (hO : Orig s) (hH : Hint s) (hR : Reach reg s) :
    ∀ t' L, L ∈ reg → (execCancel (C r) reg s t).act L = true → (execCancel (C r) reg s t).propMx = some t' → (execCancel (C r) reg s t).eff L ≠ (execCancel (C r) reg s t).G → ∃ j, ((execCancel (C r) reg s t).pc t').walkFrom = some j ∧ L ∈ reg.drop j := by
  have g0 := hR.epochWalk
  have g0t := hR.epochWalk t
  have g1 := hR.epochFree
  have g2 := hR.propMx
  have g2t := hR.propMx t
  have g3 := hR.syncG
  have g3t := hR.syncG t
  have g4 := hR.epochNear
  have g5 := hS.regMx
  have g5t := hS.regMx t
  unfold execCancel
  try unfold walkNext
  try unfold afterHint
  try unfold applyReset
  try simp only [C_propHolds, C_copyNeverClears, afterLists, ↓reduceIte, Bool.true_and]
  repeat' split
  all_goals (try rw [‹s.pc t = _›] at g0t)
  all_goals (try simp [Pc.inProp, Pc.inReg, St.eff] at g0t)
  all_goals (try rw [‹s.pc t = _›] at g2t)
  all_goals (try simp [Pc.inProp, Pc.inReg, St.eff] at g2t)
  all_goals (try rw [‹s.pc t = _›] at g3t)
  all_goals (try simp [Pc.inProp, Pc.inReg, St.eff] at g3t)
  all_goals (try rw [‹s.pc t = _›] at g5t)
  all_goals (try simp [Pc.inProp, Pc.inReg, St.eff] at g5t)
  all_goals (intro t' L h1 h2 h3 h4; by_cases ht : t' = t <;> first | (subst ht; try simp [C, St.eff, upd_apply, afterLists, Pc.inProp, Pc.inReg, St.eff] at h1 h2 h3 h4 ⊢) | (try simp [ht, C, St.eff, upd_apply, afterLists] at h1 h2 h3 h4 ⊢))
  all_goals grind [Pc.inProp, Pc.inReg, St.eff , Pc.walkFrom, mem_drop_succ, drop_nil_of_len, drop_nil_of_none, List.drop_zero, nextList_cases]

theorem epochWalk_exec_b (hS : Struct reg s) (hO : Orig s) (hH : Hint s) (hR : Reach reg s) :
    ∀ t' L, L ∈ reg → (execBind (C r) s t).act L = true → (execBind (C r) s t).propMx = some t' → (execBind (C r) s t).eff L ≠ (execBind (C r) s t).G → ∃ j, ((execBind (C r) s t).pc t').walkFrom = some j ∧ L ∈ reg.drop j := by
  have g0 := hR.epochWalk
  have g0t := hR.epochWalk t
  have g1 := hR.epochFree
  have g2 := hR.propMx
  have g2t := hR.propMx t
  have g3 := hR.syncG
  have g3t := hR.syncG t
  have g4 := hR.epochNear
  have g5 := hS.regMx
  have g5t := hS.regMx t
  unfold execBind
  try unfold walkNext
  try unfold afterHint
  try unfold applyReset
  try simp only [C_propHolds, C_copyNeverClears, afterLists, ↓reduceIte, Bool.true_and]
  repeat' split
  all_goals (try rw [‹s.pc t = _›] at g0t)
  all_goals (try simp [Pc.inProp, Pc.inReg, St.eff] at g0t)
  all_goals (try rw [‹s.pc t = _›] at g2t)
  all_goals (try simp [Pc.inProp, Pc.inReg, St.eff] at g2t)
  all_goals (try rw [‹s.pc t = _›] at g3t)
  all_goals (try simp [Pc.inProp, Pc.inReg, St.eff] at g3t)
  all_goals (try rw [‹s.pc t = _›] at g5t)
  all_goals (try simp [Pc.inProp, Pc.inReg, St.eff] at g5t)
  all_goals (intro t' L h1 h2 h3 h4; by_cases ht : t' = t <;> first | (subst ht; try simp [C, St.eff, upd_apply, afterLists, Pc.inProp, Pc.inReg, St.eff] at h1 h2 h3 h4 ⊢) | (try simp [ht, C, St.eff, upd_apply, afterLists] at h1 h2 h3 h4 ⊢))
  all_goals grind [Pc.inProp, Pc.inReg, St.eff , Pc.walkFrom, mem_drop_succ, drop_nil_of_len, drop_nil_of_none, List.drop_zero, nextList_cases]

theorem epochWalk_exec_o (hS : Struct reg s) (hO : Orig s) (hH : Hint s) (hR : Reach reg s) :
    ∀ t' L, L ∈ reg → (execOther s t).act L = true → (execOther s t).propMx = some t' → (execOther s t).eff L ≠ (execOther s t).G → ∃ j, ((execOther s t).pc t').walkFrom = some j ∧ L ∈ reg.drop j := by
  have g0 := hR.epochWalk
  have g0t := hR.epochWalk t
  have g1 := hR.epochFree
  have g2 := hR.propMx
  have g2t := hR.propMx t
  have g3 := hR.syncG
  have g3t := hR.syncG t
  have g4 := hR.epochNear
  have g5 := hS.regMx
  have g5t := hS.regMx t
  unfold execOther
  try unfold walkNext
  try unfold afterHint
  try unfold applyReset
  try simp only [C_propHolds, C_copyNeverClears, afterLists, ↓reduceIte, Bool.true_and]
  repeat' split
  all_goals (try rw [‹s.pc t = _›] at g0t)
  all_goals (try simp [Pc.inProp, Pc.inReg, St.eff] at g0t)
  all_goals (try rw [‹s.pc t = _›] at g2t)
  all_goals (try simp [Pc.inProp, Pc.inReg, St.eff] at g2t)
  all_goals (try rw [‹s.pc t = _›] at g3t)
  all_goals (try simp [Pc.inProp, Pc.inReg, St.eff] at g3t)
  all_goals (try rw [‹s.pc t = _›] at g5t)
  all_goals (try simp [Pc.inProp, Pc.inReg, St.eff] at g5t)
  all_goals (intro t' L h1 h2 h3 h4; by_cases ht : t' = t <;> first | (subst ht; try simp [C, St.eff, upd_apply, afterLists, Pc.inProp, Pc.inReg, St.eff] at h1 h2 h3 h4 ⊢) | (try simp [ht, C, St.eff, upd_apply, afterLists] at h1 h2 h3 h4 ⊢))
  all_goals grind [Pc.inProp, Pc.inReg, St.eff , Pc.walkFrom, mem_drop_succ, drop_nil_of_len, drop_nil_of_none, List.drop_zero, nextList_cases]

theorem epochWalk_exec (hS : Struct reg s) (hO : Orig s) (hH : Hint s) (hR : Reach reg s) :
    ∀ t' L, L ∈ reg → (exec (C r) reg s t).act L = true → (exec (C r) reg s t).propMx = some t' → (exec (C r) reg s t).eff L ≠ (exec (C r) reg s t).G → ∃ j, ((exec (C r) reg s t).pc t').walkFrom = some j ∧ L ∈ reg.drop j := by
  unfold exec
  split
  · exact epochWalk_exec_c hS hO hH hR
  · split
    · exact epochWalk_exec_b hS hO hH hR
    · exact epochWalk_exec_o hS hO hH hR

theorem epochWalk_begin (hS : Struct reg s) (hO : Orig s) (hH : Hint s) (hR : Reach reg s) (hi : s.pc t = .idle) :
    ∀ t' L, L ∈ reg → (begin (C r) reg s t).act L = true → (begin (C r) reg s t).propMx = some t' → (begin (C r) reg s t).eff L ≠ (begin (C r) reg s t).G → ∃ j, ((begin (C r) reg s t).pc t').walkFrom = some j ∧ L ∈ reg.drop j := by
  have g0 := hR.epochWalk
  have g0t := hR.epochWalk t
  have g1 := hR.epochFree
  have g2 := hR.propMx
  have g2t := hR.propMx t
  have g3 := hR.syncG
  have g3t := hR.syncG t
  have g4 := hR.epochNear
  have g5 := hS.regMx
  have g5t := hS.regMx t
  begin_cases
  all_goals (try rw [hi] at g0t)
  all_goals (try simp [Pc.inProp, Pc.inReg, St.eff] at g0t)
  all_goals (try rw [hi] at g2t)
  all_goals (try simp [Pc.inProp, Pc.inReg, St.eff] at g2t)
  all_goals (try rw [hi] at g3t)
  all_goals (try simp [Pc.inProp, Pc.inReg, St.eff] at g3t)
  all_goals (try rw [hi] at g5t)
  all_goals (try simp [Pc.inProp, Pc.inReg, St.eff] at g5t)
  all_goals (intro t' L h1 h2 h3 h4; by_cases ht : t' = t <;> first | (subst ht; try simp [C, St.eff, upd_apply, afterLists, Pc.inProp, Pc.inReg, St.eff] at h1 h2 h3 h4 ⊢) | (try simp [ht, C, St.eff, upd_apply, afterLists] at h1 h2 h3 h4 ⊢))
  all_goals grind [Pc.inProp, Pc.inReg, St.eff , Pc.walkFrom, mem_drop_succ, drop_nil_of_len, drop_nil_of_none, List.drop_zero, nextList_cases]

end TbbVerif.C04
