/-
C04 proofs — the quiescent-state consequences of the invariants in the form in which `Props/C04.lean` states them, and the
protocol parameters built from the generated facts.
-/
import TbbVerif.Proofs.C04.ResetLemmas

namespace TbbVerif.C04

/-- protocol parameters from the three generated facts (`codes`: the stores of `reset` to the modelled fields, in program
order: 0 = my_cancellation_requested, 1 = my_may_have_children) -/
def mkCfg (propHolds copyNeverClears : Bool) (codes : List Nat) : Cfg :=
  ⟨propHolds, copyNeverClears, codes.filterMap (fun c => if c = 0 then some RF.can else if c = 1 then some RF.mhc else none)⟩

theorem mkCfg_keeps_hint {a b : Bool} {codes : List Nat} (h : codes.contains 1 = false) :
    RF.mhc ∉ (mkCfg a b codes).resetSeq := by
  intro hm
  unfold mkCfg at hm
  simp only [List.mem_filterMap] at hm
  obtain ⟨c, hc, he⟩ := hm
  have h1 : c = 1 := by
    by_cases e0 : c = 0
    · simp [e0] at he
    · by_cases e1 : c = 1
      · exact e1
      · simp [e0, e1] at he
  subst h1
  rw [List.contains_eq_mem] at h
  simp [hc] at h

theorem mkCfg_eq (codes : List Nat) : mkCfg true true codes = C (mkCfg true true codes).resetSeq := rfl

variable {reg : List Nat} {s : St}

/-- at quiescence: a current winning cancel keeps its context cancelled, and everything bound beneath it that is fresh
with respect to its stamp and not orphaned is cancelled -/
theorem reach_fresh_core (hinv : AllInv reg s) (hq : ∀ t, s.pc t = .idle) :
    (∀ a m, s.wst a = m ∧ s.rst a < m → s.can a = true) ∧
    (∀ x a m, s.cst x = .bound → Anc s.par x a → s.wst a = m ∧ s.rst a < m →
      (s.rst x ≤ m ∧ ∀ z, Anc s.par x z → Anc s.par z a → s.rst z ≤ m) →
      (s.oc x = false ∧ ∀ z, Anc s.par x z → Anc s.par z a → s.oc z = false) → s.can x = true) := by
  refine ⟨fun a m hc => hinv.2.2.2.curCan a m hc, ?_⟩
  intro x a m hb ha hc hf ho
  refine reaches_of_inv hinv hq hb ha hc ?_
  rintro ((h | h) | ⟨z, h1, h2, h3 | h3⟩)
  · have := hf.1; omega
  · rw [ho.1] at h; cases h
  · have := hf.2 z h1 h2; omega
  · rw [ho.2 z h1 h2] at h3; cases h3

/-- without resets and exits, and with every winner stamped, the fresh form is the plain reach statement -/
theorem reach_core_noreset
    (hfresh : ∀ x a m, s.cst x = .bound → Anc s.par x a → s.wst a = m ∧ s.rst a < m →
      (s.rst x ≤ m ∧ ∀ z, Anc s.par x z → Anc s.par z a → s.rst z ≤ m) →
      (s.oc x = false ∧ ∀ z, Anc s.par x z → Anc s.par z a → s.oc z = false) → s.can x = true)
    (hO : Orig s) (hrst : ∀ x, s.rst x = 0) (hoc : ∀ z, s.oc z = false) (hws : WinStamped s) :
    ∀ x a, s.cst x = .bound → Anc s.par x a → s.can a = true → s.can x = true := by
  intro x a hb ha hc
  obtain ⟨b, hba, hw⟩ := hO.can a hc
  have hxb : Anc s.par x b := by
    rcases hba with e | h
    · exact e ▸ ha
    · exact ha.trans h
  have h1 := hws b hw
  have h2 := hrst b
  exact hfresh x b (s.wst b) hb hxb ⟨rfl, by omega⟩ ⟨by have := hrst x; omega, fun z _ _ => by have := hrst z; omega⟩
    ⟨hoc x, fun z _ _ => hoc z⟩

end TbbVerif.C04
