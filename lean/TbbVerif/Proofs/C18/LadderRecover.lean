/-
C18 ladder — when the oracle grants, the ladder never reaches its last rung: a usable answer is always registered by
`addNewRegion` (no grant is dropped), `askMemFromOS` then returns a block (or asks the caller to search again without having
consumed an answer), so `genericGetBlock` returns null only if the oracle refused.
-/
import TbbVerif.Proofs.C18.LadderOps
import TbbVerif.Proofs.C18.LadderUsers

namespace TbbVerif.C17.BE
open TbbVerif.Generated.C17Backend
open TbbVerif.C18.Ladder

theorem findBlock_slab (a g size : Nat) (ha : a % 8 = 0) (hg : 65536 ≤ g) :
    ∃ fb bs, findBlockInRegion a g beRegSlab size = some (fb, bs) := by
  unfold findBlockInRegion
  simp only [beRegSlab, beSizeofLastFreeBlock, beSizeofMemRegion, beSlabSize, beNumOfSlabAllocOnMiss, alignUpN, alignDownN, if_true]
  rw [if_neg (by omega), if_neg (by omega), if_neg (by omega), if_neg (by omega)]
  exact ⟨_, _, rfl⟩

theorem findBlock_large (a g size type : Nat) (ht : type ≠ beRegSlab) (hs : 32768 ≤ size) (hg : size + 224 ≤ g) :
    ∃ fb, findBlockInRegion a g type size = some (fb, size) := by
  unfold findBlockInRegion
  simp only [beSizeofLastFreeBlock, beSizeofMemRegion, beSlabSize, beNumOfSlabAllocOnMiss, beLargeObjectAlignment, alignUpN, alignDownN, if_neg ht]
  rw [if_neg (by omega), if_neg (by omega), if_neg (by omega), if_neg (by omega)]
  exact ⟨_, by rw [Nat.add_sub_cancel_left]⟩

/-- **a usable answer is registered**: the region is the new head of `regionList`, tiled by its two fresh blocks; exactly
one answer is consumed; the delayed-coalescing queue is not touched -/
theorem addNewRegion_succeeds (s : St) (size type a g : Nat) (atb : Bool)
    (hfix : s.g.cfg.fixedPool = false) (ha : a % 8 = 0) (ha0 : a ≠ 0) (hov : regionsOverlap s.regions a g = false)
    (hreq : rawRequest s.g size type ≤ g) (hg : 65536 ≤ g) (fb bs : Nat) (hf : findBlockInRegion a g type size = some (fb, bs)) :
    (addNewRegion s size type atb (some (a, g))).2.1 = (if atb then .inBin else .block) ∧ (addNewRegion s size type atb (some (a, g))).2.2 = 1 ∧
    (addNewRegion s size type atb (some (a, g))).1.regions =
      { base := a, allocSz := g, blockSz := bs, type := type, first := fb, blocks := freshBlocks bs type atb } :: s.regions ∧
    (addNewRegion s size type atb (some (a, g))).1.g.queue = s.g.queue := by
  unfold addNewRegion
  have c1 : (s.g.cfg.fixedPool && s.g.boot == 2) = false := by rw [hfix]; rfl
  rw [c1]
  simp only [Bool.false_eq_true, if_false]
  have c2 : ¬(a % 8 ≠ 0 ∨ a = 0 ∨ regionsOverlap s.regions a g = true ∨ g < beSizeofMemRegion ∨ (!s.g.cfg.fixedPool && decide (g < rawRequest s.g size type)) = true) := by
    intro h
    rcases h with h | h | h | h | h
    · exact h ha
    · exact ha0 h
    · rw [hov] at h; cases h
    · simp only [beSizeofMemRegion] at h; omega
    · rw [hfix] at h
      simp only [Bool.not_false, Bool.true_and, decide_eq_true_eq] at h
      omega
  rw [if_neg c2, hf]
  cases atb <;> simp [Glob.binAdd]

theorem rawRequest_le (g : Glob) (size type : Nat) : rawRequest g size type ≤ size + 224 + g.cfg.granularity := by
  unfold rawRequest alignUpGeneric regionRequestSize
  simp only [beSizeofMemRegion, beLargeObjectAlignment, beMinBlockSize, beSizeofLastFreeBlock]
  split <;> split <;> omega

theorem no_overlap_of_disj (rs : List Region) (occ : List (Nat × Nat)) (a g : Nat) (hsub : regSpans rs ⊆ occ)
    (hd : ∀ o ∈ occ, spanDisj (a, g) o) : regionsOverlap rs a g = false := by
  unfold regionsOverlap
  rw [List.any_eq_false]
  intro r hr
  have hm : (r.base, r.allocSz) ∈ regSpans rs := List.mem_map.mpr ⟨r, hr, rfl⟩
  have := hd _ (hsub hm)
  unfold spanDisj at this
  simp only at this
  simp only [Bool.and_eq_true, decide_eq_true_eq, not_and, Nat.not_lt]
  omega

/-- what the loop of `genericGetBlock` needs to know about the oracle and the request -/
structure Gen (s : St) (bs : Nat) (raws : List Ans) : Prop where
  wf : WF s
  nofix : s.g.cfg.fixedPool = false
  lo : 8192 ≤ bs
  hi : bs < 2 ^ 40
  maxLo : bs < beMaxBinnedSmallPage → bs ≤ s.g.maxReq
  maxHi : s.g.maxReq < beMaxBinnedSmallPage
  gen : ∃ occ, regSpans s.regions ⊆ occ ∧ generous (maxRawRequest s.g.cfg.granularity) occ raws
  nonempty : raws ≠ []

theorem Gen.step {s s' : St} {bs : Nat} {raws : List Ans} (h : Gen s bs raws) (hw : WF s') (hs : SameStatic s.g s'.g)
    (hsp : regSpans s'.regions ⊆ regSpans s.regions) : Gen s' bs raws := by
  obtain ⟨occ, o1, o2⟩ := h.gen
  refine ⟨hw, by rw [hs.cfg]; exact h.nofix, h.lo, h.hi, by rw [hs.maxReq]; exact h.maxLo, by rw [hs.maxReq]; exact h.maxHi,
    ⟨occ, fun x hx => o1 (hsp hx), by rw [hs.cfg]; exact o2⟩, h.nonempty⟩

/-- the head of a generous, non-empty answer list -/
theorem Gen.head {s : St} {bs : Nat} {raws : List Ans} (h : Gen s bs raws) :
    ∃ a g rest, raws = some (a, g) :: rest ∧ a % 8 = 0 ∧ a ≠ 0 ∧ maxRawRequest s.g.cfg.granularity ≤ g ∧ regionsOverlap s.regions a g = false := by
  obtain ⟨occ, o1, o2⟩ := h.gen
  cases hr : raws with
  | nil => exact absurd hr h.nonempty
  | cons x rest =>
    rw [hr] at o2
    cases x with
    | none => exact absurd o2 (by unfold generous; exact fun h => h)
    | some ag =>
      obtain ⟨a, g⟩ := ag
      unfold generous at o2
      obtain ⟨g1, g2, g3, g4, _⟩ := o2
      exact ⟨a, g, rest, rfl, g1, g2, g3, no_overlap_of_disj _ occ a g o1 g4⟩

/-- `askMemFromOS` with a granting oracle: a block, or "search again" without having consumed an answer -/
theorem askMemFromOS_generous (s : St) (bs sm th nl : Nat) (ns : Bool) (raws : List Ans) (h : Gen s bs raws) :
    (∃ addr, (askMemFromOS s bs sm th nl ns raws).block = some addr) ∨
    ((askMemFromOS s bs sm th nl ns raws).block = none ∧ (askMemFromOS s bs sm th nl ns raws).valid = true ∧
      (askMemFromOS s bs sm th nl ns raws).used = 0 ∧ Gen (askMemFromOS s bs sm th nl ns raws).s bs raws) := by
  unfold askMemFromOS
  try simp only []
  split
  · -- exact fit: one region for the block
    rename_i hbig
    obtain ⟨a, g, rest, hr, g1, g2, g3, g4⟩ := h.head
    have hraw : raws.head?.join = some (a, g) := by rw [hr]; rfl
    rw [hraw]
    have hg3 : 2 ^ 41 + s.g.cfg.granularity ≤ g := g3
    have hreq := rawRequest_le s.g bs beRegOne
    have hlo := h.lo
    have hhi := h.hi
    simp only [beMaxBinnedSmallPage] at hbig
    obtain ⟨fb, hf⟩ := findBlock_large a g bs beRegOne (by decide) (by omega) (by omega)
    obtain ⟨r1, r2, r3, _⟩ := addNewRegion_succeeds s bs beRegOne a g false h.nofix g1 g2 g4 (by omega) (by omega) fb bs hf
    generalize addNewRegion s bs beRegOne false (some (a, g)) = p at r1 r2 r3
    obtain ⟨s1, r, u⟩ := p
    simp only [Bool.false_eq_true, if_false] at r1 r2 r3 ⊢
    subst r1
    rw [r3]
    exact Or.inl ⟨_, rfl⟩
  · rename_i hsmall
    have hw0 := waitTillBlockReleased_wf s sm h.wf
    have hf0 := waitTillBlockReleased_frame s sm
    generalize waitTillBlockReleased s sm = p0 at hw0 hf0
    obtain ⟨s0, w⟩ := p0
    simp only [] at hw0 hf0 ⊢
    have hG0 : Gen s0 bs raws := h.step hw0 hf0.1 hf0.2
    split
    · exact Or.inr ⟨rfl, rfl, rfl, hG0⟩
    · split
      · exact Or.inr ⟨rfl, rfl, rfl, hG0⟩
      · obtain ⟨a, g, rest, hr, g1, g2, g3, g4⟩ := hG0.head
        have hraw : raws.head?.join = some (a, g) := by rw [hr]; rfl
        rw [hraw]
        have hg3 : 2 ^ 41 + s0.g.cfg.granularity ≤ g := g3
        have hmax := h.maxHi
        have hml := h.maxLo (Nat.lt_of_not_le hsmall)
        have hlo := h.lo
        simp only [beMaxBinnedSmallPage] at hmax hsmall
        have hsz : 32768 ≤ alignUpN (4 * s.g.maxReq) (1024 * 1024) ∧ alignUpN (4 * s.g.maxReq) (1024 * 1024) ≤ 4 * s.g.maxReq + 1048576 := by
          unfold alignUpN; omega
        generalize alignUpN (4 * s.g.maxReq) (1024 * 1024) = regSz at hsz ⊢
        generalize hty : (if bs < beMaxBinnedSmallPage / 8 then (if ns = true then beRegSlab else beRegLarge) else beRegLarge) = regType
        have hreq := rawRequest_le s0.g regSz regType
        obtain ⟨fb, bsz, hf⟩ : ∃ fb bsz, findBlockInRegion a g regType regSz = some (fb, bsz) := by
          by_cases ht : regType = beRegSlab
          · rw [ht]; exact findBlock_slab a g regSz g1 (by omega)
          · obtain ⟨fb, hf⟩ := findBlock_large a g regSz regType ht hsz.1 (by omega)
            exact ⟨fb, regSz, hf⟩
        obtain ⟨r1, r2, r3, _⟩ := addNewRegion_succeeds s0 regSz regType a g false hG0.nofix g1 g2 g4 (by omega) (by omega) fb bsz hf
        generalize addNewRegion s0 regSz regType false (some (a, g)) = p at r1 r2 r3
        obtain ⟨s1, r, u⟩ := p
        simp only [Bool.false_eq_true, if_false] at r1 r2 r3 ⊢
        subst r1
        rw [r3]
        exact Or.inl ⟨_, rfl⟩

/-- **with a granting oracle the loop never gives up** (it returns a block, or reports that it would have to wait for
another thread, or the model's ghost-precondition flag is raised) -/
theorem getLoop_generous (num size : Nat) (na : Bool) : ∀ (fuel : Nat) (s : St) (th : Nat) (raws : List Ans) (used : Nat),
    Gen s (num * size) raws →
    (getLoop num size na fuel s th raws used).2.1 ≠ .null ∨ (getLoop num size na fuel s th raws used).1.g.skip = true := by
  intro fuel
  induction fuel with
  | zero => intro s th raws used _; exact Or.inl (by unfold getLoop; simp)
  | succ fuel ih =>
    intro s th raws used h
    unfold getLoop
    try simp only []
    cases hsb : searchBins s (sizeToBin (num * size)).toNat (num * size) na with
    | mk found nl =>
      cases found with
      | some e =>
        try simp only []
        have hwt := takeFromBin_wf s e h.wf
        rw [if_neg (by rw [hwt.not_bad]; simp)]
        rcases finishGet_fail (takeFromBin s e) e.addr num size na true used with ⟨a, ha⟩ | ⟨_, hs⟩
        · exact Or.inl (by rw [ha]; simp)
        · exact Or.inr (by rw [hs]; rfl)
      | none =>
        try simp only []
        split
        · exact Or.inl (by simp)
        · have h1 := scanCoalescQ_wf s true h.wf
          have f1 := scanCoalescQ_frame s true
          generalize scanCoalescQ s true = p at h1 f1
          obtain ⟨s1, r1⟩ := p
          simp only [] at h1 f1 ⊢
          have hG1 : Gen s1 (num * size) raws := h.step h1 f1.1 f1.2
          split
          · exact ih s1 th raws used hG1
          · rcases askMemFromOS_generous s1 (num * size) s.g.mods th nl na raws hG1 with ⟨addr, hb⟩ | ⟨hb, hv, hu, hG2⟩
            · generalize askMemFromOS s1 (num * size) s.g.mods th nl na raws = a at hb
              rw [hb]
              try simp only []
              rcases finishGet_fail a.s addr num size na a.splittable (used + a.used) with ⟨x, hx⟩ | ⟨_, hs⟩
              · exact Or.inl (by rw [hx]; simp)
              · exact Or.inr (by rw [hs]; rfl)
            · generalize askMemFromOS s1 (num * size) s.g.mods th nl na raws = a at hb hv hu hG2
              rw [hb]
              try simp only []
              rw [if_pos hv, hu]
              exact ih a.s a.threshold (raws.drop 0) (used + 0) (by rw [List.drop_zero]; exact hG2)

end TbbVerif.C17.BE
