/-
C18 ladder — frame facts of the back-end model (C17's `Model/C17Backend.lean`) that the C18 theorems need:

* `SameStatic`: no rung of the ladder other than the explicit statements of `genericGetBlock` / `requestBootstrapMem` writes
  the pool configuration, `maxRequestedSize`, `bootsrapMemStatus`, the environment's bin locks or `delayRegsReleasing`;
* `regSpans`: no operation invents a region — the registered regSpans after an operation are registered regSpans from before or
  memory the oracle granted during the operation (regions only LEAVE the list by being released).
-/
import TbbVerif.Model.C18Ladder
import TbbVerif.Proofs.C17.BeLists

namespace TbbVerif.C17.BE
open TbbVerif.Generated.C17Backend
open TbbVerif.C18.Ladder

structure SameStatic (g g' : Glob) : Prop where
  cfg : g'.cfg = g.cfg
  maxReq : g'.maxReq = g.maxReq
  boot : g'.boot = g.boot
  binLocked : g'.binLocked = g.binLocked
  delay : g'.delay = g.delay

theorem SameStatic.rfl' (g : Glob) : SameStatic g g := ⟨rfl, rfl, rfl, rfl, rfl⟩

theorem SameStatic.trans {a b c : Glob} (h1 : SameStatic a b) (h2 : SameStatic b c) : SameStatic a c :=
  ⟨h2.cfg.trans h1.cfg, h2.maxReq.trans h1.maxReq, h2.boot.trans h1.boot, h2.binLocked.trans h1.binLocked, h2.delay.trans h1.delay⟩

theorem ss_of_eq {g g' : Glob} (h1 : g'.cfg = g.cfg) (h2 : g'.maxReq = g.maxReq) (h3 : g'.boot = g.boot) (h4 : g'.binLocked = g.binLocked)
    (h5 : g'.delay = g.delay) : SameStatic g g' := ⟨h1, h2, h3, h4, h5⟩

theorem setBad_ss (g : Glob) : SameStatic g g.setBad := ⟨rfl, rfl, rfl, rfl, rfl⟩

theorem binRemove_ss (g : Glob) (e : Entry) : SameStatic g (g.binRemove e) := by
  unfold Glob.binRemove
  split
  · exact ⟨rfl, rfl, rfl, rfl, rfl⟩
  · exact setBad_ss g

theorem removeBlockFromBin_ss (g : Glob) (addr : Nat) (b : Blk) : SameStatic g (g.removeBlockFromBin addr b) := by
  unfold Glob.removeBlockFromBin
  split
  · exact SameStatic.rfl' g
  · exact binRemove_ss g _

theorem binAdd_ss (g : Glob) (addr : Nat) (al : Bool) (bin : Nat) (t : Bool) : SameStatic g (g.binAdd addr al bin t) :=
  ⟨rfl, rfl, rfl, rfl, rfl⟩

theorem queuePut_ss (g : Glob) (z : Zip) : SameStatic g (queuePut g z).1 := by
  unfold queuePut
  split
  · exact setBad_ss g
  · split
    · exact setBad_ss g
    · exact ⟨rfl, rfl, rfl, rfl, rfl⟩

theorem coLeft_ss (g : Glob) (z : Zip) (leftSz : Nat) : SameStatic g (coLeft g z leftSz).1 := by
  unfold coLeft
  split
  · exact SameStatic.rfl' g
  · split
    · exact queuePut_ss g z
    · split
      · exact setBad_ss g
      · split
        · exact setBad_ss g
        · try simp only []
          split
          · exact queuePut_ss g _
          · split
            · exact setBad_ss g
            · exact SameStatic.rfl' g

theorem coGiveUp_ss (g : Glob) (z : Zip) : SameStatic g (coGiveUp g z).1 := by
  unfold coGiveUp
  try simp only []
  refine SameStatic.trans ?_ (queuePut_ss _ _)
  split
  · exact removeBlockFromBin_ss g _ _
  · exact SameStatic.rfl' g

theorem coRight_ss (g : Glob) (z : Zip) : SameStatic g (coRight g z).1 := by
  unfold coRight
  split
  · exact setBad_ss g
  · try simp only []
    split
    · exact SameStatic.rfl' g
    · split
      · exact SameStatic.rfl' g
      · split
        · exact coGiveUp_ss g z
        · split
          · exact setBad_ss g
          · split
            · exact setBad_ss g
            · try simp only []
              split
              · exact coGiveUp_ss g z
              · refine SameStatic.trans ?_ (removeBlockFromBin_ss _ _ _)
                split
                · exact setBad_ss g
                · exact SameStatic.rfl' g

theorem doCoalesc_ss (g : Glob) (z : Zip) : SameStatic g (doCoalesc g z).1 := by
  unfold doCoalesc
  cases hp : z.post with
  | nil => exact setBad_ss g
  | cons r post1 =>
    try simp only []
    split
    · exact setBad_ss g
    · have h1 := coLeft_ss g
        { z with cur := { z.cur with myL := gsCoalBlock, inBin := false, leftL := if z.cur.leftL > gsMaxLockedVal then gsCoalBlock else z.cur.leftL },
                 post := { r with leftL := gsCoalBlock } :: post1 } z.cur.leftL
      generalize coLeft g _ z.cur.leftL = p at h1 ⊢
      obtain ⟨g1, z1, go⟩ := p
      simp only [] at h1 ⊢
      split
      · exact h1.trans (coRight_ss g1 z1)
      · exact h1

theorem putCoalesced_ss (g : Glob) (bs : Nat) (z : Zip) (lr force : Bool) : SameStatic g (putCoalesced g bs z lr force).1 := by
  unfold putCoalesced
  try simp only []
  repeat' split
  all_goals first
    | exact SameStatic.rfl' _
    | exact removeBlockFromBin_ss _ _ _
    | exact binAdd_ss _ _ _ _ _
    | exact queuePut_ss _ _
    | exact (removeBlockFromBin_ss _ _ _).trans (binAdd_ss _ _ _ _ _)
    | exact (removeBlockFromBin_ss _ _ _).trans (queuePut_ss _ _)

/-! ### regSpans of the region list -/

theorem spans_close (s : St) (a : Nat) (c : Cursor) (hc : locate s a = some c) (z : Zip) : regSpans (c.close z) = regSpans s.regions := by
  obtain ⟨l1, _, _, _⟩ := locate_spec s a c hc
  rw [l1]
  unfold Cursor.close regSpans
  simp only [List.map_append, List.map_cons]

theorem spans_drop (s : St) (a : Nat) (c : Cursor) (hc : locate s a = some c) : regSpans c.drop ⊆ regSpans s.regions := by
  obtain ⟨l1, _, _, _⟩ := locate_spec s a c hc
  rw [l1]
  unfold Cursor.drop regSpans
  simp only [List.map_append, List.map_cons]
  intro x hx
  rcases List.mem_append.mp hx with h | h
  · exact List.mem_append_left _ h
  · exact List.mem_append_right _ (List.mem_cons_of_mem _ h)

/-- one iteration of `coalescAndPutList`: static words kept, no region invented -/
theorem coalescAndPut1_frame (s : St) (addr : Nat) (force report : Bool) :
    SameStatic s.g (coalescAndPut1 s addr force report).1.g ∧ regSpans (coalescAndPut1 s addr force report).1.regions ⊆ regSpans s.regions := by
  unfold coalescAndPut1
  cases hc : locate s addr with
  | none => exact ⟨setBad_ss' s, fun x hx => hx⟩
  | some c =>
    try simp only []
    split
    · exact ⟨setBad_ss' s, fun x hx => hx⟩
    · have h1 := doCoalesc_ss s.g c.z
      generalize doCoalesc s.g c.z = d at h1 ⊢
      obtain ⟨g, z, out⟩ := d
      simp only [] at h1 ⊢
      cases out with
      | queued =>
        try simp only []
        refine ⟨?_, by rw [spans_close s addr c hc]; exact fun x hx => hx⟩
        split
        · exact h1.trans ⟨rfl, rfl, rfl, rfl, rfl⟩
        · exact h1
      | merged lastRight =>
        try simp only []
        split
        · exact ⟨h1, by rw [spans_close s addr c hc]; exact fun x hx => hx⟩
        · have h2 := putCoalesced_ss g c.reg.blockSz z lastRight force
          generalize putCoalesced g c.reg.blockSz z lastRight force = q at h2 ⊢
          obtain ⟨g2, oz⟩ := q
          simp only [] at h2 ⊢
          cases oz with
          | some z2 =>
            try simp only []
            refine ⟨?_, by rw [spans_close s addr c hc]; exact fun x hx => hx⟩
            split
            · exact (h1.trans h2).trans ⟨rfl, rfl, rfl, rfl, rfl⟩
            · exact h1.trans h2
          | none =>
            try simp only []
            refine ⟨?_, spans_drop s addr c hc⟩
            split
            · exact (h1.trans h2).trans ⟨rfl, rfl, rfl, rfl, rfl⟩
            · exact (h1.trans h2).trans ⟨rfl, rfl, rfl, rfl, rfl⟩
where
  setBad_ss' (s : St) : SameStatic s.g s.setSkip.g := ⟨rfl, rfl, rfl, rfl, rfl⟩

theorem coalescAndPutList_frame_aux (addrs : List Nat) (force report : Bool) : ∀ (s : St) (b : Bool),
    SameStatic s.g (addrs.foldl (fun (acc : St × Bool) a =>
      let (s', rel) := coalescAndPut1 acc.1 a force report
      (s', acc.2 || rel)) (s, b)).1.g ∧
    regSpans (addrs.foldl (fun (acc : St × Bool) a =>
      let (s', rel) := coalescAndPut1 acc.1 a force report
      (s', acc.2 || rel)) (s, b)).1.regions ⊆ regSpans s.regions := by
  induction addrs with
  | nil => intro s b; exact ⟨SameStatic.rfl' _, fun x hx => hx⟩
  | cons a rest ih =>
    intro s b
    simp only [List.foldl_cons]
    obtain ⟨f1, f2⟩ := coalescAndPut1_frame s a force report
    obtain ⟨i1, i2⟩ := ih (coalescAndPut1 s a force report).1 (b || (coalescAndPut1 s a force report).2)
    exact ⟨f1.trans i1, fun x hx => f2 (i2 hx)⟩

theorem coalescAndPutList_frame (s : St) (addrs : List Nat) (force report : Bool) :
    SameStatic s.g (coalescAndPutList s addrs force report).1.g ∧ regSpans (coalescAndPutList s addrs force report).1.regions ⊆ regSpans s.regions := by
  unfold coalescAndPutList
  exact coalescAndPutList_frame_aux addrs force report s false

theorem coalescAndPut_frame (s : St) (addr blockSz : Nat) (al : Bool) :
    SameStatic s.g (coalescAndPut s addr blockSz al).g ∧ regSpans (coalescAndPut s addr blockSz al).regions ⊆ regSpans s.regions := by
  unfold coalescAndPut
  cases hc : locate s addr with
  | none => exact ⟨⟨rfl, rfl, rfl, rfl, rfl⟩, fun x hx => hx⟩
  | some c =>
    try simp only []
    split
    · exact ⟨⟨rfl, rfl, rfl, rfl, rfl⟩, fun x hx => hx⟩
    · obtain ⟨f1, f2⟩ := coalescAndPutList_frame ⟨s.g, c.close { c.z with cur := { c.z.cur with sizeTmp := blockSz, aligned := al } }⟩ [addr] false false
      refine ⟨f1, fun x hx => ?_⟩
      have := f2 hx
      rw [show regSpans (St.mk s.g (c.close { c.z with cur := { c.z.cur with sizeTmp := blockSz, aligned := al } })).regions =
        regSpans s.regions from spans_close s addr c hc _] at this
      exact this

theorem spans_unqueue (rs : List Region) : regSpans (unqueue rs) = regSpans rs := by
  unfold unqueue regSpans
  simp only [List.map_map]
  rfl

theorem scanCoalescQ_frame (s : St) (force : Bool) :
    SameStatic s.g (scanCoalescQ s force).1.g ∧ regSpans (scanCoalescQ s force).1.regions ⊆ regSpans s.regions := by
  unfold scanCoalescQ
  try simp only []
  split
  · exact ⟨SameStatic.rfl' _, fun x hx => hx⟩
  · obtain ⟨f1, f2⟩ := coalescAndPutList_frame ⟨{ s.g with queue := [] }, unqueue s.regions⟩ s.g.queue force true
    refine ⟨⟨f1.cfg, f1.maxReq, f1.boot, f1.binLocked, f1.delay⟩, fun x hx => ?_⟩
    have := f2 hx
    rw [show regSpans (St.mk { s.g with queue := [] } (unqueue s.regions)).regions = regSpans s.regions from spans_unqueue s.regions] at this
    exact this

theorem takeFromBin_frame (s : St) (e : Entry) :
    SameStatic s.g (takeFromBin s e).g ∧ regSpans (takeFromBin s e).regions = regSpans s.regions := by
  unfold takeFromBin
  split
  · exact ⟨⟨rfl, rfl, rfl, rfl, rfl⟩, rfl⟩
  · cases hc : locate s e.addr with
    | none => exact ⟨⟨rfl, rfl, rfl, rfl, rfl⟩, rfl⟩
    | some c =>
      try simp only []
      split
      · exact ⟨⟨rfl, rfl, rfl, rfl, rfl⟩, rfl⟩
      · try simp only []
        split
        · exact ⟨⟨rfl, rfl, rfl, rfl, rfl⟩, rfl⟩
        · exact ⟨binRemove_ss s.g e, spans_close s e.addr c hc _⟩

theorem splitHeld_frame (s : St) (addr k : Nat) :
    (splitHeld s addr k).g.cfg = s.g.cfg ∧ SameStatic s.g (splitHeld s addr k).g ∧ regSpans (splitHeld s addr k).regions = regSpans s.regions := by
  unfold splitHeld
  cases hc : locate s addr with
  | none => exact ⟨rfl, ⟨rfl, rfl, rfl, rfl, rfl⟩, rfl⟩
  | some c =>
    try simp only []
    split
    · exact ⟨rfl, ⟨rfl, rfl, rfl, rfl, rfl⟩, rfl⟩
    · exact ⟨rfl, SameStatic.rfl' _, spans_close s addr c hc _⟩

theorem markBlocks_frame (size : Nat) : ∀ (j : Nat) (s : St) (addr : Nat),
    SameStatic s.g (markBlocks s addr size j).g ∧ regSpans (markBlocks s addr size j).regions = regSpans s.regions := by
  intro j
  induction j with
  | zero => intro s addr; exact ⟨SameStatic.rfl' _, rfl⟩
  | succ j ih =>
    intro s addr
    unfold markBlocks
    obtain ⟨_, f1, f2⟩ := splitHeld_frame s addr size
    obtain ⟨i1, i2⟩ := ih (splitHeld s addr size) (addr + size)
    exact ⟨f1.trans i1, i2.trans f2⟩

/-- `coalescAndPut` after `splitHeld` -/
theorem cap_split_frame (s : St) (a k a2 k2 : Nat) (al : Bool) :
    SameStatic s.g (coalescAndPut (splitHeld s a k) a2 k2 al).g ∧ regSpans (coalescAndPut (splitHeld s a k) a2 k2 al).regions ⊆ regSpans s.regions := by
  obtain ⟨_, f1, f2⟩ := splitHeld_frame s a k
  obtain ⟨g1, g2⟩ := coalescAndPut_frame (splitHeld s a k) a2 k2 al
  exact ⟨f1.trans g1, fun x hx => by have := g2 hx; rw [f2] at this; exact this⟩

theorem splitBlock_frame (s : St) (fAddr fSize num size : Nat) (bia na : Bool) :
    SameStatic s.g (splitBlock s fAddr fSize num size bia na).1.g ∧ regSpans (splitBlock s fAddr fSize num size bia na).1.regions ⊆ regSpans s.regions := by
  unfold splitBlock
  try simp only []
  split
  · -- the middle of the block is used
    have hA : SameStatic s.g (if alignUpN fAddr beSlabSize + num * size ≠ fAddr + fSize then
          coalescAndPut (splitHeld s fAddr (alignUpN fAddr beSlabSize + num * size - fAddr)) (alignUpN fAddr beSlabSize + num * size)
            (fAddr + fSize - (alignUpN fAddr beSlabSize + num * size))
            (toAlignedBin (alignUpN fAddr beSlabSize + num * size) (fAddr + fSize - (alignUpN fAddr beSlabSize + num * size)))
        else s).g ∧
        regSpans (if alignUpN fAddr beSlabSize + num * size ≠ fAddr + fSize then
          coalescAndPut (splitHeld s fAddr (alignUpN fAddr beSlabSize + num * size - fAddr)) (alignUpN fAddr beSlabSize + num * size)
            (fAddr + fSize - (alignUpN fAddr beSlabSize + num * size))
            (toAlignedBin (alignUpN fAddr beSlabSize + num * size) (fAddr + fSize - (alignUpN fAddr beSlabSize + num * size)))
        else s).regions ⊆ regSpans s.regions := by
      split
      · exact cap_split_frame _ _ _ _ _ _
      · exact ⟨SameStatic.rfl' _, fun x hx => hx⟩
    generalize (if alignUpN fAddr beSlabSize + num * size ≠ fAddr + fSize then
          coalescAndPut (splitHeld s fAddr (alignUpN fAddr beSlabSize + num * size - fAddr)) (alignUpN fAddr beSlabSize + num * size)
            (fAddr + fSize - (alignUpN fAddr beSlabSize + num * size))
            (toAlignedBin (alignUpN fAddr beSlabSize + num * size) (fAddr + fSize - (alignUpN fAddr beSlabSize + num * size)))
        else s) = sA at hA ⊢
    have hB : SameStatic sA.g (if alignUpN fAddr beSlabSize ≠ fAddr then
          coalescAndPut (splitHeld sA fAddr (alignUpN fAddr beSlabSize - fAddr)) fAddr (alignUpN fAddr beSlabSize - fAddr)
            (toAlignedBin fAddr (alignUpN fAddr beSlabSize - fAddr))
        else sA).g ∧
        regSpans (if alignUpN fAddr beSlabSize ≠ fAddr then
          coalescAndPut (splitHeld sA fAddr (alignUpN fAddr beSlabSize - fAddr)) fAddr (alignUpN fAddr beSlabSize - fAddr)
            (toAlignedBin fAddr (alignUpN fAddr beSlabSize - fAddr))
        else sA).regions ⊆ regSpans sA.regions := by
      split
      · exact cap_split_frame _ _ _ _ _ _
      · exact ⟨SameStatic.rfl' _, fun x hx => hx⟩
    generalize (if alignUpN fAddr beSlabSize ≠ fAddr then
          coalescAndPut (splitHeld sA fAddr (alignUpN fAddr beSlabSize - fAddr)) fAddr (alignUpN fAddr beSlabSize - fAddr)
            (toAlignedBin fAddr (alignUpN fAddr beSlabSize - fAddr))
        else sA) = sB at hB ⊢
    obtain ⟨m1, m2⟩ := markBlocks_frame size (num - 1) sB (alignUpN fAddr beSlabSize)
    exact ⟨(hA.1.trans hB.1).trans m1, fun x hx => hA.2 (hB.2 (by rw [m2] at hx; exact hx))⟩
  · split
    · split
      · obtain ⟨c1, c2⟩ := cap_split_frame s fAddr (fSize - num * size) fAddr (fSize - num * size)
          (if (bia != na) = true then toAlignedBin fAddr (fSize - num * size) else bia)
        obtain ⟨m1, m2⟩ := markBlocks_frame size (num - 1)
          (coalescAndPut (splitHeld s fAddr (fSize - num * size)) fAddr (fSize - num * size)
            (if (bia != na) = true then toAlignedBin fAddr (fSize - num * size) else bia)) (fAddr + (fSize - num * size))
        exact ⟨c1.trans m1, fun x hx => c2 (by rw [m2] at hx; exact hx)⟩
      · obtain ⟨c1, c2⟩ := cap_split_frame s fAddr (num * size) (fAddr + num * size) (fSize - num * size)
          (if (bia != na) = true then toAlignedBin (fAddr + num * size) (fSize - num * size) else bia)
        obtain ⟨m1, m2⟩ := markBlocks_frame size (num - 1)
          (coalescAndPut (splitHeld s fAddr (num * size)) (fAddr + num * size) (fSize - num * size)
            (if (bia != na) = true then toAlignedBin (fAddr + num * size) (fSize - num * size) else bia)) fAddr
        exact ⟨c1.trans m1, fun x hx => c2 (by rw [m2] at hx; exact hx)⟩
    · obtain ⟨m1, m2⟩ := markBlocks_frame size (num - 1) s fAddr
      exact ⟨m1, fun x hx => by rw [m2] at hx; exact hx⟩

theorem giveUser_frame (size : Nat) (al : Bool) : ∀ (j : Nat) (s : St) (addr : Nat),
    SameStatic s.g (giveUser s addr size al j).g ∧ regSpans (giveUser s addr size al j).regions = regSpans s.regions := by
  intro j
  induction j with
  | zero => intro s addr; exact ⟨SameStatic.rfl' _, rfl⟩
  | succ j ih =>
    intro s addr
    unfold giveUser
    cases hc : locate s addr with
    | none => exact ⟨⟨rfl, rfl, rfl, rfl, rfl⟩, rfl⟩
    | some c =>
      try simp only []
      split
      · exact ⟨⟨rfl, rfl, rfl, rfl, rfl⟩, rfl⟩
      · obtain ⟨i1, i2⟩ := ih ⟨s.g, c.close { c.z with cur := { c.z.cur with own := Own.user al } }⟩ (addr + size)
        exact ⟨i1, i2.trans (spans_close s addr c hc _)⟩

theorem finishGet_frame (s : St) (addr num size : Nat) (na sp : Bool) (used : Nat) :
    SameStatic s.g (finishGet s addr num size na sp used).1.g ∧ regSpans (finishGet s addr num size na sp used).1.regions ⊆ regSpans s.regions := by
  unfold finishGet
  cases hc : locate s addr with
  | none => exact ⟨⟨rfl, rfl, rfl, rfl, rfl⟩, fun x hx => hx⟩
  | some c =>
    try simp only []
    split
    · exact ⟨⟨rfl, rfl, rfl, rfl, rfl⟩, fun x hx => hx⟩
    · cases sp with
      | true =>
        simp only [if_true]
        obtain ⟨b1, b2⟩ := splitBlock_frame s addr c.z.cur.sizeTmp num size c.z.cur.aligned na
        obtain ⟨u1, u2⟩ := giveUser_frame size na num (splitBlock s addr c.z.cur.sizeTmp num size c.z.cur.aligned na).1
          (splitBlock s addr c.z.cur.sizeTmp num size c.z.cur.aligned na).2
        exact ⟨(b1.trans u1).trans ⟨rfl, rfl, rfl, rfl, rfl⟩, fun x hx => b2 (by rw [u2] at hx; exact hx)⟩
      | false =>
        simp only [Bool.false_eq_true, if_false]
        obtain ⟨u1, u2⟩ := giveUser_frame c.z.cur.size na 1 s addr
        exact ⟨u1.trans ⟨rfl, rfl, rfl, rfl, rfl⟩, fun x hx => by rw [u2] at hx; exact hx⟩

end TbbVerif.C17.BE
