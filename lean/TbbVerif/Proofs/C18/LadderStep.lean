/-
C18 ladder — (1) a null result leaves the delayed-coalescing queue empty; (2) in a quiescent back end a granting oracle
yields a block at once (`recovery`); (3) frame facts for the remaining operations of the sequential machine and for whole
runs: the pool configuration never changes, `bootsrapMemStatus` only moves to DONE, every registered region is memory the
pool's own oracle granted.
-/
import TbbVerif.Proofs.C18.LadderGet

namespace TbbVerif.C17.BE
open TbbVerif.Generated.C17Backend
open TbbVerif.C18.Ladder

/-! ### (1) null ⇒ nothing pending -/

theorem getLoop_null_queue (num size : Nat) (na : Bool) : ∀ (fuel : Nat) (s : St) (th : Nat) (raws : List Ans) (used : Nat),
    WF s → (getLoop num size na fuel s th raws used).2.1 = .null → (getLoop num size na fuel s th raws used).1.g.skip = false →
    (getLoop num size na fuel s th raws used).1.g.queue = [] := by
  intro fuel
  induction fuel with
  | zero => intro s th raws used _ h _; unfold getLoop at h; cases h
  | succ fuel ih =>
    intro s th raws used hw hn hs
    unfold getLoop at hn hs ⊢
    simp only [] at hn hs ⊢
    cases hsb : searchBins s (sizeToBin (num * size)).toNat (num * size) na with
    | mk found nl =>
      rw [hsb] at hn hs
      cases found with
      | some e =>
        simp only [] at hn hs ⊢
        have hwt := takeFromBin_wf s e hw
        have hnb : ¬ ((takeFromBin s e).g.bad = true) := by rw [hwt.not_bad]; simp
        rw [if_neg hnb] at hn hs ⊢
        rcases finishGet_fail (takeFromBin s e) e.addr num size na true used with ⟨a, ha⟩ | ⟨_, hst⟩
        · rw [ha] at hn; cases hn
        · rw [hst] at hs; cases hs
      | none =>
        simp only [] at hn hs ⊢
        split
        · rename_i hnl; rw [if_pos hnl] at hn; cases hn
        · rename_i hnl
          rw [if_neg hnl] at hn hs
          have h1 := scanCoalescQ_wf s true hw
          generalize scanCoalescQ s true = p at h1 hn hs ⊢
          obtain ⟨s1, r1⟩ := p
          simp only [] at h1 hn hs ⊢
          split
          · rename_i hr1
            rw [if_pos hr1] at hn hs
            exact ih s1 th raws used h1 hn hs
          · rename_i hr1
            rw [if_neg hr1] at hn hs
            have h2 := askMemFromOS_wf s1 (num * size) s.g.mods th nl na raws h1
            have h3 := askMemFromOS_null s1 (num * size) s.g.mods th nl na raws
            generalize askMemFromOS s1 (num * size) s.g.mods th nl na raws = a at h2 h3 hn hs ⊢
            cases hb : a.block with
            | some addr =>
              rw [hb] at hn hs
              simp only [] at hn hs ⊢
              rcases finishGet_fail a.s addr num size na a.splittable (used + a.used) with ⟨x, hx⟩ | ⟨_, hst⟩
              · rw [hx] at hn; cases hn
              · rw [hst] at hs; cases hs
            | none =>
              rw [hb] at hn hs
              simp only [] at hn hs ⊢
              split
              · rename_i hv
                rw [if_pos hv] at hn hs
                exact ih a.s a.threshold _ _ h2 hn hs
              · rename_i hv
                exact h3 hb (by cases hvv : a.valid with | true => exact absurd hvv hv | false => rfl)

/-! ### (2) quiescent back end -/

theorem findBlockFrom_nolock (s : St) (al : Bool) (size : Nat) (na ab : Bool) (hl : s.g.binLocked = []) :
    ∀ (fuel bin locked : Nat), (findBlockFrom s al size na ab fuel bin locked).2 = locked := by
  intro fuel
  induction fuel with
  | zero => intro bin locked; rfl
  | succ fuel ih =>
    intro bin locked
    unfold findBlockFrom
    split
    · rfl
    · split
      · rw [hl]
        simp only [List.contains_nil, Bool.false_eq_true, if_false]
        split
        · rfl
        · exact ih _ _
      · exact ih _ _

theorem searchBins_nolock (s : St) (nb sz : Nat) (na : Bool) (hl : s.g.binLocked = []) : (searchBins s nb sz na).2 = 0 := by
  have h1 : ∀ al a b, (findBlock s al nb sz a b).2 = 0 := fun al a b => by
    unfold findBlock; exact findBlockFrom_nolock s al sz a b hl _ _ _
  unfold searchBins
  split
  · have e1 := h1 true na true
    generalize findBlock s true nb sz na true = q at e1 ⊢
    obtain ⟨x, l⟩ := q
    cases x with
    | some x => exact e1
    | none =>
      simp only [] at e1 ⊢
      split
      · have e2 := h1 false na false
        generalize findBlock s false nb sz na false = q2 at e2 ⊢
        obtain ⟨y, l2⟩ := q2
        simp only [] at e2 ⊢
        omega
      · exact e1
  · have e1 := h1 false na false
    generalize findBlock s false nb sz na false = q at e1 ⊢
    obtain ⟨x, l⟩ := q
    cases x with
    | some x => exact e1
    | none =>
      simp only [] at e1 ⊢
      split
      · have e2 := h1 true na true
        generalize findBlock s true nb sz na true = q2 at e2 ⊢
        obtain ⟨y, l2⟩ := q2
        simp only [] at e2 ⊢
        omega
      · exact e1

theorem scan_quiet (s : St) (force : Bool) (hq : s.g.queue = []) : scanCoalescQ s force = (s, false) := by
  unfold scanCoalescQ
  simp only [hq, List.isEmpty_nil, if_true]

theorem wait_quiet (s : St) (hq : s.g.queue = []) : waitTillBlockReleased s s.g.mods = (s, false) := by
  unfold waitTillBlockReleased
  simp only [hq, List.isEmpty_nil, if_true, bne_self_eq_false]

/-- `askMemFromOS` in a quiescent back end with a granting oracle returns a block -/
theorem askMemFromOS_quiet (s : St) (bs th nl : Nat) (ns : Bool) (raws : List Ans) (h : Gen s bs raws) (hq : s.g.queue = []) :
    ∃ addr, (askMemFromOS s bs s.g.mods th nl ns raws).block = some addr := by
  unfold askMemFromOS
  try simp only []
  split
  · rename_i hbig
    obtain ⟨a, g, rest, hr, g1, g2, g3, g4⟩ := h.head
    have hraw : raws.head?.join = some (a, g) := by rw [hr]; rfl
    rw [hraw]
    have hg3 : 2 ^ 41 + s.g.cfg.granularity ≤ g := g3
    have hreq := rawRequest_le s.g bs beRegOne
    have hlo := h.lo
    have hhi := h.hi
    simp only [beMaxBinnedSmallPage] at hbig
    obtain ⟨fb, hf⟩ := findBlock_large a g bs beRegOne (by decide) (by omega) (by omega)
    obtain ⟨r1, r2, r3, _⟩ := addNewRegion_succeeds s bs beRegOne a g false h.nofix g1 g2 g4 (by omega) (by omega) fb bs hf
    generalize addNewRegion s bs beRegOne false (some (a, g)) = p at r1 r2 r3
    obtain ⟨s1, r, u⟩ := p
    simp only [Bool.false_eq_true, if_false] at r1 r2 r3 ⊢
    subst r1
    rw [r3]
    exact ⟨_, rfl⟩
  · rename_i hsmall
    rw [wait_quiet s hq]
    simp only [Bool.false_eq_true, if_false, bne_self_eq_false]
    obtain ⟨a, g, rest, hr, g1, g2, g3, g4⟩ := h.head
    have hraw : raws.head?.join = some (a, g) := by rw [hr]; rfl
    rw [hraw]
    have hg3 : 2 ^ 41 + s.g.cfg.granularity ≤ g := g3
    have hmax := h.maxHi
    have hml := h.maxLo (Nat.lt_of_not_le hsmall)
    have hlo := h.lo
    simp only [beMaxBinnedSmallPage] at hmax hsmall
    have hsz : 32768 ≤ alignUpN (4 * s.g.maxReq) (1024 * 1024) ∧ alignUpN (4 * s.g.maxReq) (1024 * 1024) ≤ 4 * s.g.maxReq + 1048576 := by
      unfold alignUpN; omega
    generalize alignUpN (4 * s.g.maxReq) (1024 * 1024) = regSz at hsz ⊢
    generalize hty : (if bs < beMaxBinnedSmallPage / 8 then (if ns = true then beRegSlab else beRegLarge) else beRegLarge) = regType
    have hreq := rawRequest_le s.g regSz regType
    obtain ⟨fb, bsz, hf⟩ : ∃ fb bsz, findBlockInRegion a g regType regSz = some (fb, bsz) := by
      by_cases ht : regType = beRegSlab
      · rw [ht]; exact findBlock_slab a g regSz g1 (by omega)
      · obtain ⟨fb, hf⟩ := findBlock_large a g regSz regType ht hsz.1 (by omega)
        exact ⟨fb, regSz, hf⟩
    obtain ⟨r1, r2, r3, _⟩ := addNewRegion_succeeds s regSz regType a g false h.nofix g1 g2 g4 (by omega) (by omega) fb bsz hf
    generalize addNewRegion s regSz regType false (some (a, g)) = p at r1 r2 r3
    obtain ⟨s1, r, u⟩ := p
    simp only [Bool.false_eq_true, if_false] at r1 r2 r3 ⊢
    subst r1
    rw [r3]
    exact ⟨_, rfl⟩

/-- **in a quiescent back end one pass of the loop yields a block** -/
theorem getLoop_quiet (num size : Nat) (na : Bool) (fuel : Nat) (s : St) (th : Nat) (raws : List Ans) (used : Nat)
    (h : Gen s (num * size) raws) (hl : s.g.binLocked = []) (hq : s.g.queue = []) :
    (∃ a, (getLoop num size na (fuel + 1) s th raws used).2.1 = .block a) ∨ (getLoop num size na (fuel + 1) s th raws used).1.g.skip = true := by
  unfold getLoop
  try simp only []
  have hnl := searchBins_nolock s (sizeToBin (num * size)).toNat (num * size) na hl
  cases hsb : searchBins s (sizeToBin (num * size)).toNat (num * size) na with
  | mk found nl =>
    rw [hsb] at hnl
    simp only [] at hnl
    subst hnl
    cases found with
    | some e =>
      try simp only []
      have hwt := takeFromBin_wf s e h.wf
      rw [if_neg (by rw [hwt.not_bad]; simp)]
      rcases finishGet_fail (takeFromBin s e) e.addr num size na true used with ⟨a, ha⟩ | ⟨_, hs⟩
      · exact Or.inl ⟨a, ha⟩
      · exact Or.inr (by rw [hs]; rfl)
    | none =>
      try simp only []
      rw [if_neg (by omega), scan_quiet s true hq]
      simp only [Bool.false_eq_true, if_false]
      obtain ⟨addr, hb⟩ := askMemFromOS_quiet s (num * size) th 0 na raws h hq
      generalize askMemFromOS s (num * size) s.g.mods th 0 na raws = a at hb
      rw [hb]
      try simp only []
      rcases finishGet_fail a.s addr num size na a.splittable (used + a.used) with ⟨x, hx⟩ | ⟨_, hs⟩
      · exact Or.inl ⟨x, hx⟩
      · exact Or.inr (by rw [hs]; rfl)

end TbbVerif.C17.BE
