/-
C18 pools on the back-end model: a failed `addNewRegion` leaves every state word but the log alone; `pool_reset` returns no
raw memory and leaves no block handed out; `pool_destroy` offers every region to the raw-free callback exactly once whatever
the callback answers; the region list is a valid PoolLedger state.
-/
import TbbVerif.Proofs.C18.LadderFE
import TbbVerif.Proofs.C18

namespace TbbVerif.C17.BE
open TbbVerif.Generated.C17Backend
open TbbVerif.C18.Ladder

/-- **nothing half-registered**: when `addNewRegion` fails, the region list, the bins, their bit masks, the advance-bin
registry, the coalescing queue and the modification counter are what they were -/
theorem addNewRegion_fail_state (s : St) (size type : Nat) (atb : Bool) (raw : Option (Nat × Nat))
    (h : (addNewRegion s size type atb raw).2.1 = .fail) :
    (addNewRegion s size type atb raw).1.regions = s.regions ∧ (addNewRegion s size type atb raw).1.g.bins = s.g.bins ∧
    (addNewRegion s size type atb raw).1.g.mask = s.g.mask ∧ (addNewRegion s size type atb raw).1.g.adv = s.g.adv ∧
    (addNewRegion s size type atb raw).1.g.queue = s.g.queue ∧ (addNewRegion s size type atb raw).1.g.mods = s.g.mods := by
  unfold addNewRegion at h ⊢
  split
  · exact ⟨rfl, rfl, rfl, rfl, rfl, rfl⟩
  · rename_i hc
    rw [if_neg hc] at h
    cases raw with
    | none => exact ⟨rfl, rfl, rfl, rfl, rfl, rfl⟩
    | some ag =>
      obtain ⟨a, g⟩ := ag
      simp only [] at h ⊢
      split
      · exact ⟨rfl, rfl, rfl, rfl, rfl, rfl⟩
      · rename_i hc2
        rw [if_neg hc2] at h
        cases hf : findBlockInRegion a g type size with
        | none => exact ⟨rfl, rfl, rfl, rfl, rfl, rfl⟩
        | some fbs =>
          obtain ⟨fb, bs⟩ := fbs
          rw [hf] at h
          simp only [] at h
          split at h <;> cases h

theorem totalMem_cons (r : Region) (rs : List Region) : totalMem (r :: rs) = r.allocSz + totalMem rs := by
  unfold totalMem; simp

/-! ### reset -/

theorem resetRegions_users : ∀ (rs : List Region) (g : Glob), g.bad = false → (resetRegions g rs).1.bad = false →
    allUsers (resetRegions g rs).2 = [] := by
  intro rs
  induction rs with
  | nil => intro g _ _; rfl
  | cons r rest ih =>
    intro g hb hb'
    unfold resetRegions at hb' ⊢
    cases hf : findBlockInRegion r.base r.allocSz r.type r.blockSz with
    | none =>
      exfalso
      rw [hf] at hb'
      simp only [] at hb'
      have : ∀ (rs : List Region) (g : Glob), g.bad = true → (resetRegions g rs).1.bad = true := by
        intro rs
        induction rs with
        | nil => intro g h; exact h
        | cons r rest ih2 =>
          intro g h
          unfold resetRegions
          cases findBlockInRegion r.base r.allocSz r.type r.blockSz with
          | none =>
            simp only []
            have := ih2 g.setBad rfl
            generalize resetRegions g.setBad rest = q at this ⊢
            obtain ⟨g', rs'⟩ := q
            exact this
          | some fbs =>
            obtain ⟨fb, bs⟩ := fbs
            simp only []
            have := ih2 ({ g.binAdd fb (decide (r.type = beRegSlab)) (sizeToBin bs).toNat false with
              adv := if (g.binAdd fb (decide (r.type = beRegSlab)) (sizeToBin bs).toNat false).adv.contains (sizeToBin bs).toNat
                then (g.binAdd fb (decide (r.type = beRegSlab)) (sizeToBin bs).toNat false).adv
                else (sizeToBin bs).toNat :: (g.binAdd fb (decide (r.type = beRegSlab)) (sizeToBin bs).toNat false).adv } : Glob) h
            generalize resetRegions _ rest = q at this ⊢
            obtain ⟨g', rs'⟩ := q
            exact this
      have h2 := this rest g.setBad rfl
      generalize resetRegions g.setBad rest = q at h2 hb'
      obtain ⟨g', rs'⟩ := q
      simp only [] at h2 hb'
      rw [h2] at hb'
      cases hb'
    | some fbs =>
      obtain ⟨fb, bs⟩ := fbs
      rw [hf] at hb'
      simp only [] at hb' ⊢
      have := ih ({ g.binAdd fb (decide (r.type = beRegSlab)) (sizeToBin bs).toNat false with
        adv := if (g.binAdd fb (decide (r.type = beRegSlab)) (sizeToBin bs).toNat false).adv.contains (sizeToBin bs).toNat
          then (g.binAdd fb (decide (r.type = beRegSlab)) (sizeToBin bs).toNat false).adv
          else (sizeToBin bs).toNat :: (g.binAdd fb (decide (r.type = beRegSlab)) (sizeToBin bs).toNat false).adv } : Glob) hb
      generalize resetRegions _ rest = q at this hb' ⊢
      obtain ⟨g', rs'⟩ := q
      simp only [] at this hb' ⊢
      rw [allUsers_cons]
      show usersOf fb (freshBlocks bs r.type true) ++ allUsers rs' = []
      rw [usersOf_fresh, this hb']
      rfl

/-! ### destroy -/

theorem getD_tail (l : List Bool) (k : Nat) : l.tail.getD k true = l.getD (k + 1) true := by
  cases l with
  | nil => simp
  | cons x xs => simp

theorem destroyLoop_spec : ∀ (rs : List Region) (answers : List Bool),
    (destroyLoop rs answers).2 = rs.map (fun r => C18.Ev.rawFree r.base r.allocSz) ∧
    C18.ledgerRun (regSpans rs) (destroyLoop rs answers).2 = some [] ∧
    ((destroyLoop rs answers).1 = true ↔ ∀ k, k < rs.length → answers.getD k true = true) := by
  intro rs
  induction rs with
  | nil => intro answers; exact ⟨rfl, rfl, by simp [destroyLoop]⟩
  | cons r rest ih =>
    intro answers
    unfold destroyLoop
    obtain ⟨i1, i2, i3⟩ := ih answers.tail
    generalize destroyLoop rest answers.tail = q at i1 i2 i3 ⊢
    obtain ⟨ok, evs⟩ := q
    simp only [] at i1 i2 i3 ⊢
    refine ⟨by rw [i1]; rfl, ?_, ?_⟩
    · show C18.ledgerRun ((r.base, r.allocSz) :: regSpans rest) (C18.Ev.rawFree r.base r.allocSz :: evs) = some []
      unfold C18.ledgerRun C18.ledgerStep
      simp only [List.mem_cons, true_or, if_true, List.erase_cons_head]
      exact i2
    · simp only [Bool.and_eq_true, i3]
      constructor
      · intro ⟨h0, h1⟩ k hk
        cases k with
        | zero => cases answers <;> simp at h0 ⊢ <;> exact h0
        | succ k =>
          have := h1 k (by simp only [List.length_cons] at hk; omega)
          rw [getD_tail] at this
          exact this
      · intro h
        refine ⟨?_, fun k hk => ?_⟩
        · have := h 0 (by simp)
          cases answers <;> simp at this ⊢ <;> exact this
        · have := h (k + 1) (by simp only [List.length_cons]; omega)
          rw [getD_tail]
          exact this

/-! ### the region list is a valid ledger -/

theorem spans_pairwise (s : St) (hw : WF s) : (regSpans s.regions).Pairwise C18.Region.disjoint := by
  unfold regSpans
  rw [List.pairwise_map]
  exact hw.disjoint.imp (fun h => h)

/-! ### `getEmptyBlock` on a null -/

theorem putSlabs_wf : ∀ (j : Nat) (s : St) (addr : Nat), WF s → WF (putSlabs s addr j) := by
  intro j
  induction j with
  | zero => intro s addr h; exact h
  | succ j ih =>
    intro s addr h
    unfold putSlabs
    exact ih _ _ (genericPutBlock_wf s addr h)

/-- `MemoryPool::getEmptyBlock`: the back end is well formed afterwards on every path (slab blocks obtained, back
references obtained or rolled back); when the back end returns no block the handed-out blocks are literally unchanged and the
back-reference table is not touched -/
theorem getEmptyBlock_clean (f : FE) (userPool : Bool) (num : Nat) (rawsBe : List Ans) (rawsBr : List (Option Nat)) (hw : WF f.be) :
    WF (getEmptyBlock f userPool num rawsBe rawsBr).1.be ∧
    ((∀ a, (genericGetBlock f.be num beSlabSize true rawsBe).2.1 ≠ .block a) →
      allUsers (getEmptyBlock f userPool num rawsBe rawsBr).1.be.regions = allUsers f.be.regions ∧
      (getEmptyBlock f userPool num rawsBe rawsBr).1.br = f.br) := by
  unfold getEmptyBlock
  have hwf := genericGetBlock_wf f.be num beSlabSize true rawsBe hw
  have hus := genericGetBlock_users f.be num beSlabSize true rawsBe hw
  generalize genericGetBlock f.be num beSlabSize true rawsBe = g at hwf hus ⊢
  obtain ⟨be', res, u⟩ := g
  cases res with
  | block a =>
    simp only [] at hwf ⊢
    refine ⟨?_, fun h => absurd rfl (h a)⟩
    split
    · exact hwf
    · generalize takeRefs f.br rawsBr num [] = r
      obtain ⟨br', oi, u2⟩ := r
      cases oi with
      | some idxs => exact hwf
      | none => exact putSlabs_wf num be' a hwf
  | null => exact ⟨hwf, fun h => ⟨hus h, rfl⟩⟩
  | blocked => exact ⟨hwf, fun h => ⟨hus h, rfl⟩⟩

end TbbVerif.C17.BE
