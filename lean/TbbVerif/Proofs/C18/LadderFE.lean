/-
C18 — (1) fixed pools: once `bootsrapMemStatus` is DONE no rung of the ladder calls the raw allocator again, so a fixed pool
makes at most one raw call in its whole life; (2) the front end on a null: `mallocLargeObject` leaves the back end and the
back-reference table as it found them.
-/
import TbbVerif.Proofs.C18.LadderMach
import TbbVerif.Proofs.C17.BrOps

namespace TbbVerif.C17.BE
open TbbVerif.Generated.C17Backend
open TbbVerif.C18.Ladder

/-! ### (1) fixed pools -/

theorem addNewRegion_fixed (s : St) (size type : Nat) (atb : Bool) (raw : Option (Nat × Nat)) (h : s.g.cfg.fixedPool = true) (hb : s.g.boot = 2) :
    addNewRegion s size type atb raw = (s, .fail, 0) := by
  unfold addNewRegion
  have c1 : (s.g.cfg.fixedPool && s.g.boot == 2) = true := by rw [h, hb]; rfl
  rw [if_pos c1]

theorem addNewRegion_used_le (s : St) (size type : Nat) (atb : Bool) (raw : Option (Nat × Nat)) :
    (addNewRegion s size type atb raw).2.2 ≤ 1 := by
  unfold addNewRegion
  split
  · exact Nat.zero_le _
  · cases raw with
    | none => exact Nat.le_refl _
    | some ag =>
      obtain ⟨a, g⟩ := ag
      try simp only []
      split
      · exact Nat.le_refl _
      · cases hf : findBlockInRegion a g type size with
        | none => exact Nat.le_refl _
        | some fbs =>
          obtain ⟨fb, bs⟩ := fbs
          try simp only []
          split <;> exact Nat.le_refl _

theorem addAdvance_fixed (regSz regType : Nat) (s : St) (h : s.g.cfg.fixedPool = true) (hb : s.g.boot = 2) :
    ∀ (n : Nat) (raws : List Ans) (used : Nat), (addAdvance s regSz regType n raws used).2 = used := by
  intro n
  cases n with
  | zero => intro raws used; rfl
  | succ n =>
    intro raws used
    unfold addAdvance
    rw [addNewRegion_fixed s regSz regType true raws.head?.join h hb]
    simp

theorem askMemFromOS_fixed (s : St) (bs sm th nl : Nat) (ns : Bool) (raws : List Ans) (h : s.g.cfg.fixedPool = true) (hb : s.g.boot = 2) :
    (askMemFromOS s bs sm th nl ns raws).used = 0 := by
  unfold askMemFromOS
  try simp only []
  split
  · rw [addNewRegion_fixed s bs beRegOne false raws.head?.join h hb]
  · generalize alignUpN (4 * s.g.maxReq) (1024 * 1024) = regSz
    have h0 := (waitTillBlockReleased_frame s sm).1
    generalize waitTillBlockReleased s sm = p0 at h0
    obtain ⟨s0, w⟩ := p0
    simp only [] at h0 ⊢
    split
    · rfl
    · split
      · rfl
      · generalize (if bs < beMaxBinnedSmallPage / 8 then (if ns = true then beRegSlab else beRegLarge) else beRegLarge) = regType
        rw [addNewRegion_fixed s0 regSz regType false raws.head?.join (by rw [h0.cfg]; exact h) (by rw [h0.boot]; exact hb)]

theorem finishGet_used (s : St) (addr num size : Nat) (na sp : Bool) (used : Nat) : (finishGet s addr num size na sp used).2.2 = used := by
  unfold finishGet
  cases hc : locate s addr with
  | none => rfl
  | some c =>
    try simp only []
    split <;> rfl

theorem getLoop_fixed (num size : Nat) (na : Bool) : ∀ (fuel : Nat) (s : St) (th : Nat) (raws : List Ans) (used : Nat),
    s.g.cfg.fixedPool = true → s.g.boot = 2 → (getLoop num size na fuel s th raws used).2.2 = used := by
  intro fuel
  induction fuel with
  | zero => intro s th raws used _ _; rfl
  | succ fuel ih =>
    intro s th raws used h hb
    unfold getLoop
    try simp only []
    cases hsb : searchBins s (sizeToBin (num * size)).toNat (num * size) na with
    | mk found nl =>
      cases found with
      | some e =>
        try simp only []
        split
        · rfl
        · exact finishGet_used _ _ _ _ _ _ _
      | none =>
        try simp only []
        split
        · rfl
        · have f1 := (scanCoalescQ_frame s true).1
          generalize scanCoalescQ s true = p at f1
          obtain ⟨s1, r1⟩ := p
          simp only [] at f1 ⊢
          have h1 : s1.g.cfg.fixedPool = true := by rw [f1.cfg]; exact h
          have hb1 : s1.g.boot = 2 := by rw [f1.boot]; exact hb
          split
          · exact ih s1 th raws used h1 hb1
          · have hu := askMemFromOS_fixed s1 (num * size) s.g.mods th nl na raws h1 hb1
            have f2 := (askMemFromOS_frame s1 (num * size) s.g.mods th nl na raws).1
            generalize askMemFromOS s1 (num * size) s.g.mods th nl na raws = a at hu f2
            cases hbk : a.block with
            | some addr =>
              try simp only []
              rw [finishGet_used, hu]; rfl
            | none =>
              try simp only []
              split
              · rw [ih a.s a.threshold _ _ (by rw [f2.cfg]; exact h1) (by rw [f2.boot]; exact hb1), hu]; rfl
              · rw [hu]; rfl

/-- **a fixed pool calls its raw allocator at most once per `genericGetBlock`, and never after the bootstrap** -/
theorem genericGetBlock_fixed (s : St) (num size : Nat) (na : Bool) (raws : List Ans) (h : s.g.cfg.fixedPool = true) :
    (genericGetBlock s num size na raws).2.2 ≤ 1 ∧ (s.g.boot = 2 → (genericGetBlock s num size na raws).2.2 = 0) := by
  unfold genericGetBlock
  try simp only []
  have hb : ((if (s.g.boot == 2) = true then (s, 0) else
      (⟨{ (addNewRegion ⟨{ s.g with boot := 1 }, s.regions⟩ beBootstrapRegionSize beRegSlab true raws.head?.join).1.g with boot := 2 },
        (addNewRegion ⟨{ s.g with boot := 1 }, s.regions⟩ beBootstrapRegionSize beRegSlab true raws.head?.join).1.regions⟩,
       (addNewRegion ⟨{ s.g with boot := 1 }, s.regions⟩ beBootstrapRegionSize beRegSlab true raws.head?.join).2.2)).1.g.cfg.fixedPool = true ∧
      (if (s.g.boot == 2) = true then (s, 0) else
      (⟨{ (addNewRegion ⟨{ s.g with boot := 1 }, s.regions⟩ beBootstrapRegionSize beRegSlab true raws.head?.join).1.g with boot := 2 },
        (addNewRegion ⟨{ s.g with boot := 1 }, s.regions⟩ beBootstrapRegionSize beRegSlab true raws.head?.join).1.regions⟩,
       (addNewRegion ⟨{ s.g with boot := 1 }, s.regions⟩ beBootstrapRegionSize beRegSlab true raws.head?.join).2.2)).1.g.boot = 2) ∧
      (if (s.g.boot == 2) = true then (s, 0) else
      (⟨{ (addNewRegion ⟨{ s.g with boot := 1 }, s.regions⟩ beBootstrapRegionSize beRegSlab true raws.head?.join).1.g with boot := 2 },
        (addNewRegion ⟨{ s.g with boot := 1 }, s.regions⟩ beBootstrapRegionSize beRegSlab true raws.head?.join).1.regions⟩,
       (addNewRegion ⟨{ s.g with boot := 1 }, s.regions⟩ beBootstrapRegionSize beRegSlab true raws.head?.join).2.2)).2 ≤ 1 ∧
      (s.g.boot = 2 → (if (s.g.boot == 2) = true then (s, 0) else
      (⟨{ (addNewRegion ⟨{ s.g with boot := 1 }, s.regions⟩ beBootstrapRegionSize beRegSlab true raws.head?.join).1.g with boot := 2 },
        (addNewRegion ⟨{ s.g with boot := 1 }, s.regions⟩ beBootstrapRegionSize beRegSlab true raws.head?.join).1.regions⟩,
       (addNewRegion ⟨{ s.g with boot := 1 }, s.regions⟩ beBootstrapRegionSize beRegSlab true raws.head?.join).2.2)).2 = 0) := by
    split
    · rename_i hb2
      exact ⟨⟨h, by simpa using hb2⟩, Nat.zero_le _, fun _ => rfl⟩
    · rename_i hb2
      have a1 := addNewRegion_ss ⟨{ s.g with boot := 1 }, s.regions⟩ beBootstrapRegionSize beRegSlab true raws.head?.join
      refine ⟨⟨by rw [show (St.mk _ _).g.cfg = _ from a1.cfg]; exact h, rfl⟩, addNewRegion_used_le _ _ _ _ _, fun hh => ?_⟩
      exact absurd (by rw [hh]; rfl) hb2
  generalize (if (s.g.boot == 2) = true then (s, 0) else
      (⟨{ (addNewRegion ⟨{ s.g with boot := 1 }, s.regions⟩ beBootstrapRegionSize beRegSlab true raws.head?.join).1.g with boot := 2 },
        (addNewRegion ⟨{ s.g with boot := 1 }, s.regions⟩ beBootstrapRegionSize beRegSlab true raws.head?.join).1.regions⟩,
       (addNewRegion ⟨{ s.g with boot := 1 }, s.regions⟩ beBootstrapRegionSize beRegSlab true raws.head?.join).2.2)) = p at hb
  obtain ⟨s1, u0⟩ := p
  simp only [] at hb ⊢
  obtain ⟨⟨b1, b2⟩, b3, b4⟩ := hb
  have hs2 : (if (decide (num * size > s1.g.maxReq) && decide (num * size < beMaxBinnedSmallPage)) = true
      then (⟨{ s1.g with maxReq := num * size }, s1.regions⟩ : St) else s1).g.cfg = s1.g.cfg ∧
      (if (decide (num * size > s1.g.maxReq) && decide (num * size < beMaxBinnedSmallPage)) = true
      then (⟨{ s1.g with maxReq := num * size }, s1.regions⟩ : St) else s1).g.boot = s1.g.boot := by
    split <;> exact ⟨rfl, rfl⟩
  generalize (if (decide (num * size > s1.g.maxReq) && decide (num * size < beMaxBinnedSmallPage)) = true
      then (⟨{ s1.g with maxReq := num * size }, s1.regions⟩ : St) else s1) = s2 at hs2
  have q1 := (scanCoalescQ_frame s2 false).1
  rw [getLoop_fixed num size na 12 (scanCoalescQ s2 false).1 _ _ _ (by rw [q1.cfg, hs2.1]; exact b1) (by rw [q1.boot, hs2.2]; exact b2)]
  exact ⟨b3, b4⟩

def usedOf : Out → Nat
  | .got _ u => u
  | _ => 0

theorem step_used_fixed (s : St) (op : Op) (h : s.g.cfg.fixedPool = true) :
    usedOf (step s op).2 ≤ 1 ∧ (s.g.boot = 2 → usedOf (step s op).2 = 0) ∧ (0 < usedOf (step s op).2 → (step s op).1.g.boot = 2) := by
  cases op with
  | get num size al raws =>
    simp only [step]
    split
    · exact ⟨Nat.zero_le _, fun _ => rfl, fun hh => absurd hh (Nat.lt_irrefl 0)⟩
    · obtain ⟨f1, f2⟩ := genericGetBlock_fixed s num size al raws h
      have f3 := (genericGetBlock_frame s num size al raws).2.1
      generalize genericGetBlock s num size al raws = r at f1 f2 f3 ⊢
      obtain ⟨s', res, u⟩ := r
      exact ⟨f1, f2, fun _ => f3⟩
  | put addr =>
    simp only [step]
    generalize genericPutBlock s addr = r
    obtain ⟨s', b⟩ := r
    cases b <;> exact ⟨Nat.zero_le _, fun _ => rfl, fun hh => absurd hh (Nat.lt_irrefl 0)⟩
  | scan force =>
    simp only [step]
    generalize scanCoalescQ s force = r
    obtain ⟨s', b⟩ := r
    exact ⟨Nat.zero_le _, fun _ => rfl, fun hh => absurd hh (Nat.lt_irrefl 0)⟩
  | clean =>
    simp only [step]
    generalize clean s = r
    obtain ⟨s', b⟩ := r
    exact ⟨Nat.zero_le _, fun _ => rfl, fun hh => absurd hh (Nat.lt_irrefl 0)⟩
  | reset => exact ⟨Nat.zero_le _, fun _ => rfl, fun hh => absurd hh (Nat.lt_irrefl 0)⟩
  | delay on => exact ⟨Nat.zero_le _, fun _ => rfl, fun hh => absurd hh (Nat.lt_irrefl 0)⟩
  | lockbin al bin =>
    simp only [step]
    split <;> exact ⟨Nat.zero_le _, fun _ => rfl, fun hh => absurd hh (Nat.lt_irrefl 0)⟩
  | unlockbin al bin => exact ⟨Nat.zero_le _, fun _ => rfl, fun hh => absurd hh (Nat.lt_irrefl 0)⟩
  | markcoal addr =>
    simp only [step]
    generalize markCoal s addr = r
    obtain ⟨s', b⟩ := r
    cases b <;> exact ⟨Nat.zero_le _, fun _ => rfl, fun hh => absurd hh (Nat.lt_irrefl 0)⟩

theorem run_used_fixed (cfg : Cfg) : ∀ (ops : List Op) (s : St), s.g.cfg.fixedPool = true →
    ((((machine cfg).runFrom s ops).2.map usedOf).sum ≤ 1) ∧ (s.g.boot = 2 → (((machine cfg).runFrom s ops).2.map usedOf).sum = 0) := by
  intro ops
  induction ops with
  | nil => intro s _; exact ⟨Nat.zero_le _, fun _ => rfl⟩
  | cons o os ih =>
    intro s h
    obtain ⟨u1, u2, u3⟩ := step_used_fixed s o h
    obtain ⟨c1, c2, _⟩ := step_frame s o
    obtain ⟨i1, i2⟩ := ih (step s o).1 (by rw [c1]; exact h)
    have hrun : ((machine cfg).runFrom s (o :: os)).2 = (step s o).2 :: ((machine cfg).runFrom (step s o).1 os).2 := by
      simp only [Mach.runFrom, machine]
    rw [hrun]
    simp only [List.map_cons, List.sum_cons]
    constructor
    · by_cases hz : usedOf (step s o).2 = 0
      · omega
      · have := i2 (u3 (by omega))
        omega
    · intro hb
      have := u2 hb
      have := i2 (c2 hb)
      omega

/-! ### (2) `mallocLargeObject` on a null -/

open TbbVerif.C17.BR in
/-- **a failed `mallocLargeObject` is invisible**: the back end is well formed and has handed out nothing new, the
back-reference table satisfies its invariant and every index is live exactly when it was before (the index taken for the
object has been given back) -/
theorem mallocLargeObject_null (f : FE) (sz : Nat) (rawsBe : List Ans) (rawsBr : List (Option Nat)) (hw : WF f.be) (hi : tabInv f.br)
    (hn : ∀ a i, (mallocLargeObject f sz rawsBe rawsBr).2 ≠ .large a i) :
    WF (mallocLargeObject f sz rawsBe rawsBr).1.be ∧ tabInv (mallocLargeObject f sz rawsBe rawsBr).1.br ∧
    allUsers (mallocLargeObject f sz rawsBe rawsBr).1.be.regions = allUsers f.be.regions ∧
    ∀ j : Idx, (mallocLargeObject f sz rawsBe rawsBr).1.br.live j = f.br.live j := by
  unfold mallocLargeObject at hn ⊢
  have hp := newBackRef_ok f.br true rawsBr hi
  generalize BR.newBackRef f.br true rawsBr = r at hp hn ⊢
  obtain ⟨br', oi, u⟩ := r
  obtain ⟨p1, p2, p3⟩ := hp
  cases oi with
  | none =>
    simp only [] at p3 hn ⊢
    exact ⟨hw, p1, trivial, p3⟩
  | some i =>
    simp only [] at p3 hn ⊢
    obtain ⟨q1, q2, q3, q4⟩ := p3
    have hwf := genericGetBlock_wf f.be 1 sz false rawsBe hw
    have hus := genericGetBlock_users f.be 1 sz false rawsBe hw
    generalize genericGetBlock f.be 1 sz false rawsBe = g at hwf hus hn ⊢
    obtain ⟨be', res, u2⟩ := g
    cases res with
    | block a => exact absurd rfl (hn a i)
    | null =>
      simp only [] at hwf hus ⊢
      obtain ⟨t', e1, e2, e3, e4⟩ := removeBackRef_spec br' i p1 q2
      rw [e1]
      refine ⟨hwf, e2, hus (fun a h => by cases h), fun j => ?_⟩
      show t'.live j = f.br.live j
      by_cases hne : j.main ≠ i.main ∨ j.off ≠ i.off
      · rw [(e4 j hne).1, q4 j hne]
      · have hm : j.main = i.main := Classical.byContradiction fun hh => hne (Or.inl hh)
        have ho : j.off = i.off := Classical.byContradiction fun hh => hne (Or.inr hh)
        have h1 : t'.live j = t'.live i := by unfold Tab.live; rw [hm, ho]
        have h2 : f.br.live j = f.br.live i := by unfold Tab.live; rw [hm, ho]
        rw [h1, h2, e3, q1]
    | blocked =>
      simp only [] at hwf hus ⊢
      obtain ⟨t', e1, e2, e3, e4⟩ := removeBackRef_spec br' i p1 q2
      rw [e1]
      refine ⟨hwf, e2, hus (fun a h => by cases h), fun j => ?_⟩
      show t'.live j = f.br.live j
      by_cases hne : j.main ≠ i.main ∨ j.off ≠ i.off
      · rw [(e4 j hne).1, q4 j hne]
      · have hm : j.main = i.main := Classical.byContradiction fun hh => hne (Or.inl hh)
        have ho : j.off = i.off := Classical.byContradiction fun hh => hne (Or.inr hh)
        have h1 : t'.live j = t'.live i := by unfold Tab.live; rw [hm, ho]
        have h2 : f.br.live j = f.br.live i := by unfold Tab.live; rw [hm, ho]
        rw [h1, h2, e3, q1]

end TbbVerif.C17.BE
