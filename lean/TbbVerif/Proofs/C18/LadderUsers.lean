/-
C18 ladder — the blocks in the hands of callers are untouched by every rung of the failure ladder: taking a block out of
a bin, `tryReleaseRegions`, `Backend::clean` (= the back end's share of `hardCachesCleanup`), `waitTillBlockReleased`,
`releaseMemInCaches`, `addNewRegion` (granted or refused), the advance regions, `askMemFromOS`; hence a `genericGetBlock`
that does not return a block leaves `allUsers` literally unchanged.  (The coalescing rungs are C17's `*_users` lemmas.)
-/
import TbbVerif.Model.C18Ladder
import TbbVerif.Proofs.C17.BeFrame
import TbbVerif.Proofs.C17.BeOps

namespace TbbVerif.C17.BE
open TbbVerif.Generated.C17Backend

theorem takeFromBin_users (s : St) (e : Entry) (hw : WF s) : allUsers (takeFromBin s e).regions = allUsers s.regions := by
  unfold takeFromBin
  split
  · rfl
  · cases hc : locate s e.addr with
    | none => rfl
    | some c =>
      simp only []
      cases hp : c.z.post with
      | nil => rfl
      | cons r post =>
        simp only []
        split
        · rfl
        · rename_i hcond
          obtain ⟨hl, _, _, _⟩ := linv_of_wf s e.addr c hw hc
          have htag : TagOK c.z.cur := tagOK_of_blkOK _ _ _ _ hl.cur
          have hn : nonUser c.z.cur := htag (by omega)
          refine allUsers_close_eq s e.addr c hc _ hl.addr ?_
          unfold zUsers
          rw [hp]
          show usersOf c.reg.first c.z.pre.reverse ++
              usersOf c.z.addr ({ c.z.cur with myL := gsLocked, sizeTmp := c.z.cur.myL, own := Own.held } :: { r with leftL := gsLocked } :: post) = _
          rw [usersOf_skip _ _ _ (nonUser_of_own _ (Or.inl rfl)), usersOf_skip _ c.z.cur _ hn]
          exact congrArg _ (usersOf_head_congr (c.z.addr + c.z.cur.size) r { r with leftL := gsLocked } post rfl rfl)

theorem tryRelease_fold_users (cands : List Entry) : ∀ (s : St), WF s →
    WF (cands.foldl (fun (s : St) e =>
      let m := s.g.mask
      let s := takeFromBin s e
      ⟨{ s.g with mask := m }, s.regions⟩) s) ∧
    allUsers (cands.foldl (fun (s : St) e =>
      let m := s.g.mask
      let s := takeFromBin s e
      ⟨{ s.g with mask := m }, s.regions⟩) s).regions = allUsers s.regions := by
  induction cands with
  | nil => intro s h; exact ⟨h, rfl⟩
  | cons e rest ih =>
    intro s h
    simp only [List.foldl_cons]
    have h1 := takeFromBin_wf s e h
    obtain ⟨a1, a2, a3, a4, _, a6⟩ := h1
    have hw1 : WF ⟨{ (takeFromBin s e).g with mask := s.g.mask }, (takeFromBin s e).regions⟩ :=
      ⟨a1, a2, a3, a4, takeFromBin_mask s e h, a6⟩
    obtain ⟨i1, i2⟩ := ih _ hw1
    exact ⟨i1, i2.trans (takeFromBin_users s e h)⟩

theorem tryReleaseRegions_users (s : St) (al : Bool) (bin : Nat) (hw : WF s) :
    allUsers (tryReleaseRegions s al bin).1.regions = allUsers s.regions := by
  unfold tryReleaseRegions
  simp only []
  obtain ⟨i1, i2⟩ := tryRelease_fold_users (s.g.bins.filter (fun e => e.al == al && e.bin == bin)) s hw
  rw [coalescAndPutList_users' _ _ _ _ i1]
  exact i2

theorem clean_fold_users (l : List Nat) : ∀ (s : St) (b : Bool), WF s →
    allUsers (l.foldl (fun (acc : St × Bool) i =>
      let (s, res) := acc
      let (s, r1) := if s.g.mask.contains (true, i) then tryReleaseRegions s true i else (s, false)
      let (s, r2) := if s.g.mask.contains (false, i) then tryReleaseRegions s false i else (s, false)
      (s, res || r1 || r2)) (s, b)).1.regions = allUsers s.regions := by
  induction l with
  | nil => intro s b _; rfl
  | cons i rest ih =>
    intro s b h
    simp only [List.foldl_cons]
    have h1 : WF (if s.g.mask.contains (true, i) then tryReleaseRegions s true i else (s, false)).1 ∧
        allUsers (if s.g.mask.contains (true, i) then tryReleaseRegions s true i else (s, false)).1.regions = allUsers s.regions := by
      split
      · exact ⟨tryReleaseRegions_wf s true i h, tryReleaseRegions_users s true i h⟩
      · exact ⟨h, rfl⟩
    generalize (if s.g.mask.contains (true, i) then tryReleaseRegions s true i else (s, false)) = p1 at h1
    obtain ⟨s1, r1⟩ := p1
    simp only [] at h1 ⊢
    have h2 : WF (if s1.g.mask.contains (false, i) then tryReleaseRegions s1 false i else (s1, false)).1 ∧
        allUsers (if s1.g.mask.contains (false, i) then tryReleaseRegions s1 false i else (s1, false)).1.regions = allUsers s1.regions := by
      split
      · exact ⟨tryReleaseRegions_wf s1 false i h1.1, tryReleaseRegions_users s1 false i h1.1⟩
      · exact ⟨h1.1, rfl⟩
    generalize (if s1.g.mask.contains (false, i) then tryReleaseRegions s1 false i else (s1, false)) = p2 at h2
    obtain ⟨s2, r2⟩ := p2
    simp only [] at h2 ⊢
    exact (ih _ _ h2.1).trans (h2.2.trans h1.2)

theorem clean_users (s : St) (hw : WF s) : allUsers (clean s).1.regions = allUsers s.regions := by
  unfold clean
  simp only []
  rw [clean_fold_users _ _ _ (scanCoalescQ_wf s false hw)]
  exact scanCoalescQ_users s false hw

theorem waitTillBlockReleased_users (s : St) (m : Nat) (hw : WF s) :
    allUsers (waitTillBlockReleased s m).1.regions = allUsers s.regions := by
  unfold waitTillBlockReleased
  split
  · rfl
  · exact scanCoalescQ_users s false hw

theorem releaseMemInCaches_users (s : St) (m t n : Nat) (hw : WF s) :
    allUsers (releaseMemInCaches s m t n).1.regions = allUsers s.regions := by
  unfold releaseMemInCaches
  have h1 := clean_wf s hw
  have u1 := clean_users s hw
  generalize clean s = p at h1 u1
  obtain ⟨s1, c⟩ := p
  simp only [] at h1 u1 ⊢
  split
  · exact u1
  · have u2 := waitTillBlockReleased_users s1 m h1
    generalize waitTillBlockReleased s1 m = q at u2
    obtain ⟨s2, w⟩ := q
    simp only [] at u2 ⊢
    split
    · exact u2.trans u1
    · split <;> exact u2.trans u1

theorem usersOf_fresh (fb blockSz type : Nat) (addToBin : Bool) : usersOf fb (freshBlocks blockSz type addToBin) = [] := by
  unfold freshBlocks
  cases addToBin <;> rfl

/-- `addNewRegion` either leaves the region list alone or puts ONE region, tiled by the two fresh blocks, at its head -/
theorem addNewRegion_regions (s : St) (size type : Nat) (addToBin : Bool) (raw : Option (Nat × Nat)) :
    ((addNewRegion s size type addToBin raw).2.1 = .fail ∧ (addNewRegion s size type addToBin raw).1.regions = s.regions) ∨
    (∃ a g fb bs, raw = some (a, g) ∧ (addNewRegion s size type addToBin raw).2.1 ≠ .fail ∧
      findBlockInRegion a g type size = some (fb, bs) ∧
      (addNewRegion s size type addToBin raw).1.regions =
        { base := a, allocSz := g, blockSz := bs, type := type, first := fb, blocks := freshBlocks bs type addToBin } :: s.regions) := by
  unfold addNewRegion
  split
  · exact Or.inl ⟨rfl, rfl⟩
  · cases raw with
    | none => exact Or.inl ⟨rfl, rfl⟩
    | some ag =>
      obtain ⟨a, g⟩ := ag
      simp only []
      split
      · exact Or.inl ⟨rfl, rfl⟩
      · cases hf : findBlockInRegion a g type size with
        | none => exact Or.inl ⟨rfl, rfl⟩
        | some fbs =>
          obtain ⟨fb, bs⟩ := fbs
          simp only []
          right
          refine ⟨a, g, fb, bs, rfl, ?_, hf, ?_⟩
          · split <;> simp
          · split <;> rfl

theorem addNewRegion_users (s : St) (size type : Nat) (addToBin : Bool) (raw : Option (Nat × Nat)) :
    allUsers (addNewRegion s size type addToBin raw).1.regions = allUsers s.regions := by
  rcases addNewRegion_regions s size type addToBin raw with ⟨_, h⟩ | ⟨a, g, fb, bs, _, _, _, h⟩
  · rw [h]
  · rw [h, allUsers_cons]
    show usersOf fb (freshBlocks bs type addToBin) ++ _ = _
    rw [usersOf_fresh]; rfl

theorem addAdvance_users (regSz regType : Nat) :
    ∀ (n : Nat) (s : St) (raws : List (Option (Nat × Nat))) (used : Nat),
      allUsers (addAdvance s regSz regType n raws used).1.regions = allUsers s.regions := by
  intro n
  induction n with
  | zero => intro s raws used; rfl
  | succ n ih =>
    intro s raws used
    unfold addAdvance
    have h1 := addNewRegion_users s regSz regType true raws.head?.join
    generalize addNewRegion s regSz regType true raws.head?.join = p at h1
    obtain ⟨s1, r, u⟩ := p
    simp only [] at h1 ⊢
    split
    · exact (ih _ _ _).trans h1
    · exact h1

theorem askMemFromOS_users (s : St) (bs sm th nl : Nat) (ns : Bool) (raws : List (Option (Nat × Nat))) (hw : WF s) :
    allUsers (askMemFromOS s bs sm th nl ns raws).s.regions = allUsers s.regions := by
  unfold askMemFromOS
  simp only []
  split
  · have h1 := addNewRegion_wf s bs beRegOne false raws.head?.join hw (Or.inr (Or.inr rfl))
    have u1 := addNewRegion_users s bs beRegOne false raws.head?.join
    generalize addNewRegion s bs beRegOne false raws.head?.join = p at h1 u1
    obtain ⟨s1, r, u⟩ := p
    simp only [] at h1 u1 ⊢
    split
    · exact u1
    · have u2 := releaseMemInCaches_users s1 sm th nl h1
      generalize releaseMemInCaches s1 sm th nl = q at u2
      obtain ⟨s2, v, t2⟩ := q
      exact u2.trans u1
  · generalize alignUpN (4 * s.g.maxReq) (1024 * 1024) = regSz
    have h0 := waitTillBlockReleased_wf s sm hw
    have u0 := waitTillBlockReleased_users s sm hw
    generalize waitTillBlockReleased s sm = p0 at h0 u0
    obtain ⟨s0, w⟩ := p0
    simp only [] at h0 u0 ⊢
    split
    · exact u0
    · split
      · exact u0
      · have ht : (if bs < beMaxBinnedSmallPage / 8 then (if ns = true then beRegSlab else beRegLarge) else beRegLarge) = beRegSlab ∨
            (if bs < beMaxBinnedSmallPage / 8 then (if ns = true then beRegSlab else beRegLarge) else beRegLarge) = beRegLarge ∨
            (if bs < beMaxBinnedSmallPage / 8 then (if ns = true then beRegSlab else beRegLarge) else beRegLarge) = beRegOne := by
          split
          · split
            · exact Or.inl rfl
            · exact Or.inr (Or.inl rfl)
          · exact Or.inr (Or.inl rfl)
        generalize (if bs < beMaxBinnedSmallPage / 8 then (if ns = true then beRegSlab else beRegLarge) else beRegLarge) = regType at ht ⊢
        have h1 := addNewRegion_wf s0 regSz regType false raws.head?.join h0 ht
        have u1 := addNewRegion_users s0 regSz regType false raws.head?.join
        generalize addNewRegion s0 regSz regType false raws.head?.join = p at h1 u1
        obtain ⟨s1, r, u⟩ := p
        simp only [] at h1 u1 ⊢
        split
        · split
          · exact (addAdvance_users _ _ _ _ _ _).trans (u1.trans u0)
          · exact u1.trans u0
        · have u2 := releaseMemInCaches_users s1 sm th nl h1
          generalize releaseMemInCaches s1 sm th nl = q at u2
          obtain ⟨s2, v, t2⟩ := q
          exact u2.trans (u1.trans u0)

/-- what `finishGet` returns when it does not return a block: the state it was given, `skip` raised -/
theorem finishGet_fail (s : St) (addr num size : Nat) (na sp : Bool) (used : Nat) :
    (∃ a, (finishGet s addr num size na sp used).2.1 = .block a) ∨
    ((finishGet s addr num size na sp used).2.1 = .null ∧ (finishGet s addr num size na sp used).1 = s.setSkip) := by
  unfold finishGet
  cases hc : locate s addr with
  | none => exact Or.inr ⟨rfl, rfl⟩
  | some c =>
    simp only []
    split
    · exact Or.inr ⟨rfl, rfl⟩
    · exact Or.inl ⟨_, rfl⟩

/-- **the loop of `genericGetBlock` hands nothing out and takes nothing back unless it returns a block** -/
theorem getLoop_users (num size : Nat) (na : Bool) : ∀ (fuel : Nat) (s : St) (th : Nat) (raws : List (Option (Nat × Nat))) (used : Nat),
    WF s → (∀ a, (getLoop num size na fuel s th raws used).2.1 ≠ .block a) →
    allUsers (getLoop num size na fuel s th raws used).1.regions = allUsers s.regions := by
  intro fuel
  induction fuel with
  | zero => intro s th raws used _ _; rfl
  | succ fuel ih =>
    intro s th raws used h hnb
    unfold getLoop at hnb ⊢
    simp only [] at hnb ⊢
    cases hsb : searchBins s (sizeToBin (num * size)).toNat (num * size) na with
    | mk found nl =>
      rw [hsb] at hnb
      cases found with
      | some e =>
        simp only [] at hnb ⊢
        split
        · exact takeFromBin_users s e h
        · rename_i hbad
          rw [if_neg hbad] at hnb
          rcases finishGet_fail (takeFromBin s e) e.addr num size na true used with ⟨a, ha⟩ | ⟨_, hs⟩
          · exact absurd ha (hnb a)
          · rw [hs]
            exact takeFromBin_users s e h
      | none =>
        simp only [] at hnb ⊢
        split
        · rfl
        · rename_i hnl
          rw [if_neg hnl] at hnb
          have h1 := scanCoalescQ_wf s true h
          have u1 := scanCoalescQ_users s true h
          generalize scanCoalescQ s true = p at h1 u1 hnb
          obtain ⟨s1, r1⟩ := p
          simp only [] at h1 u1 hnb ⊢
          split
          · rename_i hr1
            rw [if_pos hr1] at hnb
            exact (ih _ _ _ _ h1 hnb).trans u1
          · rename_i hr1
            rw [if_neg hr1] at hnb
            have h2 := askMemFromOS_wf s1 (num * size) s.g.mods th nl na raws h1
            have u2 := askMemFromOS_users s1 (num * size) s.g.mods th nl na raws h1
            generalize askMemFromOS s1 (num * size) s.g.mods th nl na raws = a at h2 u2 hnb
            cases hb : a.block with
            | some addr =>
              rw [hb] at hnb
              simp only [] at hnb ⊢
              rcases finishGet_fail a.s addr num size na a.splittable (used + a.used) with ⟨x, hx⟩ | ⟨_, hs⟩
              · exact absurd hx (hnb x)
              · rw [hs]
                exact u2.trans u1
            | none =>
              rw [hb] at hnb
              simp only [] at hnb ⊢
              split
              · rename_i hv
                rw [if_pos hv] at hnb
                exact (ih _ _ _ _ h2 hnb).trans (u2.trans u1)
              · exact u2.trans u1

theorem genericGetBlock_users (s : St) (num size : Nat) (na : Bool) (raws : List (Option (Nat × Nat))) (hw : WF s)
    (hnb : ∀ a, (genericGetBlock s num size na raws).2.1 ≠ .block a) :
    allUsers (genericGetBlock s num size na raws).1.regions = allUsers s.regions := by
  unfold genericGetBlock at hnb ⊢
  simp only [] at hnb ⊢
  have hb : WF (if (s.g.boot == 2) = true then (s, 0) else
      (⟨{ (addNewRegion ⟨{ s.g with boot := 1 }, s.regions⟩ beBootstrapRegionSize beRegSlab true raws.head?.join).1.g with boot := 2 },
        (addNewRegion ⟨{ s.g with boot := 1 }, s.regions⟩ beBootstrapRegionSize beRegSlab true raws.head?.join).1.regions⟩,
       (addNewRegion ⟨{ s.g with boot := 1 }, s.regions⟩ beBootstrapRegionSize beRegSlab true raws.head?.join).2.2)).1 ∧
      allUsers (if (s.g.boot == 2) = true then (s, 0) else
      (⟨{ (addNewRegion ⟨{ s.g with boot := 1 }, s.regions⟩ beBootstrapRegionSize beRegSlab true raws.head?.join).1.g with boot := 2 },
        (addNewRegion ⟨{ s.g with boot := 1 }, s.regions⟩ beBootstrapRegionSize beRegSlab true raws.head?.join).1.regions⟩,
       (addNewRegion ⟨{ s.g with boot := 1 }, s.regions⟩ beBootstrapRegionSize beRegSlab true raws.head?.join).2.2)).1.regions = allUsers s.regions := by
    split
    · exact ⟨hw, rfl⟩
    · have h0 : WF ⟨{ s.g with boot := 1 }, s.regions⟩ := wf_congr s.g _ s.regions hw rfl rfl rfl rfl rfl
      have h1 := addNewRegion_wf _ beBootstrapRegionSize beRegSlab true raws.head?.join h0 (Or.inl rfl)
      exact ⟨wf_congr _ _ _ h1 rfl rfl rfl rfl rfl, addNewRegion_users ⟨{ s.g with boot := 1 }, s.regions⟩ _ _ _ _⟩
  generalize (if (s.g.boot == 2) = true then (s, 0) else
      (⟨{ (addNewRegion ⟨{ s.g with boot := 1 }, s.regions⟩ beBootstrapRegionSize beRegSlab true raws.head?.join).1.g with boot := 2 },
        (addNewRegion ⟨{ s.g with boot := 1 }, s.regions⟩ beBootstrapRegionSize beRegSlab true raws.head?.join).1.regions⟩,
       (addNewRegion ⟨{ s.g with boot := 1 }, s.regions⟩ beBootstrapRegionSize beRegSlab true raws.head?.join).2.2)) = p at hb hnb
  obtain ⟨s1, u0⟩ := p
  simp only [] at hb hnb ⊢
  have hw2 : WF (if (decide (num * size > s1.g.maxReq) && decide (num * size < beMaxBinnedSmallPage)) = true
      then (⟨{ s1.g with maxReq := num * size }, s1.regions⟩ : St) else s1) := by
    split
    · exact wf_congr s1.g _ s1.regions hb.1 rfl rfl rfl rfl rfl
    · exact hb.1
  have hu2 : allUsers (if (decide (num * size > s1.g.maxReq) && decide (num * size < beMaxBinnedSmallPage)) = true
      then (⟨{ s1.g with maxReq := num * size }, s1.regions⟩ : St) else s1).regions = allUsers s1.regions := by
    split <;> rfl
  generalize (if (decide (num * size > s1.g.maxReq) && decide (num * size < beMaxBinnedSmallPage)) = true
      then (⟨{ s1.g with maxReq := num * size }, s1.regions⟩ : St) else s1) = s2 at hw2 hu2 hnb
  have h3 := scanCoalescQ_wf s2 false hw2
  have u3 := scanCoalescQ_users s2 false hw2
  exact (getLoop_users num size na _ _ _ _ _ h3 hnb).trans (u3.trans (hu2.trans hb.2))

end TbbVerif.C17.BE
