/-
C18 — `Backend::remap` (the mremap path of scalable_realloc for a large object that is alone in its OS region):
the size of the re-mapped region and its wrap-around tests, over the definitions GENERATED from backend.cpp.
-/
import TbbVerif.Proofs.C18

namespace TbbVerif.C18
open TbbVerif.Cint
open TbbVerif.Generated.C17
open TbbVerif.Generated.C18
open TbbVerif.C17 (alignUpN alignUpN_spec gen_alignUp_mod)

theorem le_binRound (T : Nat) : T ≤ binRound T := by
  unfold binRound; split
  · exact (alignUpN_spec T _ (by simp only [largeCacheStep]; omega)).1
  · exact (alignUpN_spec T _ (Nat.two_pow_pos _)).1

/-- bin rounding of a value below `2^33` stays below `2^34` -/
theorem binRound_lt_of_small (X : Nat) (h : X < 2 ^ 33) : binRound X < 2 ^ 34 := by
  rcases Nat.lt_or_ge X 8388608 with hsm | hbig
  · obtain ⟨_, r2⟩ := binRound_small X hsm; omega
  · obtain ⟨st, s1, s2, r1, r2, _⟩ := binRound_huge X hbig (by omega); omega

/-- a representable bin rounding leaves `2^60` of headroom below `2^64` -/
theorem binRound_headroom (T : Nat) (hT : T < 2 ^ 64) (h : binRound T < 2 ^ 64) : binRound T + 2 ^ 60 ≤ 2 ^ 64 := by
  rcases Nat.lt_or_ge T 8388608 with hsm | hbig
  · obtain ⟨_, r2⟩ := binRound_small T hsm; omega
  · obtain ⟨st, s1, s2, r1, r2, r3, r4, r5, r6⟩ := binRound_huge T hbig hT
    rcases Nat.lt_or_ge T (2 ^ 63) with h63 | h63
    · omega
    · have hd : (2 ^ 64 - binRound T) % st = 0 :=
        Nat.mod_eq_zero_of_dvd (Nat.dvd_sub (Nat.dvd_of_mod_eq_zero r4) (Nat.dvd_of_mod_eq_zero r3))
      have hpos : 0 < 2 ^ 64 - binRound T := by omega
      have : st ≤ 2 ^ 64 - binRound T := Nat.le_of_dvd hpos (Nat.dvd_of_mod_eq_zero hd)
      have := r6 h63
      omega

/-- the wrapped bin rounding of a value whose true rounding reaches `2^64` is small -/
theorem binRound_wrapped_small (T : Nat) (hT : T < 2 ^ 64) (h : 2 ^ 64 ≤ binRound T) :
    binRound T % 2 ^ 64 < 2 ^ 61 ∧ 2 ^ 64 < T + 2 ^ 61 := by
  rcases Nat.lt_or_ge T 8388608 with hsm | hbig
  · obtain ⟨_, r2⟩ := binRound_small T hsm; omega
  · obtain ⟨st, s1, s2, r1, r2, _⟩ := binRound_huge T hbig hT
    have : binRound T % 2 ^ 64 = binRound T - 2 ^ 64 := by omega
    omega

/-- the decision of `Backend::remap`'s size computation for every 64-bit `newSize`, every offset of the object in its
region below `2^32` and every granularity `2^k ≤ 2^32` -/
theorem remap_decision (n u k : Nat) (hn : n < 2 ^ 64) (hu : u < 2 ^ 32) (hk : k ≤ 32) :
    (2 ^ 64 ≤ binRound (n + u) → remapReject n u (2 ^ k) = true) ∧
    (binRound (n + u) < 2 ^ 64 →
      remapReject n u (2 ^ k) = false ∧ remapAlignedSize n u (2 ^ k) = binRound (n + u) ∧
      remapRequestSize n u (2 ^ k) = alignUpN (sizeofMemRegion + binRound (n + u) + sizeofLastFreeBlock) (2 ^ k) ∧
      alignUpN (sizeofMemRegion + binRound (n + u) + sizeofLastFreeBlock) (2 ^ k) < 2 ^ 64) := by
  have hK1 : 1 ≤ 2 ^ k := Nat.two_pow_pos k
  have hK : 2 ^ k ≤ 2 ^ 32 := Nat.pow_le_pow_right (by omega) hk
  have hm : (n + u) % 2 ^ 64 < 2 ^ 64 := Nat.mod_lt _ (by omega)
  have hal : remapAlignedSize n u (2 ^ k) = binRound ((n + u) % 2 ^ 64) % 2 ^ 64 := by
    simp only [remapAlignedSize, locAlignToBin_eq _ hm]
  have hrej : remapReject n u (2 ^ k) =
      (decide (binRound ((n + u) % 2 ^ 64) % 2 ^ 64 < n) ||
       decide (alignUp ((((40 : Nat) + binRound ((n + u) % 2 ^ 64) % 2 ^ 64) % 2 ^ 64 + (64 : Nat)) % 2 ^ 64) (2 ^ k)
          < binRound ((n + u) % 2 ^ 64) % 2 ^ 64)) := by
    simp only [remapReject, locAlignToBin_eq _ hm]
  have hreq : remapRequestSize n u (2 ^ k) =
      alignUp ((((40 : Nat) + binRound ((n + u) % 2 ^ 64) % 2 ^ 64) % 2 ^ 64 + (64 : Nat)) % 2 ^ 64) (2 ^ k) := by
    simp only [remapRequestSize, locAlignToBin_eq _ hm]
  have r0 := le_binRound (n + u)
  generalize hT : n + u = T at *
  rcases Nat.lt_or_ge T (2 ^ 64) with hlt | hge
  · have hS : T % 2 ^ 64 = T := Nat.mod_eq_of_lt hlt
    rw [hS] at hrej hal hreq
    constructor
    · intro h
      obtain ⟨w1, w2⟩ := binRound_wrapped_small T hlt h
      rw [hrej]
      have : decide (binRound T % 2 ^ 64 < n) = true := decide_eq_true (by omega)
      rw [this, Bool.true_or]
    · intro h
      have e : binRound T % 2 ^ 64 = binRound T := Nat.mod_eq_of_lt h
      have hh := binRound_headroom T hlt h
      rw [e] at hrej hal hreq
      have e2 : ((40 + binRound T) % 2 ^ 64 + 64) % 2 ^ 64 = 40 + binRound T + 64 := by omega
      rw [e2] at hrej hreq
      obtain ⟨u1, u2, _⟩ := alignUpN_spec (40 + binRound T + 64) (2 ^ k) (by omega)
      have e3 : alignUp (40 + binRound T + 64) (2 ^ k) = alignUpN (40 + binRound T + 64) (2 ^ k) := by
        rw [gen_alignUp_mod _ k (by omega) (by omega)]
        exact Nat.mod_eq_of_lt (by omega)
      rw [e3] at hrej hreq
      have hs : sizeofMemRegion + binRound T + sizeofLastFreeBlock = 40 + binRound T + 64 := by
        simp only [sizeofMemRegion, sizeofLastFreeBlock]
      rw [hs]
      refine ⟨?_, hal, hreq, by omega⟩
      rw [hrej]
      have d1 : decide (binRound T < n) = false := decide_eq_false (by omega)
      have d2 : decide (alignUpN (40 + binRound T + 64) (2 ^ k) < binRound T) = false := decide_eq_false (by omega)
      rw [d1, d2]; rfl
  · have hS : T % 2 ^ 64 = T - 2 ^ 64 := by omega
    rw [hS] at hrej
    constructor
    · intro _
      have hb := binRound_lt_of_small (T - 2 ^ 64) (by omega)
      have hle := Nat.mod_le (binRound (T - 2 ^ 64)) (2 ^ 64)
      rw [hrej]
      have : decide (binRound (T - 2 ^ 64) % 2 ^ 64 < n) = true := decide_eq_true (by omega)
      rw [this, Bool.true_or]
    · intro h; omega

end TbbVerif.C18
