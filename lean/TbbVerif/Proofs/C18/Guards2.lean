/-
C18 — entry-point guards, second part (pool API, realloc, the C++ allocator layer): lemmas over the definitions generated
from the current source text (`Generated/C18.lean`).
-/
import TbbVerif.Proofs.C18

namespace TbbVerif.C18
open TbbVerif.Cint
open TbbVerif.Generated.C18

theorem size_max_val : wrapU 64 (wrapS 32 ((0 : Int) - (1 : Int))) = 2 ^ 64 - 1 := by decide

/-- `n > SIZE_MAX / s` exactly when the true product does not fit -/
theorem gt_div_iff (n s : Nat) (hs : 0 < s) : (n > (2 ^ 64 - 1) / s) ↔ 2 ^ 64 ≤ n * s := by
  constructor
  · intro h
    have := (Nat.div_lt_iff_lt_mul hs).mp h
    omega
  · intro h
    exact (Nat.div_lt_iff_lt_mul hs).mpr (by omega)

theorem alloc_guard (n s : Nat) (hs : 0 < s) :
    (decide (n > (wrapU 64 (wrapS 32 ((0 : Int) - (1 : Int)))) / s) = true ↔ 2 ^ 64 ≤ n * s) := by
  rw [size_max_val, decide_eq_true_eq]
  exact gt_div_iff n s hs

end TbbVerif.C18
