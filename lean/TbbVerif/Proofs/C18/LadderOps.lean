/-
C18 ladder — frame facts, continued: the composite rungs (`tryReleaseRegions`, `clean`, `waitTillBlockReleased`,
`releaseMemInCaches`, `addNewRegion`, advance regions, `askMemFromOS`, the loop, `genericGetBlock`, `genericPutBlock`, `reset`)
and every operation of the sequential machine.  `Grown s s' raws`: the static words are kept and every registered span of `s'`
was registered in `s` or is memory the oracle granted in `raws`.
-/
import TbbVerif.Proofs.C18.LadderFrame

namespace TbbVerif.C17.BE
open TbbVerif.Generated.C17Backend
open TbbVerif.C18.Ladder

theorem head_grant (raws : List Ans) (ag : Nat × Nat) (h : raws.head?.join = some ag) : ag ∈ grants raws := by
  cases raws with
  | nil => simp at h
  | cons x xs =>
    simp only [List.head?_cons, Option.join_some] at h
    subst h
    simp [grants]

theorem grants_drop (raws : List Ans) (u : Nat) : grants (raws.drop u) ⊆ grants raws :=
  ((List.drop_sublist u raws).filterMap id).subset

/-- no region invented: regSpans of `s'` come from `s` or from the oracle's grants -/
def SpansFrom (s s' : St) (raws : List Ans) : Prop := ∀ x ∈ regSpans s'.regions, x ∈ regSpans s.regions ∨ x ∈ grants raws

theorem SpansFrom.of_subset {s s' : St} (raws : List Ans) (h : regSpans s'.regions ⊆ regSpans s.regions) : SpansFrom s s' raws :=
  fun x hx => Or.inl (h hx)

theorem SpansFrom.trans {a b c : St} {raws : List Ans} (h1 : SpansFrom a b raws) (h2 : SpansFrom b c raws) : SpansFrom a c raws := by
  intro x hx
  rcases h2 x hx with h | h
  · exact h1 x h
  · exact Or.inr h

theorem SpansFrom.mono {a b : St} {r1 r2 : List Ans} (h : SpansFrom a b r1) (hs : grants r1 ⊆ grants r2) : SpansFrom a b r2 := by
  intro x hx
  rcases h x hx with h | h
  · exact Or.inl h
  · exact Or.inr (hs h)

theorem tryRelease_fold_frame (cands : List Entry) : ∀ (s : St),
    SameStatic s.g (cands.foldl (fun (s : St) e =>
      let m := s.g.mask
      let s := takeFromBin s e
      ⟨{ s.g with mask := m }, s.regions⟩) s).g ∧
    regSpans (cands.foldl (fun (s : St) e =>
      let m := s.g.mask
      let s := takeFromBin s e
      ⟨{ s.g with mask := m }, s.regions⟩) s).regions = regSpans s.regions := by
  induction cands with
  | nil => intro s; exact ⟨SameStatic.rfl' _, rfl⟩
  | cons e rest ih =>
    intro s
    simp only [List.foldl_cons]
    obtain ⟨t1, t2⟩ := takeFromBin_frame s e
    obtain ⟨i1, i2⟩ := ih ⟨{ (takeFromBin s e).g with mask := s.g.mask }, (takeFromBin s e).regions⟩
    exact ⟨⟨i1.cfg.trans t1.cfg, i1.maxReq.trans t1.maxReq, i1.boot.trans t1.boot, i1.binLocked.trans t1.binLocked, i1.delay.trans t1.delay⟩, i2.trans t2⟩

theorem tryReleaseRegions_frame (s : St) (al : Bool) (bin : Nat) :
    SameStatic s.g (tryReleaseRegions s al bin).1.g ∧ regSpans (tryReleaseRegions s al bin).1.regions ⊆ regSpans s.regions := by
  unfold tryReleaseRegions
  try simp only []
  obtain ⟨i1, i2⟩ := tryRelease_fold_frame (s.g.bins.filter (fun e => e.al == al && e.bin == bin)) s
  obtain ⟨c1, c2⟩ := coalescAndPutList_frame
    ((s.g.bins.filter (fun e => e.al == al && e.bin == bin)).foldl (fun (s : St) e =>
      let m := s.g.mask
      let s := takeFromBin s e
      ⟨{ s.g with mask := m }, s.regions⟩) s)
    ((s.g.bins.filter (fun e => e.al == al && e.bin == bin)).map (·.addr)).reverse true false
  exact ⟨i1.trans c1, fun x hx => by rw [← i2]; exact c2 hx⟩

theorem clean_fold_frame (l : List Nat) : ∀ (s : St) (b : Bool),
    SameStatic s.g (l.foldl (fun (acc : St × Bool) i =>
      let (s, res) := acc
      let (s, r1) := if s.g.mask.contains (true, i) then tryReleaseRegions s true i else (s, false)
      let (s, r2) := if s.g.mask.contains (false, i) then tryReleaseRegions s false i else (s, false)
      (s, res || r1 || r2)) (s, b)).1.g ∧
    regSpans (l.foldl (fun (acc : St × Bool) i =>
      let (s, res) := acc
      let (s, r1) := if s.g.mask.contains (true, i) then tryReleaseRegions s true i else (s, false)
      let (s, r2) := if s.g.mask.contains (false, i) then tryReleaseRegions s false i else (s, false)
      (s, res || r1 || r2)) (s, b)).1.regions ⊆ regSpans s.regions := by
  induction l with
  | nil => intro s b; exact ⟨SameStatic.rfl' _, fun x hx => hx⟩
  | cons i rest ih =>
    intro s b
    simp only [List.foldl_cons]
    have h1 : SameStatic s.g (if s.g.mask.contains (true, i) then tryReleaseRegions s true i else (s, false)).1.g ∧
        regSpans (if s.g.mask.contains (true, i) then tryReleaseRegions s true i else (s, false)).1.regions ⊆ regSpans s.regions := by
      split
      · exact tryReleaseRegions_frame s true i
      · exact ⟨SameStatic.rfl' _, fun x hx => hx⟩
    generalize (if s.g.mask.contains (true, i) then tryReleaseRegions s true i else (s, false)) = p1 at h1
    obtain ⟨s1, r1⟩ := p1
    simp only [] at h1 ⊢
    have h2 : SameStatic s1.g (if s1.g.mask.contains (false, i) then tryReleaseRegions s1 false i else (s1, false)).1.g ∧
        regSpans (if s1.g.mask.contains (false, i) then tryReleaseRegions s1 false i else (s1, false)).1.regions ⊆ regSpans s1.regions := by
      split
      · exact tryReleaseRegions_frame s1 false i
      · exact ⟨SameStatic.rfl' _, fun x hx => hx⟩
    generalize (if s1.g.mask.contains (false, i) then tryReleaseRegions s1 false i else (s1, false)) = p2 at h2
    obtain ⟨s2, r2⟩ := p2
    simp only [] at h2 ⊢
    obtain ⟨i1, i2⟩ := ih s2 (b || r1 || r2)
    exact ⟨(h1.1.trans h2.1).trans i1, fun x hx => h1.2 (h2.2 (i2 hx))⟩

theorem clean_frame (s : St) : SameStatic s.g (clean s).1.g ∧ regSpans (clean s).1.regions ⊆ regSpans s.regions := by
  unfold clean
  try simp only []
  obtain ⟨s1, s2⟩ := scanCoalescQ_frame s false
  generalize (List.range beFreeBinsNum).filter (fun i => (scanCoalescQ s false).1.g.adv.contains i) = l
  obtain ⟨c1, c2⟩ := clean_fold_frame l (scanCoalescQ s false).1 false
  exact ⟨s1.trans c1, fun x hx => s2 (c2 hx)⟩

theorem waitTillBlockReleased_frame (s : St) (m : Nat) :
    SameStatic s.g (waitTillBlockReleased s m).1.g ∧ regSpans (waitTillBlockReleased s m).1.regions ⊆ regSpans s.regions := by
  unfold waitTillBlockReleased
  split
  · exact ⟨SameStatic.rfl' _, fun x hx => hx⟩
  · exact scanCoalescQ_frame s false

theorem releaseMemInCaches_frame (s : St) (m t n : Nat) :
    SameStatic s.g (releaseMemInCaches s m t n).1.g ∧ regSpans (releaseMemInCaches s m t n).1.regions ⊆ regSpans s.regions := by
  unfold releaseMemInCaches
  have h1 := clean_frame s
  generalize clean s = p at h1
  obtain ⟨s1, c⟩ := p
  simp only [] at h1 ⊢
  split
  · exact h1
  · have h2 := waitTillBlockReleased_frame s1 m
    generalize waitTillBlockReleased s1 m = q at h2
    obtain ⟨s2, w⟩ := q
    simp only [] at h2 ⊢
    have h3 : SameStatic s.g s2.g ∧ regSpans s2.regions ⊆ regSpans s.regions := ⟨h1.1.trans h2.1, fun x hx => h1.2 (h2.2 hx)⟩
    split
    · exact h3
    · split <;> exact h3

theorem addNewRegion_ss (s : St) (size type : Nat) (addToBin : Bool) (raw : Option (Nat × Nat)) :
    SameStatic s.g (addNewRegion s size type addToBin raw).1.g := by
  unfold addNewRegion
  split
  · exact SameStatic.rfl' _
  · cases raw with
    | none => exact ⟨rfl, rfl, rfl, rfl, rfl⟩
    | some ag =>
      obtain ⟨a, g⟩ := ag
      try simp only []
      split
      · exact ⟨rfl, rfl, rfl, rfl, rfl⟩
      · cases hf : findBlockInRegion a g type size with
        | none => exact ⟨rfl, rfl, rfl, rfl, rfl⟩
        | some fbs =>
          obtain ⟨fb, bs⟩ := fbs
          try simp only []
          split <;> exact ⟨rfl, rfl, rfl, rfl, rfl⟩

theorem addNewRegion_regions' (s : St) (size type : Nat) (addToBin : Bool) (raw : Option (Nat × Nat)) :
    (addNewRegion s size type addToBin raw).1.regions = s.regions ∨
    ∃ a g fb bs, raw = some (a, g) ∧ (addNewRegion s size type addToBin raw).1.regions =
      { base := a, allocSz := g, blockSz := bs, type := type, first := fb, blocks := freshBlocks bs type addToBin } :: s.regions := by
  unfold addNewRegion
  split
  · exact Or.inl rfl
  · cases raw with
    | none => exact Or.inl rfl
    | some ag =>
      obtain ⟨a, g⟩ := ag
      try simp only []
      split
      · exact Or.inl rfl
      · cases hf : findBlockInRegion a g type size with
        | none => exact Or.inl rfl
        | some fbs =>
          obtain ⟨fb, bs⟩ := fbs
          try simp only []
          right
          refine ⟨a, g, fb, bs, rfl, ?_⟩
          split <;> rfl

theorem addNewRegion_spans (s : St) (size type : Nat) (addToBin : Bool) (raws : List Ans) :
    SpansFrom s (addNewRegion s size type addToBin raws.head?.join).1 raws := by
  intro x hx
  rcases addNewRegion_regions' s size type addToBin raws.head?.join with h | ⟨a, g, fb, bs, hr, h⟩
  · rw [h] at hx; exact Or.inl hx
  · rw [h] at hx
    rcases List.mem_cons.mp hx with rfl | hx
    · exact Or.inr (head_grant raws (a, g) hr)
    · exact Or.inl hx

theorem addAdvance_frame (regSz regType : Nat) : ∀ (n : Nat) (s : St) (raws : List Ans) (used : Nat),
    SameStatic s.g (addAdvance s regSz regType n raws used).1.g ∧ SpansFrom s (addAdvance s regSz regType n raws used).1 raws := by
  intro n
  induction n with
  | zero => intro s raws used; exact ⟨SameStatic.rfl' _, fun x hx => Or.inl hx⟩
  | succ n ih =>
    intro s raws used
    unfold addAdvance
    have h1 := addNewRegion_ss s regSz regType true raws.head?.join
    have h2 := addNewRegion_spans s regSz regType true raws
    generalize addNewRegion s regSz regType true raws.head?.join = p at h1 h2
    obtain ⟨s1, r, u⟩ := p
    simp only [] at h1 h2 ⊢
    split
    · obtain ⟨i1, i2⟩ := ih s1 (raws.drop u) (used + u)
      exact ⟨h1.trans i1, h2.trans (i2.mono (grants_drop raws u))⟩
    · exact ⟨h1, h2⟩

theorem askMemFromOS_frame (s : St) (bs sm th nl : Nat) (ns : Bool) (raws : List Ans) :
    SameStatic s.g (askMemFromOS s bs sm th nl ns raws).s.g ∧ SpansFrom s (askMemFromOS s bs sm th nl ns raws).s raws := by
  unfold askMemFromOS
  try simp only []
  split
  · have h1 := addNewRegion_ss s bs beRegOne false raws.head?.join
    have h2 := addNewRegion_spans s bs beRegOne false raws
    generalize addNewRegion s bs beRegOne false raws.head?.join = p at h1 h2
    obtain ⟨s1, r, u⟩ := p
    simp only [] at h1 h2 ⊢
    split
    · exact ⟨h1, h2⟩
    · have h3 := releaseMemInCaches_frame s1 sm th nl
      generalize releaseMemInCaches s1 sm th nl = q at h3
      obtain ⟨s2, v, t2⟩ := q
      exact ⟨h1.trans h3.1, h2.trans (SpansFrom.of_subset raws h3.2)⟩
  · generalize alignUpN (4 * s.g.maxReq) (1024 * 1024) = regSz
    have h0 := waitTillBlockReleased_frame s sm
    generalize waitTillBlockReleased s sm = p0 at h0
    obtain ⟨s0, w⟩ := p0
    simp only [] at h0 ⊢
    have h0' : SpansFrom s s0 raws := SpansFrom.of_subset raws h0.2
    split
    · exact ⟨h0.1, h0'⟩
    · split
      · exact ⟨h0.1, h0'⟩
      · generalize (if bs < beMaxBinnedSmallPage / 8 then (if ns = true then beRegSlab else beRegLarge) else beRegLarge) = regType
        have h1 := addNewRegion_ss s0 regSz regType false raws.head?.join
        have h2 := addNewRegion_spans s0 regSz regType false raws
        generalize addNewRegion s0 regSz regType false raws.head?.join = p at h1 h2
        obtain ⟨s1, r, u⟩ := p
        simp only [] at h1 h2 ⊢
        split
        · split
          · obtain ⟨a1, a2⟩ := addAdvance_frame regSz regType 3 s1 (raws.drop u) u
            exact ⟨(h0.1.trans h1).trans a1, (h0'.trans h2).trans (a2.mono (grants_drop raws u))⟩
          · exact ⟨h0.1.trans h1, h0'.trans h2⟩
        · have h3 := releaseMemInCaches_frame s1 sm th nl
          generalize releaseMemInCaches s1 sm th nl = q at h3
          obtain ⟨s2, v, t2⟩ := q
          exact ⟨(h0.1.trans h1).trans h3.1, (h0'.trans h2).trans (SpansFrom.of_subset raws h3.2)⟩

theorem getLoop_frame (num size : Nat) (na : Bool) : ∀ (fuel : Nat) (s : St) (th : Nat) (raws : List Ans) (used : Nat),
    SameStatic s.g (getLoop num size na fuel s th raws used).1.g ∧ SpansFrom s (getLoop num size na fuel s th raws used).1 raws := by
  intro fuel
  induction fuel with
  | zero => intro s th raws used; exact ⟨SameStatic.rfl' _, fun x hx => Or.inl hx⟩
  | succ fuel ih =>
    intro s th raws used
    unfold getLoop
    try simp only []
    cases hsb : searchBins s (sizeToBin (num * size)).toNat (num * size) na with
    | mk found nl =>
      cases found with
      | some e =>
        try simp only []
        obtain ⟨t1, t2⟩ := takeFromBin_frame s e
        split
        · exact ⟨t1, SpansFrom.of_subset raws (by rw [t2]; exact fun x hx => hx)⟩
        · obtain ⟨f1, f2⟩ := finishGet_frame (takeFromBin s e) e.addr num size na true used
          exact ⟨t1.trans f1, SpansFrom.of_subset raws (fun x hx => by rw [← t2]; exact f2 hx)⟩
      | none =>
        try simp only []
        split
        · exact ⟨SameStatic.rfl' _, fun x hx => Or.inl hx⟩
        · have h1 := scanCoalescQ_frame s true
          generalize scanCoalescQ s true = p at h1
          obtain ⟨s1, r1⟩ := p
          simp only [] at h1 ⊢
          have h1' : SpansFrom s s1 raws := SpansFrom.of_subset raws h1.2
          split
          · obtain ⟨i1, i2⟩ := ih s1 th raws used
            exact ⟨h1.1.trans i1, h1'.trans i2⟩
          · have h2 := askMemFromOS_frame s1 (num * size) s.g.mods th nl na raws
            generalize askMemFromOS s1 (num * size) s.g.mods th nl na raws = a at h2
            cases hb : a.block with
            | some addr =>
              try simp only []
              obtain ⟨f1, f2⟩ := finishGet_frame a.s addr num size na a.splittable (used + a.used)
              exact ⟨(h1.1.trans h2.1).trans f1, (h1'.trans h2.2).trans (SpansFrom.of_subset raws f2)⟩
            | none =>
              try simp only []
              split
              · obtain ⟨i1, i2⟩ := ih a.s a.threshold (raws.drop a.used) (used + a.used)
                exact ⟨(h1.1.trans h2.1).trans i1, (h1'.trans h2.2).trans (i2.mono (grants_drop raws a.used))⟩
              · exact ⟨h1.1.trans h2.1, h1'.trans h2.2⟩

/-- `genericGetBlock`: the pool configuration, bin locks and `delayRegsReleasing` are kept, `bootsrapMemStatus` is DONE
afterwards, no region is invented -/
theorem genericGetBlock_frame (s : St) (num size : Nat) (na : Bool) (raws : List Ans) :
    (genericGetBlock s num size na raws).1.g.cfg = s.g.cfg ∧ (genericGetBlock s num size na raws).1.g.boot = 2 ∧
    (genericGetBlock s num size na raws).1.g.binLocked = s.g.binLocked ∧ (genericGetBlock s num size na raws).1.g.delay = s.g.delay ∧
    SpansFrom s (genericGetBlock s num size na raws).1 raws := by
  unfold genericGetBlock
  try simp only []
  have hb : ((if (s.g.boot == 2) = true then (s, 0) else
      (⟨{ (addNewRegion ⟨{ s.g with boot := 1 }, s.regions⟩ beBootstrapRegionSize beRegSlab true raws.head?.join).1.g with boot := 2 },
        (addNewRegion ⟨{ s.g with boot := 1 }, s.regions⟩ beBootstrapRegionSize beRegSlab true raws.head?.join).1.regions⟩,
       (addNewRegion ⟨{ s.g with boot := 1 }, s.regions⟩ beBootstrapRegionSize beRegSlab true raws.head?.join).2.2)).1.g.cfg = s.g.cfg ∧
      (if (s.g.boot == 2) = true then (s, 0) else
      (⟨{ (addNewRegion ⟨{ s.g with boot := 1 }, s.regions⟩ beBootstrapRegionSize beRegSlab true raws.head?.join).1.g with boot := 2 },
        (addNewRegion ⟨{ s.g with boot := 1 }, s.regions⟩ beBootstrapRegionSize beRegSlab true raws.head?.join).1.regions⟩,
       (addNewRegion ⟨{ s.g with boot := 1 }, s.regions⟩ beBootstrapRegionSize beRegSlab true raws.head?.join).2.2)).1.g.boot = 2 ∧
      (if (s.g.boot == 2) = true then (s, 0) else
      (⟨{ (addNewRegion ⟨{ s.g with boot := 1 }, s.regions⟩ beBootstrapRegionSize beRegSlab true raws.head?.join).1.g with boot := 2 },
        (addNewRegion ⟨{ s.g with boot := 1 }, s.regions⟩ beBootstrapRegionSize beRegSlab true raws.head?.join).1.regions⟩,
       (addNewRegion ⟨{ s.g with boot := 1 }, s.regions⟩ beBootstrapRegionSize beRegSlab true raws.head?.join).2.2)).1.g.binLocked = s.g.binLocked ∧
      (if (s.g.boot == 2) = true then (s, 0) else
      (⟨{ (addNewRegion ⟨{ s.g with boot := 1 }, s.regions⟩ beBootstrapRegionSize beRegSlab true raws.head?.join).1.g with boot := 2 },
        (addNewRegion ⟨{ s.g with boot := 1 }, s.regions⟩ beBootstrapRegionSize beRegSlab true raws.head?.join).1.regions⟩,
       (addNewRegion ⟨{ s.g with boot := 1 }, s.regions⟩ beBootstrapRegionSize beRegSlab true raws.head?.join).2.2)).1.g.delay = s.g.delay) ∧
      SpansFrom s (if (s.g.boot == 2) = true then (s, 0) else
      (⟨{ (addNewRegion ⟨{ s.g with boot := 1 }, s.regions⟩ beBootstrapRegionSize beRegSlab true raws.head?.join).1.g with boot := 2 },
        (addNewRegion ⟨{ s.g with boot := 1 }, s.regions⟩ beBootstrapRegionSize beRegSlab true raws.head?.join).1.regions⟩,
       (addNewRegion ⟨{ s.g with boot := 1 }, s.regions⟩ beBootstrapRegionSize beRegSlab true raws.head?.join).2.2)).1 raws := by
    split
    · rename_i hb2
      exact ⟨⟨rfl, by simpa using hb2, rfl, rfl⟩, fun x hx => Or.inl hx⟩
    · have a1 := addNewRegion_ss ⟨{ s.g with boot := 1 }, s.regions⟩ beBootstrapRegionSize beRegSlab true raws.head?.join
      have a2 := addNewRegion_spans ⟨{ s.g with boot := 1 }, s.regions⟩ beBootstrapRegionSize beRegSlab true raws
      exact ⟨⟨a1.cfg, rfl, a1.binLocked, a1.delay⟩, a2⟩
  generalize (if (s.g.boot == 2) = true then (s, 0) else
      (⟨{ (addNewRegion ⟨{ s.g with boot := 1 }, s.regions⟩ beBootstrapRegionSize beRegSlab true raws.head?.join).1.g with boot := 2 },
        (addNewRegion ⟨{ s.g with boot := 1 }, s.regions⟩ beBootstrapRegionSize beRegSlab true raws.head?.join).1.regions⟩,
       (addNewRegion ⟨{ s.g with boot := 1 }, s.regions⟩ beBootstrapRegionSize beRegSlab true raws.head?.join).2.2)) = p at hb
  obtain ⟨s1, u0⟩ := p
  simp only [] at hb ⊢
  obtain ⟨⟨b1, b2, b3, b4⟩, b5⟩ := hb
  have hs2 : ((if (decide (num * size > s1.g.maxReq) && decide (num * size < beMaxBinnedSmallPage)) = true
      then (⟨{ s1.g with maxReq := num * size }, s1.regions⟩ : St) else s1).g.cfg = s1.g.cfg ∧
      (if (decide (num * size > s1.g.maxReq) && decide (num * size < beMaxBinnedSmallPage)) = true
      then (⟨{ s1.g with maxReq := num * size }, s1.regions⟩ : St) else s1).g.boot = s1.g.boot ∧
      (if (decide (num * size > s1.g.maxReq) && decide (num * size < beMaxBinnedSmallPage)) = true
      then (⟨{ s1.g with maxReq := num * size }, s1.regions⟩ : St) else s1).g.binLocked = s1.g.binLocked ∧
      (if (decide (num * size > s1.g.maxReq) && decide (num * size < beMaxBinnedSmallPage)) = true
      then (⟨{ s1.g with maxReq := num * size }, s1.regions⟩ : St) else s1).g.delay = s1.g.delay) ∧
      (if (decide (num * size > s1.g.maxReq) && decide (num * size < beMaxBinnedSmallPage)) = true
      then (⟨{ s1.g with maxReq := num * size }, s1.regions⟩ : St) else s1).regions = s1.regions := by
    split <;> exact ⟨⟨rfl, rfl, rfl, rfl⟩, rfl⟩
  generalize (if (decide (num * size > s1.g.maxReq) && decide (num * size < beMaxBinnedSmallPage)) = true
      then (⟨{ s1.g with maxReq := num * size }, s1.regions⟩ : St) else s1) = s2 at hs2
  obtain ⟨⟨c1, c2, c3, c4⟩, c5⟩ := hs2
  obtain ⟨q1, q2⟩ := scanCoalescQ_frame s2 false
  generalize (if (s1.g.cfg.fixedPool || decide (size ≥ beMaxBinnedSmallPage)) = true then 0 else 2) = th0
  obtain ⟨l1, l2⟩ := getLoop_frame num size na 12 (scanCoalescQ s2 false).1 th0 (raws.drop u0) u0
  have hspan : SpansFrom s (getLoop num size na 12 (scanCoalescQ s2 false).1 th0 (raws.drop u0) u0).1 raws := by
    intro x hx
    rcases l2 x hx with h | h
    · have h' := q2 h
      rw [c5] at h'
      exact b5 x h'
    · exact Or.inr (grants_drop raws u0 h)
  have e1 := (q1.trans l1)
  refine ⟨?_, ?_, ?_, ?_, hspan⟩
  · have := e1.cfg; rw [c1, b1] at this; exact this
  · have := e1.boot; rw [c2, b2] at this; exact this
  · have := e1.binLocked; rw [c3, b3] at this; exact this
  · have := e1.delay; rw [c4, b4] at this; exact this

end TbbVerif.C17.BE
