/-
C18 ladder — `genericGetBlock` as a whole: with a granting oracle it does not return null (`genericGetBlock_generous`), in a
quiescent back end it returns a block (`genericGetBlock_quiet`), and when it does return null nothing is left pending in the
delayed-coalescing queue (`genericGetBlock_null_queue`).
-/
import TbbVerif.Proofs.C18.LadderRecover

namespace TbbVerif.C17.BE
open TbbVerif.Generated.C17Backend
open TbbVerif.C18.Ladder

theorem addNewRegion_used (s : St) (size type : Nat) (atb : Bool) (raw : Option (Nat × Nat)) (hfix : s.g.cfg.fixedPool = false) :
    (addNewRegion s size type atb raw).2.2 = 1 := by
  unfold addNewRegion
  have c1 : (s.g.cfg.fixedPool && s.g.boot == 2) = false := by rw [hfix]; rfl
  rw [c1]
  simp only [Bool.false_eq_true, if_false]
  cases raw with
  | none => rfl
  | some ag =>
    obtain ⟨a, g⟩ := ag
    try simp only []
    split
    · rfl
    · cases hf : findBlockInRegion a g type size with
      | none => rfl
      | some fbs =>
        obtain ⟨fb, bs⟩ := fbs
        try simp only []
        split <;> rfl

/-- the state `genericGetBlock` enters its loop with -/
theorem prelude_gen (s : St) (num size : Nat) (raws : List Ans) (hw : WF s) (hfix : s.g.cfg.fixedPool = false)
    (hlo : 8192 ≤ num * size) (hhi : num * size < 2 ^ 40) (hmr : s.g.maxReq < beMaxBinnedSmallPage)
    (occ : List (Nat × Nat)) (hocc : regSpans s.regions ⊆ occ) (hgen : generous (maxRawRequest s.g.cfg.granularity) occ raws)
    (hlen : 2 ≤ raws.length) :
    ∀ p : St × Nat, p = (if (s.g.boot == 2) = true then (s, 0) else
      ((⟨{ (addNewRegion ⟨{ s.g with boot := 1 }, s.regions⟩ beBootstrapRegionSize beRegSlab true raws.head?.join).1.g with boot := 2 },
        (addNewRegion ⟨{ s.g with boot := 1 }, s.regions⟩ beBootstrapRegionSize beRegSlab true raws.head?.join).1.regions⟩ : St),
       (addNewRegion ⟨{ s.g with boot := 1 }, s.regions⟩ beBootstrapRegionSize beRegSlab true raws.head?.join).2.2)) →
    ∀ s2 : St, s2 = (if (decide (num * size > p.1.g.maxReq) && decide (num * size < beMaxBinnedSmallPage)) = true
      then ⟨{ p.1.g with maxReq := num * size }, p.1.regions⟩ else p.1) →
    Gen s2 (num * size) (raws.drop p.2) ∧ s2.g.binLocked = s.g.binLocked ∧ (s.g.queue = [] → s2.g.queue = []) := by
  intro p hpdef s2 hs2def
  have hp : WF p.1 ∧ p.1.g.cfg = s.g.cfg ∧ p.1.g.maxReq = s.g.maxReq ∧ p.1.g.binLocked = s.g.binLocked ∧ (s.g.queue = [] → p.1.g.queue = []) ∧
      (∃ occ', regSpans p.1.regions ⊆ occ' ∧ generous (maxRawRequest s.g.cfg.granularity) occ' (raws.drop p.2)) ∧ raws.drop p.2 ≠ [] := by
    subst hpdef
    split
    · refine ⟨hw, rfl, rfl, rfl, fun h => h, ⟨occ, hocc, hgen⟩, ?_⟩
      intro h
      have : (List.drop 0 raws).length = 0 := by rw [h]; rfl
      simp only [List.drop_zero] at this
      omega
    · have h0 : WF ⟨{ s.g with boot := 1 }, s.regions⟩ := wf_congr s.g _ s.regions hw rfl rfl rfl rfl rfl
      have h1 := addNewRegion_wf _ beBootstrapRegionSize beRegSlab true raws.head?.join h0 (Or.inl rfl)
      have a1 := addNewRegion_ss ⟨{ s.g with boot := 1 }, s.regions⟩ beBootstrapRegionSize beRegSlab true raws.head?.join
      have hu := addNewRegion_used ⟨{ s.g with boot := 1 }, s.regions⟩ beBootstrapRegionSize beRegSlab true raws.head?.join hfix
      have hrg := addNewRegion_regions' ⟨{ s.g with boot := 1 }, s.regions⟩ beBootstrapRegionSize beRegSlab true raws.head?.join
      cases hr : raws with
      | nil => rw [hr] at hlen; simp at hlen
      | cons x rest =>
        rw [hr] at hgen hlen
        cases x with
        | none => exact absurd hgen (by unfold generous; exact fun h => h)
        | some ag =>
          obtain ⟨a, g⟩ := ag
          unfold generous at hgen
          obtain ⟨g1, g2, g3, g4, g5⟩ := hgen
          rw [hr] at h1 a1 hu hrg
          have hraw : (some (a, g) :: rest).head?.join = some (a, g) := rfl
          rw [hraw] at h1 a1 hu hrg ⊢
          have hq : (addNewRegion ⟨{ s.g with boot := 1 }, s.regions⟩ beBootstrapRegionSize beRegSlab true (some (a, g))).1.g.queue = s.g.queue := by
            have hreq := rawRequest_le (⟨{ s.g with boot := 1 }, s.regions⟩ : St).g beBootstrapRegionSize beRegSlab
            have hg3 : 2 ^ 41 + s.g.cfg.granularity ≤ g := g3
            obtain ⟨fb, bsz, hf⟩ := findBlock_slab a g beBootstrapRegionSize g1 (by omega)
            have hov := no_overlap_of_disj s.regions occ a g hocc g4
            have hgr : (⟨{ s.g with boot := 1 }, s.regions⟩ : St).g.cfg.granularity = s.g.cfg.granularity := rfl
            simp only [beBootstrapRegionSize] at hreq
            exact (addNewRegion_succeeds ⟨{ s.g with boot := 1 }, s.regions⟩ beBootstrapRegionSize beRegSlab a g true hfix g1 g2 hov
              (by simp only [beBootstrapRegionSize]; omega) (by omega) fb bsz hf).2.2.2
          refine ⟨wf_congr _ _ _ h1 rfl rfl rfl rfl rfl, a1.cfg, a1.maxReq, a1.binLocked, fun h => by rw [← h]; exact hq, ?_, ?_⟩
          · refine ⟨(a, g) :: occ, ?_, ?_⟩
            · intro x hx
              rcases hrg with h | ⟨a', g', fb, bs, hr', h⟩
              · rw [show (St.mk _ _).regions = _ from h] at hx
                exact List.mem_cons_of_mem _ (hocc hx)
              · rw [show (St.mk _ _).regions = _ from h] at hx
                cases hr'
                rcases List.mem_cons.mp hx with rfl | hx
                · exact List.mem_cons_self ..
                · exact List.mem_cons_of_mem _ (hocc hx)
            · show generous _ _ (List.drop (addNewRegion _ _ _ _ _).2.2 (some (a, g) :: rest))
              rw [hu]
              exact g5
          · show List.drop (addNewRegion _ _ _ _ _).2.2 (some (a, g) :: rest) ≠ []
            rw [hu]
            intro h
            simp only [List.drop_succ_cons, List.drop_zero] at h
            rw [h] at hlen
            simp at hlen
  obtain ⟨p1, p2, p3, p4, p5, ⟨occ', o1, o2⟩, p7⟩ := hp
  have hs2 : s2.regions = p.1.regions ∧ s2.g.cfg = p.1.g.cfg ∧ s2.g.binLocked = p.1.g.binLocked ∧ s2.g.queue = p.1.g.queue ∧
      (num * size < beMaxBinnedSmallPage → num * size ≤ s2.g.maxReq) ∧ s2.g.maxReq < beMaxBinnedSmallPage ∧ WF s2 := by
    subst hs2def
    split
    · rename_i hc
      simp only [Bool.and_eq_true, decide_eq_true_eq] at hc
      exact ⟨rfl, rfl, rfl, rfl, fun _ => Nat.le_refl _, hc.2, wf_congr p.1.g _ p.1.regions p1 rfl rfl rfl rfl rfl⟩
    · rename_i hc
      simp only [Bool.and_eq_true, decide_eq_true_eq, not_and] at hc
      refine ⟨rfl, rfl, rfl, rfl, fun h => ?_, by rw [p3]; exact hmr, p1⟩
      have := fun h' => hc h' h
      omega
  obtain ⟨q1, q2, q3, q4, q5, q6, q7⟩ := hs2
  refine ⟨⟨q7, by rw [q2, p2]; exact hfix, hlo, hhi, q5, q6, ⟨occ', by rw [q1]; exact o1, by rw [q2, p2]; exact o2⟩, p7⟩,
    by rw [q3, p4], fun h => by rw [q4]; exact p5 h⟩

/-- **`genericGetBlock` returns null only if the oracle refused**: with an oracle that grants every request the result is
never null (unless the model's ghost-precondition flag is raised) -/
theorem genericGetBlock_generous (s : St) (num size : Nat) (na : Bool) (raws : List Ans) (hw : WF s) (hfix : s.g.cfg.fixedPool = false)
    (hlo : 8192 ≤ num * size) (hhi : num * size < 2 ^ 40) (hmr : s.g.maxReq < beMaxBinnedSmallPage)
    (occ : List (Nat × Nat)) (hocc : regSpans s.regions ⊆ occ) (hgen : generous (maxRawRequest s.g.cfg.granularity) occ raws)
    (hlen : 2 ≤ raws.length) :
    (genericGetBlock s num size na raws).2.1 ≠ .null ∨ (genericGetBlock s num size na raws).1.g.skip = true := by
  have hG0 := prelude_gen s num size raws hw hfix hlo hhi hmr occ hocc hgen hlen
  unfold genericGetBlock
  try simp only []
  generalize (if (s.g.boot == 2) = true then (s, 0) else
      ((⟨{ (addNewRegion ⟨{ s.g with boot := 1 }, s.regions⟩ beBootstrapRegionSize beRegSlab true raws.head?.join).1.g with boot := 2 },
        (addNewRegion ⟨{ s.g with boot := 1 }, s.regions⟩ beBootstrapRegionSize beRegSlab true raws.head?.join).1.regions⟩ : St),
       (addNewRegion ⟨{ s.g with boot := 1 }, s.regions⟩ beBootstrapRegionSize beRegSlab true raws.head?.join).2.2)) = p at hG0
  obtain ⟨s1, u0⟩ := p
  have hG := (hG0 (s1, u0) rfl _ rfl).1
  simp only [] at hG ⊢
  generalize (if (decide (num * size > s1.g.maxReq) && decide (num * size < beMaxBinnedSmallPage)) = true
      then (⟨{ s1.g with maxReq := num * size }, s1.regions⟩ : St) else s1) = s2 at hG
  have f := scanCoalescQ_frame s2 false
  exact getLoop_generous num size na 12 _ _ _ _ (hG.step (scanCoalescQ_wf s2 false hG.wf) f.1 f.2)

/-! ### a failed request leaves no delayed coalescing pending -/

theorem releaseMemInCaches_false (s : St) (m t n : Nat) (h : (releaseMemInCaches s m t n).2.1 = false) :
    (releaseMemInCaches s m t n).1.g.queue = [] := by
  unfold releaseMemInCaches at h ⊢
  generalize clean s = p at h ⊢
  obtain ⟨s1, c⟩ := p
  simp only [] at h ⊢
  split
  · rename_i hc; rw [if_pos hc] at h; cases h
  · rename_i hc
    rw [if_neg hc] at h
    unfold waitTillBlockReleased at h ⊢
    split
    · rename_i hq
      rw [if_pos hq] at h
      simp only [] at h ⊢
      have hq' : s1.g.queue = [] := List.isEmpty_iff.mp hq
      split
      · exact hq'
      · split <;> exact hq'
    · rename_i hq
      rw [if_neg hq] at h
      simp only [if_true] at h
      cases h

theorem askMemFromOS_null (s : St) (bs sm th nl : Nat) (ns : Bool) (raws : List Ans)
    (hb : (askMemFromOS s bs sm th nl ns raws).block = none) (hv : (askMemFromOS s bs sm th nl ns raws).valid = false) :
    (askMemFromOS s bs sm th nl ns raws).s.g.queue = [] := by
  unfold askMemFromOS at hb hv ⊢
  simp only [] at hb hv ⊢
  split
  · rename_i hbig
    rw [if_pos hbig] at hb hv
    generalize addNewRegion s bs beRegOne false raws.head?.join = p at hb hv ⊢
    obtain ⟨s1, r, u⟩ := p
    simp only [] at hb hv ⊢
    have h3 := releaseMemInCaches_false s1 sm th nl
    generalize releaseMemInCaches s1 sm th nl = q at h3 hb hv ⊢
    obtain ⟨s2, v, t2⟩ := q
    simp only [] at h3 hb hv ⊢
    cases r with
    | block =>
      cases hregs : s1.regions with
      | cons reg rest => rw [hregs] at hb; simp at hb
      | nil => rw [hregs] at hv; simp only [] at hv ⊢; exact h3 hv
    | fail => cases hregs : s1.regions <;> (rw [hregs] at hv; simp only [] at hv ⊢; exact h3 hv)
    | inBin => cases hregs : s1.regions <;> (rw [hregs] at hv; simp only [] at hv ⊢; exact h3 hv)
  · rename_i hbig
    rw [if_neg hbig] at hb hv
    generalize alignUpN (4 * s.g.maxReq) (1024 * 1024) = regSz at hb hv ⊢
    generalize waitTillBlockReleased s sm = p0 at hb hv ⊢
    obtain ⟨s0, w⟩ := p0
    simp only [] at hb hv ⊢
    split
    · rename_i hw; rw [if_pos hw] at hv; cases hv
    · rename_i hw
      rw [if_neg hw] at hb hv
      split
      · rename_i hm; rw [if_pos hm] at hv; cases hv
      · rename_i hm
        rw [if_neg hm] at hb hv
        generalize (if bs < beMaxBinnedSmallPage / 8 then (if ns = true then beRegSlab else beRegLarge) else beRegLarge) = regType at hb hv ⊢
        generalize addNewRegion s0 regSz regType false raws.head?.join = p at hb hv ⊢
        obtain ⟨s1, r, u⟩ := p
        simp only [] at hb hv ⊢
        have h3 := releaseMemInCaches_false s1 sm th nl
        generalize releaseMemInCaches s1 sm th nl = q at h3 hb hv ⊢
        obtain ⟨s2, v, t2⟩ := q
        simp only [] at h3 hb hv ⊢
        cases r with
        | block =>
          cases hregs : s1.regions with
          | cons reg rest => rw [hregs] at hb; simp at hb
          | nil => rw [hregs] at hv; simp only [] at hv ⊢; exact h3 hv
        | fail => cases hregs : s1.regions <;> (rw [hregs] at hv; simp only [] at hv ⊢; exact h3 hv)
        | inBin => cases hregs : s1.regions <;> (rw [hregs] at hv; simp only [] at hv ⊢; exact h3 hv)

end TbbVerif.C17.BE
