/-
C18 ladder — `genericGetBlock` as a whole in a quiescent back end / after a null; frame facts for `genericPutBlock`,
`markCoal`, `reset` and for every operation and every run of the sequential machine.
-/
import TbbVerif.Proofs.C18.LadderStep

namespace TbbVerif.C17.BE
open TbbVerif.Generated.C17Backend
open TbbVerif.C18.Ladder

/-- **recovery**: quiescent back end, granting oracle ⇒ a block -/
theorem genericGetBlock_quiet (s : St) (num size : Nat) (na : Bool) (raws : List Ans) (hw : WF s) (hfix : s.g.cfg.fixedPool = false)
    (hlo : 8192 ≤ num * size) (hhi : num * size < 2 ^ 40) (hmr : s.g.maxReq < beMaxBinnedSmallPage)
    (occ : List (Nat × Nat)) (hocc : regSpans s.regions ⊆ occ) (hgen : generous (maxRawRequest s.g.cfg.granularity) occ raws)
    (hlen : 2 ≤ raws.length) (hl : s.g.binLocked = []) (hq : s.g.queue = []) :
    (∃ a, (genericGetBlock s num size na raws).2.1 = .block a) ∨ (genericGetBlock s num size na raws).1.g.skip = true := by
  have hG0 := prelude_gen s num size raws hw hfix hlo hhi hmr occ hocc hgen hlen
  unfold genericGetBlock
  try simp only []
  generalize (if (s.g.boot == 2) = true then (s, 0) else
      ((⟨{ (addNewRegion ⟨{ s.g with boot := 1 }, s.regions⟩ beBootstrapRegionSize beRegSlab true raws.head?.join).1.g with boot := 2 },
        (addNewRegion ⟨{ s.g with boot := 1 }, s.regions⟩ beBootstrapRegionSize beRegSlab true raws.head?.join).1.regions⟩ : St),
       (addNewRegion ⟨{ s.g with boot := 1 }, s.regions⟩ beBootstrapRegionSize beRegSlab true raws.head?.join).2.2)) = p at hG0
  obtain ⟨s1, u0⟩ := p
  have hG := hG0 (s1, u0) rfl _ rfl
  simp only [] at hG ⊢
  generalize (if (decide (num * size > s1.g.maxReq) && decide (num * size < beMaxBinnedSmallPage)) = true
      then (⟨{ s1.g with maxReq := num * size }, s1.regions⟩ : St) else s1) = s2 at hG
  obtain ⟨g1, g2, g3⟩ := hG
  rw [scan_quiet s2 false (g3 hq)]
  exact getLoop_quiet num size na 11 s2 _ _ _ g1 (by rw [g2]; exact hl) (g3 hq)

/-- a null result leaves no delayed-coalescing request pending -/
theorem genericGetBlock_null_queue (s : St) (num size : Nat) (na : Bool) (raws : List Ans) (hw : WF s)
    (hn : (genericGetBlock s num size na raws).2.1 = .null) (hs : (genericGetBlock s num size na raws).1.g.skip = false) :
    (genericGetBlock s num size na raws).1.g.queue = [] := by
  unfold genericGetBlock at hn hs ⊢
  simp only [] at hn hs ⊢
  have hb : WF (if (s.g.boot == 2) = true then (s, 0) else
      (⟨{ (addNewRegion ⟨{ s.g with boot := 1 }, s.regions⟩ beBootstrapRegionSize beRegSlab true raws.head?.join).1.g with boot := 2 },
        (addNewRegion ⟨{ s.g with boot := 1 }, s.regions⟩ beBootstrapRegionSize beRegSlab true raws.head?.join).1.regions⟩,
       (addNewRegion ⟨{ s.g with boot := 1 }, s.regions⟩ beBootstrapRegionSize beRegSlab true raws.head?.join).2.2)).1 := by
    split
    · exact hw
    · have h0 : WF ⟨{ s.g with boot := 1 }, s.regions⟩ := wf_congr s.g _ s.regions hw rfl rfl rfl rfl rfl
      have h1 := addNewRegion_wf _ beBootstrapRegionSize beRegSlab true raws.head?.join h0 (Or.inl rfl)
      exact wf_congr _ _ _ h1 rfl rfl rfl rfl rfl
  generalize (if (s.g.boot == 2) = true then (s, 0) else
      (⟨{ (addNewRegion ⟨{ s.g with boot := 1 }, s.regions⟩ beBootstrapRegionSize beRegSlab true raws.head?.join).1.g with boot := 2 },
        (addNewRegion ⟨{ s.g with boot := 1 }, s.regions⟩ beBootstrapRegionSize beRegSlab true raws.head?.join).1.regions⟩,
       (addNewRegion ⟨{ s.g with boot := 1 }, s.regions⟩ beBootstrapRegionSize beRegSlab true raws.head?.join).2.2)) = p at hb hn hs ⊢
  obtain ⟨s1, u0⟩ := p
  simp only [] at hb hn hs ⊢
  have hw2 : WF (if (decide (num * size > s1.g.maxReq) && decide (num * size < beMaxBinnedSmallPage)) = true
      then (⟨{ s1.g with maxReq := num * size }, s1.regions⟩ : St) else s1) := by
    split
    · exact wf_congr s1.g _ s1.regions hb rfl rfl rfl rfl rfl
    · exact hb
  generalize (if (decide (num * size > s1.g.maxReq) && decide (num * size < beMaxBinnedSmallPage)) = true
      then (⟨{ s1.g with maxReq := num * size }, s1.regions⟩ : St) else s1) = s2 at hw2 hn hs ⊢
  exact getLoop_null_queue num size na _ _ _ _ _ (scanCoalescQ_wf s2 false hw2) hn hs

theorem genericGetBlock_maxReq (s : St) (num size : Nat) (na : Bool) (raws : List Ans) (hmr : s.g.maxReq < beMaxBinnedSmallPage) :
    (genericGetBlock s num size na raws).1.g.maxReq < beMaxBinnedSmallPage := by
  unfold genericGetBlock
  try simp only []
  have hb : (if (s.g.boot == 2) = true then (s, 0) else
      (⟨{ (addNewRegion ⟨{ s.g with boot := 1 }, s.regions⟩ beBootstrapRegionSize beRegSlab true raws.head?.join).1.g with boot := 2 },
        (addNewRegion ⟨{ s.g with boot := 1 }, s.regions⟩ beBootstrapRegionSize beRegSlab true raws.head?.join).1.regions⟩,
       (addNewRegion ⟨{ s.g with boot := 1 }, s.regions⟩ beBootstrapRegionSize beRegSlab true raws.head?.join).2.2)).1.g.maxReq = s.g.maxReq := by
    split
    · rfl
    · exact (addNewRegion_ss ⟨{ s.g with boot := 1 }, s.regions⟩ beBootstrapRegionSize beRegSlab true raws.head?.join).maxReq
  generalize (if (s.g.boot == 2) = true then (s, 0) else
      (⟨{ (addNewRegion ⟨{ s.g with boot := 1 }, s.regions⟩ beBootstrapRegionSize beRegSlab true raws.head?.join).1.g with boot := 2 },
        (addNewRegion ⟨{ s.g with boot := 1 }, s.regions⟩ beBootstrapRegionSize beRegSlab true raws.head?.join).1.regions⟩,
       (addNewRegion ⟨{ s.g with boot := 1 }, s.regions⟩ beBootstrapRegionSize beRegSlab true raws.head?.join).2.2)) = p at hb
  obtain ⟨s1, u0⟩ := p
  simp only [] at hb ⊢
  have h2 : (if (decide (num * size > s1.g.maxReq) && decide (num * size < beMaxBinnedSmallPage)) = true
      then (⟨{ s1.g with maxReq := num * size }, s1.regions⟩ : St) else s1).g.maxReq < beMaxBinnedSmallPage := by
    split
    · rename_i hc
      simp only [Bool.and_eq_true, decide_eq_true_eq] at hc
      exact hc.2
    · rw [hb]; exact hmr
  generalize (if (decide (num * size > s1.g.maxReq) && decide (num * size < beMaxBinnedSmallPage)) = true
      then (⟨{ s1.g with maxReq := num * size }, s1.regions⟩ : St) else s1) = s2 at h2
  have q1 := (scanCoalescQ_frame s2 false).1
  have l1 := (getLoop_frame num size na 12 (scanCoalescQ s2 false).1
    (if (s1.g.cfg.fixedPool || decide (size ≥ beMaxBinnedSmallPage)) = true then 0 else 2) (raws.drop u0) u0).1
  rw [(q1.trans l1).maxReq]
  exact h2

/-! ### the other operations -/

theorem genericPutBlock_frame (s : St) (addr : Nat) :
    SameStatic s.g (genericPutBlock s addr).1.g ∧ regSpans (genericPutBlock s addr).1.regions ⊆ regSpans s.regions := by
  unfold genericPutBlock
  cases hc : locate s addr with
  | none => exact ⟨SameStatic.rfl' _, fun x hx => hx⟩
  | some c =>
    try simp only []
    have key : ∀ al : Bool,
        SameStatic s.g (coalescAndPut ⟨s.g, c.close { c.z with cur := { c.z.cur with own := .held, aligned := al, inBin := false } }⟩ addr c.z.cur.size al).g ∧
        regSpans (coalescAndPut ⟨s.g, c.close { c.z with cur := { c.z.cur with own := .held, aligned := al, inBin := false } }⟩ addr c.z.cur.size al).regions ⊆
          regSpans s.regions := by
      intro al
      obtain ⟨f1, f2⟩ := coalescAndPut_frame ⟨s.g, c.close { c.z with cur := { c.z.cur with own := .held, aligned := al, inBin := false } }⟩ addr c.z.cur.size al
      refine ⟨f1, fun x hx => ?_⟩
      have := f2 hx
      rw [show regSpans (St.mk s.g (c.close { c.z with cur := { c.z.cur with own := .held, aligned := al, inBin := false } })).regions =
        regSpans s.regions from spans_close s addr c hc _] at this
      exact this
    cases ho : c.z.cur.own with
    | user al => exact ⟨(key al).1.trans ⟨rfl, rfl, rfl, rfl, rfl⟩, (key al).2⟩
    | coal al => exact ⟨(key al).1.trans ⟨rfl, rfl, rfl, rfl, rfl⟩, (key al).2⟩
    | held => exact ⟨SameStatic.rfl' _, fun x hx => hx⟩
    | queued => exact ⟨SameStatic.rfl' _, fun x hx => hx⟩
    | free => exact ⟨SameStatic.rfl' _, fun x hx => hx⟩
    | last => exact ⟨SameStatic.rfl' _, fun x hx => hx⟩

theorem markCoal_frame (s : St) (addr : Nat) : (markCoal s addr).1.g = s.g ∧ regSpans (markCoal s addr).1.regions = regSpans s.regions := by
  unfold markCoal
  cases hc : locate s addr with
  | none => exact ⟨rfl, rfl⟩
  | some c =>
    try simp only []
    split
    · exact ⟨rfl, spans_close s addr c hc _⟩
    · exact ⟨rfl, rfl⟩

theorem resetRegions_frame : ∀ (rs : List Region) (g : Glob),
    (resetRegions g rs).1.cfg = g.cfg ∧ (resetRegions g rs).1.boot = g.boot ∧ regSpans (resetRegions g rs).2 = regSpans rs := by
  intro rs
  induction rs with
  | nil => intro g; exact ⟨rfl, rfl, rfl⟩
  | cons r rest ih =>
    intro g
    unfold resetRegions
    cases hf : findBlockInRegion r.base r.allocSz r.type r.blockSz with
    | none =>
      try simp only []
      obtain ⟨i1, i2, i3⟩ := ih g.setBad
      generalize resetRegions g.setBad rest = q at i1 i2 i3 ⊢
      obtain ⟨g', rs'⟩ := q
      exact ⟨i1, i2, by unfold regSpans at i3 ⊢; simp only [List.map_cons] at i3 ⊢; rw [i3]⟩
    | some fbs =>
      obtain ⟨fb, bs⟩ := fbs
      try simp only []
      generalize hg0 : ({ g.binAdd fb (decide (r.type = beRegSlab)) (sizeToBin bs).toNat false with
        adv := if (g.binAdd fb (decide (r.type = beRegSlab)) (sizeToBin bs).toNat false).adv.contains (sizeToBin bs).toNat
          then (g.binAdd fb (decide (r.type = beRegSlab)) (sizeToBin bs).toNat false).adv
          else (sizeToBin bs).toNat :: (g.binAdd fb (decide (r.type = beRegSlab)) (sizeToBin bs).toNat false).adv } : Glob) = g0
      have hc0 : g0.cfg = g.cfg ∧ g0.boot = g.boot := by rw [← hg0]; exact ⟨rfl, rfl⟩
      obtain ⟨i1, i2, i3⟩ := ih g0
      generalize resetRegions g0 rest = q at i1 i2 i3 ⊢
      obtain ⟨g', rs'⟩ := q
      exact ⟨i1.trans hc0.1, i2.trans hc0.2, by unfold regSpans at i3 ⊢; simp only [List.map_cons] at i3 ⊢; rw [i3]⟩

theorem reset_frame (s : St) : (reset s).g.cfg = s.g.cfg ∧ (reset s).g.boot = s.g.boot ∧ regSpans (reset s).regions = regSpans s.regions := by
  unfold reset
  try simp only []
  obtain ⟨i1, i2, i3⟩ := resetRegions_frame s.regions { s.g with queue := [], mods := s.g.mods + s.g.queue.length, bins := [], mask := [], adv := [] }
  generalize resetRegions { s.g with queue := [], mods := s.g.mods + s.g.queue.length, bins := [], mask := [], adv := [] } s.regions = q at i1 i2 i3 ⊢
  obtain ⟨g', rs'⟩ := q
  exact ⟨i1, i2, i3⟩

/-- the oracle answers an operation consumes -/
def opRaws : Op → List Ans
  | .get _ _ _ raws => raws
  | _ => []

/-- **every operation**: the pool configuration is kept, `bootsrapMemStatus` stays DONE once it is, and every registered
span afterwards was registered before or was granted by the oracle during the operation -/
theorem step_frame (s : St) (op : Op) :
    (step s op).1.g.cfg = s.g.cfg ∧ (s.g.boot = 2 → (step s op).1.g.boot = 2) ∧ SpansFrom s (step s op).1 (opRaws op) := by
  cases op with
  | get num size al raws =>
    simp only [step, opRaws]
    split
    · exact ⟨rfl, fun h => h, fun x hx => Or.inl hx⟩
    · obtain ⟨f1, f2, _, _, f5⟩ := genericGetBlock_frame s num size al raws
      generalize genericGetBlock s num size al raws = r at f1 f2 f5 ⊢
      obtain ⟨s', res, u⟩ := r
      exact ⟨f1, fun _ => f2, f5⟩
  | put addr =>
    simp only [step, opRaws]
    obtain ⟨f1, f2⟩ := genericPutBlock_frame s addr
    generalize genericPutBlock s addr = r at f1 f2 ⊢
    obtain ⟨s', b⟩ := r
    cases b with
    | true => exact ⟨f1.cfg, fun h => by rw [← h]; exact f1.boot, SpansFrom.of_subset _ f2⟩
    | false => exact ⟨rfl, fun h => h, fun x hx => Or.inl hx⟩
  | scan force =>
    simp only [step, opRaws]
    obtain ⟨f1, f2⟩ := scanCoalescQ_frame s force
    generalize scanCoalescQ s force = r at f1 f2 ⊢
    obtain ⟨s', b⟩ := r
    exact ⟨f1.cfg, fun h => by rw [← h]; exact f1.boot, SpansFrom.of_subset _ f2⟩
  | clean =>
    simp only [step, opRaws]
    obtain ⟨f1, f2⟩ := clean_frame s
    generalize clean s = r at f1 f2 ⊢
    obtain ⟨s', b⟩ := r
    exact ⟨f1.cfg, fun h => by rw [← h]; exact f1.boot, SpansFrom.of_subset _ f2⟩
  | reset =>
    simp only [step, opRaws]
    obtain ⟨f1, f2, f3⟩ := reset_frame s
    exact ⟨f1, fun h => by rw [← h]; exact f2, SpansFrom.of_subset _ (by rw [f3]; exact fun x hx => hx)⟩
  | delay on =>
    exact ⟨rfl, fun h => h, fun x hx => Or.inl hx⟩
  | lockbin al bin =>
    simp only [step, opRaws]
    split <;> exact ⟨rfl, fun h => h, fun x hx => Or.inl hx⟩
  | unlockbin al bin =>
    exact ⟨rfl, fun h => h, fun x hx => Or.inl hx⟩
  | markcoal addr =>
    simp only [step, opRaws]
    obtain ⟨f1, f2⟩ := markCoal_frame s addr
    generalize markCoal s addr = r at f1 f2 ⊢
    obtain ⟨s', b⟩ := r
    simp only [] at f1 f2
    cases b with
    | true => exact ⟨by rw [f1], fun h => by rw [f1]; exact h, SpansFrom.of_subset _ (by rw [f2]; exact fun x hx => hx)⟩
    | false => exact ⟨rfl, fun h => h, fun x hx => Or.inl hx⟩

def allRaws (ops : List Op) : List Ans := ops.flatMap opRaws

theorem run_frame (cfg : Cfg) : ∀ (ops : List Op) (s : St),
    ((machine cfg).runFrom s ops).1.g.cfg = s.g.cfg ∧ (s.g.boot = 2 → ((machine cfg).runFrom s ops).1.g.boot = 2) ∧
    SpansFrom s ((machine cfg).runFrom s ops).1 (allRaws ops) := by
  intro ops
  induction ops with
  | nil => intro s; exact ⟨rfl, fun h => h, fun x hx => Or.inl hx⟩
  | cons o os ih =>
    intro s
    obtain ⟨f1, f2, f3⟩ := step_frame s o
    obtain ⟨i1, i2, i3⟩ := ih (step s o).1
    have hrun : ((machine cfg).runFrom s (o :: os)).1 = ((machine cfg).runFrom (step s o).1 os).1 := by
      simp only [Mach.runFrom, machine]
    rw [hrun]
    refine ⟨i1.trans f1, fun h => i2 (f2 h), ?_⟩
    intro x hx
    rcases i3 x hx with h | h
    · rcases f3 x h with h' | h'
      · exact Or.inl h'
      · refine Or.inr ?_
        unfold allRaws grants at *
        simp only [List.flatMap_cons, List.filterMap_append, List.mem_append]
        exact Or.inl h'
    · refine Or.inr ?_
      unfold allRaws grants at *
      simp only [List.flatMap_cons, List.filterMap_append, List.mem_append]
      exact Or.inr h

end TbbVerif.C17.BE
