/- C08 — inductive invariant of the MCS queue lock model `Mcs` (tbb::queuing_mutex), N threads, all schedules. -/
import TbbVerif.Model.C08Q
namespace TbbVerif.C08.Mcs

def inQ (x : Th) : Prop := x.holds = true ∨ x.pc = .aLink ∨ x.pc = .aSpin

structure Wf (x : Th) : Prop where
  hold_pc : x.holds = true → (x.pc = .start ∨ x.pc = .rCas ∨ x.pc = .rSpin ∨ x.pc = .rLoad ∨ x.pc = .rGrant)
  rel_hold : (x.pc = .rCas ∨ x.pc = .rSpin ∨ x.pc = .rLoad ∨ x.pc = .rGrant) → x.holds = true
  aGoing : x.pc = .aGoing → x.next = 0
  aXchg : x.pc = .aXchg → x.next = 0 ∧ x.going = 0
  tGoing : x.pc = .tGoing → x.next = 0
  tCas : x.pc = .tCas → x.next = 0 ∧ x.going = 0
  rLoad : x.pc = .rLoad → x.next ≠ 0
  rGrant : x.pc = .rGrant → x.succ = x.next ∧ x.next ≠ 0
  aLink : x.pc = .aLink → x.pred ≠ 0
  opA : (x.pc = .aGoing ∨ x.pc = .aXchg ∨ x.pc = .aLink ∨ x.pc = .aSpin) → ∃ r, x.ops = .acquire :: r
  opT : (x.pc = .tGoing ∨ x.pc = .tCas) → ∃ r, x.ops = .tryAcquire :: r
  opR : (x.pc = .rCas ∨ x.pc = .rSpin ∨ x.pc = .rLoad ∨ x.pc = .rGrant) → ∃ r, x.ops = .release :: r

structure Inv (st : St) : Prop where
  wf : ∀ t, Wf (st.th t)
  mem : ∀ t, inQ (st.th t) ↔ ∃ i : Nat, st.queue[i]? = some t
  inj : ∀ (i j : Nat) (x : Tid), st.queue[i]? = some x → st.queue[j]? = some x → i = j
  tl0 : st.queue = [] → st.tail = 0
  tl1 : ∀ l, st.queue[st.queue.length - 1]? = some l → st.tail = l + 1 ∧ (st.th l).next = 0
  head : ∀ h, st.queue[0]? = some h → (st.th h).holds = true ∨ ((st.th h).pc = .aSpin ∧ (st.th h).going ≠ 0)
  pair : ∀ (i : Nat) (p u : Tid), st.queue[i]? = some p → st.queue[i+1]? = some u →
      (st.th u).holds = false ∧ (st.th u).going = 0 ∧
      (((st.th u).pc = .aLink ∧ (st.th u).pred = p + 1 ∧ (st.th p).next = 0) ∨ ((st.th u).pc = .aSpin ∧ (st.th p).next = u + 1))
  bad : st.bad = false
  logE : st.enqLog = st.served ++ st.queue
  logG : st.grantLog = st.served ++ (match st.queue with | h :: _ => if (st.th h).holds then [h] else [] | [] => [])
  spin : ∀ t, (st.th t).pc = .rSpin → st.tail ≠ t + 1

theorem notInQ_not_mem {st : St} (h : Inv st) (t : Tid) (hn : ¬ inQ (st.th t)) (i : Nat) : st.queue[i]? ≠ some t := by
  intro hc; exact hn ((h.mem t).mpr ⟨i, hc⟩)

theorem holder_head {st : St} (h : Inv st) (t : Tid) (hh : (st.th t).holds = true) : st.queue[0]? = some t := by
  obtain ⟨j, hj⟩ := (h.mem t).mp (Or.inl hh)
  cases j with
  | zero => exact hj
  | succ i =>
    have hi : i < st.queue.length := by
      have := (List.getElem?_eq_some_iff.mp hj).1; omega
    have hp : st.queue[i]? = some st.queue[i] := by simp [hi]
    have := (h.pair i _ t hp hj).1
    rw [hh] at this; cases this

theorem link_pred {st : St} (h : Inv st) (u : Tid) (hu : (st.th u).pc = .aLink) :
    ∃ i p, st.queue[i]? = some p ∧ st.queue[i+1]? = some u ∧ (st.th u).pred = p + 1 ∧ (st.th p).next = 0 ∧ (st.th u).holds = false := by
  obtain ⟨j, hj⟩ := (h.mem u).mp (Or.inr (Or.inl hu))
  cases j with
  | zero =>
    rcases h.head u hj with hh | ⟨hh, _⟩
    · have := (h.wf u).hold_pc hh; simp [hu] at this
    · rw [hu] at hh; cases hh
  | succ i =>
    have hi : i < st.queue.length := by
      have := (List.getElem?_eq_some_iff.mp hj).1; omega
    have hp : st.queue[i]? = some st.queue[i] := by simp [hi]
    have := h.pair i _ u hp hj
    refine ⟨i, st.queue[i], hp, hj, ?_⟩
    rcases this with ⟨a, b, ⟨c, d, e⟩ | ⟨c, d⟩⟩
    · exact ⟨d, e, a⟩
    · rw [hu] at c; cases c

theorem holder_succ {st : St} (h : Inv st) (t : Tid) (hh : (st.th t).holds = true) (hn : (st.th t).next ≠ 0) :
    ∃ u, st.queue[1]? = some u ∧ (st.th t).next = u + 1 ∧ (st.th u).pc = .aSpin ∧ (st.th u).going = 0 ∧ (st.th u).holds = false := by
  have h0 := holder_head h t hh
  have hlen : 1 < st.queue.length := by
    apply Classical.byContradiction; intro hc
    have hl : st.queue.length = 1 := by
      have := (List.getElem?_eq_some_iff.mp h0).1; omega
    have := (h.tl1 t (by rw [hl]; exact h0)).2
    exact hn this
  have h1 : st.queue[1]? = some st.queue[1] := by simp [hlen]
  have := h.pair 0 t _ h0 h1
  refine ⟨st.queue[1], h1, ?_⟩
  rcases this with ⟨a, b, ⟨c, d, e⟩ | ⟨c, d⟩⟩
  · exact absurd e hn
  · exact ⟨d, c, b, a⟩

theorem holder_tail_single {st : St} (h : Inv st) (t : Tid) (hh : (st.th t).holds = true) (ht : st.tail = t + 1) :
    st.queue = [t] := by
  have h0 := holder_head h t hh
  have hpos : 0 < st.queue.length := (List.getElem?_eq_some_iff.mp h0).1
  have hl : st.queue[st.queue.length - 1]? = some st.queue[st.queue.length - 1] := by
    simp
  have h1 := (h.tl1 _ hl).1
  have e : st.queue[st.queue.length - 1] = t := by
    rw [ht] at h1; exact (Nat.add_right_cancel h1).symm
  rw [e] at hl
  have := h.inj _ _ _ hl h0
  have hlen : st.queue.length = 1 := by omega
  match hq : st.queue, hlen, h0 with
  | [x], _, h0 => simp at h0 ⊢; exact h0


def sameQ (x x' : Th) : Prop :=
  x'.holds = x.holds ∧ x'.going = x.going ∧ x'.next = x.next ∧ x'.pred = x.pred ∧
  (x'.pc = .aLink ↔ x.pc = .aLink) ∧ (x'.pc = .aSpin ↔ x.pc = .aSpin)

@[simp] theorem upd_same (f : Tid → Th) (t : Tid) (x : Th) : upd f t x t = x := by simp [upd]
theorem upd_other (f : Tid → Th) (t i : Tid) (x : Th) (h : i ≠ t) : upd f t x i = f i := by simp [upd, h]

theorem inv_local {st : St} (h : Inv st) (t : Tid) (x' : Th) (hw : Wf x')
    (hq : inQ x' ↔ inQ (st.th t)) (hs : inQ (st.th t) → sameQ (st.th t) x') (hsp : x'.pc = .rSpin → st.tail ≠ t + 1) :
    Inv { st with th := upd st.th t x' } := by
  have key : ∀ i, inQ (st.th i) → sameQ (st.th i) (upd st.th t x' i) := by
    intro i hi
    by_cases e : i = t
    · subst e; simpa using hs hi
    · rw [upd_other _ _ _ _ e]; simp [sameQ]
  have inq : ∀ i j, st.queue[j]? = some i → sameQ (st.th i) (upd st.th t x' i) := fun i j hj => key i ((h.mem i).mpr ⟨j, hj⟩)
  constructor
  · intro i; by_cases e : i = t
    · subst e; simpa using hw
    · simpa [upd_other _ _ _ _ e] using h.wf i
  · intro i; dsimp only
    by_cases e : i = t
    · subst e; simp only [upd_same]; rw [hq]; exact h.mem i
    · rw [upd_other _ _ _ _ e]; exact h.mem i
  · exact h.inj
  · exact h.tl0
  · intro l hl; dsimp only at hl ⊢
    have := h.tl1 l hl
    have s := inq l _ hl
    exact ⟨this.1, by rw [s.2.2.1]; exact this.2⟩
  · intro hd hh; dsimp only at hh ⊢
    have s := inq hd _ hh
    have := h.head hd hh
    rw [s.1, s.2.1, s.2.2.2.2.2]; exact this
  · intro i p u hp hu; dsimp only at hp hu ⊢
    have sp := inq p _ hp
    have su := inq u _ hu
    have := h.pair i p u hp hu
    rw [su.1, su.2.1, su.2.2.2.1, su.2.2.2.2.1, su.2.2.2.2.2, sp.2.2.1]; exact this
  · exact h.bad
  · exact h.logE
  · have := h.logG
    dsimp only
    cases hqq : st.queue with
    | nil => simpa [hqq] using this
    | cons a r =>
      have s := inq a 0 (by simp [hqq])
      simp only [hqq] at this ⊢
      rw [s.1]; exact this
  · intro i hi; dsimp only at hi ⊢
    by_cases e : i = t
    · subst e; simp only [upd_same] at hi; exact hsp hi
    · rw [upd_other _ _ _ _ e] at hi; exact h.spin i hi


theorem getElem?_lt {q : List Tid} {i : Nat} {x : Tid} (h : q[i]? = some x) : i < q.length :=
  (List.getElem?_eq_some_iff.mp h).1

/-- the spinning head observes its grant -/
theorem inv_observe {st st' : St} (h : Inv st) (t : Tid) (x' : Th)
    (hpc : (st.th t).pc = .aSpin) (hgo : (st.th t).going ≠ 0)
    (hx : x' = { ((st.th t).done) with holds := true })
    (e1 : st'.th = upd st.th t x') (e2 : st'.tail = st.tail) (e3 : st'.queue = st.queue) (e4 : st'.served = st.served)
    (e5 : st'.enqLog = st.enqLog) (e6 : st'.grantLog = st.grantLog ++ [t]) (e7 : st'.bad = st.bad) : Inv st' := by
  have hnh : (st.th t).holds = false := by
    cases hh : (st.th t).holds with
    | false => rfl
    | true => have := (h.wf t).hold_pc hh; simp [hpc] at this
  obtain ⟨j, hj⟩ := (h.mem t).mp (Or.inr (Or.inr hpc))
  have hj0 : j = 0 := by
    cases j with
    | zero => rfl
    | succ i =>
      have hi : i < st.queue.length := by have := getElem?_lt hj; omega
      have := (h.pair i _ t (by simp [hi] : st.queue[i]? = some st.queue[i]) hj).2.1
      exact absurd this hgo
  subst hj0
  have other : ∀ i, i ≠ t → st'.th i = st.th i := fun i hi => by rw [e1]; exact upd_other _ _ _ _ hi
  have self : st'.th t = x' := by rw [e1]; simp
  have idx : ∀ i, st.queue[i]? = some t → i = 0 := fun i hi => h.inj _ _ _ hi hj
  constructor
  · intro i; by_cases e : i = t
    · subst e; rw [self, hx]
      have w := h.wf i
      constructor <;> simp [Th.done]
    · rw [other i e]; exact h.wf i
  · intro i; rw [e3]
    by_cases e : i = t
    · subst e; rw [self, hx]
      constructor
      · intro _; exact ⟨0, hj⟩
      · intro _; exact Or.inl rfl
    · rw [other i e]; exact h.mem i
  · rw [e3]; exact h.inj
  · rw [e3, e2]; exact h.tl0
  · intro l hl; rw [e3] at hl; rw [e2]
    have := h.tl1 l hl
    by_cases e : l = t
    · subst e; rw [self, hx]; exact ⟨this.1, by simpa [Th.done] using this.2⟩
    · rw [other l e]; exact this
  · intro hd hh; rw [e3] at hh
    have : hd = t := by rw [hj] at hh; exact (Option.some.inj hh).symm
    subst this; rw [self, hx]; exact Or.inl rfl
  · intro i p u hp hu; rw [e3] at hp hu
    have hu' : u ≠ t := fun e => by subst e; have := idx _ hu; omega
    rw [other u hu']
    have := h.pair i p u hp hu
    by_cases e : p = t
    · subst e; rw [self, hx]; simpa [Th.done] using this
    · rw [other p e]; exact this
  · rw [e7]; exact h.bad
  · rw [e5, e4, e3]; exact h.logE
  · rw [e6, e4, e3]
    have := h.logG
    match hq : st.queue, hj with
    | a :: r, hj =>
      simp at hj; subst hj
      simp only [hq] at this
      rw [hnh] at this
      simp at this
      rw [this]; simp [self, hx]
  · intro i hi; rw [e2]
    by_cases e : i = t
    · subst e; rw [self, hx] at hi; simp [Th.done] at hi
    · rw [other i e] at hi; exact h.spin i hi


theorem tail_zero_iff {st : St} (h : Inv st) : st.tail = 0 ↔ st.queue = [] := by
  constructor
  · intro ht
    cases hq : st.queue with
    | nil => rfl
    | cons a r =>
      have hpos : st.queue.length - 1 < st.queue.length := by simp [hq]
      have hl : st.queue[st.queue.length - 1]? = some st.queue[st.queue.length - 1] := by simp [hpos]
      have := (h.tl1 _ hl).1
      omega
  · exact h.tl0

/-- a thread enters the queue (q_tail exchange, or successful CAS from null) -/
theorem inv_append {st st' : St} (h : Inv st) (t : Tid) (x' : Th)
    (hn : ¬ inQ (st.th t)) (hw : Wf x') (hnext : x'.next = 0) (hxp : x'.pc ≠ .rSpin)
    (hcase : (st.tail = 0 ∧ x'.holds = true ∧ st'.grantLog = st.grantLog ++ [t]) ∨
             (st.tail ≠ 0 ∧ x'.holds = false ∧ x'.going = 0 ∧ x'.pc = .aLink ∧ x'.pred = st.tail ∧ st'.grantLog = st.grantLog))
    (e1 : st'.th = upd st.th t x') (e2 : st'.tail = t + 1) (e3 : st'.queue = st.queue ++ [t]) (e4 : st'.served = st.served)
    (e5 : st'.enqLog = st.enqLog ++ [t]) (e7 : st'.bad = st.bad) : Inv st' := by
  have notin : ∀ i, st.queue[i]? ≠ some t := notInQ_not_mem h t hn
  have other : ∀ i, i ≠ t → st'.th i = st.th i := fun i hi => by rw [e1]; exact upd_other _ _ _ _ hi
  have self : st'.th t = x' := by rw [e1]; simp
  have hz := tail_zero_iff h
  have inq' : inQ x' := by
    rcases hcase with ⟨_, a, _⟩ | ⟨_, _, _, a, _⟩
    · exact Or.inl a
    · exact Or.inr (Or.inl a)
  have app : ∀ (i : Nat) (x : Tid), (st.queue ++ [t])[i]? = some x → (i < st.queue.length ∧ st.queue[i]? = some x ∧ x ≠ t) ∨ (i = st.queue.length ∧ x = t) := by
    intro i x hx
    rw [List.getElem?_append] at hx
    split at hx
    · rename_i hl; exact Or.inl ⟨hl, hx, fun e => notin i (e ▸ hx)⟩
    · rename_i hl
      have : i - st.queue.length = 0 := by
        apply Classical.byContradiction; intro hc
        have : ([t] : List Tid)[i - st.queue.length]? = none := by
          apply List.getElem?_eq_none; simp; omega
        rw [this] at hx; cases hx
      rw [this] at hx; simp at hx
      exact Or.inr ⟨by omega, hx.symm⟩
  constructor
  · intro i; by_cases e : i = t
    · subst e; rw [self]; exact hw
    · rw [other i e]; exact h.wf i
  · intro i; rw [e3]
    by_cases e : i = t
    · subst e; rw [self]
      exact ⟨fun _ => ⟨st.queue.length, by simp⟩, fun _ => inq'⟩
    · rw [other i e, h.mem i]
      constructor
      · rintro ⟨j, hj⟩; exact ⟨j, by rw [List.getElem?_append_left (getElem?_lt hj)]; exact hj⟩
      · rintro ⟨j, hj⟩
        rcases app j i hj with ⟨_, a, _⟩ | ⟨_, a⟩
        · exact ⟨j, a⟩
        · exact absurd a e
  · intro i j x hi hj; rw [e3] at hi hj
    rcases app i x hi with ⟨_, a, a'⟩ | ⟨a, a'⟩ <;> rcases app j x hj with ⟨_, b, b'⟩ | ⟨b, b'⟩
    · exact h.inj i j x a b
    · exact absurd b' a'
    · exact absurd a' b'
    · omega
  · intro hq; rw [e3] at hq; simp at hq
  · intro l hl; rw [e3] at hl
    simp at hl; subst hl
    rw [self]; exact ⟨e2, hnext⟩
  · intro hd hh; rw [e3] at hh
    rcases app 0 hd hh with ⟨_, a, a'⟩ | ⟨a, a'⟩
    · rw [other hd a']; exact h.head hd a
    · subst a'; rw [self]
      have : st.queue = [] := List.eq_nil_of_length_eq_zero a.symm
      rcases hcase with ⟨_, c, _⟩ | ⟨c, _⟩
      · exact Or.inl c
      · exact absurd (hz.mpr this) c
  · intro i p u hp hu; rw [e3] at hp hu
    rcases app i p hp with ⟨pl, a, a'⟩ | ⟨a, a'⟩
    · rw [other p a']
      rcases app (i+1) u hu with ⟨_, b, b'⟩ | ⟨b, b'⟩
      · rw [other u b']; exact h.pair i p u a b
      · subst b'; rw [self]
        have hne : st.queue ≠ [] := by intro hc; rw [hc] at pl; simp at pl
        have hlast : st.queue[st.queue.length - 1]? = some p := by
          have : st.queue.length - 1 = i := by omega
          rw [this]; exact a
        have tl := h.tl1 p hlast
        rcases hcase with ⟨c, _⟩ | ⟨_, c1, c2, c3, c4, _⟩
        · exact absurd (hz.mp c) hne
        · exact ⟨c1, c2, Or.inl ⟨c3, by rw [c4]; exact tl.1, tl.2⟩⟩
    · rcases app (i+1) u hu with ⟨b, _, _⟩ | ⟨b, _⟩ <;> omega
  · rw [e7]; exact h.bad
  · rw [e5, e4, e3, h.logE, List.append_assoc]
  · rw [e4, e3]
    have lg := h.logG
    cases hq : st.queue with
    | nil =>
      simp only [hq] at lg
      rcases hcase with ⟨_, c, d⟩ | ⟨c, _⟩
      · rw [d, lg]; simp [self, c]
      · exact absurd (hz.mpr hq) c
    | cons a r =>
      simp only [hq] at lg
      have ha : a ≠ t := fun e => notin 0 (by simp [hq, e])
      rcases hcase with ⟨c, _⟩ | ⟨_, _, _, _, _, d⟩
      · have := hz.mp c; rw [hq] at this; cases this
      · rw [d, lg]; simp [other a ha]
  · intro i hi; rw [e2]
    by_cases e : i = t
    · subst e; rw [self] at hi; exact absurd hi hxp
    · intro hc; exact e (Nat.add_right_cancel hc).symm


/-- release when nobody is queued behind: q_tail CAS(this → null) succeeds -/
theorem inv_pop_single {st st' : St} (h : Inv st) (t : Tid) (x' : Th)
    (hh : (st.th t).holds = true) (ht : st.tail = t + 1) (hw : Wf x') (hn : ¬ inQ x')
    (e1 : st'.th = upd st.th t x') (e2 : st'.tail = 0) (e3 : st'.queue = st.queue.tail) (e4 : st'.served = st.served ++ [t])
    (e5 : st'.enqLog = st.enqLog) (e6 : st'.grantLog = st.grantLog) (e7 : st'.bad = st.bad) : Inv st' := by
  have hq := holder_tail_single h t hh ht
  have other : ∀ i, i ≠ t → st'.th i = st.th i := fun i hi => by rw [e1]; exact upd_other _ _ _ _ hi
  have self : st'.th t = x' := by rw [e1]; simp
  have e3' : st'.queue = [] := by rw [e3, hq]; rfl
  constructor
  · intro i; by_cases e : i = t
    · subst e; rw [self]; exact hw
    · rw [other i e]; exact h.wf i
  · intro i; rw [e3']
    by_cases e : i = t
    · subst e; rw [self]; simp [hn]
    · rw [other i e]
      constructor
      · intro hi
        obtain ⟨j, hj⟩ := (h.mem i).mp hi
        rw [hq] at hj
        cases j with
        | zero => simp at hj; exact absurd hj.symm e
        | succ j => simp at hj
      · rintro ⟨j, hj⟩; simp at hj
  · intro i j x hi; rw [e3'] at hi; simp at hi
  · intro _; exact e2
  · intro l hl; rw [e3'] at hl; simp at hl
  · intro hd hh'; rw [e3'] at hh'; simp at hh'
  · intro i p u hp; rw [e3'] at hp; simp at hp
  · rw [e7]; exact h.bad
  · rw [e5, e4, e3', h.logE, hq]; simp
  · rw [e6, e4, e3', h.logG, hq]; simp [hh]
  · intro i _; rw [e2]; omega

theorem wf_going {x : Th} (h : Wf x) (hpc : x.pc = .aSpin) (g : Nat) : Wf { x with going := g } := by
  obtain ⟨a1, a2, a3, a4, a5, a6, a7, a8, a9, a10, a11, a12⟩ := h
  constructor <;> simp_all

/-- release hands the lock to the successor: store to its m_going -/
theorem inv_grant {st st' : St} (h : Inv st) (t : Tid) (x' : Th) (u : Tid)
    (hh : (st.th t).holds = true) (hnx : (st.th t).next = u + 1) (hw : Wf x') (hn : ¬ inQ x')
    (e1 : st'.th = upd (upd st.th u { (st.th u) with going := 1 }) t x') (e2 : st'.tail = st.tail) (e3 : st'.queue = st.queue.tail)
    (e4 : st'.served = st.served ++ [t]) (e5 : st'.enqLog = st.enqLog) (e6 : st'.grantLog = st.grantLog) (e7 : st'.bad = st.bad) : Inv st' := by
  obtain ⟨u', h1, hnx', hupc, hugo, huh⟩ := holder_succ h t hh (by omega)
  have : u' = u := by omega
  subst this
  have h0 := holder_head h t hh
  have hut : u' ≠ t := fun e => by subst e; have := h.inj _ _ _ h0 h1; omega
  have self : st'.th t = x' := by rw [e1]; simp
  have hu : st'.th u' = { (st.th u') with going := 1 } := by rw [e1, upd_other _ _ _ _ hut]; simp
  have other : ∀ i, i ≠ t → i ≠ u' → st'.th i = st.th i := fun i a b => by rw [e1, upd_other _ _ _ _ a, upd_other _ _ _ _ b]
  have sh : ∀ i : Nat, st'.queue[i]? = st.queue[i+1]? := by intro i; rw [e3]; simp
  have idxt : ∀ i, st.queue[i]? = some t → i = 0 := fun i hi => h.inj _ _ _ hi h0
  have idxu : ∀ i, st.queue[i]? = some u' → i = 1 := fun i hi => h.inj _ _ _ hi h1
  constructor
  · intro i; by_cases e : i = t
    · subst e; rw [self]; exact hw
    · by_cases e' : i = u'
      · subst e'; rw [hu]; exact wf_going (h.wf i) hupc 1
      · rw [other i e e']; exact h.wf i
  · intro i
    by_cases e : i = t
    · subst e; rw [self]
      constructor
      · intro a; exact absurd a hn
      · rintro ⟨j, hj⟩; rw [sh] at hj; have := idxt _ hj; omega
    · have hiff : inQ (st'.th i) ↔ inQ (st.th i) := by
        by_cases e' : i = u'
        · subst e'; rw [hu]; simp [inQ]
        · rw [other i e e']
      rw [hiff, h.mem i]
      constructor
      · rintro ⟨j, hj⟩
        cases j with
        | zero => rw [h0] at hj; exact absurd (Option.some.inj hj).symm e
        | succ j => exact ⟨j, by rw [sh]; exact hj⟩
      · rintro ⟨j, hj⟩; exact ⟨j+1, by rw [← sh]; exact hj⟩
  · intro i j x hi hj; rw [sh] at hi hj; have := h.inj _ _ _ hi hj; omega
  · intro hq; have := sh 0; rw [hq, h1] at this; simp at this
  · intro l hl
    have hlen : st'.queue.length + 1 = st.queue.length := by
      rw [e3]; simp; have := getElem?_lt h1; omega
    rw [sh] at hl
    have hl' : st.queue[st.queue.length - 1]? = some l := by
      have : st.queue.length - 1 = st'.queue.length - 1 + 1 := by have := getElem?_lt h1; omega
      rw [this]; exact hl
    have tl := h.tl1 l hl'
    have hlt : l ≠ t := fun e => by subst e; have := idxt _ hl; omega
    rw [e2]
    by_cases e' : l = u'
    · subst e'; rw [hu]; exact tl
    · rw [other l hlt e']; exact tl
  · intro hd hh'; rw [sh, h1] at hh'
    have : hd = u' := (Option.some.inj hh').symm
    subst this; rw [hu]; exact Or.inr ⟨hupc, by simp⟩
  · intro i p v hp hv; rw [sh] at hp hv
    have hvt : v ≠ t := fun e => by subst e; have := idxt _ hv; omega
    have hvu : v ≠ u' := fun e => by subst e; have := idxu _ hv; omega
    have hpt : p ≠ t := fun e => by subst e; have := idxt _ hp; omega
    rw [other v hvt hvu]
    have := h.pair (i+1) p v hp hv
    by_cases e' : p = u'
    · subst e'; rw [hu]; exact this
    · rw [other p hpt e']; exact this
  · rw [e7]; exact h.bad
  · rw [e5, e4, e3, h.logE]
    match hq : st.queue, h0 with
    | a :: r, h0 => simp at h0; subst h0; simp
  · rw [e6, e4, e3, h.logG]
    match hq : st.queue, h0, h1 with
    | a :: b :: r, h0, h1 =>
      simp at h0 h1; subst h0; subst h1
      simp [hh, hu, huh]
  · intro i hi; rw [e2]
    by_cases e : i = t
    · subst e; rw [self] at hi
      have : x'.holds = true := hw.rel_hold (Or.inr (Or.inl hi))
      exact absurd (Or.inl this) hn
    · by_cases e' : i = u'
      · subst e'; rw [hu] at hi; simp [hupc] at hi
      · rw [other i e e'] at hi; exact h.spin i hi


theorem wf_link_self {x : Th} (h : Wf x) (hpc : x.pc = .aLink) : Wf { x with pc := .aSpin } := by
  have hh : x.holds = false := by
    cases e : x.holds with
    | false => rfl
    | true => have := h.hold_pc e; simp [hpc] at this
  have ho := h.opA (Or.inr (Or.inr (Or.inl hpc)))
  constructor <;> simp [hh, ho]

theorem wf_link_pred {x : Th} (h : Wf x) (hq : inQ x) (hn : x.next = 0) (v : Nat) : Wf { x with next := v + 1 } := by
  have n1 : x.pc ≠ .rLoad := fun e => h.rLoad e hn
  have n2 : x.pc ≠ .rGrant := fun e => (h.rGrant e).2 hn
  have n3 : x.pc ≠ .aGoing ∧ x.pc ≠ .aXchg ∧ x.pc ≠ .tGoing ∧ x.pc ≠ .tCas := by
    rcases hq with q | q | q
    · have := h.hold_pc q
      refine ⟨?_, ?_, ?_, ?_⟩ <;> intro e <;> simp [e] at this
    · simp [q]
    · simp [q]
  constructor
  · exact h.hold_pc
  · exact h.rel_hold
  · intro e; exact absurd e n3.1
  · intro e; exact absurd e n3.2.1
  · intro e; exact absurd e n3.2.2.1
  · intro e; exact absurd e n3.2.2.2
  · intro _; simp
  · intro e; exact absurd e n2
  · exact h.aLink
  · exact h.opA
  · exact h.opT
  · exact h.opR

/-- the late successor link: pred->m_next.store(this) -/
theorem inv_link {st st' : St} (h : Inv st) (t : Tid)
    (hpc : (st.th t).pc = .aLink)
    (e1 : st'.th = upd (upd st.th ((st.th t).pred - 1) { (st.th ((st.th t).pred - 1)) with next := t + 1 }) t
            { (upd st.th ((st.th t).pred - 1) { (st.th ((st.th t).pred - 1)) with next := t + 1 } t) with pc := .aSpin })
    (e2 : st'.tail = st.tail) (e3 : st'.queue = st.queue)
    (e4 : st'.served = st.served) (e5 : st'.enqLog = st.enqLog) (e6 : st'.grantLog = st.grantLog) (e7 : st'.bad = st.bad) : Inv st' := by
  obtain ⟨i, p, hp, ht, hpred, hpn, hth⟩ := link_pred h t hpc
  have hpe : (st.th t).pred - 1 = p := by omega
  rw [hpe] at e1
  have hpt : p ≠ t := fun e => by subst e; have := h.inj _ _ _ hp ht; omega
  have self : st'.th t = { (st.th t) with pc := .aSpin } := by
    rw [e1]; simp [upd_other _ _ _ _ (Ne.symm hpt)]
  have hp' : st'.th p = { (st.th p) with next := t + 1 } := by rw [e1, upd_other _ _ _ _ hpt]; simp
  have other : ∀ j, j ≠ t → j ≠ p → st'.th j = st.th j := fun j a b => by rw [e1, upd_other _ _ _ _ a, upd_other _ _ _ _ b]
  have idxt : ∀ j, st.queue[j]? = some t → j = i + 1 := fun j hj => h.inj _ _ _ hj ht
  have idxp : ∀ j, st.queue[j]? = some p → j = i := fun j hj => h.inj _ _ _ hj hp
  have pinq : inQ (st.th p) := (h.mem p).mpr ⟨i, hp⟩
  constructor
  · intro j; by_cases e : j = t
    · subst e; rw [self]; exact wf_link_self (h.wf j) hpc
    · by_cases e' : j = p
      · subst e'; rw [hp']; exact wf_link_pred (h.wf j) pinq hpn t
      · rw [other j e e']; exact h.wf j
  · intro j; rw [e3, ← h.mem j]
    by_cases e : j = t
    · subst e; rw [self]; simp [inQ, hpc]
    · by_cases e' : j = p
      · subst e'; rw [hp']; simp [inQ]
      · rw [other j e e']
  · rw [e3]; exact h.inj
  · rw [e3, e2]; exact h.tl0
  · intro l hl; rw [e3] at hl; rw [e2]
    have tl := h.tl1 l hl
    have hlp : l ≠ p := fun e => by subst e; have := idxp _ hl; have := getElem?_lt ht; omega
    by_cases e : l = t
    · subst e; rw [self]; exact tl
    · rw [other l e hlp]; exact tl
  · intro hd hh; rw [e3] at hh
    have hdt : hd ≠ t := fun e => by subst e; have := idxt _ hh; omega
    have := h.head hd hh
    by_cases e' : hd = p
    · subst e'; rw [hp']; exact this
    · rw [other hd hdt e']; exact this
  · intro j a b ha hb; rw [e3] at ha hb
    have pr := h.pair j a b ha hb
    by_cases e : b = t
    · subst e
      have hj : j = i := by have := idxt _ hb; omega
      subst hj
      have : a = p := by rw [hp] at ha; exact (Option.some.inj ha).symm
      subst this
      rw [self, hp']
      exact ⟨pr.1, pr.2.1, Or.inr ⟨rfl, rfl⟩⟩
    · have hap : a ≠ p := fun e' => by
        subst e'; have := idxp _ ha; subst this
        rw [ht] at hb; exact e (Option.some.inj hb).symm
      have hb' : (st'.th b).holds = (st.th b).holds ∧ (st'.th b).going = (st.th b).going ∧ (st'.th b).pc = (st.th b).pc ∧ (st'.th b).pred = (st.th b).pred := by
        by_cases e' : b = p
        · subst e'; rw [hp']; simp
        · rw [other b e e']; simp
      have ha' : (st'.th a).next = (st.th a).next := by
        by_cases e' : a = t
        · subst e'; rw [self]
        · rw [other a e' hap]
      rw [hb'.1, hb'.2.1, hb'.2.2.1, hb'.2.2.2, ha']; exact pr
  · rw [e7]; exact h.bad
  · rw [e5, e4, e3]; exact h.logE
  · rw [e6, e4, e3, h.logG]
    cases hq : st.queue with
    | nil => rfl
    | cons a r =>
      have : (st'.th a).holds = (st.th a).holds := by
        by_cases e : a = t
        · subst e; rw [self]
        · by_cases e' : a = p
          · subst e'; rw [hp']
          · rw [other a e e']
      simp [this]
  · intro j hj; rw [e2]
    by_cases e : j = t
    · subst e; rw [self] at hj; simp at hj
    · by_cases e' : j = p
      · subst e'; rw [hp'] at hj; exact h.spin j hj
      · rw [other j e e'] at hj; exact h.spin j hj


theorem notInQ_of {x : Th} (_h : Wf x) (hh : x.holds = false) (h1 : x.pc ≠ .aLink) (h2 : x.pc ≠ .aSpin) : ¬ inQ x := by
  intro q; rcases q with q | q | q
  · rw [hh] at q; cases q
  · exact h1 q
  · exact h2 q

theorem holds_false_of {x : Th} (h : Wf x) (hp : x.pc ≠ .start ∧ x.pc ≠ .rCas ∧ x.pc ≠ .rSpin ∧ x.pc ≠ .rLoad ∧ x.pc ≠ .rGrant) : x.holds = false := by
  cases e : x.holds with
  | false => rfl
  | true =>
    have := h.hold_pc e
    obtain ⟨a, b, c, d, f⟩ := hp
    rcases this with q | q | q | q | q <;> contradiction

set_option linter.unusedVariables false in
macro "wf_tac" h:ident t:ident : tactic =>
  `(tactic| (obtain ⟨a1, a2, a3, a4, a5, a6, a7, a8, a9, a10, a11, a12⟩ := Inv.wf $h $t; constructor <;> simp_all [Th.done]))

theorem inv_step (st : St) (t : Tid) (h : Inv st) : Inv (step st t) := by
  unfold step stepEv
  dsimp only
  split
  · exact h
  · rename_i op rest hops
    split
    · -- acquire, start
      rename_i hpc
      split
      · rename_i hh
        refine inv_local h t _ ?_ ?_ ?_ ?_
        · wf_tac h t
        · simp [inQ, hpc]
        · intro _; simp [sameQ]
        · intro hh2; simp [Th.done, hpc] at hh2
      · rename_i hh
        have hh' : (st.th t).holds = false := by simpa using hh
        have nq : ¬ inQ (st.th t) := notInQ_of (h.wf t) hh' (by simp [hpc]) (by simp [hpc])
        refine inv_local h t _ ?_ ?_ ?_ ?_
        · wf_tac h t
        · simp [inQ, hpc, hh']
        · intro q; exact absurd q nq
        · intro hh2; simp [Th.done, hpc] at hh2
    · -- acquire, aGoing
      rename_i hpc
      have hh' : (st.th t).holds = false := holds_false_of (h.wf t) (by simp [hpc])
      have nq : ¬ inQ (st.th t) := notInQ_of (h.wf t) hh' (by simp [hpc]) (by simp [hpc])
      refine inv_local h t _ ?_ ?_ ?_ ?_
      · wf_tac h t
      · simp [inQ, hpc, hh']
      · intro q; exact absurd q nq
      · intro hh2; simp [Th.done, hpc] at hh2
    · -- acquire, aXchg
      rename_i hpc
      have hh' : (st.th t).holds = false := holds_false_of (h.wf t) (by simp [hpc])
      have nq : ¬ inQ (st.th t) := notInQ_of (h.wf t) hh' (by simp [hpc]) (by simp [hpc])
      have hx := (h.wf t).aXchg hpc
      split
      · rename_i h0
        refine inv_append h t _ nq ?_ ?_ (by simp [Th.done]) (Or.inl ⟨h0, rfl, rfl⟩) rfl rfl rfl rfl rfl rfl
        · wf_tac h t
        · simp [Th.done, hx.1]
      · rename_i h0
        refine inv_append h t { (st.th t) with pred := st.tail, pc := .aLink } nq ?_ ?_ (by simp) (Or.inr ⟨h0, hh', hx.2, rfl, rfl, rfl⟩) rfl rfl rfl rfl rfl rfl
        · wf_tac h t
        · exact hx.1
    · -- acquire, aLink
      rename_i hpc
      exact inv_link h t hpc rfl rfl rfl rfl rfl rfl rfl
    · -- acquire, aSpin
      rename_i hpc
      split
      · rename_i hg
        exact inv_observe h t _ hpc hg rfl rfl rfl rfl rfl rfl rfl rfl
      · exact h
    · -- try_acquire, start
      rename_i hpc
      split
      · rename_i hh
        refine inv_local h t _ ?_ ?_ ?_ ?_
        · wf_tac h t
        · simp [inQ, hpc]
        · intro _; simp [sameQ]
        · intro hh2; simp [Th.done, hpc] at hh2
      · rename_i hh
        have hh' : (st.th t).holds = false := by simpa using hh
        have nq : ¬ inQ (st.th t) := notInQ_of (h.wf t) hh' (by simp [hpc]) (by simp [hpc])
        refine inv_local h t _ ?_ ?_ ?_ ?_
        · wf_tac h t
        · simp [inQ, hpc, hh']
        · intro q; exact absurd q nq
        · intro hh2; simp [Th.done, hpc] at hh2
    · -- try_acquire, tGoing
      rename_i hpc
      have hh' : (st.th t).holds = false := holds_false_of (h.wf t) (by simp [hpc])
      have nq : ¬ inQ (st.th t) := notInQ_of (h.wf t) hh' (by simp [hpc]) (by simp [hpc])
      refine inv_local h t _ ?_ ?_ ?_ ?_
      · wf_tac h t
      · simp [inQ, hpc, hh']
      · intro q; exact absurd q nq
      · intro hh2; simp [Th.done, hpc] at hh2
    · -- try_acquire, tCas
      rename_i hpc
      have hh' : (st.th t).holds = false := holds_false_of (h.wf t) (by simp [hpc])
      have nq : ¬ inQ (st.th t) := notInQ_of (h.wf t) hh' (by simp [hpc]) (by simp [hpc])
      have hx := (h.wf t).tCas hpc
      split
      · rename_i h0
        refine inv_append h t _ nq ?_ ?_ (by simp [Th.done]) (Or.inl ⟨h0, rfl, rfl⟩) rfl rfl rfl rfl rfl rfl
        · wf_tac h t
        · simp [Th.done, hx.1]
      · refine inv_local h t _ ?_ ?_ ?_ ?_
        · wf_tac h t
        · simp [inQ, hpc, hh', Th.done]
        · intro q; exact absurd q nq
        · intro hh2; simp [Th.done] at hh2
    · -- release, start
      rename_i hpc
      split
      · rename_i hh
        have hh' : (st.th t).holds = false := by simpa using hh
        have nq : ¬ inQ (st.th t) := notInQ_of (h.wf t) hh' (by simp [hpc]) (by simp [hpc])
        refine inv_local h t _ ?_ ?_ ?_ ?_
        · wf_tac h t
        · simp [inQ, hpc, hh']
        · intro q; exact absurd q nq
        · intro hh2; simp [Th.done, hpc] at hh2
      · rename_i hh
        have hh' : (st.th t).holds = true := by simpa using hh
        refine inv_local h t _ ?_ ?_ ?_ ?_
        · obtain ⟨a1, a2, a3, a4, a5, a6, a7, a8, a9, a10, a11, a12⟩ := h.wf t
          constructor <;> (split <;> simp_all)
        · simp [inQ, hh']
        · intro _; simp only [sameQ, hpc]; split <;> simp
        · intro hh2; dsimp only at hh2; split at hh2 <;> cases hh2
    · -- release, rCas
      rename_i hpc
      have hh' : (st.th t).holds = true := (h.wf t).rel_hold (Or.inl hpc)
      split
      · rename_i ht
        refine inv_pop_single h t _ hh' ht ?_ ?_ rfl rfl rfl rfl rfl rfl rfl
        · wf_tac h t
        · simp [inQ, Th.done]
      · rename_i hnt
        refine inv_local h t _ ?_ ?_ ?_ ?_
        · wf_tac h t
        · simp [inQ, hh']
        · intro _; simp [sameQ, hpc]
        · intro _; exact hnt
    · -- release, rSpin
      rename_i hpc
      have hh' : (st.th t).holds = true := (h.wf t).rel_hold (Or.inr (Or.inl hpc))
      refine inv_local h t _ ?_ ?_ ?_ ?_
      · obtain ⟨a1, a2, a3, a4, a5, a6, a7, a8, a9, a10, a11, a12⟩ := h.wf t
        constructor <;> (split <;> simp_all)
      · simp [inQ, hh']
      · intro _; simp only [sameQ, hpc]; split <;> simp
      · intro _; exact h.spin t hpc
    · -- release, rLoad
      rename_i hpc
      have hh' : (st.th t).holds = true := (h.wf t).rel_hold (Or.inr (Or.inr (Or.inl hpc)))
      refine inv_local h t _ ?_ ?_ ?_ ?_
      · wf_tac h t
      · simp [inQ, hh']
      · intro _; simp [sameQ, hpc]
      · intro hh2; simp [Th.done, hpc] at hh2
    · -- release, rGrant
      rename_i hpc
      have hh' : (st.th t).holds = true := (h.wf t).rel_hold (Or.inr (Or.inr (Or.inr hpc)))
      have hwf : Wf { ((st.th t).done) with holds := false } := by wf_tac h t
      have hg := (h.wf t).rGrant hpc
      have hnx : (st.th t).next = ((st.th t).succ - 1) + 1 := by omega
      obtain ⟨u, h1, hnx', _, _, _⟩ := holder_succ h t hh' hg.2
      have h0 := holder_head h t hh'
      have hu : (st.th t).succ - 1 = u := by omega
      have hut : u ≠ t := fun e => by subst e; have := h.inj _ _ _ h0 h1; omega
      have hsame : upd st.th ((st.th t).succ - 1) { (st.th ((st.th t).succ - 1)) with going := 1 } t = st.th t := by
        rw [hu]; exact upd_other _ _ _ _ (Ne.symm hut)
      refine inv_grant h t _ ((st.th t).succ - 1) hh' hnx ?_ ?_ rfl rfl rfl rfl rfl rfl ?_
      · rw [hsame]; exact hwf
      · rw [hsame]; simp [inQ, Th.done]
      · have : ((st.th t).succ == 0) = false := by simp; omega
        simp [this]
    · exact h

theorem wf_init (o : List Op) : Wf ({ ops := o } : Th) := by
  constructor <;> intro h <;> simp at h

theorem inv_init (progs : List (List Op)) : Inv (sys progs).init := by
  have e : ∀ t, (sys progs).init.th t = { ops := progs.getD t [] } := fun _ => rfl
  constructor
  · intro t; rw [e]; exact wf_init _
  · intro t; rw [e]; simp [inQ, sys]
  · intro i j x hi; simp [sys] at hi
  · intro _; rfl
  · intro l hl; simp [sys] at hl
  · intro hd hh; simp [sys] at hh
  · intro i p u hp; simp [sys] at hp
  · rfl
  · rfl
  · rfl
  · intro t ht; rw [e] at ht; simp at ht

theorem inv_reachable (progs : List (List Op)) (sched : List Tid) : Inv ((sys progs).run sched) :=
  Sys.inv_run (sys progs) Inv (inv_init progs) (fun s t h => inv_step s t h) sched

end TbbVerif.C08.Mcs
