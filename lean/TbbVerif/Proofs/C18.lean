/-
C18 — helper lemmas for Props/C18.lean (core Lean only): the generated guards mean what they should.
-/
import TbbVerif.Model.C18
import TbbVerif.Proofs.C17

namespace TbbVerif.C18
open TbbVerif.Cint
open TbbVerif.Generated.C17
open TbbVerif.Generated.C18
open TbbVerif.C17 (alignUpN alignUpN_spec gen_alignUp_mod testBit_ge_of_lt)

/-! ### calloc -/

theorem calloc_reject_iff (nobj size : Nat) (hn : nobj < 2 ^ 64) (_hs : size < 2 ^ 64) :
    callocReject nobj size = true ↔ 2 ^ 64 ≤ nobj * size := by
  have h32 : ((1:Nat) <<< (((8:Nat) * 8) % 2 ^ 64 / 2)) % 2 ^ 64 = 4294967296 := by decide
  simp only [callocReject, h32, Bool.and_eq_true, Bool.or_eq_true, decide_eq_true_eq, ge_iff_le, ne_eq]
  constructor
  · rintro ⟨_, hn0, hne⟩
    rcases Nat.lt_or_ge (nobj * size) (2 ^ 64) with h | h
    · exfalso
      apply hne
      rw [Nat.mod_eq_of_lt h]
      exact Nat.mul_div_cancel_left size (Nat.pos_of_ne_zero hn0)
    · exact h
  · intro h
    have hn0 : nobj ≠ 0 := by
      intro h0; subst h0; simp at h
    refine ⟨?_, hn0, ?_⟩
    · rcases Nat.lt_or_ge nobj 4294967296 with h1 | h1
      · rcases Nat.lt_or_ge size 4294967296 with h2 | h2
        · exfalso
          have := Nat.mul_lt_mul'' h1 h2
          omega
        · exact Or.inr h2
      · exact Or.inl h1
    · have hy : nobj * size % 2 ^ 64 < nobj * size := by
        have := Nat.mod_lt (nobj * size) (show 0 < 2 ^ 64 by omega)
        omega
      have := Nat.div_lt_of_lt_mul hy
      omega

/-! ### power-of-two tests -/

theorem two_pow_and_lt (k y : Nat) (hy : y < 2 ^ k) : 2 ^ k &&& y = 0 := by
  apply Nat.eq_of_testBit_eq
  intro i
  rw [Nat.testBit_and, Nat.testBit_two_pow, Nat.zero_testBit]
  by_cases h : k = i
  · subst h; simp [Nat.testBit_lt_two_pow hy]
  · simp [h]

/-- two numbers in `[2^k, 2^(k+1))` share bit `k` -/
theorem and_ne_zero_of_same_top (x y k : Nat) (hx1 : 2 ^ k ≤ x) (hx2 : x < 2 ^ (k + 1)) (hy1 : 2 ^ k ≤ y) (hy2 : y < 2 ^ (k + 1)) :
    x &&& y ≠ 0 := by
  intro h
  have hd : (x &&& y) / 2 ^ k = x / 2 ^ k &&& y / 2 ^ k := Nat.and_div_two_pow
  rw [Nat.pow_succ] at hx2 hy2
  have e1 : x / 2 ^ k = 1 := Nat.div_eq_of_lt_le (by omega) (by omega)
  have e2 : y / 2 ^ k = 1 := Nat.div_eq_of_lt_le (by omega) (by omega)
  rw [h, e1, e2] at hd
  simp at hd

theorem is_pow2_iff (x : Nat) (hx : x < 2 ^ 64) : is_power_of_two x = true ↔ ∃ k, x = 2 ^ k := by
  simp only [is_power_of_two, Bool.and_eq_true, decide_eq_true_eq, ne_eq]
  constructor
  · rintro ⟨h0, hand⟩
    have hsub : subU64 x 1 = x - 1 := C17.subU64_one x (by omega) hx
    rw [hsub] at hand
    refine ⟨x.log2, ?_⟩
    have l1 := Nat.log2_self_le h0
    have l2 := @Nat.lt_log2_self x
    rcases Nat.eq_or_lt_of_le l1 with h | h
    · exact h.symm
    · exfalso
      exact and_ne_zero_of_same_top x (x - 1) x.log2 l1 l2 (by omega) (by omega) hand.symm
  · rintro ⟨k, rfl⟩
    have hp : 0 < 2 ^ k := Nat.two_pow_pos k
    refine ⟨by omega, ?_⟩
    rw [C17.subU64_one _ hp hx, Nat.and_two_pow_sub_one_eq_mod, Nat.mod_self]

theorem is_pow2_at_least8_iff (x : Nat) (hx : x < 2 ^ 64) :
    isPowerOfTwoAtLeast x 8 = true ↔ ∃ k, x = 2 ^ k ∧ 8 ≤ x := by
  simp only [isPowerOfTwoAtLeast, is_power_of_two_at_least, Bool.and_eq_true, decide_eq_true_eq, ne_eq]
  constructor
  · rintro ⟨h0, hand⟩
    have hand' : x &&& subU64 x 8 = 0 := hand.symm
    -- low three bits: x % 8 = 0
    have hm : (x &&& subU64 x 8) % 2 ^ 3 = x % 2 ^ 3 &&& subU64 x 8 % 2 ^ 3 := Nat.and_mod_two_pow
    have hy8 : subU64 x 8 % 2 ^ 3 = x % 2 ^ 3 := by unfold subU64; omega
    rw [hand', hy8, Nat.and_self] at hm
    have hx8 : x % 8 = 0 := by omega
    have hge : 8 ≤ x := by omega
    have hsub : subU64 x 8 = x - 8 := C17.subU64_le x 8 hge hx
    rw [hsub] at hand'
    have l1 := Nat.log2_self_le h0
    have l2 := @Nat.lt_log2_self x
    have l3 : 3 ≤ x.log2 := (Nat.le_log2 h0).mpr (by omega)
    refine ⟨x.log2, ?_, hge⟩
    rcases Nat.eq_or_lt_of_le l1 with h | h
    · exact h.symm
    · exfalso
      have e8 : 2 ^ x.log2 = 8 * 2 ^ (x.log2 - 3) := by
        have : x.log2 = 3 + (x.log2 - 3) := by omega
        conv => lhs; rw [this, Nat.pow_add]
      exact and_ne_zero_of_same_top x (x - 8) x.log2 l1 l2 (by omega) (by omega) hand'
  · rintro ⟨k, rfl, hge⟩
    have hp : 0 < 2 ^ k := Nat.two_pow_pos k
    refine ⟨by omega, ?_⟩
    rw [C17.subU64_le _ 8 hge hx, two_pow_and_lt k _ (by omega)]

/-! ### bin rounding of the large-object cache -/

theorem wrapS64_small (e : Nat) (h : e < 64) : wrapS 64 ((e : Nat) : Int) = e := by
  simp only [wrapS]; omega

theorem wrapS32_small (x : Int) (h0 : 0 ≤ x) (h : x < 64) : wrapS 32 x = x := by
  simp only [wrapS]; omega

theorem log2_bounds (X : Nat) (h1 : 8388608 ≤ X) (h2 : X < 2 ^ 64) :
    23 ≤ X.log2 ∧ X.log2 < 64 ∧ 8 * 2 ^ (X.log2 - 3) ≤ X ∧ X < 16 * 2 ^ (X.log2 - 3) := by
  have h0 : X ≠ 0 := by omega
  have l1 := Nat.log2_self_le h0
  have l2 := @Nat.lt_log2_self X
  have l3 : 23 ≤ X.log2 := (Nat.le_log2 h0).mpr (by omega)
  have l4 : X.log2 < 64 := (Nat.log2_lt h0).mpr h2
  have e8 : 2 ^ X.log2 = 8 * 2 ^ (X.log2 - 3) := by
    have : X.log2 = 3 + (X.log2 - 3) := by omega
    conv => lhs; rw [this, Nat.pow_add]
  rw [Nat.pow_succ] at l2
  exact ⟨l3, l4, by omega, by omega⟩

theorem huge_step_eq (S : Nat) (h1 : 8388608 ≤ S) (h2 : S < 2 ^ 64) :
    ((1:Nat) <<< (wrapS 32 (wrapS 32 (BitScanRev S) - 3)).toNat) % 2 ^ 64 = 2 ^ (S.log2 - 3) := by
  obtain ⟨l3, l4, _, _⟩ := log2_bounds S h1 h2
  have h0 : ¬ S = 0 := by omega
  have hb : BitScanRev S = (S.log2 : Int) := by
    simp only [BitScanRev, h0, decide_false, Bool.false_eq_true, if_false]
    exact wrapS64_small _ l4
  rw [hb, wrapS32_small (S.log2 : Int) (by omega) (by omega), wrapS32_small ((S.log2 : Int) - 3) (by omega) (by omega)]
  have : ((S.log2 : Int) - 3).toNat = S.log2 - 3 := by omega
  rw [this, Nat.one_shiftLeft]
  exact Nat.mod_eq_of_lt (Nat.pow_lt_pow_right (by omega) (by omega))

theorem locAlignToBin_eq (S : Nat) (hS : S < 2 ^ 64) : locAlignToBin S = binRound S % 2 ^ 64 := by
  unfold locAlignToBin binRound
  simp only [locMaxLargeSize, largeCacheStep, hugeStepFactorExp, decide_eq_true_eq]
  by_cases h : S < 8388608
  · simp only [h, if_true]
    have : (8192:Nat) = 2 ^ 13 := by decide
    rw [largeAlignToBin, this]
    exact gen_alignUp_mod S 13 hS (by omega)
  · simp only [h, if_false]
    obtain ⟨_, l4, _, _⟩ := log2_bounds S (by omega) hS
    rw [hugeAlignToBin, huge_step_eq S (by omega) hS]
    exact gen_alignUp_mod S _ hS (by omega)

/-- what bin rounding does to a value, in linear terms -/
theorem binRound_small (X : Nat) (h : X < 8388608) : X ≤ binRound X ∧ binRound X < X + 8192 := by
  unfold binRound
  simp only [locMaxLargeSize, largeCacheStep, h, if_true]
  obtain ⟨u1, u2, _⟩ := alignUpN_spec X 8192 (by omega)
  exact ⟨u1, u2⟩

theorem binRound_huge (X : Nat) (h1 : 8388608 ≤ X) (h2 : X < 2 ^ 64) :
    ∃ st, 8 * st ≤ X ∧ X < 16 * st ∧ X ≤ binRound X ∧ binRound X < X + st ∧ binRound X % st = 0 ∧ 2 ^ 64 % st = 0 ∧ 0 < st ∧
      (2 ^ 63 ≤ X → 2 ^ 60 ≤ st) := by
  obtain ⟨_, l4, l5, l6⟩ := log2_bounds X h1 h2
  refine ⟨2 ^ (X.log2 - 3), l5, l6, ?_⟩
  unfold binRound
  have : ¬ X < locMaxLargeSize := by simp only [locMaxLargeSize]; omega
  simp only [this, if_false, hugeStepFactorExp]
  obtain ⟨u1, u2, u3⟩ := alignUpN_spec X (2 ^ (X.log2 - 3)) (Nat.two_pow_pos _)
  refine ⟨u1, u2, u3, Nat.mod_eq_zero_of_dvd (Nat.pow_dvd_pow 2 (by omega)), Nat.two_pow_pos _, fun h63 => ?_⟩
  have : 63 ≤ X.log2 := (Nat.le_log2 (by omega)).mpr h63
  exact Nat.pow_le_pow_right (by omega) (by omega)

theorem llo_sum (size a : Nat) :
    (((size + (((88 : Nat) + (16 : Nat)) % 2 ^ 64)) % 2 ^ 64) + 2 ^ a) % 2 ^ 64 = (size + 104 + 2 ^ a) % 2 ^ 64 := by
  omega

/-- the decision of `getFromLLOCache` for every 64-bit size and every power-of-two alignment -/
theorem llo_decision (size a : Nat) (hs : size < 2 ^ 64) (ha : a < 64) :
    (2 ^ 64 ≤ binRound (size + 104 + 2 ^ a) → lloReject size (2 ^ a) = true) ∧
    (binRound (size + 104 + 2 ^ a) < 2 ^ 64 →
      lloReject size (2 ^ a) = false ∧ lloAllocationSize size (2 ^ a) = binRound (size + 104 + 2 ^ a) ∧
      size + 104 + 2 ^ a ≤ binRound (size + 104 + 2 ^ a) ∧ binRound (size + 104 + 2 ^ a) + 2 ^ 60 ≤ 2 ^ 64) := by
  have hA1 : 1 ≤ 2 ^ a := Nat.two_pow_pos a
  have hA63 : 2 ^ a ≤ 2 ^ 63 := Nat.pow_le_pow_right (by omega) (by omega)
  have hrej : lloReject size (2 ^ a) = decide (binRound ((size + 104 + 2 ^ a) % 2 ^ 64) % 2 ^ 64 < size) := by
    simp only [lloReject, llo_sum, locAlignToBin_eq _ (Nat.mod_lt _ (show 0 < 2 ^ 64 by omega))]
  have hall : lloAllocationSize size (2 ^ a) = binRound ((size + 104 + 2 ^ a) % 2 ^ 64) % 2 ^ 64 := by
    simp only [lloAllocationSize, llo_sum, locAlignToBin_eq _ (Nat.mod_lt _ (show 0 < 2 ^ 64 by omega))]
  generalize hT : size + 104 + 2 ^ a = T at *
  rcases Nat.lt_or_ge T (2 ^ 64) with hlt | hge
  · -- the sum itself does not wrap
    have hS : T % 2 ^ 64 = T := Nat.mod_eq_of_lt hlt
    rw [hS] at hrej hall
    rcases Nat.lt_or_ge T 8388608 with hsm | hbig
    · obtain ⟨r1, r2⟩ := binRound_small T hsm
      constructor
      · intro h; omega
      · intro h
        have e : binRound T % 2 ^ 64 = binRound T := Nat.mod_eq_of_lt h
        rw [e] at hrej hall
        refine ⟨?_, hall, r1, by omega⟩
        rw [hrej]; exact decide_eq_false (by omega)
    · obtain ⟨st, s1, s2, r1, r2, r3, r4, r5, r6⟩ := binRound_huge T hbig hlt
      constructor
      · intro h
        -- the rounded value is exactly 2^64: the wrapped result is 0 < size
        have hd : (binRound T - 2 ^ 64) % st = 0 :=
          Nat.mod_eq_zero_of_dvd (Nat.dvd_sub (Nat.dvd_of_mod_eq_zero r3) (Nat.dvd_of_mod_eq_zero r4))
        have hlt' : binRound T - 2 ^ 64 < st := by omega
        rw [Nat.mod_eq_of_lt hlt'] at hd
        have e : binRound T = 2 ^ 64 := by omega
        rw [hrej, e]; exact decide_eq_true (by omega)
      · intro h
        have e : binRound T % 2 ^ 64 = binRound T := Nat.mod_eq_of_lt h
        rw [e] at hrej hall
        refine ⟨?_, hall, r1, ?_⟩
        · rw [hrej]; exact decide_eq_false (by omega)
        · -- headroom: a multiple of st below 2^64 when T ≥ 2^63, else < T + T/8
          rcases Nat.lt_or_ge T (2 ^ 63) with h63 | h63
          · omega
          · -- st ≥ 2^60, binRound T ≤ 2^64 - st
            have hd : (2 ^ 64 - binRound T) % st = 0 :=
              Nat.mod_eq_zero_of_dvd (Nat.dvd_sub (Nat.dvd_of_mod_eq_zero r4) (Nat.dvd_of_mod_eq_zero r3))
            have hpos : 0 < 2 ^ 64 - binRound T := by omega
            have : st ≤ 2 ^ 64 - binRound T := Nat.le_of_dvd hpos (Nat.dvd_of_mod_eq_zero hd)
            have := r6 h63
            omega
  · -- the sum wraps: S = T - 2^64 < size, and so is its bin rounding
    have hS : T % 2 ^ 64 = T - 2 ^ 64 := by omega
    rw [hS] at hrej
    have r0 : T ≤ binRound T := by
      unfold binRound; split
      · exact (alignUpN_spec T _ (by simp only [largeCacheStep]; omega)).1
      · exact (alignUpN_spec T _ (Nat.two_pow_pos _)).1
    constructor
    · intro _
      rw [hrej]
      have hle := Nat.mod_le (binRound (T - 2 ^ 64)) (2 ^ 64)
      rcases Nat.lt_or_ge (T - 2 ^ 64) 8388608 with hsm | hbig
      · obtain ⟨r1, r2⟩ := binRound_small _ hsm
        exact decide_eq_true (by omega)
      · obtain ⟨st, s1, s2, r1, r2, r3, r4, r5, r6⟩ := binRound_huge (T - 2 ^ 64) hbig (by omega)
        exact decide_eq_true (by omega)
    · intro h; omega

/-! ### pool ledger -/

theorem ledgerStep_keeps_disjoint (l l' : List Region) (e : Ev)
    (hd : l.Pairwise Region.disjoint) (h : ledgerStep l e = some l') : l'.Pairwise Region.disjoint := by
  cases e with
  | rawAlloc s n =>
    simp only [ledgerStep] at h
    split at h
    · rename_i hc
      cases h
      rw [List.pairwise_cons]
      refine ⟨fun x hx => ?_, hd⟩
      have := List.all_eq_true.mp hc.2 x hx
      have hx' : Region.disjoint x (s, n) := by simpa using this
      unfold Region.disjoint at *
      omega
    · cases h
  | rawFree s n =>
    simp only [ledgerStep] at h
    split at h
    · cases h; exact hd.sublist List.erase_sublist
    · cases h
  | block s n =>
    simp only [ledgerStep] at h
    split at h
    · cases h; exact hd
    · cases h

theorem mem_erase_self_of_pairwise {R : Region → Region → Prop} (a : Region) :
    ∀ (l : List Region), l.Pairwise R → a ∈ l.erase a → R a a := by
  intro l
  induction l with
  | nil => intro _ h; simp at h
  | cons b t ih =>
    intro hp hin
    rw [List.pairwise_cons] at hp
    rw [List.erase_cons] at hin
    by_cases hb : b = a
    · subst hb
      simp only [beq_self_eq_true, if_true] at hin
      exact hp.1 b hin
    · have : (b == a) = false := by simpa using hb
      simp only [this, Bool.false_eq_true, if_false, List.mem_cons] at hin
      rcases hin with h | h
      · exact absurd h.symm hb
      · exact ih hp.2 h

end TbbVerif.C18
