/-
Fixed-width C/C++ integer semantics used by translated expressions (g++ x86-64: conversions to a
signed type are modulo 2^n; signed overflow is modelled as wrap-around, which is what the compiled
code does at -O2 for the expressions translated here — the E-PURE/E-REAL ties check that).
-/
namespace TbbVerif.Cint

def wrapU (bits : Nat) (x : Int) : Nat := (x % (2 ^ bits : Nat)).toNat

def wrapS (bits : Nat) (x : Int) : Int :=
  let y : Int := x % ((2 ^ bits : Nat) : Int)
  if y < ((2 ^ (bits - 1) : Nat) : Int) then y else y - ((2 ^ bits : Nat) : Int)

/-- `static_cast<int>(x)` for an unsigned `x` -/
def toI32 (x : Nat) : Int := wrapS 32 (x : Int)
def subI32 (a b : Int) : Int := wrapS 32 (a - b)
def addI32 (a b : Int) : Int := wrapS 32 (a + b)
/-- `size_t` arithmetic -/
def addU64 (a b : Nat) : Nat := (a + b) % 2 ^ 64
def subU64 (a b : Nat) : Nat := (a + 2 ^ 64 - b % 2 ^ 64) % 2 ^ 64
def mulU64 (a b : Nat) : Nat := (a * b) % 2 ^ 64

end TbbVerif.Cint
