/-
Line-protocol plumbing shared by every model driver (no Mathlib: this links into `tbbdrv`).
-/
namespace TbbVerif.Proto

def words (line : String) : List String :=
  (line.trimAscii.toString.splitOn " ").filter (· ≠ "")

def nat? (s : String) : Option Nat := s.toNat?

def int? (s : String) : Option Int := s.toInt?

def nats? (ws : List String) : Option (List Nat) := ws.mapM nat?

def showNats (xs : List Nat) : String := " ".intercalate (xs.map toString)

def showBool (b : Bool) : String := if b then "1" else "0"

/-- A stateful line driver: one output line per input line. -/
structure Driver where
  σ : Type
  init : σ
  step : σ → List String → σ × String

partial def loop (d : Driver) (h : IO.FS.Stream) (out : IO.FS.Stream) (s : d.σ) : IO Unit := do
  let line ← h.getLine
  if line.isEmpty then return ()
  let ws := words line
  if ws.isEmpty then
    loop d h out s
  else
    let (s', o) := d.step s ws
    out.putStrLn o
    loop d h out s'

def runDriver (d : Driver) : IO Unit := do
  let i ← IO.getStdin
  let o ← IO.getStdout
  loop d i o d.init
  o.flush

/-- Stateless drivers. -/
def pureDriver (f : List String → String) : Driver :=
  { σ := Unit, init := (), step := fun _ ws => ((), f ws) }

/-- `main` of a per-property driver executable: `drv_cxx <model>` -/
def mainOf (drivers : List (String × Driver)) (args : List String) : IO UInt32 := do
  match args with
  | [name] =>
    match drivers.lookup name with
    | some d => runDriver d; return 0
    | none => IO.eprintln s!"unknown model {name}"; return 2
  | _ => IO.eprintln "usage: drv_cxx <model>"; return 2

end TbbVerif.Proto
