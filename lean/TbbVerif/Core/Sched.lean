/-
Generic interleaving transition systems.

A protocol model is a `Sys σ`: an initial state and a step function `σ → Tid → σ`.
A schedule is a `List Tid`; `run` folds the step function over it.  Every theorem of the
form "for all schedules" is an induction over that list, packaged once here as
`Sys.inv_run`.
-/
namespace TbbVerif

abbrev Tid := Nat

structure Sys (σ : Type) where
  init : σ
  step : σ → Tid → σ

namespace Sys
variable {σ : Type}

def runFrom (S : Sys σ) (s : σ) (sched : List Tid) : σ := sched.foldl S.step s

def run (S : Sys σ) (sched : List Tid) : σ := S.runFrom S.init sched

@[simp] theorem runFrom_nil (S : Sys σ) (s : σ) : S.runFrom s [] = s := rfl
@[simp] theorem runFrom_cons (S : Sys σ) (s : σ) (t : Tid) (ts : List Tid) :
    S.runFrom s (t :: ts) = S.runFrom (S.step s t) ts := rfl

theorem runFrom_append (S : Sys σ) (s : σ) (a b : List Tid) :
    S.runFrom s (a ++ b) = S.runFrom (S.runFrom s a) b := by
  simp [runFrom, List.foldl_append]

/-- An inductive invariant holds in every reachable state, for every schedule. -/
theorem inv_runFrom (S : Sys σ) (Inv : σ → Prop)
    (hstep : ∀ s t, Inv s → Inv (S.step s t)) :
    ∀ (sched : List Tid) (s : σ), Inv s → Inv (S.runFrom s sched) := by
  intro sched
  induction sched with
  | nil => intro s h; simpa using h
  | cons t ts ih => intro s h; exact ih _ (hstep s t h)

theorem inv_run (S : Sys σ) (Inv : σ → Prop) (h0 : Inv S.init)
    (hstep : ∀ s t, Inv s → Inv (S.step s t)) (sched : List Tid) : Inv (S.run sched) :=
  inv_runFrom S Inv hstep sched S.init h0

end Sys

/-- Operation-driven sequential machines: `step : σ → Op → σ × Out`. -/
structure Mach (σ Op Out : Type) where
  init : σ
  step : σ → Op → σ × Out

namespace Mach
variable {σ Op Out : Type}

def runFrom (M : Mach σ Op Out) (s : σ) : List Op → σ × List Out
  | [] => (s, [])
  | o :: os =>
    let (s', out) := M.step s o
    let (s'', outs) := M.runFrom s' os
    (s'', out :: outs)

def run (M : Mach σ Op Out) (ops : List Op) : σ × List Out := M.runFrom M.init ops

theorem inv_runFrom (M : Mach σ Op Out) (Inv : σ → Prop)
    (hstep : ∀ s o, Inv s → Inv (M.step s o).1) :
    ∀ (ops : List Op) (s : σ), Inv s → Inv (M.runFrom s ops).1 := by
  intro ops
  induction ops with
  | nil => intro s h; simpa [runFrom] using h
  | cons o os ih =>
    intro s h
    simp only [runFrom]
    exact ih _ (hstep s o h)

theorem inv_run (M : Mach σ Op Out) (Inv : σ → Prop) (h0 : Inv M.init)
    (hstep : ∀ s o, Inv s → Inv (M.step s o).1) (ops : List Op) : Inv (M.run ops).1 :=
  inv_runFrom M Inv hstep ops M.init h0

end Mach
end TbbVerif
