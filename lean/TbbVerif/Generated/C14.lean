-- GENERATED from /repo by checks/ on every run. Do not edit.
import TbbVerif.Core.Cint
namespace TbbVerif.Generated.C14
open TbbVerif.Cint
def tryputFree (conc maxc : Nat) : Bool := decide (conc < maxc)
def occupyFree (conc maxc : Nat) : Bool := decide (conc < maxc)
def doneFree (conc maxc : Nat) : Bool := decide (conc < maxc)
def fwdFree (conc maxc : Nat) : Bool := decide (conc < maxc)
def doneDecrement : Nat := 1
def fwdClearsBusy : Bool := true
def regPredSetsBusy : Bool := true

end TbbVerif.Generated.C14
