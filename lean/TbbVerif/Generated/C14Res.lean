-- GENERATED from /repo by checks/ on every run. Do not edit.
import TbbVerif.Core.Cint
namespace TbbVerif.Generated.C14Res
open TbbVerif.Cint
def skeletonKnown : Bool := true
def reserveChecksSrc : Bool := true
def limSetsReserved : Bool := true
def limFailReleases : Bool := true
def limFailGuarded : Bool := true
def limSuccessConsumes : Bool := true
def releaseNullTolerant : Bool := false
def consumeNullTolerant : Bool := false
def inReserveChecksReserved : Bool := true
def inBodyOnlyWhenEmpty : Bool := true
def inApplyReturnsOnFail : Bool := true
def inApplyConsumesOnAccept : Bool := true
def inApplyReleasesOnReject : Bool := true

end TbbVerif.Generated.C14Res
