-- GENERATED from /repo by checks/ on every run. Do not edit.
import TbbVerif.Core.Cint
namespace TbbVerif.Generated.C17
open TbbVerif.Cint
def maxSmallObjectSize : Nat := 64
def maxSegregatedObjectSize : Nat := 1024
def minSmallObjectIndex : Nat := 0
def numSmallObjectBins : Nat := 8
def minSegregatedObjectIndex : Nat := 8
def numSegregatedObjectBins : Nat := 16
def minFittingIndex : Nat := 24
def numFittingBins : Nat := 5
def numBlockBins : Nat := 29
def fittingAlignment : Nat := 64
def fittingSize1 : Nat := 1792
def fittingSize2 : Nat := 2688
def fittingSize3 : Nat := 4032
def fittingSize4 : Nat := 5376
def fittingSize5 : Nat := 8128
def minLargeObjectSize : Nat := 8129
def slabSize : Nat := 16384
def sizeofBlock : Nat := 128
def blockHeaderAlignment : Nat := 64
def estimatedCacheLineSize : Nat := 64
def largeObjectAlignment : Nat := 64
def sizeofLargeMemoryBlock : Nat := 88
def sizeofLargeObjectHdr : Nat := 16
def sizeofFreeObject : Nat := 8
def sizeofVoidP : Nat := 8
def sizeofSizeT : Nat := 8
def sizeofUnsigned : Nat := 4
def charBit : Nat := 8
def locMinLargeSize : Nat := 8192
def locMaxLargeSize : Nat := 8388608
def locMaxHugeSize : Nat := 1099511627776
def largeCacheStep : Nat := 8192
def largeNumBins : Nat := 1023
def hugeStepFactor : Nat := 8
def hugeStepFactorExp : Nat := 3
def hugeNumBins : Nat := 136
def defaultMaxHugeSize : Nat := 67108864
def sizeofMemRegion : Nat := 40
def freeBlockMinSize : Nat := 56
def sizeofLastFreeBlock : Nat := 64
def startupAllocObjSizeMark : Nat := 65535
def einval : Nat := 22
def enomem : Nat := 12
def is64bit : Nat := 1
def alignDown (arg : Nat) (alignment : Nat) : Nat :=
  (arg &&& (2^64 - 1 - (subU64 alignment (1 : Nat))))
def alignUp (arg : Nat) (alignment : Nat) : Nat :=
  (((arg + (subU64 alignment (1 : Nat))) % 2^64) &&& (2^64 - 1 - (subU64 alignment (1 : Nat))))
def aaCase1 (size : Nat) (alignment : Nat) : Bool :=
  ((decide (size ≤ (1024 : Nat))) && (decide (alignment ≤ (1024 : Nat))))
def aaReq1 (size : Nat) (alignment : Nat) : Nat :=
  (alignUp (if (decide (size ≠ 0)) then size else (8 : Nat)) alignment)
def aaSmall (size : Nat) (alignment : Nat) : Bool :=
  (decide (size < (8129 : Nat)))
def aaNatural (size : Nat) (alignment : Nat) : Bool :=
  (decide (alignment ≤ (64 : Nat)))
def aaReq2 (size : Nat) (alignment : Nat) : Nat :=
  size
def aaCase3 (size : Nat) (alignment : Nat) : Bool :=
  (decide (((size + alignment) % 2^64) < (8129 : Nat)))
def aaReq3 (size : Nat) (alignment : Nat) : Nat :=
  ((size + alignment) % 2^64)
def aaLargeAlign (size : Nat) (alignment : Nat) : Nat :=
  (if (decide ((64 : Nat) > alignment)) then (64 : Nat) else alignment)

end TbbVerif.Generated.C17
