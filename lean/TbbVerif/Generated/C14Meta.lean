-- GENERATED from /repo by checks/ on every run. Do not edit.
import TbbVerif.Core.Cint
namespace TbbVerif.Generated.C14Meta
open TbbVerif.Cint
def skeletonKnown : Bool := true
def taskPutBeforeFinalize : Bool := true
def pqrCopyBeforePop : Bool := true
def bufferPutBeforeDestroy : Bool := true
def joinPutBeforeAccepted : Bool := true
def limiterPutBeforeConsume : Bool := true
def slotReservesOnCopy : Bool := true
def slotReleasesOnDestroy : Bool := true
def taskReservesOnCopy : Bool := true
def taskReleasesOnFinalize : Bool := true
def tpwWaitsOnOwnVertex : Bool := true

end TbbVerif.Generated.C14Meta
