-- GENERATED from /repo by checks/ on every run. Do not edit.
import TbbVerif.Core.Cint
import TbbVerif.Generated.C17
namespace TbbVerif.Generated.C18
open TbbVerif.Cint
open TbbVerif.Generated.C17
set_option linter.unusedVariables false
def is_power_of_two (arg : Nat) : Bool :=
  ((decide (arg ≠ 0)) && (decide ((0 : Nat) = (arg &&& (subU64 arg (1 : Nat))))))
def is_power_of_two_at_least (arg : Nat) (divisor : Nat) : Bool :=
  (decide ((0 : Nat) = (arg &&& (subU64 arg divisor))))
def isPowerOfTwo (arg : Nat) : Bool :=
  (is_power_of_two arg)
def isPowerOfTwoAtLeast (arg : Nat) (power2 : Nat) : Bool :=
  ((decide (arg ≠ 0)) && (is_power_of_two_at_least arg power2))
def BitScanRev (x : Nat) : Int :=
  (if (decide (x = (0 : Nat))) then (wrapS 64 (wrapS 32 ((0 : Int) - (1 : Int)))) else (wrapS 64 (((Nat.log2 x) : Nat) : Int)))
def largeAlignToBin (size : Nat) : Nat :=
  (alignUp size (8192 : Nat))
def hugeAlignToBin (size : Nat) : Nat :=
  (alignUp size (((1 : Nat) <<< ((wrapS 32 ((wrapS 32 (BitScanRev size)) - (3 : Int)))).toNat) % 2^64))
def locAlignToBin (size : Nat) : Nat :=
  (if (decide (size < (8388608 : Nat))) then (largeAlignToBin size) else (hugeAlignToBin size))
def lloAllocationSize (size : Nat) (alignment : Nat) : Nat :=
  (locAlignToBin ((((size + (((88 : Nat) + (16 : Nat)) % 2^64)) % 2^64) + alignment) % 2^64))
def lloReject (size : Nat) (alignment : Nat) : Bool :=
  (decide ((locAlignToBin ((((size + (((88 : Nat) + (16 : Nat)) % 2^64)) % 2^64) + alignment) % 2^64)) < size))
def callocReject (nobj : Nat) (size : Nat) : Bool :=
  (((decide (nobj ≥ (((1 : Nat) <<< ((((8 : Nat) * (8 : Nat)) % 2^64) / (2 : Nat))) % 2^64))) || (decide (size ≥ (((1 : Nat) <<< ((((8 : Nat) * (8 : Nat)) % 2^64) / (2 : Nat))) % 2^64)))) && ((decide (nobj ≠ 0)) && (decide ((((nobj * size) % 2^64) / nobj) ≠ size))))
def callocRequest (nobj : Nat) (size : Nat) : Nat :=
  ((nobj * size) % 2^64)
def posixMemalignReject (alignment : Nat) (size : Nat) : Bool :=
  (!(isPowerOfTwoAtLeast alignment (8 : Nat)))
def alignedMallocReject (size : Nat) (alignment : Nat) : Bool :=
  ((!(isPowerOfTwo alignment)) || (decide ((0 : Nat) = size)))
def alignedReallocReject (size : Nat) (alignment : Nat) : Bool :=
  (!(isPowerOfTwo alignment))
def remapAlignedSize (newSize : Nat) (userOffset : Nat) (granularity : Nat) : Nat :=
  (locAlignToBin ((newSize + userOffset) % 2^64))
def remapRequestSize (newSize : Nat) (userOffset : Nat) (granularity : Nat) : Nat :=
  (alignUp (((((40 : Nat) + (locAlignToBin ((newSize + userOffset) % 2^64))) % 2^64) + (64 : Nat)) % 2^64) granularity)
def remapReject (newSize : Nat) (userOffset : Nat) (granularity : Nat) : Bool :=
  (((decide ((locAlignToBin ((newSize + userOffset) % 2^64)) < newSize)) || (decide ((alignUp (((((40 : Nat) + (locAlignToBin ((newSize + userOffset) % 2^64))) % 2^64) + (64 : Nat)) % 2^64) granularity) < (locAlignToBin ((newSize + userOffset) % 2^64))))))
def poolCreateInvalid (pAlloc : Nat) (pFree : Nat) (version : Int) (fixedPool : Bool) (reserved : Nat) : Bool :=
  (((!(decide (pAlloc ≠ 0))) || (decide (version < (1 : Int)))) || (!(fixedPool || (decide (pFree ≠ 0)))))
def poolCreateUnsupported (pAlloc : Nat) (pFree : Nat) (version : Int) (fixedPool : Bool) (reserved : Nat) : Bool :=
  ((decide (version > (1 : Int))) || (decide (reserved ≠ 0)))
def poolVersion : Int := 1
def poolAlignedMallocReject (size : Nat) (alignment : Nat) : Bool :=
  ((!(isPowerOfTwo alignment)) || (decide ((0 : Nat) = size)))
def poolAlignedReallocReject (size : Nat) (alignment : Nat) : Bool :=
  (!(isPowerOfTwo alignment))
def reallocCopyLen (copySize : Nat) (newSize : Nat) : Nat :=
  (if (decide (copySize < newSize)) then copySize else newSize)
def cacheAlignedReject (size : Nat) (cache_line_size : Nat) : Bool :=
  (decide (((size + cache_line_size) % 2^64) < size))
def scalableAllocatorReject (n : Nat) (sizeofT : Nat) : Bool :=
  (decide (n > ((wrapU 64 (wrapS 32 ((0 : Int) - (1 : Int)))) / sizeofT)))
def scalableAllocatorArg (n : Nat) (sizeofT : Nat) : Nat :=
  ((n * sizeofT) % 2^64)
def poolAllocatorReject (n : Nat) (sizeofT : Nat) : Bool :=
  (decide (n > ((wrapU 64 (wrapS 32 ((0 : Int) - (1 : Int)))) / sizeofT)))
def poolAllocatorArg (n : Nat) (sizeofT : Nat) : Nat :=
  ((n * sizeofT) % 2^64)
def cacheAlignedAllocatorArg (n : Nat) (sizeofT : Nat) : Nat :=
  ((n * sizeofT) % 2^64)
def tbbAllocatorArg (n : Nat) (sizeofT : Nat) : Nat :=
  ((n * sizeofT) % 2^64)
def carCorrectSize (bytes : Nat) (alignment : Nat) (cache_line_size : Nat) : Nat :=
  (if (decide (bytes < (8 : Nat))) then (8 : Nat) else bytes)
def carCorrectAlignment (bytes : Nat) (alignment : Nat) (cache_line_size : Nat) : Nat :=
  (if (decide (alignment < cache_line_size)) then cache_line_size else alignment)
def carSpace (bytes : Nat) (alignment : Nat) (cache_line_size : Nat) : Nat :=
  (((carCorrectSize bytes alignment cache_line_size) + (carCorrectAlignment bytes alignment cache_line_size)) % 2^64)

end TbbVerif.Generated.C18
