-- GENERATED from /repo by checks/ on every run. Do not edit.
import TbbVerif.Core.Cint
namespace TbbVerif.Generated.C12
open TbbVerif.Cint
def defaultBucketCount : Nat := 8
def defaultMaxLoadFactorMilli : Nat := 4000
def initialBucketCount : Nat := 8
def initialMaxLoadFactorMilli : Nat := 4000
def pointersPerEmbeddedTable : Nat := 63
def roundUp5 : Nat := 8
def roundUp8 : Nat := 8
def skipMaxLevel : Nat := 32
def sokeyBits : Nat := 64

end TbbVerif.Generated.C12
