-- GENERATED from /repo by checks/ on every run. Do not edit.
import TbbVerif.Core.Cint
import TbbVerif.Model.C12F32
namespace TbbVerif.Generated.C12
open TbbVerif.Cint
set_option linter.unusedVariables false
def defaultBucketCount : Nat := 8
def defaultMaxLoadFactorMilli : Nat := 4000
def initialBucketCount : Nat := 8
def initialMaxLoadFactorMilli : Nat := 4000
def initialMlfBits : Nat := 1082130432
def pointersPerEmbeddedTable : Nat := 63
def roundUp5 : Nat := 8
def roundUp8 : Nat := 8
def skipMaxLevel : Nat := 32
def sokeyBits : Nat := 64
open TbbVerif.C12
def roundUp (x : Nat) : Nat := (((wrapU 64 (1 : Int)) <<< (wrapU 64 ((clog2 (wrapU 64 ((((((if (decide (x = (wrapU 64 (0 : Int)))) then (wrapU 64 (1 : Int)) else x) * (wrapU 64 (2 : Int))) % 2^64) : Nat) : Int) - (((wrapU 64 (1 : Int)) : Nat) : Int))) : Nat) : Int))) % 2^64)
def ctorBc (x : Nat) : Nat := (roundUp x)
def rehashCond (cur n : Nat) : Bool := (decide (cur < n))
def rehashNew (cur n : Nat) : Nat := (roundUp n)
def reserveInit (cur n : Nat) (mlf : F32) : Nat := cur
def reserveCond (cur nec n : Nat) (mlf : F32) : Bool := (F32.lt (F32.mul (F32.ofNat nec) mlf) (F32.ofNat n))
def reserveStep (cur nec n : Nat) (mlf : F32) : Nat := ((nec <<< ((1 : Int)).toNat) % 2^64)
def reserveDesired (cur nec n : Nat) (mlf : F32) : Nat := nec
def reserveBreak (cur nec n : Nat) (mlf : F32) : Bool := (decide (cur ≥ nec))
def adjustCond (total cur : Nat) (mlf : F32) : Bool := (F32.lt mlf (F32.div (F32.ofNat total) (F32.ofNat cur)))
def adjustNew (total cur : Nat) (mlf : F32) : Nat := (((wrapU 64 (2 : Int)) * cur) % 2^64)
def mlfReject (mlf : F32) : Bool := ((!(F32.eq mlf mlf)) || (F32.lt mlf (F32.ofNat ((0 : Int)).toNat)))
def bucketCountWriters : List String := ["init: round_up_to_power_of_two(bucket_count)",
  "init: other.my_bucket_count.load(std::memory_order_relaxed)",
  "init: other.my_bucket_count.load(std::memory_order_relaxed)",
  "init: other.my_bucket_count.load(std::memory_order_relaxed)",
  "init: other.my_bucket_count.load(std::memory_order_relaxed)",
  "store: other.my_bucket_count.load(std::memory_order_relaxed), std::memory_order_relaxed",
  "store: other.my_bucket_count.load(std::memory_order_relaxed), std::memory_order_relaxed",
  "compare_exchange_strong: current_bucket_count, round_up_to_power_of_two(bucket_count)",
  "compare_exchange_strong: current_bucket_count, necessary_bucket_count",
  "compare_exchange_strong: current_size, 2u * current_size",
  "store: initial_bucket_count, std::memory_order_relaxed",
  "store: other.my_bucket_count.load(std::memory_order_relaxed), std::memory_order_relaxed",
  "store: bucket_count, std::memory_order_relaxed"]
def insertDummyNodeSkeleton : List String := ["(parent_dummy_node, order_key)",
  "node_ptr prev_node = parent_dummy_node",
  "node_ptr dummy_node = create_dummy_node(order_key)",
  "node_ptr next_node",
  "do {",
  "next_node = prev_node->next()",
  "while (next_node != nullptr && next_node->order_key() < order_key) {",
  "prev_node = next_node",
  "next_node = next_node->next()",
  "}",
  "if (next_node != nullptr && next_node->order_key() == order_key) {",
  "destroy_node(dummy_node)",
  "return next_node",
  "}",
  "}",
  "while (!try_insert(prev_node, dummy_node, next_node))",
  "return dummy_node"]
def tryInsertSkeleton : List String := ["(prev_node, new_node, current_next_node)",
  "new_node->set_next(current_next_node)",
  "return prev_node->try_set_next(current_next_node, new_node)"]
def searchAfterSkeleton : List String := ["(prev, order_key, key)",
  "node_ptr curr = prev->next()",
  "while (curr != nullptr && (curr->order_key() < order_key || (curr->order_key() == order_key && !my_hash_compare(traits_type::get_key(static_cast<value_node_ptr>(curr)->value()), key)))) {",
  "prev = curr",
  "curr = curr->next()",
  "}",
  "if (curr != nullptr && curr->order_key() == order_key && !allow_multimapping) {",
  "return {",
  "static_cast<value_node_ptr>(curr), true",
  "}",
  "}",
  "return {",
  "static_cast<value_node_ptr>(curr), false",
  "}"]
def initBucketSkeleton : List String := ["(bucket)",
  "if (bucket == 0) {",
  "node_ptr disabled = nullptr",
  "my_segments[0].compare_exchange_strong(disabled, &my_head)",
  "return",
  "}",
  "size_type parent_bucket = get_parent(bucket)",
  "while (my_segments[parent_bucket].load(std::memory_order_acquire) == nullptr) {",
  "init_bucket(parent_bucket)",
  "}",
  "node_ptr parent = my_segments[parent_bucket].load(std::memory_order_acquire)",
  "node_ptr dummy_node = insert_dummy_node(parent, split_order_key_dummy(bucket))",
  "my_segments[bucket].store(dummy_node, std::memory_order_release)"]
def getBucketSkeleton : List String := ["(bucket_index)",
  "if (my_segments[bucket_index].load(std::memory_order_acquire) == nullptr) {",
  "init_bucket(bucket_index)",
  "}",
  "return my_segments[bucket_index].load(std::memory_order_acquire)"]
def prepareBucketSkeleton : List String := ["(hash_key)",
  "size_type bucket = hash_key % my_bucket_count.load(std::memory_order_acquire)",
  "return get_bucket(bucket)"]
def internalInsertRetrySkeleton : List String := ["while (!try_insert(prev, new_node, curr)) {",
  "search_result = search_after(prev, order_key, key)",
  "if (search_result.second) {",
  "return internal_insert_return_type {",
  "new_node, search_result.first, false",
  "}",
  "}",
  "curr = search_result.first",
  "}"]
def slFreeOnThrowUnlinked : Bool := false
def slFreeOnThrowLinked : Bool := false
def uoFreeOnThrowUnlinked : Bool := false
def slThrowSitesAfterLink : List String := ["internal_find_position"]
def uoThrowSitesAfterLink : List String := []

end TbbVerif.Generated.C12
