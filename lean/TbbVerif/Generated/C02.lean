-- GENERATED from /repo by checks/ on every run. Do not edit.
import TbbVerif.Core.Cint
import TbbVerif.Model.C02
namespace TbbVerif.Generated.C02
open TbbVerif.Cint
open TbbVerif.C02.Tso
def prepFence : Bool := true
def unlockRmw : Bool := true
def notifyFence : Bool := true
def chgRmw : Bool := false
def ordersX86 : Orders := ⟨prepFence, unlockRmw, notifyFence, chgRmw, true⟩
def ordersPortable : Orders := ⟨prepFence, unlockRmw, notifyFence, chgRmw, false⟩
def enqueueFence : Bool := true
def sites : List (String × String × String × String) := [("notifier", "fence", "-", "sc"), ("notifier", "fwake", "sem", "sc"), ("notifier", "load", "count", "rlx"), ("notifier", "load", "epoch", "rlx"), ("notifier", "load", "mwait", "rlx"), ("notifier", "store", "cond", "rlx"), ("notifier", "store", "count", "rlx"), ("notifier", "store", "epoch", "rlx"), ("notifier", "store", "inl", "rlx"), ("notifier", "xchg", "mflag", "sc"), ("notifier", "xchg", "sem", "sc"), ("sleeper", "cas", "sem", "sc"), ("sleeper", "fence", "-", "sc"), ("sleeper", "fwait", "sem", "sc"), ("sleeper", "load", "cond", "rlx"), ("sleeper", "load", "count", "rlx"), ("sleeper", "load", "epoch", "rlx"), ("sleeper", "load", "mwait", "rlx"), ("sleeper", "store", "count", "rlx"), ("sleeper", "store", "inl", "rlx"), ("sleeper", "store", "sem", "sc"), ("sleeper", "xchg", "mflag", "sc"), ("sleeper", "xchg", "sem", "sc")]
open TbbVerif.C02 in
def scanObs : List (List Nat × NKind × List Nat) := [([1, 2, 1], .onec 1, [2]), ([1, 2, 1], .ctx 1, [2, 0]), ([1, 2, 3], .onec 1, [0]), ([1, 2, 3], .onec 2, [1]), ([1, 2, 3], .onec 3, [2]), ([1, 2, 3], .onec 9, []), ([1, 2, 3], .ctx 1, [0]), ([1, 2, 3], .ctx 3, [2]), ([2, 1, 1], .onec 1, [2]), ([1, 1, 2], .onec 1, [1]), ([1, 1, 2], .ctx 1, [1, 0]), ([1, 2, 3], .one, [0]), ([1, 2], .all, [0, 1]), ([2, 1], .abort, [0, 1]), ([1, 2], .ctx 7, [])]

end TbbVerif.Generated.C02
