-- GENERATED from /repo by checks/ on every run. Do not edit.
import TbbVerif.Core.Cint
namespace TbbVerif.Generated.C05
open TbbVerif.Cint
def poolCapacity : Nat := 8
def depthBits : Nat := 8
def initDepthAuto : Nat := 5
def initDepthAffinity : Nat := 5
def demandDepthAdd : Nat := 1
def affinityFactor : Nat := 16
def autoDivPerThread : Nat := 2
def staticDivPerThread : Nat := 1
def affinityDivPerThread : Nat := 16
def sizeTypeBits : Nat := 64
def floatMantBits : Nat := 24
def doubleMantBits : Nat := 53
def sel2Guarded : Bool := true
def sel3Guarded : Bool := true
def selNdGuarded : Bool := true

end TbbVerif.Generated.C05
