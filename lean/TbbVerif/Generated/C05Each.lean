-- GENERATED from /repo by checks/ on every run. Do not edit.
import TbbVerif.Core.Cint
namespace TbbVerif.Generated.C05Each
open TbbVerif.Cint
def maxBlockInput : Nat := 4
def maxBlockForward : Nat := 4
def dispatchPointer : Nat := 2
def dispatchVector : Nat := 2
def dispatchDeque : Nat := 2
def dispatchList : Nat := 1
def dispatchForwardList : Nat := 1
def dispatchIstream : Nat := 0
def dispatchCustomRandom : Nat := 2
def dispatchCustomForward : Nat := 1
def dispatchCustomInput : Nat := 0
def dispatchMoveVector : Nat := 2
def dispatchMoveList : Nat := 1
def invokeGroup : Nat := 3
def invokeSubrootRefs : Nat := 3
def invokeSubrootSpawns : Nat := 2

end TbbVerif.Generated.C05Each
