-- GENERATED from /repo by checks/ on every run. Do not edit.
import TbbVerif.Core.Cint
namespace TbbVerif.Generated.C14Wait
open TbbVerif.Cint
def skeletonKnown : Bool := true
def refReserveOnZero : Bool := true
def refReleaseOnZero : Bool := true
def taskCtorReserves : Bool := true
def taskFinalizeReleases : Bool := true
def reserveWaitReserves : Bool := true
def releaseWaitReleases : Bool := true
def waitWhilePositive : Bool := true

end TbbVerif.Generated.C14Wait
