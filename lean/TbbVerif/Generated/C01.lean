-- GENERATED from /repo by checks/ on every run. Do not edit.
import TbbVerif.Core.Cint
import TbbVerif.Model.C01Tso
namespace TbbVerif.Generated.C01
open TbbVerif.Cint
def emptyTaskPool : Nat := 0
def lockedTaskPoolIsAllOnes : Nat := 1
def minTaskPoolSize : Nat := 64
def poolGranule : Nat := 16
def proxyLocationMask : Nat := 3
def proxyMailboxBit : Nat := 2
def proxyPoolBit : Nat := 1
def waitNodeRef : Nat := 1
def waitNodeWait : Nat := 1
def dispatchOrder : List String := ["bypass", "local", "mailbox", "resume", "fifo", "steal", "critical"]
def dequeOrders : TbbVerif.C01.DequeTso.Orders := ⟨true, false, true, false⟩
def dequeSites : List (String × String × String × String) := [("owner", "head", "load", "acq"), ("owner", "head", "load", "rlx"), ("owner", "head", "store", "rlx"), ("owner", "pool", "cas", "sc"), ("owner", "pool", "load", "rlx"), ("owner", "pool", "store", "rel"), ("owner", "pool", "store", "rlx"), ("owner", "tail", "fsub", "sc"), ("owner", "tail", "load", "rlx"), ("owner", "tail", "store", "rel"), ("owner", "tail", "store", "rlx"), ("thief", "head", "fadd", "sc"), ("thief", "head", "load", "rlx"), ("thief", "head", "store", "rlx"), ("thief", "pool", "cas", "sc"), ("thief", "pool", "load", "rlx"), ("thief", "pool", "store", "rel"), ("thief", "tail", "load", "acq")]

end TbbVerif.Generated.C01
