-- GENERATED from /repo by checks/ on every run. Do not edit.
import TbbVerif.Core.Cint
namespace TbbVerif.Generated.C01
open TbbVerif.Cint
def emptyTaskPool : Nat := 0
def lockedTaskPoolIsAllOnes : Nat := 1
def minTaskPoolSize : Nat := 64
def poolGranule : Nat := 16
def proxyLocationMask : Nat := 3
def proxyMailboxBit : Nat := 2
def proxyPoolBit : Nat := 1
def waitNodeRef : Nat := 1
def waitNodeWait : Nat := 1

end TbbVerif.Generated.C01
