-- GENERATED from /repo by checks/ on every run. Do not edit.
import TbbVerif.Core.Cint
import TbbVerif.Generated.C17
import TbbVerif.Generated.C18
namespace TbbVerif.Generated.C17Backend
open TbbVerif.Cint
open TbbVerif.Generated.C17
set_option linter.unusedVariables false
def beMinBinnedSize : Nat := 8192
def beMaxBinnedSmallPage : Nat := 1048576
def beMaxBinnedHugePage : Nat := 4194304
def beFreeBinsStep : Nat := 8192
def beFreeBinsNum : Nat := 512
def beHugeBin : Nat := 511
def beNumOfSlabAllocOnMiss : Nat := 2
def gsLocked : Nat := 0
def gsCoalBlock : Nat := 1
def gsMaxLockedVal : Nat := 1
def gsLastRegionBlock : Nat := 2
def gsMaxSpecVal : Nat := 2
def beMinBlockSize : Nat := 56
def beSizeofFreeBlock : Nat := 56
def beSizeofLastFreeBlock : Nat := 64
def beSizeofMemRegion : Nat := 40
def beSizeofBlockI : Nat := 16
def beSizeofBlockMutexes : Nat := 16
def beSlabSize : Nat := 16384
def beLargeObjectAlignment : Nat := 64
def beRegSlab : Nat := 0
def beRegLarge : Nat := 1
def beRegOne : Nat := 2
def beBootstrapRegionSize : Nat := 2097152
def brMaxCnt : Nat := 2040
def brSizeofBackRefBlock : Nat := 64
def brBlockBytes : Nat := 16384
def brMainBytes : Nat := 262144
def brDataSz : Nat := 32762
def brLeaves : Nat := 4
def brMainSize : Nat := 327680
def brBlockSpaceSize : Nat := 65536
def brSizeofMain : Nat := 56
def brSizeofIdx : Nat := 8
def brMainBits : Nat := 32
def brInvalidMain : Nat := 4294967295
def brOffsetofIdxInBlock : Nat := 112
def brOffsetofIdxInHdr : Nat := 8
def brOffsetofIdxInLmb : Nat := 80
def beOffsetofUnalignedSize : Nat := 72
def beSizeofLargeMemoryBlock : Nat := 88
def beSizeofLargeObjectHdr : Nat := 16
def beSizeofBlock : Nat := 128
def be64 : Nat := 1
def sizeToBinG (size : Nat) : Int :=
  (if (decide (size ≥ (4194304 : Nat))) then (511 : Int) else (if (decide (size < (8192 : Nat))) then (-1 : Int) else (wrapS 32 ((((subU64 size (8192 : Nat)) / (8192 : Nat)) : Nat) : Int))))
def isAlignedG (pointer : Nat) (alignment : Nat) : Bool :=
  (decide ((0 : Nat) = (pointer &&& (subU64 alignment (1 : Nat)))))
def toAlignedBinG (block : Nat) (size : Nat) : Bool :=
  ((isAlignedG ((block + size) % 2^64) (16384 : Nat)) && (decide (size ≥ (16384 : Nat))))
def fitGeneralG (curr : Nat) (szBlock : Nat) (size : Nat) : Bool :=
  ((decide (szBlock ≥ size)) && ((decide ((subU64 szBlock size) ≥ (56 : Nat))) || (!(decide ((subU64 szBlock size) ≠ 0)))))
def fitAlignedG (curr : Nat) (szBlock : Nat) (size : Nat) : Bool :=
  (((decide ((((alignUp curr (16384 : Nat)) + size) % 2^64) ≤ ((curr + szBlock) % 2^64))) && ((decide ((alignUp curr (16384 : Nat)) = curr)) || (decide ((subU64 (alignUp curr (16384 : Nat)) curr) ≥ (56 : Nat))))) && ((decide ((((alignUp curr (16384 : Nat)) + size) % 2^64) = ((curr + szBlock) % 2^64))) || (decide ((subU64 ((curr + szBlock) % 2^64) (((alignUp curr (16384 : Nat)) + size) % 2^64)) ≥ (56 : Nat)))))
def getBackRefRejectG (lastUsed : Int) (idxMain : Nat) (idxOffset : Nat) : Bool :=
  ((decide ((wrapS 64 ((idxMain : Nat) : Int)) > lastUsed)) || (decide ((wrapS 32 ((idxOffset : Nat) : Int)) ≥ (2040 : Int))))
def remapUserOffsetG (ptr : Nat) (region : Nat) (oldSize : Nat) (newSize : Nat) (alignment : Nat) (granularity : Nat) : Nat :=
  (subU64 ptr region)
def remapAlignedSizeG (ptr : Nat) (region : Nat) (oldSize : Nat) (newSize : Nat) (alignment : Nat) (granularity : Nat) : Nat :=
  (TbbVerif.Generated.C18.locAlignToBin ((newSize + (subU64 ptr region)) % 2^64))
def remapRequestSizeG (ptr : Nat) (region : Nat) (oldSize : Nat) (newSize : Nat) (alignment : Nat) (granularity : Nat) : Nat :=
  (alignUp (((((40 : Nat) + (TbbVerif.Generated.C18.locAlignToBin ((newSize + (subU64 ptr region)) % 2^64))) % 2^64) + (64 : Nat)) % 2^64) granularity)
def remapRejectG (ptr : Nat) (region : Nat) (oldSize : Nat) (newSize : Nat) (alignment : Nat) (granularity : Nat) : Bool :=
  ((decide ((TbbVerif.Generated.C18.locAlignToBin ((newSize + (subU64 ptr region)) % 2^64)) < newSize)) || (decide ((alignUp (((((40 : Nat) + (TbbVerif.Generated.C18.locAlignToBin ((newSize + (subU64 ptr region)) % 2^64))) % 2^64) + (64 : Nat)) % 2^64) granularity) < (TbbVerif.Generated.C18.locAlignToBin ((newSize + (subU64 ptr region)) % 2^64)))))
def remapEarlyRejectG (inUserPool : Bool) (ptr : Nat) (region : Nat) (oldSize : Nat) (newSize : Nat) (alignment : Nat) (granularity : Nat) : Bool :=
  (((inUserPool || (decide ((min oldSize newSize) < (1048576 : Nat)))) || (!(isAlignedG ptr alignment))) || (decide (alignment > granularity)))
def remapBlockG (newRegion : Nat) (userOffset : Nat) : Nat :=
  (alignUp ((newRegion + (40 : Nat)) % 2^64) (64 : Nat))
def remapObjectG (newRegion : Nat) (userOffset : Nat) : Nat :=
  ((newRegion + userOffset) % 2^64)
def callocMemsetG (arraySize : Nat) : Bool :=
  ((!(true) || true))

end TbbVerif.Generated.C17Backend
