-- GENERATED from /repo by checks/ on every run. Do not edit.
import TbbVerif.Core.Cint
namespace TbbVerif.Generated.C15
open TbbVerif.Cint
def initialBufferSize : Nat := 4
def hashInitialSize : Nat := 8
def sizeofSizeT : Nat := 8
def bufferPopMode : Nat := 1
def tfRegSucc : Nat := 1
def tfRemSucc : Nat := 0
def tfReqItem : Nat := 0
def tfResItem : Nat := 0
def tfRelRes : Nat := 1
def tfConRes : Nat := 1
def tfPutItem : Nat := 3
def tfTryFwd : Nat := 0
def slotIdx (i n : Nat) : Nat := (i &&& (wrapU 64 (((n : Nat) : Int) - (((wrapU 64 (1 : Int)) : Nat) : Int))))
def itemValid (i head tail st : Nat) : Bool := (((decide (i < tail)) && (decide (i ≥ head))) && (decide (st ≠ (0 : Nat))))
def sizeOf (newTail tail head : Nat) : Nat := (wrapU 64 ((((if (decide (newTail ≠ 0)) then newTail else tail) : Nat) : Int) - ((head : Nat) : Int)))
def growInit (n ibs : Nat) : Nat := (if (decide (n ≠ 0)) then (((wrapU 64 (2 : Int)) * n) % 2^64) else ibs)
def growCond (ns m : Nat) : Bool := (decide (ns < m))
def seqStale (tag head : Nat) : Bool := (decide (tag < head))
def seqNewTail (tag tail : Nat) : Nat := (if (decide (((tag + (wrapU 64 (1 : Int))) % 2^64) > tail)) then ((tag + (wrapU 64 (1 : Int))) % 2^64) else tail)
def seqGrowCond (sz cap : Nat) : Bool := (decide (sz > cap))

end TbbVerif.Generated.C15
