-- GENERATED from /repo by checks/ on every run. Do not edit.
import TbbVerif.Core.Cint
namespace TbbVerif.Generated.C15
open TbbVerif.Cint
def initialBufferSize : Nat := 4
def hashInitialSize : Nat := 8
def bufferPopMode : Nat := 1

end TbbVerif.Generated.C15
