-- GENERATED from /repo by checks/ on every run. Do not edit.
import TbbVerif.Core.Cint
namespace TbbVerif.Generated.C06
open TbbVerif.Cint
set_option linter.unusedVariables false
def sortGrainsize : Nat := 500
def minParallelSize : Nat := 500
def serialCutoff : Nat := 9
def pretestPoll : Nat := 64
def pretestBegin : Nat := 10
def medianDivisor : Nat := 8
def probeStart : Nat := 0
def probeEnd : Nat := 9
def probeArg1 : Nat := 1
def probeArg2 : Nat := 0
def pretestArg1 : Nat := 1
def pretestArg2 : Nat := 0
def scanTreatAsStolen (isRight stolen bodyNeLeftSum : Bool) : Bool := (isRight && (stolen || bodyNeLeftSum))
def scanGuardReadsLeftSum (isRight stolen bodyNeLeftSum : Bool) : Bool := (false || (isRight && (false || (!stolen && true))))
def scanFinishJoins (zombie ss : Bool) : Bool := (zombie && ss)
def scanFinishJoinRecvSlot : Bool := true
def scanKeeps (zombie right : Bool) : Bool := (zombie || right)
def scanResetsLeftIsFinal (left : Bool) : Bool := left
def scanNodeJoinRecvLeftSum : Bool := true
def scanLeafCond (isRight tas divisible exec : Bool) : Bool := (((isRight && (!tas)) || (!divisible)) || exec)
def scanLeafMode (isFinal ss : Bool) : Nat := if isFinal then 2 else if ss then 1 else 0
def scanLeafWritesSlot (ss : Bool) : Bool := ss
def scanStolenClearsFinal : Bool := true
def scanPass2Skeleton : Bool := true
def reduceSplitsBody (isRight : Bool) (parentRef : Nat) (stolen : Bool) : Bool := (isRight && (parentRef == 2))

end TbbVerif.Generated.C06
