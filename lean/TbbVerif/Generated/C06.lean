-- GENERATED from /tmp/wt_seed by checks/ on every run. Do not edit.
import TbbVerif.Core.Cint
namespace TbbVerif.Generated.C06
open TbbVerif.Cint
def sortGrainsize : Nat := 500
def minParallelSize : Nat := 500
def serialCutoff : Nat := 9
def pretestPoll : Nat := 64
def pretestStartOffset : Nat := 1
def medianDivisor : Nat := 8

end TbbVerif.Generated.C06
