-- GENERATED from /repo by checks/ on every run. Do not edit.
import TbbVerif.Core.Cint
namespace TbbVerif.Generated.C03
open TbbVerif.Cint
def cancelXchgOrder : Nat := 5
def excStoreOrder : Nat := 3
def excLoadOrder : Nat := 2
def execSkel : List Nat := [1, 1, 1, 1, 0, 1, 2, 1, 1, 1, 1]
def graphSkel : List Nat := [1, 1, 1, 1, 1, 1, 1, 1, 1, 1, 1]
def pipeSkel : List Nat := [1, 1, 1, 1, 1, 1, 1, 1, 1]
def tgSkel : List Nat := [1, 1, 1, 1, 1, 1]
def catchSkel : List Nat := [1, 1, 1]

end TbbVerif.Generated.C03
