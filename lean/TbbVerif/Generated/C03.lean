-- GENERATED from /repo by checks/ on every run. Do not edit.
import TbbVerif.Core.Cint
namespace TbbVerif.Generated.C03
open TbbVerif.Cint
def cancelXchgOrder : Nat := 5
def excStoreOrder : Nat := 3
def excLoadOrder : Nat := 2

end TbbVerif.Generated.C03
