-- GENERATED from /repo by checks/ on every run. Do not edit.
import TbbVerif.Core.Cint
namespace TbbVerif.Generated.C20
open TbbVerif.Cint
def ssActive : Nat := 0
def ssNotified : Nat := 2
def ssSize : Nat := 4
def ssSuspended : Nat := 1

end TbbVerif.Generated.C20
