-- GENERATED from /repo by checks/ on every run. Do not edit.
import TbbVerif.Core.Cint
namespace TbbVerif.Generated.C20
open TbbVerif.Cint
def actCleanup : Nat := 2
def actInvalid : Nat := 0
def actNone : Nat := 4
def actNotify : Nat := 3
def actRegisterWaiter : Nat := 1
def ssActive : Nat := 0
def ssNotified : Nat := 2
def ssSize : Nat := 4
def ssSuspended : Nat := 1
/-- coroutine_waiter::pause: `!my_arena.is_empty() || sp->m_is_owner_recalled.load(std::memory_order_relaxed)` -/
def coWakeupPred (non_empty recalled : Bool) : Bool := ((!(!non_empty)) || recalled)
def hasTasksScansResume : Bool := true
def resumeAdvertises : Bool := true
def resumePushFirst : Bool := true
def recallNotifies : Bool := true
def omitLocal (isolation task_iso : Nat) : Bool := ((decide (isolation ≠ (0 : Nat))) && (decide (isolation ≠ task_iso)))
def stealOk (isolation task_iso : Nat) : Bool := ((decide (isolation = (0 : Nat))) || (decide (isolation = task_iso)))
def mailSkip (isolation task_iso : Nat) : Bool := ((decide (isolation ≠ (0 : Nat))) && (decide (task_iso ≠ isolation)))
def fifoOk (isolation : Nat) : Bool := (true && (decide (isolation = (0 : Nat))))
def critSpecific (isolation : Nat) : Bool := (decide (isolation ≠ (0 : Nat)))
/-- arena_co_cache capacity = coCacheFactor * num_slots (arena.cpp `my_co_cache.init`) -/
def coCacheFactor : Nat := 4
def poolPopClears : Bool := true
def poolFinalizeFirst : Bool := true
def poolRecallChecked : Bool := true
def poolActionBeforeSwitch : Bool := true
def poolClearsAction : Bool := true
def poolCleanupCaches : Bool := true
def poolRecallPointGuard : Bool := true
def poolXchgThenPush : Bool := true
def poolSelfRecallChecked : Bool := true
/-- function_task / start_for / delegated_task: the body runs, then finalize releases the wait reference -/
def waitReleaseAfterBody : Bool := true
/-- isolation of the dispatcher a suspending thread moves onto, as a function of the suspender's (observed on 28 suspensions) -/
def coInit (suspender_iso : Nat) : Nat := 0

end TbbVerif.Generated.C20
