-- GENERATED from /repo by checks/ on every run. Do not edit.
import TbbVerif.Core.Cint
namespace TbbVerif.Generated.C04
open TbbVerif.Cint
/-- the mutex bind_to_impl's fall-back locks -/
def fallbackLock : String := "the_context_state_propagation_mutex"
/-- mutexes the propagator holds from the epoch increment to the end of the walk -/
def propagatorLocks : List String := ["my_threads_list_mutex", "the_context_state_propagation_mutex"]
def propagatorHoldsPropagationMutex : Bool := true
def bindCopyNeverClears : Bool := true
/-- the members of its own context that task_group_context_impl::reset stores to, in program order -/
def resetStores : List String := ["my_exception", "my_cancellation_requested"]
/-- the stores of reset to the modelled fields, in program order (0 = my_cancellation_requested := 0, 1 = my_may_have_children := 0) -/
def resetSeqCode : List Nat := [0]
def resetClearsCancelFlag : Bool := resetSeqCode.contains 0
def resetClearsMayHaveChildren : Bool := resetSeqCode.contains 1

end TbbVerif.Generated.C04
