-- GENERATED from /repo by checks/ on every run. Do not edit.
import TbbVerif.Core.Cint
namespace TbbVerif.Generated.C04
open TbbVerif.Cint
/-- the mutex bind_to_impl's fall-back locks -/
def fallbackLock : String := "the_context_state_propagation_mutex"
/-- mutexes the propagator holds from the epoch increment to the end of the walk -/
def propagatorLocks : List String := ["my_threads_list_mutex", "the_context_state_propagation_mutex"]
def propagatorHoldsPropagationMutex : Bool := true
def bindCopyNeverClears : Bool := true

end TbbVerif.Generated.C04
