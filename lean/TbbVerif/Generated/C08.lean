-- GENERATED from /repo by checks/ on every run. Do not edit.
import TbbVerif.Core.Cint
namespace TbbVerif.Generated.C08
open TbbVerif.Cint
def rwOneReader : Nat := 4
def rwWriter : Nat := 1
def rwWriterPending : Nat := 2
def spinBusyLow : Nat := 253
def spinOneReader : Nat := 4
def spinReadersMaskLow : Nat := 252
def spinWriter : Nat := 1
def spinWriterPending : Nat := 2

end TbbVerif.Generated.C08
