-- GENERATED from /repo by checks/ on every run. Do not edit.
import TbbVerif.Core.Cint
namespace TbbVerif.Generated.C08
open TbbVerif.Cint
def rwOneReader : Nat := 4
def rwWriter : Nat := 1
def rwWriterPending : Nat := 2
def spinBusyLow : Nat := 253
def spinChecks : Nat := 38
def spinOneReader : Nat := 4
def spinReadersMaskLow : Nat := 252
def spinWriter : Nat := 1
def spinWriterPending : Nat := 2
/-- (lock kind, variable, access kind, std::memory_order executed, role: 1 acquiring / 2 releasing), from the E-SHIM traces -/
def orders : List (String × String × String × Nat × Nat) := [
  ("mutex", "word", "xchg", 5, 1),
  ("mutex", "word", "xchg", 5, 2),
  ("queuing_mutex", "going", "load", 2, 1),
  ("queuing_mutex", "going", "store", 3, 2),
  ("queuing_mutex", "tail", "cas", 4, 1),
  ("queuing_mutex", "tail", "cas", 5, 2),
  ("queuing_mutex", "tail", "xchg", 5, 1),
  ("queuing_rw_mutex", "going", "load", 2, 1),
  ("queuing_rw_mutex", "going", "store", 3, 2),
  ("queuing_rw_mutex", "tail", "cas", 3, 2),
  ("queuing_rw_mutex", "tail", "cas", 4, 1),
  ("queuing_rw_mutex", "tail", "xchg", 4, 1),
  ("rw_mutex", "word", "cas", 5, 1),
  ("rw_mutex", "word", "fadd", 5, 1),
  ("rw_mutex", "word", "fadd", 5, 2),
  ("rw_mutex", "word", "fand", 5, 2),
  ("rw_mutex", "word", "fsub", 5, 2),
  ("speculative_spin_mutex", "word", "store", 3, 2),
  ("speculative_spin_mutex", "word", "xchg", 5, 1),
  ("speculative_spin_rw_mutex", "word", "cas", 5, 1),
  ("speculative_spin_rw_mutex", "word", "fadd", 5, 1),
  ("speculative_spin_rw_mutex", "word", "fadd", 5, 2),
  ("speculative_spin_rw_mutex", "word", "fand", 5, 2),
  ("speculative_spin_rw_mutex", "word", "fsub", 5, 2),
  ("spin_mutex", "word", "store", 3, 2),
  ("spin_mutex", "word", "xchg", 5, 1),
  ("spin_rw_mutex", "word", "cas", 5, 1),
  ("spin_rw_mutex", "word", "fadd", 5, 1),
  ("spin_rw_mutex", "word", "fadd", 5, 2),
  ("spin_rw_mutex", "word", "fand", 5, 2),
  ("spin_rw_mutex", "word", "fsub", 5, 2)]
/-- facts about the source text of rtm_rw_mutex.cpp / rtm_mutex.cpp (statement order of the real paths, what the speculative paths read inside
the transaction, that a speculative release commits without storing), re-extracted on every run -/
def rtmSrc : List (String × Bool) := [
  ("rtm_rw acquire_writer, real path: m.lock() precedes write_flag.store(true)", true),
  ("rtm_rw acquire_writer, real path: the lock becomes rtm_real_writer (scoped_lock-local state) after m.lock()", true),
  ("rtm_rw acquire_writer, speculative path: m_state is read inside the transaction and a non-zero value aborts it", true),
  ("rtm_rw acquire_reader, speculative path: write_flag is read inside the transaction and `true` aborts it", true),
  ("rtm_rw acquire_reader, real path: lock_shared() and no store to write_flag", true),
  ("rtm_rw release of a transacting holder: end_transaction() and no store / unlock", true),
  ("rtm_rw release of a real writer: write_flag.store(false) precedes m.unlock()", true),
  ("rtm_rw release of a real reader: unlock_shared() and no store to write_flag", true),
  ("rtm_rw upgrade of a real reader: m.upgrade() precedes write_flag.store(true)", true),
  ("rtm_rw upgrade of a transacting reader: m_state is read (joins the read set) before it becomes a transacting writer", true),
  ("rtm_rw downgrade of a real writer: write_flag.store(false) precedes m.downgrade()", true),
  ("rtm_rw downgrade of a transacting writer: no store", true),
  ("rtm_rw try_acquire_writer: write_flag.store(true) only after m.try_lock() succeeded", true),
  ("rtm_rw: write_flag is stored at exactly five places (acquire_writer, try_acquire_writer, upgrade: true; release, downgrade: false)", true),
  ("rtm_mutex acquire, speculative path: m_flag is read inside the transaction and `true` aborts it", true),
  ("rtm_mutex release of a transacting holder: end_transaction() and no store / unlock", true),
  ("rtm_mutex real path: acquire ends in m.lock(), release of a real holder is m.unlock()", true)]

end TbbVerif.Generated.C08
