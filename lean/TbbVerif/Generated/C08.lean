-- GENERATED from /repo by checks/ on every run. Do not edit.
import TbbVerif.Core.Cint
namespace TbbVerif.Generated.C08
open TbbVerif.Cint
def rwOneReader : Nat := 4
def rwWriter : Nat := 1
def rwWriterPending : Nat := 2
def spinBusyLow : Nat := 253
def spinChecks : Nat := 38
def spinOneReader : Nat := 4
def spinReadersMaskLow : Nat := 252
def spinWriter : Nat := 1
def spinWriterPending : Nat := 2
/-- (lock kind, variable, access kind, std::memory_order executed, role: 1 acquiring / 2 releasing), from the E-SHIM traces -/
def orders : List (String × String × String × Nat × Nat) := [
  ("mutex", "word", "xchg", 5, 1),
  ("mutex", "word", "xchg", 5, 2),
  ("queuing_mutex", "going", "load", 2, 1),
  ("queuing_mutex", "going", "store", 3, 2),
  ("queuing_mutex", "tail", "cas", 4, 1),
  ("queuing_mutex", "tail", "cas", 5, 2),
  ("queuing_mutex", "tail", "xchg", 5, 1),
  ("queuing_rw_mutex", "going", "load", 2, 1),
  ("queuing_rw_mutex", "going", "store", 3, 2),
  ("queuing_rw_mutex", "tail", "cas", 3, 2),
  ("queuing_rw_mutex", "tail", "cas", 4, 1),
  ("queuing_rw_mutex", "tail", "xchg", 4, 1),
  ("rw_mutex", "word", "cas", 5, 1),
  ("rw_mutex", "word", "fadd", 5, 1),
  ("rw_mutex", "word", "fadd", 5, 2),
  ("rw_mutex", "word", "fand", 5, 2),
  ("rw_mutex", "word", "fsub", 5, 2),
  ("speculative_spin_mutex", "word", "store", 3, 2),
  ("speculative_spin_mutex", "word", "xchg", 5, 1),
  ("speculative_spin_rw_mutex", "word", "cas", 5, 1),
  ("speculative_spin_rw_mutex", "word", "fadd", 5, 1),
  ("speculative_spin_rw_mutex", "word", "fadd", 5, 2),
  ("speculative_spin_rw_mutex", "word", "fand", 5, 2),
  ("speculative_spin_rw_mutex", "word", "fsub", 5, 2),
  ("spin_mutex", "word", "store", 3, 2),
  ("spin_mutex", "word", "xchg", 5, 1),
  ("spin_rw_mutex", "word", "cas", 5, 1),
  ("spin_rw_mutex", "word", "fadd", 5, 1),
  ("spin_rw_mutex", "word", "fadd", 5, 2),
  ("spin_rw_mutex", "word", "fand", 5, 2),
  ("spin_rw_mutex", "word", "fsub", 5, 2)]

end TbbVerif.Generated.C08
