-- GENERATED from /repo by checks/ on every run. Do not edit.
import TbbVerif.Core.Cint
namespace TbbVerif.Generated.C07
open TbbVerif.Cint
def initialBufferSize : Nat := 4
def tokenBits : Nat := 64
def bufferCleanup : Bool := true

end TbbVerif.Generated.C07
