-- GENERATED from /repo by checks/ on every run. Do not edit.
import TbbVerif.Core.Cint
namespace TbbVerif.Generated.C11
open TbbVerif.Cint
def pointersPerEmbeddedTable : Nat := 3
def pointersPerLongTable : Nat := 64
def embeddedTableSize : Nat := 8
def defaultFirstBlockSize : Nat := 1
def sizeTypeBits : Nat := 64
def gtalGuard (old_size new_size : Nat) : Bool := (decide (old_size < new_size))
def xNeed (end_index : Nat) : Bool := (decide (end_index > (8 : Nat)))
def xSelf (start_index : Nat) : Bool := (decide (start_index ≤ (8 : Nat)))
def altWait (segment_base_i start_index : Nat) : Bool := (decide (segment_base_i < start_index))
def csFirst (seg_index first_block : Nat) : Bool := (decide (seg_index < first_block))
def csOwner (index offset : Nat) : Bool := (decide (index = offset))
def csTagEnd (table_is_embedded : Bool) (first_block : Nat) : Nat := (if table_is_embedded then (3 : Nat) else first_block)
def csFill (i first_block : Nat) : Bool := (decide (i < first_block))
def csMirror (i first_block : Nat) : Bool := ((decide (i < first_block)) && (decide (i < (3 : Nat))))
def growEager (seg_index first_block : Nat) : Bool := (decide (seg_index > first_block))
def growOwns (first_element start_idx end_idx : Nat) : Bool := ((decide (first_element ≥ start_idx)) && (decide (first_element < end_idx)))
def gtalLong (end_segment : Nat) : Bool := (decide (end_segment ≥ (3 : Nat)))

end TbbVerif.Generated.C11
