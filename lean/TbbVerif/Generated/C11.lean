-- GENERATED from /repo by checks/ on every run. Do not edit.
import TbbVerif.Core.Cint
namespace TbbVerif.Generated.C11
open TbbVerif.Cint
def pointersPerEmbeddedTable : Nat := 3
def pointersPerLongTable : Nat := 64
def embeddedTableSize : Nat := 8
def defaultFirstBlockSize : Nat := 1
def sizeTypeBits : Nat := 64
def gtalGuard (old_size new_size : Nat) : Bool := (decide (old_size < new_size))

end TbbVerif.Generated.C11
