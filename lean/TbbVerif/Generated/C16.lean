-- GENERATED from /repo by checks/ on every run. Do not edit.
import TbbVerif.Core.Cint
namespace TbbVerif.Generated.C16
open TbbVerif.Cint
def pendingDeltaBase : Nat := 32768
def pendingDeltaBaseLog2 : Nat := 15
def numPriorityLevels : Nat := 3
def refExternalBits : Nat := 12
def intBits : Nat := 32
def pendingWordBits : Nat := 64

end TbbVerif.Generated.C16
