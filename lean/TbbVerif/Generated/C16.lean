-- GENERATED from /repo by checks/ on every run. Do not edit.
import TbbVerif.Core.Cint
namespace TbbVerif.Generated.C16
open TbbVerif.Cint
def pendingDeltaBase : Nat := 32768
def pendingDeltaBaseLog2 : Nat := 15
def numPriorityLevels : Nat := 3
def refExternalBits : Nat := 12
def intBits : Nat := 32
def pendingWordBits : Nat := 64

set_option linter.unusedVariables false
/-! isolation filters, isolation tags, mandatory-concurrency decisions, observer call sites: regenerated from the source text -/
/-- `isolation!=no_isolation&&isolation!=task_accessor::isolation(*result)` -/
def isoOwnOmit (iso tag : Nat) : Bool := ((iso != 0) && (iso != tag))
/-- `!omit&&!task_accessor::is_proxy_task(*result)` -/
def isoOwnPlain (omitted isProxy : Bool) : Bool := ((!omitted) && (!isProxy))
/-- `omit` -/
def isoOwnSkip (omitted : Bool) : Bool := omitted
/-- `isolation==no_isolation||isolation==task_accessor::isolation(*result)` -/
def isoStealOk (iso tag : Nat) : Bool := ((iso == 0) || (iso == tag))
/-- `!task_accessor::is_proxy_task(*result)` -/
def isoStealPlain (isProxy : Bool) : Bool := (!isProxy)
/-- `!task_proxy::is_shared(tp.task_and_tag)||!tp.outbox->recipient_is_idle()||a.mailbox(slot_index).recipient_is_idle()` -/
def isoStealProxyTake (shared destIdle victimIdle : Bool) : Bool := (((!shared) || (!destIdle)) || victimIdle)
/-- `isolation!=no_isolation` -/
def isoMailGuard (iso : Nat) : Bool := (iso != 0)
/-- `task_accessor::isolation(*curr)!=isolation` -/
def isoMailSkip (iso tag : Nat) : Bool := (tag != iso)
/-- `dl_guard.old_execute_data_ext.isolation` -/
def isoLoop (edIso : Nat) : Nat := edIso
/-- `isolation` -/
def isoArgOwn1 (iso : Nat) : Nat := iso
/-- `isolation` -/
def isoArgOwn2 (iso : Nat) : Nat := iso
/-- `isolation` -/
def isoArgIdle (iso : Nat) : Nat := iso
/-- `isolation` -/
def isoArgMail1 (iso : Nat) : Nat := iso
/-- `isolation` -/
def isoArgMail2 (iso : Nat) : Nat := iso
/-- `isolation` -/
def isoArgMail3 (iso : Nat) : Nat := iso
/-- `isolation` -/
def isoArgSteal1 (iso : Nat) : Nat := iso
/-- `isolation` -/
def isoArgSteal2 (iso : Nat) : Nat := iso
/-- `isolation` -/
def isoArgSteal3 (iso : Nat) : Nat := iso
/-- `isolation` -/
def isoArgCrit1 (iso : Nat) : Nat := iso
/-- `isolation` -/
def isoArgCrit2 (iso : Nat) : Nat := iso
/-- `isolation` -/
def isoArgCrit3 (iso : Nat) : Nat := iso
/-- `fifo_allowed&&isolation==no_isolation` -/
def isoFifoOk (fifoAllowed : Bool) (iso : Nat) : Bool := (fifoAllowed && (iso == 0))
/-- `isolation!=no_isolation` -/
def isoCritSpecific (iso : Nat) : Bool := (iso != 0)
/-- `result&&task_accessor::isolation(*result)==isolation` -/
def isoCritMatch (nonNull : Bool) (iso tag : Nat) : Bool := (nonNull && (tag == iso))
/-- `tls->my_task_dispatcher->m_execute_data_ext.isolation` -/
def tagSpawn (edIso : Nat) : Nat := edIso
/-- `ed.isolation` -/
def tagSpawnAff (edIso : Nat) : Nat := edIso
/-- `ed.isolation` -/
def tagProxy (edIso : Nat) : Nat := edIso
/-- `tls.my_task_dispatcher->m_execute_data_ext.isolation` -/
def tagCritical (edIso : Nat) : Nat := edIso
/-- `no_isolation` -/
def tagEnqueue (edIso : Nat) : Nat := 0
/-- `task_accessor::isolation(*t)` -/
def edAfterOwn (tag : Nat) : Nat := tag
/-- `task_accessor::isolation(*t)` -/
def edAfterIdle (tag : Nat) : Nat := tag
/-- `task_accessor::isolation(*crit_t)` -/
def edAfterCrit (tag : Nat) : Nat := tag
/-- `isolation?isolation:reinterpret_cast<isolation_type>(&d)` -/
def isolateTag (iso fresh : Nat) : Nat := (if (iso != 0) then iso else fresh)
/-- `current_isolation` -/
def isolateSet (cur : Nat) : Nat := cur
/-- `work_type==work_enqueued&&my_num_slots>my_num_reserved_slots` -/
def advMandCond (enq : Bool) (numSlots reserved : Nat) : Bool := (enq && (decide (numSlots > reserved)))
/-- `is_mandatory_needed||are_workers_needed` -/
def advReports (m w : Bool) : Bool := (m || w)
/-- `is_mandatory_needed?1:0` -/
def advMandDelta (m : Bool) : Int := ((if m then 1 else 0) : Int)
/-- `are_workers_needed?my_max_num_workers:0` -/
def advWorkersDelta (w : Bool) (maxW : Nat) : Int := ((if w then maxW else 0) : Int)
/-- `is_mandatory_needed&&is_arena_workerless()` -/
def advOverrideCond (m workerless : Bool) : Bool := (m && workerless)
/-- `1` -/
def advOverrideVal : Int := (1 : Int)
/-- `!has_enqueued_tasks()` -/
def oowMandPred (hasEnq : Bool) : Bool := (!hasEnq)
/-- `!has_tasks()` -/
def oowPoolPred (hasTasks : Bool) : Bool := (!hasTasks)
/-- `disable_mandatory||release_workers` -/
def oowReports (m w : Bool) : Bool := (m || w)
/-- `disable_mandatory?-1:0` -/
def oowMandDelta (m : Bool) : Int := (if m then (-(1 : Int)) else (0 : Int))
/-- `release_workers?-(int)my_max_num_workers:0` -/
def oowWorkersDelta (w : Bool) (maxW : Nat) : Int := (if w then (-(maxW : Int)) else (0 : Int))
/-- `disable_mandatory&&is_arena_workerless()` -/
def oowOverrideCond (m workerless : Bool) : Bool := (m && workerless)
/-- `-1` -/
def oowOverrideVal : Int := (-(1 : Int))
/-- `my_max_num_workers==0` -/
def arenaWorkerless (maxW : Nat) : Bool := (maxW == 0)
/-- `ref_param==ref_external&&!my_mandatory_concurrency.test()` -/
def leaveCallsOow (external mandSet : Bool) : Bool := (external && (!mandSet))
/-- `last==my_tail.load(std::memory_order_relaxed)` -/
def obsEntrySkip (lastIsTail : Bool) : Bool := lastIsTail
/-- `last==nullptr` -/
def obsExitSkip (lastIsNull : Bool) : Bool := lastIsNull
def obsEntryOnWorkerJoin : Bool := true
def obsExitOnWorkerLeave : Bool := true
def obsEntryOnExecuteJoin : Bool := true
def obsExitOnExecuteLeave : Bool := true
def obsExitOnThreadEnd : Bool := true
def obsEntryOnActivate : Bool := true
/-! isolate_within_arena skeleton, nested_arena_context, dispatcher / resume / bypass facts: regenerated from the source text -/
/-- `dispatcher->m_execute_data_ext.isolation` -/
def isoPrevInit (edIso : Nat) : Nat := edIso
/-- `previous_isolation` -/
def isolateRestore (prev : Nat) : Nat := prev
/-- `no_isolation` -/
def nestedArenaIso : Nat := 0
/-- `0` -/
def baseIso : Nat := 0
/-- `no_isolation` -/
def resumeTag : Nat := 0
/-- `tls->my_task_dispatcher->m_execute_data_ext.isolation` -/
def execWaitTag (edIso : Nat) : Nat := edIso
/-- `num_workers_active()<my_num_workers_allotted.load(std::memory_order_relaxed)` -/
def joinableCond (active allot : Nat) : Bool := (decide (active < allot))
/-- `num_workers_active()>my_num_workers_allotted.load(std::memory_order_relaxed)` -/
def recallCond (active allot : Nat) : Bool := (decide (active > allot))
def isoBodyAssignsPrev : Bool := true
def isoCompletionByRef : Bool := true
def isoRestoreOnReturn : Bool := true
def isoRestoreOnThrow : Bool := true
def resumeFiltered : Bool := false
def critRespawnBeforeEd : Bool := true
def bypassKeepsEd : Bool := true
def resumeReturnsNoTask : Bool := true

end TbbVerif.Generated.C16
