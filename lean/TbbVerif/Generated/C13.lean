-- GENERATED from /repo by checks/ on every run. Do not edit.
import TbbVerif.Core.Cint
namespace TbbVerif.Generated.C13
open TbbVerif.Cint
set_option linter.unusedVariables false
/-- is every `*(tmp->elem) = std::move(...)` of handle_operations inside a try block whose handler stores FAILED? -/
def popAssignGuarded : Bool := false

/-- first pass, guard of the pop that takes `data.back()`: `mark < data.size() && my_compare(data[0], data.back())` -/
def shortcutP1 {α : Type} (cmp : α → α → Bool) (mark size : Nat) (dat : Nat → α) (back : α) : Bool :=
  ((decide (mark < size)) && (cmp (dat 0) back))
/-- second pass, guard of the pop that takes `data.back()`: `mark < data.size() && my_compare(data[0], data.back())` -/
def shortcutP2 {α : Type} (cmp : α → α → Bool) (mark size : Nat) (dat : Nat → α) (back : α) : Bool :=
  ((decide (mark < size)) && (cmp (dat 0) back))
/-- second pass, guard of FAILED: `data.empty()` -/
def emptyP2 (mark size : Nat) : Bool := (decide (size = 0))
/-- guard of the final heapify: `mark < data.size()` -/
def finishGuard (mark size : Nat) : Bool := (decide (mark < size))

/-! statement skeleton of handle_operations (locals alpha-renamed; assertions, ITT notes, comments dropped) -/
def topLevel : List String := ["while-op_list", "while-pop_list", "finish"]
def p1Head : List String := ["take", "advance"]
def p1PopShortcut : List String := ["elem=back", "size-1", "status=S:rel", "pop_back"]
def p1PopDefer : List String := ["defer-link", "defer-head"]
def p1Push : List String := ["try", "push_back", "size+1", "status=S:rel", "catch", "status=F:rel", "end-try"]
def p2Head : List String := ["take", "advance"]
def p2Empty : List String := ["status=F:rel"]
def p2Shortcut : List String := ["elem=back", "size-1", "status=S:rel", "pop_back"]
def p2Top : List String := ["elem=top", "size-1", "status=S:rel", "reheap"]

end TbbVerif.Generated.C13
