-- GENERATED from /repo by checks/ on every run. Do not edit.
import TbbVerif.Core.Cint
namespace TbbVerif.Generated.C13
open TbbVerif.Cint
/-- is every `*(tmp->elem) = std::move(...)` of handle_operations inside a try block whose handler stores FAILED? -/
def popAssignGuarded : Bool := false

end TbbVerif.Generated.C13
