-- GENERATED from /repo by checks/ on every run. Do not edit.
import TbbVerif.Core.Cint
namespace TbbVerif.Generated.C10
open TbbVerif.Cint
def embeddedBlock : Nat := 1
def embeddedBuckets : Nat := 2
def emptyRehashedFlag : Nat := 0
def firstBlock : Nat := 8
def growAt0 : Nat := 1
def growAt1 : Nat := 255
def growAt2 : Nat := 511
def initialMask : Nat := 1
def lockOneReader : Nat := 4
def lockWriter : Nat := 1
def lockWriterPending : Nat := 2
def maskAfter0 : Nat := 255
def maskAfter1 : Nat := 511
def maskAfter2 : Nat := 1023
def pointersPerTable : Nat := 64
def rehashReqFlag : Nat := 3

end TbbVerif.Generated.C10
