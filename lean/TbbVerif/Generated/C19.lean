-- GENERATED from /repo by checks/ on every run. Do not edit.
import TbbVerif.Core.Cint
namespace TbbVerif.Generated.C19
open TbbVerif.Cint
def etsHashBits : Nat := 64
def etsInitLg : Nat := 2
def etsKeyBytes : Nat := 8
def maxHelpers : Nat := 127
def maxRefs : Nat := 128
def refMask : Nat := 127
def runnerAlign : Nat := 128
def stDone : Nat := 1
def stUninit : Nat := 0
def wordBits : Nat := 64
def skDoneAfterCall : Bool := true
def skDtorWaitsRefs : Bool := true
def skResetByCas : Bool := true
def skPinByCas : Bool := true
def skIsolate : Bool := true
def ordLateLoad : Nat := 2
def ordSpinLoad : Nat := 2
def ordDoneCas : Nat := 5
def ordRefDec : Nat := 5
def ordDtorLoad : Nat := 2
def stCommitAfterConstruct : Bool := true
def stClaimAfterCreate : Bool := true
def lifeClearKey : List Nat := [4, 0, 1, 3]
def lifeClearNo : List Nat := [4, 3]
def lifeCtorKey : List Nat := [1]
def lifeCtorNo : List Nat := []
def lifeDtorKey : List Nat := [0, 1, 3, 4, 0]
def lifeDtorNo : List Nat := [3, 4]
def lifeSwapKey : Bool := true
def lifeTlsLookup : Bool := true

end TbbVerif.Generated.C19
